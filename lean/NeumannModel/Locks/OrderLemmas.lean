import NeumannModel.Locks.OrderModel
/-
  C12 — helper lemmas for the lock-order model: a system whose threads all acquire in increasing
  rank is never stuck; the discipline is kept by every step; every entry point of the coordinator
  as it is now follows the discipline (compositional `Closed` blocks).
-/
namespace Neumann.Locks.Order
open Res Mode Act

theorem rank_lt (r : Res) : r.rank < 10 := by cases r <;> decide

/-! ### what `Ordered` gives -/

theorem ordered_done {t : Thread} (ho : t.Ordered) (hd : t.todo = []) : t.held = [] := by
  unfold Thread.Ordered at ho
  rw [hd] at ho
  simpa [after] using ho

theorem ordered_acq_above {t : Thread} (ho : t.Ordered) {r : Res} {m : Mode} {rest : List Act}
    (hd : t.todo = .acq r m :: rest) {r' : Res} (hh : t.holds r' = true) : r'.rank < r.rank := by
  unfold Thread.Ordered at ho
  rw [hd] at ho
  simp only [after] at ho
  split at ho
  · rename_i hall
    simp only [Thread.holds, List.any_eq_true] at hh
    obtain ⟨h, hm, he⟩ := hh
    have := (List.all_eq_true.mp hall) h hm
    have e : h.1 = r' := by simpa using he
    rw [e] at this
    simpa using this
  · cases ho

theorem ordered_step {t : Thread} (ho : t.Ordered) : t.step.Ordered := by
  unfold Thread.Ordered at ho ⊢
  unfold Thread.step
  split
  · exact ho
  · rename_i r m rest hd
    rw [hd] at ho
    simp only [after] at ho
    split at ho
    · exact ho
    · cases ho
  · rename_i r m rest hd
    rw [hd] at ho
    simpa [after] using ho

/-! ### never stuck -/

theorem ordered_not_stuck (s : Sys) (ho : ∀ t ∈ s, t.Ordered) : ¬ Stuck s := by
  intro ⟨⟨t0, ht0, hne⟩, hall⟩
  have key : ∀ n, ∀ t ∈ s, ∀ r m rest, t.todo = .acq r m :: rest → 10 ≤ r.rank + n → False := by
    intro n
    induction n with
    | zero =>
      intro t _ r m rest _ h
      have := rank_lt r
      omega
    | succ n ih =>
      intro t ht r m rest htodo hr
      obtain ⟨r', m', rest', e, u, hu, hh⟩ := hall t ht (by simp [htodo])
      rw [htodo] at e
      injection e with e1 _
      injection e1 with er em
      subst er
      have hune : u.todo ≠ [] := by
        intro hd
        have := ordered_done (ho u hu) hd
        simp [Thread.holds, this] at hh
      obtain ⟨r2, m2, rest2, e2, _⟩ := hall u hu hune
      have hlt : r.rank < r2.rank := ordered_acq_above (ho u hu) e2 hh
      exact ih u hu r2 m2 rest2 e2 (by omega)
  obtain ⟨r, m, rest, e, _⟩ := hall t0 ht0 hne
  exact key 10 t0 ht0 r m rest e (by omega)

theorem stepAt_ordered (adm : Sys → Thread → Bool) (s s' : Sys) (i : Nat)
    (ho : ∀ t ∈ s, t.Ordered) (h : stepAt adm s i = some s') : ∀ t ∈ s', t.Ordered := by
  unfold stepAt at h
  split at h
  · cases h
  · rename_i t hi
    split at h
    · injection h with h
      subst h
      intro u hu
      rcases List.mem_or_eq_of_mem_set hu with hu | hu
      · exact ho u hu
      · subst hu
        exact ordered_step (ho t (List.mem_of_getElem? hi))
    · cases h

theorem runSched_ordered (adm : Sys → Thread → Bool) (sched : List Nat) :
    ∀ (s s' : Sys), (∀ t ∈ s, t.Ordered) → runSched adm s sched = some s' → ∀ t ∈ s', t.Ordered := by
  induction sched with
  | nil =>
    intro s s' ho h
    simp only [runSched] at h
    injection h with h
    subst h
    exact ho
  | cons i is ih =>
    intro s s' ho h
    simp only [runSched] at h
    split at h
    · cases h
    · rename_i s1 h1
      exact ih s1 s' (stepAt_ordered adm s s1 i ho h1) h

theorem deadlockedRW_stuck (s : Sys) (h : deadlockedRW s = true) : Stuck s := by
  simp only [deadlockedRW, Bool.and_eq_true, List.any_eq_true, List.all_eq_true] at h
  obtain ⟨⟨t0, ht0, hne⟩, hall⟩ := h
  refine ⟨⟨t0, ht0, by simpa using hne⟩, ?_⟩
  intro t ht hne
  have := hall t ht
  have hemp : t.todo.isEmpty = false := by
    cases hd : t.todo with
    | nil => exact absurd hd hne
    | cons _ _ => rfl
  simp only [hemp, Bool.false_or, Bool.not_eq_true'] at this
  unfold rwAdmit at this
  split at this
  · rename_i hd; exact absurd hd hne
  · cases this
  · rename_i r m rest hd
    simp only [Bool.not_eq_false', List.any_eq_true] at this
    obtain ⟨u, hu, hc⟩ := this
    refine ⟨r, m, rest, hd, u, hu, ?_⟩
    simp only [Thread.holdsConflicting, List.any_eq_true, Bool.and_eq_true] at hc
    obtain ⟨h, hm, he, _⟩ := hc
    simp only [Thread.holds, List.any_eq_true]
    exact ⟨h, hm, he⟩

/-! ### compositional proof that the programs follow the discipline -/

/-- every guard in `H` has a rank below `k` -/
def Below (H : Held) (k : Nat) : Prop := ∀ h ∈ H, h.1.rank < k

/-- `p` can be run under any set of guards of rank below `k` and gives them back unchanged -/
def Closed (k : Nat) (p : List Act) : Prop := ∀ H, Below H k → after H p = some H

theorem after_append (H : Held) (p q : List Act) :
    after H (p ++ q) = (after H p).bind (fun H' => after H' q) := by
  induction p generalizing H with
  | nil => simp [after]
  | cons a p ih =>
    cases a with
    | acq r m =>
      simp only [List.cons_append, after]
      split
      · exact ih _
      · rfl
    | rel r m =>
      simp only [List.cons_append, after]
      exact ih _

theorem closed_nil (k : Nat) : Closed k [] := fun _ _ => rfl

theorem closed_append {k : Nat} {p q : List Act} (hp : Closed k p) (hq : Closed k q) :
    Closed k (p ++ q) := by
  intro H hH
  rw [after_append, hp H hH]
  exact hq H hH

theorem closed_mono {k k' : Nat} {p : List Act} (hp : Closed k p) (hk : k' ≤ k) : Closed k' p :=
  fun H hH => hp H (fun h hm => Nat.lt_of_lt_of_le (hH h hm) hk)

theorem closed_flatMap {α : Type} {k : Nat} (f : α → List Act) (l : List α)
    (hf : ∀ x, Closed k (f x)) : Closed k (l.flatMap f) := by
  induction l with
  | nil => exact closed_nil k
  | cons x l ih =>
    rw [List.flatMap_cons]
    exact closed_append (hf x) ih

theorem closed_ite {k : Nat} (c : Bool) {p q : List Act} (hp : Closed k p) (hq : Closed k q) :
    Closed k (if c then p else q) := by
  cases c
  · exact hq
  · exact hp

theorem below_all {H : Held} {k : Nat} (hH : Below H k) : H.all (fun h => h.1.rank < k) = true := by
  simp only [List.all_eq_true, decide_eq_true_eq]
  exact hH

theorem below_cons {H : Held} {k : Nat} {r : Res} {m : Mode} (hH : Below H r.rank) (hk : r.rank < k) :
    Below ((r, m) :: H) k := by
  intro h hm
  rcases List.mem_cons.mp hm with e | hm
  · subst e; exact hk
  · exact Nat.lt_trans (hH h hm) hk

/-- `let g = r.lock(); body; drop(g)` where `body` is closed above `r` -/
theorem closed_hold {k : Nat} {r : Res} {m : Mode} {body : List Act} (hk : k ≤ r.rank)
    (hb : Closed (r.rank + 1) body) : Closed k ([acq r m] ++ body ++ [rel r m]) := by
  intro H hH
  have hH' : Below H r.rank := fun h hm => Nat.lt_of_lt_of_le (hH h hm) hk
  simp only [List.cons_append, List.nil_append, after, below_all hH', if_true]
  rw [after_append, hb _ (below_cons hH' (Nat.lt_succ_self _))]
  simp [after]

theorem closed_once {k : Nat} (r : Res) (m : Mode) (hk : k ≤ r.rank) : Closed k (once r m) := by
  have := closed_hold (m := m) hk (closed_nil (r.rank + 1))
  simpa [once] using this

/-- two guards taken one inside the other and dropped in either order, with `body` inside both -/
theorem closed_hold2 {k : Nat} {r1 r2 : Res} {m1 m2 : Mode} {body : List Act} (hk : k ≤ r1.rank)
    (h12 : r1.rank < r2.rank) (hb : Closed (r2.rank + 1) body) (inner_first : Bool) :
    Closed k ([acq r1 m1, acq r2 m2] ++ body ++
      (if inner_first then [rel r2 m2, rel r1 m1] else [rel r1 m1, rel r2 m2])) := by
  intro H hH
  have hH1 : Below H r1.rank := fun h hm => Nat.lt_of_lt_of_le (hH h hm) hk
  have hH2 : Below ((r1, m1) :: H) r2.rank := below_cons hH1 h12
  have hH3 : Below ((r2, m2) :: (r1, m1) :: H) (r2.rank + 1) := below_cons hH2 (Nat.lt_succ_self _)
  have hne : ((r2, m2) == (r1, m1)) = false := by
    have : r2 ≠ r1 := by intro e; rw [e] at h12; exact Nat.lt_irrefl _ h12
    simp [this]
  simp only [List.cons_append, List.nil_append, after, below_all hH1, below_all hH2, if_true]
  rw [after_append, hb _ hH3]
  cases inner_first <;> simp [after, hne]


theorem below_zero {H : Held} (hH : Below H 0) : H = [] := by
  cases H with
  | nil => rfl
  | cons h t => exact absurd (hH h (List.mem_cons_self ..)) (Nat.not_lt_zero _)

theorem closed_zero_of_after {p : List Act} (h : after [] p = some []) : Closed 0 p := by
  intro H hH
  rw [below_zero hH]
  exact h

/-! ### the blocks -/

theorem closed_gRemoveTx (oi : Bool × Bool) : Closed 6 (gRemoveTx oi) := by
  unfold gRemoveTx
  refine closed_append (closed_append (closed_append (closed_append (closed_append ?_ ?_) ?_) ?_) ?_) ?_
  · exact closed_once _ _ (by decide)
  · exact closed_ite _ (closed_once _ _ (by decide)) (closed_nil _)
  · exact closed_once _ _ (by decide)
  · exact closed_ite _ (closed_once _ _ (by decide)) (closed_nil _)
  · exact closed_once _ _ (by decide)
  · exact closed_once _ _ (by decide)

theorem closed_gAddWait (self full prio : Bool) : Closed 6 (gAddWait self full prio) := by
  unfold gAddWait
  refine closed_ite _ (closed_nil _) (closed_append (closed_once _ _ (by decide)) ?_)
  refine closed_ite _ (closed_nil _) (closed_append (closed_append ?_ ?_) ?_)
  · exact closed_once _ _ (by decide)
  · exact closed_once _ _ (by decide)
  · exact closed_ite _ (closed_once _ _ (by decide)) (closed_nil _)

theorem closed_gRemoveWait (e : Bool) : Closed 6 (gRemoveWait e) := by
  unfold gRemoveWait
  refine closed_append (closed_hold (by decide) ?_) (closed_once _ _ (by decide))
  exact closed_ite _ (closed_once _ _ (by decide)) (closed_nil _)

theorem closed_gTransactionCount : Closed 6 gTransactionCount := by
  have := closed_hold2 (k := 6) (r1 := edges) (r2 := reverse) (m1 := read) (m2 := read)
    (by decide) (by decide) (closed_nil _) false
  simpa [gTransactionCount] using this

theorem closed_gClear : Closed 6 gClear := by
  unfold gClear
  exact closed_append (closed_append (closed_append (closed_once _ _ (by decide))
    (closed_once _ _ (by decide))) (closed_once _ _ (by decide))) (closed_once _ _ (by decide))

theorem closed_gCleanupStale (l : List (Bool × Bool)) : Closed 6 (gCleanupStale l) := by
  unfold gCleanupStale
  exact closed_append (closed_once _ _ (by decide)) (closed_flatMap _ _ closed_gRemoveTx)

theorem closed_lmSection : Closed 4 lmSection := by
  have := closed_hold2 (k := 4) (r1 := locks) (r2 := txLocks) (m1 := write) (m2 := write)
    (by decide) (by decide) (closed_nil _) false
  simpa [lmSection] using this

theorem closed_lmSectionRev : Closed 4 lmSectionRev := by
  have := closed_hold2 (k := 4) (r1 := locks) (r2 := txLocks) (m1 := write) (m2 := write)
    (by decide) (by decide) (closed_nil _) true
  simpa [lmSectionRev] using this

theorem closed_lmToSerializable : Closed 4 lmToSerializable := by
  have := closed_hold2 (k := 4) (r1 := locks) (r2 := txLocks) (m1 := read) (m2 := read)
    (by decide) (by decide) (closed_nil _) true
  simpa [lmToSerializable] using this

theorem closed_lmReleaseByHandleWC (f : Option (Bool × Bool)) : Closed 4 (lmReleaseByHandleWC f) := by
  unfold lmReleaseByHandleWC
  refine closed_append closed_lmSection ?_
  cases f with
  | none => exact closed_nil _
  | some oi => exact closed_mono (closed_gRemoveTx oi) (by decide)

theorem closed_lmCleanupExpiredWC (l : List (Bool × Bool)) : Closed 4 (lmCleanupExpiredWC l) := by
  unfold lmCleanupExpiredWC
  exact closed_append closed_lmSectionRev
    (closed_flatMap _ _ (fun oi => closed_mono (closed_gRemoveTx oi) (by decide)))

theorem closed_lmTryLockWT (b : Option (List (Bool × Bool))) (oi : Bool × Bool) :
    Closed 4 (lmTryLockWT b oi) := by
  cases b with
  | none =>
    have := closed_hold2 (k := 4) (r1 := locks) (r2 := txLocks) (m1 := write) (m2 := write)
      (by decide) (by decide) (closed_gRemoveTx oi) true
    simpa [lmTryLockWT] using this
  | some l =>
    have := closed_hold2 (k := 4) (r1 := locks) (r2 := txLocks) (m1 := write) (m2 := write)
      (body := l.flatMap (fun fp => gAddWait false fp.1 fp.2))
      (by decide) (by decide) (closed_flatMap _ _ (fun fp => closed_gAddWait _ _ _)) true
    simpa [lmTryLockWT] using this

theorem closed_blk (b : Blk) : Closed 1 b.prog := by
  cases b with
  | walEntry => exact closed_once _ _ (by decide)
  | abortsPush => exact closed_once _ _ (by decide)
  | releaseByHandle f => exact closed_mono (closed_lmReleaseByHandleWC f) (by decide)
  | removeTx oi => exact closed_mono (closed_gRemoveTx oi) (by decide)
  | cleanupExpired l => exact closed_mono (closed_lmCleanupExpiredWC l) (by decide)
  | lmRelease => exact closed_mono closed_lmSectionRev (by decide)
  | toSerializable => exact closed_mono closed_lmToSerializable (by decide)

theorem closed_underPending (m : Mode) (bs : List Blk) : Closed 0 (underPending m bs) := by
  unfold underPending
  exact closed_hold (Nat.le_refl _) (closed_flatMap _ _ closed_blk)

theorem closed_blocks (bs : List Blk) : Closed 0 (bs.flatMap Blk.prog) :=
  closed_flatMap _ _ (fun b => closed_mono (closed_blk b) (by decide))

theorem closed_sweepProg (owners : List (Bool × Bool)) : Closed 0 (sweepProg owners) := by
  unfold sweepProg
  exact closed_append (closed_zero_of_after (by decide))
    (closed_flatMap _ _ (fun oi => closed_mono (closed_gRemoveTx oi) (by decide)))

/-- every entry point as it is now acquires in increasing rank and ends holding nothing -/
theorem closed_entry (e : Entry) : Closed 0 (entryProg e) := by
  cases e with
  | begin wl refused => exact closed_underPending _ _
  | readPending => exact closed_once _ _ (by decide)
  | handlePrepare b oi o sc =>
    exact closed_append (closed_mono (closed_lmTryLockWT b oi) (by decide))
      (closed_ite _ (closed_underPending _ _) (closed_nil _))
  | recordVoteEarly wl => exact closed_append (closed_blocks _) (closed_underPending _ _)
  | recordVoteAbort wl =>
    exact closed_append (closed_append (closed_blocks _) (closed_underPending _ _))
      (closed_once _ _ (by decide))
  | recordVoteCrossConflict wl =>
    exact closed_append (closed_append (closed_append (closed_blocks _) (closed_underPending _ _))
      (closed_underPending _ _)) (closed_once _ _ (by decide))
  | recordVotePrepared wl =>
    exact closed_append (closed_append (closed_blocks _) (closed_underPending _ _))
      (closed_underPending _ _)
  | commit wl hs fin => exact closed_underPending _ _
  | abort wl hs fin => exact closed_underPending _ _
  | completeCommit hs fin => exact closed_underPending _ _
  | endRefused => exact closed_underPending _ _
  | cleanupTimeouts txs ex => exact closed_underPending _ _
  | recover txs ex => exact closed_underPending _ _
  | recoverFromWal orphans =>
    exact closed_append (closed_append (closed_once _ _ (by decide)) (closed_underPending _ _))
      (closed_flatMap _ _ (fun f => closed_mono (closed_lmReleaseByHandleWC f) (by decide)))
  | sweep owners => exact closed_sweepProg owners
  | toState => exact closed_underPending _ _
  | takePendingAborts => exact closed_once _ _ (by decide)
  | walOnly => exact closed_once _ _ (by decide)
  | abortStatesOnly => exact closed_once _ _ (by decide)
  | lmTryLock => exact closed_mono closed_lmSection (by decide)
  | lmRelease => exact closed_mono closed_lmSectionRev (by decide)
  | lmReleaseByHandleWC f => exact closed_mono (closed_lmReleaseByHandleWC f) (by decide)
  | lmCleanupExpiredWC l => exact closed_mono (closed_lmCleanupExpiredWC l) (by decide)
  | lmTryLockWT b oi => exact closed_mono (closed_lmTryLockWT b oi) (by decide)
  | lmReadLocks => exact closed_once _ _ (by decide)
  | lmReadTxLocks => exact closed_once _ _ (by decide)
  | lmToSerializable => exact closed_mono closed_lmToSerializable (by decide)
  | gAddWait s f p => exact closed_mono (closed_gAddWait s f p) (by decide)
  | gRemoveTx oi => exact closed_mono (closed_gRemoveTx oi) (by decide)
  | gRemoveWait e => exact closed_mono (closed_gRemoveWait e) (by decide)
  | gReadEdges => exact closed_once _ _ (by decide)
  | gReadReverse => exact closed_once _ _ (by decide)
  | gReadWaitStarted => exact closed_once _ _ (by decide)
  | gReadPriorities => exact closed_once _ _ (by decide)
  | gTransactionCount => exact closed_mono closed_gTransactionCount (by decide)
  | gClear => exact closed_mono closed_gClear (by decide)
  | gCleanupStale l => exact closed_mono (closed_gCleanupStale l) (by decide)

/-! ### critical sections: the wait-for graph is touched inside the lock-table section -/

theorem gut_once (H : Held) (r : Res) (m : Mode) (rest : List Act) (h : holdsTable H = true) :
    graphUnderTable H (once r m ++ rest) = graphUnderTable H rest := by
  simp only [once, List.cons_append, List.nil_append, graphUnderTable, h, Bool.or_true, Bool.true_and,
    List.erase_cons_head]

theorem gut_gAddWait (H : Held) (f p : Bool) (rest : List Act) (h : holdsTable H = true) :
    graphUnderTable H (gAddWait false f p ++ rest) = graphUnderTable H rest := by
  cases f <;> cases p <;>
    simp [gAddWait, List.append_assoc, gut_once, h]

theorem gut_addWaits (H : Held) (l : List (Bool × Bool)) (rest : List Act) (h : holdsTable H = true) :
    graphUnderTable H (l.flatMap (fun fp => gAddWait false fp.1 fp.2) ++ rest) = graphUnderTable H rest := by
  induction l with
  | nil => simp
  | cons a r ih => simp only [List.flatMap_cons, List.append_assoc, gut_gAddWait H a.1 a.2 _ h, ih]

theorem gut_gRemoveTx (H : Held) (oi : Bool × Bool) (rest : List Act) (h : holdsTable H = true) :
    graphUnderTable H (gRemoveTx oi ++ rest) = graphUnderTable H rest := by
  obtain ⟨o, i⟩ := oi
  cases o <;> cases i <;>
    simp [gRemoveTx, List.append_assoc, gut_once, h]

theorem graphUnderTable_lmTryLockWT (blockers : Option (List (Bool × Bool))) (oi : Bool × Bool) :
    graphUnderTable [] (lmTryLockWT blockers oi) = true := by
  have h0 : holdsTable [(Res.txLocks, Mode.write), (Res.locks, Mode.write)] = true := by decide
  unfold lmTryLockWT
  simp only [List.cons_append, List.nil_append, graphUnderTable, isGraphRes, Bool.not_false, Bool.true_or,
    Bool.true_and]
  cases blockers with
  | some l => simp only [gut_addWaits _ l _ h0]; decide
  | none => simp only [gut_gRemoveTx _ oi _ h0]; decide

theorem threadProg_ordered (calls : List Entry) : (Thread.mk [] (threadProg calls)).Ordered :=
  closed_flatMap _ _ closed_entry [] (fun _ h => absurd h (List.not_mem_nil))

theorem start_ordered (threads : List (List Entry)) :
    ∀ t ∈ start (threads.map threadProg), t.Ordered := by
  intro t ht
  simp only [start, List.map_map, List.mem_map] at ht
  obtain ⟨calls, _, rfl⟩ := ht
  exact threadProg_ordered calls

end Neumann.Locks.Order
