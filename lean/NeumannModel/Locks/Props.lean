import NeumannModel.Locks.Lemmas
import NeumannModel.Locks.GraphLemmas
import NeumannModel.Locks.WaitLemmas
/-
  C12 — property theorems: 2PC key locks (one unexpired holder, conflicts refused, all-or-nothing,
  nothing left behind, index consistent) and the deadlock detector (soundness, completeness,
  victim membership).  ONLY property statements and non-vacuity examples; helpers are in
  `Lemmas.lean` / `GraphLemmas.lean`.

  Operation sequences: `run ops (Sys.init T)` folds `step` over any list of
  try_lock / release / release_by_handle / cleanup_expired / advance-clock / serialize-restore
  operations; time only moves forward (`advance d`).  Every mutating LockManager operation takes
  both RwLocks (`locks`, then `tx_locks`) before its first read and drops them after its last write,
  and the readers take them in the same order, so every interleaving of threads on the lock table is
  one such sequence.  `crun ops (CSys.init T mx)` folds `cstep` over the coordinator-side operations
  on the pair (lock table, wait-for graph): the `*_with_wait_*` variants, the plain ones, the raw
  graph operations and the end-of-transaction sequence.  The WaitForGraph operations are NOT single
  critical sections in the code (four RwLocks taken one after the other); the graph theorems are
  about sequences of whole graph operations.
-/
namespace Neumann.Locks.Props
open Neumann.Locks

/-! ### lock table -/

/-- **Exclusivity.** After any operation sequence, two transactions that were each granted key `k`
    and have not released it since are never both unexpired. -/
theorem at_most_one_unexpired_holder (T : Nat) (ops : List Op) (g1 g2 : Grant)
    (h1 : g1 ∈ (run ops (Sys.init T)).ghost) (h2 : g2 ∈ (run ops (Sys.init T)).ghost)
    (hk : g1.key = g2.key)
    (e1 : g1.expired (run ops (Sys.init T)).now = false)
    (e2 : g2.expired (run ops (Sys.init T)).now = false) :
    g1.tx = g2.tx := by
  have hi := inv_run ops _ (inv_init T)
  obtain ⟨_, _, a3⟩ := hi.gh g1 h1
  obtain ⟨_, _, b3⟩ := hi.gh g2 h2
  simp only [Grant.expired, decide_eq_false_iff_not] at e1 e2
  rcases a3 with a3 | ⟨l, l1, l2, _⟩
  · omega
  · rcases b3 with b3 | ⟨l', l1', l2', _⟩
    · omega
    · rw [hk, l1'] at l1; simp at l1; subst l1; rw [← l2, ← l2']

/-- the table itself never shows two holders: the live holder of a key is a function of the state,
    and a live holder is always one of the ghost-tracked grants' transactions (state-level form) -/
theorem holder_unique (t : LockTable) (now k a b : Nat)
    (ha : lockHolder t now k = some a) (hb : lockHolder t now k = some b) : a = b := by
  rw [ha] at hb; simpa using hb

/-- **A prepare that meets a held key is refused with a conflict and nothing changes**
    (any table, any time, any key set). The named transaction is a live foreign holder of a requested key. -/
theorem conflict_refused_and_state_unchanged (t : LockTable) (now tx : Nat) (keys : List Nat) (k : Nat) (l : KeyLock)
    (hk : k ∈ keys) (hl : aGet t.locks k = some l) (hlive : l.isExpired now = false) (hother : l.tx ≠ tx) :
    ∃ c, tryLock t now tx keys = (t, .error c) ∧
      ∃ k' ∈ keys, ∃ l', aGet t.locks k' = some l' ∧ l'.isExpired now = false ∧ l'.tx ≠ tx ∧ l'.tx = c := by
  unfold tryLock
  cases hc : firstConflict t.locks now tx keys with
  | none =>
    have := (firstConflict_none_iff _ _ _ _).mp hc k hk l hl
    rcases this with h | h
    · simp [hlive] at h
    · exact absurd h hother
  | some c => exact ⟨c, rfl, firstConflict_some _ _ _ _ _ hc⟩

/-- **Granting is all-or-nothing**: either the call is refused and the table is untouched, or every
    requested key is now held by `tx` under one fresh handle and no other key moved.
    It is granted exactly when no requested key has a live foreign holder. -/
theorem grant_all_or_nothing (t : LockTable) (now tx : Nat) (keys : List Nat) :
    (∃ c, tryLock t now tx keys = (t, .error c) ∧
        ∃ k ∈ keys, ∃ l, aGet t.locks k = some l ∧ l.isExpired now = false ∧ l.tx ≠ tx) ∨
    (∃ t', tryLock t now tx keys = (t', .ok t.nextHandle) ∧
        (∀ k ∈ keys, aGet t'.locks k = some ⟨k, tx, t.nextHandle, now, t.defaultTimeout⟩) ∧
        (∀ k, k ∉ keys → aGet t'.locks k = aGet t.locks k) ∧
        (∀ k ∈ keys, ∀ l, aGet t.locks k = some l → l.isExpired now = true ∨ l.tx = tx)) := by
  unfold tryLock
  cases hc : firstConflict t.locks now tx keys with
  | some c =>
    left
    obtain ⟨k, hk, l, h1, h2, h3, _⟩ := firstConflict_some _ _ _ _ _ hc
    exact ⟨c, rfl, k, hk, l, h1, h2, h3⟩
  | none =>
    right
    refine ⟨_, rfl, ?_, ?_, (firstConflict_none_iff _ _ _ _).mp hc⟩
    · intro k hk; simp [aGet_acquireAll, hk, newLock]
    · intro k hk; simp [aGet_acquireAll, hk]

/-- **Nothing left behind by `release`**: after any operation sequence followed by `release tx`,
    no lock of `tx` remains and `tx` has no index entry. -/
theorem no_locks_after_release (T : Nat) (ops : List Op) (tx : Nat) :
    let s := run (ops ++ [Op.release tx]) (Sys.init T)
    (∀ k l, aGet s.t.locks k = some l → l.tx ≠ tx) ∧ aGet s.t.txLocks tx = none ∧
    (∀ g ∈ s.ghost, g.tx ≠ tx) := by
  have hi := inv_run ops _ (inv_init T)
  rw [show run (ops ++ [Op.release tx]) (Sys.init T) = step (run ops (Sys.init T)) (Op.release tx) by simp [run]]
  generalize run ops (Sys.init T) = s at hi ⊢
  simp only [step, release]
  cases hk : aGet s.t.txLocks tx with
  | none =>
    refine ⟨?_, hk, ?_⟩
    · intro k l h e
      obtain ⟨_, _, _, _, ks, h5, _⟩ := hi.lk k l h
      rw [e, hk] at h5; simp at h5
    · intro g hg; simpa using (List.mem_filter.mp hg).2
  | some keys =>
    refine ⟨?_, by simp [aGet_aRemove], ?_⟩
    · intro k l h e
      simp only [aGet_foldl_releaseKey] at h
      cases ho : aGet s.t.locks k with
      | none => simp [ho] at h
      | some l0 =>
        simp only [ho] at h
        obtain ⟨_, _, _, _, ks, h5, h6⟩ := hi.lk k l0 ho
        by_cases hc : l0.tx = tx ∧ k ∈ keys
        · simp [hc] at h
        · simp only [hc, ↓reduceIte, Option.some.injEq] at h
          subst h
          rw [e, hk] at h5; simp at h5; subst h5
          exact hc ⟨e, h6⟩
    · intro g hg; simpa using (List.mem_filter.mp hg).2

/-- **Nothing left behind by `release_by_handle`**: no lock carries the released handle afterwards
    (any reachable table). -/
theorem no_locks_after_release_by_handle (T : Nat) (ops : List Op) (h : Nat) :
    let s := run (ops ++ [Op.releaseByHandle h]) (Sys.init T)
    ∀ k l, aGet s.t.locks k = some l → l.handle ≠ h := by
  have hi := inv_run ops _ (inv_init T)
  rw [show run (ops ++ [Op.releaseByHandle h]) (Sys.init T) = step (run ops (Sys.init T)) (Op.releaseByHandle h) by simp [run]]
  generalize run ops (Sys.init T) = s at hi ⊢
  simp only [step, releaseByHandle]
  intro k l hl e
  simp only [foldl_dropKey_locks] at hl
  by_cases hk : k ∈ keysWithHandle s.t h
  · simp [hk] at hl
  · simp only [hk, ↓reduceIte] at hl
    exact hk ((mem_keysWithHandle s.t h k hi.nd).mpr ⟨l, hl, e⟩)

/-- **Expiry cleanup** removes exactly the expired locks: none remains, live ones are untouched,
    and the returned count is the number of expired keys (any reachable table). -/
theorem cleanup_removes_exactly_expired (T : Nat) (ops : List Op) :
    let s := run ops (Sys.init T)
    let r := cleanupExpired s.t s.now
    (∀ k l, aGet r.1.locks k = some l → l.isExpired s.now = false ∧ aGet s.t.locks k = some l) ∧
    (∀ k l, aGet s.t.locks k = some l → l.isExpired s.now = false → aGet r.1.locks k = some l) ∧
    r.2 = (expiredKeys s.t s.now).length := by
  have hi := inv_run ops _ (inv_init T)
  generalize run ops (Sys.init T) = s at hi ⊢
  simp only [cleanupExpired]
  refine ⟨?_, ?_, trivial⟩
  · intro k l hl
    simp only [foldl_dropKey_locks] at hl
    by_cases hk : k ∈ expiredKeys s.t s.now
    · simp [hk] at hl
    · simp only [hk, ↓reduceIte] at hl
      refine ⟨?_, hl⟩
      cases he : l.isExpired s.now with
      | false => rfl
      | true => exact absurd ((mem_expiredKeys s.t s.now k hi.nd).mpr ⟨l, hl, he⟩) hk
  · intro k l hl he
    have hk : k ∉ expiredKeys s.t s.now := by
      intro hk
      obtain ⟨l', h1, h2⟩ := (mem_expiredKeys s.t s.now k hi.nd).mp hk
      rw [hl] at h1; simp at h1; subst h1; simp [he] at h2
    simp [foldl_dropKey_locks, hk, hl]

/-- **Index consistency** (`tx_locks` ↔ `locks`): after any operation sequence every held lock is
    filed under its own key, is listed in its transaction's index entry, carries an issued handle,
    and both maps have unique keys. -/
theorem tx_index_consistent (T : Nat) (ops : List Op) :
    let s := run ops (Sys.init T)
    (∀ k l, aGet s.t.locks k = some l →
        l.key = k ∧ l.handle < s.t.nextHandle ∧ ∃ ks, aGet s.t.txLocks l.tx = some ks ∧ k ∈ ks) ∧
    (s.t.locks.map (·.1)).Nodup ∧ (s.t.txLocks.map (·.1)).Nodup := by
  have hi := inv_run ops _ (inv_init T)
  refine ⟨?_, hi.nd, hi.nd2⟩
  intro k l h
  obtain ⟨h1, h2, _, _, r⟩ := hi.lk k l h
  exact ⟨h1, h2, r⟩

/-- serialize → restore is the identity on the lock table (the handle counter is process-global) -/
theorem serialize_restore_identity (t : LockTable) : restore (serialize t) t.nextHandle = t :=
  restore_serialize t

/-! non-vacuity: a run with a grant, a refused conflict, an expiry take-over and releases -/

def demoOps : List Op :=
  [.tryLock 1 [10, 11], .tryLock 2 [11, 12], .advance 5, .tryLock 2 [11, 12], .serializeRestore,
   .tryLock 1 [10], .releaseByHandle 1, .cleanupExpired, .release 1]

example : ((run (demoOps.take 1) (Sys.init 3)).t.locks.map (·.1)) = [11, 10] := by decide
-- tx 2 is refused while tx 1 is live …
example : (run (demoOps.take 2) (Sys.init 3)).ghost.map (·.tx) = [1, 1] := by decide
-- … and takes key 11 over once tx 1's lock has expired: both grants on 11 are in the ghost, one expired
example : ((run (demoOps.take 4) (Sys.init 3)).ghost.filter (·.key == 11)).map
    (fun g => (g.tx, g.expired (run (demoOps.take 4) (Sys.init 3)).now)) = [(1, true), (2, false)] := by decide
example : ∃ c, tryLock (run (demoOps.take 1) (Sys.init 3)).t 0 2 [11, 12] = ((run (demoOps.take 1) (Sys.init 3)).t, .error c) :=
  ⟨1, rfl⟩
example : (run demoOps (Sys.init 3)).t.locks = [] ∧ (run demoOps (Sys.init 3)).t.nextHandle = 3 := by decide

/-! ### lock manager + wait-for graph: what happens when a transaction ends -/

/-- **`reverse_edges` is the transpose of `edges`** after every sequence of coordinator-side
    operations (`try_lock_with_wait_tracking`, `release_by_handle_with_wait_cleanup`,
    `cleanup_expired_with_wait_cleanup`, the plain lock operations, raw `add_wait` /
    `remove_transaction` / `remove_wait`, end of transaction, clock, serialize-restore), including
    the `max_edges_per_tx` early return of `add_wait`.  This is what makes `remove_transaction`
    find every edge that mentions the transaction. -/
theorem wait_graph_transpose_invariant (T mx : Nat) (ops : List COp) (w h : Nat) :
    h ∈ outs (crun ops (CSys.init T mx)).g w ↔ w ∈ ins (crun ops (CSys.init T mx)).g h :=
  (pairInv_run ops _ (pairInv_init T mx)).tr w h

/-- **An ended transaction is absent from the wait-for graph** (full strength: every operation
    sequence, every transaction id, every list of recorded handles — none, stale, foreign or
    valid).  After the end-of-transaction sequence of the current code (`endTx`: handle loop, then
    unconditional `remove_transaction`) the transaction has no out-edges entry, no in-edges entry,
    is in nobody's holder set and in nobody's waiter set, and has no wait-start / priority. -/
theorem ended_tx_absent_from_graph (T mx : Nat) (ops : List COp) (tx : Nat) (handles : List Nat) :
    let s := crun (ops ++ [COp.endTx tx handles]) (CSys.init T mx)
    aGet s.g.edges tx = none ∧ aGet s.g.reverse tx = none ∧
    (∀ w, tx ∉ outs s.g w) ∧ (∀ h, tx ∉ ins s.g h) ∧
    aGet s.g.waitStarted tx = none ∧ aGet s.g.priorities tx = none := by
  have hi := pairInv_run ops _ (pairInv_init T mx)
  rw [show crun (ops ++ [COp.endTx tx handles]) (CSys.init T mx)
      = cstep (crun ops (CSys.init T mx)) (COp.endTx tx handles) by simp [crun]]
  generalize crun ops (CSys.init T mx) = s at hi ⊢
  have hr := releaseHandles_inv handles s.t s.g hi.nd hi.nd2 hi.tr
  exact removeTransaction_absent _ tx hr.2.2

/-- …and none of the locks it was granted remains: after the end-of-transaction sequence no lock
    carries any of the released handles (every operation sequence, every handle list). -/
theorem ended_tx_holds_no_released_handle (T mx : Nat) (ops : List COp) (tx : Nat) (handles : List Nat) :
    let s := crun (ops ++ [COp.endTx tx handles]) (CSys.init T mx)
    ∀ k l, aGet s.t.locks k = some l → l.handle ∉ handles := by
  have hi := pairInv_run ops _ (pairInv_init T mx)
  rw [show crun (ops ++ [COp.endTx tx handles]) (CSys.init T mx)
      = cstep (crun ops (CSys.init T mx)) (COp.endTx tx handles) by simp [crun]]
  generalize crun ops (CSys.init T mx) = s at hi ⊢
  intro _ k l hl
  exact (releaseHandles_locks handles s.t s.g hi.nd hi.nd2 k l hl).2

/-- the graph-level core, for any graph whose reverse index is the transpose of its edges:
    `remove_transaction tx` erases `tx` on both sides and keeps every edge between other
    transactions -/
theorem remove_transaction_exact (g : WaitGraph) (tx : Nat) (hT : Transpose g) (a b : Nat) :
    (b ∈ outs (removeTransaction g tx) a ↔ b ∈ outs g a ∧ a ≠ tx ∧ b ≠ tx) ∧
    (a ∈ ins (removeTransaction g tx) b ↔ a ∈ ins g b ∧ a ≠ tx ∧ b ≠ tx) :=
  ⟨mem_outs_removeTransaction g tx a b hT, mem_ins_removeTransaction g tx a b hT⟩

-- non-vacuity: T1 holds key 7, T3 waits for it, the lock expires, T2 takes over, T4 waits for T2,
-- T1 ends with its (now stale) handle 0: before the end T1 is a holder in the graph, afterwards it
-- is gone and the unrelated edge T4 → T2 is still there
def endOps : List COp :=
  [.lockW 1 [7] none, .lockW 3 [7] (some 2), .advance 10, .lockW 2 [7] none, .lockW 4 [7] none]

example : outs (crun endOps (CSys.init 3 0)).g 3 = [1] ∧ ins (crun endOps (CSys.init 3 0)).g 1 = [3] := by decide
example : outs (crun (endOps ++ [.endTx 1 [0]]) (CSys.init 3 0)).g 3 = [] ∧
    outs (crun (endOps ++ [.endTx 1 [0]]) (CSys.init 3 0)).g 4 = [2] := by decide
example : Transpose (WaitGraph.empty 0) := transpose_empty 0

/-- the same statement about the PRE-FIX end-of-transaction sequence (`endTxOld`: handle loop only,
    the code before /repo db804a9a).  It is false; kept as a `def`, refuted below. -/
def EndedTxAbsentFromGraphOld : Prop :=
  ∀ (T mx : Nat) (ops : List COp) (tx : Nat) (handles : List Nat),
    let s := crun (ops ++ [COp.endTxOld tx handles]) (CSys.init T mx)
    aGet s.g.edges tx = none ∧ ∀ w, tx ∉ outs s.g w

/-- regression witness for the fixed finding `DistributedTxCoordinator.abort/ended_waiter_stays_in_wait_graph`
    (both forms replayed on the real coordinator before the fix):
    (a) T1 is granted key 7, T2 is refused and waits for T1, T2 aborts — it has no handle, the loop
        is empty, T2 stays a waiter;
    (b) T1 is granted key 7, T3 waits for T1, T1's lock expires and T2 takes the key over, T1
        commits — `release_by_handle_with_wait_cleanup` finds no lock with T1's handle, skips the
        graph cleanup, and T3 → T1 stays. -/
theorem ended_tx_absent_from_graph_witness :
    ¬ EndedTxAbsentFromGraphOld ∧
    outs (crun ([.lockW 1 [7] none, .lockW 3 [7] none, .advance 10, .lockW 2 [7] none] ++ [COp.endTxOld 1 [0]])
      (CSys.init 3 0)).g 3 = [1] := by
  refine ⟨?_, by decide⟩
  intro h
  have := (h 3 0 [.lockW 1 [7] none, .lockW 2 [7] none] 2 []).1
  exact absurd this (by decide)

/-! ### wait-for graph and deadlock detection -/

/-- **Soundness**: every cycle reported by `detect_cycles` (for every adjacency, in every iteration
    order) is a cycle of the recorded wait-for edges: non-empty, consecutive members are edges, and
    the last member waits for the first. -/
theorem reported_cycle_is_cycle (g : Adj) (c : List Nat) (h : c ∈ detectCycles g) : IsCycle g c :=
  detectCycles_sound g c h

/-- the cycles reported by the detector (`detect`, after the max-length filter and cascading) are
    among those of `detect_cycles`, hence real cycles -/
theorem detect_reports_real_cycles (cfg : DetectorCfg) (wg : WaitGraph) (lc : Option (Nat → Nat)) (g : Adj)
    (c : List Nat) (v : Nat) (h : (c, v) ∈ detect cfg wg lc g) : IsCycle g c :=
  detectCycles_sound g c (detect_subset cfg wg lc g c v h).1

/-- **Victim membership**: for every policy, every wait-start / priority / lock-count table, the
    victim of a non-empty cycle is a member of that cycle. -/
theorem victim_in_cycle (p : Policy) (wg : WaitGraph) (lc : Option (Nat → Nat)) (c : List Nat) (h : c ≠ []) :
    selectVictim p wg lc c ∈ c :=
  selectVictim_mem p wg lc c h

/-- every deadlock reported by `detect` names a victim inside its (real) cycle -/
theorem detect_victim_in_cycle (cfg : DetectorCfg) (wg : WaitGraph) (lc : Option (Nat → Nat)) (g : Adj)
    (c : List Nat) (v : Nat) (h : (c, v) ∈ detect cfg wg lc g) : v ∈ c := by
  obtain ⟨hc, hv⟩ := detect_subset cfg wg lc g c v h
  subst hv
  exact selectVictim_mem _ _ _ _ (detectCycles_sound g c hc).1

/-- **Completeness** (classical DFS argument, every graph, every iteration order, unbounded size):
    if the recorded wait-for relation contains a cycle, `detect_cycles` reports at least one. -/
theorem detect_complete (g : Adj) (h : HasCycle g) : detectCycles g ≠ [] :=
  detectCycles_complete g h

/-- the detector reports a cycle **exactly** when the recorded wait-for relation contains one -/
theorem detect_exact (g : Adj) : detectCycles g ≠ [] ↔ HasCycle g := by
  constructor
  · intro h
    cases hc : detectCycles g with
    | nil => exact absurd hc h
    | cons c r =>
      exact hasCycle_of_isCycle g c (detectCycles_sound g c (by rw [hc]; exact List.mem_cons_self))
  · exact detectCycles_complete g

/-- same, phrased with the list form of a cycle -/
theorem detect_complete_of_cycle (g : Adj) (c : List Nat) (h : IsCycle g c) : detectCycles g ≠ [] :=
  detectCycles_complete g (hasCycle_of_isCycle g c h)

/-- `DeadlockDetector::detect` (enabled) reports a deadlock whenever some DFS cycle passes the
    `max_cycle_length` filter; cascading never suppresses the first one. -/
theorem detector_reports_when_cycle_fits (cfg : DetectorCfg) (wg : WaitGraph) (lc : Option (Nat → Nat)) (g : Adj)
    (hen : cfg.enabled = true) (c : List Nat) (hc : c ∈ detectCycles g) (hl : c.length ≤ cfg.maxCycleLength) :
    detect cfg wg lc g ≠ [] :=
  detect_nonempty cfg wg lc g hen c hc hl

example : HasCycle [(1, [2]), (2, [3, 1]), (3, [1])] :=
  ⟨1, 2, by decide, Reach.step (v := 1) (by decide) (Reach.refl 1)⟩
example : ¬ HasCycle [(1, [2]), (2, [3])] := by
  rw [← detect_exact]; decide
example : detectCycles [(1, [2]), (2, [3, 1]), (3, [1])] = [[1, 2, 3], [1, 2]] := by decide
example : IsCycle [(1, [2]), (2, [3, 1]), (3, [1])] [1, 2, 3] := by decide
example : selectVictim .oldest { WaitGraph.empty 0 with waitStarted := [(1, 5), (2, 3), (3, 3)] } none [1, 2, 3] = 2 := by decide

end Neumann.Locks.Props
