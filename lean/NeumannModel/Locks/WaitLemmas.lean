import NeumannModel.Locks.Lemmas
/-
  C12 — the wait-for graph as a relation: `reverse_edges` is the transpose of `edges` after every
  sequence of graph operations, and what `remove_transaction` therefore achieves.  Core Lean only.
-/
namespace Neumann.Locks

/-- holders `w` waits for (`edges[w]`, absent = empty) -/
def outs (g : WaitGraph) (w : Nat) : List Nat := (aGet g.edges w).getD []
/-- waiters on `h` (`reverse_edges[h]`, absent = empty) -/
def ins (g : WaitGraph) (h : Nat) : List Nat := (aGet g.reverse h).getD []

/-- `reverse_edges` is exactly the transpose of `edges` -/
def Transpose (g : WaitGraph) : Prop := ∀ w h, h ∈ outs g w ↔ w ∈ ins g h

/-! ### membership in the set-valued maps after each primitive -/

theorem mem_get_aRemove (m : List (Nat × List Nat)) (k k' y : Nat) :
    y ∈ (aGet (aRemove m k) k').getD [] ↔ k' ≠ k ∧ y ∈ (aGet m k').getD [] := by
  rw [aGet_aRemove]
  by_cases h : k' = k <;> simp [h]

theorem mem_get_aInsert (m : List (Nat × List Nat)) (k k' y : Nat) (v : List Nat) :
    y ∈ (aGet (aInsert m k v) k').getD [] ↔ (k' = k ∧ y ∈ v) ∨ (k' ≠ k ∧ y ∈ (aGet m k').getD []) := by
  rw [aGet_aInsert]
  by_cases h : k = k'
  · subst h; simp
  · have : ¬ k' = k := fun e => h e.symm
    simp [h, this]

theorem mem_get_aModify_filter (m : List (Nat × List Nat)) (k k' t y : Nat) :
    y ∈ (aGet (aModify m k (fun s => s.filter (· != t))) k').getD [] ↔
      y ∈ (aGet m k').getD [] ∧ ¬ (k' = k ∧ y = t) := by
  rw [aGet_aModify]
  by_cases h : k' = k
  · subst h
    cases aGet m k' <;> simp
  · simp [h]

theorem mem_get_aModify_const (m : List (Nat × List Nat)) (k k' y : Nat) (v : List Nat)
    (hk : aGet m k ≠ none) :
    y ∈ (aGet (aModify m k (fun _ => v)) k').getD [] ↔
      (k' = k ∧ y ∈ v) ∨ (k' ≠ k ∧ y ∈ (aGet m k').getD []) := by
  rw [aGet_aModify]
  by_cases h : k' = k
  · subst h
    cases hg : aGet m k' with
    | none => exact absurd hg hk
    | some s => simp
  · simp [h]

theorem mem_setInsert (s : List Nat) (x y : Nat) : y ∈ setInsert s x ↔ y ∈ s ∨ y = x := by
  unfold setInsert
  by_cases h : x ∈ s
  · simp only [h, ↓reduceIte]
    constructor
    · exact Or.inl
    · rintro (a | a)
      · exact a
      · subst a; exact h
  · simp [h]

theorem mem_get_addToSet (m : List (Nat × List Nat)) (k x k' y : Nat) :
    y ∈ (aGet (addToSet m k x) k').getD [] ↔ y ∈ (aGet m k').getD [] ∨ (k' = k ∧ y = x) := by
  unfold addToSet
  cases hg : aGet m k with
  | none =>
    simp only
    rw [mem_get_aInsert]
    by_cases h : k' = k
    · subst h; simp [hg]
    · simp [h]
  | some s =>
    simp only
    rw [aGet_aModify]
    by_cases h : k' = k
    · subst h; simp [hg, mem_setInsert]
    · simp [h]

theorem eraseFromEach_nil (m : List (Nat × List Nat)) (tx : Nat) : eraseFromEach m [] tx = m := rfl

theorem mem_get_eraseFromEach (xs : List Nat) (m : List (Nat × List Nat)) (tx k y : Nat) :
    y ∈ (aGet (eraseFromEach m xs tx) k).getD [] ↔ y ∈ (aGet m k).getD [] ∧ ¬ (k ∈ xs ∧ y = tx) := by
  unfold eraseFromEach
  induction xs generalizing m with
  | nil => simp
  | cons a r ih =>
    simp only [List.foldl_cons]
    rw [ih, mem_get_aModify_filter]
    simp only [List.mem_cons]
    constructor
    · rintro ⟨⟨h1, h2⟩, h3⟩
      refine ⟨h1, ?_⟩
      rintro ⟨h4 | h4, h5⟩
      · exact h2 ⟨h4, h5⟩
      · exact h3 ⟨h4, h5⟩
    · rintro ⟨h1, h2⟩
      exact ⟨⟨h1, fun h => h2 ⟨Or.inl h.1, h.2⟩⟩, fun h => h2 ⟨Or.inr h.1, h.2⟩⟩

/-! ### `add_wait` -/

theorem mem_outs_addWait (g : WaitGraph) (now w h : Nat) (p : Option Nat) (a b : Nat) :
    b ∈ outs (addWait g now w h p) a ↔
      b ∈ outs g a ∨ (a = w ∧ b = h ∧ w ≠ h ∧
        ¬ (g.maxEdgesPerTx > 0 ∧ ((aGet g.edges w).getD []).length ≥ g.maxEdgesPerTx)) := by
  unfold addWait outs
  by_cases h1 : w = h
  · simp [h1]
  · by_cases h2 : g.maxEdgesPerTx > 0 ∧ ((aGet g.edges w).getD []).length ≥ g.maxEdgesPerTx
    · simp only [h1, ↓reduceIte, h2, and_self, not_true_eq_false, and_false, or_false]
      cases hg : aGet g.edges w with
      | some s => simp
      | none =>
        simp only
        rw [mem_get_aInsert]
        by_cases e : a = w
        · subst e; simp [hg]
        · simp [e]
    · simp only [h1, ↓reduceIte, h2, mem_get_addToSet, ne_eq, not_false_eq_true, and_true]

theorem mem_ins_addWait (g : WaitGraph) (now w h : Nat) (p : Option Nat) (a b : Nat) :
    a ∈ ins (addWait g now w h p) b ↔
      a ∈ ins g b ∨ (a = w ∧ b = h ∧ w ≠ h ∧
        ¬ (g.maxEdgesPerTx > 0 ∧ ((aGet g.edges w).getD []).length ≥ g.maxEdgesPerTx)) := by
  unfold addWait ins
  by_cases h1 : w = h
  · simp [h1]
  · by_cases h2 : g.maxEdgesPerTx > 0 ∧ ((aGet g.edges w).getD []).length ≥ g.maxEdgesPerTx
    · simp only [h1, ↓reduceIte, h2, and_self, not_true_eq_false, and_false, or_false]
      cases hg : aGet g.edges w <;> simp
    · simp only [h1, ↓reduceIte, h2, mem_get_addToSet, ne_eq, not_false_eq_true, and_true]
      constructor
      · rintro (x | ⟨x, y⟩)
        · exact Or.inl x
        · exact Or.inr ⟨y, x⟩
      · rintro (x | ⟨x, y⟩)
        · exact Or.inl x
        · exact Or.inr ⟨y, x⟩

theorem transpose_addWait (g : WaitGraph) (now w h : Nat) (p : Option Nat) (hT : Transpose g) :
    Transpose (addWait g now w h p) := by
  intro a b
  rw [mem_outs_addWait, mem_ins_addWait, hT a b]

/-! ### `remove_wait` -/

/-- first block of `remove_wait` (forward edges) -/
def rwFwd (g : WaitGraph) (w h : Nat) : WaitGraph :=
  match aGet g.edges w with
  | some hs =>
    let hs' := hs.filter (· != h)
    if hs'.isEmpty then
      { g with edges := aRemove g.edges w, waitStarted := aRemove g.waitStarted w }
    else { g with edges := aModify g.edges w (fun _ => hs') }
  | none => g

/-- second block of `remove_wait` (reverse edges) -/
def rwRev (g1 : WaitGraph) (w h : Nat) : WaitGraph :=
  match aGet g1.reverse h with
  | some ws =>
    let ws' := ws.filter (· != w)
    if ws'.isEmpty then { g1 with reverse := aRemove g1.reverse h }
    else { g1 with reverse := aModify g1.reverse h (fun _ => ws') }
  | none => g1

theorem removeWait_eq (g : WaitGraph) (w h : Nat) : removeWait g w h = rwRev (rwFwd g w h) w h := rfl

theorem rwFwd_reverse (g : WaitGraph) (w h : Nat) : (rwFwd g w h).reverse = g.reverse := by
  unfold rwFwd
  cases aGet g.edges w with
  | none => rfl
  | some hs => by_cases e : (hs.filter (· != h)).isEmpty <;> simp [e]

theorem rwRev_edges (g : WaitGraph) (w h : Nat) : (rwRev g w h).edges = g.edges := by
  unfold rwRev
  cases aGet g.reverse h with
  | none => rfl
  | some ws => by_cases e : (ws.filter (· != w)).isEmpty <;> simp [e]

/-- removing `x` from the set stored under `k` (entry dropped when it becomes empty) -/
theorem mem_get_dropFrom (m : List (Nat × List Nat)) (k x k' y : Nat) (s : List Nat)
    (hg : aGet m k = some s) :
    (y ∈ (aGet (if (s.filter (· != x)).isEmpty then aRemove m k
                else aModify m k (fun _ => s.filter (· != x))) k').getD [])
      ↔ y ∈ (aGet m k').getD [] ∧ ¬ (k' = k ∧ y = x) := by
  by_cases e : (s.filter (· != x)).isEmpty
  · simp only [e, ↓reduceIte, mem_get_aRemove]
    rw [List.isEmpty_iff] at e
    constructor
    · rintro ⟨h1, h2⟩
      exact ⟨h2, fun h3 => h1 h3.1⟩
    · rintro ⟨h1, h2⟩
      refine ⟨?_, h1⟩
      intro e1; subst e1
      simp only [hg, Option.getD_some] at h1
      have : y ∈ s.filter (· != x) := by
        refine List.mem_filter.mpr ⟨h1, ?_⟩
        simp only [bne_iff_ne, ne_eq]
        intro e2; exact h2 ⟨rfl, e2⟩
      rw [e] at this; simp at this
  · simp only [e, Bool.false_eq_true, ↓reduceIte]
    rw [mem_get_aModify_const _ _ _ _ _ (by simp [hg])]
    by_cases e1 : k' = k
    · subst e1
      simp [hg, List.mem_filter]
    · simp [e1]

theorem mem_get_none_drop (m : List (Nat × List Nat)) (k x k' y : Nat) (hg : aGet m k = none) :
    y ∈ (aGet m k').getD [] ↔ y ∈ (aGet m k').getD [] ∧ ¬ (k' = k ∧ y = x) := by
  constructor
  · intro hb
    refine ⟨hb, ?_⟩
    rintro ⟨e1, _⟩
    subst e1; simp [hg] at hb
  · exact fun hb => hb.1

theorem mem_outs_rwFwd (g : WaitGraph) (w h a b : Nat) :
    b ∈ outs (rwFwd g w h) a ↔ b ∈ outs g a ∧ ¬ (a = w ∧ b = h) := by
  unfold rwFwd outs
  cases hg : aGet g.edges w with
  | none => exact mem_get_none_drop g.edges w h a b hg
  | some hs =>
    have := mem_get_dropFrom g.edges w h a b hs hg
    by_cases e : (hs.filter (· != h)).isEmpty
    · simp only [e, ↓reduceIte] at this ⊢; exact this
    · simp only [e, Bool.false_eq_true, ↓reduceIte] at this ⊢; exact this

theorem mem_ins_rwRev (g : WaitGraph) (w h a b : Nat) :
    a ∈ ins (rwRev g w h) b ↔ a ∈ ins g b ∧ ¬ (a = w ∧ b = h) := by
  unfold rwRev ins
  cases hg : aGet g.reverse h with
  | none =>
    have := mem_get_none_drop g.reverse h w b a hg
    simp only
    exact this.trans ⟨fun ⟨h1, h2⟩ => ⟨h1, fun h3 => h2 ⟨h3.2, h3.1⟩⟩,
      fun ⟨h1, h2⟩ => ⟨h1, fun h3 => h2 ⟨h3.2, h3.1⟩⟩⟩
  | some ws =>
    have := mem_get_dropFrom g.reverse h w b a ws hg
    have hsw : (a ∈ (aGet g.reverse b).getD [] ∧ ¬ (b = h ∧ a = w)) ↔
        (a ∈ (aGet g.reverse b).getD [] ∧ ¬ (a = w ∧ b = h)) := by
      constructor
      · rintro ⟨h1, h2⟩; exact ⟨h1, fun h3 => h2 ⟨h3.2, h3.1⟩⟩
      · rintro ⟨h1, h2⟩; exact ⟨h1, fun h3 => h2 ⟨h3.2, h3.1⟩⟩
    rw [hsw] at this
    by_cases e : (ws.filter (· != w)).isEmpty
    · simp only [e, ↓reduceIte] at this ⊢; exact this
    · simp only [e, Bool.false_eq_true, ↓reduceIte] at this ⊢; exact this

theorem mem_outs_removeWait (g : WaitGraph) (w h a b : Nat) :
    b ∈ outs (removeWait g w h) a ↔ b ∈ outs g a ∧ ¬ (a = w ∧ b = h) := by
  rw [removeWait_eq]
  unfold outs
  rw [rwRev_edges]
  exact mem_outs_rwFwd g w h a b

theorem mem_ins_removeWait (g : WaitGraph) (w h a b : Nat) :
    a ∈ ins (removeWait g w h) b ↔ a ∈ ins g b ∧ ¬ (a = w ∧ b = h) := by
  rw [removeWait_eq, mem_ins_rwRev]
  unfold ins
  rw [rwFwd_reverse]

theorem transpose_removeWait (g : WaitGraph) (w h : Nat) (hT : Transpose g) :
    Transpose (removeWait g w h) := by
  intro a b
  rw [mem_outs_removeWait, mem_ins_removeWait, hT a b]

/-! ### `remove_transaction` -/

/-- the two `if let Some(..)` loops are `eraseFromEach` over the (possibly absent = empty) sets -/
theorem removeTransaction_eq (g : WaitGraph) (tx : Nat) :
    removeTransaction g tx =
      let reverse1 := eraseFromEach g.reverse (outs g tx) tx
      { g with
        edges := eraseFromEach (aRemove g.edges tx) ((aGet reverse1 tx).getD []) tx
        reverse := aRemove reverse1 tx
        waitStarted := aRemove g.waitStarted tx, priorities := aRemove g.priorities tx } := by
  unfold removeTransaction outs
  cases h1 : aGet g.edges tx with
  | none =>
    simp only [Option.getD_none, eraseFromEach_nil]
    cases h2 : aGet g.reverse tx <;> simp [eraseFromEach_nil]
  | some hs =>
    simp only [Option.getD_some]
    cases h2 : aGet (eraseFromEach g.reverse hs tx) tx <;> simp [eraseFromEach_nil]

theorem mem_outs_removeTransaction (g : WaitGraph) (tx a b : Nat) (hT : Transpose g) :
    b ∈ outs (removeTransaction g tx) a ↔ b ∈ outs g a ∧ a ≠ tx ∧ b ≠ tx := by
  rw [removeTransaction_eq]
  simp only [outs, mem_get_eraseFromEach, mem_get_aRemove]
  constructor
  · rintro ⟨⟨h1, h2⟩, h3⟩
    refine ⟨h2, h1, ?_⟩
    intro e; subst e
    apply h3
    refine ⟨⟨(hT a b).mp h2, ?_⟩, rfl⟩
    rintro ⟨_, e2⟩
    exact h1 e2
  · rintro ⟨h1, h2, h3⟩
    exact ⟨⟨h2, h1⟩, fun h4 => h3 h4.2⟩

theorem mem_ins_removeTransaction (g : WaitGraph) (tx a b : Nat) (hT : Transpose g) :
    a ∈ ins (removeTransaction g tx) b ↔ a ∈ ins g b ∧ a ≠ tx ∧ b ≠ tx := by
  rw [removeTransaction_eq]
  simp only [ins, mem_get_eraseFromEach, mem_get_aRemove]
  constructor
  · rintro ⟨h1, h2, h3⟩
    refine ⟨h2, ?_, h1⟩
    intro e; subst e
    exact h3 ⟨(hT a b).mpr h2, rfl⟩
  · rintro ⟨h1, h2, h3⟩
    exact ⟨h3, h1, fun h4 => h2 h4.2⟩

theorem transpose_removeTransaction (g : WaitGraph) (tx : Nat) (hT : Transpose g) :
    Transpose (removeTransaction g tx) := by
  intro a b
  rw [mem_outs_removeTransaction g tx a b hT, mem_ins_removeTransaction g tx a b hT, hT a b]

/-- Given the transpose invariant, `remove_transaction tx` erases `tx` from the relation on both
    sides and from both indexes, and touches nothing else. -/
theorem removeTransaction_absent (g : WaitGraph) (tx : Nat) (hT : Transpose g) :
    aGet (removeTransaction g tx).edges tx = none ∧
    aGet (removeTransaction g tx).reverse tx = none ∧
    (∀ w, tx ∉ outs (removeTransaction g tx) w) ∧
    (∀ h, tx ∉ ins (removeTransaction g tx) h) ∧
    aGet (removeTransaction g tx).waitStarted tx = none ∧
    aGet (removeTransaction g tx).priorities tx = none := by
  refine ⟨(removeTransaction_waiter_gone g tx).1, ?_, ?_, ?_, (removeTransaction_waiter_gone g tx).2.1,
    (removeTransaction_waiter_gone g tx).2.2⟩
  · rw [removeTransaction_eq]; simp [aGet_aRemove]
  · intro w h; exact ((mem_outs_removeTransaction g tx w tx hT).mp h).2.2 rfl
  · intro h hh; exact ((mem_ins_removeTransaction g tx tx h hT).mp hh).2.1 rfl

theorem transpose_foldl_removeTransaction (txs : List Nat) (g : WaitGraph) (hT : Transpose g) :
    Transpose (txs.foldl removeTransaction g) := by
  induction txs generalizing g with
  | nil => exact hT
  | cons a r ih => exact ih _ (transpose_removeTransaction g a hT)

theorem transpose_foldl_addWait (bs : List Nat) (g : WaitGraph) (now w : Nat) (p : Option Nat)
    (hT : Transpose g) : Transpose (bs.foldl (fun g b => addWait g now w b p) g) := by
  induction bs generalizing g with
  | nil => exact hT
  | cons a r ih => exact ih _ (transpose_addWait g now w a p hT)

theorem transpose_empty (mx : Nat) : Transpose (WaitGraph.empty mx) := by
  intro w h; simp [outs, ins, WaitGraph.empty, aGet]

/-! ### lock manager + wait-for graph: operation sequences of the whole coordinator-side state -/

/-- every mutating operation the coordinator side performs on the pair (lock table, wait-for graph) -/
inductive COp
  /-- `try_lock_with_wait_tracking` -/
  | lockW (tx : Nat) (keys : List Nat) (prio : Option Nat)
  /-- `release_by_handle_with_wait_cleanup` -/
  | relHW (h : Nat)
  /-- `cleanup_expired_with_wait_cleanup` -/
  | cleanW
  /-- plain `try_lock` / `release` / `release_by_handle` / `cleanup_expired` -/
  | lock (tx : Nat) (keys : List Nat)
  | rel (tx : Nat)
  | relH (h : Nat)
  | clean
  /-- raw `WaitForGraph::{add_wait, remove_transaction, remove_wait}` (detector, victim abort …) -/
  | gAdd (w h : Nat) (prio : Option Nat)
  | gRm (tx : Nat)
  | gRmW (w h : Nat)
  /-- a transaction ends (commit / abort / timeout / recovery) with these recorded handles -/
  | endTx (tx : Nat) (handles : List Nat)
  /-- the same with the PRE-FIX sequence (only used by the witness) -/
  | endTxOld (tx : Nat) (handles : List Nat)
  | advance (d : Nat)
  | serializeRestore
  /-- `release_orphaned_locks(partition_start)`; `active` = the coordinator's pending ids -/
  | sweep (active : List Nat) (partitionStart : Nat)
  /-- `WaitForGraph::clear` -/
  | gClear
  /-- a coordinator loaded from its saved state starts with `WaitForGraph::new()` -/
  | gNew
  /-- `WaitForGraph::cleanup_stale_edges(ttl)` -/
  | gStale (ttl : Nat)
deriving Repr

structure CSys where
  t : LockTable
  g : WaitGraph
  now : Nat
deriving Repr

def CSys.init (timeout maxEdges : Nat) : CSys :=
  { t := LockTable.empty timeout, g := WaitGraph.empty maxEdges, now := 0 }

def cstep (s : CSys) : COp → CSys
  | .lockW tx keys prio =>
    let r := tryLockWait s.t s.g s.now s.now tx keys prio
    { s with t := r.1, g := r.2.1 }
  | .relHW h => let r := releaseByHandleWait s.t s.g h; { s with t := r.1, g := r.2 }
  | .cleanW => let r := cleanupExpiredWait s.t s.g s.now; { s with t := r.1, g := r.2.1 }
  | .lock tx keys => { s with t := (tryLock s.t s.now tx keys).1 }
  | .rel tx => { s with t := release s.t tx }
  | .relH h => { s with t := releaseByHandle s.t h }
  | .clean => { s with t := (cleanupExpired s.t s.now).1 }
  | .gAdd w h prio => { s with g := addWait s.g s.now w h prio }
  | .gRm tx => { s with g := removeTransaction s.g tx }
  | .gRmW w h => { s with g := removeWait s.g w h }
  | .endTx tx hs => let r := endTx s.t s.g tx hs; { s with t := r.1, g := r.2 }
  | .endTxOld tx hs => let r := endTxOld s.t s.g tx hs; { s with t := r.1, g := r.2 }
  | .advance d => { s with now := s.now + d }
  | .serializeRestore => { s with t := restore (serialize s.t) s.t.nextHandle }
  | .sweep active ps => let r := orphanSweep s.t s.g active ps; { s with t := r.1, g := r.2.1 }
  | .gClear => { s with g := clearGraph s.g }
  | .gNew => { s with g := WaitGraph.empty 0 }
  | .gStale ttl => { s with g := (cleanupStaleEdges s.g s.now ttl).1 }

def crun (ops : List COp) (s : CSys) : CSys := ops.foldl cstep s

/-- invariant of the pair: both table maps have unique keys, `reverse_edges` = transpose of `edges` -/
structure PairInv (s : CSys) : Prop where
  nd : (s.t.locks.map (·.1)).Nodup
  nd2 : (s.t.txLocks.map (·.1)).Nodup
  tr : Transpose s.g

theorem tryLock_nodup (t : LockTable) (now tx : Nat) (keys : List Nat)
    (nd : (t.locks.map (·.1)).Nodup) (nd2 : (t.txLocks.map (·.1)).Nodup) :
    ((tryLock t now tx keys).1.locks.map (·.1)).Nodup ∧ ((tryLock t now tx keys).1.txLocks.map (·.1)).Nodup := by
  unfold tryLock
  cases firstConflict t.locks now tx keys with
  | some c => exact ⟨nd, nd2⟩
  | none => exact ⟨keys_foldl_insert_nodup _ _ _ nd, keys_extendTx_nodup _ _ _ nd2⟩

theorem releaseByHandle_nodup (t : LockTable) (h : Nat)
    (nd : (t.locks.map (·.1)).Nodup) (nd2 : (t.txLocks.map (·.1)).Nodup) :
    ((releaseByHandle t h).locks.map (·.1)).Nodup ∧ ((releaseByHandle t h).txLocks.map (·.1)).Nodup :=
  foldl_dropKey_nodup _ t nd nd2

theorem release_nodup (t : LockTable) (tx : Nat)
    (nd : (t.locks.map (·.1)).Nodup) (nd2 : (t.txLocks.map (·.1)).Nodup) :
    ((release t tx).locks.map (·.1)).Nodup ∧ ((release t tx).txLocks.map (·.1)).Nodup := by
  unfold release
  cases aGet t.txLocks tx with
  | none => exact ⟨nd, nd2⟩
  | some keys => exact ⟨keys_foldl_releaseKey_nodup _ _ _ nd, keys_aRemove_nodup _ _ nd2⟩

theorem tryLockWait_inv (t : LockTable) (g : WaitGraph) (now wnow tx : Nat) (keys : List Nat) (prio : Option Nat)
    (nd : (t.locks.map (·.1)).Nodup) (nd2 : (t.txLocks.map (·.1)).Nodup) (tr : Transpose g) :
    let r := tryLockWait t g now wnow tx keys prio
    (r.1.locks.map (·.1)).Nodup ∧ (r.1.txLocks.map (·.1)).Nodup ∧ Transpose r.2.1 := by
  unfold tryLockWait
  simp only
  by_cases e : (conflicts t.locks now tx keys).isEmpty
  · simp only [e, ↓reduceIte]
    exact ⟨(tryLock_nodup t now tx keys nd nd2).1, (tryLock_nodup t now tx keys nd nd2).2,
      transpose_removeTransaction g tx tr⟩
  · simp only [e, Bool.false_eq_true, ↓reduceIte]
    exact ⟨nd, nd2, transpose_foldl_addWait _ g wnow tx prio tr⟩

theorem releaseByHandleWait_inv (t : LockTable) (g : WaitGraph) (h : Nat)
    (nd : (t.locks.map (·.1)).Nodup) (nd2 : (t.txLocks.map (·.1)).Nodup) (tr : Transpose g) :
    let r := releaseByHandleWait t g h
    (r.1.locks.map (·.1)).Nodup ∧ (r.1.txLocks.map (·.1)).Nodup ∧ Transpose r.2 := by
  unfold releaseByHandleWait
  simp only
  have hn := releaseByHandle_nodup t h nd nd2
  cases ((t.locks.filter (fun p => p.2.handle == h)).map (·.2.tx)).getLast? with
  | none => exact ⟨hn.1, hn.2, tr⟩
  | some tx => exact ⟨hn.1, hn.2, transpose_removeTransaction g tx tr⟩

theorem releaseHandles_inv (hs : List Nat) (t : LockTable) (g : WaitGraph)
    (nd : (t.locks.map (·.1)).Nodup) (nd2 : (t.txLocks.map (·.1)).Nodup) (tr : Transpose g) :
    let r := releaseHandles t g hs
    (r.1.locks.map (·.1)).Nodup ∧ (r.1.txLocks.map (·.1)).Nodup ∧ Transpose r.2 := by
  unfold releaseHandles
  induction hs generalizing t g with
  | nil => exact ⟨nd, nd2, tr⟩
  | cons a r ih =>
    simp only [List.foldl_cons]
    have := releaseByHandleWait_inv t g a nd nd2 tr
    exact ih _ _ this.1 this.2.1 this.2.2

theorem pairInv_init (timeout maxEdges : Nat) : PairInv (CSys.init timeout maxEdges) :=
  ⟨by simp [CSys.init, LockTable.empty], by simp [CSys.init, LockTable.empty], transpose_empty maxEdges⟩

theorem pairInv_step (s : CSys) (op : COp) (hi : PairInv s) : PairInv (cstep s op) := by
  cases op with
  | lockW tx keys prio =>
    have := tryLockWait_inv s.t s.g s.now s.now tx keys prio hi.nd hi.nd2 hi.tr
    exact ⟨this.1, this.2.1, this.2.2⟩
  | relHW h =>
    have := releaseByHandleWait_inv s.t s.g h hi.nd hi.nd2 hi.tr
    exact ⟨this.1, this.2.1, this.2.2⟩
  | cleanW =>
    simp only [cstep, cleanupExpiredWait, cleanupExpired]
    have := foldl_dropKey_nodup (expiredKeys s.t s.now) s.t hi.nd hi.nd2
    exact ⟨this.1, this.2, transpose_foldl_removeTransaction _ _ hi.tr⟩
  | lock tx keys =>
    have := tryLock_nodup s.t s.now tx keys hi.nd hi.nd2
    exact ⟨this.1, this.2, hi.tr⟩
  | rel tx =>
    have := release_nodup s.t tx hi.nd hi.nd2
    exact ⟨this.1, this.2, hi.tr⟩
  | relH h =>
    have := releaseByHandle_nodup s.t h hi.nd hi.nd2
    exact ⟨this.1, this.2, hi.tr⟩
  | clean =>
    have := foldl_dropKey_nodup (expiredKeys s.t s.now) s.t hi.nd hi.nd2
    exact ⟨this.1, this.2, hi.tr⟩
  | gAdd w h prio => exact ⟨hi.nd, hi.nd2, transpose_addWait _ _ _ _ _ hi.tr⟩
  | gRm tx => exact ⟨hi.nd, hi.nd2, transpose_removeTransaction _ _ hi.tr⟩
  | gRmW w h => exact ⟨hi.nd, hi.nd2, transpose_removeWait _ _ _ hi.tr⟩
  | endTx tx hs =>
    have := releaseHandles_inv hs s.t s.g hi.nd hi.nd2 hi.tr
    exact ⟨this.1, this.2.1, transpose_removeTransaction _ tx this.2.2⟩
  | endTxOld tx hs =>
    have := releaseHandles_inv hs s.t s.g hi.nd hi.nd2 hi.tr
    exact ⟨this.1, this.2.1, this.2.2⟩
  | advance d => exact ⟨hi.nd, hi.nd2, hi.tr⟩
  | serializeRestore => simp only [cstep, restore_serialize]; exact ⟨hi.nd, hi.nd2, hi.tr⟩
  | sweep active ps =>
    simp only [cstep, orphanSweep]
    have := foldl_sweepKey_nodup (orphanKeys s.t active ps) s.t hi.nd hi.nd2
    exact ⟨this.1, this.2, transpose_foldl_removeTransaction _ _ hi.tr⟩
  | gClear => exact ⟨hi.nd, hi.nd2, transpose_empty _⟩
  | gNew => exact ⟨hi.nd, hi.nd2, transpose_empty _⟩
  | gStale ttl => exact ⟨hi.nd, hi.nd2, transpose_foldl_removeTransaction _ _ hi.tr⟩

theorem pairInv_run (ops : List COp) (s : CSys) (hi : PairInv s) : PairInv (crun ops s) := by
  induction ops generalizing s with
  | nil => exact hi
  | cons op r ih => exact ih _ (pairInv_step s op hi)

/-! ### the handle loop leaves no lock carrying a released handle -/

theorem releaseByHandle_locks (t : LockTable) (h k : Nat) (l : KeyLock)
    (nd : (t.locks.map (·.1)).Nodup) (hl : aGet (releaseByHandle t h).locks k = some l) :
    aGet t.locks k = some l ∧ l.handle ≠ h := by
  unfold releaseByHandle at hl
  rw [foldl_dropKey_locks] at hl
  by_cases hk : k ∈ keysWithHandle t h
  · simp [hk] at hl
  · simp only [hk, ↓reduceIte] at hl
    exact ⟨hl, fun e => hk ((mem_keysWithHandle t h k nd).mpr ⟨l, hl, e⟩)⟩

theorem releaseHandles_locks (hs : List Nat) (t : LockTable) (g : WaitGraph)
    (nd : (t.locks.map (·.1)).Nodup) (nd2 : (t.txLocks.map (·.1)).Nodup) (k : Nat) (l : KeyLock)
    (hl : aGet (releaseHandles t g hs).1.locks k = some l) :
    aGet t.locks k = some l ∧ l.handle ∉ hs := by
  unfold releaseHandles at hl
  induction hs generalizing t g with
  | nil => exact ⟨hl, by simp⟩
  | cons a r ih =>
    simp only [List.foldl_cons] at hl
    have hn := releaseByHandle_nodup t a nd nd2
    have e1 : (releaseByHandleWait t g a).1 = releaseByHandle t a := by
      unfold releaseByHandleWait
      simp only
      split <;> rfl
    have := ih (releaseByHandleWait t g a).1 (releaseByHandleWait t g a).2
      (by rw [e1]; exact hn.1) (by rw [e1]; exact hn.2) hl
    rw [e1] at this
    obtain ⟨h1, h2⟩ := this
    obtain ⟨h3, h4⟩ := releaseByHandle_locks t a k l nd h1
    refine ⟨h3, ?_⟩
    simp only [List.mem_cons, not_or]
    exact ⟨h4, h2⟩

/-! ### the lock-table component of a coordinator-side run is a lock-table run -/

theorem conflicts_nil_iff (locks : List (Nat × KeyLock)) (now tx : Nat) (keys : List Nat) :
    conflicts locks now tx keys = [] ↔ firstConflict locks now tx keys = none := by
  induction keys with
  | nil => simp [conflicts, firstConflict]
  | cons k ks ih =>
    simp only [conflicts, firstConflict]
    cases aGet locks k with
    | none => exact ih
    | some l =>
      by_cases hc : (!l.isExpired now && l.tx != tx) = true
      · simp [hc]
      · simp only [hc, Bool.false_eq_true, ↓reduceIte]; exact ih

/-- `try_lock_with_wait_tracking` changes the lock table exactly as `try_lock` does -/
theorem tryLockWait_table (t : LockTable) (g : WaitGraph) (now wnow tx : Nat) (keys : List Nat) (prio : Option Nat) :
    (tryLockWait t g now wnow tx keys prio).1 = (tryLock t now tx keys).1 := by
  unfold tryLockWait
  simp only
  by_cases e : (conflicts t.locks now tx keys).isEmpty
  · simp only [e, ↓reduceIte]
  · simp only [e, Bool.false_eq_true, ↓reduceIte]
    have : firstConflict t.locks now tx keys ≠ none := by
      intro h
      rw [← conflicts_nil_iff] at h
      simp [h] at e
    unfold tryLock
    cases hc : firstConflict t.locks now tx keys with
    | none => exact absurd hc this
    | some c => rfl

/-- …and is granted exactly when `try_lock` is -/
theorem tryLockWait_granted_iff (t : LockTable) (g : WaitGraph) (now wnow tx : Nat) (keys : List Nat) (prio : Option Nat) :
    (∃ h, (tryLockWait t g now wnow tx keys prio).2.2 = .ok h) ↔ firstConflict t.locks now tx keys = none := by
  rw [← conflicts_nil_iff]
  unfold tryLockWait
  simp only
  by_cases e : (conflicts t.locks now tx keys).isEmpty
  · simp only [e, ↓reduceIte]
    exact ⟨fun _ => List.isEmpty_iff.mp e, fun _ => ⟨_, rfl⟩⟩
  · simp only [e, Bool.false_eq_true, ↓reduceIte]
    constructor
    · rintro ⟨h, hh⟩; cases hh
    · intro h; simp [h] at e

theorem releaseByHandleWait_table (t : LockTable) (g : WaitGraph) (h : Nat) :
    (releaseByHandleWait t g h).1 = releaseByHandle t h := by
  unfold releaseByHandleWait
  simp only
  split <;> rfl

theorem releaseHandles_table (hs : List Nat) (t : LockTable) (g : WaitGraph) :
    (releaseHandles t g hs).1 = hs.foldl releaseByHandle t := by
  unfold releaseHandles
  induction hs generalizing t g with
  | nil => rfl
  | cons a r ih =>
    simp only [List.foldl_cons]
    rw [ih, releaseByHandleWait_table]

/-- the lock-table operations a coordinator-side operation performs -/
def cproj : COp → List Op
  | .lockW tx keys _ => [.tryLock tx keys]
  | .relHW h => [.releaseByHandle h]
  | .cleanW => [.cleanupExpired]
  | .lock tx keys => [.tryLock tx keys]
  | .rel tx => [.release tx]
  | .relH h => [.releaseByHandle h]
  | .clean => [.cleanupExpired]
  | .gAdd _ _ _ => []
  | .gRm _ => []
  | .gRmW _ _ => []
  | .endTx _ hs => hs.map .releaseByHandle
  | .endTxOld _ hs => hs.map .releaseByHandle
  | .advance d => [.advance d]
  | .serializeRestore => [.serializeRestore]
  | .sweep active ps => [.sweep active ps]
  | .gClear => []
  | .gNew => []
  | .gStale _ => []

theorem run_append (a b : List Op) (s : Sys) : run (a ++ b) s = run b (run a s) := by
  simp [run, List.foldl_append]

theorem run_releaseByHandles_t (hs : List Nat) (s : Sys) :
    (run (hs.map .releaseByHandle) s).t = hs.foldl releaseByHandle s.t ∧
    (run (hs.map .releaseByHandle) s).now = s.now := by
  induction hs generalizing s with
  | nil => exact ⟨rfl, rfl⟩
  | cons a r ih =>
    have := ih (step s (.releaseByHandle a))
    simp only [List.map_cons, run, List.foldl_cons] at this ⊢
    exact this

theorem cstep_table (s : CSys) (op : COp) (gs : Sys) (ht : gs.t = s.t) (hn : gs.now = s.now) :
    (run (cproj op) gs).t = (cstep s op).t ∧ (run (cproj op) gs).now = (cstep s op).now := by
  cases op with
  | lockW tx keys prio =>
    simp only [cproj, run, List.foldl_cons, List.foldl_nil, cstep, tryLockWait_table, step, ht, hn]
    cases h : tryLock s.t s.now tx keys with
    | mk t' r => cases r <;> simp
  | lock tx keys =>
    simp only [cproj, run, List.foldl_cons, List.foldl_nil, cstep, step, ht, hn]
    cases h : tryLock s.t s.now tx keys with
    | mk t' r => cases r <;> simp
  | relHW h => simp [cproj, run, cstep, step, releaseByHandleWait_table, ht, hn]
  | cleanW => simp [cproj, run, cstep, step, cleanupExpiredWait, ht, hn]
  | rel tx => simp [cproj, run, cstep, step, ht, hn]
  | relH h => simp [cproj, run, cstep, step, ht, hn]
  | clean => simp [cproj, run, cstep, step, ht, hn]
  | gAdd w h prio => simp [cproj, run, cstep, ht, hn]
  | gRm tx => simp [cproj, run, cstep, ht, hn]
  | gRmW w h => simp [cproj, run, cstep, ht, hn]
  | endTx tx hs =>
    have := run_releaseByHandles_t hs gs
    simp only [cproj, cstep, endTx, releaseHandles_table, this, ht, hn, and_self]
  | endTxOld tx hs =>
    have := run_releaseByHandles_t hs gs
    simp only [cproj, cstep, endTxOld, releaseHandles_table, this, ht, hn, and_self]
  | advance d => simp [cproj, run, cstep, step, ht, hn]
  | serializeRestore => simp [cproj, run, cstep, step, ht, hn]
  | sweep active ps => simp [cproj, run, cstep, step, orphanSweep, ht, hn]
  | gClear => simp [cproj, run, cstep, ht, hn]
  | gNew => simp [cproj, run, cstep, ht, hn]
  | gStale ttl => simp [cproj, run, cstep, ht, hn]

/-- **Refinement**: along any sequence of coordinator-side operations the lock table and the clock
    evolve exactly as under the projected sequence of plain lock-table operations -/
theorem crun_table (ops : List COp) (s : CSys) (gs : Sys) (ht : gs.t = s.t) (hn : gs.now = s.now) :
    (run (ops.flatMap cproj) gs).t = (crun ops s).t ∧ (run (ops.flatMap cproj) gs).now = (crun ops s).now := by
  induction ops generalizing s gs with
  | nil => exact ⟨ht, hn⟩
  | cons op r ih =>
    simp only [List.flatMap_cons, run_append, crun, List.foldl_cons]
    have := cstep_table s op gs ht hn
    exact ih (cstep s op) (run (cproj op) gs) this.1 this.2

end Neumann.Locks
