/-
  C12 — the ORDER in which the entry points of `DistributedTxCoordinator`, `LockManager` and
  `WaitForGraph` take the `parking_lot::RwLock`s of the coordinator (liveness side of the lock
  table: a thread that blocks for ever inside `commit` never releases the locks of its transaction).

  Import-free, total, computable.  One resource per `RwLock` field:
    `pending`, `pending_aborts`, `abort_states`, `wal` (DistributedTxCoordinator),
    `locks`, `tx_locks` (LockManager), `edges`, `reverse_edges`, `wait_started`, `priorities`
    (WaitForGraph).
  An entry point is the flat list of its acquire / release actions in program order, transcribed
  from tensor_chain/src/distributed_tx.rs and tensor_chain/src/deadlock.rs (explicit `drop(..)`
  calls in their order, implicit drops in reverse declaration order, a temporary guard released
  at the end of its statement).  Data-dependent branches and loop counts are parameters
  (`found`, `out`, `inc`, lists of per-iteration outcomes), so that every execution of the real
  function is one member of the family.

  `release_orphaned_locks` is modelled as it is since /repo aa0e56f6 (`sweepProg`: `pending.read()`
  FIRST, then `locks.write()`, `tx_locks.write()`) and as it was before (`sweepProgOld`: the two
  lock-table locks first, `pending.read()` under them) — the old order deadlocks against every
  end-of-transaction site (`OrderProps.sweep_old_deadlocks_with_end_of_tx_witness`).
-/
namespace Neumann.Locks.Order

inductive Res
  | pending | pendingAborts | abortStates | wal | locks | txLocks | edges | reverse | waitStarted | priorities
  deriving DecidableEq, Repr

inductive Mode | read | write
  deriving DecidableEq, Repr

/-- `acq r m`: `r.read()` / `r.write()` (blocks until granted); `rel r m`: the guard is dropped -/
inductive Act
  | acq (r : Res) (m : Mode)
  | rel (r : Res) (m : Mode)
  deriving DecidableEq, Repr

abbrev Held := List (Res × Mode)

/-- a thread: the guards it holds and the actions it still has to perform -/
structure Thread where
  held : Held
  todo : List Act
  deriving DecidableEq, Repr

abbrev Sys := List Thread

/-- perform the next action (whether it is admitted is decided by `stepAt`) -/
def Thread.step (t : Thread) : Thread :=
  match t.todo with
  | [] => t
  | .acq r m :: rest => ⟨(r, m) :: t.held, rest⟩
  | .rel r m :: rest => ⟨t.held.erase (r, m), rest⟩

def Thread.holds (t : Thread) (r : Res) : Bool := t.held.any (fun h => h.1 == r)

/-- reader/writer compatibility: two guards on the same lock conflict unless both are reads -/
def conflicts (m m' : Mode) : Bool := m == .write || m' == .write

def Thread.holdsConflicting (t : Thread) (r : Res) (m : Mode) : Bool :=
  t.held.any (fun h => h.1 == r && conflicts m h.2)

/-- the plain reader/writer admission rule: a release is always possible, an acquisition when no
    thread (the acquiring one included — `parking_lot` locks are not re-entrant) holds a
    conflicting guard on the same lock -/
def rwAdmit (s : Sys) (t : Thread) : Bool :=
  match t.todo with
  | [] => false
  | .rel _ _ :: _ => true
  | .acq r m :: _ => !(s.any (fun u => u.holdsConflicting r m))

/-- thread `i` performs its next action if it has one and the admission rule `adm` allows it -/
def stepAt (adm : Sys → Thread → Bool) (s : Sys) (i : Nat) : Option Sys :=
  match s[i]? with
  | none => none
  | some t => if !t.todo.isEmpty && adm s t then some (s.set i t.step) else none

/-- run a schedule (the list of thread indexes that move, in order) -/
def runSched (adm : Sys → Thread → Bool) : Sys → List Nat → Option Sys
  | s, [] => some s
  | s, i :: is =>
    match stepAt adm s i with
    | none => none
    | some s' => runSched adm s' is

/-- every thread at the start of its program, holding nothing -/
def start (progs : List (List Act)) : Sys := progs.map (fun p => ⟨[], p⟩)

/-- the next action of `t` is the acquisition of a lock that some thread currently holds (in any
    mode).  Every lock implementation refuses an acquisition only in this situation — plain
    reader/writer locks when the held guard conflicts, writer-preferring ones (`parking_lot`)
    also when a writer queued behind a holder is waiting — so `Waits` over-approximates "blocked". -/
def Waits (s : Sys) (t : Thread) : Prop :=
  ∃ r m rest, t.todo = .acq r m :: rest ∧ ∃ u ∈ s, u.holds r = true

/-- some thread has not finished and every unfinished thread waits for a held lock: no thread
    will ever move again under ANY admission rule that grants a lock nobody holds -/
def Stuck (s : Sys) : Prop :=
  (∃ t ∈ s, t.todo ≠ []) ∧ ∀ t ∈ s, t.todo ≠ [] → Waits s t

/-- deadlock under the plain reader/writer rule (the strictest notion: every unfinished thread is
    refused because of a CONFLICTING guard) -/
def deadlockedRW (s : Sys) : Bool :=
  s.any (fun t => !t.todo.isEmpty) && s.all (fun t => t.todo.isEmpty || !rwAdmit s t)

/-! ### the acquisition discipline -/

/-- the global lock order of the coordinator as it is now -/
def Res.rank : Res → Nat
  | .pending => 0 | .pendingAborts => 1 | .abortStates => 2 | .wal => 3 | .locks => 4
  | .txLocks => 5 | .edges => 6 | .reverse => 7 | .waitStarted => 8 | .priorities => 9

/-- guards held after running `p` from `H`, `none` if some acquisition is not above every guard
    held at that moment -/
def after : Held → List Act → Option Held
  | H, [] => some H
  | H, .acq r m :: rest => if H.all (fun h => h.1.rank < r.rank) then after ((r, m) :: H) rest else none
  | H, .rel r m :: rest => after (H.erase (r, m)) rest

/-- the thread acquires in increasing rank from where it stands and ends holding nothing -/
def Thread.Ordered (t : Thread) : Prop := after t.held t.todo = some []

/-! ### programs -/

open Res Mode Act

/-- a guard that lives for one statement -/
def once (r : Res) (m : Mode) : List Act := [acq r m, rel r m]

/-- `WaitForGraph::remove_transaction`: `out` = the transaction had outgoing edges, `inc` = it had
    incoming edges -/
def gRemoveTx (oi : Bool × Bool) : List Act :=
  once edges write ++ (if oi.1 then once reverse write else []) ++ once reverse write ++
    (if oi.2 then once edges write else []) ++ once waitStarted write ++ once priorities write

/-- `WaitForGraph::add_wait`: `self` = waiter == holder (early return), `full` = max_edges_per_tx
    reached (early return after the `edges` block), `prio` = a priority was given -/
def gAddWait (self full prio : Bool) : List Act :=
  if self then [] else
    once edges write ++ (if full then [] else
      once reverse write ++ once waitStarted write ++ (if prio then once priorities write else []))

/-- `WaitForGraph::remove_wait`: `emptied` = the waiter's last edge went away
    (`wait_started.write()` is taken while `edges.write()` is held) -/
def gRemoveWait (emptied : Bool) : List Act :=
  [acq edges write] ++ (if emptied then once waitStarted write else []) ++ [rel edges write] ++
    once reverse write

/-- `WaitForGraph::transaction_count` -/
def gTransactionCount : List Act :=
  [acq edges read, acq reverse read, rel edges read, rel reverse read]

/-- `WaitForGraph::clear` -/
def gClear : List Act :=
  once edges write ++ once reverse write ++ once waitStarted write ++ once priorities write

/-- `WaitForGraph::cleanup_stale_edges`: one `remove_transaction` per stale waiter -/
def gCleanupStale (stale : List (Bool × Bool)) : List Act :=
  once waitStarted read ++ stale.flatMap gRemoveTx

/-- `LockManager::{try_lock, cleanup_expired}` (`drop(locks); drop(tx_locks)`) -/
def lmSection : List Act := [acq locks write, acq txLocks write, rel locks write, rel txLocks write]

/-- `LockManager::{release, release_by_handle}` (implicit drops: `tx_locks` first) -/
def lmSectionRev : List Act := [acq locks write, acq txLocks write, rel txLocks write, rel locks write]

/-- `LockManager::release_by_handle_with_wait_cleanup`: `found = some oi` when a lock carried the
    handle (then `remove_transaction` runs, outside the lock-table section) -/
def lmReleaseByHandleWC (found : Option (Bool × Bool)) : List Act :=
  lmSection ++ (match found with | some oi => gRemoveTx oi | none => [])

/-- `LockManager::cleanup_expired_with_wait_cleanup`: one `remove_transaction` per expired owner,
    after the section -/
def lmCleanupExpiredWC (owners : List (Bool × Bool)) : List Act :=
  lmSectionRev ++ owners.flatMap gRemoveTx

/-- `LockManager::try_lock_with_wait_tracking`: the graph is updated INSIDE the lock-table section:
    `blockers = some l` — refused, one `add_wait` per blocker (`l` lists (full, prio));
    `blockers = none` — granted, `remove_transaction(tx)` with outcome `oi` -/
def lmTryLockWT (blockers : Option (List (Bool × Bool))) (oi : Bool × Bool) : List Act :=
  [acq locks write, acq txLocks write] ++
    (match blockers with
      | some l => l.flatMap (fun fp => gAddWait false fp.1 fp.2)
      | none => gRemoveTx oi) ++
    [rel txLocks write, rel locks write]

/-- the regression class "shorten the section": the conflict branch of `try_lock_with_wait_tracking`
    with the two guards dropped as soon as the conflict set is complete and the `add_wait` calls
    AFTER them.  Not a model of the current tree.  It takes the same locks in an order that is
    still rank-ordered (`OrderProps.drop_guards_first_is_still_rank_ordered_witness`) — no deadlock
    comes of it; what it loses is the critical section (`graphUnderTable`, and the data-level model
    `SectionModel.lean`). -/
def lmTryLockWTDropGuardsFirst (blockers : List (Bool × Bool)) : List Act :=
  [acq locks write, acq txLocks write, rel txLocks write, rel locks write] ++
    blockers.flatMap (fun fp => gAddWait false fp.1 fp.2)

/-! ### critical sections: what runs under the lock-table guards -/

/-- the four `RwLock`s of `WaitForGraph` -/
def isGraphRes : Res → Bool
  | .edges | .reverse | .waitStarted | .priorities => true
  | _ => false

/-- both lock-table write guards are held -/
def holdsTable (H : Held) : Bool := H.contains (locks, write) && H.contains (txLocks, write)

/-- every acquisition of a wait-for-graph lock in `p` (started holding `H`) happens while both
    lock-table write guards are held: the graph is touched only INSIDE the lock-table section -/
def graphUnderTable : Held → List Act → Bool
  | _, [] => true
  | H, .acq r m :: rest => (!isGraphRes r || holdsTable H) && graphUnderTable ((r, m) :: H) rest
  | H, .rel r m :: rest => graphUnderTable (H.erase (r, m)) rest

/-- `LockManager::to_serializable` (two temporaries alive until the end of the struct expression) -/
def lmToSerializable : List Act := [acq locks read, acq txLocks read, rel txLocks read, rel locks read]

/-- what an entry point of the coordinator does while it holds `pending` -/
inductive Blk
  | walEntry                                        -- `log_wal_entry` with a WAL configured
  | abortsPush                                      -- `self.pending_aborts.write().push(..)`
  | releaseByHandle (found : Option (Bool × Bool))  -- `release_by_handle_with_wait_cleanup`
  | removeTx (oi : Bool × Bool)                     -- `self.wait_graph.remove_transaction(tx)`
  | cleanupExpired (owners : List (Bool × Bool))    -- `cleanup_expired_with_wait_cleanup`
  | lmRelease                                       -- `self.lock_manager.release(tx)`
  | toSerializable                                  -- `self.lock_manager.to_serializable()`
  deriving Repr

def Blk.prog : Blk → List Act
  | .walEntry => once wal write
  | .abortsPush => once pendingAborts write
  | .releaseByHandle f => lmReleaseByHandleWC f
  | .removeTx oi => gRemoveTx oi
  | .cleanupExpired l => lmCleanupExpiredWC l
  | .lmRelease => lmSectionRev
  | .toSerializable => lmToSerializable

/-- `let pending = self.pending.{read,write}(); …blocks…; drop(pending)` -/
def underPending (m : Mode) (bs : List Blk) : List Act :=
  [acq pending m] ++ bs.flatMap Blk.prog ++ [rel pending m]

/-- the WAL entries are there only when a WAL is configured -/
def walIf (on : Bool) : List Blk := if on then [.walEntry] else []

/-- the handle loop of every end-of-transaction site: one `release_by_handle_with_wait_cleanup`
    per recorded Yes vote (`perHandleWal`: `commit` logs a LockRelease entry before each) -/
def handleLoop (wal perHandleWal : Bool) (hs : List (Option (Bool × Bool))) : List Blk :=
  hs.flatMap (fun f => (if perHandleWal then walIf wal else []) ++ [.releaseByHandle f])

/-- `release_orphaned_locks` since /repo aa0e56f6: `pending.read()`, `locks.write()`,
    `tx_locks.write()`, `drop(pending)`, …, `drop(tx_locks)`, `drop(locks)`, then one
    `remove_transaction` per swept owner -/
def sweepProg (owners : List (Bool × Bool)) : List Act :=
  [acq pending read, acq locks write, acq txLocks write, rel pending read,
    rel txLocks write, rel locks write] ++ owners.flatMap gRemoveTx

/-- `release_orphaned_locks` before aa0e56f6: the lock-table locks first, `pending.read()` under them -/
def sweepProgOld (owners : List (Bool × Bool)) : List Act :=
  [acq locks write, acq txLocks write, acq pending read, rel pending read,
    rel txLocks write, rel locks write] ++ owners.flatMap gRemoveTx

/-- the public entry points (those that take at least one lock), with the data-dependent choices
    of one execution as parameters.  `wal` = a WAL is configured. -/
inductive Entry
  -- DistributedTxCoordinator
  | begin (wal refused : Bool)
  | readPending                      -- get / pending_count / get_pending_decisions / get_pending_transactions
  | handlePrepare (blockers : Option (List (Bool × Bool))) (oi : Bool × Bool) (optimistic semanticConflict : Bool)
  | recordVoteEarly (wal : Bool)     -- TxNotFound / WrongPhase / DuplicateVote / not all voted
  | recordVoteAbort (wal : Bool)     -- all voted, some No: pending_aborts AFTER pending is released
  | recordVoteCrossConflict (wal : Bool)
  | recordVotePrepared (wal : Bool)
  | commit (wal : Bool) (hs : List (Option (Bool × Bool))) (fin : Bool × Bool)
  | abort (wal : Bool) (hs : List (Option (Bool × Bool))) (fin : Bool × Bool)
  | completeCommit (hs : List (Option (Bool × Bool))) (fin : Bool × Bool)   -- = complete_abort, force_resolve
  | endRefused                       -- an end site that returns Err (not found / wrong phase)
  | cleanupTimeouts (txs : List (List (Option (Bool × Bool)) × (Bool × Bool))) (expired : List (Bool × Bool))
  | recover (txs : List (List (Option (Bool × Bool)) × (Bool × Bool))) (expired : List (Bool × Bool))
  | recoverFromWal (orphans : List (Option (Bool × Bool)))
  | sweep (owners : List (Bool × Bool))                                        -- release_orphaned_locks
  | toState
  | takePendingAborts | walOnly | abortStatesOnly
  -- LockManager through `lock_manager()`
  | lmTryLock | lmRelease | lmReleaseByHandleWC (found : Option (Bool × Bool))
  | lmCleanupExpiredWC (owners : List (Bool × Bool))
  | lmTryLockWT (blockers : Option (List (Bool × Bool))) (oi : Bool × Bool)
  | lmReadLocks | lmReadTxLocks | lmToSerializable
  -- WaitForGraph through `wait_graph()`
  | gAddWait (self full prio : Bool) | gRemoveTx (oi : Bool × Bool) | gRemoveWait (emptied : Bool)
  | gReadEdges | gReadReverse | gReadWaitStarted | gReadPriorities | gTransactionCount | gClear
  | gCleanupStale (stale : List (Bool × Bool))
  deriving Repr

/-- the body of the per-transaction loop of `cleanup_timeouts`: queue the abort broadcast
    (`pending_aborts.write()` under `pending.write()`), release by handle, leave the graph -/
def timeoutBody (tx : List (Option (Bool × Bool)) × (Bool × Bool)) : List Blk :=
  [.abortsPush] ++ handleLoop false false tx.1 ++ [.removeTx tx.2]

def recoverBody (tx : List (Option (Bool × Bool)) × (Bool × Bool)) : List Blk :=
  handleLoop false false tx.1 ++ [.removeTx tx.2]

def entryProg : Entry → List Act
  | .begin wl refused => underPending write (if refused then [] else walIf wl)
  | .readPending => once pending read
  | .handlePrepare blockers oi optimistic semanticConflict =>
      lmTryLockWT blockers oi ++
        (if blockers.isNone && optimistic then
          underPending read (if semanticConflict then [.lmRelease] else []) else [])
  | .recordVoteEarly wl => (walIf wl).flatMap Blk.prog ++ underPending write []
  | .recordVoteAbort wl =>
      (walIf wl).flatMap Blk.prog ++ underPending write [] ++ once pendingAborts write
  | .recordVoteCrossConflict wl =>
      (walIf wl).flatMap Blk.prog ++ underPending write [] ++ underPending write [] ++
        once pendingAborts write
  | .recordVotePrepared wl =>
      (walIf wl).flatMap Blk.prog ++ underPending write [] ++ underPending write (walIf wl)
  | .commit wl hs fin =>
      underPending write (walIf wl ++ walIf wl ++ handleLoop wl true hs ++ [.removeTx fin] ++ walIf wl)
  | .abort wl hs fin =>
      underPending write (walIf wl ++ walIf wl ++ handleLoop wl false hs ++ [.removeTx fin])
  | .completeCommit hs fin => underPending write (handleLoop false false hs ++ [.removeTx fin])
  | .endRefused => underPending write []
  | .cleanupTimeouts txs expired =>
      underPending write (txs.flatMap timeoutBody ++ [.cleanupExpired expired])
  | .recover txs expired =>
      underPending write (txs.flatMap recoverBody ++ [.cleanupExpired expired])
  | .recoverFromWal orphans =>
      once wal read ++ underPending write [] ++ orphans.flatMap lmReleaseByHandleWC
  | .sweep owners => sweepProg owners
  | .toState => underPending read [.toSerializable]
  | .takePendingAborts => once pendingAborts write
  | .walOnly => once wal write
  | .abortStatesOnly => once abortStates write
  | .lmTryLock => lmSection
  | .lmRelease => lmSectionRev
  | .lmReleaseByHandleWC f => lmReleaseByHandleWC f
  | .lmCleanupExpiredWC l => lmCleanupExpiredWC l
  | .lmTryLockWT b oi => lmTryLockWT b oi
  | .lmReadLocks => once locks read
  | .lmReadTxLocks => once txLocks read
  | .lmToSerializable => lmToSerializable
  | .gAddWait s f p => gAddWait s f p
  | .gRemoveTx oi => gRemoveTx oi
  | .gRemoveWait e => gRemoveWait e
  | .gReadEdges => once edges read
  | .gReadReverse => once reverse read
  | .gReadWaitStarted => once waitStarted read
  | .gReadPriorities => once priorities read
  | .gTransactionCount => gTransactionCount
  | .gClear => gClear
  | .gCleanupStale l => gCleanupStale l

/-- a thread that performs the calls one after the other -/
def threadProg (calls : List Entry) : List Act := calls.flatMap entryProg

end Neumann.Locks.Order
