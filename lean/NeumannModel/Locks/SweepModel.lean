import NeumannModel.Locks.Model
/-
  C12 — the expired-lock sweep against the wait-for graph: helper views and a REFUTED variant.

  Import-free (core Lean + `Locks.Model`), total, computable.  The current code is
  `cleanupExpiredWait` in `Model.lean` (`LockManager::cleanup_expired_with_wait_cleanup`): every
  transaction that owned an expired row is removed from the wait-for graph, whatever its entry of
  the per-transaction index `tx_locks` looks like afterwards.  That index is only an UPPER bound of
  what a transaction holds: `try_lock` / `try_lock_with_wait_tracking` overwrite the row of a lapsed
  key on a take-over (`acquireAll` = `HashMap::insert`) and extend the index entry of the NEW owner
  (`extendTx`), but leave the key listed under the old owner.
-/
namespace Neumann.Locks

/-- does `tx` own a row of the lock table (`locks.values().any(|l| l.tx_id == tx)`)? -/
def holdsAny (t : LockTable) (tx : Nat) : Bool := t.locks.any (fun p => p.2.tx == tx)

/-- NOT the current tree — a sweep that asks the per-transaction index whether a swept transaction
    "still holds keys" and removes from the wait-for graph only those whose index entry is empty (or
    missing) after the sweep.  Refuted by `swept_tx_absent_from_graph_witness`. -/
def cleanupExpiredWaitIdx (t : LockTable) (g : WaitGraph) (now : Nat) : LockTable × WaitGraph × Nat :=
  let txs := (t.locks.filter (fun p => p.2.isExpired now)).map (·.2.tx)
  let (t', n) := cleanupExpired t now
  let gone := txs.filter (fun tx => match aGet t'.txLocks tx with
    | some ks => ks.isEmpty
    | none => true)
  (t', gone.foldl removeTransaction g, n)

end Neumann.Locks
