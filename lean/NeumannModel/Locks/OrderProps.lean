import NeumannModel.Locks.OrderLemmas
/-
  C12 — property theorems about the lock ORDER of the coordinator (`OrderModel.lean`): threads that
  call the entry points of `DistributedTxCoordinator` / `LockManager` / `WaitForGraph` as they are
  since /repo aa0e56f6 can never block each other for ever, for any number of threads, any calls,
  any data-dependent branch, any interleaving and any lock admission rule; the order
  `release_orphaned_locks` used before aa0e56f6 deadlocks against an end-of-transaction site.
  ONLY property statements and non-vacuity examples; helpers are in `OrderLemmas.lean`.
-/
namespace Neumann.Locks.OrderProps
open Neumann.Locks.Order

/-- **Rank-ordered acquisition never gets stuck** (the general statement): threads whose programs
    take every lock above all the guards they hold at that moment and end holding nothing — under
    every admission rule `adm` (plain reader/writer, writer-preferring, exclusive, …), after every
    schedule — never reach a state where every unfinished thread waits for a held lock. -/
theorem rank_ordered_threads_never_stuck (adm : Sys → Thread → Bool) (progs : List (List Act))
    (hp : ∀ p ∈ progs, after [] p = some []) (sched : List Nat) (s : Sys)
    (hr : runSched adm (start progs) sched = some s) : ¬ Stuck s := by
  refine ordered_not_stuck s (runSched_ordered adm sched _ s ?_ hr)
  intro t ht
  simp only [start, List.mem_map] at ht
  obtain ⟨p, hpm, rfl⟩ := ht
  exact hp p hpm

/-- **The coordinator's calls cannot deadlock each other** (what /repo aa0e56f6 makes true): any
    number of threads, each performing any sequence of entry-point calls (`Entry`: every public
    operation of the coordinator, its lock manager and its wait-for graph that takes a lock, with
    every data-dependent branch and loop count), under every admission rule and every schedule:
    the reached state is never stuck. -/
theorem coordinator_calls_never_stuck (adm : Sys → Thread → Bool) (threads : List (List Entry))
    (sched : List Nat) (s : Sys)
    (hr : runSched adm (start (threads.map threadProg)) sched = some s) : ¬ Stuck s :=
  ordered_not_stuck s (runSched_ordered adm sched _ s (start_ordered threads) hr)

/-- …in particular no reader/writer deadlock -/
theorem coordinator_calls_never_deadlock (threads : List (List Entry)) (sched : List Nat) (s : Sys)
    (hr : runSched rwAdmit (start (threads.map threadProg)) sched = some s) :
    deadlockedRW s = false := by
  cases h : deadlockedRW s with
  | false => rfl
  | true => exact absurd (deadlockedRW_stuck s h) (coordinator_calls_never_stuck rwAdmit threads sched s hr)

/-- **Progress**: in every reachable state with an unfinished thread, some thread can perform its
    next action. -/
theorem coordinator_calls_some_thread_moves (threads : List (List Entry)) (sched : List Nat) (s : Sys)
    (hr : runSched rwAdmit (start (threads.map threadProg)) sched = some s)
    (hu : ∃ t ∈ s, t.todo ≠ []) : ∃ i, (stepAt rwAdmit s i).isSome = true := by
  have hd := coordinator_calls_never_deadlock threads sched s hr
  obtain ⟨t0, ht0, hne⟩ := hu
  have hany : s.any (fun t => !t.todo.isEmpty) = true := by
    simp only [List.any_eq_true]
    exact ⟨t0, ht0, by cases h : t0.todo with | nil => exact absurd h hne | cons _ _ => rfl⟩
  simp only [deadlockedRW, hany, Bool.true_and] at hd
  have : ∃ t ∈ s, ¬ (t.todo.isEmpty || !rwAdmit s t) = true := by
    by_cases hex : ∃ t ∈ s, ¬ (t.todo.isEmpty || !rwAdmit s t) = true
    · exact hex
    · exfalso
      have hall : s.all (fun t => t.todo.isEmpty || !rwAdmit s t) = true := by
        simp only [List.all_eq_true]
        intro t ht
        by_cases hc : (t.todo.isEmpty || !rwAdmit s t) = true
        · exact hc
        · exact absurd ⟨t, ht, hc⟩ hex
      rw [hall] at hd
      cases hd
  obtain ⟨t, ht, hc⟩ := this
  obtain ⟨i, hi, hget⟩ := List.getElem_of_mem ht
  refine ⟨i, ?_⟩
  have hopt : s[i]? = some t := by rw [List.getElem?_eq_getElem hi, hget]
  have he : t.todo.isEmpty = false := by
    cases h : t.todo.isEmpty with
    | false => rfl
    | true => simp [h] at hc
  have ha : rwAdmit s t = true := by
    cases h : rwAdmit s t with
    | true => rfl
    | false => simp [h] at hc
  simp [stepAt, hopt, he, ha]

/-- **What was wrong before aa0e56f6** (finding
    DistributedTxCoordinator.release_orphaned_locks/lock_order_deadlock_with_end_of_tx): the old
    sweep took `locks.write()`, `tx_locks.write()` and then `pending.read()`.  One thread in
    `commit` (one recorded Yes vote) and one in the old sweep: commit takes `pending.write()`, the
    sweep takes the two lock-table locks; now the sweep waits for `pending` and commit's
    `release_by_handle_with_wait_cleanup` waits for `locks` — a reader/writer deadlock reached
    after three steps. -/
theorem sweep_old_deadlocks_with_end_of_tx_witness :
    ∃ sched s, runSched rwAdmit
        (start [sweepProgOld [], entryProg (.commit false [some (false, false)] (false, false))]) sched = some s ∧
      deadlockedRW s = true :=
  ⟨[1, 0, 0], _, rfl, by decide⟩

/-- the old sweep is not rank-ordered (`pending` is taken under the lock-table locks), the current
    one is — on the same inputs -/
theorem sweep_old_breaks_lock_order_witness :
    after [] (sweepProgOld [(true, true)]) = none ∧ after [] (sweepProg [(true, true)]) = some [] := by
  decide

/-- **The wait-for graph is touched only inside the lock-table section** by
    `try_lock_with_wait_tracking`: for every blocker list (any number of `add_wait` calls, each with
    its early-return / priority branch) and for the granted path (`remove_transaction`), every
    acquisition of `edges` / `reverse_edges` / `wait_started` / `priorities` happens while both
    lock-table write guards are held.  (What that buys at the level of data is
    `SectionProps.ended_tx_absent_in_every_interleaving`.) -/
theorem try_lock_wt_touches_graph_inside_section (blockers : Option (List (Bool × Bool))) (oi : Bool × Bool) :
    graphUnderTable [] (lmTryLockWT blockers oi) = true :=
  graphUnderTable_lmTryLockWT blockers oi

/-- the variant that drops the guards before recording the edges touches the graph outside the
    section — and the lock ORDER does not notice: its acquisitions are still rank-ordered, so
    `coordinator_calls_never_stuck` holds of it as well (it is a race, not a deadlock) -/
theorem drop_guards_first_is_still_rank_ordered_witness :
    graphUnderTable [] (lmTryLockWTDropGuardsFirst [(false, false)]) = false ∧
    after [] (lmTryLockWTDropGuardsFirst [(false, false)]) = some [] ∧
    graphUnderTable [] (lmTryLockWT (some [(false, false)]) (false, false)) = true := by
  decide

/-! ### non-vacuity -/

/-- the hypotheses of `rank_ordered_threads_never_stuck` are satisfiable by real programs -/
example : ∀ p ∈ [sweepProg [(true, false)], entryProg (.commit true [some (true, true), none] (false, true))],
    after [] p = some [] := by decide

/-- the current sweep interleaved with a commit: the sweep takes `pending.read()` and the lock-table
    locks and drops `pending`, commit takes `pending.write()`, the sweep finishes, commit runs to
    its end — both threads finish -/
example : (runSched rwAdmit
    (start [sweepProg [], entryProg (.commit false [some (false, false)] (false, false))])
    ([0, 0, 0, 0, 1, 0, 0] ++ List.replicate 21 1)).map (fun s => s.map (·.todo.length)) = some [0, 0] := by
  decide

/-- a reachable state in which a thread IS refused (the sweep waits for `pending`), and which is
    not stuck: commit can move -/
example : ∃ s, runSched rwAdmit
    (start [sweepProg [], entryProg (.commit false [some (false, false)] (false, false))]) [1] = some s ∧
    stepAt rwAdmit s 0 = none ∧ (stepAt rwAdmit s 1).isSome = true :=
  ⟨_, rfl, by decide, by decide⟩

/-- two readers of `pending` share it; a writer is refused meanwhile -/
example : ∃ s, runSched rwAdmit (start [entryProg .readPending, entryProg .readPending, entryProg .endRefused]) [0, 1] = some s ∧
    stepAt rwAdmit s 2 = none :=
  ⟨_, rfl, by decide⟩

/-- three threads: a refused prepare (adds a wait-for edge inside the lock-table section), an
    abort, `cleanup_timeouts` with one timed-out transaction — every program is rank-ordered -/
example : (Thread.mk [] (threadProg [.handlePrepare (some [(false, false)]) (false, false) true false,
    .abort true [some (true, false)] (true, true),
    .cleanupTimeouts [([some (false, false), none], (true, false))] [(false, true)]])).Ordered := by
  unfold Thread.Ordered
  decide

end Neumann.Locks.OrderProps
