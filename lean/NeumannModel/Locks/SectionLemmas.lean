import NeumannModel.Locks.SectionModel
import NeumannModel.Locks.CoordLemmas
/-
  C12 — helper lemmas for the critical-section model (`SectionModel.lean`): the invariant `Inv`
  kept by every step of every thread (code as it is, `early = false`), and the composition of a
  thread's steps into the whole-call operations of `Model.lean`.  Core Lean only.
-/
namespace Neumann.Locks.Section
open Neumann.Locks

/-! ### `add_wait` between two other transactions does not bring a third one back -/

theorem aGet_addToSet_ne (m : List (Nat × List Nat)) (k x k' : Nat) (h : k' ≠ k) :
    aGet (addToSet m k x) k' = aGet m k' := by
  unfold addToSet
  cases aGet m k with
  | none =>
    simp only
    rw [aGet_aInsert]
    have : ¬ k = k' := fun e => h e.symm
    simp [this]
  | some s =>
    simp only
    rw [aGet_aModify]
    simp [h]

theorem absent_addWait (g : WaitGraph) (now w h : Nat) (p : Option Nat) (x : Nat)
    (ha : Absent g x) (h1 : x ≠ w) (h2 : x ≠ h) : Absent (addWait g now w h p) x := by
  obtain ⟨a1, a2, a3, a4, a5, a6⟩ := ha
  have hw : ¬ w = x := fun e => h1 e.symm
  refine ⟨?_, ?_, ?_, ?_, ?_, ?_⟩
  · unfold addWait
    by_cases e1 : w = h
    · simp only [e1, ↓reduceIte]; exact a1
    · by_cases e2 : g.maxEdgesPerTx > 0 ∧ ((aGet g.edges w).getD []).length ≥ g.maxEdgesPerTx
      · simp only [e1, ↓reduceIte, e2, and_self]
        cases aGet g.edges w with
        | some _ => exact a1
        | none => simp only; rw [aGet_aInsert]; simp [hw, a1]
      · simp only [e1, ↓reduceIte, e2]
        rw [aGet_addToSet_ne _ _ _ _ h1]; exact a1
  · unfold addWait
    by_cases e1 : w = h
    · simp only [e1, ↓reduceIte]; exact a2
    · by_cases e2 : g.maxEdgesPerTx > 0 ∧ ((aGet g.edges w).getD []).length ≥ g.maxEdgesPerTx
      · simp only [e1, ↓reduceIte, e2, and_self]
        cases aGet g.edges w with
        | some _ => exact a2
        | none => exact a2
      · simp only [e1, ↓reduceIte, e2]
        rw [aGet_addToSet_ne _ _ _ _ h2]; exact a2
  · intro a hx
    rcases (mem_outs_addWait g now w h p a x).mp hx with hx | ⟨_, hx, _⟩
    · exact a3 a hx
    · exact h2 hx
  · intro b hx
    rcases (mem_ins_addWait g now w h p x b).mp hx with hx | ⟨hx, _⟩
    · exact a4 b hx
    · exact h1 hx
  · unfold addWait
    by_cases e1 : w = h
    · simp only [e1, ↓reduceIte]; exact a5
    · by_cases e2 : g.maxEdgesPerTx > 0 ∧ ((aGet g.edges w).getD []).length ≥ g.maxEdgesPerTx
      · simp only [e1, ↓reduceIte, e2, and_self]
        cases aGet g.edges w with
        | some _ => exact a5
        | none => exact a5
      · simp only [e1, ↓reduceIte, e2]
        cases aGet g.waitStarted w with
        | some _ => exact a5
        | none => simp only; rw [aGet_aInsert]; simp [hw, a5]
  · unfold addWait
    by_cases e1 : w = h
    · simp only [e1, ↓reduceIte]; exact a6
    · by_cases e2 : g.maxEdgesPerTx > 0 ∧ ((aGet g.edges w).getD []).length ≥ g.maxEdgesPerTx
      · simp only [e1, ↓reduceIte, e2, and_self]
        cases aGet g.edges w with
        | some _ => exact a6
        | none => exact a6
      · simp only [e1, ↓reduceIte, e2]
        cases p with
        | none => exact a6
        | some q => simp only; rw [aGet_aInsert]; simp [hw, a6]

/-! ### the thread list -/

theorem get_set (ths : List Th) (i j : Nat) (th th' : Th) (h : ths[i]? = some th) :
    (ths.set i th')[j]? = if j = i then some th' else ths[j]? := by
  have hlt : i < ths.length := by
    rcases Nat.lt_or_ge i ths.length with h' | h'
    · exact h'
    · rw [List.getElem?_eq_none h'] at h; cases h
  rw [List.getElem?_set]
  by_cases e : i = j
  · subst e; simp [hlt]
  · have : ¬ j = i := fun e' => e e'.symm
    simp [e, this]

/-- the blockers of a refused prepare hold a lock (whatever its age) at the moment of the scan -/
theorem blocker_holds_lock (locks : List (Nat × KeyLock)) (now tx : Nat) (keys : List Nat) (b : Nat)
    (hb : b ∈ blockersOf (conflicts locks now tx keys)) :
    ∃ k l, aGet locks k = some l ∧ l.tx = b := by
  unfold blockersOf at hb
  rw [mem_foldl_setInsert_snd] at hb
  rcases hb with hb | ⟨k, hk⟩
  · simp at hb
  · obtain ⟨_, l, h1, _, _, h4⟩ := (mem_conflicts locks now tx keys k b).mp hk
    exact ⟨k, l, h1, h4⟩

/-! ### the invariant -/

structure Inv (s : St) : Prop where
  nd : (s.t.locks.map (·.1)).Nodup
  nd2 : (s.t.txLocks.map (·.1)).Nodup
  tr : Transpose s.g
  /-- an ended transaction is nowhere in the wait-for graph -/
  abs : ∀ x ∈ s.ended, Absent s.g x
  /-- …and its thread has finished -/
  fin : ∀ x ∈ s.ended, ∃ th, s.ths[x]? = some th ∧ th.pc = .done
  /-- every lock carries a handle its owner's thread will still release -/
  own : ∀ k l, aGet s.t.locks k = some l → ∃ th, s.ths[l.tx]? = some th ∧ l.handle ∈ remaining th
  /-- a thread that still has edges to record holds the lock-table guards, and each blocker it
      is going to name still has a lock in the table -/
  sec : ∀ i th bs rest, s.ths[i]? = some th → th.pc = .adding bs rest →
    ∀ b ∈ bs, s.guard = some i ∧ ∃ k l, aGet s.t.locks k = some l ∧ l.tx = b

theorem inv_init (timeout maxEdges : Nat) (progs : List (List (List Nat))) :
    Inv (init timeout maxEdges progs) := by
  refine ⟨by simp [init, LockTable.empty], by simp [init, LockTable.empty], transpose_empty _, ?_, ?_, ?_, ?_⟩
  · intro x hx; simp [init] at hx
  · intro x hx; simp [init] at hx
  · intro k l h; simp [init, LockTable.empty, aGet] at h
  · intro i th bs rest h hpc b _
    simp only [init, List.getElem?_map] at h
    cases hp : progs[i]? with
    | none => simp [hp] at h
    | some p =>
      simp only [hp, Option.map_some, Option.some.injEq] at h
      subst h
      cases hpc

/-- an ended transaction is neither the stepping thread's (it is not `done`) … -/
theorem ended_ne_running (s : St) (hi : Inv s) (i x : Nat) (th : Th) (hth : s.ths[i]? = some th)
    (hpc : th.pc ≠ .done) (hx : x ∈ s.ended) : x ≠ i := by
  intro e
  subst e
  obtain ⟨th', h1, h2⟩ := hi.fin x hx
  rw [hth] at h1
  cases h1
  exact hpc h2

/-- … nor the owner of a lock in the table -/
theorem ended_ne_owner (s : St) (hi : Inv s) (x k : Nat) (l : KeyLock) (hl : aGet s.t.locks k = some l)
    (hx : x ∈ s.ended) : x ≠ l.tx := by
  intro e
  subst e
  obtain ⟨th, h1, h2⟩ := hi.own k l hl
  obtain ⟨th', h3, h4⟩ := hi.fin l.tx hx
  rw [h1] at h3
  cases h3
  simp [remaining, h4] at h2

/-- the thread list after thread `i` moved from `th` to `th'`: an ended transaction's thread is still `done` -/
theorem fin_keep (ths : List Th) (i : Nat) (th th' : Th) (hth : ths[i]? = some th) (hnd : th.pc ≠ .done)
    (x : Nat) (hf : ∃ thx, ths[x]? = some thx ∧ thx.pc = .done) :
    ∃ thx, (ths.set i th')[x]? = some thx ∧ thx.pc = .done := by
  obtain ⟨thx, h1, h2⟩ := hf
  have hne : x ≠ i := by
    intro e; subst e; rw [hth] at h1; cases h1; exact hnd h2
  exact ⟨thx, by rw [get_set ths i x th th' hth]; simp only [hne, ↓reduceIte]; exact h1, h2⟩

/-- … and a handle that was going to be released still is, when `th'` releases at least what `th` did -/
theorem own_keep (ths : List Th) (i : Nat) (th th' : Th) (hth : ths[i]? = some th)
    (hsub : ∀ h ∈ remaining th, h ∈ remaining th') (tx h : Nat)
    (ho : ∃ tho, ths[tx]? = some tho ∧ h ∈ remaining tho) :
    ∃ tho, (ths.set i th')[tx]? = some tho ∧ h ∈ remaining tho := by
  obtain ⟨tho, h1, h2⟩ := ho
  by_cases e : tx = i
  · subst e; rw [hth] at h1; cases h1
    exact ⟨th', by rw [get_set ths tx tx th th' hth]; simp, hsub h h2⟩
  · exact ⟨tho, by rw [get_set ths i tx th th' hth]; simp only [e, ↓reduceIte]; exact h1, h2⟩

theorem get_other (ths : List Th) (i j : Nat) (th th' thj : Th) (hth : ths[i]? = some th) (e : j ≠ i)
    (hj : (ths.set i th')[j]? = some thj) : ths[j]? = some thj := by
  rw [get_set ths i j th th' hth] at hj
  simpa only [e, ↓reduceIte] using hj

theorem get_self (ths : List Th) (i : Nat) (th th' thj : Th) (hth : ths[i]? = some th)
    (hj : (ths.set i th')[i]? = some thj) : thj = th' := by
  rw [get_set ths i i th th' hth] at hj
  simp only [↓reduceIte, Option.some.injEq] at hj
  exact hj.symm

/-- **Every step of every thread keeps the invariant** (code as it is: the guards are held from
    the conflict scan to the last `add_wait`). -/
theorem inv_step (s s' : St) (i now : Nat) (hi : Inv s) (hs : step false s i now = some s') : Inv s' := by
  unfold step at hs
  cases hth : s.ths[i]? with
  | none => simp [hth] at hs
  | some th =>
    simp only [hth] at hs
    cases hpc : th.pc with
    | done => simp [hpc] at hs
    | prep shards =>
      have hnd : th.pc ≠ .done := by rw [hpc]; intro e; cases e
      have hrem : remaining th = th.handles := by simp [remaining, hpc]
      cases shards with
      | nil =>
        simp only [hpc, Option.some.injEq] at hs
        subst hs
        refine ⟨hi.nd, hi.nd2, hi.tr, hi.abs, fun x hx => fin_keep _ _ _ _ hth hnd x (hi.fin x hx), ?_, ?_⟩
        · intro k l hl
          exact own_keep _ _ _ _ hth (by intro h hh; rw [hrem] at hh; simpa [remaining] using hh) _ _ (hi.own k l hl)
        · intro j thj bs rest hj hjpc b hb
          by_cases e : j = i
          · subst e; have := get_self _ _ _ _ _ hth hj; subst this; cases hjpc
          · exact hi.sec j thj bs rest (get_other _ _ _ _ _ _ hth e hj) hjpc b hb
      | cons ks rest =>
        simp only [hpc] at hs
        cases hg : s.guard with
        | some j => simp [hg] at hs
        | none =>
          simp only [hg, Option.isSome_none, Bool.false_eq_true, ↓reduceIte] at hs
          -- nobody is between a scan and its last add_wait
          have hnoadd : ∀ (j : Nat) (thj : Th) (bs : List Nat) (rest' : List (List Nat)), s.ths[j]? = some thj →
              thj.pc = Pc.adding bs rest' → ∀ b ∈ bs, False := by
            intro j thj bs rest' hj hjpc b hb
            have := (hi.sec j thj bs rest' hj hjpc b hb).1
            rw [hg] at this; cases this
          by_cases hc : (conflicts s.t.locks now i ks).isEmpty = true
          · -- granted
            simp only [hc, ↓reduceIte, Option.some.injEq] at hs
            subst hs
            have hfc : firstConflict s.t.locks now i ks = none := by
              rw [← conflicts_nil_iff]; exact List.isEmpty_iff.mp hc
            have ht : (tryLock s.t now i ks).1 =
                { locks := acquireAll s.t now i ks, txLocks := extendTx s.t.txLocks i ks
                  defaultTimeout := s.t.defaultTimeout, nextHandle := s.t.nextHandle + 1 } := by
              unfold tryLock; rw [hfc]
            have hn := tryLock_nodup s.t now i ks hi.nd hi.nd2
            refine ⟨hn.1, hn.2, hi.tr, hi.abs, fun x hx => fin_keep _ _ _ _ hth hnd x (hi.fin x hx), ?_, ?_⟩
            · intro k l hl
              simp only [ht, aGet_acquireAll] at hl
              by_cases hk : k ∈ ks
              · simp only [hk, ↓reduceIte, Option.some.injEq] at hl
                subst hl
                refine ⟨{ pc := .granted rest, handles := th.handles ++ [s.t.nextHandle] },
                  by rw [get_set _ _ _ _ _ hth]; simp [newLock], ?_⟩
                simp [remaining, newLock]
              · simp only [hk, ↓reduceIte] at hl
                exact own_keep _ _ _ _ hth (by intro h hh; rw [hrem] at hh; simp [remaining, hh]) _ _ (hi.own k l hl)
            · intro j thj bs rest' hj hjpc b hb
              by_cases e : j = i
              · subst e; have := get_self _ _ _ _ _ hth hj; subst this; cases hjpc
              · exact absurd (hnoadd j thj bs rest' (get_other _ _ _ _ _ _ hth e hj) hjpc b hb) id
          · -- refused
            simp only [hc, Bool.false_eq_true, ↓reduceIte, Option.some.injEq] at hs
            subst hs
            refine ⟨hi.nd, hi.nd2, hi.tr, hi.abs, fun x hx => fin_keep _ _ _ _ hth hnd x (hi.fin x hx), ?_, ?_⟩
            · intro k l hl
              exact own_keep _ _ _ _ hth (by intro h hh; rw [hrem] at hh; simpa [remaining] using hh) _ _ (hi.own k l hl)
            · intro j thj bs rest' hj hjpc b hb
              by_cases e : j = i
              · subst e; have := get_self _ _ _ _ _ hth hj; subst this
                simp only [Pc.adding.injEq] at hjpc
                obtain ⟨e1, _⟩ := hjpc
                subst e1
                exact ⟨rfl, blocker_holds_lock _ _ _ _ _ hb⟩
              · exact absurd (hnoadd j thj bs rest' (get_other _ _ _ _ _ _ hth e hj) hjpc b hb) id
    | granted rest =>
      have hnd : th.pc ≠ .done := by rw [hpc]; intro e; cases e
      have hrem : remaining th = th.handles := by simp [remaining, hpc]
      simp only [hpc, Option.some.injEq] at hs
      subst hs
      refine ⟨hi.nd, hi.nd2, transpose_removeTransaction _ _ hi.tr,
        fun x hx => absent_removeTransaction _ _ _ hi.tr (Or.inr (hi.abs x hx)),
        fun x hx => fin_keep _ _ _ _ hth hnd x (hi.fin x hx), ?_, ?_⟩
      · intro k l hl
        exact own_keep _ _ _ _ hth (by intro h hh; rw [hrem] at hh; simpa [remaining] using hh) _ _ (hi.own k l hl)
      · intro j thj bs rest' hj hjpc b hb
        by_cases e : j = i
        · subst e; have := get_self _ _ _ _ _ hth hj; subst this
          simp only [Pc.adding.injEq] at hjpc
          obtain ⟨e1, _⟩ := hjpc
          subst e1
          cases hb
        · exact hi.sec j thj bs rest' (get_other _ _ _ _ _ _ hth e hj) hjpc b hb
    | adding bs0 rest =>
      have hnd : th.pc ≠ .done := by rw [hpc]; intro e; cases e
      have hrem : remaining th = th.handles := by simp [remaining, hpc]
      cases bs0 with
      | cons b0 bs1 =>
        simp only [hpc, Option.some.injEq] at hs
        subst hs
        obtain ⟨_, k0, l0, hl0, hb0⟩ := hi.sec i th (b0 :: bs1) rest hth hpc b0 (List.mem_cons_self ..)
        refine ⟨hi.nd, hi.nd2, transpose_addWait _ _ _ _ _ hi.tr, ?_,
          fun x hx => fin_keep _ _ _ _ hth hnd x (hi.fin x hx), ?_, ?_⟩
        · intro x hx
          refine absent_addWait _ _ _ _ _ _ (hi.abs x hx) (ended_ne_running s hi i x th hth hnd hx) ?_
          rw [← hb0]
          exact ended_ne_owner s hi x k0 l0 hl0 hx
        · intro k l hl
          exact own_keep _ _ _ _ hth (by intro h hh; rw [hrem] at hh; simpa [remaining] using hh) _ _ (hi.own k l hl)
        · intro j thj bs rest' hj hjpc b hb
          by_cases e : j = i
          · subst e; have := get_self _ _ _ _ _ hth hj; subst this
            simp only [Pc.adding.injEq] at hjpc
            obtain ⟨e1, _⟩ := hjpc
            subst e1
            exact hi.sec j th (b0 :: bs1) rest hth hpc b (List.mem_cons_of_mem _ hb)
          · exact hi.sec j thj bs rest' (get_other _ _ _ _ _ _ hth e hj) hjpc b hb
      | nil =>
        simp only [hpc, Option.some.injEq] at hs
        subst hs
        refine ⟨hi.nd, hi.nd2, hi.tr, hi.abs, fun x hx => fin_keep _ _ _ _ hth hnd x (hi.fin x hx), ?_, ?_⟩
        · intro k l hl
          exact own_keep _ _ _ _ hth (by intro h hh; rw [hrem] at hh; simpa [remaining] using hh) _ _ (hi.own k l hl)
        · intro j thj bs rest' hj hjpc b hb
          by_cases e : j = i
          · subst e; have := get_self _ _ _ _ _ hth hj; subst this; cases hjpc
          · obtain ⟨h1, h2⟩ := hi.sec j thj bs rest' (get_other _ _ _ _ _ _ hth e hj) hjpc b hb
            refine ⟨?_, h2⟩
            simp only [h1, Option.some.injEq, e, ↓reduceIte]
    | ending hs0 =>
      have hnd : th.pc ≠ .done := by rw [hpc]; intro e; cases e
      have hrem : remaining th = hs0 := by simp [remaining, hpc]
      cases hs0 with
      | nil =>
        simp only [hpc, Option.some.injEq] at hs
        subst hs
        refine ⟨hi.nd, hi.nd2, transpose_removeTransaction _ _ hi.tr, ?_, ?_, ?_, ?_⟩
        · intro x hx
          simp only [List.mem_cons] at hx
          rcases hx with hx | hx
          · exact absent_removeTransaction _ _ _ hi.tr (Or.inl hx)
          · exact absent_removeTransaction _ _ _ hi.tr (Or.inr (hi.abs x hx))
        · intro x hx
          simp only [List.mem_cons] at hx
          by_cases e : x = i
          · exact ⟨{ th with pc := .done }, by rw [get_set _ _ _ _ _ hth]; simp only [e, ↓reduceIte], rfl⟩
          · rcases hx with hx | hx
            · exact absurd hx e
            · exact fin_keep _ _ _ _ hth hnd x (hi.fin x hx)
        · intro k l hl
          exact own_keep _ _ _ _ hth (by intro h hh; rw [hrem] at hh; cases hh) _ _ (hi.own k l hl)
        · intro j thj bs rest' hj hjpc b hb
          by_cases e : j = i
          · subst e; have := get_self _ _ _ _ _ hth hj; subst this; cases hjpc
          · exact hi.sec j thj bs rest' (get_other _ _ _ _ _ _ hth e hj) hjpc b hb
      | cons h hs1 =>
        simp only [hpc] at hs
        cases hg : s.guard with
        | some j => simp [hg] at hs
        | none =>
          simp only [hg, Option.isSome_none, Bool.false_eq_true, ↓reduceIte] at hs
          have hnoadd : ∀ (j : Nat) (thj : Th) (bs : List Nat) (rest' : List (List Nat)), s.ths[j]? = some thj →
              thj.pc = Pc.adding bs rest' → ∀ b ∈ bs, False := by
            intro j thj bs rest' hj hjpc b hb
            have := (hi.sec j thj bs rest' hj hjpc b hb).1
            rw [hg] at this; cases this
          have hn := releaseByHandle_nodup s.t h hi.nd hi.nd2
          -- both outcomes (a lock carried the handle or not) leave `hs1` to release
          have key : ∀ pc', remaining { th with pc := pc' } = hs1 → (∀ bs r, pc' ≠ .adding bs r) →
              Inv { s with t := releaseByHandle s.t h, guard := none, ths := s.ths.set i { th with pc := pc' } } := by
            intro pc' hr' hna
            refine ⟨hn.1, hn.2, hi.tr, hi.abs, fun x hx => fin_keep _ _ _ _ hth hnd x (hi.fin x hx), ?_, ?_⟩
            · intro k l hl
              obtain ⟨hl0, hne⟩ := releaseByHandle_locks s.t h k l hi.nd hl
              obtain ⟨tho, h1, h2⟩ := hi.own k l hl0
              by_cases e : l.tx = i
              · rw [e, hth] at h1; cases h1
                refine ⟨{ th with pc := pc' }, by rw [get_set _ _ _ _ _ hth]; simp only [e, ↓reduceIte], ?_⟩
                rw [hr']
                rw [hrem] at h2
                simp only [List.mem_cons] at h2
                rcases h2 with h2 | h2
                · exact absurd h2 hne
                · exact h2
              · exact ⟨tho, by rw [get_set _ _ _ _ _ hth]; simp only [e, ↓reduceIte]; exact h1, h2⟩
            · intro j thj bs rest' hj hjpc b hb
              by_cases e : j = i
              · subst e; have := get_self _ _ _ _ _ hth hj; subst this
                exact absurd hjpc (hna bs rest')
              · exact absurd (hnoadd j thj bs rest' (get_other _ _ _ _ _ _ hth e hj) hjpc b hb) id
          cases hf : ((s.t.locks.filter (fun p => p.2.handle == h)).map (·.2.tx)).getLast? with
          | none =>
            simp only [hf, Option.some.injEq] at hs
            subst hs
            exact key (.ending hs1) (by simp [remaining]) (by intro bs r e; cases e)
          | some x =>
            simp only [hf, Option.some.injEq] at hs
            subst hs
            exact key (.cleaning x hs1) (by simp [remaining]) (by intro bs r e; cases e)
    | cleaning x hs1 =>
      have hnd : th.pc ≠ .done := by rw [hpc]; intro e; cases e
      have hrem : remaining th = hs1 := by simp [remaining, hpc]
      simp only [hpc, Option.some.injEq] at hs
      subst hs
      refine ⟨hi.nd, hi.nd2, transpose_removeTransaction _ _ hi.tr,
        fun y hy => absent_removeTransaction _ _ _ hi.tr (Or.inr (hi.abs y hy)),
        fun y hy => fin_keep _ _ _ _ hth hnd y (hi.fin y hy), ?_, ?_⟩
      · intro k l hl
        exact own_keep _ _ _ _ hth (by intro h hh; rw [hrem] at hh; simpa [remaining] using hh) _ _ (hi.own k l hl)
      · intro j thj bs rest' hj hjpc b hb
        by_cases e : j = i
        · subst e; have := get_self _ _ _ _ _ hth hj; subst this; cases hjpc
        · exact hi.sec j thj bs rest' (get_other _ _ _ _ _ _ hth e hj) hjpc b hb

theorem inv_run (sched : List (Nat × Nat)) (s s' : St) (hi : Inv s) (hr : run false s sched = some s') :
    Inv s' := by
  induction sched generalizing s with
  | nil => simp only [run, Option.some.injEq] at hr; subst hr; exact hi
  | cons a r ih =>
    obtain ⟨i, now⟩ := a
    simp only [run] at hr
    cases hs : step false s i now with
    | none => simp [hs] at hr
    | some s1 =>
      simp only [hs] at hr
      exact ih s1 (inv_step s s1 i now hi hs) hr

theorem run_append_some (e : Bool) (s s1 : St) (a b : List (Nat × Nat)) (h : run e s a = some s1) :
    run e s (a ++ b) = run e s1 b := by
  induction a generalizing s with
  | nil => simp only [run, Option.some.injEq] at h; subst h; rfl
  | cons x r ih =>
    obtain ⟨i, now⟩ := x
    simp only [List.cons_append, run] at h ⊢
    cases hs : step e s i now with
    | none => simp [hs] at h
    | some s' => simp only [hs] at h ⊢; exact ih s' h

/-! ### a call that no other thread interleaves with is the whole-call operation of `Model.lean` -/

/-- what a run of thread `i` alone leaves of the other threads and of the ghost state -/
structure Frame (s s' : St) (i : Nat) : Prop where
  ended : s'.ended = s.ended
  others : ∀ j, j ≠ i → s'.ths[j]? = s.ths[j]?

theorem step_prep_grant (e : Bool) (s : St) (i now : Nat) (th : Th) (ks : List Nat) (rest : List (List Nat))
    (h1 : s.ths[i]? = some th) (h2 : th.pc = .prep (ks :: rest)) (hg : s.guard = none)
    (hc : (conflicts s.t.locks now i ks).isEmpty = true) :
    step e s i now = some { s with t := (tryLock s.t now i ks).1, guard := some i
                                   ths := s.ths.set i { pc := .granted rest, handles := th.handles ++ [s.t.nextHandle] } } := by
  simp [step, h1, h2, hg, hc]

theorem step_prep_refuse (e : Bool) (s : St) (i now : Nat) (th : Th) (ks : List Nat) (rest : List (List Nat))
    (h1 : s.ths[i]? = some th) (h2 : th.pc = .prep (ks :: rest)) (hg : s.guard = none)
    (hc : (conflicts s.t.locks now i ks).isEmpty = false) :
    step e s i now = some { s with guard := if e then none else some i
                                   ths := s.ths.set i { th with pc := .adding (blockersOf (conflicts s.t.locks now i ks)) rest } } := by
  simp [step, h1, h2, hg, hc]

theorem step_granted (e : Bool) (s : St) (i now : Nat) (th : Th) (rest : List (List Nat))
    (h1 : s.ths[i]? = some th) (h2 : th.pc = .granted rest) :
    step e s i now = some { s with g := removeTransaction s.g i, ths := s.ths.set i { th with pc := .adding [] rest } } := by
  simp [step, h1, h2]

theorem step_adding_cons (e : Bool) (s : St) (i now : Nat) (th : Th) (b : Nat) (bs : List Nat) (rest : List (List Nat))
    (h1 : s.ths[i]? = some th) (h2 : th.pc = .adding (b :: bs) rest) :
    step e s i now = some { s with g := addWait s.g now i b none, ths := s.ths.set i { th with pc := .adding bs rest } } := by
  simp [step, h1, h2]

theorem step_adding_nil (e : Bool) (s : St) (i now : Nat) (th : Th) (rest : List (List Nat))
    (h1 : s.ths[i]? = some th) (h2 : th.pc = .adding [] rest) :
    step e s i now = some { s with guard := if s.guard = some i then none else s.guard
                                   ths := s.ths.set i { th with pc := .prep rest } } := by
  simp [step, h1, h2]

theorem run_adding (e : Bool) (i now : Nat) (rest : List (List Nat)) :
    ∀ (bs : List Nat) (s : St) (th : Th), s.ths[i]? = some th → th.pc = .adding bs rest →
    ∃ s', run e s (List.replicate bs.length (i, now)) = some s' ∧ s'.t = s.t ∧
      s'.g = bs.foldl (fun g b => addWait g now i b none) s.g ∧ s'.guard = s.guard ∧
      s'.ths[i]? = some { th with pc := .adding [] rest } ∧ Frame s s' i
  | [], s, th, h1, h2 => by
    refine ⟨s, rfl, rfl, rfl, rfl, ?_, rfl, fun _ _ => rfl⟩
    rw [h1]; cases th; simp only at h2; subst h2; rfl
  | b :: bs, s, th, h1, h2 => by
    let th1 : Th := { th with pc := .adding bs rest }
    let s1 : St := { s with g := addWait s.g now i b none, ths := s.ths.set i th1 }
    have hs : step e s i now = some s1 := step_adding_cons e s i now th b bs rest h1 h2
    have g1 : s1.ths[i]? = some th1 := by
      show (s.ths.set i th1)[i]? = some th1
      rw [get_set _ _ _ _ _ h1]; simp
    obtain ⟨s', hr, a1, a2, a3, a4, a5, a6⟩ := run_adding e i now rest bs s1 th1 g1 rfl
    refine ⟨s', ?_, a1, a2, a3, a4, a5, ?_⟩
    · simp only [List.length_cons, List.replicate_succ, run, hs]; exact hr
    · intro j hj
      rw [a6 j hj]
      show (s.ths.set i th1)[j]? = s.ths[j]?
      rw [get_set _ _ _ _ _ h1]; simp [hj]

/-- **An uninterrupted `handle_prepare` is `try_lock_with_wait_tracking` as one operation**: from a
    call boundary with the guards free, the steps of thread `i` alone (scan, then grant +
    `remove_transaction` or one `add_wait` per blocker, then the drop of the guards) produce exactly
    the lock table and the wait-for graph of `tryLockWait` — the whole-call model operation that the
    sequential correspondence streams compare with the real `LockManager` after every call.  (Also
    of the `early` variant: sequentially the two orders cannot be told apart.) -/
theorem prepare_alone_is_tryLockWait (e : Bool) (s : St) (i now : Nat) (th : Th) (ks : List Nat)
    (rest : List (List Nat)) (h1 : s.ths[i]? = some th) (h2 : th.pc = .prep (ks :: rest))
    (hg : s.guard = none) :
    ∃ n s', run e s (List.replicate n (i, now)) = some s' ∧
      s'.t = (tryLockWait s.t s.g now now i ks none).1 ∧
      s'.g = (tryLockWait s.t s.g now now i ks none).2.1 ∧ s'.guard = none ∧
      (∃ th', s'.ths[i]? = some th' ∧ th'.pc = .prep rest ∧
        th'.handles = (match (tryLockWait s.t s.g now now i ks none).2.2 with
          | .ok h => th.handles ++ [h] | .error _ => th.handles)) ∧ Frame s s' i := by
  by_cases hc : (conflicts s.t.locks now i ks).isEmpty = true
  · -- granted: scan + grant, remove_transaction, drop
    let th1 : Th := { pc := .granted rest, handles := th.handles ++ [s.t.nextHandle] }
    let s1 : St := { s with t := (tryLock s.t now i ks).1, guard := some i, ths := s.ths.set i th1 }
    have hs1 : step e s i now = some s1 := step_prep_grant e s i now th ks rest h1 h2 hg hc
    have g1 : s1.ths[i]? = some th1 := by
      show (s.ths.set i th1)[i]? = some th1
      rw [get_set _ _ _ _ _ h1]; simp
    let th2 : Th := { th1 with pc := .adding [] rest }
    let s2 : St := { s1 with g := removeTransaction s1.g i, ths := s1.ths.set i th2 }
    have hs2 : step e s1 i now = some s2 := step_granted e s1 i now th1 rest g1 rfl
    have g2 : s2.ths[i]? = some th2 := by
      show (s1.ths.set i th2)[i]? = some th2
      rw [get_set _ _ _ _ _ g1]; simp
    let th3 : Th := { th2 with pc := .prep rest }
    let s3 : St := { s2 with guard := if s2.guard = some i then none else s2.guard, ths := s2.ths.set i th3 }
    have hs3 : step e s2 i now = some s3 := step_adding_nil e s2 i now th2 rest g2 rfl
    have hrun : run e s (List.replicate 3 (i, now)) = some s3 := by
      simp only [List.replicate, run, hs1, hs2, hs3]
    refine ⟨3, s3, hrun, ?_, ?_, ?_, ⟨th3, ?_, rfl, ?_⟩, rfl, ?_⟩
    · show (tryLock s.t now i ks).1 = _
      simp [tryLockWait, hc]
    · show removeTransaction s.g i = _
      simp [tryLockWait, hc]
    · show (if some i = some i then none else some i) = none
      simp
    · show (s2.ths.set i th3)[i]? = some th3
      rw [get_set _ _ _ _ _ g2]; simp
    · show th.handles ++ [s.t.nextHandle] = _
      simp [tryLockWait, hc]
    · intro j hj
      show ((( s.ths.set i th1).set i th2).set i th3)[j]? = s.ths[j]?
      rw [get_set _ _ _ _ _ g2, get_set _ _ _ _ _ g1, get_set _ _ _ _ _ h1]; simp [hj]
  · -- refused: scan, one add_wait per blocker, drop
    have hc' : (conflicts s.t.locks now i ks).isEmpty = false := by simpa using hc
    let bs := blockersOf (conflicts s.t.locks now i ks)
    let th1 : Th := { th with pc := .adding bs rest }
    let s1 : St := { s with guard := if e then none else some i, ths := s.ths.set i th1 }
    have hs1 : step e s i now = some s1 := step_prep_refuse e s i now th ks rest h1 h2 hg hc'
    have g1 : s1.ths[i]? = some th1 := by
      show (s.ths.set i th1)[i]? = some th1
      rw [get_set _ _ _ _ _ h1]; simp
    obtain ⟨s2, hr2, a1, a2, a3, a4, a5, a6⟩ := run_adding e i now rest bs s1 th1 g1 rfl
    let th2 : Th := { th1 with pc := .adding [] rest }
    let th3 : Th := { th2 with pc := .prep rest }
    let s3 : St := { s2 with guard := if s2.guard = some i then none else s2.guard, ths := s2.ths.set i th3 }
    have hs3 : step e s2 i now = some s3 := step_adding_nil e s2 i now th2 rest a4 rfl
    have hrun : run e s (List.replicate (1 + (bs.length + 1)) (i, now)) = some s3 := by
      rw [Nat.add_comm 1, List.replicate_succ, run, hs1]
      show run e s1 (List.replicate (bs.length + 1) (i, now)) = some s3
      rw [List.replicate_succ', run_append_some e s1 s2 _ _ hr2]
      simp only [run, hs3]
    refine ⟨_, s3, hrun, ?_, ?_, ?_, ⟨th3, ?_, rfl, ?_⟩, ?_, ?_⟩
    · show s2.t = _
      rw [a1]; simp [s1, tryLockWait, hc']
    · show s2.g = _
      rw [a2]; simp [s1, tryLockWait, hc', bs, blockersOf]
    · show (if s2.guard = some i then none else s2.guard) = none
      rw [a3]; cases e <;> simp [s1]
    · show (s2.ths.set i th3)[i]? = some th3
      rw [get_set _ _ _ _ _ a4]; simp
    · show th.handles = _
      simp [tryLockWait, hc']
    · show s2.ended = s.ended
      rw [a5]
    · intro j hj
      show (s2.ths.set i th3)[j]? = s.ths[j]?
      rw [get_set _ _ _ _ _ a4]
      simp only [hj, ↓reduceIte]
      rw [a6 j hj]
      show (s.ths.set i th1)[j]? = s.ths[j]?
      rw [get_set _ _ _ _ _ h1]; simp [hj]

theorem step_ending_cons (e : Bool) (s : St) (i now : Nat) (th : Th) (h : Nat) (hs : List Nat)
    (h1 : s.ths[i]? = some th) (h2 : th.pc = .ending (h :: hs)) (hg : s.guard = none) :
    step e s i now = some { s with t := releaseByHandle s.t h
                                   ths := s.ths.set i { th with pc :=
                                     match ((s.t.locks.filter (fun p => p.2.handle == h)).map (·.2.tx)).getLast? with
                                     | some x => .cleaning x hs
                                     | none => .ending hs } } := by
  simp only [step, h1, h2, hg, Option.isSome_none, Bool.false_eq_true, ↓reduceIte]
  cases ((s.t.locks.filter (fun p => p.2.handle == h)).map (·.2.tx)).getLast? <;> rfl

theorem step_cleaning (e : Bool) (s : St) (i now : Nat) (th : Th) (x : Nat) (hs : List Nat)
    (h1 : s.ths[i]? = some th) (h2 : th.pc = .cleaning x hs) :
    step e s i now = some { s with g := removeTransaction s.g x, ths := s.ths.set i { th with pc := .ending hs } } := by
  simp [step, h1, h2]

theorem step_ending_nil (e : Bool) (s : St) (i now : Nat) (th : Th)
    (h1 : s.ths[i]? = some th) (h2 : th.pc = .ending []) :
    step e s i now = some { s with g := removeTransaction s.g i, ended := i :: s.ended
                                   ths := s.ths.set i { th with pc := .done } } := by
  simp [step, h1, h2]

/-- the handle loop of an end-of-transaction site, thread `i` alone -/
theorem run_ending (e : Bool) (i now : Nat) :
    ∀ (hs : List Nat) (s : St) (th : Th), s.ths[i]? = some th → th.pc = .ending hs → s.guard = none →
    ∃ n s', run e s (List.replicate n (i, now)) = some s' ∧ s'.t = (releaseHandles s.t s.g hs).1 ∧
      s'.g = (releaseHandles s.t s.g hs).2 ∧ s'.guard = none ∧
      s'.ths[i]? = some { th with pc := .ending [] } ∧ Frame s s' i
  | [], s, th, h1, h2, hg => by
    refine ⟨0, s, rfl, rfl, rfl, hg, ?_, rfl, fun _ _ => rfl⟩
    rw [h1]; cases th; simp only at h2; subst h2; rfl
  | h :: hs, s, th, h1, h2, hg => by
    have hs1 := step_ending_cons e s i now th h hs h1 h2 hg
    cases hf : ((s.t.locks.filter (fun p => p.2.handle == h)).map (·.2.tx)).getLast? with
    | none =>
      rw [hf] at hs1
      let th1 : Th := { th with pc := .ending hs }
      let s1 : St := { s with t := releaseByHandle s.t h, ths := s.ths.set i th1 }
      have g1 : s1.ths[i]? = some th1 := by
        show (s.ths.set i th1)[i]? = some th1
        rw [get_set _ _ _ _ _ h1]; simp
      obtain ⟨n, s', hr, a1, a2, a3, a4, a5, a6⟩ := run_ending e i now hs s1 th1 g1 rfl hg
      have hw : releaseByHandleWait s.t s.g h = (releaseByHandle s.t h, s.g) := by
        simp [releaseByHandleWait, hf]
      refine ⟨n + 1, s', ?_, ?_, ?_, a3, a4, a5, ?_⟩
      · rw [List.replicate_succ, run, hs1]; exact hr
      · rw [a1]; simp [releaseHandles, List.foldl_cons, hw, s1]
      · rw [a2]; simp [releaseHandles, List.foldl_cons, hw, s1]
      · intro j hj
        rw [a6 j hj]
        show (s.ths.set i th1)[j]? = s.ths[j]?
        rw [get_set _ _ _ _ _ h1]; simp [hj]
    | some x =>
      rw [hf] at hs1
      let th1 : Th := { th with pc := .cleaning x hs }
      let s1 : St := { s with t := releaseByHandle s.t h, ths := s.ths.set i th1 }
      have g1 : s1.ths[i]? = some th1 := by
        show (s.ths.set i th1)[i]? = some th1
        rw [get_set _ _ _ _ _ h1]; simp
      let th2 : Th := { th1 with pc := .ending hs }
      let s2 : St := { s1 with g := removeTransaction s1.g x, ths := s1.ths.set i th2 }
      have hs2 : step e s1 i now = some s2 := step_cleaning e s1 i now th1 x hs g1 rfl
      have g2 : s2.ths[i]? = some th2 := by
        show (s1.ths.set i th2)[i]? = some th2
        rw [get_set _ _ _ _ _ g1]; simp
      obtain ⟨n, s', hr, a1, a2, a3, a4, a5, a6⟩ := run_ending e i now hs s2 th2 g2 rfl hg
      have hw : releaseByHandleWait s.t s.g h = (releaseByHandle s.t h, removeTransaction s.g x) := by
        simp [releaseByHandleWait, hf]
      refine ⟨n + 1 + 1, s', ?_, ?_, ?_, a3, a4, a5, ?_⟩
      · rw [List.replicate_succ, run, hs1]
        show run e s1 (List.replicate (n + 1) (i, now)) = some s'
        rw [List.replicate_succ, run, hs2]; exact hr
      · rw [a1]; simp [releaseHandles, List.foldl_cons, hw, s2, s1]
      · rw [a2]; simp [releaseHandles, List.foldl_cons, hw, s2, s1]
      · intro j hj
        rw [a6 j hj]
        show ((s.ths.set i th1).set i th2)[j]? = s.ths[j]?
        rw [get_set _ _ _ _ _ g1, get_set _ _ _ _ _ h1]; simp [hj]

/-- **An uninterrupted end of a transaction is `endTx` as one operation** (the handle loop with
    wait cleanup, then the unconditional `remove_transaction`), and marks the transaction ended. -/
theorem end_alone_is_endTx (e : Bool) (s : St) (i now : Nat) (th : Th) (hs : List Nat)
    (h1 : s.ths[i]? = some th) (h2 : th.pc = .ending hs) (hg : s.guard = none) :
    ∃ n s', run e s (List.replicate n (i, now)) = some s' ∧ (s'.t, s'.g) = endTx s.t s.g i hs ∧
      s'.guard = none ∧ s'.ended = i :: s.ended ∧ s'.ths[i]? = some { th with pc := .done } ∧
      ∀ j, j ≠ i → s'.ths[j]? = s.ths[j]? := by
  obtain ⟨n, s1, hr, a1, a2, a3, a4, a5, a6⟩ := run_ending e i now hs s th h1 h2 hg
  let th1 : Th := { th with pc := .ending [] }
  let s2 : St := { s1 with g := removeTransaction s1.g i, ended := i :: s1.ended, ths := s1.ths.set i { th1 with pc := .done } }
  have hs2 : step e s1 i now = some s2 := step_ending_nil e s1 i now th1 a4 rfl
  refine ⟨n + 1, s2, ?_, ?_, a3, ?_, ?_, ?_⟩
  · rw [List.replicate_succ', run_append_some e s s1 _ _ hr]; simp only [run, hs2]
  · show (s1.t, removeTransaction s1.g i) = _
    rw [a1, a2]; rfl
  · show i :: s1.ended = _
    rw [a5]
  · show (s1.ths.set i { th1 with pc := .done })[i]? = _
    rw [get_set _ _ _ _ _ a4]; simp [th1]
  · intro j hj
    show (s1.ths.set i { th1 with pc := .done })[j]? = _
    rw [get_set _ _ _ _ _ a4]
    simp only [hj, ↓reduceIte]
    exact a6 j hj

end Neumann.Locks.Section
