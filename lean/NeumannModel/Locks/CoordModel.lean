import NeumannModel.Locks.Model
/-
  C12 — model of the parts of `tensor_chain::distributed_tx::DistributedTxCoordinator` and
  `tensor_chain::deadlock::WaitForGraph` that decide which locks are released when a transaction
  ends, and of the remaining graph operations.

  Import-free (core Lean + `Locks.Model`), total, computable.  Mirrored branch by branch:
  * `release_orphaned_locks` (the orphan sweep after a partition) — `orphanSweep`;
  * `WaitForGraph::{clear, cleanup_stale_edges, would_create_cycle}`;
  * the coordinator's `pending` map (participants, recorded votes with their lock handles, phase),
    `begin`, `handle_prepare`, `record_vote` and every end-of-transaction site: `commit`, `abort`,
    `complete_commit`, `complete_abort`, `force_resolve`, `cleanup_timeouts`, `recover`,
    plus save/load of the coordinator state (`to_state` → `load_from_store`: the lock table and
    `pending` survive, the wait-for graph starts empty).

  Outside the model (inputs): the transaction deadline `DistributedTransaction::is_timed_out`
  reads `SystemTime` directly — whether a pending transaction is past its deadline is the explicit
  attribute `doomed`, set by the environment op `doom`; the cosine-similarity conflict checks of
  `handle_prepare` / `record_vote` (float arithmetic) never fire (the harness configures
  `orthogonal_threshold = 2`); the WAL is absent (`wal: None`).
-/
namespace Neumann.Locks

/-! ### remaining `WaitForGraph` operations -/

/-- `WaitForGraph::clear` -/
def clearGraph (g : WaitGraph) : WaitGraph := WaitGraph.empty g.maxEdgesPerTx

/-- `wait_started.iter().filter(|(_, started)| now.saturating_sub(started) > ttl_ms)` -/
def staleTxs (g : WaitGraph) (now ttl : Nat) : List Nat :=
  (g.waitStarted.filter (fun p => decide (now - p.2 > ttl))).map (·.1)

/-- `WaitForGraph::cleanup_stale_edges`: the stale list is taken first, then every member is
    removed with `remove_transaction`; returns the length of the list -/
def cleanupStaleEdges (g : WaitGraph) (now ttl : Nat) : WaitGraph × Nat :=
  ((staleTxs g now ttl).foldl removeTransaction g, (staleTxs g now ttl).length)

/-- the `while let Some(current) = stack.pop()` loop of `would_create_cycle`; the head of the list
    is the top of the stack, `stack.extend(neighbors)` pushes the neighbours in iteration order -/
def wccLoop (g : Adj) (waiter : Nat) : Nat → List Nat → List Nat → Bool
  | 0, _, _ => false
  | _ + 1, _, [] => false
  | fuel + 1, visited, current :: rest =>
    if current = waiter then true
    else if current ∈ visited then wccLoop g waiter fuel visited rest
    else wccLoop g waiter fuel (current :: visited) ((neighbors g current).reverse ++ rest)

/-- total number of recorded edges (with repetitions) -/
def edgeCount (g : Adj) : Nat := (g.map (fun p => p.2.length)).sum

/-- every iteration pops one entry and at most `1 + edgeCount` entries are ever pushed -/
def wccFuel (g : Adj) : Nat := edgeCount g + 2

/-- `WaitForGraph::would_create_cycle(waiter, holder)` -/
def wouldCreateCycle (g : Adj) (waiter holder : Nat) : Bool :=
  if waiter = holder then true else wccLoop g waiter (wccFuel g) [] [holder]

/-! ### `release_orphaned_locks` -/

/-- the `filter_map` over `locks`: (key, owner) of every lock whose owner is not an active
    transaction and that was acquired before the partition started -/
def orphanKeys (t : LockTable) (active : List Nat) (partitionStart : Nat) : List (Nat × Nat) :=
  (t.locks.filter (fun p => !(active.contains p.2.tx) && decide (p.2.acquiredAt < partitionStart))).map
    (fun p => (p.1, p.2.tx))

/-- loop body: `locks.remove(&key); if let Some(ks) = tx_locks.get_mut(&tx) { ks.retain(|k| k != &key);
    if ks.is_empty() { tx_locks.remove(&tx) } }` -/
def sweepKey (t : LockTable) (kt : Nat × Nat) : LockTable :=
  match aGet t.txLocks kt.2 with
  | some ks =>
    let ks' := ks.filter (· != kt.1)
    { t with locks := aRemove t.locks kt.1
             txLocks := if ks'.isEmpty then aRemove t.txLocks kt.2
                        else aModify t.txLocks kt.2 (fun _ => ks') }
  | none => { t with locks := aRemove t.locks kt.1 }

/-- `DistributedTxCoordinator::release_orphaned_locks(partition_start_ms)` on the lock table and the
    wait-for graph; `active` = `pending.keys()`.  Returns the number of released locks. -/
def orphanSweep (t : LockTable) (g : WaitGraph) (active : List Nat) (partitionStart : Nat) :
    LockTable × WaitGraph × Nat :=
  let oks := orphanKeys t active partitionStart
  let txs := oks.foldl (fun s p => setInsert s p.2) []
  (oks.foldl sweepKey t, txs.foldl removeTransaction g, oks.length)

/-! ### the coordinator -/

inductive Phase | preparing | prepared | committing | aborting
deriving DecidableEq, Repr

/-- a `DistributedTransaction` in `pending`, as far as the locks are concerned -/
structure PTx where
  /-- `participants` -/
  shards : List Nat
  /-- `votes`: shard ↦ `some handle` (`PrepareVote::Yes { lock_handle }`) | `none` (`No` / `Conflict`) -/
  votes : List (Nat × Option Nat)
  phase : Phase
  /-- `is_timed_out()` (wall clock, outside the model) -/
  doomed : Bool
deriving Repr

/-- `participants.iter().all(|s| votes.contains_key(s))` -/
def PTx.allVoted (p : PTx) : Bool := p.shards.all (fun s => (aGet p.votes s).isSome)
/-- `votes.values().all(|v| matches!(v, Yes))` -/
def PTx.allYes (p : PTx) : Bool := p.votes.all (fun v => v.2.isSome)
/-- `votes.values().any(|v| matches!(v, No | Conflict))` -/
def PTx.anyNo (p : PTx) : Bool := p.votes.any (fun v => v.2.isNone)
/-- the lock handles of the recorded Yes votes — what every end-of-transaction site releases -/
def PTx.handles (p : PTx) : List Nat := p.votes.filterMap (·.2)

structure Coord where
  t : LockTable
  g : WaitGraph
  pending : List (Nat × PTx)
  /-- stand-in for `generate_tx_id()`: ids are fresh -/
  nextTx : Nat
  /-- `config.max_concurrent` -/
  maxConcurrent : Nat
  now : Nat
  /-- Yes votes returned by `handle_prepare` and not yet handed to `record_vote`: (handle, tx) -/
  inflight : List (Nat × Nat)
  /-- handles of Yes votes that `record_vote` refused (transaction unknown / wrong phase / duplicate) -/
  unrecorded : List Nat
deriving Repr

def Coord.init (timeout maxConcurrent : Nat) : Coord :=
  { t := LockTable.empty timeout, g := WaitGraph.empty 0, pending := [], nextTx := 1
    maxConcurrent := maxConcurrent, now := 0, inflight := [], unrecorded := [] }

inductive CoOp
  /-- `begin(coordinator, participants)` -/
  | begin (shards : List Nat)
  /-- `handle_prepare(PrepareRequest { tx_id, operations over keys })` -/
  | prepare (tx : Nat) (keys : List Nat)
  /-- `record_vote(tx, shard, Yes { lock_handle: h })` for the in-flight vote carrying `h` -/
  | deliver (h shard : Nat)
  /-- `record_vote(tx, shard, No)` -/
  | voteNo (tx shard : Nat)
  | commit (tx : Nat)
  | abort (tx : Nat)
  | completeCommit (tx : Nat)
  | completeAbort (tx : Nat)
  | forceResolve (tx : Nat) (commit : Bool)
  | cleanupTimeouts
  | recover
  /-- `release_orphaned_locks(partition_start_ms)` -/
  | sweep (partitionStart : Nat)
  | advance (d : Nat)
  /-- `to_state` → bitcode → `load_from_store` -/
  | saveLoad
  /-- the deadline of `tx` passes -/
  | doom (tx : Nat)
deriving Repr

inductive CoRes
  | unit
  | began (tx : Nat)
  | refused
  | yes (h : Nat)
  | conflict (keys : List Nat)
  | notFound
  | wrongPhase
  | duplicate
  | recorded (phase : Option Phase)
  | ok
  | ids (txs : List Nat)
  | stats (timedOut pendingPrepare pendingCommit pendingAbort : Nat)
  | count (n : Nat)
deriving Repr

/-- the sequence every end-of-transaction site runs, followed by `pending.remove(&tx_id)` -/
def Coord.finish (c : Coord) (tx : Nat) (p : PTx) : Coord :=
  let r := endTx c.t c.g tx p.handles
  { c with t := r.1, g := r.2, pending := aRemove c.pending tx }

/-- `record_vote` (WAL absent, orthogonality check never fires) -/
def recordVote (c : Coord) (tx shard : Nat) (v : Option Nat) : Coord × CoRes :=
  match aGet c.pending tx with
  | none => (c, .notFound)
  | some p =>
    if p.phase ≠ .preparing then (c, .wrongPhase)
    else if (aGet p.votes shard).isSome then (c, .duplicate)
    else
      let p1 : PTx := { p with votes := aInsert p.votes shard v }
      -- `if tx.all_voted() { if tx.all_yes() { Prepared } else { Aborting } }`
      let ph : Option Phase :=
        if p1.allVoted then (if p1.allYes then some .prepared else some .aborting) else none
      ({ c with pending := aModify c.pending tx (fun _ => { p1 with phase := ph.getD p1.phase }) },
        .recorded ph)

/-- phase update of one pending transaction in `recover` -/
def recoverPhase (p : PTx) : PTx :=
  match p.phase with
  | .preparing => if p.doomed then { p with phase := .aborting } else p
  | .prepared =>
    if p.doomed then { p with phase := .aborting }
    else if p.allYes then { p with phase := .committing }
    else if p.anyNo then { p with phase := .aborting }
    else p
  | .committing => p
  | .aborting => p

def costep (c : Coord) : CoOp → Coord × CoRes
  | .begin shards =>
    if c.pending.length ≥ c.maxConcurrent then (c, .refused)
    else
      ({ c with pending := aInsert c.pending c.nextTx
                  { shards := shards, votes := [], phase := .preparing, doomed := false }
                nextTx := c.nextTx + 1 }, .began c.nextTx)
  | .prepare tx keys =>
    match tryLockWait c.t c.g c.now c.now tx keys none with
    | (t', g', .ok h) => ({ c with t := t', g := g', inflight := c.inflight ++ [(h, tx)] }, .yes h)
    | (t', g', .error ks) => ({ c with t := t', g := g' }, .conflict ks)
  | .deliver h shard =>
    match aGet c.inflight h with
    | none => (c, .unit)
    | some tx =>
      let c1 := { c with inflight := aRemove c.inflight h }
      match recordVote c1 tx shard (some h) with
      | (c2, .recorded ph) => (c2, .recorded ph)
      | (c2, r) => ({ c2 with unrecorded := c2.unrecorded ++ [h] }, r)
  | .voteNo tx shard => recordVote c tx shard none
  | .commit tx =>
    match aGet c.pending tx with
    | none => (c, .notFound)
    | some p => if p.phase ≠ .prepared then (c, .wrongPhase) else (c.finish tx p, .ok)
  | .abort tx =>
    match aGet c.pending tx with
    | none => (c, .notFound)
    | some p => (c.finish tx p, .ok)
  | .completeCommit tx =>
    match aGet c.pending tx with
    | none => (c, .notFound)
    | some p => if p.phase ≠ .committing then (c, .wrongPhase) else (c.finish tx p, .ok)
  | .completeAbort tx =>
    match aGet c.pending tx with
    | none => (c, .notFound)
    | some p => if p.phase ≠ .aborting then (c, .wrongPhase) else (c.finish tx p, .ok)
  | .forceResolve tx commit =>
    match aGet c.pending tx with
    | none => (c, .notFound)
    | some p =>
      if commit then
        if p.allYes ∨ p.phase = .prepared ∨ p.phase = .committing then (c.finish tx p, .ok)
        else (c, .refused)
      else (c.finish tx p, .ok)
  | .cleanupTimeouts =>
    let timedOut := (c.pending.filter (fun e => e.2.doomed)).map (·.1)
    let c1 := timedOut.foldl (fun c tx =>
      match aGet c.pending tx with
      | some p => c.finish tx p
      | none => c) c
    let r := cleanupExpiredWait c1.t c1.g c1.now
    ({ c1 with t := r.1, g := r.2.1 }, .ids timedOut)
  | .recover =>
    let timed := (c.pending.filter (fun e =>
      (e.2.phase = .preparing ∨ e.2.phase = .prepared) ∧ e.2.doomed)).length
    let pend' := c.pending.map (fun e => (e.1, recoverPhase e.2))
    let cnt := fun (ph : Phase) => (pend'.filter (fun e => e.2.phase = ph)).length
    let r := cleanupExpiredWait c.t c.g c.now
    ({ c with pending := pend', t := r.1, g := r.2.1 },
      .stats timed (cnt .preparing + cnt .prepared) (cnt .committing) (cnt .aborting - timed))
  | .sweep ps =>
    let r := orphanSweep c.t c.g (c.pending.map (·.1)) ps
    ({ c with t := r.1, g := r.2.1 }, .count r.2.2)
  | .advance d => ({ c with now := c.now + d }, .unit)
  | .saveLoad =>
    ({ c with t := restore (serialize c.t) c.t.nextHandle, g := WaitGraph.empty 0 }, .unit)
  | .doom tx => ({ c with pending := aModify c.pending tx (fun p => { p with doomed := true }) }, .unit)

def corun (ops : List CoOp) (c : Coord) : Coord := ops.foldl (fun c op => (costep c op).1) c

end Neumann.Locks
