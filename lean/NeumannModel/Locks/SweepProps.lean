import NeumannModel.Locks.SweepLemmas
/-
  C12 — property theorems about the expired-lock SWEEP (`cleanup_expired_with_wait_cleanup`, run by
  `cleanup_timeouts` and `recover`): the clause "when a transaction times out, none of its locks
  remain and it no longer appears as waiter or holder in the wait-for graph; the detector reports no
  cycle through it" at the moment the time-out is realised.  Statements quantify over every
  coordinator-side operation sequence (`COp`: tracked prepares incl. take-overs of lapsed keys,
  releases, sweeps, raw graph operations, clock advances, serialize/restore).
  ONLY property statements and non-vacuity examples; helpers are in `SweepLemmas.lean`.
-/
namespace Neumann.Locks.SweepProps
open Neumann.Locks

/-- **A swept transaction leaves the wait-for graph.**  After ANY coordinator-side operation
    sequence, every transaction that owns an expired row of the lock table (whatever its
    per-transaction index entry lists, whatever else it still holds) is, right after the sweep, absent
    from the wait-for graph: no entry in `edges` or `reverse_edges`, in nobody's holder or waiter
    set, no wait-start, no priority. -/
theorem swept_tx_absent_from_graph (T mx : Nat) (ops : List COp) (tx k : Nat) (l : KeyLock)
    (hl : aGet (crun ops (CSys.init T mx)).t.locks k = some l)
    (he : l.isExpired (crun ops (CSys.init T mx)).now = true) (ho : l.tx = tx) :
    Absent (cstep (crun ops (CSys.init T mx)) .cleanW).g tx := by
  have hi := pairInv_run ops _ (pairInv_init T mx)
  generalize crun ops (CSys.init T mx) = s at hi hl he ⊢
  simp only [cstep, cleanupExpiredWait]
  apply absent_foldl_removeTransaction _ _ _ hi.tr
  refine Or.inl ?_
  simp only [List.mem_map, List.mem_filter]
  exact ⟨(k, l), ⟨aGet_some_mem _ _ _ hl, he⟩, ho⟩

/-- **No cycle through a swept transaction.**  Whatever adjacency the detector iterates over after
    the sweep — any order, as long as it lists only recorded wait-for edges — no cycle reported by
    `detect_cycles`, hence none reported by `DeadlockDetector::detect`, passes through a transaction
    that owned an expired row before the sweep. -/
theorem swept_tx_in_no_reported_cycle (T mx : Nat) (ops : List COp) (tx k : Nat) (l : KeyLock)
    (hl : aGet (crun ops (CSys.init T mx)).t.locks k = some l)
    (he : l.isExpired (crun ops (CSys.init T mx)).now = true) (ho : l.tx = tx)
    (adj : Adj) (hadj : ∀ a b, b ∈ neighbors adj a → b ∈ outs (cstep (crun ops (CSys.init T mx)) .cleanW).g a)
    (cfg : DetectorCfg) (lc : Option (Nat → Nat)) :
    (∀ c ∈ detectCycles adj, tx ∉ c) ∧
    (∀ p ∈ detect cfg (cstep (crun ops (CSys.init T mx)) .cleanW).g lc adj, tx ∉ p.1) := by
  have ha := swept_tx_absent_from_graph T mx ops tx k l hl he ho
  have key : ∀ c, IsCycle adj c → tx ∉ c := by
    intro c hc hx
    obtain ⟨b, hb⟩ := cycle_member_has_out_edge adj c tx hc hx
    have := hadj tx b hb
    simp [outs, ha.1] at this
  refine ⟨fun c hc => key c (detectCycles_sound adj c hc), ?_⟩
  intro p hp
  exact key p.1 (detectCycles_sound adj p.1 (detect_subset cfg _ lc adj p.1 p.2 hp).1)

/-- the sweep itself leaves no expired row behind (any reachable pair state) -/
theorem sweep_leaves_no_expired_lock (T mx : Nat) (ops : List COp) (k : Nat) (l : KeyLock)
    (hl : aGet (cstep (crun ops (CSys.init T mx)) .cleanW).t.locks k = some l) :
    l.isExpired (crun ops (CSys.init T mx)).now = false := by
  have hi := pairInv_run ops _ (pairInv_init T mx)
  generalize crun ops (CSys.init T mx) = s at hi hl ⊢
  simp only [cstep, cleanupExpiredWait, cleanupExpired] at hl
  simp only [foldl_dropKey_locks] at hl
  by_cases hk : k ∈ expiredKeys s.t s.now
  · simp [hk] at hl
  · simp only [hk, ↓reduceIte] at hl
    cases he : l.isExpired s.now with
    | false => rfl
    | true => exact absurd ((mem_expiredKeys s.t s.now k hi.nd).mpr ⟨l, hl, he⟩) hk

/-! ### non-vacuity and the refuted variant -/

-- T1 is granted keys 0 and 1, T3 is refused on key 1 and waits for T1, the clock passes the 3 ms
-- timeout, T2 takes the lapsed key 0 over (key 0 stays listed under T1), the sweep reaps key 1
def takeoverOps : List COp :=
  [.lockW 1 [0, 1] none, .lockW 3 [1] none, .advance 4, .lockW 2 [0] none]

-- before the sweep: T3 waits for T1, T1 still owns the (expired) row of key 1, its index entry lists both keys
example : outs (crun takeoverOps (CSys.init 3 0)).g 3 = [1] ∧ holdsAny (crun takeoverOps (CSys.init 3 0)).t 1 = true ∧
    aGet (crun takeoverOps (CSys.init 3 0)).t.txLocks 1 = some [0, 1] := by decide
-- after the sweep: T1 owns nothing, its index entry is NOT empty (key 0 is T2's now), and it left the graph
example : holdsAny (cstep (crun takeoverOps (CSys.init 3 0)) .cleanW).t 1 = false ∧
    aGet (cstep (crun takeoverOps (CSys.init 3 0)) .cleanW).t.txLocks 1 = some [0] ∧
    outs (cstep (crun takeoverOps (CSys.init 3 0)) .cleanW).g 3 = [] := by decide

-- the same with T1 also waiting (for T3, which holds key 2 and is still live): a genuine cycle before the sweep
def takeoverCycleOps : List COp :=
  [.lockW 1 [0, 1] none, .advance 2, .lockW 3 [2] none, .lockW 1 [2] none, .lockW 3 [1] none, .advance 2, .lockW 2 [0] none]

example : detectCycles (crun takeoverCycleOps (CSys.init 3 0)).g.edges ≠ [] ∧
    detectCycles (cstep (crun takeoverCycleOps (CSys.init 3 0)) .cleanW).g.edges = [] := by decide

/-- the sweep of the variant `cleanupExpiredWaitIdx` as a step on the pair state -/
def sweepIdx (s : CSys) : CSys :=
  let r := cleanupExpiredWaitIdx s.t s.g s.now
  { s with t := r.1, g := r.2.1 }

/-- the statement of `swept_tx_absent_from_graph` about the index-consulting variant.  False. -/
def SweptTxAbsentIdx : Prop :=
  ∀ (T mx : Nat) (ops : List COp) (tx k : Nat) (l : KeyLock),
    aGet (crun ops (CSys.init T mx)).t.locks k = some l → l.isExpired (crun ops (CSys.init T mx)).now = true → l.tx = tx →
    Absent (sweepIdx (crun ops (CSys.init T mx))).g tx

/-- **Witness against the index-consulting sweep** (the per-transaction index still lists the key
    another transaction took over): after `takeoverOps` + sweep T1 owns no row, yet T3 → T1 stays;
    after `takeoverCycleOps` + sweep the detector still reports the cycle through T1, which holds
    nothing. -/
theorem swept_tx_absent_from_graph_witness :
    ¬ SweptTxAbsentIdx ∧
    (holdsAny (sweepIdx (crun takeoverOps (CSys.init 3 0))).t 1 = false ∧
      outs (sweepIdx (crun takeoverOps (CSys.init 3 0))).g 3 = [1]) ∧
    (holdsAny (sweepIdx (crun takeoverCycleOps (CSys.init 3 0))).t 1 = false ∧
      detectCycles (sweepIdx (crun takeoverCycleOps (CSys.init 3 0))).g.edges = [[3, 1]]) := by
  refine ⟨?_, by decide, by decide⟩
  intro h
  have := (h 3 0 takeoverOps 1 1 { key := 1, tx := 1, handle := 0, acquiredAt := 0, timeout := 3 } (by decide) (by decide) rfl).2.2.1 3
  exact absurd this (by decide)

end Neumann.Locks.SweepProps
