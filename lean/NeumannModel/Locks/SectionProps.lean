import NeumannModel.Locks.SectionLemmas
/-
  C12 — property theorems about the critical SECTIONS of the lock table (`SectionModel.lean`):
  the clause "when a transaction commits, aborts or times out, none of its locks remain and it no
  longer appears as waiter or holder in the wait-for graph" for threads that interleave INSIDE the
  calls — any number of threads, each running a whole transaction life (prepares over any shards
  and keys, then its end), every schedule of their steps, every clock reading at every step.

  What makes it true is that `try_lock_with_wait_tracking` records the wait-for edges while it
  still holds the lock-table guards it scanned under; the variant that drops the guards first
  (`early = true`) is refuted by a two-thread schedule.
  ONLY property statements and non-vacuity examples; helpers are in `SectionLemmas.lean`.
-/
namespace Neumann.Locks.SectionProps
open Neumann.Locks Neumann.Locks.Section

/-- **No ended transaction in the wait-for graph, in every interleaving.**  Threads `0..n-1` each
    run one transaction life (`progs[i]` = the key lists of its shards); after ANY schedule of their
    steps (`sched` = which thread moves and the clock value that step reads), every transaction
    whose end has returned is absent from the wait-for graph — no entry in `edges` or
    `reverse_edges`, in nobody's holder or waiter set, no wait-start, no priority — and owns no
    lock, while other threads may be anywhere inside their own calls. -/
theorem ended_tx_absent_in_every_interleaving (timeout maxEdges : Nat) (progs : List (List (List Nat)))
    (sched : List (Nat × Nat)) (s : St)
    (hr : Section.run false (Section.init timeout maxEdges progs) sched = some s) :
    ∀ x ∈ s.ended, Absent s.g x ∧ ∀ k l, aGet s.t.locks k = some l → l.tx ≠ x := by
  have hi := Section.inv_run sched _ s (Section.inv_init timeout maxEdges progs) hr
  intro x hx
  exact ⟨hi.abs x hx, fun k l hl e => ended_ne_owner s hi x k l hl hx e.symm⟩

/-- **"Conflict found" and "edge recorded" are one step with respect to the lock table**: in every
    reachable state, a thread that is about to record the edge `i → b` holds the lock-table guards,
    `b` still has a lock in the table, and `b` has not ended. -/
theorem edge_recorded_while_blocker_holds_lock (timeout maxEdges : Nat) (progs : List (List (List Nat)))
    (sched : List (Nat × Nat)) (s : St)
    (hr : Section.run false (Section.init timeout maxEdges progs) sched = some s)
    (i : Nat) (th : Th) (b : Nat) (bs : List Nat) (rest : List (List Nat))
    (hth : s.ths[i]? = some th) (hpc : th.pc = .adding (b :: bs) rest) :
    s.guard = some i ∧ (∃ k l, aGet s.t.locks k = some l ∧ l.tx = b) ∧ b ∉ s.ended := by
  have hi := Section.inv_run sched _ s (Section.inv_init timeout maxEdges progs) hr
  obtain ⟨h1, k, l, h2, h3⟩ := hi.sec i th (b :: bs) rest hth hpc b (List.mem_cons_self ..)
  refine ⟨h1, ⟨k, l, h2, h3⟩, ?_⟩
  intro hb
  exact ended_ne_owner s hi b k l h2 hb h3.symm

/-- …and while it does, no other thread gets into the lock table: neither a blocker's release nor
    another prepare can take a step. -/
theorem section_excludes_release_and_prepare (timeout maxEdges : Nat) (progs : List (List (List Nat)))
    (sched : List (Nat × Nat)) (s : St)
    (hr : Section.run false (Section.init timeout maxEdges progs) sched = some s)
    (i : Nat) (th : Th) (b : Nat) (bs : List Nat) (rest : List (List Nat))
    (hth : s.ths[i]? = some th) (hpc : th.pc = .adding (b :: bs) rest)
    (j now : Nat) (thj : Th) (hj : s.ths[j]? = some thj)
    (hjpc : (∃ h hs, thj.pc = .ending (h :: hs)) ∨ (∃ ks r, thj.pc = .prep (ks :: r))) :
    Section.step false s j now = none := by
  have hg := (edge_recorded_while_blocker_holds_lock timeout maxEdges progs sched s hr i th b bs rest hth hpc).1
  unfold Section.step
  rcases hjpc with ⟨h, hs, e⟩ | ⟨ks, r, e⟩ <;> simp [hj, e, hg]

/-- **The regression class, refuted**: when the guards are dropped as soon as the conflict set is
    complete and the edges are recorded afterwards (`early = true`), two threads suffice.  A (thread
    0) is granted key 5; B (thread 1) prepares key 5, finds A and lets the guards go; A's whole end
    runs (release by handle, `remove_transaction`, the final `remove_transaction`, ended); B records
    `1 → 0`.  The ended transaction 0 is now a holder in both indexes. -/
theorem drop_guards_first_leaves_ended_holder_witness :
    ∃ sched s, Section.run true (Section.init 30 0 [[[5]], [[5]]]) sched = some s ∧
      0 ∈ s.ended ∧ 0 ∈ outs s.g 1 ∧ 1 ∈ ins s.g 0 ∧ inGraph s.g 0 = true ∧ ¬ Absent s.g 0 := by
  refine ⟨[(0, 0), (0, 0), (0, 0), (1, 0), (0, 0), (0, 0), (0, 0), (0, 0), (1, 0)], _, rfl,
    by decide, by decide, by decide, by decide, ?_⟩
  intro h
  exact h.2.2.1 1 (by decide)

/-- the same schedule is not a run of the code as it is: A's release is refused while B is between
    its scan and its last `add_wait` (step 6 of the schedule) — and letting B finish first, A ends
    absent from the graph (B, still live, keeps its own entry with an empty holder set) -/
theorem guards_held_refuses_that_schedule_witness :
    Section.run false (Section.init 30 0 [[[5]], [[5]]]) [(0, 0), (0, 0), (0, 0), (1, 0), (0, 0), (0, 0)] = none ∧
    (Section.run false (Section.init 30 0 [[[5]], [[5]]])
        [(0, 0), (0, 0), (0, 0), (1, 0), (0, 0), (1, 0), (1, 0), (0, 0), (0, 0), (0, 0)]).map
      (fun s => (s.ended, inGraph s.g 0, inGraph s.g 1, s.t.locks.length)) = some ([0], false, true, 0) := by
  decide

/-- **A call nobody interleaves with is the whole-call operation** (the tie between this step-level
    model and the call-level model the sequential correspondence streams compare with the real
    `LockManager` / `WaitForGraph` after every call): from a call boundary with the guards free, the
    steps of one thread alone — scan, then grant + `remove_transaction` or one `add_wait` per
    blocker, then the drop of the guards — leave exactly the lock table and wait-for graph of
    `tryLockWait` (`try_lock_with_wait_tracking` as one operation), the guards free again and the
    granted handle recorded; no other thread and no ended transaction is touched.  True of both
    orders (`early`): sequentially they cannot be told apart, which is why only an interleaving
    statement separates them. -/
theorem uninterrupted_prepare_is_the_whole_call (early : Bool) (s : St) (i now : Nat) (th : Th)
    (ks : List Nat) (rest : List (List Nat)) (h1 : s.ths[i]? = some th)
    (h2 : th.pc = .prep (ks :: rest)) (hg : s.guard = none) :
    ∃ n s', Section.run early s (List.replicate n (i, now)) = some s' ∧
      s'.t = (tryLockWait s.t s.g now now i ks none).1 ∧
      s'.g = (tryLockWait s.t s.g now now i ks none).2.1 ∧ s'.guard = none ∧
      (∃ th', s'.ths[i]? = some th' ∧ th'.pc = .prep rest ∧
        th'.handles = (match (tryLockWait s.t s.g now now i ks none).2.2 with
          | .ok h => th.handles ++ [h] | .error _ => th.handles)) ∧
      s'.ended = s.ended ∧ ∀ j, j ≠ i → s'.ths[j]? = s.ths[j]? := by
  obtain ⟨n, s', a1, a2, a3, a4, a5, a6, a7⟩ := prepare_alone_is_tryLockWait early s i now th ks rest h1 h2 hg
  exact ⟨n, s', a1, a2, a3, a4, a5, a6, a7⟩

/-- …and the end of a transaction alone (one `release_by_handle_with_wait_cleanup` per recorded
    handle, then the unconditional `remove_transaction`) is `endTx`, the end-of-transaction
    sequence of `Model.lean`; afterwards the transaction counts as ended. -/
theorem uninterrupted_end_is_the_whole_call (early : Bool) (s : St) (i now : Nat) (th : Th) (hs : List Nat)
    (h1 : s.ths[i]? = some th) (h2 : th.pc = .ending hs) (hg : s.guard = none) :
    ∃ n s', Section.run early s (List.replicate n (i, now)) = some s' ∧ (s'.t, s'.g) = endTx s.t s.g i hs ∧
      s'.guard = none ∧ s'.ended = i :: s.ended ∧ s'.ths[i]? = some { th with pc := .done } ∧
      ∀ j, j ≠ i → s'.ths[j]? = s.ths[j]? :=
  end_alone_is_endTx early s i now th hs h1 h2 hg

/-! ### non-vacuity -/

/-- the hypotheses of `uninterrupted_prepare_is_the_whole_call` / `uninterrupted_end_is_the_whole_call`
    hold in reachable states: the initial one (thread 1 about to prepare key 5), and the one where
    thread 0 has called commit with one recorded handle -/
example : (Section.init 30 0 [[[5]], [[5]]]).ths[1]? = some { pc := .prep [[5]], handles := [] } ∧
    (Section.init 30 0 [[[5]], [[5]]]).guard = none ∧
    ∃ s, Section.run false (Section.init 30 0 [[[5]], [[5]]]) [(0, 0), (0, 0), (0, 0), (0, 0)] = some s ∧
      s.ths[0]? = some { pc := .ending [0], handles := [0] } ∧ s.guard = none :=
  ⟨rfl, rfl, _, rfl, rfl, rfl⟩

/-- a reachable state of the current code in which a thread IS about to record an edge (the
    hypotheses of `edge_recorded_while_blocker_holds_lock` and `section_excludes_release_and_prepare`):
    B has scanned, A has called commit and stands before its release -/
example : ∃ s th thj, Section.run false (Section.init 30 0 [[[5]], [[5]]]) [(0, 0), (0, 0), (0, 0), (1, 0), (0, 0)] = some s ∧
    s.ths[1]? = some th ∧ th.pc = .adding [0] [] ∧ s.ths[0]? = some thj ∧ thj.pc = .ending [0] :=
  ⟨_, _, _, rfl, rfl, rfl, rfl, rfl⟩

/-- three threads, up to two shards each, every thread to its end under a schedule in which prepares
    are granted, refused (thread 1 waits for 0, thread 0 for 2) and take over an expired lock
    (timeout 3, clock reading 9: thread 2 takes key 1 from thread 0): all three ended, graph and
    lock table empty -/
example : (Section.run false (Section.init 3 0 [[[1, 2], [3]], [[2]], [[3], [1]]])
    [(0, 0), (0, 0), (0, 0), (1, 0), (1, 0), (1, 0), (1, 0), (2, 9), (2, 9), (2, 9), (2, 9), (2, 9), (2, 9), (2, 9), (1, 9),
     (0, 9), (0, 9), (0, 9), (2, 9), (2, 9), (2, 9), (2, 9), (0, 9), (2, 9), (0, 9), (0, 9), (0, 9)]).map
    (fun s => (s.ended.length, s.g.edges.length, s.t.locks.length)) = some (3, 0, 0) := by
  decide

end Neumann.Locks.SectionProps
