import NeumannModel.Common.FramedLog
/-
  Theorems about the framed log, shared by C02 / C10 / C13:
  crash at ANY byte ⇒ replay returns exactly the records wholly before the cut;
  the repaired `open` makes "recover, then append" again a well-formed log, so the
  statement iterates over any number of crashes.
-/
namespace Neumann.FramedLog

variable (crc : List Nat → Nat) (dec : List Nat → Bool)

/-- a record the real writer can produce and the real reader accepts -/
def GoodRec (p : List Nat) : Prop := p.length < U32 ∧ crc p < U32 ∧ dec p = true

theorem le32_rt (n : Nat) (h : n < U32) : de32 (le32 n) = n := by
  unfold U32 at h; simp [le32, de32]; omega

theorem le32_length (n : Nat) : (le32 n).length = 4 := rfl

theorem encodeRec_length (p : List Nat) : (encodeRec crc p).length = 8 + p.length := by
  simp [encodeRec, le32]; omega

theorem parse_cons (p rest : List Nat) (hp : GoodRec crc dec p) :
    parse crc dec (encodeRec crc p ++ rest) = (p :: (parse crc dec rest).1, (parse crc dec rest).2) := by
  obtain ⟨h1, h2, h3⟩ := hp
  rw [parse]
  have hl : ¬ (encodeRec crc p ++ rest).length < 8 := by simp [encodeRec, le32]
  simp only [hl, dite_false]
  have e1 : (encodeRec crc p ++ rest).take 4 = le32 p.length := by simp [encodeRec, le32]
  have e2 : ((encodeRec crc p ++ rest).drop 4).take 4 = le32 (crc p) := by simp [encodeRec, le32]
  have e3 : (encodeRec crc p ++ rest).drop 8 = p ++ rest := by simp [encodeRec, le32]
  simp only [e1, e2, e3, le32_rt _ h1, le32_rt _ h2]
  simp [h3]

theorem parse_nil : parse crc dec [] = ([], .clean) := by
  rw [parse]; simp

theorem parse_encodeAll (ps : List (List Nat)) (h : ∀ p ∈ ps, GoodRec crc dec p) :
    parse crc dec (encodeAll crc ps) = (ps, .clean) := by
  induction ps with
  | nil => simp [encodeAll, parse_nil]
  | cons p ps ih =>
    have : encodeAll crc (p :: ps) = encodeRec crc p ++ encodeAll crc ps := by simp [encodeAll]
    rw [this, parse_cons crc dec p _ (h p (by simp)), ih (fun q hq => h q (by simp [hq]))]

/-- a strict prefix of one record is never mistaken for a record -/
theorem parse_torn (p : List Nat) (m : Nat) (hp : p.length < U32)
    (hm : m < (encodeRec crc p).length) :
    (parse crc dec ((encodeRec crc p).take m)).1 = [] := by
  rw [encodeRec_length] at hm
  rw [parse]
  by_cases h8 : ((encodeRec crc p).take m).length < 8
  · rw [dif_pos h8]
  · rw [dif_neg h8]
    have hm8 : 8 ≤ m := by
      simp only [List.length_take, encodeRec_length] at h8; omega
    have e1 : ((encodeRec crc p).take m).take 4 = le32 p.length := by
      rw [List.take_take]
      have : min 4 m = 4 := by omega
      rw [this]; simp [encodeRec, le32]
    have e3 : (((encodeRec crc p).take m).drop 8).length = m - 8 := by
      simp only [List.length_drop, List.length_take, encodeRec_length]; omega
    simp only [e1, le32_rt _ hp, e3]
    have : m - 8 < p.length := by omega
    simp [this]

theorem wholeWithin_le (ps : List (List Nat)) (n : Nat) : wholeWithin crc ps n ≤ ps.length := by
  induction ps generalizing n with
  | nil => simp [wholeWithin]
  | cons p ps ih =>
    simp only [wholeWithin]; split
    · have := ih (n - (encodeRec crc p).length); simp only [List.length_cons]; omega
    · omega

/-- **Crash at any byte**: replaying the first `n` bytes of a log yields exactly the records
    that lie wholly inside those `n` bytes — never a partial, altered or reordered one. -/
theorem parse_take (ps : List (List Nat)) (n : Nat) (h : ∀ p ∈ ps, GoodRec crc dec p) :
    (parse crc dec ((encodeAll crc ps).take n)).1 = ps.take (wholeWithin crc ps n) := by
  induction ps generalizing n with
  | nil => simp [encodeAll, wholeWithin, parse_nil]
  | cons p ps ih =>
    have hp := h p (by simp)
    have henc : encodeAll crc (p :: ps) = encodeRec crc p ++ encodeAll crc ps := by simp [encodeAll]
    rw [henc, List.take_append]
    simp only [wholeWithin]
    by_cases hle : (encodeRec crc p).length ≤ n
    · simp only [hle, if_true]
      rw [List.take_of_length_le hle, parse_cons crc dec p _ hp]
      simp only []
      rw [ih _ (fun q hq => h q (by simp [hq]))]
      have : 1 + wholeWithin crc ps (n - (encodeRec crc p).length)
           = wholeWithin crc ps (n - (encodeRec crc p).length) + 1 := by omega
      rw [this, List.take_succ_cons]
    · simp only [hle, if_false, List.take_zero]
      have hz : n - (encodeRec crc p).length = 0 := by omega
      rw [hz, List.take_zero, List.append_nil]
      exact parse_torn crc dec p n hp.1 (by omega)

/-- every record whose bytes are wholly before the cut is recovered: `k` records are durable
    as soon as the cut is at or after the end of the k-th record -/
theorem wholeWithin_ge (ps : List (List Nat)) (k n : Nat) (hk : k ≤ ps.length)
    (hn : (encodeAll crc (ps.take k)).length ≤ n) : k ≤ wholeWithin crc ps n := by
  induction ps generalizing k n with
  | nil => simp at hk; omega
  | cons p ps ih =>
    cases k with
    | zero => omega
    | succ k =>
      have henc : encodeAll crc ((p :: ps).take (k + 1)) = encodeRec crc p ++ encodeAll crc (ps.take k) := by
        simp [encodeAll]
      rw [henc, List.length_append] at hn
      simp only [wholeWithin]
      have hle : (encodeRec crc p).length ≤ n := by omega
      simp only [hle, if_true]
      have := ih k (n - (encodeRec crc p).length) (by simpa using hk) (by omega)
      omega

theorem validPrefixLen_nil : validPrefixLen [] = 0 := by rw [validPrefixLen]; simp

theorem validPrefixLen_cons (p rest : List Nat) (hp : p.length < U32) :
    validPrefixLen (encodeRec crc p ++ rest) = (encodeRec crc p).length + validPrefixLen rest := by
  rw [validPrefixLen]
  have hl : ¬ (encodeRec crc p ++ rest).length < 8 := by simp [encodeRec, le32]
  simp only [hl, dite_false]
  have e1 : (encodeRec crc p ++ rest).take 4 = le32 p.length := by simp [encodeRec, le32]
  have e3 : (encodeRec crc p ++ rest).drop 8 = p ++ rest := by simp [encodeRec, le32]
  simp only [e1, e3, le32_rt _ hp, encodeRec_length]
  simp
  intro hlt; omega

theorem validPrefixLen_torn (p : List Nat) (m : Nat) (hp : p.length < U32)
    (hm : m < (encodeRec crc p).length) : validPrefixLen ((encodeRec crc p).take m) = 0 := by
  rw [encodeRec_length] at hm
  rw [validPrefixLen]
  by_cases h8 : ((encodeRec crc p).take m).length < 8
  · rw [dif_pos h8]
  · rw [dif_neg h8]
    have hm8 : 8 ≤ m := by
      simp only [List.length_take, encodeRec_length] at h8; omega
    have e1 : ((encodeRec crc p).take m).take 4 = le32 p.length := by
      rw [List.take_take]
      have : min 4 m = 4 := by omega
      rw [this]; simp [encodeRec, le32]
    have e3 : (((encodeRec crc p).take m).drop 8).length = m - 8 := by
      simp only [List.length_drop, List.length_take, encodeRec_length]; omega
    simp only [e1, le32_rt _ hp, e3]
    have : m - 8 < p.length := by omega
    simp [this]

/-- **Tail repair**: reopening a log cut at any byte leaves exactly the encoding of the
    records that survived — so appending to it yields a well-formed log again. -/
theorem openRepair_take (ps : List (List Nat)) (n : Nat) (h : ∀ p ∈ ps, p.length < U32) :
    openRepair ((encodeAll crc ps).take n) = encodeAll crc (ps.take (wholeWithin crc ps n)) := by
  unfold openRepair
  induction ps generalizing n with
  | nil => simp [encodeAll, wholeWithin, validPrefixLen_nil]
  | cons p ps ih =>
    have hp := h p (by simp)
    have henc : encodeAll crc (p :: ps) = encodeRec crc p ++ encodeAll crc ps := by simp [encodeAll]
    rw [henc, List.take_append]
    simp only [wholeWithin]
    by_cases hle : (encodeRec crc p).length ≤ n
    · simp only [hle, if_true]
      rw [List.take_of_length_le hle, validPrefixLen_cons crc p _ hp]
      have : 1 + wholeWithin crc ps (n - (encodeRec crc p).length)
           = wholeWithin crc ps (n - (encodeRec crc p).length) + 1 := by omega
      rw [this, List.take_succ_cons]
      have henc2 : ∀ l, encodeAll crc (p :: l) = encodeRec crc p ++ encodeAll crc l := by
        intro l; simp [encodeAll]
      rw [henc2, ← ih _ (fun q hq => h q (by simp [hq]))]
      rw [List.take_append]
      simp
      exact List.take_of_length_le (by omega)
    · simp only [hle, if_false, List.take_zero]
      have hz : n - (encodeRec crc p).length = 0 := by omega
      rw [hz, List.take_zero, List.append_nil, validPrefixLen_torn crc p n hp (by omega)]
      simp [encodeAll]

theorem encodeAll_append (ps qs : List (List Nat)) :
    encodeAll crc (ps ++ qs) = encodeAll crc ps ++ encodeAll crc qs := by
  simp [encodeAll]

/-- **Recover, then write**: after a crash at any byte, reopening (with repair) and appending
    `qs` gives the log of `survivors ++ qs`; replaying it returns exactly that list.
    This is the induction step for any chain of crashes. -/
theorem reopen_append_replay (ps qs : List (List Nat)) (n : Nat)
    (hps : ∀ p ∈ ps, GoodRec crc dec p) (hqs : ∀ q ∈ qs, GoodRec crc dec q) :
    parse crc dec (openRepair ((encodeAll crc ps).take n) ++ encodeAll crc qs)
      = (ps.take (wholeWithin crc ps n) ++ qs, .clean) := by
  rw [openRepair_take crc ps n (fun p hp => (hps p hp).1), ← encodeAll_append]
  apply parse_encodeAll
  intro r hr
  rcases List.mem_append.mp hr with h | h
  · exact hps r (List.mem_of_mem_take h)
  · exact hqs r h

end Neumann.FramedLog
