/-
  Framed append-only log shared by the three write-ahead logs
    tensor_store/src/wal.rs      (TensorWal,  C02)
    tensor_chain/src/raft_wal.rs (RaftWal,    C10)
    tensor_chain/src/tx_wal.rs   (TxWal,      C13)
  Record = [len : u32 LE][crc : u32 LE][payload].  Import-free, executable.
  `crc` and `decodable` are parameters: the CRC function and "bitcode can deserialize
  this payload" are opaque to the model.
-/
namespace Neumann.FramedLog

def U32 : Nat := 4294967296

def le32 (n : Nat) : List Nat := [n % 256, (n / 256) % 256, (n / 65536) % 256, (n / 16777216) % 256]

def de32 : List Nat → Nat
  | [a, b, c, d] => a + 256 * b + 65536 * c + 16777216 * d
  | _ => 0

/-- one record as `write_entry` lays it out -/
def encodeRec (crc : List Nat → Nat) (p : List Nat) : List Nat := le32 p.length ++ le32 (crc p) ++ p

def encodeAll (crc : List Nat → Nat) (ps : List (List Nat)) : List Nat :=
  (ps.map (encodeRec crc)).flatten

/-- how `replay_with_validation` stopped -/
inductive PEnd where
  | clean          -- EOF exactly at a frame boundary
  | torn           -- incomplete final frame (`UnexpectedEof` ⇒ `break`)
  | badCrc         -- complete frame, stored checksum ≠ 0 and ≠ computed ⇒ `Err(ChecksumMismatch)`
  | undecodable    -- complete frame, checksum fine, `bitcode::deserialize` failed ⇒ `break`
  deriving DecidableEq, Repr

/-- `replay_with_validation(verify = true)`: payloads read, and how the loop ended -/
def parse (crc : List Nat → Nat) (decodable : List Nat → Bool) (bs : List Nat) : List (List Nat) × PEnd :=
  if h : bs.length < 8 then ([], if bs.isEmpty then .clean else .torn) else
    let len := de32 (bs.take 4)
    let c := de32 ((bs.drop 4).take 4)
    let body := bs.drop 8
    if body.length < len then ([], .torn) else
      let p := body.take len
      if c ≠ 0 ∧ c ≠ crc p then ([], .badCrc) else
      if !decodable p then ([], .undecodable) else
        let r := parse crc decodable (body.drop len)
        (p :: r.1, r.2)
termination_by bs.length
decreasing_by simp [List.length_drop]; omega

/-- `complete_frames_len`: length of the longest prefix made of complete frames (headers only) -/
def validPrefixLen (bs : List Nat) : Nat :=
  if h : bs.length < 8 then 0 else
    let len := de32 (bs.take 4)
    if (bs.drop 8).length < len then 0
    else 8 + len + validPrefixLen ((bs.drop 8).drop len)
termination_by bs.length
decreasing_by simp [List.length_drop]; omega

/-- file content after `open` (post-fix: cut back to the last complete frame) -/
def openRepair (bs : List Nat) : List Nat := bs.take (validPrefixLen bs)

/-- pre-fix `open`: append position is the physical end of file -/
def openOld (bs : List Nat) : List Nat := bs

/-- number of whole records of `ps` that fit in the first `n` bytes of their encoding -/
def wholeWithin (crc : List Nat → Nat) : List (List Nat) → Nat → Nat
  | [], _ => 0
  | p :: ps, n =>
    if (encodeRec crc p).length ≤ n then 1 + wholeWithin crc ps (n - (encodeRec crc p).length) else 0

end Neumann.FramedLog
