/-
  Line-protocol helpers shared by every model driver (import-free so that
  `lean_exe` drivers link).  One operation per input line, one answer line.
  Conventions: byte strings are lower-case hex, `-` is the empty string /
  empty list; lists of numbers are comma separated.
-/
namespace Neumann.Proto

def hexDigit (c : Char) : Option Nat :=
  if '0' ≤ c ∧ c ≤ '9' then some (c.toNat - '0'.toNat)
  else if 'a' ≤ c ∧ c ≤ 'f' then some (c.toNat - 'a'.toNat + 10)
  else if 'A' ≤ c ∧ c ≤ 'F' then some (c.toNat - 'A'.toNat + 10)
  else none

def unhexChars : List Char → Option (List Nat)
  | [] => some []
  | a :: b :: rest => do
    let x ← hexDigit a
    let y ← hexDigit b
    let r ← unhexChars rest
    pure ((x * 16 + y) :: r)
  | _ => none

/-- `-` ↦ `[]`, otherwise pairs of hex digits -/
def unhex (s : String) : Option (List Nat) :=
  if s = "-" then some [] else unhexChars s.toList

def hexNibble (n : Nat) : Char :=
  if n < 10 then Char.ofNat (n + '0'.toNat) else Char.ofNat (n - 10 + 'a'.toNat)

def hex (bs : List Nat) : String :=
  if bs.isEmpty then "-"
  else String.ofList (bs.flatMap fun b => [hexNibble (b / 16 % 16), hexNibble (b % 16)])

def parseNats (s : String) : Option (List Nat) :=
  if s = "-" then some [] else (s.splitOn ",").mapM (·.toNat?)

def parseInts (s : String) : Option (List Int) :=
  if s = "-" then some [] else (s.splitOn ",").mapM (·.toInt?)

def showNats (xs : List Nat) : String :=
  if xs.isEmpty then "-" else ",".intercalate (xs.map toString)

def showInts (xs : List Int) : String :=
  if xs.isEmpty then "-" else ",".intercalate (xs.map toString)

def words (line : String) : List String :=
  (line.trimAscii.toString.splitOn " ").filter (· ≠ "")

/-- Generic stdin loop: `step` consumes a state and a line, returns new state and answer. -/
partial def loop {σ : Type} (h : IO.FS.Stream) (out : IO.FS.Stream) (step : σ → String → σ × String) (s : σ) : IO Unit := do
  let line ← h.getLine
  if line.isEmpty then return ()
  let (s', ans) := step s line
  out.putStrLn ans
  out.flush
  loop h out step s'

def run {σ : Type} (step : σ → String → σ × String) (init : σ) : IO Unit := do
  loop (← IO.getStdin) (← IO.getStdout) step init

end Neumann.Proto
