/-
  CRC-32 (IEEE 802.3, reflected, poly 0xEDB88320) as computed by `crc32fast::hash`.
  Bitwise, import-free; checked against crc32fast by the correspondence runs.
-/
namespace Neumann.Crc32

def step8 (c : Nat) : Nat → Nat
  | 0 => c
  | k + 1 => step8 (if c % 2 = 1 then (c / 2) ^^^ 0xEDB88320 else c / 2) k

def update (crc : Nat) (b : Nat) : Nat := step8 (crc ^^^ (b % 256)) 8

def crc32 (bs : List Nat) : Nat := (bs.foldl update 0xFFFFFFFF) ^^^ 0xFFFFFFFF

end Neumann.Crc32
