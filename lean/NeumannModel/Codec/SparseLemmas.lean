import NeumannModel.Codec.Sparse
/- Helper lemmas for the sparse-vector model (C20). -/
namespace Neumann.Codec

/-! ## writes -/

theorem applyWrites_nil (base : List Nat) : applyWrites [] base = base := rfl

theorem applyWrites_cons (w : Nat × Nat) (ws : List (Nat × Nat)) (base : List Nat) :
    applyWrites (w :: ws) base = applyWrites ws (base.set w.1 w.2) := rfl

theorem applyWrites_append (a b : List (Nat × Nat)) (base : List Nat) :
    applyWrites (a ++ b) base = applyWrites b (applyWrites a base) := by
  unfold applyWrites; rw [List.foldl_append]

theorem applyWrites_length (ws : List (Nat × Nat)) (base : List Nat) :
    (applyWrites ws base).length = base.length := by
  induction ws generalizing base with
  | nil => rfl
  | cons w ws ih => rw [applyWrites_cons, ih, List.length_set]

def keys (ws : List (Nat × Nat)) : List Nat := ws.map (·.1)

/-- a position nobody writes keeps its value -/
theorem applyWrites_get_other (ws : List (Nat × Nat)) (base : List Nat) (i : Nat)
    (h : i ∉ keys ws) : (applyWrites ws base)[i]? = base[i]? := by
  induction ws generalizing base with
  | nil => rfl
  | cons w ws ih =>
    simp only [keys, List.map_cons, List.mem_cons, not_or] at h
    rw [applyWrites_cons, ih _ h.2, List.getElem?_set_ne (Ne.symm h.1)]

/-- first value written for `i` -/
def lookupW (ws : List (Nat × Nat)) (i : Nat) : Option Nat :=
  match ws with
  | [] => none
  | w :: rest => if w.1 = i then some w.2 else lookupW rest i

theorem lookupW_none (ws : List (Nat × Nat)) (i : Nat) : lookupW ws i = none ↔ i ∉ keys ws := by
  induction ws with
  | nil => simp [lookupW, keys]
  | cons w ws ih =>
    simp only [lookupW, keys, List.map_cons, List.mem_cons, not_or]
    by_cases h : w.1 = i
    · simp [h]
    · rw [if_neg h, ih]
      exact ⟨fun h2 => ⟨fun e => h e.symm, h2⟩, fun h2 => h2.2⟩

/-- with distinct positions, position `i` ends up with the value written for it -/
theorem applyWrites_get (ws : List (Nat × Nat)) (base : List Nat) (i : Nat)
    (hnd : (keys ws).Nodup) (hb : ∀ p ∈ keys ws, p < base.length) :
    (applyWrites ws base)[i]? = match lookupW ws i with
      | some v => some v
      | none => base[i]? := by
  induction ws generalizing base with
  | nil => rfl
  | cons w ws ih =>
    simp only [keys, List.map_cons, List.nodup_cons] at hnd
    have hb' : ∀ p ∈ keys ws, p < (base.set w.1 w.2).length := by
      intro p hp; rw [List.length_set]; exact hb p (List.mem_cons_of_mem _ hp)
    rw [applyWrites_cons]
    by_cases h : w.1 = i
    · subst h
      have hno : w.1 ∉ keys ws := hnd.1
      rw [applyWrites_get_other ws _ _ hno]
      simp only [lookupW, if_true]
      exact List.getElem?_set_self (hb w.1 List.mem_cons_self)
    · rw [ih _ hnd.2 hb']
      simp only [lookupW, if_neg h]
      cases lookupW ws i with
      | some v => rfl
      | none => exact List.getElem?_set_ne h

/-! ## from_dense -/

theorem fromDenseGo_image (keep : Nat → Bool) (d : List Nat) :
    ∀ (i : Nat) (pre : List Nat), pre.length = i →
      applyWrites (fromDenseGo keep i d) (pre ++ List.replicate d.length 0) =
        pre ++ d.map (fun v => if keep v then v else 0) := by
  induction d with
  | nil => intro i pre _; simp [fromDenseGo, applyWrites]
  | cons v vs ih =>
    intro i pre hpre
    have hrep : List.replicate (v :: vs).length 0 = (0 : Nat) :: List.replicate vs.length 0 := rfl
    rw [fromDenseGo]
    by_cases hk : keep v = true
    · rw [if_pos hk, applyWrites_cons, hrep]
      have hset : (pre ++ 0 :: List.replicate vs.length 0).set i v =
          (pre ++ [v]) ++ List.replicate vs.length 0 := by
        rw [List.set_append, if_neg (by omega), show i - pre.length = 0 by omega]
        simp
      show applyWrites _ ((pre ++ 0 :: List.replicate vs.length 0).set i v) = _
      rw [hset, ih (i + 1) (pre ++ [v]) (by simp [hpre])]
      simp [hk]
    · rw [if_neg hk]
      have hsplit : pre ++ List.replicate (v :: vs).length 0 =
          (pre ++ [0]) ++ List.replicate vs.length 0 := by rw [hrep]; simp
      rw [hsplit, ih (i + 1) (pre ++ [0]) (by simp [hpre])]
      simp [hk]

theorem fromDenseGo_bounds (keep : Nat → Bool) (d : List Nat) :
    ∀ (i : Nat), ∀ pv ∈ fromDenseGo keep i d, i ≤ pv.1 ∧ pv.1 < i + d.length ∧ keep pv.2 = true := by
  induction d with
  | nil => intro i pv h; simp [fromDenseGo] at h
  | cons v vs ih =>
    intro i pv h
    rw [fromDenseGo] at h
    by_cases hk : keep v = true
    · rw [if_pos hk] at h
      rcases List.mem_cons.mp h with h | h
      · subst h; exact ⟨Nat.le_refl _, by simp, hk⟩
      · obtain ⟨h1, h2, h3⟩ := ih (i + 1) pv h
        exact ⟨by omega, by simp only [List.length_cons]; omega, h3⟩
    · rw [if_neg hk] at h
      obtain ⟨h1, h2, h3⟩ := ih (i + 1) pv h
      exact ⟨by omega, by simp only [List.length_cons]; omega, h3⟩

theorem strictSorted_cons (a : Nat) (l : List Nat) :
    strictSorted (a :: l) = true ↔ (∀ b ∈ l.head?, a < b) ∧ strictSorted l = true := by
  cases l with
  | nil => simp [strictSorted]
  | cons b rest => simp [strictSorted]

theorem fromDenseGo_sorted (keep : Nat → Bool) (d : List Nat) :
    ∀ (i : Nat), strictSorted ((fromDenseGo keep i d).map (·.1)) = true := by
  induction d with
  | nil => intro i; rfl
  | cons v vs ih =>
    intro i
    rw [fromDenseGo]
    by_cases hk : keep v = true
    · rw [if_pos hk, List.map_cons, strictSorted_cons]
      refine ⟨?_, ih (i + 1)⟩
      intro b hb
      cases hl : fromDenseGo keep (i + 1) vs with
      | nil => rw [hl] at hb; simp at hb
      | cons pv rest =>
        rw [hl] at hb
        simp only [List.map_cons, List.head?_cons, Option.mem_def, Option.some.injEq] at hb
        have := fromDenseGo_bounds keep vs (i + 1) pv (by rw [hl]; exact List.mem_cons_self)
        omega
    · rw [if_neg hk]; exact ih (i + 1)

theorem zip_map_fst_snd (l : List (Nat × Nat)) : (l.map (·.1)).zip (l.map (·.2)) = l := by
  induction l with
  | nil => rfl
  | cons a t ih => simp only [List.map_cons, List.zip_cons_cons, ih]

/-! ## stable sort by position -/

theorem mem_insertByPos (x : Nat × Nat) (l : List (Nat × Nat)) (y : Nat × Nat) :
    y ∈ insertByPos x l ↔ y = x ∨ y ∈ l := by
  induction l with
  | nil => simp [insertByPos]
  | cons a t ih =>
    rw [insertByPos]
    split
    · simp
    · simp only [List.mem_cons, ih]
      constructor
      · rintro (h | h | h)
        · exact Or.inr (Or.inl h)
        · exact Or.inl h
        · exact Or.inr (Or.inr h)
      · rintro (h | h | h)
        · exact Or.inr (Or.inl h)
        · exact Or.inl h
        · exact Or.inr (Or.inr h)

theorem mem_sortByPos (l : List (Nat × Nat)) (y : Nat × Nat) : y ∈ sortByPos l ↔ y ∈ l := by
  induction l with
  | nil => simp [sortByPos]
  | cons a t ih =>
    show y ∈ insertByPos a (sortByPos t) ↔ _
    rw [mem_insertByPos, ih]; simp

theorem applyWrites_insertByPos (x : Nat × Nat) (l : List (Nat × Nat)) (base : List Nat) :
    applyWrites (insertByPos x l) base = applyWrites (x :: l) base := by
  induction l generalizing base with
  | nil => rfl
  | cons a t ih =>
    rw [insertByPos]
    split
    · rfl
    · rename_i hlt
      have hne : a.1 ≠ x.1 := by omega
      rw [applyWrites_cons, ih, applyWrites_cons, applyWrites_cons, applyWrites_cons,
        List.set_comm _ _ hne]

theorem applyWrites_sortByPos (l : List (Nat × Nat)) (base : List Nat) :
    applyWrites (sortByPos l) base = applyWrites l base := by
  induction l generalizing base with
  | nil => rfl
  | cons a t ih =>
    show applyWrites (insertByPos a (sortByPos t)) base = _
    rw [applyWrites_insertByPos, applyWrites_cons, ih, applyWrites_cons]

theorem insertByPos_sorted (x : Nat × Nat) (l : List (Nat × Nat))
    (h : (keys l).Pairwise (· ≤ ·)) : (keys (insertByPos x l)).Pairwise (· ≤ ·) := by
  induction l with
  | nil => simp [insertByPos, keys]
  | cons a t ih =>
    simp only [keys, List.map_cons, List.pairwise_cons] at h
    rw [insertByPos]
    split
    · rename_i hle
      simp only [keys, List.map_cons, List.pairwise_cons]
      refine ⟨?_, h⟩
      intro b hb
      rcases List.mem_cons.mp hb with hb | hb
      · omega
      · have := h.1 b hb; omega
    · rename_i hlt
      simp only [keys, List.map_cons, List.pairwise_cons]
      refine ⟨?_, ih h.2⟩
      intro b hb
      obtain ⟨y, hy, hyb⟩ := List.mem_map.mp hb
      rcases (mem_insertByPos x t y).mp hy with h1 | h1
      · subst h1; omega
      · exact h.1 b (List.mem_map.mpr ⟨y, h1, hyb⟩)

theorem sortByPos_sorted (l : List (Nat × Nat)) : (keys (sortByPos l)).Pairwise (· ≤ ·) := by
  induction l with
  | nil => simp [sortByPos, keys]
  | cons a t ih => exact insertByPos_sorted a _ ih

theorem insertByPos_length (x : Nat × Nat) (l : List (Nat × Nat)) :
    (insertByPos x l).length = l.length + 1 := by
  induction l with
  | nil => rfl
  | cons a t ih =>
    rw [insertByPos]; split
    · rfl
    · simp only [List.length_cons, ih]

theorem keys_insertByPos_nodup (x : Nat × Nat) (l : List (Nat × Nat))
    (h : (keys l).Nodup) (hx : x.1 ∉ keys l) : (keys (insertByPos x l)).Nodup := by
  induction l with
  | nil => simp [insertByPos, keys]
  | cons a t ih =>
    simp only [keys, List.map_cons, List.nodup_cons, List.mem_cons, not_or] at h hx
    rw [insertByPos]; split
    · simp only [keys, List.map_cons, List.nodup_cons, List.mem_cons, not_or]
      exact ⟨⟨hx.1, hx.2⟩, h⟩
    · simp only [keys, List.map_cons, List.nodup_cons]
      refine ⟨?_, ih h.2 hx.2⟩
      intro hm
      obtain ⟨y, hy, hya⟩ := List.mem_map.mp hm
      rcases (mem_insertByPos x t y).mp hy with h1 | h1
      · subst h1; exact hx.1 hya
      · exact h.1 (List.mem_map.mpr ⟨y, h1, hya⟩)

theorem keys_sortByPos_nodup (l : List (Nat × Nat)) (h : (keys l).Nodup) :
    (keys (sortByPos l)).Nodup := by
  induction l with
  | nil => simp [sortByPos, keys]
  | cons a t ih =>
    simp only [keys, List.map_cons, List.nodup_cons] at h
    apply keys_insertByPos_nodup a _ (ih h.2)
    intro hm
    obtain ⟨y, hy, hya⟩ := List.mem_map.mp hm
    exact h.1 (List.mem_map.mpr ⟨y, (mem_sortByPos t y).mp hy, hya⟩)

/-- sorted (≤) and duplicate-free is strictly sorted -/
theorem strictSorted_of_sorted_nodup (l : List Nat) (h1 : l.Pairwise (· ≤ ·)) (h2 : l.Nodup) :
    strictSorted l = true := by
  induction l with
  | nil => rfl
  | cons a t ih =>
    rw [strictSorted_cons]
    simp only [List.pairwise_cons, List.nodup_cons] at h1 h2
    refine ⟨?_, ih h1.2 h2.2⟩
    intro b hb
    cases t with
    | nil => simp at hb
    | cons c rest =>
      simp only [List.head?_cons, Option.mem_def, Option.some.injEq] at hb
      subst hb
      have := h1.1 c List.mem_cons_self
      have hne : a ≠ c := fun e => h2.1 (e ▸ List.mem_cons_self)
      omega

theorem strictSorted_pairwise (l : List Nat) (h : strictSorted l = true) : l.Pairwise (· < ·) := by
  induction l with
  | nil => exact List.Pairwise.nil
  | cons a t ih =>
    rw [strictSorted_cons] at h
    have ht := ih h.2
    refine List.pairwise_cons.mpr ⟨?_, ht⟩
    intro b hb
    cases t with
    | nil => simp at hb
    | cons c rest =>
      have hac : a < c := h.1 c (by simp)
      rcases List.mem_cons.mp hb with hb | hb
      · omega
      · have := (List.pairwise_cons.mp ht).1 b hb; omega

theorem strictSorted_nodup (l : List Nat) (h : strictSorted l = true) : l.Nodup := by
  have hp := strictSorted_pairwise l h
  exact hp.imp (fun hlt => by omega)

end Neumann.Codec
