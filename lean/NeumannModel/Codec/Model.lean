/-
  Codec model (C20): executable, import-free mirror of
    tensor_compress/src/delta.rs   (delta_encode / delta_decode / varint_* / compress_ids)
    tensor_compress/src/rle.rs     (rle_encode / rle_decode)
    tensor_chain/src/tcp/framing.rs (length-delimited frame v1 / v2, read side)
  u64 values are `Nat` reduced modulo 2^64 where the Rust code wraps.
-/
namespace Neumann.Codec

def U64 : Nat := 18446744073709551616   -- 2^64
def U32 : Nat := 4294967296             -- 2^32

/-! ## delta (wrapping differences, as after the `fix:` commit) -/

/-- `window[1].wrapping_sub(window[0])` -/
def wsub (b a : Nat) : Nat := (b + U64 - a % U64) % U64
/-- `current.wrapping_add(delta)` -/
def wadd (a d : Nat) : Nat := (a + d) % U64

/-- differences of consecutive elements, `prev` being the element before the list -/
def deltaGo (prev : Nat) : List Nat → List Nat
  | [] => []
  | x :: xs => wsub x prev :: deltaGo x xs

def deltaEncode : List Nat → List Nat
  | [] => []
  | x :: xs => x :: deltaGo x xs

def undeltaGo (cur : Nat) : List Nat → List Nat
  | [] => []
  | d :: ds => wadd cur d :: undeltaGo (wadd cur d) ds

def deltaDecode : List Nat → List Nat
  | [] => []
  | x :: ds => x :: undeltaGo x ds

/-! The pre-fix code (`saturating_sub` / `saturating_add`), kept for the witness only. -/
def ssub (b a : Nat) : Nat := b - a
def sadd (a d : Nat) : Nat := if a + d < U64 then a + d else U64 - 1
def deltaGoOld (prev : Nat) : List Nat → List Nat
  | [] => []
  | x :: xs => ssub x prev :: deltaGoOld x xs
def deltaEncodeOld : List Nat → List Nat
  | [] => []
  | x :: xs => x :: deltaGoOld x xs
def undeltaGoOld (cur : Nat) : List Nat → List Nat
  | [] => []
  | d :: ds => sadd cur d :: undeltaGoOld (sadd cur d) ds
def deltaDecodeOld : List Nat → List Nat
  | [] => []
  | x :: ds => x :: undeltaGoOld x ds

/-! ## varint -/

/-- one value, 7 bits per byte, high bit = continuation -/
def varint1 (v : Nat) : List Nat :=
  if h : v < 128 then [v] else (v % 128 + 128) :: varint1 (v / 128)
termination_by v
decreasing_by omega

def varintEncode : List Nat → List Nat
  | [] => []
  | v :: vs => varint1 v ++ varintEncode vs

/-- decoder state machine: `cur`, `shift`, bytes left; mirrors the `for &byte in bytes` loop -/
def varintDecodeGo (cur shift : Nat) : List Nat → List Nat
  | [] => []
  | b :: bs =>
    if shift ≥ 64 then
      -- malformed: too many continuation bytes; skip until a terminator
      if b / 128 % 2 = 0 then cur :: varintDecodeGo 0 0 bs
      else varintDecodeGo cur shift bs
    else
      let cur' := (cur + (b % 128) * 2 ^ shift) % U64     -- `current |= (byte & 0x7f) << shift` on u64
      if b / 128 % 2 = 0 then cur' :: varintDecodeGo 0 0 bs
      else varintDecodeGo cur' (shift + 7) bs

def varintDecode (bs : List Nat) : List Nat := varintDecodeGo 0 0 bs

def compressIds (ids : List Nat) : List Nat := varintEncode (deltaEncode ids)
def decompressIds (bs : List Nat) : List Nat := deltaDecode (varintDecode bs)
def compressIdsOld (ids : List Nat) : List Nat := varintEncode (deltaEncodeOld ids)
def decompressIdsOld (bs : List Nat) : List Nat := deltaDecodeOld (varintDecode bs)

/-! ## run-length encoding (values and run lengths kept as two lists, as `RleEncoded`) -/

def rleGo (cur : Int) (count : Nat) : List Int → List (Int × Nat)
  | [] => [(cur, count)]
  | x :: xs => if x = cur then rleGo cur (count + 1) xs else (cur, count) :: rleGo x 1 xs

def rleEncode : List Int → List (Int × Nat)
  | [] => []
  | x :: xs => rleGo x 1 xs

def rleDecode : List (Int × Nat) → List Int
  | [] => []
  | (v, n) :: rest => List.replicate n v ++ rleDecode rest

/-- `values.iter().zip(&run_lengths)`: the two vectors may have different lengths in garbage input -/
def rleDecodeRaw (values : List Int) (runs : List Nat) : List Int :=
  rleDecode (values.zip runs)

/-! ## length-delimited frames (tcp/framing.rs) -/

def be32 (n : Nat) : List Nat :=
  [n / 16777216 % 256, n / 65536 % 256, n / 256 % 256, n % 256]

def be32Decode (a b c d : Nat) : Nat := a * 16777216 + b * 65536 + c * 256 + d

inductive FrameErr where
  | tooLarge | zeroLength | shortRead | emptyV2
  deriving Repr, DecidableEq

/-- `encode`: serialized payload → frame bytes (`length_prefix` fails above u32::MAX) -/
def frameEncode (max : Nat) (payload : List Nat) : Except FrameErr (List Nat) :=
  if payload.length > max then .error .tooLarge
  else if payload.length ≥ U32 then .error .tooLarge
  else .ok (be32 payload.length ++ payload)

/-- `encode_v2` once the (flags, payload) pair has been chosen -/
def frameEncodeV2 (max : Nat) (flags : Nat) (payload : List Nat) : Except FrameErr (List Nat) :=
  if 1 + payload.length > max then .error .tooLarge
  else if 1 + payload.length ≥ U32 then .error .tooLarge
  else .ok (be32 (1 + payload.length) ++ flags :: payload)

inductive ReadResult where
  | eof                                  -- `Ok(None)`: fewer than 4 header bytes
  | err (e : FrameErr)
  | frame (payload : List Nat) (rest : List Nat)
  deriving Repr, DecidableEq

/-- `read_frame` up to (not including) `decode_payload`'s bitcode step -/
def frameRead (max : Nat) : List Nat → ReadResult
  | a :: b :: c :: d :: rest =>
    let len := be32Decode a b c d
    if len > max then .err .tooLarge
    else if len = 0 then .err .zeroLength
    else if rest.length < len then .err .shortRead
    else .frame (rest.take len) (rest.drop len)
  | _ => .eof

/-- read frames until EOF or error; returns the payloads and how the stream ended -/
def frameReadAll (max : Nat) (fuel : Nat) (bs : List Nat) : List (List Nat) × Option FrameErr :=
  match fuel with
  | 0 => ([], none)
  | fuel + 1 =>
    match frameRead max bs with
    | .eof => ([], none)
    | .err e => ([], some e)
    | .frame p rest =>
      let (ps, e) := frameReadAll max fuel rest
      (p :: ps, e)

/-- `decode_payload_v2` header split: flags byte and data, compression bit -/
def v2Split : List Nat → Except FrameErr (Nat × List Nat)
  | [] => .error .emptyV2
  | f :: data => .ok (f % 2, data)

/-! ## v2 frames with negotiated compression (`encode_v2` / `decode_payload_v2`)

  `compressed` = `compression::compress(serialized, method)` and `decompress` are opaque
  (lz4_flex): the model only decides WHICH bytes travel under WHICH flags byte. -/

/-- `encode_v2`'s choice of `(flags, payload)`; `methodFlag` = `frame_flags(config.method)` -/
def v2Choose (enabled : Bool) (minSize methodFlag : Nat) (serialized compressed : List Nat) :
    Nat × List Nat :=
  if enabled = true ∧ serialized.length ≥ minSize then
    if compressed.length < serialized.length then (methodFlag, compressed) else (0, serialized)
  else (0, serialized)

/-- the whole `encode_v2` after serialisation -/
def frameEncodeV2c (max : Nat) (enabled : Bool) (minSize methodFlag : Nat)
    (serialized compressed : List Nat) : Except FrameErr (List Nat) :=
  -- the receiver bounds the DECOMPRESSED payload by `max`: refuse what it would refuse
  if serialized.length > max then .error .tooLarge
  else
    let (fl, pl) := v2Choose enabled minSize methodFlag serialized compressed
    frameEncodeV2 max fl pl

/-- pre-fix `encode_v2`: only the (possibly compressed) frame is checked against `max` -/
def frameEncodeV2cOld (max : Nat) (enabled : Bool) (minSize methodFlag : Nat)
    (serialized compressed : List Nat) : Except FrameErr (List Nat) :=
  let (fl, pl) := v2Choose enabled minSize methodFlag serialized compressed
  frameEncodeV2 max fl pl

/-- `decode_payload_v2` up to the bitcode step: which bytes are handed to the deserialiser.
    `decompress` is `compression::decompress(_, Lz4)` -/
def v2Decode (decompress : List Nat → Option (List Nat)) (max : Nat) (payload : List Nat) :
    Except FrameErr (List Nat) :=
  match payload with
  | [] => .error .emptyV2
  | f :: data =>
    let body := if f % 2 = 0 then some data else decompress data
    match body with
    | none => .error .shortRead            -- decompression failure (error kind not compared)
    | some d => if d.length > max then .error .tooLarge else .ok d

end Neumann.Codec
