import NeumannModel.Codec.Model
import NeumannModel.Codec.Lemmas
/-! C20 — run-length encoding: definitions (u32 run counter variant, run-length sum, adjacency) and helper lemmas for `RleProps`. -/
namespace Neumann.Codec

/-- sum of the run lengths: `RleEncoded::len` -/
def rleLen : List (Int × Nat) → Nat
  | [] => 0
  | (_, n) :: rest => n + rleLen rest

/-- adjacent runs carry different values -/
def rleAdjDistinct : List (Int × Nat) → Prop
  | [] => True
  | [_] => True
  | (a, _) :: (b, m) :: rest => a ≠ b ∧ rleAdjDistinct ((b, m) :: rest)

/-- the encoder loop with the run counter kept in a u32 (wrapping, as in a release build) -/
def rleGoU32 (cur : Int) (count : Nat) : List Int → List (Int × Nat)
  | [] => [(cur, count)]
  | x :: xs =>
      if x = cur then rleGoU32 cur ((count + 1) % 4294967296) xs
      else (cur, count) :: rleGoU32 x 1 xs

def rleEncodeU32 : List Int → List (Int × Nat)
  | [] => []
  | x :: xs => rleGoU32 x 1 xs

theorem rleGo_head (cur : Int) (count : Nat) (xs : List Int) :
    ∃ n rest, rleGo cur count xs = (cur, n) :: rest ∧ count ≤ n := by
  induction xs generalizing count with
  | nil => exact ⟨count, [], rfl, Nat.le_refl _⟩
  | cons x xs ih =>
    simp only [rleGo]
    split
    · obtain ⟨n, rest, h, hle⟩ := ih (count + 1)
      exact ⟨n, rest, h, by omega⟩
    · exact ⟨count, _, rfl, Nat.le_refl _⟩

theorem rleGo_runs_pos (cur : Int) (count : Nat) (xs : List Int) (hc : 1 ≤ count) :
    ∀ p ∈ rleGo cur count xs, 1 ≤ p.2 := by
  induction xs generalizing cur count with
  | nil => intro p hp; simp [rleGo] at hp; subst hp; exact hc
  | cons x xs ih =>
    intro p hp
    simp only [rleGo] at hp
    split at hp
    · exact ih cur (count + 1) (by omega) p hp
    · rcases List.mem_cons.mp hp with rfl | hp
      · exact hc
      · exact ih x 1 (Nat.le_refl _) p hp

theorem rleGo_len (cur : Int) (count : Nat) (xs : List Int) :
    rleLen (rleGo cur count xs) = count + xs.length := by
  induction xs generalizing cur count with
  | nil => simp [rleGo, rleLen]
  | cons x xs ih =>
    simp only [rleGo]
    split
    · rw [ih]; simp; omega
    · simp only [rleLen]; rw [ih]; simp; omega

theorem rleGo_adj (cur : Int) (count : Nat) (xs : List Int) :
    rleAdjDistinct (rleGo cur count xs) := by
  induction xs generalizing cur count with
  | nil => simp [rleGo, rleAdjDistinct]
  | cons x xs ih =>
    simp only [rleGo]
    split
    · exact ih cur (count + 1)
    · rename_i hne
      obtain ⟨n, rest, h, _⟩ := rleGo_head x 1 xs
      have := ih x 1
      rw [h] at this ⊢
      exact ⟨fun e => hne e.symm, this⟩

theorem rleLen_mem_le (rs : List (Int × Nat)) : ∀ p ∈ rs, p.2 ≤ rleLen rs := by
  induction rs with
  | nil => intro p hp; cases hp
  | cons r rs ih =>
    intro p hp
    obtain ⟨v, n⟩ := r
    simp only [rleLen]
    rcases List.mem_cons.mp hp with rfl | hp
    · simp
    · have := ih p hp; omega

theorem rleGoU32_eq (cur : Int) (count : Nat) (xs : List Int)
    (h : count + xs.length < 4294967296) :
    rleGoU32 cur count xs = rleGo cur count xs := by
  induction xs generalizing cur count with
  | nil => simp [rleGoU32, rleGo]
  | cons x xs ih =>
    simp only [rleGoU32, rleGo]
    simp only [List.length_cons] at h
    split
    · rw [Nat.mod_eq_of_lt (by omega)]
      exact ih cur (count + 1) (by omega)
    · rw [ih x 1 (by omega)]

end Neumann.Codec
