import NeumannModel.Common.Proto
import NeumannModel.Codec.Model
import NeumannModel.Codec.Sparse
import NeumannModel.Codec.VecFormat
import NeumannModel.Codec.Limits
/- Line-protocol driver for the codec model (C20). -/
open Neumann Neumann.Proto Neumann.Codec

def showFrameErr : FrameErr → String
  | .tooLarge => "too_large" | .zeroLength => "zero_length"
  | .shortRead => "short_read" | .emptyV2 => "empty_v2"

def showPairs (ps : List (Int × Nat)) : String :=
  showInts (ps.map (·.1)) ++ ";" ++ showNats (ps.map (·.2))

def showSV (s : SV) : String := s!"{s.dim}|{showNats s.pos}|{showNats s.vals}"
def showSVRes : Except SVErr SV → String
  | .ok s => "ok " ++ showSV s
  | .error .dimExceeded => "err dim"
  | .error .oob => "err oob"
def showValRes : ValRes → String
  | .ok => "ok" | .zeroDim => "zero_dim" | .dimTooLarge => "dim_too_large" | .nan => "nan"
  | .inf => "inf" | .lenMismatch => "len_mismatch" | .posOob => "pos_oob" | .notSorted => "not_sorted"
def parseSV (d p v : String) : Option SV :=
  match d.toNat?, parseNats p, parseNats v with
  | some dim, some ps, some vs => some ⟨dim, ps, vs⟩
  | _, _, _ => none

/-- elements of a `cv` line: five comma-separated lists of equal length (bits, as-u64, back bits, whole, gePrev) -/
def parseElems (b u k w g : String) : Option (List Elem) :=
  match parseNats b, parseNats u, parseNats k, parseNats w, parseNats g with
  | some bs, some us, some ks, some ws, some gs =>
    if bs.length = us.length ∧ us.length = ks.length ∧ ks.length = ws.length ∧ ws.length = gs.length then
      some ((bs.zip (us.zip (ks.zip (ws.zip gs)))).map
        (fun (x : Nat × Nat × Nat × Nat × Nat) => ⟨x.1, x.2.1, x.2.2.1, x.2.2.2.1 != 0, x.2.2.2.2 != 0⟩))
    else none
  | _, _, _, _, _ => none
def showCV : CV → String
  | .raw b => "raw " ++ showNats b
  | .idList bytes => "idlist " ++ hex bytes
/-- the back-cast the harness observed, as a table over the ids of this vector (first entry wins) -/
def backTable (v : List Elem) (id : Nat) : Nat :=
  match v.find? (fun e => e.asU64 == id) with
  | some e => e.back
  | none => 0

def showReqVerdict : ReqVerdict → String
  | .ok => "ok" | .inverted => "inverted" | .tooMany => "too_many" | .zeroChunk => "zero_chunk" | .chunkTooLarge => "chunk_too_large"

def codecStep (_ : Unit) (line : String) : Unit × String :=
  let bad := ((), "bad-op")
  match words line with
  | ["delta_enc", xs] => match parseNats xs with
      | some v => ((), showNats (deltaEncode v)) | none => bad
  | ["delta_dec", xs] => match parseNats xs with
      | some v => ((), showNats (deltaDecode v)) | none => bad
  | ["varint_enc", xs] => match parseNats xs with
      | some v => ((), hex (varintEncode v)) | none => bad
  | ["varint_dec", h] => match unhex h with
      | some b => ((), showNats (varintDecode b)) | none => bad
  | ["compress", xs] => match parseNats xs with
      | some v => ((), hex (compressIds v)) | none => bad
  | ["decompress", h] => match unhex h with
      | some b => ((), showNats (decompressIds b)) | none => bad
  | ["rle_enc", xs] => match parseInts xs with
      | some v => ((), showPairs (rleEncode v)) | none => bad
  | ["rle_dec", vs, rs] => match parseInts vs, parseNats rs with
      | some v, some r => ((), showInts (rleDecodeRaw v r)) | _, _ => bad
  | ["frame_enc", mx, h] => match mx.toNat?, unhex h with
      | some m, some p => (match frameEncode m p with
          | .ok f => ((), "ok " ++ hex f) | .error e => ((), "err " ++ showFrameErr e))
      | _, _ => bad
  | ["frame_enc2", mx, fl, h] => match mx.toNat?, fl.toNat?, unhex h with
      | some m, some f, some p => (match frameEncodeV2 m f p with
          | .ok f => ((), "ok " ++ hex f) | .error e => ((), "err " ++ showFrameErr e))
      | _, _, _ => bad
  | ["frame_enc2c", mx, en, ms, mf, sh, ch] =>
      match mx.toNat?, en.toNat?, ms.toNat?, mf.toNat?, unhex sh, unhex ch with
      | some m, some e, some mn, some f, some sr, some cp =>
        (match frameEncodeV2c m (e != 0) mn f sr cp with
          | .ok fr => ((), "ok " ++ hex fr) | .error er => ((), "err " ++ showFrameErr er))
      | _, _, _, _, _, _ => bad
  | ["frame_read", mx, h] => match mx.toNat?, unhex h with
      | some m, some b =>
          let (ps, e) := frameReadAll m (b.length + 1) b
          ((), " ".intercalate (ps.map hex) ++ " | " ++ (match e with | none => "eof" | some e => showFrameErr e))
      | _, _ => bad
  | ["v2_split", h] => match unhex h with
      | some b => (match v2Split b with
          | .ok (f, d) => ((), s!"ok {f} {hex d}") | .error e => ((), "err " ++ showFrameErr e))
      | none => bad
  | ["sp_from_dense", xs] => match parseNats xs with
      | some d => ((), showSVRes (tryFromDense d)) | none => bad
  | ["sp_from_dense_thr", t, xs] => match t.toNat?, parseNats xs with
      | some t, some d => ((), showSVRes (tryFromDenseThr d t)) | _, _ => bad
  | ["sp_to_dense", d, p, v] => match parseSV d p v with
      | some s => ((), match toDense s with | some l => "ok " ++ showNats l | none => "panic") | none => bad
  | ["sp_from_parts", d, p, v] => match d.toNat?, parseNats p, parseNats v with
      | some dim, some ps, some vs => ((), showSVRes (tryFromParts dim ps vs)) | _, _, _ => bad
  | ["sp_get", d, p, v, i] => match parseSV d p v, i.toNat? with
      | some s, some i => ((), match svGet s i with | some x => toString x | none => "panic") | _, _ => bad
  | ["sp_set", d, p, v, i, x] => match parseSV d p v, i.toNat?, x.toNat? with
      | some s, some i, some x => ((), showSVRes (trySet s i x)) | _, _, _ => bad
  | ["sp_build", d, p, v] => match d.toNat?, parseNats p, parseNats v with
      | some dim, some ps, some vs =>
        ((), showSV (builderBuild dim ((ps.zip vs).foldl (fun acc pv => builderPush acc pv.1 pv.2) [])))
      | _, _, _ => bad
  | ["sp_validate", mx, d, p, v] => match mx.toNat?, parseSV d p v with
      | some m, some s => ((), showValRes (validate m s)) | _, _ => bad
  | ["sp_validate_old", mx, d, p, v] => match mx.toNat?, parseSV d p v with
      | some m, some s => ((), showValRes (validateOld m s)) | _, _ => bad
  | ["cv", dl, nm, b, u, k, w, g] => match dl.toNat?, nm.toNat?, parseElems b u k w g with
      | some d, some n, some v =>
          let c := compressVector (d != 0) (n != 0) v
          ((), showCV c ++ " | dec " ++ showNats (decompressVector (backTable v) c))
      | _, _, _ => bad
  | ["cv_by_predicate", dl, nm, b, u, k, w, g] => match dl.toNat?, nm.toNat?, parseElems b u k w g with
      | some d, some n, some v =>
          let c := compressVectorByPredicate (d != 0) (n != 0) v
          ((), showCV c ++ " | dec " ++ showNats (decompressVector (backTable v) c))
      | _, _, _ => bad
  | ["vblock", mx, f, t] => match mx.toNat?, f.toNat?, t.toNat? with
      | some m, some a, some b => ((), showReqVerdict (validateBlockRequest m a b)) | _, _, _ => bad
  | ["vblock_wrapping", mx, f, t] => match mx.toNat?, f.toNat?, t.toNat? with
      | some m, some a, some b => ((), showReqVerdict (validateBlockRequestWrapping m a b)) | _, _, _ => bad
  | ["vsnap", mx, c] => match mx.toNat?, c.toNat? with
      | some m, some k => ((), showReqVerdict (validateSnapshotRequest m k)) | _, _ => bad
  | _ => bad

def main : IO Unit := run codecStep ()
