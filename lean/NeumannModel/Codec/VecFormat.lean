import NeumannModel.Codec.Model
/-!
  tensor_compress/src/format.rs — `compress_vector` / `decompress_vector` for a vector field of a
  compressed snapshot (the lossless arms: `VectorRaw` and `IdList`; the tensor-train arm is lossy and
  is not a round trip).

  A float is its IEEE-754 bit pattern. The two casts the code uses (`f as u64`, `id as f32`) and the
  float tests of `looks_like_id_list` (`v < 0.0`, `v.fract() != 0.0`, `v < prev`) are NOT re-derived:
  every element carries what the real casts / tests answered (`Elem`), and the round-trip theorem
  holds for EVERY pair of cast functions — the encoder is right because it CHECKS that each element
  survives `f32 -> u64 -> f32` bit for bit, not because of any property of IEEE arithmetic.
-/
namespace Neumann.Codec

/-- one vector element as the code sees it -/
structure Elem where
  bits  : Nat          -- f.to_bits()
  asU64 : Nat          -- f as u64
  back  : Nat          -- ((f as u64) as f32).to_bits()
  whole : Bool         -- !(f < 0.0) && !(f.fract() != 0.0)   (a non-negative whole number; -0.0 is one)
  gePrev : Bool        -- !(f < previous element)              (unused for the first element)
  deriving Repr, DecidableEq

inductive CV where
  | raw (bits : List Nat)
  | idList (bytes : List Nat)
  deriving Repr, DecidableEq

/-- `looks_like_id_list` -/
def looksLikeIdList (namedIds : Bool) (v : List Elem) : Bool :=
  if namedIds then true
  else match v with
    | [] => false
    | [_] => false
    | first :: rest => first.whole && rest.all (fun e => e.gePrev && e.whole)

/-- the element survives `f32 -> u64 -> f32` bit for bit -/
def Elem.exact (e : Elem) : Bool := e.back == e.bits

/-- `compress_vector` with `tensor_mode = None` (or a key / field that is not an embedding) -/
def compressVector (deltaEncoding namedIds : Bool) (v : List Elem) : CV :=
  if deltaEncoding && looksLikeIdList namedIds v && v.all Elem.exact
  then .idList (compressIds (v.map (·.asU64)))
  else .raw (v.map (·.bits))

/-- `decompress_vector` on the two lossless arms; `ofU64 id` = `(id as f32).to_bits()` -/
def decompressVector (ofU64 : Nat → Nat) : CV → List Nat
  | .raw b => b
  | .idList bytes => (decompressIds bytes).map ofU64

/-- NOT the code: the id-list arm chosen by a predicate on the value ("a non-negative whole number
    below 2^64") instead of by the bit-for-bit check. `-0.0` passes it and casts to 0. -/
def compressVectorByPredicate (deltaEncoding namedIds : Bool) (v : List Elem) : CV :=
  if deltaEncoding && looksLikeIdList namedIds v && v.all (·.whole)
  then .idList (compressIds (v.map (·.asU64)))
  else .raw (v.map (·.bits))

/-- the element the real casts produce for the bit pattern `b` -/
def mkElem (toU64 ofU64 : Nat → Nat) (whole gePrev : Nat → Bool) (b : Nat) : Elem :=
  ⟨b, toU64 b, ofU64 (toU64 b), whole b, gePrev b⟩

end Neumann.Codec
