import NeumannModel.Codec.VarintLemmas
/-!
  C20 — varint (`tensor_compress/src/delta.rs` `varint_encode`): the shape of one encoded value, for EVERY value.
  These are what make the byte stream self-delimiting (`varint_stream_split`) and bound what a decoder may be asked
  to allocate: every byte but the last carries the continuation bit and the last does not (a prefix-free code);
  a u64 takes at most 10 bytes and a value below 128^k at most k; the encoding is the shortest one (no trailing
  zero group).  A fast path that sets a continuation bit on the last byte of some range of values (seeded change
  C20_9) contradicts `varint_value_shape` on exactly those values.
-/
namespace Neumann.Codec.VarintProps
open Neumann.Codec

/-- every byte but the last has the continuation bit (128..255), the last is below 128 -/
theorem varint_value_shape (v : Nat) : varintShape (varint1 v) :=
  varint1_shape_aux v v (Nat.le_refl _)

/-- a value below 128^k (k ≥ 1) takes at most k bytes -/
theorem varint_value_length (k v : Nat) (h : v < 128 ^ (k + 1)) : (varint1 v).length ≤ k + 1 :=
  varint1_len_aux k v h

/-- a u64 takes at most 10 bytes -/
theorem varint_u64_at_most_10_bytes (v : Nat) (h : v < U64) : (varint1 v).length ≤ 10 := by
  apply varint1_len_aux 9 v
  have : U64 ≤ 128 ^ 10 := by unfold U64; decide
  omega

/-- the encoding is the shortest one: a value of more than one byte never ends in a zero group -/
theorem varint_value_canonical (v : Nat) (h : 128 ≤ v) :
    ∃ b, (varint1 v).getLast? = some b ∧ 1 ≤ b :=
  varint1_last_aux v v (Nat.le_refl _) h

/-- one-byte values are themselves -/
theorem varint_small_value (v : Nat) (h : v < 128) : varint1 v = [v] := by
  unfold varint1; simp [h]

/-- non-vacuity / regression input of seeded change C20_9: 2^21 is the first four-byte value -/
example : varint1 2097151 = [255, 255, 127] ∧ varint1 2097152 = [128, 128, 128, 1] := by
  constructor <;> simp [varint1]

end Neumann.Codec.VarintProps
