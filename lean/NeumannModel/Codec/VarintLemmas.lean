import NeumannModel.Codec.Model
/-! C20 — varint: shape of one encoded value (helper lemmas for `VarintProps`). -/
namespace Neumann.Codec

/-- every byte but the last carries the continuation bit, the last does not -/
def varintShape : List Nat → Prop
  | [] => False
  | [b] => b < 128
  | b :: c :: rest => 128 ≤ b ∧ b < 256 ∧ varintShape (c :: rest)

theorem varint1_ne_nil (v : Nat) : varint1 v ≠ [] := by
  unfold varint1; split <;> simp

theorem varint1_shape_aux (n : Nat) : ∀ v, v ≤ n → varintShape (varint1 v) := by
  induction n with
  | zero => intro v hv; have : v = 0 := by omega
            subst this; unfold varint1; simp [varintShape]
  | succ n ih =>
    intro v hv
    unfold varint1
    split
    · rename_i h; simpa [varintShape] using h
    · rename_i h
      have hr := ih (v / 128) (by omega)
      match hm : varint1 (v / 128), varint1_ne_nil (v / 128) with
      | c :: rest, _ =>
        rw [hm] at hr
        exact ⟨by omega, by omega, hr⟩

theorem varint1_len_aux (k : Nat) : ∀ v, v < 128 ^ (k + 1) → (varint1 v).length ≤ k + 1 := by
  induction k with
  | zero => intro v hv; unfold varint1; simp at hv; simp [hv]
  | succ k ih =>
    intro v hv
    unfold varint1
    split
    · simp
    · have : v / 128 < 128 ^ (k + 1) := by
        rw [Nat.div_lt_iff_lt_mul (by decide)]; rw [Nat.pow_succ] at hv; exact hv
      have := ih (v / 128) this
      simp; omega

theorem varint1_last_aux (n : Nat) : ∀ v, v ≤ n → 128 ≤ v →
    ∃ b, (varint1 v).getLast? = some b ∧ 1 ≤ b := by
  induction n with
  | zero => intro v hv h; omega
  | succ n ih =>
    intro v hv h
    unfold varint1
    split
    · omega
    · by_cases h2 : 128 ≤ v / 128
      · obtain ⟨b, hb, hb1⟩ := ih (v / 128) (by omega) h2
        refine ⟨b, ?_, hb1⟩
        match hm : varint1 (v / 128), varint1_ne_nil (v / 128) with
        | c :: rest, _ => rw [hm] at hb; simpa [List.getLast?_cons_cons] using hb
      · have hlt : v / 128 < 128 := by omega
        refine ⟨v / 128, ?_, by omega⟩
        have : varint1 (v / 128) = [v / 128] := by unfold varint1; simp [hlt]
        rw [this]; simp

end Neumann.Codec
