import NeumannModel.Codec.SparseLemmas2
/- `SparseVector::try_set` keeps the struct invariant and changes exactly one dense component. -/
namespace Neumann.Codec

theorem keys_eraseIdx (ws : List (Nat × Nat)) (k : Nat) :
    keys (ws.eraseIdx k) = (keys ws).eraseIdx k := by
  induction ws generalizing k with
  | nil => rfl
  | cons a t ih =>
    cases k with
    | zero => rfl
    | succ k => simp only [List.eraseIdx_cons_succ, keys, List.map_cons] at ih ⊢; rw [ih]

theorem snds_eraseIdx (ws : List (Nat × Nat)) (k : Nat) :
    (ws.eraseIdx k).map (·.2) = (ws.map (·.2)).eraseIdx k := by
  induction ws generalizing k with
  | nil => rfl
  | cons a t ih =>
    cases k with
    | zero => rfl
    | succ k => simp only [List.eraseIdx_cons_succ, List.map_cons]; rw [ih]

theorem lookupW_eraseIdx (ws : List (Nat × Nat)) (i k : Nat) (hnd : (keys ws).Nodup)
    (hf : findPos (keys ws) i = some k) (j : Nat) :
    lookupW (ws.eraseIdx k) j = if j = i then none else lookupW ws j := by
  induction ws generalizing k with
  | nil => simp [keys, findPos] at hf
  | cons a t ih =>
    simp only [keys, List.map_cons, List.nodup_cons] at hnd
    simp only [keys, List.map_cons, findPos] at hf
    by_cases ha : a.1 = i
    · rw [if_pos ha] at hf
      simp only [Option.some.injEq] at hf
      subst hf
      simp only [List.eraseIdx_zero, List.tail_cons]
      by_cases hj : j = i
      · rw [if_pos hj]
        apply (lookupW_none t j).mpr
        rw [hj, ← ha]; exact hnd.1
      · rw [if_neg hj, lookupW, if_neg (by rw [ha]; exact fun e => hj e.symm)]
    · rw [if_neg ha] at hf
      cases hf' : findPos (t.map (·.1)) i with
      | none => rw [hf'] at hf; simp at hf
      | some k' =>
        rw [hf'] at hf
        simp only [Option.map_some, Option.some.injEq] at hf
        subst hf
        simp only [List.eraseIdx_cons_succ, lookupW]
        by_cases haj : a.1 = j
        · rw [if_pos haj, if_pos haj, if_neg (by rw [← haj]; exact ha)]
        · rw [if_neg haj, if_neg haj]
          exact ih k' hnd.2 hf'

theorem keys_set (ws : List (Nat × Nat)) (i k v : Nat) (hf : findPos (keys ws) i = some k) :
    keys (ws.set k (i, v)) = keys ws := by
  unfold keys
  rw [List.map_set]
  obtain ⟨_, hk⟩ := findPos_lt _ i k hf
  apply List.ext_getElem?
  intro j
  rw [List.getElem?_set]
  by_cases hkj : k = j
  · subst hkj
    obtain ⟨hlt, hk⟩ := findPos_lt _ i k hf
    unfold keys at hlt hk
    rw [if_pos rfl, if_pos hlt]; exact hk.symm
  · rw [if_neg hkj]

theorem lookupW_set (ws : List (Nat × Nat)) (i k v : Nat)
    (hf : findPos (keys ws) i = some k) (j : Nat) :
    lookupW (ws.set k (i, v)) j = if j = i then some v else lookupW ws j := by
  induction ws generalizing k with
  | nil => simp [keys, findPos] at hf
  | cons a t ih =>
    simp only [keys, List.map_cons, findPos] at hf
    by_cases ha : a.1 = i
    · rw [if_pos ha] at hf
      simp only [Option.some.injEq] at hf
      subst hf
      simp only [List.set_cons_zero, lookupW]
      by_cases hj : j = i
      · rw [if_pos hj.symm, if_pos hj]
      · rw [if_neg (fun e => hj e.symm), if_neg hj, if_neg (by rw [ha]; exact fun e => hj e.symm)]
    · rw [if_neg ha] at hf
      cases hf' : findPos (t.map (·.1)) i with
      | none => rw [hf'] at hf; simp at hf
      | some k' =>
        rw [hf'] at hf
        simp only [Option.map_some, Option.some.injEq] at hf
        subst hf
        simp only [List.set_cons_succ, lookupW]
        by_cases haj : a.1 = j
        · rw [if_pos haj, if_neg (by rw [← haj]; exact ha), if_pos haj]
        · rw [if_neg haj, if_neg haj]
          exact ih k' hf'

theorem lookupW_append (a b : List (Nat × Nat)) (j : Nat) :
    lookupW (a ++ b) j = match lookupW a j with
      | some v => some v
      | none => lookupW b j := by
  induction a with
  | nil => rfl
  | cons x t ih =>
    simp only [List.cons_append, lookupW]
    by_cases hx : x.1 = j
    · rw [if_pos hx, if_pos hx]
    · rw [if_neg hx, if_neg hx]; exact ih

theorem lookupW_insert (ws : List (Nat × Nat)) (i v k : Nat) (hi : i ∉ keys ws) (j : Nat) :
    lookupW (ws.take k ++ (i, v) :: ws.drop k) j = if j = i then some v else lookupW ws j := by
  rw [lookupW_append]
  have hsplit : lookupW ws j = match lookupW (ws.take k) j with
      | some x => some x
      | none => lookupW (ws.drop k) j := by
    rw [← lookupW_append, List.take_append_drop]
  by_cases hj : j = i
  · rw [if_pos hj]
    have hnone : lookupW (ws.take k) j = none := by
      apply (lookupW_none _ j).mpr
      rw [hj]
      intro hm
      apply hi
      obtain ⟨pv, hpv, e⟩ := List.mem_map.mp hm
      exact List.mem_map.mpr ⟨pv, List.mem_of_mem_take hpv, e⟩
    rw [hnone]
    simp only [lookupW]
    rw [if_pos hj.symm]
  · rw [if_neg hj, hsplit]
    cases lookupW (ws.take k) j with
    | some x => rfl
    | none =>
      simp only [lookupW]
      rw [if_neg (fun e => hj e.symm)]

/-! ## sortedness -/

theorem pairwise_eraseIdx (l : List Nat) (k : Nat) (h : l.Pairwise (· < ·)) :
    (l.eraseIdx k).Pairwise (· < ·) :=
  h.sublist (List.eraseIdx_sublist l k)

/-- a strictly sorted list is (its elements below `i`) followed by (those not below `i`) -/
theorem sorted_split (l : List Nat) (i : Nat) (h : l.Pairwise (· < ·)) :
    l.take (insertIdx l i) = l.filter (· < i) ∧
    l.drop (insertIdx l i) = l.filter (fun x => !decide (x < i)) := by
  induction l with
  | nil => simp [insertIdx]
  | cons a t ih =>
    have ha := List.pairwise_cons.mp h
    obtain ⟨ih1, ih2⟩ := ih ha.2
    unfold insertIdx at ih1 ih2 ⊢
    by_cases hai : a < i
    · have hf : (a :: t).filter (· < i) = a :: t.filter (· < i) := by
        rw [List.filter_cons]; simp [hai]
      rw [hf]
      simp only [List.length_cons, List.take_succ_cons, List.drop_succ_cons]
      refine ⟨by rw [ih1], ?_⟩
      rw [ih2, List.filter_cons]; simp [hai]
    · have hall : ∀ x ∈ t, ¬ x < i := by
        intro x hx; have := ha.1 x hx; omega
      have hf : (a :: t).filter (· < i) = [] := by
        rw [List.filter_eq_nil_iff]
        intro x hx
        rcases List.mem_cons.mp hx with e | e
        · subst e; simpa using hai
        · simpa using hall x e
      rw [hf]
      simp only [List.length_nil, List.take_zero, List.drop_zero, true_and]
      symm
      rw [List.filter_eq_self]
      intro x hx
      rcases List.mem_cons.mp hx with e | e
      · subst e; simpa using hai
      · simpa using hall x e

theorem insert_sorted (l : List Nat) (i : Nat) (h : l.Pairwise (· < ·)) (hi : i ∉ l) :
    (l.take (insertIdx l i) ++ i :: l.drop (insertIdx l i)).Pairwise (· < ·) := by
  obtain ⟨h1, h2⟩ := sorted_split l i h
  rw [h1, h2]
  rw [List.pairwise_append]
  refine ⟨h.sublist List.filter_sublist, ?_, ?_⟩
  · rw [List.pairwise_cons]
    refine ⟨?_, h.sublist List.filter_sublist⟩
    intro x hx
    obtain ⟨hm, hp⟩ := List.mem_filter.mp hx
    have hne : x ≠ i := fun e => hi (e ▸ hm)
    have : ¬ x < i := by simpa using hp
    omega
  · intro a ha b hb
    obtain ⟨_, hp⟩ := List.mem_filter.mp ha
    have hai : a < i := by simpa using hp
    rcases List.mem_cons.mp hb with e | e
    · omega
    · obtain ⟨_, hq⟩ := List.mem_filter.mp e
      have : ¬ b < i := by simpa using hq
      omega

theorem strictSorted_of_pairwise (l : List Nat) (h : l.Pairwise (· < ·)) : strictSorted l = true :=
  strictSorted_of_sorted_nodup l (h.imp (fun hlt => by omega)) (h.imp (fun hlt => by omega))

end Neumann.Codec

namespace Neumann.Codec

/-- the vector stored as the pair list `ws` -/
def ofPairs (dim : Nat) (ws : List (Nat × Nat)) : SV := ⟨dim, keys ws, ws.map (·.2)⟩

structure PairsOk (dim : Nat) (ws : List (Nat × Nat)) : Prop where
  sorted : (keys ws).Pairwise (· < ·)
  bound : ∀ pv ∈ ws, pv.1 < dim
  nz : ∀ pv ∈ ws, isZero pv.2 = false

theorem ofPairs_valid (dim : Nat) (ws : List (Nat × Nat)) (h : PairsOk dim ws) (hd : dim ≤ MAXDIM) :
    (ofPairs dim ws).valid = true := by
  unfold SV.valid SV.wf ofPairs
  simp only [keys, List.length_map, decide_true, Bool.true_and, Bool.and_eq_true, List.all_eq_true,
    List.mem_map, decide_eq_true_eq, forall_exists_index, and_imp, forall_apply_eq_imp_iff₂]
  exact ⟨⟨⟨strictSorted_of_pairwise _ h.sorted, fun pv hpv => h.bound pv hpv⟩,
    fun pv hpv => by simp [h.nz pv hpv]⟩, hd⟩

/-- pointwise description of the dense image of a pair list -/
theorem ofPairs_dense (dim : Nat) (ws : List (Nat × Nat)) (h : PairsOk dim ws) :
    ∃ l, toDense (ofPairs dim ws) = some l ∧ l.length = dim ∧
      ∀ j, j < dim → l[j]? = some ((lookupW ws j).getD 0) := by
  refine ⟨applyWrites ws (List.replicate dim 0), ?_, ?_, ?_⟩
  · unfold toDense ofPairs keys
    simp only [zip_map_fst_snd]
    rw [if_pos]
    rw [List.all_eq_true]
    intro pv hpv
    simp only [decide_eq_true_eq]
    exact h.bound pv hpv
  · rw [applyWrites_length, List.length_replicate]
  · intro j hj
    rw [applyWrites_get ws _ j (h.sorted.imp (fun hlt => by omega))
      (by
        intro p hp
        obtain ⟨pv, hpv, e⟩ := List.mem_map.mp hp
        rw [List.length_replicate, ← e]; exact h.bound pv hpv)]
    cases lookupW ws j with
    | some v => rfl
    | none => rw [List.getElem?_replicate, if_pos hj]; rfl

/-- if the lookups of two pair lists differ only at `i`, the dense images differ by one `set` -/
theorem dense_set_of_lookup (dim : Nat) (ws ws' : List (Nat × Nat)) (h : PairsOk dim ws)
    (h' : PairsOk dim ws') (i v : Nat)
    (hl : ∀ j, lookupW ws' j = if j = i then (if isZero v then none else some v) else lookupW ws j) :
    ∃ l l', toDense (ofPairs dim ws) = some l ∧ toDense (ofPairs dim ws') = some l' ∧
      l' = l.set i (normZero v) := by
  obtain ⟨l, hl1, hlen, hget⟩ := ofPairs_dense dim ws h
  obtain ⟨l', hl1', hlen', hget'⟩ := ofPairs_dense dim ws' h'
  refine ⟨l, l', hl1, hl1', ?_⟩
  apply List.ext_getElem?
  intro j
  by_cases hj : j < dim
  · rw [hget' j hj, hl j]
    by_cases hji : j = i
    · subst hji
      rw [if_pos rfl, List.getElem?_set_self (by omega)]
      unfold normZero
      cases isZero v <;> rfl
    · rw [if_neg hji, List.getElem?_set_ne (fun e => hji e.symm), hget j hj]
  · rw [List.getElem?_eq_none (by omega), List.getElem?_eq_none (by rw [List.length_set]; omega)]

theorem keys_insert (ws : List (Nat × Nat)) (k i v : Nat) :
    keys (ws.take k ++ (i, v) :: ws.drop k) = insertAt (keys ws) k i := by
  unfold keys insertAt
  simp [List.map_take, List.map_drop]

theorem snds_insert (ws : List (Nat × Nat)) (k i v : Nat) :
    (ws.take k ++ (i, v) :: ws.drop k).map (·.2) = insertAt (ws.map (·.2)) k v := by
  unfold insertAt
  simp [List.map_take, List.map_drop]

theorem mem_keys_of_mem (ws : List (Nat × Nat)) (pv : Nat × Nat) (h : pv ∈ ws) : pv.1 ∈ keys ws :=
  List.mem_map.mpr ⟨pv, h, rfl⟩

/-- `try_set` on a pair list -/
theorem set_pairs (dim : Nat) (ws : List (Nat × Nat)) (h : PairsOk dim ws) (i v : Nat)
    (hi : i < dim) :
    ∃ ws', trySet (ofPairs dim ws) i v = .ok (ofPairs dim ws') ∧ PairsOk dim ws' ∧
      ∀ j, lookupW ws' j = if j = i then (if isZero v then none else some v) else lookupW ws j := by
  have hnd : (keys ws).Nodup := h.sorted.imp (fun hlt => by omega)
  unfold trySet
  rw [if_neg (by simp [ofPairs]; omega)]
  cases hf : findPos (keys ws) i with
  | some k =>
    have hf' : findPos (ofPairs dim ws).pos i = some k := hf
    rw [hf']
    simp only
    obtain ⟨hk, hki⟩ := findPos_lt _ i k hf
    by_cases hz : isZero v = true
    · rw [if_pos hz]
      refine ⟨ws.eraseIdx k, ?_, ⟨?_, ?_, ?_⟩, ?_⟩
      · simp only [ofPairs, keys_eraseIdx, snds_eraseIdx]
      · rw [keys_eraseIdx]; exact pairwise_eraseIdx _ k h.sorted
      · intro pv hpv; exact h.bound pv (List.mem_of_mem_eraseIdx hpv)
      · intro pv hpv; exact h.nz pv (List.mem_of_mem_eraseIdx hpv)
      · intro j
        rw [lookupW_eraseIdx ws i k hnd hf j, hz]
        rfl
    · rw [if_neg hz]
      have hzf : isZero v = false := by simpa using hz
      refine ⟨ws.set k (i, v), ?_, ⟨?_, ?_, ?_⟩, ?_⟩
      · simp only [ofPairs, keys_set ws i k v hf, List.map_set]
      · rw [keys_set ws i k v hf]; exact h.sorted
      · intro pv hpv
        rcases List.mem_or_eq_of_mem_set hpv with e | e
        · exact h.bound pv e
        · subst e; exact hi
      · intro pv hpv
        rcases List.mem_or_eq_of_mem_set hpv with e | e
        · exact h.nz pv e
        · subst e; exact hzf
      · intro j
        rw [lookupW_set ws i k v hf j, hzf]
        rfl
  | none =>
    have hf' : findPos (ofPairs dim ws).pos i = none := hf
    rw [hf']
    simp only
    have hni : i ∉ keys ws := (findPos_none _ i).mp hf
    by_cases hz : isZero v = true
    · rw [if_pos hz]
      refine ⟨ws, rfl, h, ?_⟩
      intro j
      by_cases hj : j = i
      · rw [if_pos hj, hz, hj]; exact (lookupW_none ws i).mpr hni
      · rw [if_neg hj]
    · rw [if_neg hz]
      have hzf : isZero v = false := by simpa using hz
      refine ⟨ws.take (insertIdx (keys ws) i) ++ (i, v) :: ws.drop (insertIdx (keys ws) i),
        ?_, ⟨?_, ?_, ?_⟩, ?_⟩
      · simp only [ofPairs, keys_insert, snds_insert]
      · rw [keys_insert]; exact insert_sorted _ i h.sorted hni
      · intro pv hpv
        rcases List.mem_append.mp hpv with e | e
        · exact h.bound pv (List.mem_of_mem_take e)
        · rcases List.mem_cons.mp e with e | e
          · subst e; exact hi
          · exact h.bound pv (List.mem_of_mem_drop e)
      · intro pv hpv
        rcases List.mem_append.mp hpv with e | e
        · exact h.nz pv (List.mem_of_mem_take e)
        · rcases List.mem_cons.mp e with e | e
          · subst e; exact hzf
          · exact h.nz pv (List.mem_of_mem_drop e)
      · intro j
        rw [lookupW_insert ws i v _ hni j, hzf]
        rfl

/-- a valid vector is the vector of its pair list -/
theorem valid_as_pairs (s : SV) (hv : s.valid = true) :
    s = ofPairs s.dim (s.pos.zip s.vals) ∧ PairsOk s.dim (s.pos.zip s.vals) ∧ s.dim ≤ MAXDIM := by
  unfold SV.valid SV.wf at hv
  simp only [Bool.and_eq_true, decide_eq_true_eq, List.all_eq_true] at hv
  obtain ⟨⟨⟨⟨hlen, hsorted⟩, hb⟩, hnz⟩, hmax⟩ := hv
  have hkeys : keys (s.pos.zip s.vals) = s.pos := by
    unfold keys; exact List.map_fst_zip (by omega)
  have hsnd : (s.pos.zip s.vals).map (·.2) = s.vals := List.map_snd_zip (by omega)
  refine ⟨?_, ⟨?_, ?_, ?_⟩, hmax⟩
  · unfold ofPairs; rw [hkeys, hsnd]
  · rw [hkeys]; exact strictSorted_pairwise _ hsorted
  · intro pv hpv
    apply hb
    rw [← hkeys]; exact mem_keys_of_mem _ pv hpv
  · intro pv hpv
    have : pv.2 ∈ s.vals := by rw [← hsnd]; exact List.mem_map.mpr ⟨pv, hpv, rfl⟩
    simpa using hnz pv.2 this

end Neumann.Codec
