/-
  Sparse-vector codec model (C20): executable, import-free mirror of
    tensor_store/src/sparse_vector.rs   (try_from_dense / to_dense / try_from_parts / get / try_set /
                                          try_from_dense_with_threshold / SparseVectorBuilder)
    tensor_chain/src/message_validation.rs (EmbeddingValidator::validate)
  An `f32` is its IEEE-754 bit pattern (`Nat < 2^32`): every function here only MOVES values and
  compares them with zero / a threshold, so nothing depends on float arithmetic.
-/
namespace Neumann.Codec

def SIGN : Nat := 2147483648          -- 2^31
def INFBITS : Nat := 2139095040       -- 0x7F80_0000
def MAXDIM : Nat := 4294967295        -- u32::MAX

/-- `val == 0.0` (true for +0.0 and -0.0, false for NaN) -/
def isZero (b : Nat) : Bool := b % SIGN == 0
def isNaN (b : Nat) : Bool := decide (b % SIGN > INFBITS)
def isInf (b : Nat) : Bool := b % SIGN == INFBITS
/-- what a dense round trip does to one component: both zeros come back as +0.0 -/
def normZero (b : Nat) : Nat := if isZero b then 0 else b

/-- `v.abs() >= t` on bit patterns (false when either side is NaN) -/
def absGe (v t : Nat) : Bool :=
  if isNaN v || isNaN t then false
  else if t ≥ SIGN then true                 -- t ≤ -0.0 ≤ |v|
  else decide (v % SIGN ≥ t)

structure SV where
  dim : Nat
  pos : List Nat
  vals : List Nat
  deriving Repr, DecidableEq

inductive SVErr where
  | dimExceeded | oob
  deriving Repr, DecidableEq

/-! ## dense ↔ sparse -/

def fromDenseGo (keep : Nat → Bool) (i : Nat) : List Nat → List (Nat × Nat)
  | [] => []
  | v :: vs => if keep v then (i, v) :: fromDenseGo keep (i + 1) vs else fromDenseGo keep (i + 1) vs

/-- `try_from_dense` -/
def tryFromDense (d : List Nat) : Except SVErr SV :=
  if d.length > MAXDIM then .error .dimExceeded
  else
    let ps := fromDenseGo (fun v => !isZero v) 0 d
    .ok ⟨d.length, ps.map (·.1), ps.map (·.2)⟩

/-- `try_from_dense_with_threshold` -/
def tryFromDenseThr (d : List Nat) (t : Nat) : Except SVErr SV :=
  if d.length > MAXDIM then .error .dimExceeded
  else
    let ps := fromDenseGo (fun v => absGe v t) 0 d
    .ok ⟨d.length, ps.map (·.1), ps.map (·.2)⟩

/-- apply `dense[p] = v` for each pair in order -/
def applyWrites (ws : List (Nat × Nat)) (base : List Nat) : List Nat :=
  ws.foldl (fun acc pv => acc.set pv.1 pv.2) base

/-- `to_dense`; `none` = the Rust code panics (index out of bounds) -/
def toDense (s : SV) : Option (List Nat) :=
  let ws := s.pos.zip s.vals
  if ws.all (fun pv => decide (pv.1 < s.dim)) then some (applyWrites ws (List.replicate s.dim 0))
  else none

/-! ## from_parts: filter zeros, stable sort by position -/

/-- insert before the first element whose key is not smaller (stable for a `foldr` sort) -/
def insertByPos (x : Nat × Nat) : List (Nat × Nat) → List (Nat × Nat)
  | [] => [x]
  | y :: ys => if x.1 ≤ y.1 then x :: y :: ys else y :: insertByPos x ys

def sortByPos (l : List (Nat × Nat)) : List (Nat × Nat) := l.foldr insertByPos []

/-- the validation / filtering loop of `try_from_parts`: `none` = IndexOutOfBounds -/
def partsScan (dim : Nat) : List (Nat × Nat) → Option (List (Nat × Nat))
  | [] => some []
  | (p, v) :: rest =>
    if p ≥ dim then none
    else match partsScan dim rest with
      | none => none
      | some r => if isZero v then some r else some ((p, v) :: r)

/-- `try_from_parts` (release build: the two vectors are zipped, the shorter one wins) -/
def tryFromParts (dim : Nat) (ps vs : List Nat) : Except SVErr SV :=
  if dim > MAXDIM then .error .dimExceeded
  else match partsScan dim (ps.zip vs) with
    | none => .error .oob
    | some pairs =>
      let sorted := sortByPos pairs
      .ok ⟨dim, sorted.map (·.1), sorted.map (·.2)⟩

/-! ## get / try_set (binary search on the sorted, unique position list) -/

/-- index of `i` in the position list -/
def findPos (ps : List Nat) (i : Nat) : Option Nat :=
  match ps with
  | [] => none
  | p :: rest => if p = i then some 0 else (findPos rest i).map (· + 1)

/-- where `i` would be inserted: the number of positions smaller than `i` -/
def insertIdx (ps : List Nat) (i : Nat) : Nat := (ps.filter (· < i)).length

/-- `get`; `none` = panic (`values[i]` out of range on a malformed vector) -/
def svGet (s : SV) (i : Nat) : Option Nat :=
  match findPos s.pos i with
  | some k => s.vals[k]?
  | none => some 0

def insertAt (l : List Nat) (k x : Nat) : List Nat := l.take k ++ x :: l.drop k

/-- `try_set` -/
def trySet (s : SV) (i v : Nat) : Except SVErr SV :=
  if i ≥ s.dim then .error .oob
  else match findPos s.pos i with
    | some k =>
      if isZero v then .ok { s with pos := s.pos.eraseIdx k, vals := s.vals.eraseIdx k }
      else .ok { s with vals := s.vals.set k v }
    | none =>
      if isZero v then .ok s
      else
        let k := insertIdx s.pos i
        .ok { s with pos := insertAt s.pos k i, vals := insertAt s.vals k v }

/-! ## SparseVectorBuilder -/

/-- `push`: zeros are ignored -/
def builderPush (entries : List (Nat × Nat)) (p v : Nat) : List (Nat × Nat) :=
  if isZero v then entries else entries ++ [(p, v)]

/-- `dedup_by` keeping the LAST value of each run of equal positions -/
def dedupLast : List (Nat × Nat) → List (Nat × Nat)
  | [] => []
  | [a] => [a]
  | a :: b :: rest => if a.1 = b.1 then dedupLast (b :: rest) else a :: dedupLast (b :: rest)

/-- `build` (no bounds check: positions may exceed the dimension) -/
def builderBuild (dim : Nat) (entries : List (Nat × Nat)) : SV :=
  let l := dedupLast (sortByPos entries)
  ⟨dim, l.map (·.1), l.map (·.2)⟩

/-! ## well-formedness and the network validator -/

def strictSorted : List Nat → Bool
  | [] => true
  | [_] => true
  | a :: b :: rest => decide (a < b) && strictSorted (b :: rest)

/-- what every constructor of the crate establishes (struct invariant) -/
def SV.wf (s : SV) : Bool :=
  decide (s.pos.length = s.vals.length) && strictSorted s.pos && s.pos.all (fun p => decide (p < s.dim))

/-- the constructors additionally never store a zero -/
def SV.valid (s : SV) : Bool := s.wf && s.vals.all (fun v => !isZero v) && decide (s.dim ≤ MAXDIM)

inductive ValRes where
  | ok | zeroDim | dimTooLarge | nan | inf | lenMismatch | posOob | notSorted
  deriving Repr, DecidableEq

def valuesCheck : List Nat → ValRes
  | [] => .ok
  | v :: vs => if isNaN v then .nan else if isInf v then .inf else valuesCheck vs

/-- the position loop: bounds, then strict order against the previous position -/
def positionsCheck (dim : Nat) (prev : Option Nat) : List Nat → ValRes
  | [] => .ok
  | p :: rest =>
    if p ≥ dim then .posOob
    else match prev with
      | some q => if q ≥ p then .notSorted else positionsCheck dim (some p) rest
      | none => positionsCheck dim (some p) rest

/-- `EmbeddingValidator::validate` with `max_magnitude = +inf` (the magnitude test is float
    arithmetic and is not modelled); with the fix: the two vectors must have one length -/
def validate (maxDim : Nat) (s : SV) : ValRes :=
  if s.dim = 0 then .zeroDim
  else if s.dim > maxDim then .dimTooLarge
  else match valuesCheck s.vals with
    | .ok =>
      if s.pos.length ≠ s.vals.length then .lenMismatch
      else positionsCheck s.dim none s.pos
    | e => e

/-- the validator before the fix: no length comparison -/
def validateOld (maxDim : Nat) (s : SV) : ValRes :=
  if s.dim = 0 then .zeroDim
  else if s.dim > maxDim then .dimTooLarge
  else match valuesCheck s.vals with
    | .ok => positionsCheck s.dim none s.pos
    | e => e

end Neumann.Codec
