import NeumannModel.Codec.SparseLemmas2
import NeumannModel.Codec.SparseSet
/-
  C20 — property theorems for the sparse-vector encoding (`SparseVector`) and the network-side
  validator of decoded vectors.  An f32 is its bit pattern; only data movement and comparisons
  with zero / a threshold occur, so the statements are exact.
-/
namespace Neumann.Codec.SparseProps
open Neumann.Codec

/-- **dense → sparse → dense is the identity up to the sign of zero**, for every vector of every
    length the type admits (NaNs with any payload, infinities, subnormals included): every
    component comes back bit-identical, except that -0.0 comes back as +0.0.  The constructed
    vector satisfies the struct invariant (`valid`). -/
theorem sparse_dense_roundtrip (d : List Nat) (h : d.length ≤ MAXDIM) :
    ∃ s, tryFromDense d = .ok s ∧ s.valid = true ∧ s.dim = d.length ∧
      toDense s = some (d.map normZero) := by
  have hkeep : (fun v => if (!isZero v) = true then v else 0) = normZero := by
    funext v; unfold normZero; cases isZero v <;> rfl
  have himg := fromDenseGo_image (fun v => !isZero v) d 0 [] rfl
  simp only [List.nil_append] at himg
  rw [hkeep] at himg
  have hb := fromDenseGo_bounds (fun v => !isZero v) d 0
  refine ⟨⟨d.length, (fromDenseGo (fun v => !isZero v) 0 d).map (·.1),
    (fromDenseGo (fun v => !isZero v) 0 d).map (·.2)⟩, ?_, ?_, rfl, ?_⟩
  · unfold tryFromDense; rw [if_neg (by omega)]
  · unfold SV.valid SV.wf
    simp only [List.length_map, decide_true, Bool.true_and, Bool.and_eq_true, List.all_eq_true,
      List.mem_map, decide_eq_true_eq, forall_exists_index, and_imp, forall_apply_eq_imp_iff₂]
    refine ⟨⟨⟨fromDenseGo_sorted _ d 0, fun pv hpv => ?_⟩, fun pv hpv => ?_⟩, h⟩
    · have := (hb pv hpv).2.1; omega
    · exact (hb pv hpv).2.2
  · unfold toDense
    simp only [zip_map_fst_snd]
    rw [if_pos]
    · rw [himg]
    · rw [List.all_eq_true]
      intro pv hpv
      have := (hb pv hpv).2.1
      simp only [decide_eq_true_eq]; omega

/-- the hypothesis of the round trip is exactly what `try_from_dense` accepts -/
theorem sparse_from_dense_rejects_iff (d : List Nat) :
    tryFromDense d = .error .dimExceeded ↔ d.length > MAXDIM := by
  unfold tryFromDense
  by_cases h : d.length > MAXDIM
  · rw [if_pos h]; exact ⟨fun _ => h, fun _ => rfl⟩
  · rw [if_neg h]; exact ⟨fun e => (by cases e), fun e => absurd e h⟩

/-- the thresholded (lossy by design) encoder keeps exactly the components with `|v| >= t` and
    zeroes the rest; NaN components and a NaN threshold drop everything they touch -/
theorem sparse_threshold_image (d : List Nat) (t : Nat) (h : d.length ≤ MAXDIM) :
    ∃ s, tryFromDenseThr d t = .ok s ∧ s.wf = true ∧
      toDense s = some (d.map (fun v => if absGe v t then v else 0)) := by
  have himg := fromDenseGo_image (fun v => absGe v t) d 0 [] rfl
  simp only [List.nil_append] at himg
  have hb := fromDenseGo_bounds (fun v => absGe v t) d 0
  refine ⟨⟨d.length, (fromDenseGo (fun v => absGe v t) 0 d).map (·.1),
    (fromDenseGo (fun v => absGe v t) 0 d).map (·.2)⟩, ?_, ?_, ?_⟩
  · unfold tryFromDenseThr; rw [if_neg (by omega)]
  · unfold SV.wf
    simp only [List.length_map, decide_true, Bool.true_and, Bool.and_eq_true, List.all_eq_true,
      List.mem_map, decide_eq_true_eq, forall_exists_index, and_imp, forall_apply_eq_imp_iff₂]
    refine ⟨fromDenseGo_sorted _ d 0, fun pv hpv => ?_⟩
    have := (hb pv hpv).2.1; omega
  · unfold toDense
    simp only [zip_map_fst_snd]
    rw [if_pos]
    · rw [himg]
    · rw [List.all_eq_true]
      intro pv hpv
      have := (hb pv hpv).2.1
      simp only [decide_eq_true_eq]; omega

/-- **`try_from_parts`**: accepted input (any order, duplicates, zeros, unequal lengths) yields a
    vector whose dense image is the non-zero input pairs written in input order (a later
    duplicate wins); positions come out sorted, in range, values non-zero, arrays equally long -/
theorem from_parts_image (dim : Nat) (ps vs : List Nat) (s : SV)
    (h : tryFromParts dim ps vs = .ok s) :
    s.dim = dim ∧ dim ≤ MAXDIM ∧ s.pos.length = s.vals.length ∧
    s.pos.Pairwise (· ≤ ·) ∧ (∀ p ∈ s.pos, p < dim) ∧ (∀ v ∈ s.vals, isZero v = false) ∧
    toDense s = some (applyWrites ((ps.zip vs).filter (fun pv => !isZero pv.2))
      (List.replicate dim 0)) := by
  unfold tryFromParts at h
  by_cases hd : dim > MAXDIM
  · rw [if_pos hd] at h; cases h
  · rw [if_neg hd] at h
    cases hsc : partsScan dim (ps.zip vs) with
    | none => rw [hsc] at h; cases h
    | some pairs =>
      rw [hsc] at h
      simp only [Except.ok.injEq] at h
      subst h
      obtain ⟨hf, hbound⟩ := partsScan_some dim _ _ hsc
      have hmem : ∀ pv ∈ sortByPos pairs, pv.1 < dim ∧ isZero pv.2 = false := by
        intro pv hpv
        have h1 := (mem_sortByPos pairs pv).mp hpv
        rw [hf] at h1
        obtain ⟨h2, h3⟩ := List.mem_filter.mp h1
        exact ⟨hbound pv h2, by simpa using h3⟩
      refine ⟨rfl, by omega, by simp, sortByPos_sorted pairs, ?_, ?_, ?_⟩
      · intro p hp
        obtain ⟨pv, hpv, e⟩ := List.mem_map.mp hp
        rw [← e]; exact (hmem pv hpv).1
      · intro v hv
        obtain ⟨pv, hpv, e⟩ := List.mem_map.mp hv
        rw [← e]; exact (hmem pv hpv).2
      · unfold toDense
        simp only [zip_map_fst_snd]
        rw [if_pos]
        · rw [applyWrites_sortByPos, hf]
        · rw [List.all_eq_true]
          intro pv hpv
          simp only [decide_eq_true_eq]
          exact (hmem pv hpv).1

/-- … and when the non-zero input positions are distinct the struct invariant holds -/
theorem from_parts_valid (dim : Nat) (ps vs : List Nat) (s : SV)
    (h : tryFromParts dim ps vs = .ok s)
    (hnd : (keys ((ps.zip vs).filter (fun pv => !isZero pv.2))).Nodup) : s.valid = true := by
  obtain ⟨hdim, hmax, hlen, hsorted, hb, hnz, _⟩ := from_parts_image dim ps vs s h
  unfold tryFromParts at h
  rw [if_neg (by omega)] at h
  cases hsc : partsScan dim (ps.zip vs) with
  | none => rw [hsc] at h; cases h
  | some pairs =>
    rw [hsc] at h
    simp only [Except.ok.injEq] at h
    obtain ⟨hf, _⟩ := partsScan_some dim _ _ hsc
    have hk : s.pos = keys (sortByPos pairs) := by rw [← h]; rfl
    have hnd' : s.pos.Nodup := by rw [hk]; exact keys_sortByPos_nodup pairs (by rw [hf]; exact hnd)
    unfold SV.valid SV.wf
    simp only [Bool.and_eq_true, decide_eq_true_eq, List.all_eq_true]
    refine ⟨⟨⟨⟨hlen, strictSorted_of_sorted_nodup _ hsorted hnd'⟩, fun p hp => ?_⟩,
      fun v hv => by simp [hnz v hv]⟩, by omega⟩
    rw [hdim]; exact hb p hp

/-- `try_from_parts` rejects exactly an out-of-range position (checked before the zero filter) -/
theorem from_parts_rejects_iff (dim : Nat) (ps vs : List Nat) (hd : dim ≤ MAXDIM) :
    tryFromParts dim ps vs = .error .oob ↔ ∃ pv ∈ ps.zip vs, dim ≤ pv.1 := by
  unfold tryFromParts
  rw [if_neg (by omega)]
  cases hsc : partsScan dim (ps.zip vs) with
  | none => exact ⟨fun _ => (partsScan_none dim _).mp hsc, fun _ => rfl⟩
  | some pairs =>
    constructor
    · intro e; cases e
    · intro hex
      have := (partsScan_none dim _).mpr hex
      rw [hsc] at this; cases this

/-- **`get` agrees with the dense image** on every well-formed vector -/
theorem get_eq_dense (s : SV) (hwf : s.wf = true) (i : Nat) (hi : i < s.dim) :
    ∃ l, toDense s = some l ∧ svGet s i = l[i]? := by
  unfold SV.wf at hwf
  simp only [Bool.and_eq_true, decide_eq_true_eq, List.all_eq_true] at hwf
  obtain ⟨⟨hlen, hsorted⟩, hb⟩ := hwf
  have hkeys : keys (s.pos.zip s.vals) = s.pos := by
    unfold keys; exact List.map_fst_zip (by omega)
  have hall : (s.pos.zip s.vals).all (fun pv => decide (pv.1 < s.dim)) = true := by
    rw [List.all_eq_true]
    intro pv hpv
    simp only [decide_eq_true_eq]
    apply hb
    rw [← hkeys]; exact List.mem_map.mpr ⟨pv, hpv, rfl⟩
  refine ⟨applyWrites (s.pos.zip s.vals) (List.replicate s.dim 0), ?_, ?_⟩
  · unfold toDense; rw [if_pos hall]
  · have hg := svGet_lookup s.pos s.vals s.dim i hlen
    rw [show (⟨s.dim, s.pos, s.vals⟩ : SV) = s from rfl] at hg
    rw [hg, applyWrites_get _ _ i (by rw [hkeys]; exact strictSorted_nodup _ hsorted)
      (by intro p hp; rw [hkeys] at hp; rw [List.length_replicate]; exact hb p hp)]
    cases lookupW (s.pos.zip s.vals) i with
    | some v => rfl
    | none => rw [List.getElem?_replicate, if_pos hi]; rfl

/-- **`try_set` changes exactly one dense component and keeps the struct invariant**: on every
    valid vector and every in-range index, setting bit pattern `v` succeeds, the result is valid
    (positions still strictly sorted, no stored zero — a zero REMOVES the entry) and its dense
    image is the old one with component `i` replaced by `v` (zeros normalised to +0.0) -/
theorem set_image (s : SV) (hv : s.valid = true) (i v : Nat) (hi : i < s.dim) :
    ∃ s', trySet s i v = .ok s' ∧ s'.valid = true ∧ s'.dim = s.dim ∧
      ∃ l l', toDense s = some l ∧ toDense s' = some l' ∧ l' = l.set i (normZero v) := by
  obtain ⟨hs, hok, hmax⟩ := valid_as_pairs s hv
  obtain ⟨ws', hset, hok', hl⟩ := set_pairs s.dim (s.pos.zip s.vals) hok i v hi
  refine ⟨ofPairs s.dim ws', by rw [hs]; exact hset, ofPairs_valid s.dim ws' hok' hmax, rfl, ?_⟩
  obtain ⟨l, l', h1, h2, h3⟩ := dense_set_of_lookup s.dim (s.pos.zip s.vals) ws' hok hok' i v hl
  exact ⟨l, l', by rw [hs]; exact h1, h2, h3⟩

/-- `try_set` refuses exactly an index outside the dimension -/
theorem set_rejects_iff (s : SV) (i v : Nat) : trySet s i v = .error .oob ↔ s.dim ≤ i := by
  unfold trySet
  by_cases h : i ≥ s.dim
  · rw [if_pos h]; exact ⟨fun _ => h, fun _ => rfl⟩
  · rw [if_neg h]
    constructor
    · intro e
      cases hf : findPos s.pos i with
      | some k => rw [hf] at e; dsimp only at e; split at e <;> cases e
      | none => rw [hf] at e; dsimp only at e; split at e <;> cases e
    · intro e; omega

/-- **`SparseVectorBuilder::build`**: positions strictly increasing, arrays equally long, and —
    when every pushed position is inside the dimension — the dense image is the pushed non-zero
    values written in push order (the last push to a position wins) -/
theorem build_image (dim : Nat) (pushes : List (Nat × Nat)) :
    let entries := pushes.foldl (fun a pv => builderPush a pv.1 pv.2) []
    let s := builderBuild dim entries
    strictSorted s.pos = true ∧ s.pos.length = s.vals.length ∧ (∀ v ∈ s.vals, isZero v = false) ∧
    ((∀ pv ∈ pushes, pv.1 < dim) →
      toDense s = some (applyWrites (pushes.filter (fun pv => !isZero pv.2))
        (List.replicate dim 0))) := by
  intro entries s
  have hent : entries = pushes.filter (fun pv => !isZero pv.2) := by
    show pushes.foldl _ [] = _
    rw [builderPush_fold]; simp
  have hmem : ∀ pv ∈ dedupLast (sortByPos entries), pv ∈ pushes ∧ isZero pv.2 = false := by
    intro pv hpv
    have h1 := (mem_sortByPos entries pv).mp (mem_dedupLast _ pv hpv)
    rw [hent] at h1
    obtain ⟨h2, h3⟩ := List.mem_filter.mp h1
    exact ⟨h2, by simpa using h3⟩
  refine ⟨dedupLast_strict _ (sortByPos_sorted entries), by simp [s, builderBuild], ?_, ?_⟩
  · intro v hv
    obtain ⟨pv, hpv, e⟩ := List.mem_map.mp hv
    rw [← e]; exact (hmem pv hpv).2
  · intro hb
    show toDense (builderBuild dim entries) = _
    unfold toDense builderBuild
    simp only [zip_map_fst_snd]
    rw [if_pos]
    · rw [applyWrites_dedupLast, applyWrites_sortByPos, hent]
    · rw [List.all_eq_true]
      intro pv hpv
      simp only [decide_eq_true_eq]
      exact hb pv (hmem pv hpv).1

/-- **the validator of decoded vectors accepts exactly the well-formed ones** (non-zero dimension
    within the configured maximum, finite values, arrays of one length, positions strictly
    increasing and in range); `max_magnitude = +inf`, the magnitude test being float arithmetic -/
theorem validate_ok_iff (maxDim : Nat) (s : SV) :
    validate maxDim s = .ok ↔
      0 < s.dim ∧ s.dim ≤ maxDim ∧ (∀ v ∈ s.vals, isNaN v = false ∧ isInf v = false) ∧
        s.wf = true := by
  unfold validate SV.wf
  by_cases h0 : s.dim = 0
  · rw [if_pos h0]
    constructor
    · intro e; cases e
    · intro h; omega
  · rw [if_neg h0]
    by_cases h1 : s.dim > maxDim
    · rw [if_pos h1]
      constructor
      · intro e; cases e
      · intro h; omega
    · rw [if_neg h1]
      rcases valuesCheck_cases s.vals with ⟨hv, hall⟩ | hv | hv
      · rw [hv]
        simp only
        by_cases hl : s.pos.length ≠ s.vals.length
        · rw [if_pos hl]
          constructor
          · intro e; cases e
          · intro h
            simp only [Bool.and_eq_true, decide_eq_true_eq] at h
            exact absurd h.2.2.2.1.1 hl
        · rw [if_neg hl, positionsCheck_ok]
          simp only [Option.toList_none, List.nil_append, Bool.and_eq_true, decide_eq_true_eq,
            List.all_eq_true]
          have hl' : s.pos.length = s.vals.length := Decidable.of_not_not hl
          constructor
          · intro h; exact ⟨by omega, by omega, hall, ⟨hl', h.2⟩, h.1⟩
          · intro h; exact ⟨h.2.2.2.2, h.2.2.2.1.2⟩
      · rw [hv]
        constructor
        · intro e; cases e
        · intro h
          exfalso
          have : valuesCheck s.vals = .ok := valuesCheck_ok_of_all s.vals h.2.2.1
          rw [hv] at this; cases this
      · rw [hv]
        constructor
        · intro e; cases e
        · intro h
          exfalso
          have : valuesCheck s.vals = .ok := valuesCheck_ok_of_all s.vals h.2.2.1
          rw [hv] at this; cases this

/-- **an accepted decoded vector can be read without a panic**: `to_dense` and `get` at every
    index return a value -/
theorem validate_ok_no_panic (maxDim : Nat) (s : SV) (h : validate maxDim s = .ok) :
    (toDense s).isSome = true ∧ ∀ i, (svGet s i).isSome = true := by
  obtain ⟨_, _, _, hwf⟩ := (validate_ok_iff maxDim s).mp h
  have hwf' := hwf
  unfold SV.wf at hwf
  simp only [Bool.and_eq_true, decide_eq_true_eq, List.all_eq_true] at hwf
  obtain ⟨⟨hlen, _⟩, hb⟩ := hwf
  constructor
  · unfold toDense
    rw [if_pos]
    · rfl
    · rw [List.all_eq_true]
      intro pv hpv
      simp only [decide_eq_true_eq]
      apply hb
      have : pv.1 ∈ (s.pos.zip s.vals).map (·.1) := List.mem_map.mpr ⟨pv, hpv, rfl⟩
      rw [List.map_fst_zip (by omega)] at this
      exact this
  · intro i
    unfold svGet
    cases hf : findPos s.pos i with
    | none => rfl
    | some k =>
      obtain ⟨hk, _⟩ := findPos_lt s.pos i k hf
      simp only
      rw [List.getElem?_eq_getElem (by omega)]; rfl

/-- the validator before the fix accepted a decoded vector whose arrays differ in length, and
    `get` on it panics (witness: dimension 4, positions [0, 2], one value 1.0) -/
theorem validate_old_length_mismatch_witness :
    validateOld 65536 ⟨4, [0, 2], [1065353216]⟩ = .ok ∧
    svGet ⟨4, [0, 2], [1065353216]⟩ 2 = none ∧
    validate 65536 ⟨4, [0, 2], [1065353216]⟩ = .lenMismatch := by decide

/-! ### Non-vacuity -/
/-- a 6-component vector with both zeros, a NaN and an infinity round-trips as stated -/
example : ∃ s, tryFromDense [0, 1065353216, 2147483648, 2143289344, 2139095040, 1] = .ok s ∧
    toDense s = some [0, 1065353216, 0, 2143289344, 2139095040, 1] := ⟨_, rfl, by decide⟩
example : validate 8 ⟨4, [0, 2], [1065353216, 3225419776]⟩ = .ok := by decide
example : (tryFromParts 4 [3, 1, 3, 0] [5, 6, 7, 0]).toOption.map (fun s => (s.pos, s.vals)) =
    some ([1, 3, 3], [6, 5, 7]) := by decide

end Neumann.Codec.SparseProps
