import NeumannModel.Codec.Model
import Mathlib.Tactic.Ring
/- Helper lemmas for the codec properties (C20). -/
namespace Neumann.Codec

theorem wadd_wsub (p x : Nat) (hp : p < U64) (hx : x < U64) : wadd p (wsub x p) = x := by
  unfold wadd wsub U64 at *; omega

theorem undelta_delta (p : Nat) (xs : List Nat) (hp : p < U64) (h : ∀ x ∈ xs, x < U64) :
    undeltaGo p (deltaGo p xs) = xs := by
  induction xs generalizing p with
  | nil => rfl
  | cons x xs ih =>
    have hx : x < U64 := h x (by simp)
    simp only [deltaGo, undeltaGo, wadd_wsub p x hp hx]
    rw [ih x hx (fun y hy => h y (by simp [hy]))]

theorem pow_shift7 (s : Nat) : 2 ^ (s + 7) = 128 * 2 ^ s := by
  rw [Nat.pow_add]; ring

theorem varint1_decode (v : Nat) : ∀ (cur shift : Nat) (rest : List Nat),
    shift < 64 → cur + v * 2 ^ shift < U64 →
    varintDecodeGo cur shift (varint1 v ++ rest) = (cur + v * 2 ^ shift) :: varintDecodeGo 0 0 rest := by
  induction v using Nat.strongRecOn with
  | _ v ih =>
    intro cur shift rest hs hlt
    rw [varint1]
    by_cases hv : v < 128
    · simp only [hv, dite_true, List.cons_append, List.nil_append, varintDecodeGo]
      have h1 : ¬ shift ≥ 64 := by omega
      have h2 : v % 128 = v := Nat.mod_eq_of_lt hv
      have h3 : v / 128 % 2 = 0 := by omega
      simp only [h1, if_false, h2, h3, if_true, Nat.mod_eq_of_lt hlt]
    · simp only [hv, dite_false, List.cons_append, varintDecodeGo]
      have h1 : ¬ shift ≥ 64 := by omega
      have hb : (v % 128 + 128) % 128 = v % 128 := by omega
      have hc : ¬ ((v % 128 + 128) / 128 % 2 = 0) := by omega
      have hsplit : v * 2 ^ shift = (v % 128) * 2 ^ shift + (v / 128) * 2 ^ (shift + 7) := by
        rw [pow_shift7]
        have := Nat.div_add_mod v 128
        calc v * 2 ^ shift = (128 * (v / 128) + v % 128) * 2 ^ shift := by rw [this]
          _ = _ := by ring
      have hlt' : cur + (v % 128) * 2 ^ shift < U64 := by
        have : (v % 128) * 2 ^ shift ≤ v * 2 ^ shift := Nat.mul_le_mul_right _ (Nat.mod_le _ _)
        omega
      have hs7 : shift + 7 < 64 := by
        have hge : 128 * 2 ^ shift ≤ v * 2 ^ shift := Nat.mul_le_mul_right _ (by omega)
        have hp : 2 ^ (shift + 7) < 2 ^ 64 := by
          rw [pow_shift7]; unfold U64 at hlt; omega
        exact (Nat.pow_lt_pow_iff_right (by omega)).mp hp
      simp only [h1, if_false, hb, hc, Nat.mod_eq_of_lt hlt']
      rw [ih (v / 128) (by omega) _ _ rest hs7 (by omega)]
      congr 1; omega

theorem varint_decode_encode_go (vs : List Nat) (h : ∀ v ∈ vs, v < U64) :
    varintDecodeGo 0 0 (varintEncode vs) = vs := by
  induction vs with
  | nil => rfl
  | cons v vs ih =>
    have hv : v < U64 := h v (by simp)
    simp only [varintEncode]
    rw [varint1_decode v 0 0 _ (by omega) (by simpa using hv)]
    simp only [Nat.pow_zero, Nat.mul_one, Nat.zero_add]
    rw [ih (fun y hy => h y (by simp [hy]))]

theorem wsub_lt (b a : Nat) : wsub b a < U64 := by
  unfold wsub U64; omega

theorem deltaGo_lt (p : Nat) (xs : List Nat) : ∀ d ∈ deltaGo p xs, d < U64 := by
  induction xs generalizing p with
  | nil => simp [deltaGo]
  | cons x xs ih =>
    intro d hd
    simp only [deltaGo, List.mem_cons] at hd
    rcases hd with rfl | hd
    · exact wsub_lt _ _
    · exact ih x d hd

theorem deltaEncode_lt (xs : List Nat) (h : ∀ x ∈ xs, x < U64) : ∀ d ∈ deltaEncode xs, d < U64 := by
  cases xs with
  | nil => simp [deltaEncode]
  | cons x xs =>
    intro d hd
    simp only [deltaEncode, List.mem_cons] at hd
    rcases hd with rfl | hd
    · exact h _ (by simp)
    · exact deltaGo_lt x xs d hd

theorem rleGo_decode (cur : Int) (count : Nat) (xs : List Int) :
    rleDecode (rleGo cur count xs) = List.replicate count cur ++ xs := by
  induction xs generalizing cur count with
  | nil => simp [rleGo, rleDecode]
  | cons x xs ih =>
    simp only [rleGo]
    split
    · rename_i h; subst h
      rw [ih, List.replicate_succ']; simp
    · simp only [rleDecode]; rw [ih]; simp

theorem varintDecodeGo_length (cur shift : Nat) (bs : List Nat) :
    (varintDecodeGo cur shift bs).length ≤ bs.length := by
  induction bs generalizing cur shift with
  | nil => simp [varintDecodeGo]
  | cons b bs ih =>
    simp only [varintDecodeGo]
    split <;> split <;> simp only [List.length_cons] <;>
      first
        | exact Nat.succ_le_succ (ih _ _)
        | exact Nat.le_succ_of_le (ih _ _)

theorem be32_roundtrip (n : Nat) (h : n < U32) :
    be32Decode (n / 16777216 % 256) (n / 65536 % 256) (n / 256 % 256) (n % 256) = n := by
  unfold be32Decode; unfold U32 at h; omega

end Neumann.Codec
