import NeumannModel.Codec.RleLemmas

/-!
# C20 — run-length encoding: shape of the encoded form and the u32 run counter

`tensor_compress/src/rle.rs` keeps `count` in a `u32` (`let mut count = 1u32; … count += 1`).
`Model.rleGo` counts in `Nat`.  This file closes the gap: `rleGoU32` is the same loop with the
counter reduced modulo 2^32 after every increment (what a release build does; a debug build panics
at the same point), and `rle_u32_counter_exact` proves that it produces the SAME encoding as the
unbounded model for every input shorter than 2^32 elements — so `rle_roundtrip` is a statement about
the real counter on exactly that domain, and `rle_u32_wraps_witness_shape` states what happens on the
first input outside it.  The other theorems describe the encoded form for every input: every run is
non-empty, adjacent runs carry different values (the encoding is the canonical one), the run lengths
add up to the input length (`RleEncoded::len`), and no run is longer than the input.
-/

namespace Neumann.Codec.RleProps
open Neumann.Codec


/-- every run of an encoding is non-empty -/
theorem rle_runs_nonempty (xs : List Int) : ∀ p ∈ rleEncode xs, 1 ≤ p.2 := by
  cases xs with
  | nil => intro p hp; cases hp
  | cons x xs => exact rleGo_runs_pos x 1 xs (Nat.le_refl _)

/-- adjacent runs carry different values: the encoding is the canonical (shortest) one -/
theorem rle_adjacent_runs_differ (xs : List Int) : rleAdjDistinct (rleEncode xs) := by
  cases xs with
  | nil => simp [rleEncode, rleAdjDistinct]
  | cons x xs => exact rleGo_adj x 1 xs

/-- `RleEncoded::len` of an encoding is the input length -/
theorem rle_len_is_input_length (xs : List Int) : rleLen (rleEncode xs) = xs.length := by
  cases xs with
  | nil => simp [rleEncode, rleLen]
  | cons x xs => simp only [rleEncode]; rw [rleGo_len]; simp; omega

/-- no run is longer than the input -/
theorem rle_run_le_input_length (xs : List Int) : ∀ p ∈ rleEncode xs, p.2 ≤ xs.length := by
  intro p hp
  have := rleLen_mem_le _ p hp
  rw [rle_len_is_input_length] at this
  exact this

/-- the decoder's output length is the sum of the run lengths it is given (so `Vec::with_capacity(len())`
    is exact for well-formed input: value and run vectors of the same length) -/
theorem rle_decode_length (rs : List (Int × Nat)) : (rleDecode rs).length = rleLen rs := by
  induction rs with
  | nil => simp [rleDecode, rleLen]
  | cons r rs ih => obtain ⟨v, n⟩ := r; simp [rleDecode, rleLen, ih]

/-- THE u32 COUNTER: for every input shorter than 2^32 elements the encoder with the wrapping u32
    counter produces exactly the unbounded model's encoding … -/
theorem rle_u32_counter_exact (xs : List Int) (h : xs.length < 4294967296) :
    rleEncodeU32 xs = rleEncode xs := by
  cases xs with
  | nil => rfl
  | cons x xs =>
    simp only [rleEncodeU32, rleEncode]
    exact rleGoU32_eq x 1 xs (by simp only [List.length_cons] at h; omega)

/-- … hence round-trips, with every stored run length a valid u32 -/
theorem rle_u32_roundtrip (xs : List Int) (h : xs.length < 4294967296) :
    rleDecode (rleEncodeU32 xs) = xs ∧ ∀ p ∈ rleEncodeU32 xs, p.2 < 4294967296 := by
  rw [rle_u32_counter_exact xs h]
  refine ⟨?_, ?_⟩
  · cases xs with
    | nil => rfl
    | cons x xs => simp [rleEncode, rleGo_decode]
  · intro p hp
    have := rle_run_le_input_length xs p hp
    omega

/-- outside that domain the guard is needed: a counter standing at u32::MAX wraps to 0 on the next
    equal element, and the run that is then stored no longer decodes to the input (the loop started
    at its invariant-breaking state; a release build reaches it after 2^32 - 1 equal elements, a
    debug build panics there) -/
theorem rle_u32_wraps_witness_shape :
    rleGoU32 7 4294967295 [7] = [(7, 0)] ∧ rleGo 7 4294967295 [7] = [(7, 4294967296)] ∧
    rleDecode (rleGoU32 7 4294967295 [7]) = [] := by
  refine ⟨?_, ?_, ?_⟩ <;> simp [rleGoU32, rleGo, rleDecode]

/-- non-vacuity: a concrete input with repeated, returning values -/
example : rleEncode [3, 3, -1, 3, 3, 3] = [(3, 2), (-1, 1), (3, 3)] ∧
    rleEncodeU32 [3, 3, -1, 3, 3, 3] = [(3, 2), (-1, 1), (3, 3)] := by decide

end Neumann.Codec.RleProps
