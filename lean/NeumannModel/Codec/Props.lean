import NeumannModel.Codec.Lemmas
/-
  C20 — property theorems for the lossless codecs.  ONLY property statements
  and their non-vacuity examples live here; helpers are in `Lemmas.lean`.
-/
namespace Neumann.Codec.Props
open Neumann.Codec

/-- Every list of u64 ids (empty, single, maximal, **unsorted**, duplicates) survives
    `compress_ids` / `decompress_ids`. -/
theorem decompress_compress_ids (ids : List Nat) (h : ∀ x ∈ ids, x < U64) :
    decompressIds (compressIds ids) = ids := by
  unfold decompressIds compressIds varintDecode
  rw [varint_decode_encode_go _ (deltaEncode_lt ids h)]
  cases ids with
  | nil => rfl
  | cons x xs =>
    simp only [deltaEncode, deltaDecode]
    rw [undelta_delta x xs (h x (by simp)) (fun y hy => h y (by simp [hy]))]

theorem delta_roundtrip (ids : List Nat) (h : ∀ x ∈ ids, x < U64) :
    deltaDecode (deltaEncode ids) = ids := by
  cases ids with
  | nil => rfl
  | cons x xs =>
    simp only [deltaEncode, deltaDecode]
    rw [undelta_delta x xs (h x (by simp)) (fun y hy => h y (by simp [hy]))]

theorem varint_roundtrip (vs : List Nat) (h : ∀ v ∈ vs, v < U64) :
    varintDecode (varintEncode vs) = vs :=
  varint_decode_encode_go vs h

/-- a varint stream followed by more encoded values decodes to the concatenation:
    the decoder consumes exactly the declared extent of each value -/
theorem varint_stream_split (v : Nat) (rest : List Nat) (hv : v < U64) :
    varintDecode (varint1 v ++ rest) = v :: varintDecode rest := by
  unfold varintDecode
  rw [varint1_decode v 0 0 rest (by omega) (by simpa using hv)]
  simp

/-- the varint decoder never yields more values than it was given bytes
    (no amplification on arbitrary / malformed input); it is total by construction -/
theorem varint_decode_bounded (bs : List Nat) : (varintDecode bs).length ≤ bs.length :=
  varintDecodeGo_length 0 0 bs

theorem decompress_bounded (bs : List Nat) : (decompressIds bs).length ≤ bs.length := by
  unfold decompressIds
  have h := varint_decode_bounded bs
  cases hd : varintDecode bs with
  | nil => simp [deltaDecode]
  | cons x ds =>
    rw [hd] at h
    have : (undeltaGo x ds).length = ds.length := by
      clear hd h
      induction ds generalizing x with
      | nil => rfl
      | cons d ds ih => simp [undeltaGo, ih]
    simp only [deltaDecode, List.length_cons, this]; simpa using h

/-- run-length coding is an exact inverse for every input (run counters are `Nat` here;
    the Rust `u32` counter needs `data.len() < 2^32`, stated in DESIGN.md) -/
theorem rle_roundtrip (xs : List Int) : rleDecode (rleEncode xs) = xs := by
  cases xs with
  | nil => rfl
  | cons x xs => simp [rleEncode, rleGo_decode]

/-- frame v1 round trip, with arbitrary bytes following the frame on the stream -/
theorem frame_roundtrip (max : Nat) (p rest : List Nat)
    (h0 : 0 < p.length) (hm : p.length ≤ max) (h32 : p.length < U32) :
    ∃ f, frameEncode max p = .ok f ∧ frameRead max (f ++ rest) = .frame p rest := by
  refine ⟨be32 p.length ++ p, ?_, ?_⟩
  · unfold frameEncode
    have h1 : ¬ p.length > max := by omega
    have h2 : ¬ p.length ≥ U32 := by omega
    simp [h1, h2]
  · have hr := be32_roundtrip p.length h32
    simp only [be32, List.cons_append, List.nil_append, frameRead, hr]
    have h1 : ¬ p.length > max := by omega
    have h2 : ¬ p.length = 0 := by omega
    have h3 : ¬ (p ++ rest).length < p.length := by simp
    simp [h1, h2, h3]

/-- the encoder refuses what the reader would refuse: payloads above the limit never produce a frame -/
theorem frame_encode_rejects_oversize (max : Nat) (p : List Nat) (h : p.length > max) :
    frameEncode max p = .error .tooLarge := by
  unfold frameEncode; simp [h]

/-- whatever bytes arrive, an accepted frame is non-empty, within the configured limit,
    and is exactly the declared extent of the input (nothing read past it) -/
theorem frame_decode_bounded (max : Nat) (bs p rest : List Nat)
    (h : frameRead max bs = .frame p rest) :
    0 < p.length ∧ p.length ≤ max ∧ ∃ a b c d, bs = a :: b :: c :: d :: (p ++ rest) := by
  match bs, h with
  | a :: b :: c :: d :: tl, h =>
    simp only [frameRead] at h
    split at h
    · cases h
    · split at h
      · cases h
      · split at h
        · cases h
        · injection h with hp hr
          subst hp; subst hr
          refine ⟨?_, ?_, a, b, c, d, by simp⟩
          · simp only [List.length_take]; omega
          · simp only [List.length_take]; omega
  | [], h => simp [frameRead] at h
  | [_], h => simp [frameRead] at h
  | [_, _], h => simp [frameRead] at h
  | [_, _, _], h => simp [frameRead] at h

/-- a declared length above the limit is rejected before any payload byte is looked at -/
theorem frame_oversize_rejected (max a b c d : Nat) (tl : List Nat)
    (h : be32Decode a b c d > max) : frameRead max (a :: b :: c :: d :: tl) = .err .tooLarge := by
  simp [frameRead, h]

def encodeAll (ps : List (List Nat)) : List Nat := (ps.map fun p => be32 p.length ++ p).flatten

/-- a concatenation of frames decodes to exactly those frames, then EOF -/
theorem frame_stream_split_exact (max : Nat) (ps : List (List Nat))
    (h : ∀ p ∈ ps, 0 < p.length ∧ p.length ≤ max ∧ p.length < U32) :
    frameReadAll max (ps.length + 1) (encodeAll ps) = (ps, none) := by
  induction ps with
  | nil => simp [encodeAll, frameReadAll, frameRead]
  | cons p ps ih =>
    obtain ⟨h0, hm, h32⟩ := h p (by simp)
    obtain ⟨f, hf, hr⟩ := frame_roundtrip max p (encodeAll ps) h0 hm h32
    have hfe : f = be32 p.length ++ p := by
      unfold frameEncode at hf
      have h1 : ¬ p.length > max := by omega
      have h2 : ¬ p.length ≥ U32 := by omega
      simp [h1, h2] at hf; exact hf.symm
    have henc : encodeAll (p :: ps) = f ++ encodeAll ps := by
      simp [encodeAll, hfe]
    rw [henc, List.length_cons, frameReadAll, hr]
    simp only []
    rw [ih (fun q hq => h q (by simp [hq]))]

/-- v2 header: an empty payload is an error, otherwise flags bit 0 and the data are split off -/
theorem v2_split_spec (f : Nat) (data : List Nat) : v2Split (f :: data) = .ok (f % 2, data) := rfl

/-- **v2 round trip with compression negotiated**: whatever the compressor returns, the bytes
    handed to the deserialiser are the serialised message — provided `decompress` inverts
    `compress` (lz4, opaque) and the flag of the configured method is 0 (None, where
    `compress` is the identity) or 1 (LZ4). The flags byte says "compressed" exactly when the
    compressed bytes travel. -/
theorem v2_roundtrip (decompress : List Nat → Option (List Nat)) (max : Nat) (enabled : Bool)
    (minSize methodFlag : Nat) (ser comp : List Nat)
    (hflag : (methodFlag = 0 ∧ comp = ser) ∨ (methodFlag = 1 ∧ decompress comp = some ser))
    (hmax : ser.length ≤ max) :
    v2Decode decompress max
        ((v2Choose enabled minSize methodFlag ser comp).1 :: (v2Choose enabled minSize methodFlag ser comp).2)
      = .ok ser := by
  have hm : ¬ ser.length > max := by omega
  unfold v2Choose
  by_cases h1 : enabled = true ∧ ser.length ≥ minSize
  · rw [if_pos h1]
    by_cases h2 : comp.length < ser.length
    · rw [if_pos h2]
      rcases hflag with ⟨hf, hc⟩ | ⟨hf, hd⟩
      · subst hc; omega
      · subst hf; simp [v2Decode, hd, hm]
    · rw [if_neg h2]; simp [v2Decode, hm]
  · rw [if_neg h1]; simp [v2Decode, hm]

/-- **encode_v2 / decode_payload_v2 are inverse for every limit**: whenever the encoder emits a
    frame, its content decodes (same `max`) to the serialised message. -/
theorem v2_encode_then_decode (decompress : List Nat → Option (List Nat)) (max : Nat)
    (enabled : Bool) (minSize methodFlag : Nat) (ser comp f : List Nat)
    (hflag : (methodFlag = 0 ∧ comp = ser) ∨ (methodFlag = 1 ∧ decompress comp = some ser))
    (h : frameEncodeV2c max enabled minSize methodFlag ser comp = .ok f) :
    ∃ content, f = be32 content.length ++ content ∧ v2Decode decompress max content = .ok ser := by
  unfold frameEncodeV2c at h
  by_cases hbig : ser.length > max
  · rw [if_pos hbig] at h; cases h
  · rw [if_neg hbig] at h
    simp only [] at h
    unfold frameEncodeV2 at h
    split at h
    · cases h
    · split at h
      · cases h
      · injection h with h
        refine ⟨(v2Choose enabled minSize methodFlag ser comp).1 ::
                (v2Choose enabled minSize methodFlag ser comp).2, ?_, ?_⟩
        · rw [← h]; simp [Nat.add_comm]
        · exact v2_roundtrip decompress max enabled minSize methodFlag ser comp hflag (by omega)

/-- the pre-fix encoder emitted frames its own decoder refuses (witness: limit 4, a 6-byte
    serialisation that "compresses" to 2 bytes) -/
theorem v2_old_encoder_limit_witness :
    ∃ f content, frameEncodeV2cOld 4 true 0 1 [1, 2, 3, 4, 5, 6] [9, 9] = .ok f ∧
      f = be32 content.length ++ content ∧
      v2Decode (fun _ => some [1, 2, 3, 4, 5, 6]) 4 content = .error .tooLarge :=
  ⟨_, [1, 9, 9], rfl, by decide, by decide⟩

/-- the compressed bytes are sent only when they are strictly shorter -/
theorem v2_never_grows (enabled : Bool) (minSize methodFlag : Nat) (ser comp : List Nat) :
    (v2Choose enabled minSize methodFlag ser comp).2.length ≤ ser.length := by
  unfold v2Choose
  split
  · split
    · simp only; omega
    · simp
  · simp

/-! ### The pre-fix encoder does **not** satisfy the property (kept as a regression witness). -/
theorem old_delta_not_inverse :
    deltaDecodeOld (deltaEncodeOld [5, 3, 9, 9, 1]) = [5, 5, 11, 11, 11] := by decide

/-! ### Non-vacuity: concrete non-trivial inputs meet the hypotheses. -/
example : decompressIds (compressIds [5, 3, 9, 9, 1]) = [5, 3, 9, 9, 1] :=
  decompress_compress_ids _ (by decide)
example : (∀ x ∈ [18446744073709551615, 0, 7], x < U64) := by decide
example : ∃ f, frameEncode 16 [1, 2, 3] = .ok f ∧ frameRead 16 (f ++ [9]) = .frame [1, 2, 3] [9] :=
  frame_roundtrip 16 [1, 2, 3] [9] (by decide) (by decide) (by decide)

end Neumann.Codec.Props
