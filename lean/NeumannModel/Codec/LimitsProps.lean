import NeumannModel.Codec.Limits
/-! Property theorems for the request-size limits of decoded messages (C20). -/
namespace Neumann.Codec

/-- the saturating span: exact below the top of `u64`, clamped to `u64::MAX` for the full range -/
theorem span_cases (fromH toH : Nat) (ht : toH < U64) :
    (toH - fromH + 1 < U64 ∧ satAdd (satSub toH fromH) 1 = toH - fromH + 1) ∨
    (toH - fromH + 1 = U64 ∧ satAdd (satSub toH fromH) 1 = U64 - 1) := by
  unfold satAdd satSub
  by_cases h : toH - fromH + 1 < U64
  · left; exact ⟨h, by rw [if_pos h]⟩
  · right
    refine ⟨by unfold U64 at *; omega, by rw [if_neg h]⟩

/-- An accepted BlockRequest asks for a non-empty, correctly ordered range of at most
    `max_blocks_per_request` blocks — the TRUE number of blocks `to - from + 1`, for every pair of `u64`
    heights including `0 ..= u64::MAX` — whenever the limit itself is below `u64::MAX`. -/
theorem accepted_block_request_is_within_limit (maxBlocks fromH toH : Nat)
    (ht : toH < U64) (hm : maxBlocks < U64 - 1)
    (h : validateBlockRequest maxBlocks fromH toH = .ok) :
    fromH ≤ toH ∧ toH - fromH + 1 ≤ maxBlocks := by
  unfold validateBlockRequest at h
  by_cases h1 : toH < fromH
  · rw [if_pos h1] at h; cases h
  · rw [if_neg h1] at h
    by_cases h2 : satAdd (satSub toH fromH) 1 > maxBlocks
    · rw [if_pos h2] at h; cases h
    · rcases span_cases fromH toH ht with ⟨_, e⟩ | ⟨_, e⟩
      · rw [e] at h2; omega
      · rw [e] at h2; unfold U64 at *; omega

/-- and conversely every ordered range within the limit is accepted: the verdict is exactly the
    specification -/
theorem block_request_verdict_exact (maxBlocks fromH toH : Nat)
    (ht : toH < U64) (hm : maxBlocks < U64 - 1) :
    validateBlockRequest maxBlocks fromH toH =
      if toH < fromH then .inverted else if toH - fromH + 1 > maxBlocks then .tooMany else .ok := by
  unfold validateBlockRequest
  by_cases h1 : toH < fromH
  · rw [if_pos h1, if_pos h1]
  · rw [if_neg h1, if_neg h1]
    rcases span_cases fromH toH ht with ⟨_, e⟩ | ⟨hfull, e⟩
    · rw [e]
    · rw [e]
      have a : U64 - 1 > maxBlocks := by omega
      have b : toH - fromH + 1 > maxBlocks := by omega
      rw [if_pos a, if_pos b]

/-- an accepted SnapshotRequest asks for between 1 and `max_snapshot_chunk_size` bytes -/
theorem accepted_snapshot_request_is_within_limit (maxChunk chunk : Nat)
    (h : validateSnapshotRequest maxChunk chunk = .ok) : 0 < chunk ∧ chunk ≤ maxChunk := by
  unfold validateSnapshotRequest at h
  split at h
  · cases h
  · split at h
    · cases h
    · omega

/-- non-vacuity: a 1000-block range at the top of the height space is accepted, one more is not -/
example : validateBlockRequest 1000 (U64 - 1000) (U64 - 1) = .ok ∧
    validateBlockRequest 1000 (U64 - 1001) (U64 - 1) = .tooMany ∧
    validateBlockRequest 1000 0 (U64 - 1) = .tooMany := by decide

/-- WITNESS (not the code): with wrapping arithmetic the full range `0 ..= u64::MAX` has span 0 and is
    ACCEPTED whatever the limit, although it asks for 2^64 blocks; the code as it is refuses it. -/
theorem wrapping_span_accepts_full_range_witness :
    validateBlockRequestWrapping 1000 0 (U64 - 1) = .ok ∧
    validateBlockRequest 1000 0 (U64 - 1) = .tooMany ∧
    ¬ ((U64 - 1) - 0 + 1 ≤ 1000) := by decide

/-- the two agree everywhere else -/
theorem wrapping_span_differs_only_on_full_range (maxBlocks fromH toH : Nat)
    (ht : toH < U64) (hne : ¬ (fromH = 0 ∧ toH = U64 - 1)) :
    validateBlockRequestWrapping maxBlocks fromH toH = validateBlockRequest maxBlocks fromH toH := by
  unfold validateBlockRequestWrapping validateBlockRequest
  by_cases h1 : toH < fromH
  · rw [if_pos h1, if_pos h1]
  · rw [if_neg h1, if_neg h1]
    rcases span_cases fromH toH ht with ⟨hlt, e⟩ | ⟨hfull, _⟩
    · rw [e, Nat.mod_eq_of_lt hlt]
    · exfalso; apply hne; unfold U64 at *; omega

end Neumann.Codec
