import NeumannModel.Codec.VecFormat
import NeumannModel.Codec.Props
/-! Property theorems for `compress_vector` / `decompress_vector` (C20: lossless encodings decode to
    exactly the value that was encoded). -/
namespace Neumann.Codec
open Neumann.Codec.Props

/-- Whatever the two casts do — NaN payloads, infinities, `-0.0`, subnormals, values at or beyond
    2^64, any rounding of `u64 -> f32` — and whatever the field is called, a vector field of a
    compressed snapshot decodes to exactly the bit patterns that were encoded. `Elem`s are any
    elements consistent with ONE back-cast function (`back = ofU64 asU64`), the `as u64` cast lands
    in `u64`. -/
theorem vector_field_roundtrip (ofU64 : Nat → Nat) (delta named : Bool) (v : List Elem)
    (hback : ∀ e ∈ v, e.back = ofU64 e.asU64) (hu : ∀ e ∈ v, e.asU64 < U64) :
    decompressVector ofU64 (compressVector delta named v) = v.map (·.bits) := by
  unfold compressVector
  split
  · rename_i h
    simp only [Bool.and_eq_true, List.all_eq_true] at h
    have hex := h.2
    show List.map _ (decompressIds (compressIds _)) = _
    rw [decompress_compress_ids _ (by
      intro x hx
      obtain ⟨e, he, rfl⟩ := List.mem_map.mp hx
      exact hu e he)]
    rw [List.map_map]
    apply List.map_congr_left
    intro e he
    have h1 := hex e he
    unfold Elem.exact at h1
    have h2 : e.back = e.bits := by simpa using h1
    simp only [Function.comp]
    rw [← hback e he, h2]
  · rfl

/-- the same for the elements the real casts produce (`mkElem`): no hypothesis on the floats at all -/
theorem vector_field_roundtrip_any_casts (toU64 ofU64 : Nat → Nat) (whole gePrev : Nat → Bool)
    (delta named : Bool) (bits : List Nat) (hu : ∀ b, toU64 b < U64) :
    decompressVector ofU64 (compressVector delta named (bits.map (mkElem toU64 ofU64 whole gePrev))) = bits := by
  rw [vector_field_roundtrip ofU64 delta named _ ?_ ?_]
  · rw [List.map_map]
    conv => rhs; rw [← List.map_id bits]
    apply List.map_congr_left
    intro b _
    rfl
  · intro e he
    obtain ⟨b, _, rfl⟩ := List.mem_map.mp he
    rfl
  · intro e he
    obtain ⟨b, _, rfl⟩ := List.mem_map.mp he
    exact hu b

/-- the id-list arm is taken only for vectors every element of which survives the two casts -/
theorem id_list_arm_only_for_exact_vectors (delta named : Bool) (v : List Elem) (bytes : List Nat)
    (h : compressVector delta named v = .idList bytes) :
    delta = true ∧ looksLikeIdList named v = true ∧ (∀ e ∈ v, e.back = e.bits) ∧
      bytes = compressIds (v.map (·.asU64)) := by
  unfold compressVector at h
  split at h
  · rename_i hc
    simp only [Bool.and_eq_true, List.all_eq_true] at hc
    refine ⟨hc.1.1, hc.1.2, ?_, ?_⟩
    · intro e he
      have := hc.2 e he
      unfold Elem.exact at this
      simpa using this
    · cases h; rfl
  · cases h

/-- with delta encoding off, or for a vector that does not look like an id list, the field is stored raw -/
theorem raw_arm_when_not_id_like (delta named : Bool) (v : List Elem)
    (h : delta = false ∨ looksLikeIdList named v = false) :
    compressVector delta named v = .raw (v.map (·.bits)) := by
  unfold compressVector
  rcases h with h | h <;> simp [h]

/-- the back-cast table of the witnesses: 3 ↦ bits of 3.0, 4 ↦ bits of 4.0, everything else ↦ +0.0 -/
def demoOfU64 : Nat → Nat := fun id => if id = 3 then 1077936128 else if id = 4 then 1082130432 else 0

/-- non-vacuity: a three-element id-like vector takes the id-list arm and decodes exactly -/
example :
    let v : List Elem := [⟨0, 0, 0, true, true⟩, ⟨1077936128, 3, 1077936128, true, true⟩, ⟨1082130432, 4, 1082130432, true, true⟩]
    compressVector true false v = .idList (compressIds [0, 3, 4]) ∧
    decompressVector demoOfU64 (compressVector true false v) = [0, 1077936128, 1082130432] := by
  intro v
  have h : compressVector true false v = .idList (compressIds [0, 3, 4]) := by
    simp [v, compressVector, looksLikeIdList, Elem.exact]
  refine ⟨h, ?_⟩
  rw [h]
  show List.map _ (decompressIds (compressIds _)) = _
  rw [decompress_compress_ids _ (by decide)]
  decide

/-- WITNESS (not the code): choosing the id-list arm by "is a non-negative whole number" instead of
    by the bit-for-bit check loses the sign of `-0.0` (bits 0x80000000: `-0.0 >= 0.0`, `fract = 0`,
    `as u64 = 0`, `0 as f32 = +0.0`): `[-0.0, 3.0, 4.0]` decodes to `[+0.0, 3.0, 4.0]`, while the code
    as it is stores the vector raw and decodes it exactly. -/
theorem id_list_by_predicate_loses_negative_zero_witness :
    let v : List Elem := [⟨2147483648, 0, 0, true, true⟩, ⟨1077936128, 3, 1077936128, true, true⟩, ⟨1082130432, 4, 1082130432, true, true⟩]
    decompressVector demoOfU64 (compressVectorByPredicate true false v) = [0, 1077936128, 1082130432] ∧
    decompressVector demoOfU64 (compressVector true false v) = [2147483648, 1077936128, 1082130432] ∧
    compressVector true false v = .raw [2147483648, 1077936128, 1082130432] := by
  intro v
  have hp : compressVectorByPredicate true false v = .idList (compressIds [0, 3, 4]) := by
    simp [v, compressVectorByPredicate, looksLikeIdList]
  have hc : compressVector true false v = .raw [2147483648, 1077936128, 1082130432] := by
    simp [v, compressVector, looksLikeIdList, Elem.exact]
  refine ⟨?_, ?_, hc⟩
  · rw [hp]
    show List.map _ (decompressIds (compressIds _)) = _
    rw [decompress_compress_ids _ (by decide)]
    decide
  · rw [hc]; rfl

end Neumann.Codec
