import NeumannModel.Codec.Model
/-!
  tensor_chain/src/message_validation.rs — the numeric limits `CompositeValidator` enforces on DECODED
  request messages before the node acts on them (C20: a decoder given arbitrary bytes returns an error
  or a valid value without over-allocating beyond its declared limits). All fields are `u64`.
-/
namespace Neumann.Codec

inductive ReqVerdict where
  | ok | inverted | tooMany | zeroChunk | chunkTooLarge
  deriving Repr, DecidableEq

/-- `u64::saturating_sub` / `saturating_add` -/
def satSub (a b : Nat) : Nat := a - b
def satAdd (a b : Nat) : Nat := if a + b < U64 then a + b else U64 - 1

/-- `validate_block_request` after the node-id check: ordering, then the inclusive span (saturating) -/
def validateBlockRequest (maxBlocks fromH toH : Nat) : ReqVerdict :=
  if toH < fromH then .inverted
  else if satAdd (satSub toH fromH) 1 > maxBlocks then .tooMany
  else .ok

/-- NOT the code: the span computed with plain (wrapping, as in a release build) `u64` arithmetic -/
def validateBlockRequestWrapping (maxBlocks fromH toH : Nat) : ReqVerdict :=
  if toH < fromH then .inverted
  else if ((toH - fromH) + 1) % U64 > maxBlocks then .tooMany
  else .ok

/-- `validate_snapshot_request` after the node-id check -/
def validateSnapshotRequest (maxChunk chunk : Nat) : ReqVerdict :=
  if chunk = 0 then .zeroChunk
  else if chunk > maxChunk then .chunkTooLarge
  else .ok

end Neumann.Codec
