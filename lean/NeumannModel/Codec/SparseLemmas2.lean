import NeumannModel.Codec.SparseLemmas
/- More helper lemmas for the sparse-vector model (C20): from_parts, get, builder, validator. -/
namespace Neumann.Codec

/-! ## try_from_parts -/

theorem partsScan_some (dim : Nat) (l r : List (Nat × Nat)) (h : partsScan dim l = some r) :
    r = l.filter (fun pv => !isZero pv.2) ∧ ∀ pv ∈ l, pv.1 < dim := by
  induction l generalizing r with
  | nil => simp [partsScan] at h; subst h; simp
  | cons a t ih =>
    obtain ⟨p, v⟩ := a
    rw [partsScan] at h
    by_cases hp : p ≥ dim
    · rw [if_pos hp] at h; cases h
    · rw [if_neg hp] at h
      cases hr : partsScan dim t with
      | none => rw [hr] at h; cases h
      | some r' =>
        rw [hr] at h
        obtain ⟨h1, h2⟩ := ih r' hr
        have hb : ∀ pv ∈ (p, v) :: t, pv.1 < dim := by
          intro pv hpv
          rcases List.mem_cons.mp hpv with e | e
          · subst e; simp; omega
          · exact h2 pv e
        by_cases hz : isZero v = true
        · dsimp only at h
          rw [if_pos hz] at h
          simp only [Option.some.injEq] at h
          subst h
          exact ⟨by rw [List.filter_cons]; simp [hz, h1], hb⟩
        · dsimp only at h
          rw [if_neg hz] at h
          simp only [Option.some.injEq] at h
          subst h
          refine ⟨?_, hb⟩
          rw [List.filter_cons]
          simp only [hz, Bool.not_false, if_true, h1]

theorem partsScan_none (dim : Nat) (l : List (Nat × Nat)) :
    partsScan dim l = none ↔ ∃ pv ∈ l, dim ≤ pv.1 := by
  induction l with
  | nil => simp [partsScan]
  | cons a t ih =>
    obtain ⟨p, v⟩ := a
    rw [partsScan]
    by_cases hp : p ≥ dim
    · rw [if_pos hp]
      exact ⟨fun _ => ⟨(p, v), List.mem_cons_self, hp⟩, fun _ => rfl⟩
    · rw [if_neg hp]
      cases hr : partsScan dim t with
      | none =>
        simp only [true_iff]
        obtain ⟨pv, hpv, hle⟩ := ih.mp hr
        exact ⟨pv, List.mem_cons_of_mem _ hpv, hle⟩
      | some r' =>
        have hno : ¬ ∃ pv ∈ t, dim ≤ pv.1 := fun hex => by
          have := ih.mpr hex; rw [hr] at this; cases this
        constructor
        · intro h
          dsimp only at h
          by_cases hz : isZero v = true
          · rw [if_pos hz] at h; cases h
          · rw [if_neg hz] at h; cases h
        · rintro ⟨pv, hpv, hle⟩
          rcases List.mem_cons.mp hpv with e | e
          · subst e; exact absurd hle (by simpa using hp)
          · exact absurd ⟨pv, e, hle⟩ hno

/-! ## get -/

theorem findPos_lt (ps : List Nat) (i k : Nat) (h : findPos ps i = some k) :
    k < ps.length ∧ ps[k]? = some i := by
  induction ps generalizing k with
  | nil => simp [findPos] at h
  | cons p rest ih =>
    rw [findPos] at h
    by_cases hp : p = i
    · rw [if_pos hp] at h
      simp only [Option.some.injEq] at h
      subst h; subst hp; simp
    · rw [if_neg hp] at h
      cases hf : findPos rest i with
      | none => rw [hf] at h; simp at h
      | some k' =>
        rw [hf] at h
        simp only [Option.map_some, Option.some.injEq] at h
        subst h
        obtain ⟨h1, h2⟩ := ih k' hf
        exact ⟨by simp only [List.length_cons]; omega, by simpa using h2⟩

theorem findPos_none (ps : List Nat) (i : Nat) : findPos ps i = none ↔ i ∉ ps := by
  induction ps with
  | nil => simp [findPos]
  | cons p rest ih =>
    rw [findPos]
    by_cases hp : p = i
    · rw [if_pos hp]; subst hp; simp
    · rw [if_neg hp]
      simp only [Option.map_eq_none_iff, ih, List.mem_cons, not_or]
      exact ⟨fun h => ⟨fun e => hp e.symm, h⟩, fun h => h.2⟩

/-- `get` through the pair list: the first value recorded for `i`, or 0 -/
theorem svGet_lookup (ps vs : List Nat) (dim i : Nat) (hlen : ps.length = vs.length) :
    svGet ⟨dim, ps, vs⟩ i = some ((lookupW (ps.zip vs) i).getD 0) := by
  unfold svGet
  simp only
  induction ps generalizing vs with
  | nil => cases vs <;> simp [findPos, lookupW]
  | cons p rest ih =>
    cases vs with
    | nil => simp at hlen
    | cons v vrest =>
      simp only [List.length_cons, Nat.add_right_cancel_iff] at hlen
      rw [findPos, List.zip_cons_cons, lookupW]
      by_cases hp : p = i
      · rw [if_pos hp]; simp [hp]
      · rw [if_neg hp]
        simp only [hp, if_false]
        have := ih vrest hlen
        cases hf : findPos rest i with
        | none => rw [hf] at this; simpa using this
        | some k => rw [hf] at this; simpa using this

/-! ## builder -/

theorem builderPush_fold (pushes : List (Nat × Nat)) (acc : List (Nat × Nat)) :
    pushes.foldl (fun a pv => builderPush a pv.1 pv.2) acc =
      acc ++ pushes.filter (fun pv => !isZero pv.2) := by
  induction pushes generalizing acc with
  | nil => simp
  | cons a t ih =>
    rw [List.foldl_cons, ih, List.filter_cons]
    unfold builderPush
    by_cases hz : isZero a.2 = true
    · simp [hz]
    · simp [hz]

theorem applyWrites_dedupLast (l : List (Nat × Nat)) (base : List Nat) :
    applyWrites (dedupLast l) base = applyWrites l base := by
  induction l generalizing base with
  | nil => rfl
  | cons a t ih =>
    cases t with
    | nil => rfl
    | cons b rest =>
      rw [dedupLast]
      by_cases hab : a.1 = b.1
      · rw [if_pos hab, ih, applyWrites_cons, applyWrites_cons, applyWrites_cons, hab, List.set_set]
      · rw [if_neg hab, applyWrites_cons, ih, applyWrites_cons (a)]

theorem mem_dedupLast (l : List (Nat × Nat)) (y : Nat × Nat) (h : y ∈ dedupLast l) : y ∈ l := by
  induction l with
  | nil => simp [dedupLast] at h
  | cons a t ih =>
    cases t with
    | nil => exact h
    | cons b rest =>
      rw [dedupLast] at h
      by_cases hab : a.1 = b.1
      · rw [if_pos hab] at h; exact List.mem_cons_of_mem _ (ih h)
      · rw [if_neg hab] at h
        rcases List.mem_cons.mp h with e | e
        · subst e; exact List.mem_cons_self
        · exact List.mem_cons_of_mem _ (ih e)

theorem dedupLast_head (l : List (Nat × Nat)) :
    (dedupLast l).head?.map (·.1) = l.head?.map (·.1) := by
  induction l with
  | nil => rfl
  | cons a t ih =>
    cases t with
    | nil => rfl
    | cons b rest =>
      rw [dedupLast]
      by_cases hab : a.1 = b.1
      · rw [if_pos hab, ih]; simp [hab]
      · rw [if_neg hab]; rfl

theorem dedupLast_strict (l : List (Nat × Nat)) (h : (keys l).Pairwise (· ≤ ·)) :
    strictSorted (keys (dedupLast l)) = true := by
  induction l with
  | nil => rfl
  | cons a t ih =>
    cases t with
    | nil => rfl
    | cons b rest =>
      simp only [keys, List.map_cons, List.pairwise_cons] at h
      have hrest : (keys (b :: rest)).Pairwise (· ≤ ·) := by
        simp only [keys, List.map_cons, List.pairwise_cons]; exact h.2
      rw [dedupLast]
      by_cases hab : a.1 = b.1
      · rw [if_pos hab]; exact ih hrest
      · rw [if_neg hab]
        show strictSorted (a.1 :: keys (dedupLast (b :: rest))) = true
        rw [strictSorted_cons]
        refine ⟨?_, ih hrest⟩
        intro c hc
        have hh := dedupLast_head (b :: rest)
        simp only [List.head?_cons, Option.map_some] at hh
        have hc' : (keys (dedupLast (b :: rest))).head? = some b.1 := by
          unfold keys; rw [List.head?_map]; exact hh
        rw [hc'] at hc
        simp only [Option.mem_def, Option.some.injEq] at hc
        subst hc
        have := h.1 b.1 (List.mem_cons_self)
        omega

/-! ## validator -/

theorem positionsCheck_ok (dim : Nat) (ps : List Nat) :
    ∀ (prev : Option Nat), positionsCheck dim prev ps = .ok ↔
      (∀ p ∈ ps, p < dim) ∧ strictSorted (prev.toList ++ ps) = true := by
  induction ps with
  | nil =>
    intro prev
    cases prev <;> simp [positionsCheck, strictSorted]
  | cons p rest ih =>
    intro prev
    rw [positionsCheck.eq_def]
    simp only
    by_cases hp : p ≥ dim
    · rw [if_pos hp]
      constructor
      · intro h; cases h
      · intro h; have := h.1 p List.mem_cons_self; omega
    · rw [if_neg hp]
      have hpd : p < dim := by omega
      cases prev with
      | none =>
        simp only [Option.toList_none, List.nil_append]
        rw [ih (some p)]
        simp only [Option.toList_some, List.singleton_append, List.mem_cons, forall_eq_or_imp]
        exact ⟨fun h => ⟨⟨hpd, h.1⟩, h.2⟩, fun h => ⟨h.1.2, h.2⟩⟩
      | some q =>
        simp only [Option.toList_some, List.singleton_append]
        by_cases hq : q ≥ p
        · rw [if_pos hq]
          constructor
          · intro h; cases h
          · intro h
            rw [strictSorted_cons] at h
            have := h.2.1 p (by simp)
            omega
        · rw [if_neg hq, ih (some p)]
          simp only [Option.toList_some, List.singleton_append, List.mem_cons, forall_eq_or_imp]
          rw [strictSorted_cons (a := q)]
          constructor
          · intro h
            exact ⟨⟨hpd, h.1⟩, by intro b hb; simp at hb; omega, h.2⟩
          · intro h
            exact ⟨h.1.2, h.2.2⟩

theorem valuesCheck_cases (vs : List Nat) :
    (valuesCheck vs = .ok ∧ ∀ v ∈ vs, isNaN v = false ∧ isInf v = false) ∨
    valuesCheck vs = .nan ∨ valuesCheck vs = .inf := by
  induction vs with
  | nil => left; simp [valuesCheck]
  | cons v rest ih =>
    rw [valuesCheck]
    by_cases h1 : isNaN v = true
    · rw [if_pos h1]; right; left; rfl
    · rw [if_neg h1]
      by_cases h2 : isInf v = true
      · rw [if_pos h2]; right; right; rfl
      · rw [if_neg h2]
        rcases ih with ⟨h, hall⟩ | h | h
        · left
          refine ⟨h, ?_⟩
          intro w hw
          rcases List.mem_cons.mp hw with e | e
          · subst e; exact ⟨by simpa using h1, by simpa using h2⟩
          · exact hall w e
        · right; left; exact h
        · right; right; exact h

theorem valuesCheck_ok_of_all (vs : List Nat)
    (hall : ∀ v ∈ vs, isNaN v = false ∧ isInf v = false) : valuesCheck vs = .ok := by
  induction vs with
  | nil => rfl
  | cons v rest ih =>
    rw [valuesCheck, if_neg (by simp [(hall v List.mem_cons_self).1]),
      if_neg (by simp [(hall v List.mem_cons_self).2])]
    exact ih (fun w hw => hall w (List.mem_cons_of_mem _ hw))

end Neumann.Codec
