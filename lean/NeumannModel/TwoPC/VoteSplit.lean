import NeumannModel.TwoPC.Model
/-
  C03 — `DistributedTxCoordinator::record_vote` as the code runs it: TWO critical sections on
  `pending` with an unlocked stretch between them.
    Phase 1 (under `pending.write()`): look the tx up, reject wrong phase / duplicate, record the vote;
            if all participants voted and some vote is not YES: phase := Aborting, (after the lock is
            dropped) queue the abort broadcast; if all voted YES: clone the tx (snapshot) and go on.
    Phase 2 (NO lock held): pairwise cosine test of the snapshot's deltas.
    Phase 3 (under `pending.write()` again; the code since f07ecb9a): 3a, a non-orthogonal overlapping
            pair: `match pending.get_mut(..) { Some(tx) if tx.phase == Preparing => tx.phase = Aborting,
            _ => return Ok(None) }`, then queue the abort broadcast; 3b, otherwise:
            `if let Some(tx) = pending.get_mut(..) { if tx.phase != Preparing { return Ok(None) };
            tx.phase = Prepared; return Some(Prepared) }`, `Ok(None)` when the tx has gone meanwhile.
            Only a transaction that is STILL `Preparing` changes phase.
    Before f07ecb9a (`recordVoteP3Old`) neither 3a nor 3b looked at the CURRENT phase, and 3a queued its
    abort broadcast unconditionally.
  `Coordinator.recordVote` (Model.lean) is the two sections back to back (`recordVote_eq_phases`);
  `cluster.rs` calls `record_vote` from its single message loop, so in-tree nothing runs in between, but
  the API is `&self`: `CSys` below is the coordinator shared by any number of threads, every call one
  event and `record_vote` two.
  Import-free, total, computable.
-/
namespace Neumann.TwoPC

inductive P1Result
  | done (c : Coordinator) (r : Option Phase)   -- `record_vote` returns after phase 1
  | check (c : Coordinator) (snap : DTx)        -- all voted YES: phases 2 and 3 follow on `snap`

/-- phase 1 of `record_vote` (first critical section + the abort queueing that follows it) -/
def Coordinator.recordVoteP1 (c : Coordinator) (tx sh : Nat) (v : Vote) : Except VoteErr P1Result :=
  match findTx c.pending tx with
  | none => .error .notFound
  | some t =>
    if t.phase != .preparing then .error (.wrongPhase t.phase)
    else if t.hasVote sh then .error .duplicate
    else
      let t1 : DTx := { t with votes := t.votes ++ [(sh, v)] }
      if t1.allVoted then
        if t1.allYes then
          .ok (.check { c with pending := setTx c.pending tx t1 } t1)
        else
          let reason := if t1.votes.any (fun e => e.2.isConflict) then AbortReason.conflict else .votedNo
          .ok (.done { c with pending := setTx c.pending tx { t1 with phase := .aborting },
                              pendingAborts := c.pendingAborts ++ [(tx, reason, t1.participants)] }
                     (some .aborting))
      else
        .ok (.done { c with pending := setTx c.pending tx t1 } none)

/-- `pending.get_mut(tx).phase = ph` when the entry exists -/
def setPhase (ps : List DTx) (tx : Nat) (ph : Phase) : List DTx :=
  ps.map (fun t => if t.id = tx then { t with phase := ph } else t)

/-- phases 2 + 3 of `record_vote` (the code as it is, f07ecb9a), run on the snapshot taken in phase 1
    against the CURRENT `pending`: a transaction that is gone or no longer `Preparing` is left alone
    (nothing queued, `Ok(None)`). -/
def Coordinator.recordVoteP3 (c : Coordinator) (tx : Nat) (snap : DTx) (nonOrth : Nat → Nat → Bool) :
    Coordinator × Option Phase :=
  if crossConflict nonOrth snap.votes then
    match findTx c.pending tx with
    | some t =>
      if t.phase == .preparing then
        ({ c with pending := setPhase c.pending tx .aborting,
                  pendingAborts := c.pendingAborts ++ [(tx, .crossShard, snap.participants)] }, some .aborting)
      else (c, none)
    | none => (c, none)
  else
    match findTx c.pending tx with
    | some t =>
      if t.phase != .preparing then (c, none)
      else ({ c with pending := setPhase c.pending tx .prepared }, some .prepared)
    | none => (c, none)

/-- phases 2 + 3 BEFORE f07ecb9a: no look at the current phase; 3a queues its abort unconditionally. -/
def Coordinator.recordVoteP3Old (c : Coordinator) (tx : Nat) (snap : DTx) (nonOrth : Nat → Nat → Bool) :
    Coordinator × Option Phase :=
  if crossConflict nonOrth snap.votes then
    ({ c with pending := setPhase c.pending tx .aborting,
              pendingAborts := c.pendingAborts ++ [(tx, .crossShard, snap.participants)] }, some .aborting)
  else
    match findTx c.pending tx with
    | some _ => ({ c with pending := setPhase c.pending tx .prepared }, some .prepared)
    | none => (c, none)

/-! ## the coordinator shared by several threads

  Every `&self` call of the coordinator is one atomic event (each runs under the `pending` write
  lock), except `record_vote`, which is the two events `voteP1` / `voteP3`.  `voteP3` carries ANY
  snapshot and ANY similarity outcome — a superset of what a thread that went through phase 1 can
  hold — and may run at any later point, any number of times, in any order with the other threads'
  events. -/

inductive CEv
  | begin (now : Nat) (participants : List Nat)
  | voteP1 (tx sh : Nat) (v : Vote)
  | voteP3 (tx : Nat) (snap : DTx) (nonOrth : Nat → Nat → Bool)
  | commit (tx : Nat)
  | abort (tx : Nat)
  | sweep (now : Nat)
  | drain                                    -- `take_pending_aborts` (the glue broadcasts them)

structure CSys where
  c : Coordinator
  commits : List Nat      -- ghost: transactions for which `commit()` returned Ok (commit decisions)
  aborts : List Nat       -- ghost: `abort()` returned Ok, or an abort broadcast was taken from the queue

/-- an abort decision exists for `tx`: `abort()` succeeded, or an abort broadcast was queued -/
def CSys.abortDecided (s : CSys) (tx : Nat) : Prop :=
  tx ∈ s.aborts ∨ tx ∈ s.c.pendingAborts.map (·.1)

instance (s : CSys) (tx : Nat) : Decidable (s.abortDecided tx) := by
  unfold CSys.abortDecided; exact inferInstance

def CSys.stepWith (p3 : Coordinator → Nat → DTx → (Nat → Nat → Bool) → Coordinator × Option Phase)
    (s : CSys) : CEv → CSys
  | .begin now ps =>
    match s.c.begin now ps with
    | .ok r => { s with c := r.1 }
    | .error _ => s
  | .voteP1 tx sh v =>
    match s.c.recordVoteP1 tx sh v with
    | .ok (.done c' _) => { s with c := c' }
    | .ok (.check c' _) => { s with c := c' }
    | .error _ => s
  | .voteP3 tx snap f => { s with c := (p3 s.c tx snap f).1 }
  | .commit tx =>
    match s.c.commit tx with
    | .ok c' => { s with c := c', commits := s.commits ++ [tx] }
    | .error _ => s
  | .abort tx =>
    match s.c.abort tx with
    | .ok c' => { s with c := c', aborts := s.aborts ++ [tx] }
    | .error _ => s
  | .sweep now => { s with c := (s.c.cleanupTimeouts now).1 }
  | .drain => { s with c := s.c.takePendingAborts.1, aborts := s.aborts ++ s.c.pendingAborts.map (·.1) }

/-- the code as it is -/
def CSys.step (s : CSys) (e : CEv) : CSys := s.stepWith Coordinator.recordVoteP3 e
/-- the code before f07ecb9a -/
def CSys.stepOld (s : CSys) (e : CEv) : CSys := s.stepWith Coordinator.recordVoteP3Old e

def CSys.init (maxConcurrent prepareTimeout : Nat) : CSys := ⟨⟨[], [], maxConcurrent, prepareTimeout, 0⟩, [], []⟩

inductive CReach (s0 : CSys) : CSys → Prop
  | refl : CReach s0 s0
  | step {s : CSys} (e : CEv) : CReach s0 s → CReach s0 (s.step e)

/-- Thread A's `record_vote(tx, shA, vA)` with thread B's whole `record_vote(tx, shB, vB)` between its
    two critical sections (the interleaving of the two-thread regression probe): A's phase 1, B (phases
    1–3 back to back, since nothing of A's runs in between them), A's phases 2 + 3 on A's snapshot.
    `none` when A's phase 1 does not end in a snapshot (then there is no window). -/
def Coordinator.recordVoteInterleaved (c : Coordinator) (tx shA : Nat) (vA : Vote) (shB : Nat) (vB : Vote)
    (f : Nat → Nat → Bool) :
    Option (Coordinator × Except VoteErr (Option Phase) × Option Phase) :=
  match c.recordVoteP1 tx shA vA with
  | .ok (.check c1 snap) =>
    match c1.recordVote tx shB vB f with
    | .ok (c2, rB) => let r := c2.recordVoteP3 tx snap f; some (r.1, .ok rB, r.2)
    | .error e => let r := c1.recordVoteP3 tx snap f; some (r.1, .error e, r.2)
  | _ => none

end Neumann.TwoPC
