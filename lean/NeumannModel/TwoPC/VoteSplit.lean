import NeumannModel.TwoPC.Model
/-
  C03 — `DistributedTxCoordinator::record_vote` as the code runs it: TWO critical sections on
  `pending` with an unlocked stretch between them.
    Phase 1 (under `pending.write()`): look the tx up, reject wrong phase / duplicate, record the vote;
            if all participants voted and some vote is not YES: phase := Aborting, (after the lock is
            dropped) queue the abort broadcast; if all voted YES: clone the tx (snapshot) and go on.
    Phase 2 (NO lock held): pairwise cosine test of the snapshot's deltas.
    Phase 3 (under `pending.write()` again): 3a, a non-orthogonal overlapping pair:
            `if let Some(tx) = pending.get_mut(..) { tx.phase = Aborting }`, then queue the abort
            broadcast unconditionally; 3b, otherwise:
            `if let Some(tx) = pending.get_mut(..) { tx.phase = Prepared; return Some(Prepared) }`,
            `Ok(None)` when the tx has gone meanwhile.  Neither 3a nor 3b looks at the CURRENT phase.
  `Coordinator.recordVote` (Model.lean) is the two sections back to back (`recordVote_eq_phases`);
  `cluster.rs` calls `record_vote` from its single message loop, so in-tree nothing runs in between.
  Import-free, total, computable.
-/
namespace Neumann.TwoPC

inductive P1Result
  | done (c : Coordinator) (r : Option Phase)   -- `record_vote` returns after phase 1
  | check (c : Coordinator) (snap : DTx)        -- all voted YES: phases 2 and 3 follow on `snap`

/-- phase 1 of `record_vote` (first critical section + the abort queueing that follows it) -/
def Coordinator.recordVoteP1 (c : Coordinator) (tx sh : Nat) (v : Vote) : Except VoteErr P1Result :=
  match findTx c.pending tx with
  | none => .error .notFound
  | some t =>
    if t.phase != .preparing then .error (.wrongPhase t.phase)
    else if t.hasVote sh then .error .duplicate
    else
      let t1 : DTx := { t with votes := t.votes ++ [(sh, v)] }
      if t1.allVoted then
        if t1.allYes then
          .ok (.check { c with pending := setTx c.pending tx t1 } t1)
        else
          let reason := if t1.votes.any (fun e => e.2.isConflict) then AbortReason.conflict else .votedNo
          .ok (.done { c with pending := setTx c.pending tx { t1 with phase := .aborting },
                              pendingAborts := c.pendingAborts ++ [(tx, reason, t1.participants)] }
                     (some .aborting))
      else
        .ok (.done { c with pending := setTx c.pending tx t1 } none)

/-- `pending.get_mut(tx).phase = ph` when the entry exists -/
def setPhase (ps : List DTx) (tx : Nat) (ph : Phase) : List DTx :=
  ps.map (fun t => if t.id = tx then { t with phase := ph } else t)

/-- phases 2 + 3 of `record_vote`, run on the snapshot taken in phase 1 against the CURRENT `pending` -/
def Coordinator.recordVoteP3 (c : Coordinator) (tx : Nat) (snap : DTx) (nonOrth : Nat → Nat → Bool) :
    Coordinator × Option Phase :=
  if crossConflict nonOrth snap.votes then
    ({ c with pending := setPhase c.pending tx .aborting,
              pendingAborts := c.pendingAborts ++ [(tx, .crossShard, snap.participants)] }, some .aborting)
  else
    match findTx c.pending tx with
    | some _ => ({ c with pending := setPhase c.pending tx .prepared }, some .prepared)
    | none => (c, none)

/-- VARIANT (not the code): phase 3 that re-checks, under the lock, that the tx is still `Preparing`
    (the proposed repair `proposed/C03-record-vote-phase3-recheck.diff`). -/
def Coordinator.recordVoteP3Recheck (c : Coordinator) (tx : Nat) (snap : DTx) (nonOrth : Nat → Nat → Bool) :
    Coordinator × Option Phase :=
  match findTx c.pending tx with
  | none => (c, none)
  | some t =>
    if t.phase != .preparing then (c, none)
    else if crossConflict nonOrth snap.votes then
      ({ c with pending := setPhase c.pending tx .aborting,
                pendingAborts := c.pendingAborts ++ [(tx, .crossShard, snap.participants)] }, some .aborting)
    else ({ c with pending := setPhase c.pending tx .prepared }, some .prepared)

end Neumann.TwoPC
