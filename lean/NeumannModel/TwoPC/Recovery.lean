import NeumannModel.TwoPC.Model
/-
  C03 — the coordinator's STATE-BASED CRASH-RECOVERY / RESOLUTION API of
  `tensor_chain/src/distributed_tx.rs` (`DistributedTxCoordinator::recover`, `complete_commit`,
  `complete_abort`, `get_pending_decisions`, `force_resolve`), which `Model.lean` leaves out, and the
  system step extended with it.  Import-free apart from `Model.lean`, total, computable; mirrors the
  code branch by branch — it models what the code does.

  Results about them are stated over the extended reachability relations `ReachR` / `ReachRS` /
  `ReachRF` below; `Restart.lean` adds checkpoint / restore cycles (`ReachK`), over which
  `PropsRestart.lean` states "the decision never changes" across coordinator restarts.  `force_resolve`
  (partition merges) and a timeout sweep / `abort()` over a `Committing` entry are outside property
  C03's quantifier.

  Not modelled: the coordinator-local lock manager (`release_by_handle_with_wait_cleanup` of the YES
  votes' handles, `cleanup_expired_with_wait_cleanup`) and the wait-for graph — that lock manager is
  only filled by the coordinator-local `handle_prepare`, it is empty throughout when real
  `TxParticipant`s do the locking; WAL-based recovery (`recover_from_wal`: `Wal.lean`), whose sixth counter
  `lock_releases_recovered` is always 0 in `recover`.
-/
namespace Neumann.TwoPC

/-! ## `DistributedTransaction` helpers used by the recovery code -/

/-- `matches!(v, PrepareVote::No { .. } | PrepareVote::Conflict { .. })` -/
def Vote.isNo : Vote → Bool
  | .no => true
  | .conflict _ => true
  | .yes _ _ => false

/-- `DistributedTransaction::any_no` -/
def DTx.anyNo (t : DTx) : Bool := t.votes.any (fun e => e.2.isNo)

/-- `RecoveryStats` as filled by `recover` (the WAL-only counter `lock_releases_recovered` stays 0). -/
structure RecoveryStats where
  pendingPrepare : Nat
  pendingCommit : Nat
  pendingAbort : Nat
  timedOut : Nat
  completed : Nat
  deriving DecidableEq, Repr

/-- which counter of `RecoveryStats` one pending transaction increments -/
inductive RecClass
  | pendingPrepare | pendingCommit | pendingAbort | timedOut | completed
  deriving DecidableEq, Repr

/-- one iteration of the `match tx.phase` loop of `recover`: the phase the entry is left in and the
    counter it increments.  (The last arm of `Prepared` — neither all YES nor any NO — is dead code:
    a vote is YES, NO or CONFLICT; it is modelled as written.) -/
def DTx.recoverArm (t : DTx) (now : Nat) : Phase × RecClass :=
  match t.phase with
  | .preparing =>
    if t.timedOut now then (.aborting, .timedOut) else (.preparing, .pendingPrepare)
  | .prepared =>
    if t.timedOut now then (.aborting, .timedOut)
    else if t.allYes then (.committing, .pendingCommit)
    else if t.anyNo then (.aborting, .pendingAbort)
    else (.prepared, .pendingPrepare)
  | .committing => (.committing, .pendingCommit)
  | .aborting => (.aborting, .pendingAbort)
  | .committed => (.committed, .completed)
  | .aborted => (.aborted, .completed)

def DTx.recoverPhase (t : DTx) (now : Nat) : Phase := (t.recoverArm now).1
def DTx.recoverClass (t : DTx) (now : Nat) : RecClass := (t.recoverArm now).2

/-- `tx.phase = …` inside `pending.iter_mut()` -/
def DTx.recovered (t : DTx) (now : Nat) : DTx := { t with phase := t.recoverPhase now }

/-- `Committed | Aborted` -/
def Phase.isFinal : Phase → Bool
  | .committed => true
  | .aborted => true
  | _ => false

/-- `DistributedTxCoordinator::recover`: every pending entry goes through `recoverArm`; the entries found
    `Committed` / `Aborted` are removed; nothing is queued in `pending_aborts`, no message is sent. -/
def Coordinator.recover (c : Coordinator) (now : Nat) : Coordinator × RecoveryStats :=
  let cls := c.pending.map (fun t => t.recoverClass now)
  ({ c with pending := (c.pending.map (fun t => t.recovered now)).filter (fun t => !t.phase.isFinal) },
   { pendingPrepare := cls.count .pendingPrepare,
     pendingCommit := cls.count .pendingCommit,
     pendingAbort := cls.count .pendingAbort,
     timedOut := cls.count .timedOut,
     completed := cls.count .completed })

/-- `complete_commit`: only from `Committing`; the entry goes Committed and is removed. -/
def Coordinator.completeCommit (c : Coordinator) (tx : Nat) : Except CoordErr Coordinator :=
  match findTx c.pending tx with
  | none => .error .notFound
  | some t =>
    if t.phase != .committing then .error .wrongPhase
    else .ok { c with pending := removeTx c.pending tx }

/-- `complete_abort`: only from `Aborting`; the entry goes Aborted and is removed. -/
def Coordinator.completeAbort (c : Coordinator) (tx : Nat) : Except CoordErr Coordinator :=
  match findTx c.pending tx with
  | none => .error .notFound
  | some t =>
    if t.phase != .aborting then .error .wrongPhase
    else .ok { c with pending := removeTx c.pending tx }

/-- `get_pending_decisions`: the entries in phase `Committing` or `Aborting` (the code returns them in
    `HashMap` order; here: in `pending` order — compare sorted). -/
def Coordinator.pendingDecisions (c : Coordinator) : List (Nat × Phase) :=
  (c.pending.filter (fun t => t.phase == .committing || t.phase == .aborting)).map
    (fun t => (t.id, t.phase))

/-- `force_resolve(tx, commit)`: `commit = true` succeeds when `all_yes()` — `votes.values().all(Yes)`,
    true of NO votes at all and of the YES votes of only SOME participants — or the phase is `Prepared`
    / `Committing`, and fails otherwise ("cannot be committed"); `commit = false` always succeeds.
    On success the entry is removed. -/
def Coordinator.forceResolve (c : Coordinator) (tx : Nat) (commit : Bool) : Except CoordErr Coordinator :=
  match findTx c.pending tx with
  | none => .error .notFound
  | some t =>
    if commit then
      if t.allYes || t.phase == .prepared || t.phase == .committing then
        .ok { c with pending := removeTx c.pending tx }
      else .error .wrongPhase
    else .ok { c with pending := removeTx c.pending tx }

/-! ## the system step extended with the recovery API -/

inductive EvR
  | base (e : Ev)
  /-- coordinator restart: `recover()`, then the glue re-sends every pending decision -/
  | coordRecover
  | completeCommit (tx : Nat)
  | completeAbort (tx : Nat)
  | forceResolve (tx : Nat) (commit : Bool)
  deriving Repr

/-- `pending.get(tx).participants` (what the glue addresses a re-sent decision to) -/
def Coordinator.participantsOf (c : Coordinator) (tx : Nat) : List Nat :=
  match findTx c.pending tx with
  | some t => t.participants
  | none => []

/-- the decision a `get_pending_decisions` entry stands for -/
def decisionOf : Nat × Phase → Option (Nat × Bool)
  | (tx, .committing) => some (tx, true)
  | (tx, .aborting) => some (tx, false)
  | _ => none

/-- the messages the glue re-sends for one `get_pending_decisions` entry -/
def Coordinator.resendMsgsOf (c : Coordinator) : Nat × Phase → List Msg
  | (tx, .committing) => (c.participantsOf tx).map (fun sh => Msg.commit tx sh)
  | (tx, .aborting) => (c.participantsOf tx).map (fun sh => Msg.abort tx sh)
  | _ => []

/-- all re-sent messages, in `pendingDecisions` order -/
def Coordinator.resendMsgs (c : Coordinator) : List Msg := c.pendingDecisions.flatMap c.resendMsgsOf

/-- all re-announced decisions, in `pendingDecisions` order -/
def Coordinator.resendDecisions (c : Coordinator) : List (Nat × Bool) := c.pendingDecisions.filterMap decisionOf

def Sys.stepX (s : Sys) : EvR → Sys
  | .base e => s.step e
  | .coordRecover =>
    let c := (s.coord.recover s.now).1
    { s with coord := c, msgs := s.msgs ++ c.resendMsgs, decided := s.decided ++ c.resendDecisions }
  | .completeCommit tx =>
    match s.coord.completeCommit tx with
    | .ok c => { s with coord := c }
    | .error _ => s
  | .completeAbort tx =>
    match s.coord.completeAbort tx with
    | .ok c => { s with coord := c }
    | .error _ => s
  | .forceResolve tx b =>
    match findTx s.coord.pending tx, s.coord.forceResolve tx b with
    | some t, .ok c =>
      { s with coord := c,
               msgs := s.msgs ++ t.participants.map (fun sh => if b then Msg.commit tx sh else Msg.abort tx sh),
               decided := s.decided ++ [(tx, b)] }
    | _, _ => s

def Sys.runX (s : Sys) (es : List EvR) : Sys := es.foldl Sys.stepX s

/-- C03's alphabet plus coordinator restart (`recover` + re-send) and `complete_commit` /
    `complete_abort` at any point; `force_resolve` is not in it. -/
def Sys.inAlphabetR (s : Sys) : EvR → Bool
  | .base e => s.inAlphabet e
  | .coordRecover => true
  | .completeCommit _ => true
  | .completeAbort _ => true
  | .forceResolve _ _ => false

/-- … plus `force_resolve`. -/
def Sys.inAlphabetRF (s : Sys) : EvR → Bool
  | .base e => s.inAlphabet e
  | _ => true

/-- "no abort path runs over a transaction in phase `Committing`": a timeout sweep does not find a
    timed-out `Committing` entry, and `abort()` is not called on a `Committing` entry.  (Both paths
    exist in the code: `cleanup_timeouts` and `abort` have no phase test.) -/
def Sys.sparesCommitting (s : Sys) : EvR → Bool
  | .base .sweep => s.coord.pending.all (fun t => !(t.phase == .committing && t.timedOut s.now))
  | .base (.coordAbort tx) => s.coord.pending.all (fun t => !(t.id == tx && t.phase == .committing))
  | _ => true

/-- states reachable through C03's alphabet extended with coordinator recovery -/
inductive ReachR (s0 : Sys) : Sys → Prop
  | refl : ReachR s0 s0
  | step {s : Sys} (e : EvR) : ReachR s0 s → s.inAlphabetR e = true → ReachR s0 (s.stepX e)

/-- … along runs in which no sweep / `abort()` hits a `Committing` transaction -/
inductive ReachRS (s0 : Sys) : Sys → Prop
  | refl : ReachRS s0 s0
  | step {s : Sys} (e : EvR) : ReachRS s0 s → s.inAlphabetR e = true → s.sparesCommitting e = true →
      ReachRS s0 (s.stepX e)

/-- … with `force_resolve` as well -/
inductive ReachRF (s0 : Sys) : Sys → Prop
  | refl : ReachRF s0 s0
  | step {s : Sys} (e : EvR) : ReachRF s0 s → s.inAlphabetRF e = true → ReachRF s0 (s.stepX e)

/-- `es` is a run of `ReachR`'s alphabet from `s` -/
def Sys.allInR (s : Sys) : List EvR → Bool
  | [] => true
  | e :: es => s.inAlphabetR e && (s.stepX e).allInR es

def Sys.allInRS (s : Sys) : List EvR → Bool
  | [] => true
  | e :: es => s.inAlphabetR e && s.sparesCommitting e && (s.stepX e).allInRS es

def Sys.allInRF (s : Sys) : List EvR → Bool
  | [] => true
  | e :: es => s.inAlphabetRF e && (s.stepX e).allInRF es

end Neumann.TwoPC
