import NeumannModel.TwoPC.Lemmas
import NeumannModel.TwoPC.Settle
/-
  C03 — helper lemmas for `PropsSettle.lean`: the invariant `Addressed` ("every abort decision is backed by an
  ABORT message to every participant the client named") and its preservation by every event of the alphabet.
-/
namespace Neumann.TwoPC

/-- the message pool is append-only: no event of either alphabet removes a message -/
theorem msgs_mono (s : Sys) (e : Ev) (m : Msg) (hx : m ∈ s.msgs) : m ∈ (s.step e).msgs := by
  cases e with
  | begin shards ops sim =>
    simp only [Sys.step, Sys.stepR]
    split
    · exact hx
    · exact List.mem_append.2 (Or.inl hx)
  | deliver i =>
    simp only [Sys.step, Sys.stepR]
    split
    · exact hx
    · rename_i m' _
      cases m' <;> simp only [Sys.deliverMsg]
      · split
        · exact hx
        · exact List.mem_append.2 (Or.inl hx)
      · split
        · exact hx
        · exact List.mem_append.2 (Or.inl hx)
      · split <;> exact hx
      · split <;> exact hx
  | sweep => exact List.mem_append.2 (Or.inl hx)
  | tick d => exact hx
  | forge tx sh v => exact List.mem_append.2 (Or.inl hx)
  | coordCommit tx =>
    simp only [Sys.step, Sys.stepR]
    split
    · exact List.mem_append.2 (Or.inl hx)
    · exact hx
    · exact hx
  | coordAbort tx =>
    simp only [Sys.step, Sys.stepR]
    split
    · exact List.mem_append.2 (Or.inl hx)
    · exact hx
    · exact hx
  | cleanupStale sh t =>
    simp only [Sys.step, Sys.stepR]; split <;> exact hx
  | recover sh t =>
    simp only [Sys.step, Sys.stepR]; split <;> exact hx

/-- every abort decision is addressed to every participant the client named for the transaction -/
def Addressed (s : Sys) : Prop :=
  ∀ tx, (tx, false) ∈ s.decided → ∀ sp ∈ s.specs, sp.id = tx → ∀ sh ∈ sp.shards, Msg.abort tx sh ∈ s.msgs

theorem Addressed.init (stores : List Store) (a b c : Nat) : Addressed (Sys.init stores a b c) := by
  intro tx hd
  simp [Sys.init] at hd

/-- a step that keeps the specs, keeps the pool's messages, and whose every NEW abort decision names a pending
    transaction all of whose participants are addressed in the new pool -/
theorem Addressed.of {s s' : Sys} (hi : InvA s) (ha : Addressed s)
    (hm : ∀ m, m ∈ s.msgs → m ∈ s'.msgs) (hs : s'.specs = s.specs)
    (hnew : ∀ tx, (tx, false) ∈ s'.decided → (tx, false) ∈ s.decided ∨
      ∃ t ∈ s.coord.pending, t.id = tx ∧ ∀ sh ∈ t.participants, Msg.abort tx sh ∈ s'.msgs) :
    Addressed s' := by
  intro tx hd sp hsp hid sh hsh
  rw [hs] at hsp
  rcases hnew tx hd with h | ⟨t, ht, htid, hall⟩
  · exact hm _ (ha tx h sp hsp hid sh hsh)
  · have hp := hi.specPart t ht sp hsp (by omega)
    rw [hp] at hsh
    exact hall sh hsh

theorem Addressed.begin {s : Sys} (hi : InvA s) (ha : Addressed s) (shards : List Nat)
    (ops : List (Nat × List Op)) (sim : List (Nat × Nat)) : Addressed (s.step (.begin shards ops sim)) := by
  simp only [Sys.step, Sys.stepR, Coordinator.begin]
  split
  · exact ha
  · rename_i c' id heq
    split at heq
    · cases heq
    · cases heq
      intro tx hd sp hsp hid sh hsh
      have hd' : (tx, false) ∈ s.decided := hd
      rcases List.mem_append.1 hsp with h1 | h1
      · exact List.mem_append.2 (Or.inl (ha tx hd' sp h1 hid sh hsh))
      · simp only [List.mem_singleton] at h1
        subst h1
        have := hi.decLt tx false hd'
        simp only at hid; omega

theorem Addressed.vote {s : Sys} (hi : InvA s) (ha : Addressed s) (tx sh : Nat) (v : Vote) :
    Addressed (s.deliverMsg (.vote tx sh v)).1 := by
  simp only [Sys.deliverMsg]
  split
  · exact ha
  · rename_i r heq
    obtain ⟨c', ph⟩ := r
    obtain ⟨t, t1, htm, htid, _, _, _, _, _, _, hcases⟩ := recordVote_ok heq
    have hpa0 := hi.paEmpty
    simp only [Sys.drain, Coordinator.takePendingAborts]
    refine Addressed.of hi ha (fun m h => List.mem_append.2 (Or.inl h)) rfl ?_
    intro tx' hd
    rcases List.mem_append.1 hd with h1 | h1
    · exact Or.inl h1
    · obtain ⟨a, ha', he⟩ := List.mem_map.1 h1
      cases he
      right
      rcases hcases with ⟨_, e⟩ | ⟨_, e, _, _⟩ | ⟨_, reason, e⟩
      · rw [e, hpa0] at ha'; cases ha'
      · rw [e, hpa0] at ha'; cases ha'
      · have ha'' := ha'
        rw [e, hpa0] at ha''
        simp only [List.nil_append, List.mem_singleton] at ha''
        refine ⟨t, htm, by rw [ha'']; exact htid, ?_⟩
        intro sh' hsh'
        refine List.mem_append.2 (Or.inr (mem_abortMsgs.2 ⟨a, ha', sh', ?_, rfl⟩))
        rw [ha'']; exact hsh'

theorem Addressed.sweep {s : Sys} (hi : InvA s) (ha : Addressed s) : Addressed (s.step .sweep) := by
  simp only [Sys.step, Sys.stepR, Sys.drain, Coordinator.takePendingAborts, Coordinator.cleanupTimeouts]
  rw [hi.paEmpty]
  simp only [List.nil_append]
  refine Addressed.of hi ha (fun m h => List.mem_append.2 (Or.inl h)) rfl ?_
  intro tx' hd
  rcases List.mem_append.1 hd with h1 | h1
  · exact Or.inl h1
  · simp only [List.map_map, List.mem_map, List.mem_filter, Function.comp] at h1
    obtain ⟨t0, ⟨ht0, hto⟩, he⟩ := h1
    cases he
    right
    refine ⟨t0, ht0, rfl, ?_⟩
    intro sh' hsh'
    exact List.mem_append.2 (Or.inr (mem_abortMsgs.2
      ⟨(t0.id, AbortReason.timeout, t0.participants),
       List.mem_map.2 ⟨t0, List.mem_filter.2 ⟨ht0, hto⟩, rfl⟩, sh', hsh', rfl⟩))

theorem Addressed.coordCommit {s : Sys} (hi : InvA s) (ha : Addressed s) (tx : Nat) :
    Addressed (s.step (.coordCommit tx)) := by
  simp only [Sys.step, Sys.stepR]
  split
  · refine Addressed.of hi ha (fun m h => List.mem_append.2 (Or.inl h)) rfl ?_
    intro tx' hd
    rcases List.mem_append.1 hd with h1 | h1
    · exact Or.inl h1
    · simp at h1
  · exact ha
  · exact ha

theorem Addressed.coordAbort {s : Sys} (hi : InvA s) (ha : Addressed s) (tx : Nat) :
    Addressed (s.step (.coordAbort tx)) := by
  simp only [Sys.step, Sys.stepR]
  split
  · rename_i t c' hft hc
    obtain ⟨htm, htid⟩ := findTx_some hft
    refine Addressed.of hi ha (fun m h => List.mem_append.2 (Or.inl h)) rfl ?_
    intro tx' hd
    rcases List.mem_append.1 hd with h1 | h1
    · exact Or.inl h1
    · simp only [List.mem_singleton, Prod.mk.injEq, and_true] at h1
      subst h1
      right
      refine ⟨t, htm, htid, ?_⟩
      intro sh' hsh'
      exact List.mem_append.2 (Or.inr (List.mem_map.2 ⟨sh', hsh', rfl⟩))
  · exact ha
  · exact ha

theorem Addressed.deliver {s : Sys} (hi : InvA s) (ha : Addressed s) (i : Nat) :
    Addressed (s.step (.deliver i)) := by
  simp only [Sys.step, Sys.stepR]
  split
  · exact ha
  · rename_i m hm
    cases m with
    | prepare tx sh ops =>
      simp only [Sys.deliverMsg]
      split
      · exact ha
      · exact Addressed.of hi ha (fun m h => List.mem_append.2 (Or.inl h)) rfl (fun _ h => Or.inl h)
    | vote tx sh v => exact Addressed.vote hi ha tx sh v
    | commit tx sh =>
      simp only [Sys.deliverMsg]
      split
      · exact ha
      · exact Addressed.of hi ha (fun m h => h) rfl (fun _ h => Or.inl h)
    | abort tx sh =>
      simp only [Sys.deliverMsg]
      split
      · exact ha
      · exact Addressed.of hi ha (fun m h => h) rfl (fun _ h => Or.inl h)

theorem Addressed.step {s : Sys} (hi : InvA s) (ha : Addressed s) (e : Ev) (hin : s.inAlphabet e = true) :
    Addressed (s.step e) := by
  cases e with
  | begin shards ops sim => exact Addressed.begin hi ha shards ops sim
  | deliver i => exact Addressed.deliver hi ha i
  | sweep => exact Addressed.sweep hi ha
  | tick d => exact Addressed.of hi ha (fun m h => h) rfl (fun _ h => Or.inl h)
  | coordCommit tx => exact Addressed.coordCommit hi ha tx
  | coordAbort tx => exact Addressed.coordAbort hi ha tx
  | forge tx sh v =>
    exact Addressed.of hi ha (fun m h => msgs_mono s (.forge tx sh v) m h) rfl (fun _ h => Or.inl h)
  | cleanupStale sh t => simp [Sys.inAlphabet] at hin
  | recover sh t => simp [Sys.inAlphabet] at hin

theorem Addressed.reach {s0 s : Sys} (hi0 : InvA s0) (ha0 : Addressed s0) (hr : Reach s0 s) : Addressed s := by
  induction hr with
  | refl => exact ha0
  | step e hr' hin ih => exact Addressed.step (InvA.reach hi0 hr') ih e hin

/-! ### `settle`: delivering the queued ABORTs -/

theorem findPrepared_none_iff {ps : List PreparedTx} {tx : Nat} :
    findPrepared ps tx = none ↔ ∀ p ∈ ps, p.tx ≠ tx := by
  induction ps with
  | nil => simp [findPrepared]
  | cons a r ih =>
    simp only [findPrepared]
    split
    · rename_i h; simp [h]
    · rename_i h; simp [ih, h]

/-- shard `sh` keeps no prepared record of `tx` -/
def NoPrep (s : Sys) (sh tx : Nat) : Prop :=
  ∀ p, s.parts[sh]? = some p → findPrepared p.prepared tx = none

theorem abort_noPrep (p : Participant) (tx tx' : Nat) (h : tx' = tx ∨ findPrepared p.prepared tx' = none) :
    findPrepared (p.abort tx).1.prepared tx' = none := by
  unfold Participant.abort
  split
  · rename_i hn
    rcases h with rfl | h
    · exact hn
    · exact h
  · simp only [removePrepared]
    rw [findPrepared_none_iff]
    intro q hq
    obtain ⟨hq1, hq2⟩ := List.mem_filter.1 hq
    rcases h with rfl | h
    · simpa using hq2
    · exact findPrepared_none_iff.1 h q hq1

/-- delivering an ABORT leaves the pool alone, never creates a prepared record, and removes the addressed one -/
theorem deliver_abort {s : Sys} {i tx sh : Nat} (hm : s.msgs[i]? = some (.abort tx sh)) :
    (s.step (.deliver i)).msgs = s.msgs ∧
    (∀ sh' tx', NoPrep s sh' tx' → NoPrep (s.step (.deliver i)) sh' tx') ∧
    NoPrep (s.step (.deliver i)) sh tx := by
  simp only [Sys.step, Sys.stepR, hm, Sys.deliverMsg]
  split
  · rename_i hn
    refine ⟨rfl, fun _ _ h => h, ?_⟩
    intro p hp
    rw [hn] at hp; cases hp
  · rename_i p hp
    refine ⟨rfl, ?_, ?_⟩
    · intro sh' tx' h q hq
      simp only [List.getElem?_set] at hq
      split at hq
      · rename_i heq
        subst heq
        split at hq
        · cases hq
          exact abort_noPrep p tx tx' (Or.inr (h p hp))
        · cases hq
      · exact h q hq
    · intro q hq
      simp only [List.getElem?_set, ↓reduceIte] at hq
      split at hq
      · cases hq
        exact abort_noPrep p tx tx (Or.inl rfl)
      · cases hq

theorem run_aborts (l : List Nat) : ∀ {s : Sys}, (∀ i ∈ l, ∃ tx sh, s.msgs[i]? = some (.abort tx sh)) →
    (s.run (l.map Ev.deliver)).msgs = s.msgs ∧
    (∀ sh tx, NoPrep s sh tx → NoPrep (s.run (l.map Ev.deliver)) sh tx) ∧
    (∀ i ∈ l, ∀ tx sh, s.msgs[i]? = some (.abort tx sh) → NoPrep (s.run (l.map Ev.deliver)) sh tx) := by
  induction l with
  | nil =>
    intro s _
    exact ⟨rfl, fun _ _ h => h, fun i hi => by cases hi⟩
  | cons i l ih =>
    intro s h
    obtain ⟨tx, sh, hm⟩ := h i (List.mem_cons_self ..)
    obtain ⟨e1, e2, e3⟩ := deliver_abort hm
    have h' : ∀ j ∈ l, ∃ tx sh, (s.step (.deliver i)).msgs[j]? = some (.abort tx sh) := by
      rw [e1]; exact fun j hj => h j (List.mem_cons_of_mem _ hj)
    obtain ⟨f1, f2, f3⟩ := ih h'
    simp only [List.map_cons, Sys.run, List.foldl_cons] at f1 f2 f3 ⊢
    refine ⟨f1.trans e1, fun sh' tx' hn => f2 _ _ (e2 _ _ hn), ?_⟩
    intro j hj tx' sh' hm'
    rcases List.mem_cons.1 hj with rfl | hj
    · rw [hm] at hm'; cases hm'
      exact f2 _ _ e3
    · exact f3 j hj tx' sh' (by rw [e1]; exact hm')

theorem settleIdx_abort (s : Sys) : ∀ i ∈ s.settleIdx, ∃ tx sh, s.msgs[i]? = some (.abort tx sh) := by
  intro i hi
  simp only [Sys.settleIdx, List.mem_filter] at hi
  obtain ⟨_, h2⟩ := hi
  cases hm : s.msgs[i]? with
  | none => rw [hm] at h2; cases h2
  | some m =>
    rw [hm] at h2
    cases m with
    | abort tx sh => exact ⟨tx, sh, rfl⟩
    | prepare _ _ _ => cases h2
    | vote _ _ _ => cases h2
    | commit _ _ => cases h2

/-- an ABORT of an abort-only transaction that is in the pool is delivered by `settle`: afterwards the addressed shard
    keeps no prepared record of the transaction -/
theorem settle_noPrep {s : Sys} {tx sh : Nat} (hao : s.abortOnly tx = true) (hmem : Msg.abort tx sh ∈ s.msgs) :
    NoPrep s.settle sh tx := by
  obtain ⟨i, hi⟩ := List.getElem?_of_mem hmem
  have hlt : i < s.msgs.length := by
    obtain ⟨h, _⟩ := List.getElem?_eq_some_iff.1 hi
    exact h
  have hin : i ∈ s.settleIdx := by
    simp only [Sys.settleIdx, List.mem_filter, List.mem_range]
    refine ⟨hlt, ?_⟩
    rw [hi]
    exact hao
  exact (run_aborts s.settleIdx (settleIdx_abort s)).2.2 i hin tx sh hi

end Neumann.TwoPC
