/-
  C03 — two-phase commit: model of `tensor_chain/src/distributed_tx.rs`
  (`DistributedTxCoordinator`: begin / record_vote / commit / abort / cleanup_timeouts /
  take_pending_aborts; `TxParticipant`: prepare / commit / abort / cleanup_stale / recover;
  the participant's `LockManager`: try_lock / release_by_handle / cleanup_expired) and of a
  system made of one coordinator, any number of participants (shards) and an append-only
  message pool.  Import-free, total, computable.  Mirrors the code branch by branch — it
  models what the code does, not what it should do.

  Conventions
  * tx ids, shard ids, keys, lock handles, times are `Nat` (the harness renames the real u64 tx
    ids / lock handles to dense integers in order of first appearance).
  * keys are the numbers of key STRINGS under a naming convention shared with the harness: the
    client-visible name `k<n>` is `n` (`n < 10000`), and the strings that `Transaction::storage_key`
    / `apply_operations` build from a name are `embK` = `"emb:" ++ name`, `nodeK`, `tableK`, `rowK`,
    `edgeK` below.  A client key may itself be such a string (`Put { key: "emb:k1" }` is
    `Op.put (embK 1) v`): the key space is ONE flat string space, as in the code.
  * values (`Val`) are the `TensorData` shapes that `apply_operations` writes: which field carries
    the payload (`data` bytes, `vector`, `_label`, `values`, `values`+`row_id`, edge fields).
  * a shard store is an association list read through `sget` (first match wins); `sput` conses,
    `sdel` filters.  Two stores are "the same data" when `sget` agrees on every key.
  * the clock is explicit (`now`); `is_timed_out` = `now - started_at > timeout_ms`,
    `KeyLock::is_expired` = `now - acquired_at > timeout_ms`.
  * the cosine / orthogonality test of `record_vote` phase 2 is an input bit per pair of
    shards (`nonOrth`), supplied by the harness from the real `DeltaVector::cosine_similarity`;
    the key-overlap test that follows it in the code is modelled exactly.
  Not modelled: the coordinator-local `handle_prepare` lock manager (empty throughout when real
  `TxParticipant`s do the locking), WAL logging (here; `Wal.lean` adds the coordinator's log, C13 its failures), the branch of `TxParticipant::commit` taken
  when `apply_operations` fails (`TensorStore::put` never returns an error), abort-ack tracking (`track_abort`, `get_retry_aborts`: bookkeeping after the decision).
-/
namespace Neumann.TwoPC

/-! ## data -/

inductive Phase
  | preparing | prepared | committing | committed | aborting | aborted
  deriving DecidableEq, Repr

/-- `PrepareVote`: `Yes { lock_handle, delta }` (the delta's `affected_keys` are kept, its
    embedding is represented by the per-pair input bit), `No`, `Conflict { conflicting_tx }`. -/
inductive Vote
  | yes (h : Nat) (keys : List Nat)
  | no
  | conflict (other : Nat)
  deriving DecidableEq, Repr

def Vote.isYes : Vote → Bool
  | .yes _ _ => true
  | _ => false

def Vote.isConflict : Vote → Bool
  | .conflict _ => true
  | _ => false

/-- `TensorData` as written by `apply_operations`: which field carries the payload. -/
inductive Val
  | data (v : Nat)        -- `{ data: Bytes[v] }`                       (Put, CompareAndSwap, preloaded data)
  | vec (v : Nat)         -- `{ vector: [v] }`                          (Embed)
  | node (label : Nat)    -- `{ _id, _type: "node", _label }`           (NodeCreate)
  | edge                  -- `{ _from, _to, _type }` (all three are in the key) (EdgeCreate)
  | rows (v : Nat)        -- `{ values: Bytes[v] }`                     (TableInsert)
  | row (r v : Nat)       -- `{ values: Bytes[v], row_id: r }`          (TableUpdate)
  deriving DecidableEq, Repr

instance (n : Nat) : OfNat Val n := ⟨.data n⟩

/-- `block::Transaction` (all ten kinds). -/
inductive Op
  | put (k v : Nat)
  | del (k : Nat)
  | embed (k v : Nat)
  | nodeCreate (k label : Nat)
  | nodeDelete (k : Nat)
  | edgeCreate (src dst ty : Nat)
  | tableInsert (t v : Nat)
  | tableUpdate (t r v : Nat)
  | tableDelete (t r : Nat)
  | cas (k : Nat) (expected : Option Nat) (v : Nat)   -- `expected_data` = `[]` (none) or one byte
  deriving DecidableEq, Repr

/-! the strings built from a name (numbering shared with the harness) -/
def embK (k : Nat) : Nat := 10000 + k                       -- "emb:{key}"
def nodeK (k : Nat) : Nat := 20000 + k                      -- "node:{key}"
def tableK (t : Nat) : Nat := 30000 + t                     -- "table:{table}"
def rowK (t r : Nat) : Nat := 40000 + 100 * t + r           -- "table:{table}:row:{row_id}"
def edgeK (f t ty : Nat) : Nat := 50000 + 100 * f + 10 * t + ty  -- "edge:{from}:{to}:{edge_type}"

/-- `Transaction::affected_key` — the LOGICAL key: what the YES vote's delta reports to the coordinator
    (and, before 3e4ef1c8, the only key `TxParticipant::prepare` locked). -/
def Op.key : Op → Nat
  | .put k _ | .del k | .embed k _ | .nodeCreate k _ | .nodeDelete k | .cas k _ _ => k
  | .edgeCreate f _ _ => f
  | .tableInsert t _ | .tableUpdate t _ _ | .tableDelete t _ => t

/-- `Transaction::storage_key` — `TxParticipant::prepare` captures the undo image of THIS key. -/
def Op.undoKey : Op → Nat
  | .put k _ | .del k | .cas k _ _ => k
  | .embed k _ => embK k
  | .nodeCreate k _ | .nodeDelete k => nodeK k
  | .edgeCreate f t ty => edgeK f t ty
  | .tableInsert t _ | .tableUpdate t _ _ | .tableDelete t _ => tableK t

/-- `Transaction::write_key` — the key `apply_operations` writes or deletes (differs from `storage_key`
    for the two row kinds). -/
def Op.writeKey : Op → Nat
  | .tableUpdate t r _ | .tableDelete t r => rowK t r
  | op => op.undoKey

/-- `if !lock_keys.contains(&key) { lock_keys.push(key) }` over a list of candidate keys -/
def pushNew : List Nat → List Nat → List Nat
  | acc, [] => acc
  | acc, k :: ks => pushNew (if acc.contains k then acc else acc ++ [k]) ks

/-- the LOCK SET of `TxParticipant::prepare` (since 3e4ef1c8): the logical keys in request order
    (duplicates kept, as in the code), then per operation its `storage_key()` and its `write_key()`,
    each pushed unless already in the list. -/
def lockKeys (ops : List Op) : List Nat :=
  pushNew (ops.map Op.key) (ops.flatMap (fun op => [op.undoKey, op.writeKey]))

/-- the lock set BEFORE 3e4ef1c8: the logical keys only -/
def lockKeysOld (ops : List Op) : List Nat := ops.map Op.key

/-! ## shard store -/

abbrev Store := List (Nat × Val)

def sget : Store → Nat → Option Val
  | [], _ => none
  | (a, b) :: s, k => if a = k then some b else sget s k

def sput (s : Store) (k : Nat) (v : Val) : Store := (k, v) :: s

def sdel (s : Store) (k : Nat) : Store := s.filter (fun e => e.1 != k)

/-- the bytes `CompareAndSwap` compares with `expected_data`: the `data` field of the current value,
    `[]` when the key is absent or its value has no `data` bytes -/
def dataOf : Option Val → Option Nat
  | some (.data d) => some d
  | _ => none

/-- what one arm of `apply_operations` does at the operation's `writeKey` -/
inductive Write
  | set (v : Val)
  | remove
  | skip
  deriving DecidableEq, Repr

/-- `apply_operations`, one arm per `Transaction` kind: puts overwrite, deletes are idempotent,
    `CompareAndSwap` writes only when the current `data` bytes equal `expected_data`. -/
def Op.write (s : Store) : Op → Write
  | .put _ v => .set (.data v)
  | .del _ => .remove
  | .embed _ v => .set (.vec v)
  | .nodeCreate _ l => .set (.node l)
  | .nodeDelete _ => .remove
  | .edgeCreate _ _ _ => .set .edge
  | .tableInsert _ v => .set (.rows v)
  | .tableUpdate _ r v => .set (.row r v)
  | .tableDelete _ _ => .remove
  | .cas k e v => if dataOf (sget s k) = e then .set (.data v) else .skip

def applyOp (s : Store) (op : Op) : Store :=
  match op.write s with
  | .set v => sput s op.writeKey v
  | .remove => sdel s op.writeKey
  | .skip => s

def applyOps (s : Store) (ops : List Op) : Store := ops.foldl applyOp s

/-- `UndoEntry`. -/
inductive Undo
  | restore (k : Nat) (v : Val)
  | delete (k : Nat)
  deriving DecidableEq, Repr

def Undo.key : Undo → Nat
  | .restore k _ => k
  | .delete k => k

/-- `UndoEntry::capture`. -/
def capture (s : Store) (k : Nat) : Undo :=
  match sget s k with
  | some v => .restore k v
  | none => .delete k

/-- `UndoEntry::apply`. -/
def applyUndo (s : Store) : Undo → Store
  | .restore k v => sput s k v
  | .delete k => sdel s k

/-- `for entry in undo_log.iter().rev() { entry.apply(store) }` — the last entry first. -/
def applyUndos (s : Store) (us : List Undo) : Store :=
  us.foldr (fun u acc => applyUndo acc u) s

/-! ## the participant's lock table (`LockManager`) -/

structure KeyLock where
  key : Nat
  tx : Nat
  handle : Nat
  acquiredAt : Nat
  timeout : Nat
  deriving DecidableEq, Repr

def KeyLock.expired (now : Nat) (l : KeyLock) : Bool := decide (now - l.acquiredAt > l.timeout)

structure LockTable where
  locks : List KeyLock            -- `locks: HashMap<String, KeyLock>` (one entry per key)
  txLocks : List (Nat × List Nat) -- `tx_locks: HashMap<u64, Vec<String>>`
  defaultTimeout : Nat
  deriving Repr

def findLock : List KeyLock → Nat → Option KeyLock
  | [], _ => none
  | l :: r, k => if l.key = k then some l else findLock r k

/-- first loop of `try_lock`: the first key (in request order) held by a live lock of another tx -/
def firstConflict (ls : List KeyLock) (now tx : Nat) : List Nat → Option Nat
  | [] => none
  | k :: ks =>
    match findLock ls k with
    | some l => if !l.expired now && l.tx != tx then some l.tx else firstConflict ls now tx ks
    | none => firstConflict ls now tx ks

/-- `locks.insert(key, lock)` -/
def insertLock (ls : List KeyLock) (l : KeyLock) : List KeyLock :=
  l :: ls.filter (fun x => x.key != l.key)

def insertLocks (ls : List KeyLock) (now tx handle timeout : Nat) : List Nat → List KeyLock
  | [] => ls
  | k :: ks => insertLocks (insertLock ls ⟨k, tx, handle, now, timeout⟩) now tx handle timeout ks

/-- `tx_locks.entry(tx).or_default().extend(keys)` -/
def txLocksExtend : List (Nat × List Nat) → Nat → List Nat → List (Nat × List Nat)
  | [], tx, keys => [(tx, keys)]
  | (t, ks) :: r, tx, keys =>
    if t = tx then (t, ks ++ keys) :: r else (t, ks) :: txLocksExtend r tx keys

/-- `LockManager::try_lock` with the handle that `next_lock_handle()` would return. -/
def LockTable.tryLock (t : LockTable) (now handle tx : Nat) (keys : List Nat) : Except Nat LockTable :=
  match firstConflict t.locks now tx keys with
  | some c => .error c
  | none =>
    .ok { t with locks := insertLocks t.locks now tx handle t.defaultTimeout keys,
                 txLocks := txLocksExtend t.txLocks tx keys }

/-- `tx_locks.get_mut(tx).retain(|k| k != key)` -/
def removeKeyFromTx (tl : List (Nat × List Nat)) (tx key : Nat) : List (Nat × List Nat) :=
  tl.map (fun e => if e.1 = tx then (e.1, e.2.filter (fun k => k != key)) else e)

/-- common body of `release_by_handle` / `cleanup_expired`: drop the selected entries and
    retain the other keys in the owners' `tx_locks` vectors (empty vectors stay). -/
def LockTable.releaseWhere (t : LockTable) (p : KeyLock → Bool) : LockTable :=
  { t with locks := t.locks.filter (fun l => !p l),
           txLocks := (t.locks.filter p).foldl (fun tl l => removeKeyFromTx tl l.tx l.key) t.txLocks }

def LockTable.releaseByHandle (t : LockTable) (h : Nat) : LockTable :=
  t.releaseWhere (fun l => l.handle == h)

def LockTable.cleanupExpired (t : LockTable) (now : Nat) : LockTable :=
  t.releaseWhere (fun l => l.expired now)

/-! ## participant (`TxParticipant`) -/

structure PreparedTx where
  tx : Nat
  handle : Nat
  ops : List Op
  preparedAt : Nat
  undo : List Undo
  deriving Repr

structure Participant where
  prepared : List PreparedTx   -- `prepared: HashMap<u64, PreparedTx>` (one entry per tx)
  locks : LockTable
  store : Store
  deriving Repr

def findPrepared : List PreparedTx → Nat → Option PreparedTx
  | [], _ => none
  | p :: r, tx => if p.tx = tx then some p else findPrepared r tx

def removePrepared (ps : List PreparedTx) (tx : Nat) : List PreparedTx :=
  ps.filter (fun p => p.tx != tx)

/-- `TxParticipant::prepare` over a given lock set: lock all of `lks` or answer `Conflict`; on success
    capture the undo image of every op's `storage_key` and (re)insert the prepared entry.  The YES
    vote's delta carries the LOGICAL keys. -/
def Participant.prepareWith (lks : List Nat) (p : Participant) (now handle tx : Nat) (ops : List Op) :
    Participant × Vote :=
  match p.locks.tryLock now handle tx lks with
  | .error c => (p, .conflict c)
  | .ok lt =>
    let undo := ops.map (fun op => capture p.store op.undoKey)
    ({ p with locks := lt,
              prepared := ⟨tx, handle, ops, now, undo⟩ :: removePrepared p.prepared tx },
     .yes handle (ops.map Op.key))

/-- `TxParticipant::prepare` (the code as it is, 3e4ef1c8): the lock set is `lockKeys ops` — logical
    keys, storage keys (undo images) and write keys. -/
def Participant.prepare (p : Participant) (now handle tx : Nat) (ops : List Op) : Participant × Vote :=
  p.prepareWith (lockKeys ops) now handle tx ops

/-- `TxParticipant::prepare` BEFORE 3e4ef1c8: only the logical keys (`affected_key`) are locked, while
    the undo images are those of the storage keys. -/
def Participant.prepareOld (p : Participant) (now handle tx : Nat) (ops : List Op) : Participant × Vote :=
  p.prepareWith (lockKeysOld ops) now handle tx ops

/-- `TxParticipant::commit`: apply the operations, then release by handle.  `false` = "transaction
    not found" (nothing applied). -/
def Participant.commit (p : Participant) (tx : Nat) : Participant × Bool :=
  match findPrepared p.prepared tx with
  | none => (p, false)
  | some pt =>
    ({ prepared := removePrepared p.prepared tx,
       locks := p.locks.releaseByHandle pt.handle,
       store := applyOps p.store pt.ops }, true)

/-- `TxParticipant::abort`: if prepared, apply the undo log in reverse and release; the response
    is always success, the flag says whether a prepared entry was discarded. -/
def Participant.abort (p : Participant) (tx : Nat) : Participant × Bool :=
  match findPrepared p.prepared tx with
  | none => (p, false)
  | some pt =>
    ({ prepared := removePrepared p.prepared tx,
       locks := p.locks.releaseByHandle pt.handle,
       store := applyUndos p.store pt.undo }, true)

/-- `TxParticipant::cleanup_stale(timeout)`: unilateral presumed abort of every prepared tx with
    `now - prepared_at >= timeout` (OUTSIDE C03's event alphabet). -/
def Participant.cleanupStale (p : Participant) (now timeout : Nat) : Participant × List Nat :=
  let stale := (p.prepared.filter (fun pt => decide (now - pt.preparedAt ≥ timeout))).map (·.tx)
  (stale.foldl (fun q tx => (q.abort tx).1) p, stale)

/-- `TxParticipant::recover(timeout)`: as `cleanup_stale` with a strict comparison, then
    `locks.cleanup_expired()` (OUTSIDE C03's event alphabet). -/
def Participant.recover (p : Participant) (now timeout : Nat) : Participant × List Nat :=
  let expired := (p.prepared.filter (fun pt => decide (now - pt.preparedAt > timeout))).map (·.tx)
  let q := expired.foldl (fun q tx => (q.abort tx).1) p
  ({ q with locks := q.locks.cleanupExpired now }, expired)

/-! ## coordinator (`DistributedTxCoordinator`) -/

/-- `DistributedTransaction` (operations / deltas are carried by the votes). -/
structure DTx where
  id : Nat
  participants : List Nat
  phase : Phase
  votes : List (Nat × Vote)   -- `votes: HashMap<ShardId, PrepareVote>`
  startedAt : Nat
  timeout : Nat
  deriving DecidableEq, Repr

def DTx.hasVote (t : DTx) (sh : Nat) : Bool := t.votes.any (fun e => e.1 == sh)
def DTx.allVoted (t : DTx) : Bool := t.participants.all (fun sh => t.hasVote sh)
def DTx.allYes (t : DTx) : Bool := t.votes.all (fun e => e.2.isYes)
def DTx.timedOut (t : DTx) (now : Nat) : Bool := decide (now - t.startedAt > t.timeout)

inductive AbortReason
  | conflict | votedNo | crossShard | timeout
  deriving DecidableEq, Repr

inductive VoteErr
  | notFound
  | wrongPhase (actual : Phase)
  | duplicate
  deriving DecidableEq, Repr

inductive CoordErr
  | tooMany | notFound | wrongPhase
  deriving DecidableEq, Repr

structure Coordinator where
  pending : List DTx                                   -- `pending: HashMap<u64, DistributedTransaction>`
  pendingAborts : List (Nat × AbortReason × List Nat)  -- `pending_aborts`
  maxConcurrent : Nat
  prepareTimeout : Nat
  nextTx : Nat                                         -- stands for `generate_tx_id()` (fresh ids)
  deriving DecidableEq, Repr

def findTx : List DTx → Nat → Option DTx
  | [], _ => none
  | t :: r, tx => if t.id = tx then some t else findTx r tx

def removeTx (ps : List DTx) (tx : Nat) : List DTx := ps.filter (fun t => t.id != tx)

/-- `pending.get_mut(tx)` followed by an assignment of the whole entry -/
def setTx (ps : List DTx) (tx : Nat) (t' : DTx) : List DTx :=
  ps.map (fun t => if t.id = tx then t' else t)

/-- `begin`: reject at `max_concurrent`, else insert a `Preparing` tx with the configured timeout. -/
def Coordinator.begin (c : Coordinator) (now : Nat) (participants : List Nat) :
    Except CoordErr (Coordinator × Nat) :=
  if c.pending.length ≥ c.maxConcurrent then .error .tooMany
  else
    let t : DTx := ⟨c.nextTx, participants, .preparing, [], now, c.prepareTimeout⟩
    .ok ({ c with pending := c.pending ++ [t], nextTx := c.nextTx + 1 }, c.nextTx)

def keysOverlap (a b : List Nat) : Bool := a.any (fun k => b.contains k)

/-- `record_vote` phase 2: some pair of YES deltas is non-orthogonal (input bit) and shares a key. -/
def crossConflict (nonOrth : Nat → Nat → Bool) : List (Nat × Vote) → Bool
  | [] => false
  | (si, .yes _ ki) :: r =>
    r.any (fun e => match e.2 with
      | .yes _ kj => nonOrth si e.1 && keysOverlap ki kj
      | _ => false) || crossConflict nonOrth r
  | _ :: r => crossConflict nonOrth r

/-- `record_vote`, executed by one thread (phases 1–3 back to back). -/
def Coordinator.recordVote (c : Coordinator) (tx sh : Nat) (v : Vote) (nonOrth : Nat → Nat → Bool) :
    Except VoteErr (Coordinator × Option Phase) :=
  match findTx c.pending tx with
  | none => .error .notFound
  | some t =>
    if t.phase != .preparing then .error (.wrongPhase t.phase)
    else if t.hasVote sh then .error .duplicate
    else
      let t1 : DTx := { t with votes := t.votes ++ [(sh, v)] }
      if t1.allVoted then
        if t1.allYes then
          if crossConflict nonOrth t1.votes then
            .ok ({ c with pending := setTx c.pending tx { t1 with phase := .aborting },
                          pendingAborts := c.pendingAborts ++ [(tx, .crossShard, t1.participants)] },
                 some .aborting)
          else
            .ok ({ c with pending := setTx c.pending tx { t1 with phase := .prepared } }, some .prepared)
        else
          let reason := if t1.votes.any (fun e => e.2.isConflict) then AbortReason.conflict else .votedNo
          .ok ({ c with pending := setTx c.pending tx { t1 with phase := .aborting },
                        pendingAborts := c.pendingAborts ++ [(tx, reason, t1.participants)] },
               some .aborting)
      else
        .ok ({ c with pending := setTx c.pending tx t1 }, none)

/-- `commit`: only from `Prepared`; the entry goes Committing → Committed and is removed. -/
def Coordinator.commit (c : Coordinator) (tx : Nat) : Except CoordErr Coordinator :=
  match findTx c.pending tx with
  | none => .error .notFound
  | some t =>
    if t.phase != .prepared then .error .wrongPhase
    else .ok { c with pending := removeTx c.pending tx }

/-- `abort`: from ANY phase of a pending tx; the entry goes Aborting → Aborted and is removed. -/
def Coordinator.abort (c : Coordinator) (tx : Nat) : Except CoordErr Coordinator :=
  match findTx c.pending tx with
  | none => .error .notFound
  | some _ => .ok { c with pending := removeTx c.pending tx }

/-- `cleanup_timeouts`: every timed-out pending tx (whatever its phase) is removed and an abort
    broadcast is queued for its participants. -/
def Coordinator.cleanupTimeouts (c : Coordinator) (now : Nat) : Coordinator × List Nat :=
  let out := c.pending.filter (fun t => t.timedOut now)
  ({ c with pending := c.pending.filter (fun t => !t.timedOut now),
            pendingAborts := c.pendingAborts ++ out.map (fun t => (t.id, AbortReason.timeout, t.participants)) },
   out.map (·.id))

/-- `take_pending_aborts` -/
def Coordinator.takePendingAborts (c : Coordinator) : Coordinator × List (Nat × AbortReason × List Nat) :=
  ({ c with pendingAborts := [] }, c.pendingAborts)

/-! ## system: coordinator + participants + monotone message pool -/

inductive Msg
  | prepare (tx sh : Nat) (ops : List Op)
  | vote (tx sh : Nat) (v : Vote)
  | commit (tx sh : Nat)
  | abort (tx sh : Nat)
  deriving DecidableEq, Repr

/-- what the client asked for: participants, per-shard operations, and the non-orthogonal pairs -/
structure TxSpec where
  id : Nat
  shards : List Nat
  ops : List (Nat × List Op)
  sim : List (Nat × Nat)
  deriving Repr

def TxSpec.opsFor (sp : TxSpec) (sh : Nat) : List Op :=
  match sp.ops.find? (fun e => e.1 == sh) with
  | some e => e.2
  | none => []

def findSpec : List TxSpec → Nat → Option TxSpec
  | [], _ => none
  | sp :: r, tx => if sp.id = tx then some sp else findSpec r tx

def nonOrthOf (specs : List TxSpec) (tx : Nat) (i j : Nat) : Bool :=
  match findSpec specs tx with
  | some sp => sp.sim.contains (i, j) || sp.sim.contains (j, i)
  | none => false

structure Sys where
  now : Nat
  coord : Coordinator
  parts : List Participant       -- index = shard id
  msgs : List Msg                -- append-only: delivering any element any number of times, in any
                                 -- order, or never = duplication / reordering / delay / loss
  specs : List TxSpec
  nextHandle : Nat               -- the process-global `LOCK_COUNTER`
  -- ghost history (what the harness reads off the real objects' return values)
  decided : List (Nat × Bool)    -- (tx, true) = commit decided, (tx, false) = abort decided
  applied : List (Nat × Nat)     -- (shard, tx): the participant applied the tx's writes
  discarded : List (Nat × Nat)   -- (shard, tx): the participant discarded a prepared (yes-voted) tx
  reasons : List (Nat × AbortReason) -- reason of every queued abort broadcast (observability only)
  appliedOps : List (Nat × Nat × List Op) -- (shard, tx, the operations applied), in application order
  cast : List (Nat × Nat × Bool)  -- (tx, shard, yes?): every answer a participant's `prepare` produced
  deriving Repr

inductive Ev
  | begin (shards : List Nat) (ops : List (Nat × List Op)) (sim : List (Nat × Nat))
  | deliver (i : Nat)
  | sweep
  | tick (d : Nat)
  | coordCommit (tx : Nat)
  | coordAbort (tx : Nat)
  /-- the network hands the coordinator a vote that no participant's `prepare` produced: a mis-tagged /
      mis-routed / forged prepare response (it joins the pool and is delivered like any message) -/
  | forge (tx sh : Nat) (v : Vote)
  -- outside C03's event alphabet:
  | cleanupStale (sh timeout : Nat)
  | recover (sh timeout : Nat)
  deriving Repr

inductive Res
  | none
  | tx (id : Nat)
  | cerr (e : CoordErr)
  | vote (v : Vote)
  | voted (p : Option Phase)
  | verr (e : VoteErr)
  | flag (b : Bool)
  | ids (l : List Nat)
  | nomsg
  | noshard
  deriving Repr

def abortMsgs (aborts : List (Nat × AbortReason × List Nat)) : List Msg :=
  aborts.flatMap (fun a => a.2.2.map (fun sh => Msg.abort a.1 sh))

/-- after every coordinator action the glue drains `pending_aborts` into the pool; each drained
    entry is an abort decision -/
def Sys.drain (s : Sys) (c : Coordinator) : Sys :=
  let r := c.takePendingAborts
  { s with coord := r.1, msgs := s.msgs ++ abortMsgs r.2,
           decided := s.decided ++ r.2.map (fun a => (a.1, false)),
           reasons := s.reasons ++ r.2.map (fun a => (a.1, a.2.1)) }

def Sys.deliverMsg (s : Sys) : Msg → Sys × Res
  | .prepare tx sh ops =>
    match s.parts[sh]? with
    | none => (s, .noshard)
    | some p =>
      let r := p.prepare s.now s.nextHandle tx ops
      ({ s with parts := s.parts.set sh r.1, msgs := s.msgs ++ [Msg.vote tx sh r.2],
                nextHandle := if r.2.isYes then s.nextHandle + 1 else s.nextHandle,
                cast := s.cast ++ [(tx, sh, r.2.isYes)] }, .vote r.2)
  | .vote tx sh v =>
    match s.coord.recordVote tx sh v (nonOrthOf s.specs tx) with
    | .error e => (s, .verr e)
    | .ok r => (s.drain r.1, .voted r.2)
  | .commit tx sh =>
    match s.parts[sh]? with
    | none => (s, .noshard)
    | some p =>
      let r := p.commit tx
      ({ s with parts := s.parts.set sh r.1,
                applied := if r.2 then s.applied ++ [(sh, tx)] else s.applied,
                appliedOps := match findPrepared p.prepared tx with
                  | some pt => s.appliedOps ++ [(sh, tx, pt.ops)]
                  | none => s.appliedOps }, .flag r.2)
  | .abort tx sh =>
    match s.parts[sh]? with
    | none => (s, .noshard)
    | some p =>
      let r := p.abort tx
      ({ s with parts := s.parts.set sh r.1,
                discarded := if r.2 then s.discarded ++ [(sh, tx)] else s.discarded }, .flag r.2)

def Sys.stepR (s : Sys) : Ev → Sys × Res
  | .begin shards ops sim =>
    match s.coord.begin s.now shards with
    | .error e => (s, .cerr e)
    | .ok r =>
      ({ s with coord := r.1,
                specs := s.specs ++ [⟨r.2, shards, ops, sim⟩],
                msgs := s.msgs ++ shards.map (fun sh => Msg.prepare r.2 sh
                          (TxSpec.opsFor ⟨r.2, shards, ops, sim⟩ sh)) }, .tx r.2)
  | .deliver i =>
    match s.msgs[i]? with
    | none => (s, .nomsg)
    | some m => s.deliverMsg m
  | .sweep =>
    let r := s.coord.cleanupTimeouts s.now
    (s.drain r.1, .ids r.2)
  | .tick d => ({ s with now := s.now + d }, .none)
  | .coordCommit tx =>
    match findTx s.coord.pending tx, s.coord.commit tx with
    | some t, .ok c =>
      ({ s with coord := c, msgs := s.msgs ++ t.participants.map (fun sh => Msg.commit tx sh),
                decided := s.decided ++ [(tx, true)] }, .none)
    | _, .error e => (s, .cerr e)
    | none, .ok _ => (s, .cerr .notFound)
  | .coordAbort tx =>
    match findTx s.coord.pending tx, s.coord.abort tx with
    | some t, .ok c =>
      ({ s with coord := c, msgs := s.msgs ++ t.participants.map (fun sh => Msg.abort tx sh),
                decided := s.decided ++ [(tx, false)] }, .none)
    | _, .error e => (s, .cerr e)
    | none, .ok _ => (s, .cerr .notFound)
  | .forge tx sh v => ({ s with msgs := s.msgs ++ [Msg.vote tx sh v] }, .none)
  | .cleanupStale sh timeout =>
    match s.parts[sh]? with
    | none => (s, .noshard)
    | some p =>
      let r := p.cleanupStale s.now timeout
      ({ s with parts := s.parts.set sh r.1, discarded := s.discarded ++ r.2.map (fun tx => (sh, tx)) }, .ids r.2)
  | .recover sh timeout =>
    match s.parts[sh]? with
    | none => (s, .noshard)
    | some p =>
      let r := p.recover s.now timeout
      ({ s with parts := s.parts.set sh r.1, discarded := s.discarded ++ r.2.map (fun tx => (sh, tx)) }, .ids r.2)

def Sys.step (s : Sys) (e : Ev) : Sys := (s.stepR e).1

def Sys.run (s : Sys) (es : List Ev) : Sys := es.foldl Sys.step s

/-- every operation a client ever asked for (all transactions, all shards) -/
def allOps (specs : List TxSpec) : List Op := specs.flatMap (fun sp => sp.ops.flatMap (·.2))

/-- The LOCK DISCIPLINE the code relied on BEFORE 3e4ef1c8: whenever one operation writes the storage
    key whose undo image another operation captures, the two are serialised by the same logical (lock)
    key.  It holds by construction for Put / Delete / CompareAndSwap workloads (`key = undoKey =
    writeKey`) and for the prefixed kinds as long as no client addresses a prefixed storage key
    (`"emb:x"`, `"table:t"`, `"table:t:row:r"`, …) directly while another transaction reaches it through
    `Embed`, `Table*`, ….  The old `prepare` locked `affected_key()` only and did NOT enforce it; since
    3e4ef1c8 the lock set contains the storage and write keys and no assumption on the workload is left. -/
def lockDiscipline (ops : List Op) : Bool :=
  ops.all (fun a => ops.all (fun b => a.writeKey != b.undoKey || a.key == b.key))

/-- Put / Delete / CompareAndSwap: the kinds whose logical key IS the storage key -/
def Op.isPlain : Op → Bool
  | .put _ _ | .del _ | .cas _ _ _ => true
  | _ => false

/-- the shard `sh` is one of the participants the client named for the (begun) transaction `tx` -/
def isParticipant (specs : List TxSpec) (tx sh : Nat) : Bool :=
  match findSpec specs tx with
  | some sp => sp.shards.contains sh
  | none => false

def knownTx (specs : List TxSpec) (tx : Nat) : Bool := (findSpec specs tx).isSome

/-- C03's event alphabet: message delivery in any order / multiplicity (loss = never delivered),
    coordinator timeout sweeps, coordinator commit / abort calls, new transactions over ANY operations
    of all ten kinds (no restriction on the workload: transactions that reach one storage key under
    different logical keys are kept apart by the participant's lock table), the passage of time as long
    as it does not EXPIRE a participant lock, and forged / mis-tagged votes of every kind EXCEPT a YES
    in the name of a real participant (NO and CONFLICT votes for any transaction and shard — also
    transactions not begun yet —, YES votes tagged with a shard that is not a participant of an existing
    transaction).  Participant-side unilateral `cleanup_stale` / `recover` and participant lock expiry
    are outside it. -/
def Sys.inAlphabet (s : Sys) : Ev → Bool
  | .forge tx sh v => !v.isYes || (knownTx s.specs tx && !isParticipant s.specs tx sh)
  | .tick d => s.parts.all (fun p => p.locks.locks.all (fun l => !l.expired (s.now + d)))
  | .cleanupStale _ _ => false
  | .recover _ _ => false
  | _ => true

def Sys.init (stores : List Store) (txTimeout maxConcurrent lockTimeout : Nat) : Sys :=
  { now := 0,
    coord := ⟨[], [], maxConcurrent, txTimeout, 0⟩,
    parts := stores.map (fun st => ⟨[], ⟨[], [], lockTimeout⟩, st⟩),
    msgs := [], specs := [], nextHandle := 0, decided := [], applied := [], discarded := [],
    reasons := [], appliedOps := [], cast := [] }

/-- states reachable through events of C03's alphabet -/
inductive Reach (s0 : Sys) : Sys → Prop
  | refl : Reach s0 s0
  | step {s : Sys} (e : Ev) : Reach s0 s → s.inAlphabet e = true → Reach s0 (s.step e)

/-- states reachable through the extended alphabet (adds lock expiry and `cleanup_stale`/`recover`) -/
inductive ReachExt (s0 : Sys) : Sys → Prop
  | refl : ReachExt s0 s0
  | step {s : Sys} (e : Ev) : ReachExt s0 s → ReachExt s0 (s.step e)

/-- the data a shard would hold if exactly the logged commit applications had been executed, in
    order, on `st` -/
def replay (st : Store) (sh : Nat) (log : List (Nat × Nat × List Op)) : Store :=
  log.foldl (fun acc e => if e.1 = sh then applyOps acc e.2.2 else acc) st

def Sys.storeOf (s : Sys) (sh : Nat) : Store :=
  match s.parts[sh]? with
  | some p => p.store
  | none => []

/-! ## late messages of finished transactions

  `tx_locks` keeps a transaction's entry (with an empty key vector) after `release_by_handle`
  (`removeKeyFromTx` above: the vector is filtered, the entry stays; only `release(tx_id)`, which the
  participant never calls, removes it).  On the code as it is that leftover is inert, because
  `try_lock` never reads `tx_locks` before deciding.  The VARIANT below is NOT the code: it is the
  "re-entrant prepare" shortcut that reads the leftover entry as "this transaction already holds its
  keys" and skips the key-conflict scan for it. -/

/-- `t` is finished on shard `sh`: the participant applied or discarded it earlier and keeps no
    prepared record of it. -/
def Sys.finishedOn (s : Sys) (sh t : Nat) : Bool :=
  (s.applied.contains (sh, t) || s.discarded.contains (sh, t)) &&
  match s.parts[sh]? with
  | some p => (findPrepared p.prepared t).isNone
  | none => true

/-- `tx_locks.contains_key(&tx_id)` -/
def txKnown (tl : List (Nat × List Nat)) (tx : Nat) : Bool := tl.any (fun e => e.1 == tx)

/-- the key scan without the `existing.tx_id != tx_id` exemption -/
def firstConflictAny (ls : List KeyLock) (now : Nat) : List Nat → Option Nat
  | [] => none
  | k :: ks =>
    match findLock ls k with
    | some l => if !l.expired now then some l.tx else firstConflictAny ls now ks
    | none => firstConflictAny ls now ks

/-- VARIANT (not the code): `try_lock` that skips the conflict scan for every transaction that has
    an entry in `tx_locks`, i.e. also for one whose locks were all released. -/
def LockTable.tryLockNoConflictCheckForKnownTx (t : LockTable) (now handle tx : Nat) (keys : List Nat) :
    Except Nat LockTable :=
  match (if txKnown t.txLocks tx then none else firstConflictAny t.locks now keys) with
  | some c => .error c
  | none =>
    .ok { t with locks := insertLocks t.locks now tx handle t.defaultTimeout keys,
                 txLocks := txLocksExtend t.txLocks tx keys }

/-- `TxParticipant::prepare` over the variant lock table. -/
def Participant.prepareNoConflictCheckForKnownTx (p : Participant) (now handle tx : Nat) (ops : List Op) :
    Participant × Vote :=
  match p.locks.tryLockNoConflictCheckForKnownTx now handle tx (lockKeys ops) with
  | .error c => (p, .conflict c)
  | .ok lt =>
    let undo := ops.map (fun op => capture p.store op.undoKey)
    ({ p with locks := lt,
              prepared := ⟨tx, handle, ops, now, undo⟩ :: removePrepared p.prepared tx },
     .yes handle (ops.map Op.key))

/-- one event of the system whose participants prepare through the variant; every other event is
    the unchanged `Sys.step`. -/
def Sys.stepNoConflictCheckForKnownTx (s : Sys) (e : Ev) : Sys :=
  match e with
  | .deliver i =>
    match s.msgs[i]? with
    | some (.prepare tx sh ops) =>
      match s.parts[sh]? with
      | none => s
      | some p =>
        let r := p.prepareNoConflictCheckForKnownTx s.now s.nextHandle tx ops
        { s with parts := s.parts.set sh r.1, msgs := s.msgs ++ [Msg.vote tx sh r.2],
                 nextHandle := if r.2.isYes then s.nextHandle + 1 else s.nextHandle }
    | _ => s.step e
  | _ => s.step e

def Sys.runNoConflictCheckForKnownTx (s : Sys) (es : List Ev) : Sys :=
  es.foldl Sys.stepNoConflictCheckForKnownTx s

/-! ## the participant before 3e4ef1c8 (for the witness of what was wrong) -/

/-- one event of the system whose participants prepare through `prepareOld` (logical keys only); every
    other event is the unchanged `Sys.step`. -/
def Sys.stepOld (s : Sys) (e : Ev) : Sys :=
  match e with
  | .deliver i =>
    match s.msgs[i]? with
    | some (.prepare tx sh ops) =>
      match s.parts[sh]? with
      | none => s
      | some p =>
        let r := p.prepareOld s.now s.nextHandle tx ops
        { s with parts := s.parts.set sh r.1, msgs := s.msgs ++ [Msg.vote tx sh r.2],
                 nextHandle := if r.2.isYes then s.nextHandle + 1 else s.nextHandle,
                 cast := s.cast ++ [(tx, sh, r.2.isYes)] }
    | _ => s.step e
  | _ => s.step e

def Sys.runOld (s : Sys) (es : List Ev) : Sys := es.foldl Sys.stepOld s

/-- the lock holder of a key (`LockManager::lock_holder` on a table without expired entries) -/
def Participant.holder (p : Participant) (k : Nat) : Option Nat := (findLock p.locks.locks k).map (·.tx)

end Neumann.TwoPC
