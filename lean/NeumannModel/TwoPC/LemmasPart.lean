import NeumannModel.TwoPC.Model
/-
  C03 — participant-side invariant `PInv` (undo images match the store, every prepared tx holds the
  locks of its keys under its own fresh handle, no live lock is expired) and its preservation by
  prepare / commit / abort; consequence: inside the property's alphabet an abort re-installs exactly
  what is already there.
-/
namespace Neumann.TwoPC

/-! ### store -/

theorem sget_sput (s : Store) (k : Nat) (v : Val) (k' : Nat) :
    sget (sput s k v) k' = if k = k' then some v else sget s k' := by
  simp [sput, sget]

theorem sget_sdel (s : Store) (k k' : Nat) :
    sget (sdel s k) k' = if k = k' then none else sget s k' := by
  induction s with
  | nil => simp [sdel, sget]
  | cons a r ih =>
    obtain ⟨a1, a2⟩ := a
    simp only [sdel] at ih ⊢
    by_cases h1 : a1 = k
    · subst h1
      simp only [List.filter, bne_self_eq_false]
      rw [ih]
      by_cases h2 : a1 = k'
      · simp [h2]
      · simp [h2, sget]
    · have : (a1 != k) = true := by simpa using h1
      simp only [List.filter, this, sget]
      rw [ih]
      by_cases h2 : k = k'
      · subst h2; simp [h1]
      · simp [h2]

def undoOk (s : Store) : Undo → Prop
  | .restore k v => sget s k = some v
  | .delete k => sget s k = none

theorem capture_ok (s : Store) (k : Nat) : undoOk s (capture s k) := by
  unfold capture
  split
  · rename_i v h; exact h
  · rename_i h; exact h

theorem capture_key (s : Store) (k : Nat) : (capture s k).key = k := by
  unfold capture
  split <;> rfl

theorem undoOk_of_sget_eq {s s' : Store} {u : Undo} (h : sget s' u.key = sget s u.key)
    (hu : undoOk s u) : undoOk s' u := by
  cases u with
  | restore k v => simp only [undoOk, Undo.key] at *; rw [h]; exact hu
  | delete k => simp only [undoOk, Undo.key] at *; rw [h]; exact hu

theorem applyUndo_ok {s : Store} {u : Undo} (h : undoOk s u) (k : Nat) :
    sget (applyUndo s u) k = sget s k := by
  cases u with
  | restore k0 v =>
    simp only [applyUndo, sget_sput]
    split
    · rename_i h1; subst h1; exact h.symm
    · rfl
  | delete k0 =>
    simp only [applyUndo, sget_sdel]
    split
    · rename_i h1; subst h1; exact h.symm
    · rfl

theorem applyUndos_ok {s : Store} {us : List Undo} (h : ∀ u ∈ us, undoOk s u) (k : Nat) :
    sget (applyUndos s us) k = sget s k := by
  induction us generalizing k with
  | nil => rfl
  | cons u r ih =>
    have ihr := ih (fun u hu => h u (List.mem_cons_of_mem _ hu))
    simp only [applyUndos, List.foldr] at ihr ⊢
    have hu : undoOk (List.foldr (fun u acc => applyUndo acc u) s r) u :=
      undoOk_of_sget_eq (ihr u.key) (h u (List.mem_cons_self ..))
    rw [applyUndo_ok hu, ihr]

theorem sget_applyOp {s : Store} {op : Op} {k : Nat} (h : op.writeKey ≠ k) :
    sget (applyOp s op) k = sget s k := by
  unfold applyOp
  split
  · rw [sget_sput]; simp [h]
  · rw [sget_sdel]; simp [h]
  · rfl

theorem sget_applyOps {s : Store} {ops : List Op} {k : Nat} (h : ∀ op ∈ ops, op.writeKey ≠ k) :
    sget (applyOps s ops) k = sget s k := by
  induction ops generalizing s with
  | nil => rfl
  | cons op r ih =>
    simp only [applyOps, List.foldl] at ih ⊢
    rw [ih (fun o ho => h o (List.mem_cons_of_mem _ ho)), sget_applyOp (h op (List.mem_cons_self ..))]

/-! ### lock table -/

theorem findLock_some {ls : List KeyLock} {k : Nat} {l : KeyLock} (h : findLock ls k = some l) :
    l ∈ ls ∧ l.key = k := by
  induction ls with
  | nil => simp [findLock] at h
  | cons a r ih =>
    simp only [findLock] at h
    split at h
    · cases h; exact ⟨List.mem_cons_self .., by assumption⟩
    · exact ⟨List.mem_cons_of_mem _ (ih h).1, (ih h).2⟩

theorem findLock_filter {ls : List KeyLock} {k : Nat} {l : KeyLock} {p : KeyLock → Bool}
    (h : findLock ls k = some l) (hp : p l = true) : findLock (ls.filter p) k = some l := by
  induction ls with
  | nil => simp [findLock] at h
  | cons a r ih =>
    simp only [findLock] at h
    split at h
    · rename_i hk
      cases h
      simp only [List.filter, hp, findLock, hk, if_true]
    · rename_i hk
      simp only [List.filter]
      split
      · simp only [findLock, hk, if_false]; exact ih h
      · exact ih h

theorem findLock_filter_ne (ls : List KeyLock) (k k0 : Nat) (h : k ≠ k0) :
    findLock (ls.filter (fun x => x.key != k0)) k = findLock ls k := by
  induction ls with
  | nil => rfl
  | cons a r ih =>
    simp only [List.filter]
    by_cases h1 : a.key = k0
    · have : (a.key != k0) = false := by simp [h1]
      simp only [this, findLock]
      have : a.key ≠ k := by omega
      simp only [this, if_false]; exact ih
    · have : (a.key != k0) = true := by simpa using h1
      simp only [this, findLock]
      split
      · rfl
      · exact ih

theorem findLock_insertLock (ls : List KeyLock) (l : KeyLock) (k : Nat) :
    findLock (insertLock ls l) k = if l.key = k then some l else findLock ls k := by
  simp only [insertLock, findLock]
  split
  · rfl
  · rename_i h; exact findLock_filter_ne ls k l.key (fun e => h e.symm)

theorem findLock_insertLocks (ls : List KeyLock) (now tx hd to : Nat) (keys : List Nat) (k : Nat) :
    findLock (insertLocks ls now tx hd to keys) k =
      if k ∈ keys then some ⟨k, tx, hd, now, to⟩ else findLock ls k := by
  induction keys generalizing ls with
  | nil => simp [insertLocks]
  | cons k0 ks ih =>
    simp only [insertLocks]
    rw [ih, findLock_insertLock]
    by_cases h1 : k ∈ ks
    · simp [h1]
    · by_cases h2 : k0 = k
      · subst h2; simp
      · have : ¬ k = k0 := fun e => h2 e.symm
        simp [h1, h2, this]

theorem mem_insertLocks {ls : List KeyLock} {now tx hd to : Nat} {keys : List Nat} {l : KeyLock}
    (h : l ∈ insertLocks ls now tx hd to keys) : l ∈ ls ∨ ∃ k ∈ keys, l = ⟨k, tx, hd, now, to⟩ := by
  induction keys generalizing ls with
  | nil => exact Or.inl h
  | cons k0 ks ih =>
    simp only [insertLocks] at h
    rcases ih h with h1 | ⟨k, hk, rfl⟩
    · simp only [insertLock, List.mem_cons, List.mem_filter] at h1
      rcases h1 with rfl | ⟨h1, _⟩
      · exact Or.inr ⟨k0, List.mem_cons_self .., rfl⟩
      · exact Or.inl h1
    · exact Or.inr ⟨k, List.mem_cons_of_mem _ hk, rfl⟩

theorem firstConflict_none {ls : List KeyLock} {now tx : Nat} {keys : List Nat}
    (h : firstConflict ls now tx keys = none) :
    ∀ k ∈ keys, ∀ l, findLock ls k = some l → l.expired now = true ∨ l.tx = tx := by
  induction keys with
  | nil => simp
  | cons k0 ks ih =>
    intro k hk l hl
    simp only [firstConflict] at h
    rcases List.mem_cons.1 hk with rfl | hk'
    · rw [hl] at h
      simp only at h
      split at h
      · cases h
      · rename_i hc
        simp only [Bool.and_eq_true, Bool.not_eq_true', bne_iff_ne, ne_eq, not_and, Decidable.not_not] at hc
        cases he : l.expired now
        · exact Or.inr (hc he)
        · exact Or.inl rfl
    · split at h
      · split at h
        · cases h
        · exact ih h k hk' l hl
      · exact ih h k hk' l hl

/-! ### the lock set of `prepare` -/

theorem mem_pushNew {acc ks : List Nat} {k : Nat} : k ∈ pushNew acc ks ↔ k ∈ acc ∨ k ∈ ks := by
  induction ks generalizing acc with
  | nil => simp [pushNew]
  | cons k0 r ih =>
    simp only [pushNew]
    rw [ih]
    cases hc : acc.contains k0 with
    | true =>
      have : k0 ∈ acc := by simpa using hc
      simp only [if_true, List.mem_cons]
      constructor
      · rintro (h | h)
        · exact Or.inl h
        · exact Or.inr (Or.inr h)
      · rintro (h | rfl | h)
        · exact Or.inl h
        · exact Or.inl this
        · exact Or.inr h
    | false =>
      simp only [Bool.false_eq_true, if_false, List.mem_append, List.mem_cons, List.not_mem_nil, or_false]
      constructor
      · rintro ((h | h) | h)
        · exact Or.inl h
        · exact Or.inr (Or.inl h)
        · exact Or.inr (Or.inr h)
      · rintro (h | h | h)
        · exact Or.inl (Or.inl h)
        · exact Or.inl (Or.inr h)
        · exact Or.inr h

/-- the lock set of `prepare` is exactly: the logical key, the storage key and the write key of
    every operation -/
theorem mem_lockKeys {ops : List Op} {k : Nat} :
    k ∈ lockKeys ops ↔ ∃ op ∈ ops, k = op.key ∨ k = op.undoKey ∨ k = op.writeKey := by
  simp only [lockKeys, mem_pushNew, List.mem_map, List.mem_flatMap, List.mem_cons, List.not_mem_nil,
    or_false]
  constructor
  · rintro (⟨op, hop, rfl⟩ | ⟨op, hop, h⟩)
    · exact ⟨op, hop, Or.inl rfl⟩
    · exact ⟨op, hop, Or.inr h⟩
  · rintro ⟨op, hop, h | h⟩
    · exact Or.inl ⟨op, hop, h.symm⟩
    · exact Or.inr ⟨op, hop, h⟩

theorem key_mem_lockKeys {ops : List Op} {op : Op} (h : op ∈ ops) : op.key ∈ lockKeys ops :=
  mem_lockKeys.2 ⟨op, h, Or.inl rfl⟩

theorem undoKey_mem_lockKeys {ops : List Op} {op : Op} (h : op ∈ ops) : op.undoKey ∈ lockKeys ops :=
  mem_lockKeys.2 ⟨op, h, Or.inr (Or.inl rfl)⟩

theorem writeKey_mem_lockKeys {ops : List Op} {op : Op} (h : op ∈ ops) : op.writeKey ∈ lockKeys ops :=
  mem_lockKeys.2 ⟨op, h, Or.inr (Or.inr rfl)⟩

/-! ### participant -/

theorem findPrepared_some {ps : List PreparedTx} {tx : Nat} {pt : PreparedTx}
    (h : findPrepared ps tx = some pt) : pt ∈ ps ∧ pt.tx = tx := by
  induction ps with
  | nil => simp [findPrepared] at h
  | cons a r ih =>
    simp only [findPrepared] at h
    split at h
    · cases h; exact ⟨List.mem_cons_self .., by assumption⟩
    · exact ⟨List.mem_cons_of_mem _ (ih h).1, (ih h).2⟩

theorem mem_removePrepared {ps : List PreparedTx} {tx : Nat} {pt : PreparedTx} :
    pt ∈ removePrepared ps tx ↔ pt ∈ ps ∧ pt.tx ≠ tx := by
  simp [removePrepared]

structure PInv (now nextHandle : Nat) (p : Participant) : Prop where
  undoMatch : ∀ pt ∈ p.prepared, ∀ u ∈ pt.undo, undoOk p.store u
  undoKeys : ∀ pt ∈ p.prepared, ∀ u ∈ pt.undo, ∃ op ∈ pt.ops, op.undoKey = u.key
  held : ∀ pt ∈ p.prepared, ∀ k ∈ lockKeys pt.ops,
      ∃ l, findLock p.locks.locks k = some l ∧ l.tx = pt.tx ∧ l.handle = pt.handle
  prepHandleLt : ∀ pt ∈ p.prepared, pt.handle < nextHandle
  handleDistinct : ∀ pt ∈ p.prepared, ∀ pt' ∈ p.prepared, pt.handle = pt'.handle → pt.tx = pt'.tx
  notExpired : ∀ l ∈ p.locks.locks, l.expired now = false

theorem PInv.mono {now nh nh' : Nat} {p : Participant} (h : PInv now nh p) (hle : nh ≤ nh') :
    PInv now nh' p :=
  ⟨h.undoMatch, h.undoKeys, h.held, fun pt hpt => Nat.lt_of_lt_of_le (h.prepHandleLt pt hpt) hle,
   h.handleDistinct, h.notExpired⟩

/-- the tail shared by `commit` and `abort`: drop the prepared entry, release its handle, and
    leave the store as it is on every key whose undo image another prepared transaction holds -/
theorem PInv.finish {now nh : Nat} {p : Participant} (h : PInv now nh p) {pt : PreparedTx}
    (hpt : pt ∈ p.prepared) (store' : Store)
    (hst : ∀ pt' ∈ p.prepared, pt'.tx ≠ pt.tx → ∀ u ∈ pt'.undo, sget store' u.key = sget p.store u.key) :
    PInv now nh { prepared := removePrepared p.prepared pt.tx,
                  locks := p.locks.releaseByHandle pt.handle, store := store' } := by
  constructor
  · intro pt' hpt' u hu
    obtain ⟨h1, h2⟩ := mem_removePrepared.1 hpt'
    exact undoOk_of_sget_eq (hst pt' h1 h2 u hu) (h.undoMatch pt' h1 u hu)
  · intro pt' hpt'; exact h.undoKeys pt' (mem_removePrepared.1 hpt').1
  · intro pt' hpt' k hk
    obtain ⟨h1, h2⟩ := mem_removePrepared.1 hpt'
    obtain ⟨l, hl, htx, hh⟩ := h.held pt' h1 k hk
    refine ⟨l, ?_, htx, hh⟩
    simp only [LockTable.releaseByHandle, LockTable.releaseWhere]
    apply findLock_filter hl
    have : l.handle ≠ pt.handle := by
      intro e
      exact h2 (h.handleDistinct pt' h1 pt hpt (hh.symm.trans e))
    simpa using this
  · intro pt' hpt'; exact h.prepHandleLt pt' (mem_removePrepared.1 hpt').1
  · intro a ha b hb
    exact h.handleDistinct a (mem_removePrepared.1 ha).1 b (mem_removePrepared.1 hb).1
  · intro l hl
    simp only [LockTable.releaseByHandle, LockTable.releaseWhere] at hl
    exact h.notExpired l (List.mem_filter.1 hl).1

/-- two records prepared on one participant that lock a common key belong to the same transaction -/
theorem PInv.disjoint {now nh : Nat} {p : Participant} (h : PInv now nh p) {pt pt' : PreparedTx}
    (hpt : pt ∈ p.prepared) (hpt' : pt' ∈ p.prepared) {k : Nat} (hk : k ∈ lockKeys pt.ops)
    (hk' : k ∈ lockKeys pt'.ops) : pt.tx = pt'.tx := by
  obtain ⟨l, hl, htx, _⟩ := h.held pt hpt k hk
  obtain ⟨l', hl', htx', _⟩ := h.held pt' hpt' k hk'
  rw [hl'] at hl
  cases hl
  exact htx.symm.trans htx'

/-- `commit` writes only keys that no OTHER prepared transaction holds an undo image of: the write key
    of the committing transaction and the storage key of the other one are both in their lock sets. -/
theorem PInv.commit {now nh : Nat} {p : Participant} (h : PInv now nh p) (tx : Nat) :
    PInv now nh (p.commit tx).1 := by
  unfold Participant.commit
  split
  · exact h
  · rename_i pt hf
    obtain ⟨hm, htx⟩ := findPrepared_some hf
    rw [← htx]
    refine h.finish hm _ ?_
    intro pt' h1 h2 u hu
    apply sget_applyOps
    intro op hop heq
    obtain ⟨op', hop', hk⟩ := h.undoKeys pt' h1 u hu
    apply h2
    apply h.disjoint h1 hm (undoKey_mem_lockKeys hop')
    rw [hk, ← heq]
    exact writeKey_mem_lockKeys hop

theorem PInv.abort {now nh : Nat} {p : Participant} (h : PInv now nh p) (tx : Nat) :
    PInv now nh (p.abort tx).1 ∧ ∀ k, sget (p.abort tx).1.store k = sget p.store k := by
  unfold Participant.abort
  split
  · exact ⟨h, fun _ => rfl⟩
  · rename_i pt hf
    obtain ⟨hm, htx⟩ := findPrepared_some hf
    have hs : ∀ k, sget (applyUndos p.store pt.undo) k = sget p.store k :=
      fun k => applyUndos_ok (h.undoMatch pt hm) k
    rw [← htx]
    exact ⟨h.finish hm _ (fun _ _ _ u _ => hs u.key), hs⟩

theorem prepare_store (p : Participant) (now nh tx : Nat) (ops : List Op) :
    (p.prepare now nh tx ops).1.store = p.store := by
  unfold Participant.prepare Participant.prepareWith
  dsimp only
  split <;> rfl

theorem prepare_eq (p : Participant) (now nh tx : Nat) (ops : List Op) :
    (∃ c, p.prepare now nh tx ops = (p, .conflict c)) ∨
    (∃ lt, p.locks.tryLock now nh tx (lockKeys ops) = .ok lt ∧
      p.prepare now nh tx ops =
        ({ p with locks := lt,
                  prepared := ⟨tx, nh, ops, now, ops.map (fun op => capture p.store op.undoKey)⟩ ::
                    removePrepared p.prepared tx }, .yes nh (ops.map Op.key))) := by
  unfold Participant.prepare Participant.prepareWith
  dsimp only
  cases hl : p.locks.tryLock now nh tx (lockKeys ops) with
  | error c => exact Or.inl ⟨c, rfl⟩
  | ok lt => exact Or.inr ⟨lt, rfl, rfl⟩

theorem PInv.prepare {now nh : Nat} {p : Participant} (h : PInv now nh p) (tx : Nat) (ops : List Op) :
    PInv now (if (p.prepare now nh tx ops).2.isYes then nh + 1 else nh) (p.prepare now nh tx ops).1 := by
  rcases prepare_eq p now nh tx ops with ⟨c, he⟩ | ⟨lt, hl, he⟩
  · rw [he]; simpa [Vote.isYes] using h
  · rw [he]
    simp only [Vote.isYes, if_true]
    unfold LockTable.tryLock at hl
    split at hl
    · cases hl
    · rename_i hfc
      cases hl
      have hnc := firstConflict_none hfc
      -- keys of other prepared txs are not among the newly locked keys
      have hother : ∀ pt' ∈ p.prepared, pt'.tx ≠ tx → ∀ k ∈ lockKeys pt'.ops, k ∉ lockKeys ops := by
        intro pt' hpt' hne k hk hin
        obtain ⟨l, hl, htx, _⟩ := h.held pt' hpt' k hk
        rcases hnc k hin l hl with he | he
        · rw [h.notExpired l (findLock_some hl).1] at he; cases he
        · exact hne (htx.symm.trans he)
      constructor
      · intro pt' hpt' u hu
        rcases List.mem_cons.1 hpt' with rfl | h1
        · simp only [List.mem_map] at hu
          obtain ⟨op, _, rfl⟩ := hu
          exact capture_ok p.store op.undoKey
        · exact h.undoMatch pt' (mem_removePrepared.1 h1).1 u hu
      · intro pt' hpt' u hu
        rcases List.mem_cons.1 hpt' with rfl | h1
        · simp only [List.mem_map] at hu
          obtain ⟨op, hop, rfl⟩ := hu
          exact ⟨op, hop, (capture_key _ _).symm⟩
        · exact h.undoKeys pt' (mem_removePrepared.1 h1).1 u hu
      · intro pt' hpt' k hk
        rcases List.mem_cons.1 hpt' with rfl | h1
        · refine ⟨⟨k, tx, nh, now, p.locks.defaultTimeout⟩, ?_, rfl, rfl⟩
          rw [findLock_insertLocks]
          have : k ∈ lockKeys ops := hk
          simp [this]
        · obtain ⟨h2, h3⟩ := mem_removePrepared.1 h1
          obtain ⟨l, hl, htx, hh⟩ := h.held pt' h2 k hk
          refine ⟨l, ?_, htx, hh⟩
          rw [findLock_insertLocks]
          simp only [hother pt' h2 h3 k hk, if_false]
          exact hl
      · intro pt' hpt'
        rcases List.mem_cons.1 hpt' with rfl | h1
        · exact Nat.lt_succ_self _
        · exact Nat.lt_succ_of_lt (h.prepHandleLt pt' (mem_removePrepared.1 h1).1)
      · intro a ha b hb hab
        rcases List.mem_cons.1 ha with rfl | h1 <;> rcases List.mem_cons.1 hb with rfl | h2
        · rfl
        · have := h.prepHandleLt b (mem_removePrepared.1 h2).1
          simp only at hab; omega
        · have := h.prepHandleLt a (mem_removePrepared.1 h1).1
          simp only at hab; omega
        · exact h.handleDistinct a (mem_removePrepared.1 h1).1 b (mem_removePrepared.1 h2).1 hab
      · intro l hl
        rcases mem_insertLocks hl with h1 | ⟨k, _, rfl⟩
        · exact h.notExpired l h1
        · simp [KeyLock.expired]

/-! ### the system -/

/-- `lockDiscipline` as a proposition -/
def Disc (U : List Op) : Prop := ∀ a ∈ U, ∀ b ∈ U, a.writeKey = b.undoKey → a.key = b.key

theorem lockDiscipline_iff (U : List Op) : lockDiscipline U = true ↔ Disc U := by
  simp only [lockDiscipline, List.all_eq_true, Bool.or_eq_true, bne_iff_ne, ne_eq, beq_iff_eq, Disc]
  constructor
  · intro h a ha b hb he
    rcases h a ha b hb with h1 | h1
    · exact absurd he h1
    · exact h1
  · intro h a ha b hb
    by_cases he : a.writeKey = b.undoKey
    · exact Or.inr (h a ha b hb he)
    · exact Or.inl he

theorem Disc.sub {U V : List Op} (h : Disc V) (hs : ∀ a ∈ U, a ∈ V) : Disc U :=
  fun a ha b hb => h a (hs a ha) b (hs b hb)

def SInv (s : Sys) : Prop := ∀ p ∈ s.parts, PInv s.now s.nextHandle p

theorem SInv.init (stores : List Store) (a b c : Nat) : SInv (Sys.init stores a b c) := by
  intro p hp
  simp only [Sys.init, List.mem_map] at hp
  obtain ⟨st, _, rfl⟩ := hp
  constructor <;> simp

theorem getElem?_set' {α : Type} (l : List α) (i j : Nat) (a : α) :
    (l.set i a)[j]? = if i = j ∧ j < l.length then some a else l[j]? := by
  induction l generalizing i j with
  | nil => simp
  | cons x r ih =>
    cases i with
    | zero =>
      cases j with
      | zero => simp
      | succ j => simp
    | succ i =>
      cases j with
      | zero => simp
      | succ j => simp [ih]

theorem sget_store_set {parts : List Participant} {sh : Nat} {p p' : Participant}
    (hp : parts[sh]? = some p) (hs : ∀ k, sget p'.store k = sget p.store k) (sh' k : Nat) :
    sget (match (parts.set sh p')[sh']? with | some q => q.store | none => []) k =
      sget (match parts[sh']? with | some q => q.store | none => []) k := by
  rw [getElem?_set']
  by_cases hc : sh = sh' ∧ sh' < parts.length
  · rw [if_pos hc]
    obtain ⟨rfl, _⟩ := hc
    rw [hp]; exact hs k
  · rw [if_neg hc]

theorem mem_set {α : Type} {l : List α} {i : Nat} {a b : α} (h : b ∈ l.set i a) : b ∈ l ∨ b = a := by
  induction l generalizing i with
  | nil => simp at h
  | cons x r ih =>
    cases i with
    | zero =>
      simp only [List.set, List.mem_cons] at h
      rcases h with h | h
      · exact Or.inr h
      · exact Or.inl (List.mem_cons_of_mem _ h)
    | succ i =>
      simp only [List.set, List.mem_cons] at h
      rcases h with h | h
      · exact Or.inl (by simp [h])
      · rcases ih h with h1 | h1
        · exact Or.inl (List.mem_cons_of_mem _ h1)
        · exact Or.inr h1

/-- what one event of the alphabet does to the participants: the invariant is kept, and every
    shard's data is unchanged unless the event delivers a commit message -/
theorem SInv.step {s : Sys} (h : SInv s) (e : Ev) (ha : s.inAlphabet e = true) :
    SInv (s.step e) ∧
    ((∀ i tx sh, e = .deliver i → s.msgs[i]? ≠ some (Msg.commit tx sh)) →
      ∀ sh k, sget ((s.step e).storeOf sh) k = sget (s.storeOf sh) k) := by
  cases e with
  | begin shards ops sim =>
    simp only [Sys.step, Sys.stepR]
    split
    · exact ⟨h, fun _ _ _ => rfl⟩
    · exact ⟨h, fun _ _ _ => rfl⟩
  | sweep => exact ⟨h, fun _ _ _ => rfl⟩
  | forge tx sh v => exact ⟨h, fun _ _ _ => rfl⟩
  | coordCommit tx =>
    simp only [Sys.step, Sys.stepR]
    split
    · exact ⟨h, fun _ _ _ => rfl⟩
    · exact ⟨h, fun _ _ _ => rfl⟩
    · exact ⟨h, fun _ _ _ => rfl⟩
  | coordAbort tx =>
    simp only [Sys.step, Sys.stepR]
    split
    · exact ⟨h, fun _ _ _ => rfl⟩
    · exact ⟨h, fun _ _ _ => rfl⟩
    · exact ⟨h, fun _ _ _ => rfl⟩
  | cleanupStale sh t => simp [Sys.inAlphabet] at ha
  | recover sh t => simp [Sys.inAlphabet] at ha
  | tick d =>
    refine ⟨?_, fun _ _ _ => rfl⟩
    intro p hp
    have hp' : p ∈ s.parts := hp
    have h0 := h p hp'
    simp only [Sys.inAlphabet, List.all_eq_true] at ha
    show PInv (s.now + d) s.nextHandle p
    refine ⟨h0.undoMatch, h0.undoKeys, h0.held, h0.prepHandleLt, h0.handleDistinct, ?_⟩
    intro l hl
    have := ha p hp' l hl
    simpa using this
  | deliver i =>
    simp only [Sys.step, Sys.stepR]
    split
    · exact ⟨h, fun _ _ _ => rfl⟩
    · rename_i m hm
      cases m with
      | vote tx sh v =>
        simp only [Sys.deliverMsg]
        split
        · exact ⟨h, fun _ _ _ => rfl⟩
        · exact ⟨h, fun _ _ _ => rfl⟩
      | prepare tx sh ops =>
        simp only [Sys.deliverMsg]
        split
        · exact ⟨h, fun _ _ _ => rfl⟩
        · rename_i p hp
          have hpm : p ∈ s.parts := List.mem_of_getElem? hp
          constructor
          · intro q hq
            rcases mem_set hq with h1 | rfl
            · refine (h q h1).mono ?_
              show s.nextHandle ≤ (if _ then _ else _)
              split
              · exact Nat.le_succ _
              · exact Nat.le_refl _
            · exact (h p hpm).prepare tx ops
          · intro _ sh' k
            simp only [Sys.storeOf]
            exact sget_store_set hp (fun k => by rw [prepare_store]) sh' k
      | commit tx sh =>
        simp only [Sys.deliverMsg]
        split
        · exact ⟨h, fun _ _ _ => rfl⟩
        · rename_i p hp
          have hpm : p ∈ s.parts := List.mem_of_getElem? hp
          constructor
          · intro q hq
            rcases mem_set hq with h1 | rfl
            · exact h q h1
            · exact (h p hpm).commit tx
          · intro hne
            exact absurd hm (hne i tx sh rfl)
      | abort tx sh =>
        simp only [Sys.deliverMsg]
        split
        · exact ⟨h, fun _ _ _ => rfl⟩
        · rename_i p hp
          have hpm : p ∈ s.parts := List.mem_of_getElem? hp
          constructor
          · intro q hq
            rcases mem_set hq with h1 | rfl
            · exact h q h1
            · exact ((h p hpm).abort tx).1
          · intro _ sh' k
            simp only [Sys.storeOf]
            exact sget_store_set hp ((h p hpm).abort tx).2 sh' k

theorem SInv.reach {s0 s : Sys} (h0 : SInv s0) (hr : Reach s0 s) : SInv s := by
  induction hr with
  | refl => exact h0
  | step e hr' ha ih => exact (ih.step e ha).1

/-- the participant invariant of the states reachable from an initial configuration -/
theorem sinv_of_reach {stores : List Store} {a b c : Nat} {s : Sys}
    (hr : Reach (Sys.init stores a b c) s) : SInv s :=
  (SInv.init stores a b c).reach hr

/-! ### shard data = replay of the applied commits -/

theorem write_congr {a b : Store} (h : ∀ k, sget a k = sget b k) (op : Op) : op.write a = op.write b := by
  cases op <;> simp only [Op.write, h]

theorem applyOp_congr {a b : Store} (h : ∀ k, sget a k = sget b k) (op : Op) :
    ∀ k, sget (applyOp a op) k = sget (applyOp b op) k := by
  intro k
  unfold applyOp
  rw [write_congr h op]
  split
  · simp only [sget_sput, h]
  · simp only [sget_sdel, h]
  · exact h k

theorem applyOps_congr {a b : Store} (h : ∀ k, sget a k = sget b k) (ops : List Op) :
    ∀ k, sget (applyOps a ops) k = sget (applyOps b ops) k := by
  induction ops generalizing a b with
  | nil => exact h
  | cons op r ih =>
    simp only [applyOps, List.foldl] at ih ⊢
    exact ih (applyOp_congr h op)

theorem replay_append (st : Store) (sh : Nat) (log : List (Nat × Nat × List Op)) (e : Nat × Nat × List Op) :
    replay st sh (log ++ [e]) = if e.1 = sh then applyOps (replay st sh log) e.2.2 else replay st sh log := by
  simp [replay, List.foldl_append]

def RInv (stores : List Store) (s : Sys) : Prop :=
  ∀ sh k, sget (s.storeOf sh) k = sget (replay (stores[sh]?.getD []) sh s.appliedOps) k

theorem RInv.init (stores : List Store) (a b c : Nat) : RInv stores (Sys.init stores a b c) := by
  intro sh k
  simp only [Sys.init, Sys.storeOf, replay, List.foldl, List.getElem?_map]
  cases stores[sh]? <;> rfl

/-- every logged application is also in `applied` -/
def AOInv (s : Sys) : Prop := ∀ sh tx ops, (sh, tx, ops) ∈ s.appliedOps → (sh, tx) ∈ s.applied

theorem commit_eq (p : Participant) (tx : Nat) :
    (findPrepared p.prepared tx = none ∧ p.commit tx = (p, false)) ∨
    (∃ pt, findPrepared p.prepared tx = some pt ∧ (p.commit tx).2 = true ∧
      (p.commit tx).1.store = applyOps p.store pt.ops) := by
  unfold Participant.commit
  cases h : findPrepared p.prepared tx with
  | none => exact Or.inl ⟨rfl, rfl⟩
  | some pt => exact Or.inr ⟨pt, rfl, rfl, rfl⟩

theorem RInv.step {stores : List Store} {s : Sys} (hS : SInv s) (hR : RInv stores s) (hA : AOInv s)
    (e : Ev) (ha : s.inAlphabet e = true) : RInv stores (s.step e) ∧ AOInv (s.step e) := by
  cases e with
  | begin shards ops sim =>
    simp only [Sys.step, Sys.stepR]
    split
    · exact ⟨hR, hA⟩
    · exact ⟨hR, hA⟩
  | sweep => exact ⟨hR, hA⟩
  | tick d => exact ⟨hR, hA⟩
  | forge tx sh v => exact ⟨hR, hA⟩
  | coordCommit tx =>
    simp only [Sys.step, Sys.stepR]
    split
    · exact ⟨hR, hA⟩
    · exact ⟨hR, hA⟩
    · exact ⟨hR, hA⟩
  | coordAbort tx =>
    simp only [Sys.step, Sys.stepR]
    split
    · exact ⟨hR, hA⟩
    · exact ⟨hR, hA⟩
    · exact ⟨hR, hA⟩
  | cleanupStale sh t => simp [Sys.inAlphabet] at ha
  | recover sh t => simp [Sys.inAlphabet] at ha
  | deliver i =>
    simp only [Sys.step, Sys.stepR]
    split
    · exact ⟨hR, hA⟩
    · rename_i m hm
      cases m with
      | vote tx sh v =>
        simp only [Sys.deliverMsg]
        split
        · exact ⟨hR, hA⟩
        · exact ⟨hR, hA⟩
      | prepare tx sh ops =>
        simp only [Sys.deliverMsg]
        split
        · exact ⟨hR, hA⟩
        · rename_i p hp
          refine ⟨?_, hA⟩
          intro sh' k
          have := hR sh' k
          simp only [Sys.storeOf] at this ⊢
          rw [← this]
          exact sget_store_set hp (fun k => by rw [prepare_store]) sh' k
      | abort tx sh =>
        simp only [Sys.deliverMsg]
        split
        · exact ⟨hR, hA⟩
        · rename_i p hp
          have hpm : p ∈ s.parts := List.mem_of_getElem? hp
          refine ⟨?_, hA⟩
          intro sh' k
          have := hR sh' k
          simp only [Sys.storeOf] at this ⊢
          rw [← this]
          exact sget_store_set hp ((hS p hpm).abort tx).2 sh' k
      | commit tx sh =>
        simp only [Sys.deliverMsg]
        split
        · exact ⟨hR, hA⟩
        · rename_i p hp
          rcases commit_eq p tx with ⟨hf, hc⟩ | ⟨pt, hf, hc2, hcs⟩
          · rw [hf, hc]
            refine ⟨?_, hA⟩
            intro sh' k
            have := hR sh' k
            simp only [Sys.storeOf] at this ⊢
            rw [← this]
            exact sget_store_set hp (fun _ => rfl) sh' k
          · rw [hf, hc2]
            constructor
            · intro sh' k
              simp only [Sys.storeOf]
              rw [replay_append, getElem?_set']
              by_cases hc : sh = sh'
              · subst hc
                have hlt : sh < s.parts.length := by
                  rcases Nat.lt_or_ge sh s.parts.length with h1 | h1
                  · exact h1
                  · rw [List.getElem?_eq_none h1] at hp; cases hp
                rw [if_pos ⟨rfl, hlt⟩, if_pos rfl]
                show sget (p.commit tx).1.store k = _
                rw [hcs]
                apply applyOps_congr
                intro k'
                have := hR sh k'
                simp only [Sys.storeOf, hp] at this
                exact this
              · rw [if_neg (fun h => hc h.1), if_neg hc]
                have := hR sh' k
                simp only [Sys.storeOf] at this
                exact this
            · intro sh' tx' ops' hx
              simp only [if_true]
              rcases List.mem_append.1 hx with h1 | h1
              · exact List.mem_append.2 (Or.inl (hA sh' tx' ops' h1))
              · simp only [List.mem_singleton, Prod.mk.injEq] at h1
                apply List.mem_append.2; right
                simp [h1.1, h1.2.1]

theorem RInv.reach {stores : List Store} {a b c : Nat} {s : Sys}
    (hr : Reach (Sys.init stores a b c) s) : RInv stores s ∧ AOInv s := by
  induction hr with
  | refl => exact ⟨RInv.init stores a b c, by intro _ _ _ h; simp [Sys.init] at h⟩
  | step e hr' ha ih =>
    exact RInv.step (sinv_of_reach hr') ih.1 ih.2 e ha

/-- `es` are events of the alphabet none of which delivers a commit message -/
def Sys.quiet (s : Sys) : List Ev → Bool
  | [] => true
  | e :: es =>
    s.inAlphabet e &&
    (match e with
     | .deliver i => (match s.msgs[i]? with | some (.commit _ _) => false | _ => true)
     | _ => true) &&
    (s.step e).quiet es

end Neumann.TwoPC
