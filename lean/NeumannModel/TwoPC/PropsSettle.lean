import NeumannModel.TwoPC.LemmasSettle
/-
  C03 — "an abort decision is TOLD to every participant": whoever prepared (locks taken, undo images captured) is
  addressed by an ABORT message, whether or not its vote ever reached the coordinator.
  ONLY the property theorems and their non-vacuity examples; helpers are in `LemmasSettle.lean`.
-/
namespace Neumann.TwoPC.Props
open Neumann.TwoPC

/-- For every schedule: once the abort of `tx` is decided (NO / CONFLICT vote, cross-shard conflict, timeout sweep,
    explicit `abort`), the pool holds an ABORT message for EVERY shard the client named for `tx`. -/
theorem abort_decision_addresses_every_participant (stores : List Store) (tt mc lt : Nat) {s : Sys}
    (hr : Reach (Sys.init stores tt mc lt) s) {tx : Nat} (hd : (tx, false) ∈ s.decided) :
    ∀ sp ∈ s.specs, sp.id = tx → ∀ sh ∈ sp.shards, Msg.abort tx sh ∈ s.msgs :=
  Addressed.reach (InvA.init stores tt mc lt) (Addressed.init stores tt mc lt) hr tx hd

/-- The timeout path: every transaction a sweep times out has, right after the sweep, an ABORT in the pool for every
    participant — whether or not that participant's vote has been recorded. -/
theorem timeout_abort_addresses_every_participant (stores : List Store) (tt mc lt : Nat) {s : Sys}
    (hr : Reach (Sys.init stores tt mc lt) s) :
    ∀ tx ∈ (s.coord.cleanupTimeouts s.now).2, ∀ sp ∈ s.specs, sp.id = tx →
      ∀ sh ∈ sp.shards, Msg.abort tx sh ∈ (s.step .sweep).msgs := by
  intro tx htx
  have hd : (tx, false) ∈ (s.step .sweep).decided := by
    simp only [Sys.step, Sys.stepR, Sys.drain, Coordinator.takePendingAborts, Coordinator.cleanupTimeouts] at htx ⊢
    obtain ⟨t, ht, rfl⟩ := List.mem_map.1 htx
    exact List.mem_append.2 (Or.inr (List.mem_map.2
      ⟨(t.id, AbortReason.timeout, t.participants), List.mem_append.2 (Or.inr (List.mem_map.2 ⟨t, ht, rfl⟩)), rfl⟩))
  exact abort_decision_addresses_every_participant stores tt mc lt (Reach.step .sweep hr rfl) hd

/-! ### demo: shard 1 prepared and voted YES, its vote is delayed, the coordinator times out -/

def settleInit : Sys := Sys.init [[(1, 5)], [(2, 6)]] 2 100 1000

def settleRun : List Ev :=
  [ .begin [0, 1] [(0, [.put 1 7]), (1, [.put 2 8])] [],   -- msgs 0 = PREPARE(T0) shard 0, 1 = shard 1
    .deliver 0,                                             -- shard 0 prepares: 2 = its YES vote
    .deliver 1,                                             -- shard 1 prepares: 3 = its YES vote (delayed)
    .deliver 2,                                             -- shard 0's vote is recorded
    .tick 3, .sweep ]                                       -- timeout abort: 4 = ABORT(T0) shard 0, 5 = shard 1

example : settleInit.allIn settleRun = true := by decide
example : Reach settleInit (settleInit.run settleRun) := reach_run .refl _ (by decide)

-- non-vacuity of theorem 1: the abort of T0 is decided, T0 has a spec naming shards 0 and 1 …
example : (0, false) ∈ (settleInit.run settleRun).decided := by decide
example : (settleInit.run settleRun).specs.map (fun sp => (sp.id, sp.shards)) = [(0, [0, 1])] := by decide
-- … and of theorem 2: the sweep (last event) times T0 out while shard 1's vote is NOT recorded
example : ((settleInit.run (settleRun.take 5)).coord.cleanupTimeouts (settleInit.run (settleRun.take 5)).now).2 = [0] := by
  decide
example : (settleInit.run (settleRun.take 5)).coord.pending.map (fun t => t.votes.map (·.1)) = [[0]] := by decide
-- both participants are addressed; both are prepared before the ABORTs arrive and neither is afterwards
example : (settleInit.run settleRun).abortAddressedToAll 0 = true := by decide
example : (settleInit.run settleRun).msgs.drop 4 = [Msg.abort 0 0, Msg.abort 0 1] := by decide
example : (settleInit.run settleRun).stuck = [(0, 0), (0, 1)] := by decide
example : (settleInit.run settleRun).stuck ≠ [] := by decide
example : (settleInit.run settleRun).settle.stuck = [] := by decide

/-- WITNESS for the VARIANT `cleanupTimeoutsAbortOnlyRecordedVoters` (NOT the code): the same run, with the timeout
    abort queued only for the shards whose YES vote is recorded.  T0's only decision is abort, but shard 1 — which
    prepared and voted YES, the vote still in flight — is not addressed; after every queued ABORT is delivered it is
    still prepared for T0 and still holds T0's lock on key 2, while the code as it is (examples above) leaves nothing
    stuck. -/
theorem timeout_abort_skips_prepared_participant_AbortOnlyRecordedVoters_witness :
    let s := settleInit.runAbortOnlyRecordedVoters settleRun
    s.abortOnly 0 = true ∧ s.abortAddressedToAll 0 = false ∧
    s.msgs.drop 4 = [Msg.abort 0 0] ∧
    s.settle.stuck = [(0, 1)] ∧
    s.settle.parts.map (fun p => p.holder 2) = [none, some 0] ∧
    (settleInit.run settleRun).settle.stuck = [] := by
  decide

/-- After `settle` (every queued ABORT of an abort-only transaction delivered — ordinary deliveries, any schedule
    before them) no participant the client named keeps a prepared record of a transaction whose only decision is
    abort. -/
theorem settle_leaves_no_prepared_record (stores : List Store) (tt mc lt : Nat) {s : Sys}
    (hr : Reach (Sys.init stores tt mc lt) s) :
    ∀ sp ∈ s.specs, s.abortOnly sp.id = true → ∀ sh ∈ sp.shards, ∀ p,
      s.settle.parts[sh]? = some p → findPrepared p.prepared sp.id = none := by
  intro sp hsp hao sh hsh
  have hd : (sp.id, false) ∈ s.decided := by
    simp only [Sys.abortOnly, Bool.and_eq_true] at hao
    exact List.contains_iff_mem.1 hao.1
  exact settle_noPrep hao (abort_decision_addresses_every_participant stores tt mc lt hr hd sp hsp rfl sh hsh)

-- non-vacuity: in the demo both shards hold a prepared record of T0 before `settle`
example : (settleInit.run settleRun).parts.map (fun p => (findPrepared p.prepared 0).isSome) = [true, true] := by
  decide
example : (settleInit.run settleRun).abortOnly 0 = true := by decide
example : (settleInit.run settleRun).settle.parts.map (fun p => (findPrepared p.prepared 0).isSome) = [false, false] := by
  decide

end Neumann.TwoPC.Props
