import NeumannModel.Common.Proto
import NeumannModel.TwoPC.Model
import NeumannModel.TwoPC.Recovery
import NeumannModel.TwoPC.Restart
import NeumannModel.TwoPC.Wal
import NeumannModel.TwoPC.VoteSplit
import NeumannModel.TwoPC.Settle
import NeumannModel.TwoPC.Ack
/-
  Line-protocol driver for the 2PC model (C03).  State = one `Sys`.
    init <nshards> <txTimeout> <maxConcurrent> <lockTimeout>
    preload <sh> <k> <v>
    begin <shards csv> <ops: per-shard segments '/'; ops '+'; see `parseOp` | -> <sim: i.j,i.j | ->
      ops: p<k>=<v> Put | d<k> Delete | e<k>=<v> Embed | n<k>=<l> NodeCreate | N<k> NodeDelete |
           g<f>.<t>.<ty> EdgeCreate | i<t>=<v> TableInsert | u<t>.<r>=<v> TableUpdate | U<t>.<r> TableDelete |
           c<k>?<e|_>=<v> CompareAndSwap (expected byte e, or _ for the empty expectation)
    deliver <i> | sweep | tick <d> | ccommit <tx> | cabort <tx>
    forge <tx> <sh> <y<h>:<k.k>|n|c<tx>>                   (a vote no participant produced joins the pool)
    stale <sh> <timeout> | recover <sh> <timeout>          (outside the property's alphabet)
    cvote <tx> <sh> <y<h>:<k.k>|n|c<tx>> [sim]             (coordinator-level record_vote)
    race <tx> <shA> <voteA> <shB> <voteB> <sim>            (thread B's whole record_vote between the two critical
                                                            sections of thread A's; answer `race <B's result> / <A's result>`)
    crecover | ccomplete_commit <tx> | ccomplete_abort <tx>
                                                           (coordinator recovery API, Recovery.lean: recover() + re-send of the
                                                            pending decisions, complete_*; inside the restart alphabet `ReachK`)
    cforce <tx> <0|1>                                      (force_resolve; outside the alphabet)
    ckpt                                                   (save_to_store: `EvK.checkpoint`, Restart.lean)
    crestore                                               (crash + load_from_store: `EvK.restore`; `!outside` when the stored
                                                            checkpoint is not the present pending map)
    cphase <tx> <phase>                                    (a DOCTORED pending entry: sets the phase; `!outside`; only used to
                                                            compare recover() on every phase, also the unreachable ones)
    wrestart                                               (crash + a new coordinator process on the same WAL: recover_from_wal()
                                                            + recover() + re-send, `EvW.walRestart` of Wal.lean; answer
                                                            `wal <prepared> <committing> <aborting> rec <5 counters> dec <decisions>`;
                                                            `!outside` when the log disagrees with an announced decision, `SysW.walCurrent`)
    settle                                                 (Settle.lean: every pool ABORT of a transaction whose only decision is abort is
                                                            delivered — ordinary `deliver` events, pool order; answer `settled <n> stuck
                                                            <tx.sh,..|->`: the participants still prepared for / holding a lock of such a tx)
    ack <tx> <sh>                                          (Ack.lean: a TxAck(tx, sh) reaches the coordinator, `handle_abort_ack`; answer `acked <0|1>`;
                                                            `!outside` when no ABORT(tx) was delivered to shard <sh> before: only a shard that
                                                            handled the abort acknowledges it.  Every abort broadcast the glue drains is tracked
                                                            (`track_abort`), every delivered ABORT is recorded (`told`))
    aretry <ms>                                            (the ack layer's clock advances by <ms>; `get_retry_aborts`; the ABORT is re-sent = joins the
                                                            pool again for every unacknowledged shard; answer `retry <tx:sh.sh,..|-> | <messages>`)
    asettle                                                (`aretry 31000`, every RE-SENT abort delivered and acknowledged — nothing else is delivered:
                                                            an ABORT that was in the pool before stays lost; answer `asettled <n> stuck <tx.sh,..|->`)
    dump | dumpw                                           (dumpw: the dump followed by `|W:` and the log the coordinator has written)
  The driver keeps the log of a WAL-backed coordinator (`SysW.wal`) along every script; it is only read by `wrestart` / `dumpw`.
  An event is tagged `!outside` when it leaves the property's alphabet: participant cleanups, lock expiry, forged
  participant YES, force_resolve, a doctored phase, a stale restore, and a timeout sweep / abort() that runs over a
  `Committing` entry (`Sys.sparesCommitting`).
  Answer of an event: `<result> | <messages appended to the pool>`.
-/
open Neumann Neumann.Proto Neumann.TwoPC

def dotted (xs : List Nat) : String :=
  if xs.isEmpty then "" else ".".intercalate (xs.map toString)

def parseDotted (s : String) : Option (List Nat) :=
  if s = "" ∨ s = "-" then some [] else (s.splitOn ".").mapM (·.toNat?)

def showPhase : Phase → String
  | .preparing => "preparing" | .prepared => "prepared" | .committing => "committing"
  | .committed => "committed" | .aborting => "aborting" | .aborted => "aborted"

def parsePhase : String → Option Phase
  | "preparing" => some .preparing | "prepared" => some .prepared | "committing" => some .committing
  | "committed" => some .committed | "aborting" => some .aborting | "aborted" => some .aborted
  | _ => none

def sortOn {α : Type} (f : α → Nat) (xs : List α) : List α :=
  xs.mergeSort (fun a b => decide (f a ≤ f b))

def dedupKeys (xs : List Nat) : List Nat :=
  xs.foldl (fun acc x => if acc.contains x then acc else acc ++ [x]) []

/-- the keys of a YES vote's delta are a set in the code: shown sorted, without duplicates -/
def showVote : Vote → String
  | .yes h ks => s!"y{h}:{dotted (sortOn id (dedupKeys ks))}"
  | .no => "n"
  | .conflict t => s!"c{t}"

def showOp : Op → String
  | .put k v => s!"p{k}={v}"
  | .del k => s!"d{k}"
  | .embed k v => s!"e{k}={v}"
  | .nodeCreate k l => s!"n{k}={l}"
  | .nodeDelete k => s!"N{k}"
  | .edgeCreate f t ty => s!"g{f}.{t}.{ty}"
  | .tableInsert t v => s!"i{t}={v}"
  | .tableUpdate t r v => s!"u{t}.{r}={v}"
  | .tableDelete t r => s!"U{t}.{r}"
  | .cas k e v => s!"c{k}?{match e with | some x => toString x | none => "_"}={v}"

def showVal : Val → String
  | .data v => toString v
  | .vec v => s!"vec:{v}"
  | .node l => s!"node:{l}"
  | .edge => "edge"
  | .rows v => s!"rows:{v}"
  | .row r v => s!"row:{r}:{v}"

def showOps (ops : List Op) : String :=
  if ops.isEmpty then "-" else "+".intercalate (ops.map showOp)

def showMsg : Msg → String
  | .prepare tx sh ops => s!"P{tx}.{sh}[{showOps ops}]"
  | .vote tx sh v => s!"V{tx}.{sh}.{showVote v}"
  | .commit tx sh => s!"C{tx}.{sh}"
  | .abort tx sh => s!"A{tx}.{sh}"

def parseKV (rest : List Char) : Option (Nat × Nat) :=
  match (String.ofList rest).splitOn "=" with
  | [k, v] => do pure ((← k.toNat?), (← v.toNat?))
  | _ => none

def parseOp (s : String) : Option Op :=
  match s.toList with
  | 'p' :: rest => do let (k, v) ← parseKV rest; pure (Op.put k v)
  | 'd' :: rest => do pure (Op.del (← (String.ofList rest).toNat?))
  | 'e' :: rest => do let (k, v) ← parseKV rest; pure (Op.embed k v)
  | 'n' :: rest => do let (k, v) ← parseKV rest; pure (Op.nodeCreate k v)
  | 'N' :: rest => do pure (Op.nodeDelete (← (String.ofList rest).toNat?))
  | 'g' :: rest =>
    match (String.ofList rest).splitOn "." with
    | [f, t, ty] => do pure (Op.edgeCreate (← f.toNat?) (← t.toNat?) (← ty.toNat?))
    | _ => none
  | 'i' :: rest => do let (k, v) ← parseKV rest; pure (Op.tableInsert k v)
  | 'u' :: rest =>
    match (String.ofList rest).splitOn "=" with
    | [tr, v] =>
      match tr.splitOn "." with
      | [t, r] => do pure (Op.tableUpdate (← t.toNat?) (← r.toNat?) (← v.toNat?))
      | _ => none
    | _ => none
  | 'U' :: rest =>
    match (String.ofList rest).splitOn "." with
    | [t, r] => do pure (Op.tableDelete (← t.toNat?) (← r.toNat?))
    | _ => none
  | 'c' :: rest =>
    match (String.ofList rest).splitOn "?" with
    | [k, ev] =>
      match ev.splitOn "=" with
      | [e, v] => do
        let e' ← if e = "_" then some none else (e.toNat?).map some
        pure (Op.cas (← k.toNat?) e' (← v.toNat?))
      | _ => none
    | _ => none
  | _ => none

def parseOps (s : String) : Option (List Op) :=
  if s = "-" then some [] else (s.splitOn "+").mapM parseOp

def parsePairs (s : String) : Option (List (Nat × Nat)) :=
  if s = "-" then some []
  else (s.splitOn ",").mapM (fun p => match p.splitOn "." with
    | [a, b] => do pure ((← a.toNat?), (← b.toNat?))
    | _ => none)

def parseVote (s : String) : Option Vote :=
  match s.toList with
  | ['n'] => some .no
  | 'c' :: rest => do pure (Vote.conflict (← (String.ofList rest).toNat?))
  | 'y' :: rest =>
    match (String.ofList rest).splitOn ":" with
    | h :: ks :: _ => do pure (Vote.yes (← h.toNat?) (← parseDotted ks))  -- a 3rd field (embedding id) is harness-only
    | _ => none
  | _ => none

def showStore (s : Store) : String :=
  let keys := sortOn id (dedupKeys (s.map (·.1)))
  ",".intercalate (keys.filterMap (fun k => (sget s k).map (fun v => s!"{k}={showVal v}")))

def showUndo : Undo → String
  | .restore k v => s!"r{k}={showVal v}"
  | .delete k => s!"x{k}"

def showPart (i : Nat) (p : Participant) : String :=
  let prep := (sortOn (·.tx) p.prepared).map (fun pt =>
    s!"{pt.tx}/{pt.handle}/{showOps pt.ops}/{"+".intercalate (pt.undo.map showUndo)}")
  let locks := (sortOn (·.key) p.locks.locks).map (fun l => s!"{l.key}/{l.tx}/{l.handle}")
  let txl := (sortOn (·.1) p.locks.txLocks).map (fun e => s!"{e.1}/{dotted e.2}")
  s!"S{i}:prep[{",".intercalate prep}];locks[{",".intercalate locks}];txl[{",".intercalate txl}];store[{showStore p.store}]"

def showTx (t : DTx) : String :=
  let votes := (sortOn (·.1) t.votes).map (fun e => s!"{e.1}={showVote e.2}")
  s!"{t.id}/{showPhase t.phase}/{dotted t.participants}/{";".intercalate votes}"

def enumFrom' {α : Type} : Nat → List α → List (Nat × α)
  | _, [] => []
  | n, x :: xs => (n, x) :: enumFrom' (n + 1) xs

def showReason : AbortReason → String
  | .conflict => "conflict" | .votedNo => "voted_no" | .crossShard => "cross_shard" | .timeout => "timeout"

def showSys (s : Sys) : String :=
  let c := ",".intercalate ((sortOn (·.id) s.coord.pending).map showTx)
  let ps := "|".intercalate ((enumFrom' 0 s.parts).map (fun e => showPart e.1 e.2))
  let d := ",".intercalate (s.decided.map (fun e => s!"{e.1}{if e.2 then "+" else "-"}"))
  let ap := ",".intercalate (s.applied.map (fun e => s!"{e.1}/{e.2}"))
  let di := ",".intercalate (s.discarded.map (fun e => s!"{e.1}/{e.2}"))
  let rs := ",".intercalate (s.reasons.map (fun e => s!"{e.1}/{showReason e.2}"))
  let ao := ",".intercalate (s.appliedOps.map (fun e => s!"{e.1}/{e.2.1}/{showOps e.2.2}"))
  let vc := ",".intercalate (s.cast.map (fun e => s!"{e.1}/{e.2.1}/{if e.2.2 then "y" else "c"}"))
  s!"C:{c}|PA:{s.coord.pendingAborts.length}|{ps}|M:{s.msgs.length}|H:{s.nextHandle}|D:{d}|AP:{ap}|DI:{di}|R:{rs}|AO:{ao}|VC:{vc}"

def showVoteErr : VoteErr → String
  | .notFound => "not_found"
  | .wrongPhase p => s!"wrong_phase {showPhase p}"
  | .duplicate => "duplicate"

def showCoordErr : CoordErr → String
  | .tooMany => "too_many" | .notFound => "not_found" | .wrongPhase => "wrong_phase"

def showRes : Res → String
  | .none => "ok"
  | .tx id => s!"tx {id}"
  | .cerr e => s!"err {showCoordErr e}"
  | .vote v => s!"vote {showVote v}"
  | .voted none => "voted none"
  | .voted (some p) => s!"voted {showPhase p}"
  | .verr e => s!"verr {showVoteErr e}"
  | .flag b => if b then "done" else "absent"
  | .ids l => s!"ids {showNats l}"
  | .nomsg => "nomsg"
  | .noshard => "noshard"

def runEv (s : Sys) (e : Ev) : Sys × String :=
  let r := s.stepR e
  let newMsgs := r.1.msgs.drop s.msgs.length
  let tag := if s.inAlphabet e && s.sparesCommitting (.base e) then "" else " !outside"
  (r.1, s!"{showRes r.2}{tag} | {" ".intercalate (newMsgs.map showMsg)}")

def parsePerShard (shards : List Nat) (s : String) : Option (List (Nat × List Op)) := do
  let segs := s.splitOn "/"
  if segs.length ≠ shards.length then none
  else
    let ops ← segs.mapM parseOps
    pure (shards.zip ops)

def twopcStep (s : Sys) (line : String) : Sys × String :=
  let bad := (s, "bad-op")
  match words line with
  | ["init", n, tt, mc, lt] =>
    match n.toNat?, tt.toNat?, mc.toNat?, lt.toNat? with
    | some n, some tt, some mc, some lt => (Sys.init (List.replicate n []) tt mc lt, "ok")
    | _, _, _, _ => bad
  | ["preload", sh, k, v] =>
    match sh.toNat?, k.toNat?, v.toNat? with
    | some sh, some k, some v =>
      match s.parts[sh]? with
      | some p => ({ s with parts := s.parts.set sh { p with store := sput p.store k (.data v) } }, "ok")
      | none => (s, "noshard")
    | _, _, _ => bad
  | "begin" :: shs :: ops :: sim :: _ =>   -- an optional 5th token (embedding ids) is for the harness only
    match parseNats shs with
    | some shards =>
      match parsePerShard shards ops, parsePairs sim with
      | some o, some sm => runEv s (.begin shards o sm)
      | _, _ => bad
    | none => bad
  | ["deliver", i] => match i.toNat? with | some i => runEv s (.deliver i) | none => bad
  | ["sweep"] => runEv s .sweep
  | ["tick", d] => match d.toNat? with | some d => runEv s (.tick d) | none => bad
  | ["ccommit", t] => match t.toNat? with | some t => runEv s (.coordCommit t) | none => bad
  | ["cabort", t] => match t.toNat? with | some t => runEv s (.coordAbort t) | none => bad
  | ["forge", t, sh, v] =>
    match t.toNat?, sh.toNat?, parseVote v with
    | some t, some sh, some v => runEv s (.forge t sh v)
    | _, _, _ => bad
  | ["stale", sh, t] =>
    match sh.toNat?, t.toNat? with
    | some sh, some t => runEv s (.cleanupStale sh t)
    | _, _ => bad
  | ["recover", sh, t] =>
    match sh.toNat?, t.toNat? with
    | some sh, some t => runEv s (.recover sh t)
    | _, _ => bad
  | ["cvote", t, sh, v, sim] =>
    match t.toNat?, sh.toNat?, parseVote v, parsePairs sim with
    | some t, some sh, some v, some sm =>
      let nonOrth := fun i j => sm.contains (i, j) || sm.contains (j, i)
      match s.coord.recordVote t sh v nonOrth with
      | .error e => (s, s!"verr {showVoteErr e} | ")
      | .ok r =>
        let s' := s.drain r.1
        (s', s!"{showRes (.voted r.2)} | {" ".intercalate ((s'.msgs.drop s.msgs.length).map showMsg)}")
    | _, _, _, _ => bad
  | ["race", t, shA, vA, shB, vB, sim] =>
    match t.toNat?, shA.toNat?, parseVote vA, shB.toNat?, parseVote vB, parsePairs sim with
    | some t, some shA, some vA, some shB, some vB, some sm =>
      let nonOrth := fun i j => sm.contains (i, j) || sm.contains (j, i)
      match s.coord.recordVoteInterleaved t shA vA shB vB nonOrth with
      | none => (s, "race no-window |")
      | some (c, rB, rA) =>
        let s' := s.drain c
        let b := match rB with
          | .ok r => showRes (.voted r)
          | .error e => s!"verr {showVoteErr e}"
        (s', s!"race {b} / {showRes (.voted rA)} | {" ".intercalate ((s'.msgs.drop s.msgs.length).map showMsg)}")
    | _, _, _, _, _, _ => bad
  | ["crecover"] =>
    let st := (s.coord.recover s.now).2
    let s' := s.stepX .coordRecover
    let dec := (sortOn (·.1) s'.coord.pendingDecisions).map (fun e => s!"{e.1}:{showPhase e.2}")
    (s', s!"rec {st.pendingPrepare} {st.pendingCommit} {st.pendingAbort} {st.timedOut} {st.completed} dec {if dec.isEmpty then "-" else ",".intercalate dec} | {" ".intercalate ((s'.msgs.drop s.msgs.length).map showMsg)}")
  | ["ccomplete_commit", t] =>
    match t.toNat? with
    | some t =>
      match s.coord.completeCommit t with
      | .ok _ => (s.stepX (.completeCommit t), "ok |")
      | .error e => (s, s!"err {showCoordErr e} |")
    | none => bad
  | ["ccomplete_abort", t] =>
    match t.toNat? with
    | some t =>
      match s.coord.completeAbort t with
      | .ok _ => (s.stepX (.completeAbort t), "ok |")
      | .error e => (s, s!"err {showCoordErr e} |")
    | none => bad
  | ["cforce", t, b] =>
    match t.toNat?, b.toNat? with
    | some t, some b =>
      match s.coord.forceResolve t (b != 0) with
      | .ok _ =>
        let s' := s.stepX (.forceResolve t (b != 0))
        (s', s!"ok !outside | {" ".intercalate ((s'.msgs.drop s.msgs.length).map showMsg)}")
      | .error e => (s, s!"err {showCoordErr e} !outside |")
    | _, _ => bad
  | ["cphase", t, ph] =>
    match t.toNat?, parsePhase ph with
    | some t, some ph =>
      match findTx s.coord.pending t with
      | some e => ({ s with coord := { s.coord with pending := setTx s.coord.pending t { e with phase := ph } } }, "ok !outside |")
      | none => (s, "err not_found !outside |")
    | _, _ => bad
  | ["settle"] =>
    let s' := s.settle
    let st := s'.stuck.map (fun e => s!"{e.1}.{e.2}")
    (s', s!"settled {s.settleIdx.length} stuck {if st.isEmpty then "-" else ",".intercalate st} |")
  | ["dump"] => (s, showSys s)
  | _ => bad

def showSaved : Option CoordState → String
  | none => "-"
  | some st => "[" ++ ",".intercalate ((sortOn (·.id) st.pending).map showTx) ++ "]"

/-- the state with the checkpoint store (`SysK`, Restart.lean) around `twopcStep` -/
def twopcStepK (k : SysK) (line : String) : SysK × String :=
  match words line with
  | "init" :: _ =>
    let r := twopcStep k.sys line
    (⟨r.1, none⟩, r.2)
  | ["ckpt"] => (k.stepK .checkpoint, "ok |")
  | ["crestore"] =>
    let k' := k.stepK .restore
    let tag := if k.inAlphabetK .restore then "" else " !outside"
    (k', s!"restored {k'.sys.coord.pending.length}{tag} |")
  | ["dump"] => (k, s!"{showSys k.sys}|K:{showSaved k.saved}")
  | _ =>
    let r := twopcStep k.sys line
    ({ k with sys := r.1 }, r.2)

def showWalVote : WalVote → String
  | .yes h => s!"y{h}"
  | .no => "n"

def showWalEntry : WalEntry → String
  | .begin tx ps => s!"B{tx}:{dotted ps}"
  | .vote tx sh v => s!"V{tx}.{sh}.{showWalVote v}"
  | .phase tx to => s!"P{tx}.{showPhase to}"
  | .complete tx => s!"X{tx}"
  | .lockRelease tx h => s!"L{tx}.{h}"
  | .allLocksReleased tx => s!"R{tx}"

def lockHandleOf : WalEntry → Nat
  | .lockRelease _ h => h
  | _ => 0

def isLockRelease : WalEntry → Bool
  | .lockRelease _ _ => true
  | _ => false

/-- the `LockRelease` records of one `commit` come in `HashMap` order in the code: each run is shown sorted by handle -/
def canonWal (run : List WalEntry) : List WalEntry → List WalEntry
  | [] => sortOn lockHandleOf run
  | e :: r => if isLockRelease e then canonWal (run ++ [e]) r else sortOn lockHandleOf run ++ e :: canonWal [] r

/-- what the coordinator call behind a protocol line appends to its log -/
def walOfLine (s : Sys) (line : String) : List WalEntry :=
  match words line with
  | "begin" :: shs :: _ => match parseNats shs with | some shards => s.coord.walOfBegin shards | none => []
  | ["deliver", i] => match i.toNat? with | some i => s.walOf (.deliver i) | none => []
  | ["ccommit", t] => match t.toNat? with | some t => s.coord.walOfCommit t | none => []
  | ["cabort", t] => match t.toNat? with | some t => s.coord.walOfAbort t | none => []
  | ["cvote", t, sh, v, sim] =>
    match t.toNat?, sh.toNat?, parseVote v, parsePairs sim with
    | some t, some sh, some v, some sm =>
      s.coord.walOfVote t sh v (fun i j => sm.contains (i, j) || sm.contains (j, i))
    | _, _, _, _ => []
  | _ => []

/-- the state with the coordinator's log (`SysW`, Wal.lean) around `twopcStepK` -/
def twopcStepW (w : SysW) (line : String) : SysW × String :=
  match words line with
  | "init" :: _ =>
    let r := twopcStepK w.k line
    (⟨r.1, []⟩, r.2)
  | ["wrestart"] =>
    let s := w.k.sys
    let rec0 := classify (scanLog w.wal)
    let c0 := s.coord.recoverFromWal s.now w.wal
    let st := (c0.recover s.now).2
    let w' := w.stepW .walRestart
    let s' := w'.k.sys
    let dec := (sortOn (·.1) s'.coord.pendingDecisions).map (fun e => s!"{e.1}:{showPhase e.2}")
    let tag := if w.walCurrent then "" else " !outside"
    (w', s!"wal {rec0.prepared.length} {rec0.committing.length} {rec0.aborting.length} rec {st.pendingPrepare} {st.pendingCommit} {st.pendingAbort} {st.timedOut} {st.completed} dec {if dec.isEmpty then "-" else ",".intercalate dec}{tag} | {" ".intercalate ((s'.msgs.drop s.msgs.length).map showMsg)}")
  | ["dumpw"] =>
    let r := twopcStepK w.k "dump"
    (w, s!"{r.2}|W:{" ".intercalate ((canonWal [] w.wal).map showWalEntry)}")
  | _ =>
    let r := twopcStepK w.k line
    if r.2 = "bad-op" then (w, r.2) else (⟨r.1, w.wal ++ walOfLine w.k.sys line⟩, r.2)

/-- the state with the abort-acknowledgement layer (`AckNet`, Ack.lean) around `twopcStepW` -/
structure SysA where
  w : SysW
  ack : AckNet

def abortOf : Msg → Option (Nat × Nat)
  | .abort tx sh => some (tx, sh)
  | _ => none

/-- the ABORT deliveries behind a protocol line (shards that exist) -/
def toldOfLine (s : Sys) (line : String) : List (Nat × Nat) :=
  let idx := match words line with
    | ["deliver", i] => match i.toNat? with | some i => [i] | none => []
    | ["settle"] => s.settleIdx
    | _ => []
  idx.filterMap (fun i => match s.msgs[i]? with
    | some m => match abortOf m with
      | some (tx, sh) => if sh < s.parts.length then some (tx, sh) else none
      | none => none
    | none => none)

/-- the abort broadcasts the glue drained during the step from `s` to `s'`: (tx, recipients) -/
def broadcastsOf (s s' : Sys) : List (Nat × List Nat) :=
  let fresh := (s'.msgs.drop s.msgs.length).filterMap abortOf
  (s'.reasons.drop s.reasons.length).map (fun r => (r.1, (fresh.filter (fun e => e.1 == r.1)).map (·.2)))

def showRetry (r : List (Nat × List Nat)) : String :=
  let xs := (sortOn (·.1) r).map (fun e => s!"{e.1}:{dotted (sortOn id e.2)}")
  if xs.isEmpty then "-" else ",".intercalate xs

/-- `aretry`: the clock advances, `get_retry_aborts`, the re-sent ABORT messages join the pool (sorted) -/
def aretry (a : SysA) (d : Nat) : SysA × List (Nat × List Nat) :=
  let ack := (a.ack.step (.advance d))
  let r := getRetryAborts ack.states ack.now
  let sorted := (sortOn (·.1) r.2).map (fun e => (e.1, sortOn id e.2))
  let s := a.w.k.sys
  let s' := { s with msgs := s.msgs ++ (resendPairs sorted).map (fun p => Msg.abort p.1 p.2) }
  ({ w := { a.w with k := { a.w.k with sys := s' } }, ack := ack.step .retry }, sorted)

def twopcStepA (a : SysA) (line : String) : SysA × String :=
  match words line with
  | "init" :: _ =>
    let r := twopcStepW a.w line
    (⟨r.1, AckNet.init⟩, r.2)
  | ["ack", t, sh] =>
    match t.toNat?, sh.toNat? with
    | some t, some sh =>
      let r := handleAbortAck a.ack.states t sh
      let tag := if a.ack.inAlphabet (.ack t sh) then "" else " !outside"
      ({ a with ack := a.ack.step (.ack t sh) }, s!"acked {if r.2 then 1 else 0}{tag} |")
    | _, _ => (a, "bad-op")
  | ["aretry", d] =>
    match d.toNat? with
    | some d =>
      let r := aretry a d
      (r.1, s!"retry {showRetry r.2} | {" ".intercalate ((r.1.w.k.sys.msgs.drop a.w.k.sys.msgs.length).map showMsg)}")
    | none => (a, "bad-op")
  | ["asettle"] =>
    let r := aretry a 31000
    let from_ := a.w.k.sys.msgs.length
    let pairs := resendPairs r.2
    -- every re-sent ABORT is delivered (ordinary `deliver` events), then acknowledged
    let idx := (List.range pairs.length).map (· + from_)
    let w' := idx.foldl (fun w i => (twopcStepW w s!"deliver {i}").1) r.1.w
    let ack' := pairs.foldl (fun b p =>
      if p.2 < w'.k.sys.parts.length then (b.step (.told p.1 p.2)).step (.ack p.1 p.2) else b) r.1.ack
    let st := w'.k.sys.stuck.map (fun e => s!"{e.1}.{e.2}")
    (⟨w', ack'⟩, s!"asettled {pairs.length} stuck {if st.isEmpty then "-" else ",".intercalate st} |")
  | _ =>
    let s := a.w.k.sys
    let r := twopcStepW a.w line
    if r.2 = "bad-op" then (a, r.2) else
    let s' := r.1.k.sys
    let ack1 := (toldOfLine s line).foldl (fun b p => b.step (.told p.1 p.2)) a.ack
    let ack2 := (broadcastsOf s s').foldl (fun b e => b.step (.track e.1 e.2)) ack1
    (⟨r.1, ack2⟩, r.2)

def main : IO Unit := run twopcStepA ⟨SysW.init [] 0 0 0, AckNet.init⟩
