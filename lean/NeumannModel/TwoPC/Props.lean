import NeumannModel.TwoPC.Lemmas
import NeumannModel.TwoPC.LemmasPart
import NeumannModel.TwoPC.LemmasLate
import NeumannModel.TwoPC.LemmasVote
import NeumannModel.TwoPC.LemmasVoteSplit
import NeumannModel.TwoPC.LemmasOps
/-
  C03 — "Two-phase commit: every participant reaches the coordinator's one decision".
  ONLY the property theorems and their non-vacuity examples; helpers are in `Lemmas*.lean`.

  Every theorem quantifies over every state reachable from an arbitrary initial configuration
  (any number of shards with arbitrary contents, any timeout / concurrency limit) through ANY finite
  sequence of events of the property's alphabet (`Reach`): new transactions (unboundedly many, any
  participants / keys, operations of all ten `Transaction` kinds), delivery of any pool message any
  number of times in any order (or never: duplication / reordering / delay / loss), coordinator
  timeout sweeps and clock ticks at any point, coordinator commit / abort calls at any point, late /
  duplicate votes, and forged / mis-tagged votes (`Ev.forge`: any NO / CONFLICT vote, any YES vote
  tagged with a shard that is not a participant).  No restriction on the workload: since 3e4ef1c8 the
  participant locks the logical, the storage and the write key of every operation, so transactions that
  reach one storage key under different logical keys are refused by the lock table (the `…_old_…witness`
  theorems show what the code did before its two repairs 3e4ef1c8 and f07ecb9a).  Outside the alphabet
  (see DESIGN §7 C03): participant-side `cleanup_stale` / `recover` and participant lock expiry — the
  `…_outside_quantifier_witness` theorems show what they break.
-/
namespace Neumann.TwoPC.Props
open Neumann.TwoPC

/-- Per tx at most one of {commit, abort} is ever decided, and the decision is stable: once `b` is
    decided for `tx` in a reachable state, in every later reachable state `b` is still the decision
    and the opposite decision is absent. -/
theorem decide_once (stores : List Store) (tt mc lt : Nat) {s s' : Sys}
    (hr : Reach (Sys.init stores tt mc lt) s) (hr' : Reach s s') (tx : Nat) (b : Bool)
    (hd : (tx, b) ∈ s.decided) : (tx, b) ∈ s'.decided ∧ (tx, !b) ∉ s'.decided := by
  have hinv := (InvA.init stores tt mc lt).reach (hr.trans hr')
  have hd' := decided_mono_reach hr' _ hd
  refine ⟨hd', ?_⟩
  cases b with
  | true => exact hinv.excl tx hd'
  | false => exact fun h => hinv.excl tx h hd'

/-- The coordinator decides commit only if every participant voted YES: for every participant shard a
    YES vote is in the pool AND that shard's own `prepare` answered YES (`cast`) — whatever forged or
    mis-tagged votes (NO / CONFLICT for any shard, YES tagged with a non-participant shard, votes for
    transactions not begun yet) the network delivered before, between or after the real ones. -/
theorem commit_needs_all_yes (stores : List Store) (tt mc lt : Nat) {s : Sys}
    (hr : Reach (Sys.init stores tt mc lt) s) (tx : Nat) (hd : (tx, true) ∈ s.decided) :
    ∀ sp ∈ s.specs, sp.id = tx → ∀ sh ∈ sp.shards,
      (∃ h ks, Msg.vote tx sh (.yes h ks) ∈ s.msgs) ∧ (tx, sh, true) ∈ s.cast := by
  intro sp hsp hid sh hsh
  have hv := ((InvA.init stores tt mc lt).reach hr).commitYes tx hd sp hsp hid sh hsh
  refine ⟨hv, ?_⟩
  obtain ⟨h, ks, hm⟩ := hv
  have hV := VInv.reach hr
  apply hV.yesCast tx sh h ks hm
  have hf := findSpec_of_mem hsp hV.specUniq
  rw [hid] at hf
  simp only [isParticipant, hf, List.contains_iff_mem]
  exact hsh

/-- `cast` is exactly the log of the participants' own answers: one event appends to it only by
    delivering a PREPARE to an existing shard, and what it appends is that participant's answer. -/
theorem cast_is_the_participants_own_answers (s : Sys) (e : Ev) :
    (s.step e).cast = s.cast ∨
    ∃ i tx sh ops p, e = .deliver i ∧ s.msgs[i]? = some (Msg.prepare tx sh ops) ∧ s.parts[sh]? = some p ∧
      (s.step e).cast = s.cast ++ [(tx, sh, (p.prepare s.now s.nextHandle tx ops).2.isYes)] :=
  cast_step s e

/-- No participant applies a transaction's writes unless the decision was commit. -/
theorem no_apply_without_commit (stores : List Store) (tt mc lt : Nat) {s : Sys}
    (hr : Reach (Sys.init stores tt mc lt) s) (sh tx : Nat) (ha : (sh, tx) ∈ s.applied) :
    (tx, true) ∈ s.decided :=
  ((InvA.init stores tt mc lt).reach hr).applied sh tx ha

/-- A participant discards a prepared (YES-voted) transaction only after an abort decision. -/
theorem discard_needs_abort_decision (stores : List Store) (tt mc lt : Nat) {s : Sys}
    (hr : Reach (Sys.init stores tt mc lt) s) (sh tx : Nat) (hd : (sh, tx) ∈ s.discarded) :
    (tx, false) ∈ s.decided :=
  ((InvA.init stores tt mc lt).reach hr).discarded sh tx hd

/-- Atomicity across shards: if one participant applied the writes, no participant that voted YES
    discards them — the shards never end up split between applied and rolled back. -/
theorem applied_implies_no_yes_voter_discards (stores : List Store) (tt mc lt : Nat) {s : Sys}
    (hr : Reach (Sys.init stores tt mc lt) s) (sh1 sh2 tx : Nat) (ha : (sh1, tx) ∈ s.applied) :
    (sh2, tx) ∉ s.discarded := by
  have hinv := (InvA.init stores tt mc lt).reach hr
  exact fun hd => hinv.excl tx (hinv.applied sh1 tx ha) (hinv.discarded sh2 tx hd)

/-- Aborted and timed-out transactions leave every shard's data exactly as it was — in the
    strongest step form: EVERY event of the alphabet other than the delivery of a commit message
    (so: every abort delivery — first, duplicate or late —, every timeout sweep, coordinator abort,
    prepare, vote, begin, tick) leaves every key of every shard unchanged. -/
/- (No assumption on the workload: the operations of the transactions are arbitrary — see
   `storage_key_alias_is_refused` below for what keeps alias transactions apart.) -/
theorem abort_restores_shard (stores : List Store) (tt mc lt : Nat) {s : Sys}
    (hr : Reach (Sys.init stores tt mc lt) s) (e : Ev) (ha : s.inAlphabet e = true)
    (hne : ∀ i tx sh, e = .deliver i → s.msgs[i]? ≠ some (Msg.commit tx sh)) :
    ∀ sh k, sget ((s.step e).storeOf sh) k = sget (s.storeOf sh) k :=
  ((sinv_of_reach hr).step e ha).2 hne

/-- … and over any stretch of execution without a commit delivery. -/
theorem abort_restores_shard_run (stores : List Store) (tt mc lt : Nat) {s : Sys}
    (hr : Reach (Sys.init stores tt mc lt) s) (es : List Ev) (hq : s.quiet es = true) :
    ∀ sh k, sget ((s.run es).storeOf sh) k = sget (s.storeOf sh) k := by
  induction es generalizing s with
  | nil => intro _ _; rfl
  | cons e es ih =>
    simp only [Sys.quiet, Bool.and_eq_true] at hq
    obtain ⟨⟨ha, hnc⟩, hq'⟩ := hq
    intro sh k
    have h1 := ih (Reach.step e hr ha) hq' sh k
    have h2 := abort_restores_shard stores tt mc lt hr e ha (by
      intro i tx sh' he hm
      subst he
      simp only [hm] at hnc
      cases hnc) sh k
    exact h1.trans h2

/-- Whenever an event changes some shard's data, it is the delivery of a commit message of a
    transaction whose (only) decision is commit: an aborted / timed-out transaction never changes data. -/
theorem data_change_needs_commit_decision (stores : List Store) (tt mc lt : Nat) {s : Sys}
    (hr : Reach (Sys.init stores tt mc lt) s) (e : Ev) (ha : s.inAlphabet e = true) (sh k : Nat)
    (hch : sget ((s.step e).storeOf sh) k ≠ sget (s.storeOf sh) k) :
    ∃ i tx sh', e = .deliver i ∧ s.msgs[i]? = some (Msg.commit tx sh') ∧
      (tx, true) ∈ s.decided ∧ (tx, false) ∉ s.decided := by
  have hinv := (InvA.init stores tt mc lt).reach hr
  apply Classical.byContradiction
  intro hno
  apply hch
  apply abort_restores_shard stores tt mc lt hr e ha
  intro i tx sh' he hm
  have hd := hinv.commitMsg tx sh' (List.mem_of_getElem? hm)
  exact hno ⟨i, tx, sh', he, hm, hd, hinv.excl tx hd⟩

/-- Run-level exactness: in every reachable state each shard holds exactly its initial data plus the
    logged commit applications, in application order — and every logged application belongs to a
    transaction whose one decision is commit.  Aborted and timed-out transactions (and every
    prepare / abort / duplicate / late message) contribute nothing to any shard. -/
theorem shard_data_is_replay_of_committed (stores : List Store) (tt mc lt : Nat) {s : Sys}
    (hr : Reach (Sys.init stores tt mc lt) s) :
    (∀ sh k, sget (s.storeOf sh) k = sget (replay (stores[sh]?.getD []) sh s.appliedOps) k) ∧
    (∀ sh tx ops, (sh, tx, ops) ∈ s.appliedOps → (tx, true) ∈ s.decided ∧ (tx, false) ∉ s.decided) := by
  have hinv := (InvA.init stores tt mc lt).reach hr
  obtain ⟨hR, hA⟩ := RInv.reach hr
  refine ⟨hR, ?_⟩
  intro sh tx ops hx
  have hd := hinv.applied sh tx (hA sh tx ops hx)
  exact ⟨hd, hinv.excl tx hd⟩

/-- What a participant applies is what the client asked for: every logged application on shard `sh`
    consists of exactly the operations the client named for `sh` when it began that transaction (so,
    with the theorem above, a shard holds its initial data plus the CLIENTS' operations of the
    commit-decided transactions, and nothing of any other transaction). -/
theorem applied_writes_are_the_clients_operations (stores : List Store) (tt mc lt : Nat) {s : Sys}
    (hr : Reach (Sys.init stores tt mc lt) s) (sh tx : Nat) (ops : List Op)
    (hx : (sh, tx, ops) ∈ s.appliedOps) : ∃ sp ∈ s.specs, sp.id = tx ∧ ops = sp.opsFor sh :=
  (OInv.reach hr).app sh tx ops hx

/-! ### non-vacuity: a concrete 2-shard run committing tx 0 and aborting (timing out) tx 1 -/

def demoInit : Sys := Sys.init [[(1, 5)], []] 2 100 1000

def demoRun : List Ev :=
  [ .begin [0, 1] [(0, [.put 1 7, .del 2]), (1, [.put 3 9])] [],
    .deliver 0, .deliver 1, .deliver 2, .deliver 3, .coordCommit 0, .deliver 4, .deliver 5,
    .begin [0, 1] [(0, [.put 1 8]), (1, [.put 3 1])] [],
    .deliver 7, .tick 3, .sweep, .deliver 9, .deliver 10, .deliver 8 ]

example : Reach demoInit (demoInit.run demoRun) := reach_run .refl _ (by decide)
example : (demoInit.run demoRun).decided = [(0, true), (1, false)] := by decide
example : (demoInit.run demoRun).applied = [(0, 0), (1, 0)] := by decide
example : (demoInit.run demoRun).discarded = [(1, 1)] := by decide
example : sget ((demoInit.run demoRun).storeOf 0) 1 = some 7 ∧ sget ((demoInit.run demoRun).storeOf 1) 3 = some 9 := by
  decide

example : (demoInit.run demoRun).appliedOps = [(0, 0, [.put 1 7, .del 2]), (1, 0, [.put 3 9])] := by decide
-- the stretch `tx 1 prepares, times out, is aborted, its late vote arrives` is quiet, and non-trivially so
example : ((demoInit.run (demoRun.take 9)).quiet (demoRun.drop 9)) = true := by decide
-- the hypotheses of `abort_restores_shard` hold for the delivery of tx 1's abort to the shard that prepared it
example : (demoInit.run (demoRun.take 13)).msgs[10]? = some (Msg.abort 1 1) := by decide

/-! ### late PREPARE of a transaction that is already finished on the participant -/

/-- A PREPARE(t) delivered (late duplicate, any number of times, at any point of any schedule) to a
    participant on which `t` is already FINISHED (applied or discarded there, no prepared record left;
    its `tx_locks` entry is still there, empty):
    * touches no other participant and no data;
    * never changes the lock (holder AND handle) of any key held by another transaction;
    * never changes another transaction's prepared record;
    * if one of the keys of its lock set (logical, storage or write key of one of its operations) is
      held by another transaction it is answered CONFLICT naming another
      transaction and the participant is left exactly as it was — no prepared record for `t`, so a
      later ABORT(t) finds nothing to apply (`abort t` is the identity);
    * and whatever happens afterwards (also when the keys were free and `t` was re-prepared): in every
      state reachable from there, every ABORT delivery (first, duplicate, re-sent) and every
      participant-side cleanup (`cleanup_stale`, `recover`, any shard, any timeout) leaves every key
      of every shard exactly as it is. -/
theorem late_prepare_of_finished_tx_harmless (stores : List Store) (tt mc lt : Nat) {s : Sys}
    (hr : Reach (Sys.init stores tt mc lt) s) (i t sh : Nat) (ops : List Op) (p : Participant)
    (hm : s.msgs[i]? = some (Msg.prepare t sh ops)) (hp : s.parts[sh]? = some p)
    (hfin : s.finishedOn sh t = true) :
    ∃ p', (s.step (.deliver i)).parts = s.parts.set sh p' ∧
      (s.step (.deliver i)).parts[sh]? = some p' ∧
      p'.store = p.store ∧
      (∀ k l, findLock p.locks.locks k = some l → l.tx ≠ t → findLock p'.locks.locks k = some l) ∧
      (∀ t', t' ≠ t → findPrepared p'.prepared t' = findPrepared p.prepared t') ∧
      ((∃ k ∈ lockKeys ops, ∃ l, findLock p.locks.locks k = some l ∧ l.tx ≠ t) →
        p' = p ∧ findPrepared p'.prepared t = none ∧ p'.abort t = (p', false) ∧
        ∃ c, c ≠ t ∧ (s.step (.deliver i)).msgs = s.msgs ++ [Msg.vote t sh (.conflict c)]) ∧
      (∀ s'', Reach (s.step (.deliver i)) s'' →
        (∀ j tx' sh', s''.msgs[j]? = some (Msg.abort tx' sh') →
          ∀ sh2 k, sget ((s''.step (.deliver j)).storeOf sh2) k = sget (s''.storeOf sh2) k) ∧
        (∀ sh' to sh2 k, sget ((s''.step (.cleanupStale sh' to)).storeOf sh2) k = sget (s''.storeOf sh2) k) ∧
        (∀ sh' to sh2 k, sget ((s''.step (.recover sh' to)).storeOf sh2) k = sget (s''.storeOf sh2) k)) := by
  have hS := sinv_of_reach hr
  have hP := hS p (List.mem_of_getElem? hp)
  obtain ⟨hparts, hmsgs⟩ := step_deliver_prepare hm hp
  obtain ⟨h1, h2, h3, h4⟩ := prepare_respects_others hP t ops
  have hnone : findPrepared p.prepared t = none := by
    simp only [Sys.finishedOn, hp, Bool.and_eq_true, Option.isNone_iff_eq_none] at hfin
    exact hfin.2
  refine ⟨(p.prepare s.now s.nextHandle t ops).1, hparts, ?_, h1, h2, h3, ?_, ?_⟩
  · rw [hparts]; exact getElem?_set_self hp
  · intro hheld
    obtain ⟨c, hc, he⟩ := h4 hheld
    rw [he] at hmsgs
    rw [he]
    exact ⟨rfl, hnone, abort_absent hnone, c, hc, hmsgs⟩
  · intro s'' hr''
    have hr2 : Reach (Sys.init stores tt mc lt) s'' := (Reach.step (.deliver i) hr rfl).trans hr''
    refine ⟨?_, cleanupStale_keeps_data (sinv_of_reach hr2),
      recover_keeps_data (sinv_of_reach hr2)⟩
    intro j tx' sh' hj
    apply abort_restores_shard stores tt mc lt hr2 (.deliver j) rfl
    intro i' tx2 sh2 he hm2
    cases he
    rw [hj] at hm2
    cases hm2

/-! the 2-transaction history: T0 = tx 0 prepares k1 on shard 0, times out (its PREPARE to shard 1 is
    lost) and is aborted on shard 0; T1 = tx 1 prepares the same key on shard 0; the delayed duplicate
    PREPARE(T0) arrives while T1 is prepared; T1 commits on both shards; the re-sent ABORT(T0) arrives. -/

def lateInit : Sys := Sys.init [[(1, 5)], [(2, 6)]] 2 100 1000

def lateRun : List Ev :=
  [ .begin [0, 1] [(0, [.put 1 7]), (1, [.put 2 8])] [],   -- msgs 0 = PREPARE(T0) shard 0, 1 = shard 1 (lost)
    .deliver 0, .deliver 2,                                 -- 2 = shard 0's YES vote
    .tick 3, .sweep,                                        -- timeout: 3 = ABORT(T0) shard 0, 4 = shard 1
    .deliver 3, .deliver 4,                                 -- T0 is finished on shard 0
    .begin [0, 1] [(0, [.put 1 9]), (1, [.put 2 10])] [],  -- 5 = PREPARE(T1) shard 0, 6 = shard 1
    .deliver 5,                                             -- T1 prepared on shard 0, holds k1; 7 = its YES
    .deliver 0,                                             -- the late duplicate PREPARE(T0); 8 = its answer
    .deliver 8, .deliver 7, .deliver 6, .deliver 9,         -- T1 collects its votes (9 = shard 1's YES)
    .coordCommit 1, .deliver 10, .deliver 11,               -- COMMIT(T1) applied on both shards
    .deliver 3 ]                                            -- the re-sent ABORT(T0) reaches shard 0

def lateMid : Sys := lateInit.run (lateRun.take 9)

-- non-vacuity: `lateMid` is reachable and satisfies every hypothesis of
-- `late_prepare_of_finished_tx_harmless`, including "one of the keys is held by another transaction";
-- T0's `tx_locks` entry has survived `release_by_handle` (empty), which is what the variant reads
example : Reach lateInit lateMid := reach_run .refl _ (by decide)
example : lateMid.msgs[0]? = some (Msg.prepare 0 0 [.put 1 7]) := by decide
example : lateMid.finishedOn 0 0 = true := by decide
example : (lateMid.parts[0]?.map (·.holder 1)) = some (some 1) := by decide
example : (lateMid.parts[0]?.map (·.locks.txLocks)) = some [(0, []), (1, [1])] := by decide
-- … and on the code as it is the whole history is harmless: CONFLICT, T1 keeps k1, both shards end with T1's writes
example : (lateMid.step (.deliver 0)).msgs[8]? = some (Msg.vote 0 0 (.conflict 1)) := by decide
example : ((lateMid.step (.deliver 0)).parts[0]?.map (·.holder 1)) = some (some 1) := by decide
example : Reach lateInit (lateInit.run lateRun) := reach_run .refl _ (by decide)
example : (lateInit.run lateRun).decided = [(0, false), (1, true)] := by decide
example : sget ((lateInit.run lateRun).storeOf 0) 1 = some 9 ∧ sget ((lateInit.run lateRun).storeOf 1) 2 = some 10 := by
  decide

/-- The conflict-check-skipping variant of `try_lock` ("a transaction with an entry in `tx_locks` is
    re-entering, skip the scan" — while `release_by_handle` keeps the entry of a finished transaction)
    breaks `late_prepare_of_finished_tx_harmless` on the 2-transaction history.  Up to the late PREPARE
    the variant run is the run of the code (T0 finished on shard 0, T1 prepared there and holding k1);
    the late PREPARE(T0) is then answered YES, the lock on k1 moves from T1 to T0, and a prepared record
    for T0 with the stale pre-image k1 = 5 is kept; T1 commits on both shards; the re-sent ABORT(T0) —
    or the participant's own `cleanup_stale` — then installs 5 over T1's committed 9 on shard 0 while
    shard 1 keeps T1's 10: the shards are split and a committed write is lost. -/
theorem late_prepare_breaks_tryLockNoConflictCheckForKnownTx_witness :
    let mid := lateInit.runNoConflictCheckForKnownTx (lateRun.take 9)
    let stolen := mid.stepNoConflictCheckForKnownTx (.deliver 0)
    let done := lateInit.runNoConflictCheckForKnownTx (lateRun.take 17)
    let resent := done.stepNoConflictCheckForKnownTx (.deliver 3)
    let cleaned := done.stepNoConflictCheckForKnownTx (.cleanupStale 0 0)
    -- hypotheses of the theorem hold before the late PREPARE …
    mid.msgs[0]? = some (Msg.prepare 0 0 [.put 1 7]) ∧ mid.finishedOn 0 0 = true ∧
    (mid.parts[0]?.map (·.holder 1)) = some (some 1) ∧
    -- … which now takes T1's lock, is answered YES and leaves a record with a stale undo image
    (stolen.parts[0]?.map (·.holder 1)) = some (some 0) ∧
    stolen.msgs[8]? = some (Msg.vote 0 0 (.yes 2 [1])) ∧
    (stolen.parts[0]?.map (fun q => (findPrepared q.prepared 0).map (·.undo))) = some (some [.restore 1 5]) ∧
    -- T1's one decision is commit and both shards applied it
    done.decided = [(0, false), (1, true)] ∧ done.applied = [(0, 1), (1, 1)] ∧
    sget (done.storeOf 0) 1 = some 9 ∧ sget (done.storeOf 1) 2 = some 10 ∧
    -- the re-sent ABORT(T0) (msgs[3]) rolls shard 0 back to T0's stale pre-image; shard 1 keeps T1's write
    resent.msgs[3]? = some (Msg.abort 0 0) ∧
    sget (resent.storeOf 0) 1 = some 5 ∧ sget (resent.storeOf 1) 2 = some 10 ∧
    -- and so does the participant's stale-prepared cleanup
    sget (cleaned.storeOf 0) 1 = some 5 ∧ sget (cleaned.storeOf 1) 2 = some 10 := by
  decide

/-! ### locks: what keeps concurrent transactions on overlapping keys apart -/

/-- In every reachable state every prepared transaction holds, under its own handle, the lock of the
    logical key, of the storage key (undo image) and of the write key of each of its operations. -/
theorem prepared_tx_holds_its_locks (stores : List Store) (tt mc lt : Nat) {s : Sys}
    (hr : Reach (Sys.init stores tt mc lt) s) (p : Participant) (hp : p ∈ s.parts)
    (pt : PreparedTx) (hpt : pt ∈ p.prepared) (op : Op) (hop : op ∈ pt.ops) (k : Nat)
    (hk : k = op.key ∨ k = op.undoKey ∨ k = op.writeKey) :
    ∃ l, findLock p.locks.locks k = some l ∧ l.tx = pt.tx ∧ l.handle = pt.handle :=
  ((sinv_of_reach hr) p hp).held pt hpt k (mem_lockKeys.2 ⟨op, hop, hk⟩)

/-- A PREPARE — first, duplicate or late, of a live or of a finished transaction — never changes the
    lock (holder and handle) of a key held by another transaction, never touches another transaction's
    prepared record or any data, and is answered CONFLICT with the participant left exactly as it was
    when the logical, the storage or the write key of one of its operations is held by another
    transaction. -/
theorem prepare_never_moves_foreign_lock (stores : List Store) (tt mc lt : Nat) {s : Sys}
    (hr : Reach (Sys.init stores tt mc lt) s) (p : Participant) (hp : p ∈ s.parts)
    (tx : Nat) (ops : List Op) :
    let r := p.prepare s.now s.nextHandle tx ops
    r.1.store = p.store ∧
    (∀ k l, findLock p.locks.locks k = some l → l.tx ≠ tx → findLock r.1.locks.locks k = some l) ∧
    (∀ t', t' ≠ tx → findPrepared r.1.prepared t' = findPrepared p.prepared t') ∧
    ((∃ op ∈ ops, ∃ k, (k = op.key ∨ k = op.undoKey ∨ k = op.writeKey) ∧
        ∃ l, findLock p.locks.locks k = some l ∧ l.tx ≠ tx) →
      ∃ c, c ≠ tx ∧ r = (p, .conflict c)) := by
  obtain ⟨h1, h2, h3, h4⟩ := prepare_respects_others ((sinv_of_reach hr) p hp) tx ops
  refine ⟨h1, h2, h3, ?_⟩
  rintro ⟨op, hop, k, hk, l, hl, hne⟩
  exact h4 ⟨k, mem_lockKeys.2 ⟨op, hop, hk⟩, l, hl, hne⟩

/-- What 3e4ef1c8 makes true, for EVERY workload: transactions that reach one storage key under different
    logical keys are kept apart by the participant.  In every reachable state, if `pt` is prepared on a
    participant and a PREPARE of another transaction carries an operation `op'` one of whose keys
    (logical, storage, write) is a key (logical, storage, write) of an operation of `pt` — in particular
    `op'` writes the storage key `pt` holds an undo image of (`Put{"emb:x"}` vs `Embed{x}`), or captures
    the undo image of a key `pt` will write — then that PREPARE is answered CONFLICT naming another
    transaction and leaves the participant (locks, prepared records, data) exactly as it was. -/
theorem storage_key_alias_is_refused (stores : List Store) (tt mc lt : Nat) {s : Sys}
    (hr : Reach (Sys.init stores tt mc lt) s) (p : Participant) (hp : p ∈ s.parts)
    (pt : PreparedTx) (hpt : pt ∈ p.prepared) (tx : Nat) (hne : tx ≠ pt.tx) (ops : List Op)
    (op : Op) (hop : op ∈ pt.ops) (op' : Op) (hop' : op' ∈ ops) (k : Nat)
    (hk : k = op.key ∨ k = op.undoKey ∨ k = op.writeKey)
    (hk' : k = op'.key ∨ k = op'.undoKey ∨ k = op'.writeKey) :
    ∃ c, c ≠ tx ∧ p.prepare s.now s.nextHandle tx ops = (p, .conflict c) := by
  have hP := (sinv_of_reach hr) p hp
  obtain ⟨l, hl, htx, _⟩ := hP.held pt hpt k (mem_lockKeys.2 ⟨op, hop, hk⟩)
  exact (prepare_respects_others hP tx ops).2.2.2
    ⟨k, mem_lockKeys.2 ⟨op', hop', hk'⟩, l, hl, by rw [htx]; exact fun e => hne e.symm⟩

/-- … hence two transactions prepared on one participant at the same time never share a logical,
    storage or write key: no prepared transaction holds an undo image of a key another prepared
    transaction will write. -/
theorem prepared_txs_touch_disjoint_keys (stores : List Store) (tt mc lt : Nat) {s : Sys}
    (hr : Reach (Sys.init stores tt mc lt) s) (p : Participant) (hp : p ∈ s.parts)
    (pt pt' : PreparedTx) (hpt : pt ∈ p.prepared) (hpt' : pt' ∈ p.prepared)
    (op : Op) (hop : op ∈ pt.ops) (op' : Op) (hop' : op' ∈ pt'.ops) (k : Nat)
    (hk : k = op.key ∨ k = op.undoKey ∨ k = op.writeKey)
    (hk' : k = op'.key ∨ k = op'.undoKey ∨ k = op'.writeKey) : pt.tx = pt'.tx :=
  ((sinv_of_reach hr) p hp).disjoint hpt hpt' (mem_lockKeys.2 ⟨op, hop, hk⟩) (mem_lockKeys.2 ⟨op', hop', hk'⟩)

/-- Workloads of Put / Delete / CompareAndSwap operations keep the OLD lock discipline by construction
    (logical key = storage key = write key): for them the lock set of the code before 3e4ef1c8 was
    already sufficient (the defect needed one of the prefixed kinds). -/
theorem lock_discipline_of_plain_ops (ops : List Op) (h : ∀ op ∈ ops, op.isPlain = true) :
    lockDiscipline ops = true := by
  apply (lockDiscipline_iff ops).2
  intro a ha b hb he
  have h1 := h a ha
  have h2 := h b hb
  cases a <;> cases b <;> simp_all [Op.isPlain, Op.writeKey, Op.undoKey, Op.key]

/-! non-vacuity: a mixed-kind workload (Embed, TableUpdate, CompareAndSwap, NodeCreate, EdgeCreate),
    with forged votes in the schedule: tx 0 commits on both shards although a
    stray YES tagged with shard 5, a forged NO for the not-yet-begun tx 1 and a late forged CONFLICT
    were delivered; tx 1 is aborted by a forged NO and changes nothing. -/

def mixedInit : Sys := Sys.init [[(1, 5), (tableK 3, .rows 4)], [(2, 6)]] 2 100 1000

def mixedRun : List Ev :=
  [ .begin [0, 1] [(0, [.embed 1 7, .tableUpdate 3 2 9, .cas 1 (some 5) 6]), (1, [.nodeCreate 2 4, .edgeCreate 2 3 1, .cas 2 none 1])] [],
    .forge 0 5 (.yes 77 [1]),          -- msgs 2: stray YES from shard 5 (not a participant)
    .forge 1 0 .no,                    -- msgs 3: NO for a transaction that does not exist yet
    .deliver 2, .deliver 0, .deliver 1,-- stray vote recorded; both participants prepare: msgs 4, 5
    .deliver 4, .deliver 5, .coordCommit 0, .deliver 6, .deliver 7,
    .forge 0 1 (.conflict 9), .deliver 8,
    .begin [0, 1] [(0, [.tableInsert 3 8]), (1, [.nodeDelete 2])] [],   -- tx 1: msgs 9, 10
    .deliver 9, .deliver 3,            -- shard 0 prepares tx 1 (msgs 11 = its YES); the early forged NO is recorded as shard 0's vote
    .deliver 10, .deliver 12,          -- shard 1 prepares (msgs 12 = its YES): all voted, not all YES -> msgs 13, 14 = ABORT(tx 1)
    .deliver 13, .deliver 11 ]         -- shard 0 discards tx 1; its real YES arrives late and is rejected

example : Reach mixedInit (mixedInit.run mixedRun) := reach_run .refl _ (by decide)
example : (mixedInit.run mixedRun).decided = [(0, true), (1, false)] := by decide
example : (mixedInit.run mixedRun).cast = [(0, 0, true), (0, 1, true), (1, 0, true), (1, 1, true)] := by decide
example : (mixedInit.run mixedRun).discarded = [(0, 1)] := by decide
-- Embed wrote "emb:k1", TableUpdate wrote the ROW key, CAS(k1: 5 -> 6) matched, CAS(k2: [] -> 1) did not (k2 = 6)
example : sget ((mixedInit.run mixedRun).storeOf 0) (embK 1) = some (.vec 7) ∧
    sget ((mixedInit.run mixedRun).storeOf 0) (rowK 3 2) = some (.row 2 9) ∧
    sget ((mixedInit.run mixedRun).storeOf 0) (tableK 3) = some (.rows 4) ∧
    sget ((mixedInit.run mixedRun).storeOf 0) 1 = some 6 ∧
    sget ((mixedInit.run mixedRun).storeOf 1) (nodeK 2) = some (.node 4) ∧
    sget ((mixedInit.run mixedRun).storeOf 1) (edgeK 2 3 1) = some .edge ∧
    sget ((mixedInit.run mixedRun).storeOf 1) 2 = some 6 := by decide
-- the hypothesis of `lock_discipline_of_plain_ops` holds of a real workload
example : ∀ op ∈ [Op.put 1 2, .cas 1 none 3, .del 1], op.isPlain = true := by decide
-- the lock set: Embed locks k1 and "emb:k1", TableUpdate the table name, "table:3" and the row key, CAS only k1
example : ((mixedInit.run (mixedRun.take 5)).parts[0]?.map (fun p => p.locks.txLocks)) =
    some [(0, [1, 3, 1, embK 1, tableK 3, rowK 3 2])] := by decide
-- `prepared_tx_holds_its_locks` / `prepare_never_moves_foreign_lock` are not vacuous: after 15 events tx 1 is prepared on shard 0
example : ((mixedInit.run (mixedRun.take 15)).parts[0]?.map (fun p => p.prepared.map (·.tx))) = some [1] := by decide

/-! the alias history: T0 = `Embed{k1}` and T1 = `Put{"emb:k1"}` reach the storage key `"emb:k1"` under
    the logical keys `k1` resp. `"emb:k1"`; T1 would commit, T0 times out. -/

def aliasInit : Sys := Sys.init [[], []] 2 100 1000

def aliasRun : List Ev :=
  [ .begin [0, 1] [(0, [.embed 1 7]), (1, [.put 2 8])] [],          -- msgs 0,1 = PREPARE(T0)
    .begin [0, 1] [(0, [.put (embK 1) 9]), (1, [.put 3 10])] [],     -- msgs 2,3 = PREPARE(T1)
    .deliver 0, .deliver 2,            -- shard 0: T0 prepared (4 = YES), then PREPARE(T1) (5 = its answer)
    .deliver 3, .deliver 5, .deliver 6,-- shard 1 prepares T1 (6 = YES); T1's two votes reach the coordinator
    .coordCommit 1, .deliver 7, .deliver 8,
    .tick 3, .sweep ]

/-- BEFORE 3e4ef1c8 (`prepareOld`: only `affected_key()` is locked, `Sys.runOld`) `abort_restores_shard`
    was false: T0 and T1 are prepared on shard 0 at the same time under different logical keys; T0's
    undo image of `"emb:k1"` is "absent".  T1 is decided commit and applied on both shards; T0 times out
    and its ABORT deletes `"emb:k1"`: an aborted transaction changed the shard, a committed write is
    lost, and shard 1 still holds T1's other write (split).  Every event of the run is in the alphabet.
    On the code as it is (`Sys.run`) the same events go: PREPARE(T1) is answered CONFLICT(T0) on shard 0
    (T0 holds `"emb:k1"`), T1 is aborted, the commit call is refused, and no shard ever changes. -/
theorem abort_undoes_commit_via_storage_key_alias_old_lock_set_witness :
    let old := aliasInit.runOld aliasRun
    let new := aliasInit.run aliasRun
    aliasInit.allIn aliasRun = true ∧
    -- old lock set: both transactions prepared on shard 0 together, under different logical keys
    (aliasInit.runOld (aliasRun.take 4)).parts[0]?.map (fun p => p.locks.locks.map (fun l => (l.key, l.tx))) =
      some [(embK 1, 1), (1, 0)] ∧
    old.decided = [(1, true), (0, false)] ∧ old.applied = [(0, 1), (1, 1)] ∧
    old.msgs[9]? = some (Msg.abort 0 0) ∧ old.inAlphabet (.deliver 9) = true ∧
    sget (old.storeOf 0) (embK 1) = some 9 ∧ sget (old.storeOf 1) 3 = some 10 ∧
    sget ((old.stepOld (.deliver 9)).storeOf 0) (embK 1) = none ∧
    sget ((old.stepOld (.deliver 9)).storeOf 1) 3 = some 10 ∧
    -- the code as it is: T0 holds k1 AND "emb:k1"; PREPARE(T1) is refused; T1 aborts; nothing is written
    (aliasInit.run (aliasRun.take 3)).parts[0]?.map (fun p => p.locks.locks.map (fun l => (l.key, l.tx))) =
      some [(embK 1, 0), (1, 0)] ∧
    (aliasInit.run (aliasRun.take 4)).msgs[5]? = some (Msg.vote 1 0 (.conflict 0)) ∧
    new.decided = [(1, false), (0, false), (1, false)] ∧ new.applied = [] ∧
    new.msgs[9]? = some (Msg.abort 0 0) ∧
    (∀ sh ∈ [0, 1], ∀ k ∈ [1, 2, 3, embK 1], sget ((new.step (.deliver 9)).storeOf sh) k = none) := by
  decide

-- `storage_key_alias_is_refused` is not vacuous: after 3 events of the alias history T0 is prepared on
-- shard 0 and the PREPARE of T1 (tx 1 ≠ 0) carries `Put{"emb:k1"}`, whose write key is T0's storage key
example : Reach aliasInit (aliasInit.run (aliasRun.take 3)) := reach_run .refl _ (by decide)
example : ((aliasInit.run (aliasRun.take 3)).parts[0]?.map (fun p => p.prepared.map (fun pt => (pt.tx, pt.ops)))) =
    some [(0, [.embed 1 7])] := by decide
example : (Op.put (embK 1) 9).writeKey = (Op.embed 1 7).undoKey := by decide
example : (aliasInit.run (aliasRun.take 3)).msgs[2]? = some (Msg.prepare 1 0 [.put (embK 1) 9]) := by decide
-- `prepared_txs_touch_disjoint_keys` with two records: both transactions of `mixedRun`'s shard 0 … (tx 0
-- committed there before tx 1 prepared); a state with two records at once:
example : (((Sys.init [[], []] 2 100 1000).run
    [ .begin [0] [(0, [.embed 1 7])] [], .begin [0] [(0, [.embed 2 7])] [], .deliver 0, .deliver 1 ]).parts[0]?.map
      (fun p => p.prepared.map (·.tx))) = some [1, 0] := by decide

/-! ### `record_vote` is two critical sections (VoteSplit.lean) -/

/-- The atomic `recordVote` that every theorem above is about is exactly phase 1 followed, with nothing
    in between, by phases 2 + 3 of the code's `record_vote` — for every coordinator state and vote. -/
theorem record_vote_is_its_two_critical_sections (c : Coordinator) (tx sh : Nat) (v : Vote)
    (f : Nat → Nat → Bool) :
    c.recordVote tx sh v f =
      match c.recordVoteP1 tx sh v with
      | .error e => .error e
      | .ok (.done c' r) => .ok (c', r)
      | .ok (.check c' snap) => .ok (c'.recordVoteP3 tx snap f) :=
  recordVote_eq_phases c tx sh v f

/-- Phase 3 of the code (since f07ecb9a) leaves a transaction that is gone or no longer `Preparing`
    exactly as it is — whatever happened between the two critical sections, whatever the snapshot and
    the similarity outcome: no phase change, nothing queued, `Ok(None)`. -/
theorem record_vote_phase3_keeps_decided_phase (c : Coordinator) (tx : Nat) (snap : DTx)
    (f : Nat → Nat → Bool) (hp : ∀ t, findTx c.pending tx = some t → t.phase ≠ .preparing) :
    c.recordVoteP3 tx snap f = (c, none) := by
  rcases recordVoteP3_cases c tx snap f with h | ⟨t, hf, hph, _⟩
  · exact h
  · exact absurd hph (hp t hf)

/-- … and when it does change something, the transaction is `Preparing` NOW and becomes `Prepared`
    (nothing queued) or `Aborting` (exactly one abort broadcast queued); no other entry changes. -/
theorem record_vote_phase3_moves_only_preparing (c : Coordinator) (tx : Nat) (snap : DTx)
    (f : Nat → Nat → Bool) (hne : c.recordVoteP3 tx snap f ≠ (c, none)) :
    ∃ t, findTx c.pending tx = some t ∧ t.phase = .preparing ∧
      ((c.recordVoteP3 tx snap f) = ({ c with pending := setPhase c.pending tx .prepared }, some .prepared) ∨
       (c.recordVoteP3 tx snap f) =
          ({ c with pending := setPhase c.pending tx .aborting,
                    pendingAborts := c.pendingAborts ++ [(tx, .crossShard, snap.participants)] }, some .aborting)) := by
  rcases recordVoteP3_cases c tx snap f with h | h
  · exact absurd h hne
  · exact h

/-- One decision under EVERY interleaving of the two critical sections.  The coordinator is shared by any
    number of threads (`CSys`): every call (`begin`, `commit`, `abort`, `cleanup_timeouts`,
    `take_pending_aborts`) is one event, `record_vote` is two (`voteP1`, `voteP3`), and a `voteP3` may
    carry any snapshot and any similarity outcome and run at any later point in any order with the other
    threads' events.  In every reachable state a transaction for which `commit()` succeeded has no
    abort decision: no `abort()` succeeded for it and no abort broadcast was ever queued for it (drained
    or not) — and vice versa. -/
theorem record_vote_interleaved_phases_never_decide_twice (mc tt : Nat) {s : CSys}
    (hr : CReach (CSys.init mc tt) s) (tx : Nat) (hc : tx ∈ s.commits) : ¬ s.abortDecided tx :=
  ((CInv.init mc tt).reach hr).excl tx hc

/-- … and the decision is stable and exclusive along every continuation. -/
theorem record_vote_interleaved_phases_abort_excludes_commit (mc tt : Nat) {s : CSys}
    (hr : CReach (CSys.init mc tt) s) (tx : Nat) (ha : s.abortDecided tx) : tx ∉ s.commits :=
  fun hc => ((CInv.init mc tt).reach hr).excl tx hc ha

/-- Phase 3b BEFORE f07ecb9a did not look at the phase it overwrote: whatever happened to the
    transaction between the two critical sections (as long as it was still pending), an orthogonal
    snapshot made it `Prepared`, i.e. committable. -/
theorem record_vote_phase3_old_overwrites_any_phase (c : Coordinator) (tx : Nat) (snap t : DTx)
    (f : Nat → Nat → Bool) (hc : crossConflict f snap.votes = false) (hf : findTx c.pending tx = some t) :
    c.recordVoteP3Old tx snap f = ({ c with pending := setPhase c.pending tx .prepared }, some .prepared) ∧
    findTx (c.recordVoteP3Old tx snap f).1.pending tx = some { t with phase := .prepared } := by
  have h1 : c.recordVoteP3Old tx snap f = ({ c with pending := setPhase c.pending tx .prepared }, some .prepared) := by
    simp only [Coordinator.recordVoteP3Old, hc, hf, Bool.false_eq_true, if_false]
  rw [h1]
  exact ⟨rfl, findTx_setPhase .prepared hf⟩

/-! the two-thread interleaving: thread A = the last real YES (shard 1), thread B = a stray NO tagged with
    the non-participant shard 5, recorded between A's two critical sections -/

def raceSnap : DTx := ⟨0, [0, 1], .preparing, [(0, .yes 0 [1]), (1, .yes 1 [2])], 0, 2⟩

def raceRun : List CEv :=
  [ .begin 0 [0, 1], .voteP1 0 0 (.yes 0 [1]),
    .voteP1 0 1 (.yes 1 [2]),                       -- thread A, phase 1: everybody voted YES, snapshot = `raceSnap`
    .voteP1 0 5 .no,                                -- thread B, a whole `record_vote` (it ends in phase 1): Aborting + queued ABORT
    .voteP3 0 raceSnap (fun _ _ => false),          -- thread A, phases 2 + 3
    .commit 0 ]

/-- BEFORE f07ecb9a (`CSys.runOld`): thread B's stray NO between thread A's two critical sections moves
    the transaction to `Aborting` and queues the abort broadcast; phase 3b of thread A then overwrites
    `Aborting` with `Prepared`, and `commit` succeeds: the transaction has an ABORT broadcast in the
    queue AND a commit decision.  On the code as it is (`CSys.run`) the same events leave it `Aborting`,
    phase 3 returns `None` and the commit is refused.  (`raceSnap` is the snapshot phase 1 really took.) -/
theorem record_vote_interleaved_phases_decide_twice_old_witness :
    let c2 := ((CSys.init 100 2).run (raceRun.take 2)).c
    let old := (CSys.init 100 2).runOld raceRun
    let new := (CSys.init 100 2).run raceRun
    (match c2.recordVoteP1 0 1 (.yes 1 [2]) with | .ok (.check _ snap) => some snap | _ => none) = some raceSnap ∧
    -- after thread B: Aborting, ABORT broadcast queued (old and new agree up to here)
    (((CSys.init 100 2).runOld (raceRun.take 4)).c.pending.map (·.phase),
      ((CSys.init 100 2).runOld (raceRun.take 4)).c.pendingAborts) =
        ([Phase.aborting], [(0, AbortReason.votedNo, [0, 1])]) ∧
    ((CSys.init 100 2).run (raceRun.take 4)).c = ((CSys.init 100 2).runOld (raceRun.take 4)).c ∧
    -- old: phase 3 says `Prepared`, the commit succeeds, both decisions exist
    (((CSys.init 100 2).runOld (raceRun.take 4)).c.recordVoteP3Old 0 raceSnap (fun _ _ => false)).2 = some Phase.prepared ∧
    (((CSys.init 100 2).runOld (raceRun.take 5)).c.pending.map (·.phase)) = [Phase.prepared] ∧
    old.commits = [0] ∧ old.abortDecided 0 ∧
    -- the code as it is: phase 3 leaves `Aborting` alone, the commit is refused, one decision
    (((CSys.init 100 2).run (raceRun.take 4)).c.recordVoteP3 0 raceSnap (fun _ _ => false)).2 = none ∧
    (((CSys.init 100 2).run (raceRun.take 5)).c.pending.map (·.phase)) = [Phase.aborting] ∧
    new.commits = [] ∧ new.abortDecided 0 ∧
    -- the same through `recordVoteInterleaved` (what the harness asks the driver for)
    (c2.recordVoteInterleaved 0 1 (.yes 1 [2]) 5 .no (fun _ _ => false)).map (fun r => (r.2.1.toOption, r.2.2)) =
      some (some (some Phase.aborting), none) := by
  decide

-- non-vacuity of `record_vote_interleaved_phases_never_decide_twice`: reachable states with a commit
-- decision (both real votes, phase 3 in order, commit) resp. an abort decision (the race above)
example : CReach (CSys.init 100 2) ((CSys.init 100 2).run raceRun) := creach_run .refl _
example : ((CSys.init 100 2).run [ .begin 0 [0, 1], .voteP1 0 0 (.yes 0 [1]), .voteP1 0 1 (.yes 1 [2]),
    .voteP3 0 raceSnap (fun _ _ => false), .commit 0, .voteP3 0 raceSnap (fun _ _ => true) ]).commits = [0] := by decide
example : ¬ ((CSys.init 100 2).run [ .begin 0 [0, 1], .voteP1 0 0 (.yes 0 [1]), .voteP1 0 1 (.yes 1 [2]),
    .voteP3 0 raceSnap (fun _ _ => false), .commit 0, .voteP3 0 raceSnap (fun _ _ => true) ]).abortDecided 0 := by decide
-- `record_vote_phase3_keeps_decided_phase`: its hypothesis holds of the state after thread B
example : ∀ t, findTx ((CSys.init 100 2).run (raceRun.take 4)).c.pending 0 = some t → t.phase ≠ .preparing := by
  decide

/-! ### the two counter-traces over the EXTENDED alphabet (outside C03's quantifier) -/

/-- With participant-side `cleanup_stale` (presumed abort after a YES vote) in the alphabet,
    atomicity fails: shard 0 applied tx 0, shard 1 discarded it. -/
theorem split_outcome_outside_quantifier_witness :
    ∃ s, ReachExt (Sys.init [[], []] 2 100 1000) s ∧ (0, 0) ∈ s.applied ∧ (1, 0) ∈ s.discarded :=
  ⟨(Sys.init [[], []] 2 100 1000).run
      [ .begin [0, 1] [(0, [.put 1 7]), (1, [.put 3 9])] [],
        .deliver 0, .deliver 1, .deliver 2, .deliver 3, .coordCommit 0, .deliver 4, .cleanupStale 1 0 ],
   reachExt_run .refl _, by decide, by decide⟩

/-- With participant lock EXPIRY in the alphabet, an abort changes a shard: tx 0 prepares k1 (image 5),
    its lock expires, tx 1 commits k1 = 9, then tx 0's abort re-installs 5 although tx 0 never wrote. -/
theorem abort_changes_shard_outside_quantifier_witness :
    ∃ s i, ReachExt (Sys.init [[(1, 5)]] 2 100 0) s ∧ s.msgs[i]? = some (Msg.abort 0 0) ∧
      sget (s.storeOf 0) 1 = some 9 ∧ sget ((s.step (.deliver i)).storeOf 0) 1 = some 5 :=
  ⟨(Sys.init [[(1, 5)]] 2 100 0).run
      [ .begin [0] [(0, [.put 1 7])] [], .begin [0] [(0, [.put 1 9])] [],
        .deliver 0, .tick 1, .deliver 1, .deliver 3, .coordCommit 1, .deliver 4, .coordAbort 0 ],
   5, reachExt_run .refl _, by decide, by decide, by decide⟩

end Neumann.TwoPC.Props
