import NeumannModel.TwoPC.Lemmas
import NeumannModel.TwoPC.LemmasPart
import NeumannModel.TwoPC.LemmasLate
import NeumannModel.TwoPC.LemmasVote
import NeumannModel.TwoPC.LemmasVoteSplit
import NeumannModel.TwoPC.LemmasOps
/-
  C03 — "Two-phase commit: every participant reaches the coordinator's one decision".
  ONLY the property theorems and their non-vacuity examples; helpers are in `Lemmas*.lean`.

  Every theorem quantifies over every state reachable from an arbitrary initial configuration
  (any number of shards with arbitrary contents, any timeout / concurrency limit) through ANY finite
  sequence of events of the property's alphabet (`Reach`): new transactions (unboundedly many, any
  participants / keys, operations of all ten `Transaction` kinds), delivery of any pool message any
  number of times in any order (or never: duplication / reordering / delay / loss), coordinator
  timeout sweeps and clock ticks at any point, coordinator commit / abort calls at any point, late /
  duplicate votes, and forged / mis-tagged votes (`Ev.forge`: any NO / CONFLICT vote, any YES vote
  tagged with a shard that is not a participant).  Outside the alphabet (see DESIGN §7 C03):
  participant-side `cleanup_stale` / `recover`, participant lock expiry, and workloads that break the
  lock discipline (`lockDiscipline`: two transactions reach the same storage key under different
  logical keys) — the `…_outside_quantifier_witness` theorems show what they break.
-/
namespace Neumann.TwoPC.Props
open Neumann.TwoPC

/-- Per tx at most one of {commit, abort} is ever decided, and the decision is stable: once `b` is
    decided for `tx` in a reachable state, in every later reachable state `b` is still the decision
    and the opposite decision is absent. -/
theorem decide_once (stores : List Store) (tt mc lt : Nat) {s s' : Sys}
    (hr : Reach (Sys.init stores tt mc lt) s) (hr' : Reach s s') (tx : Nat) (b : Bool)
    (hd : (tx, b) ∈ s.decided) : (tx, b) ∈ s'.decided ∧ (tx, !b) ∉ s'.decided := by
  have hinv := (InvA.init stores tt mc lt).reach (hr.trans hr')
  have hd' := decided_mono_reach hr' _ hd
  refine ⟨hd', ?_⟩
  cases b with
  | true => exact hinv.excl tx hd'
  | false => exact fun h => hinv.excl tx h hd'

/-- The coordinator decides commit only if every participant voted YES: for every participant shard a
    YES vote is in the pool AND that shard's own `prepare` answered YES (`cast`) — whatever forged or
    mis-tagged votes (NO / CONFLICT for any shard, YES tagged with a non-participant shard, votes for
    transactions not begun yet) the network delivered before, between or after the real ones. -/
theorem commit_needs_all_yes (stores : List Store) (tt mc lt : Nat) {s : Sys}
    (hr : Reach (Sys.init stores tt mc lt) s) (tx : Nat) (hd : (tx, true) ∈ s.decided) :
    ∀ sp ∈ s.specs, sp.id = tx → ∀ sh ∈ sp.shards,
      (∃ h ks, Msg.vote tx sh (.yes h ks) ∈ s.msgs) ∧ (tx, sh, true) ∈ s.cast := by
  intro sp hsp hid sh hsh
  have hv := ((InvA.init stores tt mc lt).reach hr).commitYes tx hd sp hsp hid sh hsh
  refine ⟨hv, ?_⟩
  obtain ⟨h, ks, hm⟩ := hv
  have hV := VInv.reach hr
  apply hV.yesCast tx sh h ks hm
  have hf := findSpec_of_mem hsp hV.specUniq
  rw [hid] at hf
  simp only [isParticipant, hf, List.contains_iff_mem]
  exact hsh

/-- `cast` is exactly the log of the participants' own answers: one event appends to it only by
    delivering a PREPARE to an existing shard, and what it appends is that participant's answer. -/
theorem cast_is_the_participants_own_answers (s : Sys) (e : Ev) :
    (s.step e).cast = s.cast ∨
    ∃ i tx sh ops p, e = .deliver i ∧ s.msgs[i]? = some (Msg.prepare tx sh ops) ∧ s.parts[sh]? = some p ∧
      (s.step e).cast = s.cast ++ [(tx, sh, (p.prepare s.now s.nextHandle tx ops).2.isYes)] :=
  cast_step s e

/-- No participant applies a transaction's writes unless the decision was commit. -/
theorem no_apply_without_commit (stores : List Store) (tt mc lt : Nat) {s : Sys}
    (hr : Reach (Sys.init stores tt mc lt) s) (sh tx : Nat) (ha : (sh, tx) ∈ s.applied) :
    (tx, true) ∈ s.decided :=
  ((InvA.init stores tt mc lt).reach hr).applied sh tx ha

/-- A participant discards a prepared (YES-voted) transaction only after an abort decision. -/
theorem discard_needs_abort_decision (stores : List Store) (tt mc lt : Nat) {s : Sys}
    (hr : Reach (Sys.init stores tt mc lt) s) (sh tx : Nat) (hd : (sh, tx) ∈ s.discarded) :
    (tx, false) ∈ s.decided :=
  ((InvA.init stores tt mc lt).reach hr).discarded sh tx hd

/-- Atomicity across shards: if one participant applied the writes, no participant that voted YES
    discards them — the shards never end up split between applied and rolled back. -/
theorem applied_implies_no_yes_voter_discards (stores : List Store) (tt mc lt : Nat) {s : Sys}
    (hr : Reach (Sys.init stores tt mc lt) s) (sh1 sh2 tx : Nat) (ha : (sh1, tx) ∈ s.applied) :
    (sh2, tx) ∉ s.discarded := by
  have hinv := (InvA.init stores tt mc lt).reach hr
  exact fun hd => hinv.excl tx (hinv.applied sh1 tx ha) (hinv.discarded sh2 tx hd)

/-- Aborted and timed-out transactions leave every shard's data exactly as it was — in the
    strongest step form: EVERY event of the alphabet other than the delivery of a commit message
    (so: every abort delivery — first, duplicate or late —, every timeout sweep, coordinator abort,
    prepare, vote, begin, tick) leaves every key of every shard unchanged. -/
theorem abort_restores_shard (stores : List Store) (tt mc lt : Nat) {s : Sys}
    (hr : Reach (Sys.init stores tt mc lt) s) (e : Ev) (ha : s.inAlphabet e = true)
    (hne : ∀ i tx sh, e = .deliver i → s.msgs[i]? ≠ some (Msg.commit tx sh)) :
    ∀ sh k, sget ((s.step e).storeOf sh) k = sget (s.storeOf sh) k :=
  ((sinv_of_reach hr).1.step (sinv_of_reach hr).2 e ha).2 hne

/-- … and over any stretch of execution without a commit delivery. -/
theorem abort_restores_shard_run (stores : List Store) (tt mc lt : Nat) {s : Sys}
    (hr : Reach (Sys.init stores tt mc lt) s) (es : List Ev) (hq : s.quiet es = true) :
    ∀ sh k, sget ((s.run es).storeOf sh) k = sget (s.storeOf sh) k := by
  induction es generalizing s with
  | nil => intro _ _; rfl
  | cons e es ih =>
    simp only [Sys.quiet, Bool.and_eq_true] at hq
    obtain ⟨⟨ha, hnc⟩, hq'⟩ := hq
    intro sh k
    have h1 := ih (Reach.step e hr ha) hq' sh k
    have h2 := abort_restores_shard stores tt mc lt hr e ha (by
      intro i tx sh' he hm
      subst he
      simp only [hm] at hnc
      cases hnc) sh k
    exact h1.trans h2

/-- Whenever an event changes some shard's data, it is the delivery of a commit message of a
    transaction whose (only) decision is commit: an aborted / timed-out transaction never changes data. -/
theorem data_change_needs_commit_decision (stores : List Store) (tt mc lt : Nat) {s : Sys}
    (hr : Reach (Sys.init stores tt mc lt) s) (e : Ev) (ha : s.inAlphabet e = true) (sh k : Nat)
    (hch : sget ((s.step e).storeOf sh) k ≠ sget (s.storeOf sh) k) :
    ∃ i tx sh', e = .deliver i ∧ s.msgs[i]? = some (Msg.commit tx sh') ∧
      (tx, true) ∈ s.decided ∧ (tx, false) ∉ s.decided := by
  have hinv := (InvA.init stores tt mc lt).reach hr
  apply Classical.byContradiction
  intro hno
  apply hch
  apply abort_restores_shard stores tt mc lt hr e ha
  intro i tx sh' he hm
  have hd := hinv.commitMsg tx sh' (List.mem_of_getElem? hm)
  exact hno ⟨i, tx, sh', he, hm, hd, hinv.excl tx hd⟩

/-- Run-level exactness: in every reachable state each shard holds exactly its initial data plus the
    logged commit applications, in application order — and every logged application belongs to a
    transaction whose one decision is commit.  Aborted and timed-out transactions (and every
    prepare / abort / duplicate / late message) contribute nothing to any shard. -/
theorem shard_data_is_replay_of_committed (stores : List Store) (tt mc lt : Nat) {s : Sys}
    (hr : Reach (Sys.init stores tt mc lt) s) :
    (∀ sh k, sget (s.storeOf sh) k = sget (replay (stores[sh]?.getD []) sh s.appliedOps) k) ∧
    (∀ sh tx ops, (sh, tx, ops) ∈ s.appliedOps → (tx, true) ∈ s.decided ∧ (tx, false) ∉ s.decided) := by
  have hinv := (InvA.init stores tt mc lt).reach hr
  obtain ⟨hR, hA⟩ := RInv.reach hr
  refine ⟨hR, ?_⟩
  intro sh tx ops hx
  have hd := hinv.applied sh tx (hA sh tx ops hx)
  exact ⟨hd, hinv.excl tx hd⟩

/-- What a participant applies is what the client asked for: every logged application on shard `sh`
    consists of exactly the operations the client named for `sh` when it began that transaction (so,
    with the theorem above, a shard holds its initial data plus the CLIENTS' operations of the
    commit-decided transactions, and nothing of any other transaction). -/
theorem applied_writes_are_the_clients_operations (stores : List Store) (tt mc lt : Nat) {s : Sys}
    (hr : Reach (Sys.init stores tt mc lt) s) (sh tx : Nat) (ops : List Op)
    (hx : (sh, tx, ops) ∈ s.appliedOps) : ∃ sp ∈ s.specs, sp.id = tx ∧ ops = sp.opsFor sh :=
  (OInv.reach hr).app sh tx ops hx

/-! ### non-vacuity: a concrete 2-shard run committing tx 0 and aborting (timing out) tx 1 -/

def demoInit : Sys := Sys.init [[(1, 5)], []] 2 100 1000

def demoRun : List Ev :=
  [ .begin [0, 1] [(0, [.put 1 7, .del 2]), (1, [.put 3 9])] [],
    .deliver 0, .deliver 1, .deliver 2, .deliver 3, .coordCommit 0, .deliver 4, .deliver 5,
    .begin [0, 1] [(0, [.put 1 8]), (1, [.put 3 1])] [],
    .deliver 7, .tick 3, .sweep, .deliver 9, .deliver 10, .deliver 8 ]

example : Reach demoInit (demoInit.run demoRun) := reach_run .refl _ (by decide)
example : (demoInit.run demoRun).decided = [(0, true), (1, false)] := by decide
example : (demoInit.run demoRun).applied = [(0, 0), (1, 0)] := by decide
example : (demoInit.run demoRun).discarded = [(1, 1)] := by decide
example : sget ((demoInit.run demoRun).storeOf 0) 1 = some 7 ∧ sget ((demoInit.run demoRun).storeOf 1) 3 = some 9 := by
  decide

example : (demoInit.run demoRun).appliedOps = [(0, 0, [.put 1 7, .del 2]), (1, 0, [.put 3 9])] := by decide
-- the stretch `tx 1 prepares, times out, is aborted, its late vote arrives` is quiet, and non-trivially so
example : ((demoInit.run (demoRun.take 9)).quiet (demoRun.drop 9)) = true := by decide
-- the hypotheses of `abort_restores_shard` hold for the delivery of tx 1's abort to the shard that prepared it
example : (demoInit.run (demoRun.take 13)).msgs[10]? = some (Msg.abort 1 1) := by decide

/-! ### late PREPARE of a transaction that is already finished on the participant -/

/-- A PREPARE(t) delivered (late duplicate, any number of times, at any point of any schedule) to a
    participant on which `t` is already FINISHED (applied or discarded there, no prepared record left;
    its `tx_locks` entry is still there, empty):
    * touches no other participant and no data;
    * never changes the lock (holder AND handle) of any key held by another transaction;
    * never changes another transaction's prepared record;
    * if one of its keys is held by another transaction it is answered CONFLICT naming another
      transaction and the participant is left exactly as it was — no prepared record for `t`, so a
      later ABORT(t) finds nothing to apply (`abort t` is the identity);
    * and whatever happens afterwards (also when the keys were free and `t` was re-prepared): in every
      state reachable from there, every ABORT delivery (first, duplicate, re-sent) and every
      participant-side cleanup (`cleanup_stale`, `recover`, any shard, any timeout) leaves every key
      of every shard exactly as it is. -/
theorem late_prepare_of_finished_tx_harmless (stores : List Store) (tt mc lt : Nat) {s : Sys}
    (hr : Reach (Sys.init stores tt mc lt) s) (i t sh : Nat) (ops : List Op) (p : Participant)
    (hm : s.msgs[i]? = some (Msg.prepare t sh ops)) (hp : s.parts[sh]? = some p)
    (hfin : s.finishedOn sh t = true) :
    ∃ p', (s.step (.deliver i)).parts = s.parts.set sh p' ∧
      (s.step (.deliver i)).parts[sh]? = some p' ∧
      p'.store = p.store ∧
      (∀ k l, findLock p.locks.locks k = some l → l.tx ≠ t → findLock p'.locks.locks k = some l) ∧
      (∀ t', t' ≠ t → findPrepared p'.prepared t' = findPrepared p.prepared t') ∧
      ((∃ op ∈ ops, ∃ l, findLock p.locks.locks op.key = some l ∧ l.tx ≠ t) →
        p' = p ∧ findPrepared p'.prepared t = none ∧ p'.abort t = (p', false) ∧
        ∃ c, c ≠ t ∧ (s.step (.deliver i)).msgs = s.msgs ++ [Msg.vote t sh (.conflict c)]) ∧
      (∀ s'', Reach (s.step (.deliver i)) s'' →
        (∀ j tx' sh', s''.msgs[j]? = some (Msg.abort tx' sh') →
          ∀ sh2 k, sget ((s''.step (.deliver j)).storeOf sh2) k = sget (s''.storeOf sh2) k) ∧
        (∀ sh' to sh2 k, sget ((s''.step (.cleanupStale sh' to)).storeOf sh2) k = sget (s''.storeOf sh2) k) ∧
        (∀ sh' to sh2 k, sget ((s''.step (.recover sh' to)).storeOf sh2) k = sget (s''.storeOf sh2) k)) := by
  have hS := (sinv_of_reach hr).1
  have hP := hS p (List.mem_of_getElem? hp)
  obtain ⟨hparts, hmsgs⟩ := step_deliver_prepare hm hp
  obtain ⟨h1, h2, h3, h4⟩ := prepare_respects_others hP t ops
  have hnone : findPrepared p.prepared t = none := by
    simp only [Sys.finishedOn, hp, Bool.and_eq_true, Option.isNone_iff_eq_none] at hfin
    exact hfin.2
  refine ⟨(p.prepare s.now s.nextHandle t ops).1, hparts, ?_, h1, h2, h3, ?_, ?_⟩
  · rw [hparts]; exact getElem?_set_self hp
  · intro hheld
    obtain ⟨c, hc, he⟩ := h4 hheld
    rw [he] at hmsgs
    rw [he]
    exact ⟨rfl, hnone, abort_absent hnone, c, hc, hmsgs⟩
  · intro s'' hr''
    have hr2 : Reach (Sys.init stores tt mc lt) s'' := (Reach.step (.deliver i) hr rfl).trans hr''
    refine ⟨?_, cleanupStale_keeps_data (sinv_of_reach hr2).1,
      recover_keeps_data (sinv_of_reach hr2).1⟩
    intro j tx' sh' hj
    apply abort_restores_shard stores tt mc lt hr2 (.deliver j) rfl
    intro i' tx2 sh2 he hm2
    cases he
    rw [hj] at hm2
    cases hm2

/-! the 2-transaction history: T0 = tx 0 prepares k1 on shard 0, times out (its PREPARE to shard 1 is
    lost) and is aborted on shard 0; T1 = tx 1 prepares the same key on shard 0; the delayed duplicate
    PREPARE(T0) arrives while T1 is prepared; T1 commits on both shards; the re-sent ABORT(T0) arrives. -/

def lateInit : Sys := Sys.init [[(1, 5)], [(2, 6)]] 2 100 1000

def lateRun : List Ev :=
  [ .begin [0, 1] [(0, [.put 1 7]), (1, [.put 2 8])] [],   -- msgs 0 = PREPARE(T0) shard 0, 1 = shard 1 (lost)
    .deliver 0, .deliver 2,                                 -- 2 = shard 0's YES vote
    .tick 3, .sweep,                                        -- timeout: 3 = ABORT(T0) shard 0, 4 = shard 1
    .deliver 3, .deliver 4,                                 -- T0 is finished on shard 0
    .begin [0, 1] [(0, [.put 1 9]), (1, [.put 2 10])] [],  -- 5 = PREPARE(T1) shard 0, 6 = shard 1
    .deliver 5,                                             -- T1 prepared on shard 0, holds k1; 7 = its YES
    .deliver 0,                                             -- the late duplicate PREPARE(T0); 8 = its answer
    .deliver 8, .deliver 7, .deliver 6, .deliver 9,         -- T1 collects its votes (9 = shard 1's YES)
    .coordCommit 1, .deliver 10, .deliver 11,               -- COMMIT(T1) applied on both shards
    .deliver 3 ]                                            -- the re-sent ABORT(T0) reaches shard 0

def lateMid : Sys := lateInit.run (lateRun.take 9)

-- non-vacuity: `lateMid` is reachable and satisfies every hypothesis of
-- `late_prepare_of_finished_tx_harmless`, including "one of the keys is held by another transaction";
-- T0's `tx_locks` entry has survived `release_by_handle` (empty), which is what the variant reads
example : Reach lateInit lateMid := reach_run .refl _ (by decide)
example : lateMid.msgs[0]? = some (Msg.prepare 0 0 [.put 1 7]) := by decide
example : lateMid.finishedOn 0 0 = true := by decide
example : (lateMid.parts[0]?.map (·.holder 1)) = some (some 1) := by decide
example : (lateMid.parts[0]?.map (·.locks.txLocks)) = some [(0, []), (1, [1])] := by decide
-- … and on the code as it is the whole history is harmless: CONFLICT, T1 keeps k1, both shards end with T1's writes
example : (lateMid.step (.deliver 0)).msgs[8]? = some (Msg.vote 0 0 (.conflict 1)) := by decide
example : ((lateMid.step (.deliver 0)).parts[0]?.map (·.holder 1)) = some (some 1) := by decide
example : Reach lateInit (lateInit.run lateRun) := reach_run .refl _ (by decide)
example : (lateInit.run lateRun).decided = [(0, false), (1, true)] := by decide
example : sget ((lateInit.run lateRun).storeOf 0) 1 = some 9 ∧ sget ((lateInit.run lateRun).storeOf 1) 2 = some 10 := by
  decide

/-- The conflict-check-skipping variant of `try_lock` ("a transaction with an entry in `tx_locks` is
    re-entering, skip the scan" — while `release_by_handle` keeps the entry of a finished transaction)
    breaks `late_prepare_of_finished_tx_harmless` on the 2-transaction history.  Up to the late PREPARE
    the variant run is the run of the code (T0 finished on shard 0, T1 prepared there and holding k1);
    the late PREPARE(T0) is then answered YES, the lock on k1 moves from T1 to T0, and a prepared record
    for T0 with the stale pre-image k1 = 5 is kept; T1 commits on both shards; the re-sent ABORT(T0) —
    or the participant's own `cleanup_stale` — then installs 5 over T1's committed 9 on shard 0 while
    shard 1 keeps T1's 10: the shards are split and a committed write is lost. -/
theorem late_prepare_breaks_tryLockNoConflictCheckForKnownTx_witness :
    let mid := lateInit.runNoConflictCheckForKnownTx (lateRun.take 9)
    let stolen := mid.stepNoConflictCheckForKnownTx (.deliver 0)
    let done := lateInit.runNoConflictCheckForKnownTx (lateRun.take 17)
    let resent := done.stepNoConflictCheckForKnownTx (.deliver 3)
    let cleaned := done.stepNoConflictCheckForKnownTx (.cleanupStale 0 0)
    -- hypotheses of the theorem hold before the late PREPARE …
    mid.msgs[0]? = some (Msg.prepare 0 0 [.put 1 7]) ∧ mid.finishedOn 0 0 = true ∧
    (mid.parts[0]?.map (·.holder 1)) = some (some 1) ∧
    -- … which now takes T1's lock, is answered YES and leaves a record with a stale undo image
    (stolen.parts[0]?.map (·.holder 1)) = some (some 0) ∧
    stolen.msgs[8]? = some (Msg.vote 0 0 (.yes 2 [1])) ∧
    (stolen.parts[0]?.map (fun q => (findPrepared q.prepared 0).map (·.undo))) = some (some [.restore 1 5]) ∧
    -- T1's one decision is commit and both shards applied it
    done.decided = [(0, false), (1, true)] ∧ done.applied = [(0, 1), (1, 1)] ∧
    sget (done.storeOf 0) 1 = some 9 ∧ sget (done.storeOf 1) 2 = some 10 ∧
    -- the re-sent ABORT(T0) (msgs[3]) rolls shard 0 back to T0's stale pre-image; shard 1 keeps T1's write
    resent.msgs[3]? = some (Msg.abort 0 0) ∧
    sget (resent.storeOf 0) 1 = some 5 ∧ sget (resent.storeOf 1) 2 = some 10 ∧
    -- and so does the participant's stale-prepared cleanup
    sget (cleaned.storeOf 0) 1 = some 5 ∧ sget (cleaned.storeOf 1) 2 = some 10 := by
  decide

/-! ### locks: what keeps concurrent transactions on overlapping keys apart -/

/-- In every reachable state every prepared transaction holds, under its own handle, the lock of the
    logical key of each of its operations (so two transactions prepared on the same participant never
    share a logical key). -/
theorem prepared_tx_holds_its_locks (stores : List Store) (tt mc lt : Nat) {s : Sys}
    (hr : Reach (Sys.init stores tt mc lt) s) (p : Participant) (hp : p ∈ s.parts)
    (pt : PreparedTx) (hpt : pt ∈ p.prepared) (op : Op) (hop : op ∈ pt.ops) :
    ∃ l, findLock p.locks.locks op.key = some l ∧ l.tx = pt.tx ∧ l.handle = pt.handle :=
  ((sinv_of_reach hr).1 p hp).held pt hpt op hop

/-- A PREPARE — first, duplicate or late, of a live or of a finished transaction — never changes the
    lock (holder and handle) of a key held by another transaction, never touches another transaction's
    prepared record or any data, and is answered CONFLICT with the participant left exactly as it was
    when one of its logical keys is held by another transaction. -/
theorem prepare_never_moves_foreign_lock (stores : List Store) (tt mc lt : Nat) {s : Sys}
    (hr : Reach (Sys.init stores tt mc lt) s) (p : Participant) (hp : p ∈ s.parts)
    (tx : Nat) (ops : List Op) :
    let r := p.prepare s.now s.nextHandle tx ops
    r.1.store = p.store ∧
    (∀ k l, findLock p.locks.locks k = some l → l.tx ≠ tx → findLock r.1.locks.locks k = some l) ∧
    (∀ t', t' ≠ tx → findPrepared r.1.prepared t' = findPrepared p.prepared t') ∧
    ((∃ op ∈ ops, ∃ l, findLock p.locks.locks op.key = some l ∧ l.tx ≠ tx) →
      ∃ c, c ≠ tx ∧ r = (p, .conflict c)) :=
  prepare_respects_others ((sinv_of_reach hr).1 p hp) tx ops

/-- Workloads of Put / Delete / CompareAndSwap operations keep the lock discipline by construction
    (logical key = storage key): for them the restriction on `begin` in the alphabet is vacuous. -/
theorem lock_discipline_of_plain_ops (ops : List Op) (h : ∀ op ∈ ops, op.isPlain = true) :
    lockDiscipline ops = true := by
  apply (lockDiscipline_iff ops).2
  intro a ha b hb he
  have h1 := h a ha
  have h2 := h b hb
  cases a <;> cases b <;> simp_all [Op.isPlain, Op.writeKey, Op.undoKey, Op.key]

/-! non-vacuity: a mixed-kind workload (Embed, TableUpdate, CompareAndSwap, NodeCreate, EdgeCreate) that
    keeps the discipline, with forged votes in the schedule: tx 0 commits on both shards although a
    stray YES tagged with shard 5, a forged NO for the not-yet-begun tx 1 and a late forged CONFLICT
    were delivered; tx 1 is aborted by a forged NO and changes nothing. -/

def mixedInit : Sys := Sys.init [[(1, 5), (tableK 3, .rows 4)], [(2, 6)]] 2 100 1000

def mixedRun : List Ev :=
  [ .begin [0, 1] [(0, [.embed 1 7, .tableUpdate 3 2 9, .cas 1 (some 5) 6]), (1, [.nodeCreate 2 4, .edgeCreate 2 3 1, .cas 2 none 1])] [],
    .forge 0 5 (.yes 77 [1]),          -- msgs 2: stray YES from shard 5 (not a participant)
    .forge 1 0 .no,                    -- msgs 3: NO for a transaction that does not exist yet
    .deliver 2, .deliver 0, .deliver 1,-- stray vote recorded; both participants prepare: msgs 4, 5
    .deliver 4, .deliver 5, .coordCommit 0, .deliver 6, .deliver 7,
    .forge 0 1 (.conflict 9), .deliver 8,
    .begin [0, 1] [(0, [.tableInsert 3 8]), (1, [.nodeDelete 2])] [],   -- tx 1: msgs 9, 10
    .deliver 9, .deliver 3,            -- shard 0 prepares tx 1 (msgs 11 = its YES); the early forged NO is recorded as shard 0's vote
    .deliver 10, .deliver 12,          -- shard 1 prepares (msgs 12 = its YES): all voted, not all YES -> msgs 13, 14 = ABORT(tx 1)
    .deliver 13, .deliver 11 ]         -- shard 0 discards tx 1; its real YES arrives late and is rejected

example : Reach mixedInit (mixedInit.run mixedRun) := reach_run .refl _ (by decide)
example : (mixedInit.run mixedRun).decided = [(0, true), (1, false)] := by decide
example : (mixedInit.run mixedRun).cast = [(0, 0, true), (0, 1, true), (1, 0, true), (1, 1, true)] := by decide
example : (mixedInit.run mixedRun).discarded = [(0, 1)] := by decide
-- Embed wrote "emb:k1", TableUpdate wrote the ROW key, CAS(k1: 5 -> 6) matched, CAS(k2: [] -> 1) did not (k2 = 6)
example : sget ((mixedInit.run mixedRun).storeOf 0) (embK 1) = some (.vec 7) ∧
    sget ((mixedInit.run mixedRun).storeOf 0) (rowK 3 2) = some (.row 2 9) ∧
    sget ((mixedInit.run mixedRun).storeOf 0) (tableK 3) = some (.rows 4) ∧
    sget ((mixedInit.run mixedRun).storeOf 0) 1 = some 6 ∧
    sget ((mixedInit.run mixedRun).storeOf 1) (nodeK 2) = some (.node 4) ∧
    sget ((mixedInit.run mixedRun).storeOf 1) (edgeK 2 3 1) = some .edge ∧
    sget ((mixedInit.run mixedRun).storeOf 1) 2 = some 6 := by decide
-- the hypothesis of `lock_discipline_of_plain_ops` holds of a real workload, and the mixed-kind workload above keeps the discipline too
example : ∀ op ∈ [Op.put 1 2, .cas 1 none 3, .del 1], op.isPlain = true := by decide
example : lockDiscipline (allOps (mixedInit.run mixedRun).specs) = true := by decide
-- `prepared_tx_holds_its_locks` / `prepare_never_moves_foreign_lock` are not vacuous: after 15 events tx 1 is prepared on shard 0
example : ((mixedInit.run (mixedRun.take 15)).parts[0]?.map (fun p => p.prepared.map (·.tx))) = some [1] := by decide

/-- WITHOUT the lock discipline `abort_restores_shard` is false of the code as it is.  T0 = `Embed{k1}`
    and T1 = `Put{"emb:k1"}` reach the same storage key under different logical keys (`k1` resp.
    `"emb:k1"`), so both are prepared on shard 0 at the same time; T0's undo image of `"emb:k1"` is
    "absent".  T1 is decided commit and applied on both shards; T0 times out and its ABORT deletes
    `"emb:k1"`: an aborted transaction changed the shard, a committed write is lost, and shard 1 still
    holds T1's other write (split).  Every event of the run is in the alphabet except the second
    `begin`, which breaks the discipline. -/
theorem abort_restores_shard_without_lock_discipline_witness :
    let init := Sys.init [[], []] 2 100 1000
    let b0 : Ev := .begin [0, 1] [(0, [.embed 1 7]), (1, [.put 2 8])] []
    let b1 : Ev := .begin [0, 1] [(0, [.put (embK 1) 9]), (1, [.put 3 10])] []
    let rest : List Ev := [ .deliver 0, .deliver 2, .deliver 3, .deliver 5, .deliver 6, .coordCommit 1,
                            .deliver 7, .deliver 8, .tick 3, .sweep ]
    let s1 := init.step b0
    let s2 := s1.step b1
    let s := s2.run rest
    init.inAlphabet b0 = true ∧ s1.inAlphabet b1 = false ∧ s2.allIn rest = true ∧
    -- both transactions were prepared on shard 0 together, under different logical keys
    (s2.run (rest.take 2)).parts[0]?.map (fun p => p.locks.locks.map (fun l => (l.key, l.tx))) =
      some [(embK 1, 1), (1, 0)] ∧
    s.decided = [(1, true), (0, false)] ∧ s.applied = [(0, 1), (1, 1)] ∧
    s.msgs[9]? = some (Msg.abort 0 0) ∧ s.inAlphabet (.deliver 9) = true ∧
    sget (s.storeOf 0) (embK 1) = some 9 ∧ sget (s.storeOf 1) 3 = some 10 ∧
    sget ((s.step (.deliver 9)).storeOf 0) (embK 1) = none ∧
    sget ((s.step (.deliver 9)).storeOf 1) 3 = some 10 := by
  decide

/-! ### `record_vote` is two critical sections (VoteSplit.lean) -/

/-- The atomic `recordVote` that every theorem above is about is exactly phase 1 followed, with nothing
    in between, by phases 2 + 3 of the code's `record_vote` — for every coordinator state and vote. -/
theorem record_vote_is_its_two_critical_sections (c : Coordinator) (tx sh : Nat) (v : Vote)
    (f : Nat → Nat → Bool) :
    c.recordVote tx sh v f =
      match c.recordVoteP1 tx sh v with
      | .error e => .error e
      | .ok (.done c' r) => .ok (c', r)
      | .ok (.check c' snap) => .ok (c'.recordVoteP3 tx snap f) :=
  recordVote_eq_phases c tx sh v f

/-- Phase 3b of the code does not look at the phase it overwrites: whatever happened to the transaction
    between the two critical sections (as long as it is still pending), an orthogonal snapshot makes
    it `Prepared`, i.e. committable. -/
theorem record_vote_phase3_overwrites_any_phase (c : Coordinator) (tx : Nat) (snap t : DTx)
    (f : Nat → Nat → Bool) (hc : crossConflict f snap.votes = false) (hf : findTx c.pending tx = some t) :
    c.recordVoteP3 tx snap f = ({ c with pending := setPhase c.pending tx .prepared }, some .prepared) ∧
    findTx (c.recordVoteP3 tx snap f).1.pending tx = some { t with phase := .prepared } := by
  have h1 : c.recordVoteP3 tx snap f = ({ c with pending := setPhase c.pending tx .prepared }, some .prepared) := by
    simp only [Coordinator.recordVoteP3, hc, hf, Bool.false_eq_true, if_false]
  rw [h1]
  exact ⟨rfl, findTx_setPhase .prepared hf⟩

/-- The re-checking variant (the proposed repair) leaves a transaction that is no longer `Preparing`
    exactly as it is. -/
theorem record_vote_phase3_recheck_keeps_decided_phase (c : Coordinator) (tx : Nat) (snap t : DTx)
    (f : Nat → Nat → Bool) (hf : findTx c.pending tx = some t) (hp : t.phase ≠ .preparing) :
    c.recordVoteP3Recheck tx snap f = (c, none) := by
  simp only [Coordinator.recordVoteP3Recheck, hf]
  have : (t.phase != .preparing) = true := by simpa using hp
  simp only [this, if_true]

/-- OUTSIDE the quantifier as far as the tree goes (`cluster.rs` calls `record_vote` from one loop), but
    reachable through the `&self` API with two threads: between phase 1 and phase 3 of the last real
    YES vote, a stray NO vote (tagged with a non-participant shard; inside the alphabet as a message)
    is recorded by another thread — all participants have voted, not all votes are YES: phase
    `Aborting`, ABORT broadcast queued.  Phase 3b of the first thread then overwrites `Aborting` with
    `Prepared`, and `commit` succeeds: the transaction has an ABORT broadcast in the queue AND a
    commit decision.  With the re-check the same interleaving leaves it `Aborting` and `commit` fails. -/
theorem record_vote_interleaved_phases_decide_twice_outside_quantifier_witness :
    let c0 : Coordinator := ⟨[], [], 100, 2, 0⟩
    let f : Nat → Nat → Bool := fun _ _ => false
    ∃ (c1 c2 c3 : Coordinator) (snap : DTx) (c4 : Coordinator),
      (c0.begin 0 [0, 1]).toOption = some (c1, 0) ∧
      (c1.recordVote 0 0 (.yes 0 [1]) f).toOption.map (·.1) = some c2 ∧
      -- thread A, phase 1 of shard 1's YES: everybody voted YES, snapshot taken
      (match c2.recordVoteP1 0 1 (.yes 1 [2]) with | .ok (.check c snap') => some (c.pending, snap'.votes) | _ => none) =
        some (c3.pending, snap.votes) ∧
      -- thread B, a whole `record_vote` of a stray NO in between: Aborting + queued ABORT broadcast
      (c3.recordVote 0 5 .no f).toOption = some (c4, some Phase.aborting) ∧
      (c4.pending.map (·.phase), c4.pendingAborts) = ([Phase.aborting], [(0, AbortReason.votedNo, [0, 1])]) ∧
      -- thread A, phase 3: `Prepared`; the coordinator commits a transaction whose ABORT is in the queue
      ((c4.recordVoteP3 0 snap f).1.pending.map (·.phase), (c4.recordVoteP3 0 snap f).2) =
        ([Phase.prepared], some Phase.prepared) ∧
      ((c4.recordVoteP3 0 snap f).1.commit 0).toOption.isSome = true ∧
      (c4.recordVoteP3 0 snap f).1.pendingAborts = [(0, AbortReason.votedNo, [0, 1])] ∧
      -- the repair: phase 3 leaves `Aborting` alone and the commit is refused
      (c4.recordVoteP3Recheck 0 snap f) = (c4, none) ∧
      ((c4.recordVoteP3Recheck 0 snap f).1.commit 0).toOption.isSome = false := by
  refine ⟨⟨[⟨0, [0, 1], .preparing, [], 0, 2⟩], [], 100, 2, 1⟩,
          ⟨[⟨0, [0, 1], .preparing, [(0, .yes 0 [1])], 0, 2⟩], [], 100, 2, 1⟩,
          ⟨[⟨0, [0, 1], .preparing, [(0, .yes 0 [1]), (1, .yes 1 [2])], 0, 2⟩], [], 100, 2, 1⟩,
          ⟨0, [0, 1], .preparing, [(0, .yes 0 [1]), (1, .yes 1 [2])], 0, 2⟩,
          ⟨[⟨0, [0, 1], .aborting, [(0, .yes 0 [1]), (1, .yes 1 [2]), (5, .no)], 0, 2⟩], [(0, .votedNo, [0, 1])], 100, 2, 1⟩,
          ?_⟩
  decide

/-! ### the two counter-traces over the EXTENDED alphabet (outside C03's quantifier) -/

/-- With participant-side `cleanup_stale` (presumed abort after a YES vote) in the alphabet,
    atomicity fails: shard 0 applied tx 0, shard 1 discarded it. -/
theorem split_outcome_outside_quantifier_witness :
    ∃ s, ReachExt (Sys.init [[], []] 2 100 1000) s ∧ (0, 0) ∈ s.applied ∧ (1, 0) ∈ s.discarded :=
  ⟨(Sys.init [[], []] 2 100 1000).run
      [ .begin [0, 1] [(0, [.put 1 7]), (1, [.put 3 9])] [],
        .deliver 0, .deliver 1, .deliver 2, .deliver 3, .coordCommit 0, .deliver 4, .cleanupStale 1 0 ],
   reachExt_run .refl _, by decide, by decide⟩

/-- With participant lock EXPIRY in the alphabet, an abort changes a shard: tx 0 prepares k1 (image 5),
    its lock expires, tx 1 commits k1 = 9, then tx 0's abort re-installs 5 although tx 0 never wrote. -/
theorem abort_changes_shard_outside_quantifier_witness :
    ∃ s i, ReachExt (Sys.init [[(1, 5)]] 2 100 0) s ∧ s.msgs[i]? = some (Msg.abort 0 0) ∧
      sget (s.storeOf 0) 1 = some 9 ∧ sget ((s.step (.deliver i)).storeOf 0) 1 = some 5 :=
  ⟨(Sys.init [[(1, 5)]] 2 100 0).run
      [ .begin [0] [(0, [.put 1 7])] [], .begin [0] [(0, [.put 1 9])] [],
        .deliver 0, .tick 1, .deliver 1, .deliver 3, .coordCommit 1, .deliver 4, .coordAbort 0 ],
   5, reachExt_run .refl _, by decide, by decide, by decide⟩

end Neumann.TwoPC.Props
