import NeumannModel.TwoPC.Lemmas
import NeumannModel.TwoPC.LemmasPart
/-
  C03 — "Two-phase commit: every participant reaches the coordinator's one decision".
  ONLY the property theorems and their non-vacuity examples; helpers are in `Lemmas*.lean`.

  Every theorem quantifies over every state reachable from an arbitrary initial configuration
  (any number of shards with arbitrary contents, any timeout / concurrency limit) through ANY finite
  sequence of events of the property's alphabet (`Reach`): new transactions (unboundedly many, any
  participants / keys), delivery of any pool message any number of times in any order (or never:
  duplication / reordering / delay / loss), coordinator timeout sweeps and clock ticks at any
  point, coordinator commit / abort calls at any point, late / duplicate votes.  Outside the
  alphabet (see DESIGN §7 C03): participant-side `cleanup_stale` / `recover` and participant lock
  expiry — the two `…_outside_quantifier_witness` theorems show what they would break.
-/
namespace Neumann.TwoPC.Props
open Neumann.TwoPC

/-- Per tx at most one of {commit, abort} is ever decided, and the decision is stable: once `b` is
    decided for `tx` in a reachable state, in every later reachable state `b` is still the decision
    and the opposite decision is absent. -/
theorem decide_once (stores : List Store) (tt mc lt : Nat) {s s' : Sys}
    (hr : Reach (Sys.init stores tt mc lt) s) (hr' : Reach s s') (tx : Nat) (b : Bool)
    (hd : (tx, b) ∈ s.decided) : (tx, b) ∈ s'.decided ∧ (tx, !b) ∉ s'.decided := by
  have hinv := (InvA.init stores tt mc lt).reach (hr.trans hr')
  have hd' := decided_mono_reach hr' _ hd
  refine ⟨hd', ?_⟩
  cases b with
  | true => exact hinv.excl tx hd'
  | false => exact fun h => hinv.excl tx h hd'

/-- The coordinator decides commit only if every participant voted YES (the YES votes, produced by
    the participants' `prepare`, are in the pool). -/
theorem commit_needs_all_yes (stores : List Store) (tt mc lt : Nat) {s : Sys}
    (hr : Reach (Sys.init stores tt mc lt) s) (tx : Nat) (hd : (tx, true) ∈ s.decided) :
    ∀ sp ∈ s.specs, sp.id = tx → ∀ sh ∈ sp.shards, ∃ h ks, Msg.vote tx sh (.yes h ks) ∈ s.msgs :=
  ((InvA.init stores tt mc lt).reach hr).commitYes tx hd

/-- No participant applies a transaction's writes unless the decision was commit. -/
theorem no_apply_without_commit (stores : List Store) (tt mc lt : Nat) {s : Sys}
    (hr : Reach (Sys.init stores tt mc lt) s) (sh tx : Nat) (ha : (sh, tx) ∈ s.applied) :
    (tx, true) ∈ s.decided :=
  ((InvA.init stores tt mc lt).reach hr).applied sh tx ha

/-- A participant discards a prepared (YES-voted) transaction only after an abort decision. -/
theorem discard_needs_abort_decision (stores : List Store) (tt mc lt : Nat) {s : Sys}
    (hr : Reach (Sys.init stores tt mc lt) s) (sh tx : Nat) (hd : (sh, tx) ∈ s.discarded) :
    (tx, false) ∈ s.decided :=
  ((InvA.init stores tt mc lt).reach hr).discarded sh tx hd

/-- Atomicity across shards: if one participant applied the writes, no participant that voted YES
    discards them — the shards never end up split between applied and rolled back. -/
theorem applied_implies_no_yes_voter_discards (stores : List Store) (tt mc lt : Nat) {s : Sys}
    (hr : Reach (Sys.init stores tt mc lt) s) (sh1 sh2 tx : Nat) (ha : (sh1, tx) ∈ s.applied) :
    (sh2, tx) ∉ s.discarded := by
  have hinv := (InvA.init stores tt mc lt).reach hr
  exact fun hd => hinv.excl tx (hinv.applied sh1 tx ha) (hinv.discarded sh2 tx hd)

/-- Aborted and timed-out transactions leave every shard's data exactly as it was — in the
    strongest step form: EVERY event of the alphabet other than the delivery of a commit message
    (so: every abort delivery — first, duplicate or late —, every timeout sweep, coordinator abort,
    prepare, vote, begin, tick) leaves every key of every shard unchanged. -/
theorem abort_restores_shard (stores : List Store) (tt mc lt : Nat) {s : Sys}
    (hr : Reach (Sys.init stores tt mc lt) s) (e : Ev) (ha : s.inAlphabet e = true)
    (hne : ∀ i tx sh, e = .deliver i → s.msgs[i]? ≠ some (Msg.commit tx sh)) :
    ∀ sh k, sget ((s.step e).storeOf sh) k = sget (s.storeOf sh) k :=
  (((SInv.init stores tt mc lt).reach hr).step e ha).2 hne

/-- … and over any stretch of execution without a commit delivery. -/
theorem abort_restores_shard_run (stores : List Store) (tt mc lt : Nat) {s : Sys}
    (hr : Reach (Sys.init stores tt mc lt) s) (es : List Ev) (hq : s.quiet es = true) :
    ∀ sh k, sget ((s.run es).storeOf sh) k = sget (s.storeOf sh) k := by
  induction es generalizing s with
  | nil => intro _ _; rfl
  | cons e es ih =>
    simp only [Sys.quiet, Bool.and_eq_true] at hq
    obtain ⟨⟨ha, hnc⟩, hq'⟩ := hq
    intro sh k
    have h1 := ih (Reach.step e hr ha) hq' sh k
    have h2 := abort_restores_shard stores tt mc lt hr e ha (by
      intro i tx sh' he hm
      subst he
      simp only [hm] at hnc
      cases hnc) sh k
    exact h1.trans h2

/-- Whenever an event changes some shard's data, it is the delivery of a commit message of a
    transaction whose (only) decision is commit: an aborted / timed-out transaction never changes data. -/
theorem data_change_needs_commit_decision (stores : List Store) (tt mc lt : Nat) {s : Sys}
    (hr : Reach (Sys.init stores tt mc lt) s) (e : Ev) (ha : s.inAlphabet e = true) (sh k : Nat)
    (hch : sget ((s.step e).storeOf sh) k ≠ sget (s.storeOf sh) k) :
    ∃ i tx sh', e = .deliver i ∧ s.msgs[i]? = some (Msg.commit tx sh') ∧
      (tx, true) ∈ s.decided ∧ (tx, false) ∉ s.decided := by
  have hinv := (InvA.init stores tt mc lt).reach hr
  apply Classical.byContradiction
  intro hno
  apply hch
  apply abort_restores_shard stores tt mc lt hr e ha
  intro i tx sh' he hm
  have hd := hinv.commitMsg tx sh' (List.mem_of_getElem? hm)
  exact hno ⟨i, tx, sh', he, hm, hd, hinv.excl tx hd⟩

/-- Run-level exactness: in every reachable state each shard holds exactly its initial data plus the
    logged commit applications, in application order — and every logged application belongs to a
    transaction whose one decision is commit.  Aborted and timed-out transactions (and every
    prepare / abort / duplicate / late message) contribute nothing to any shard. -/
theorem shard_data_is_replay_of_committed (stores : List Store) (tt mc lt : Nat) {s : Sys}
    (hr : Reach (Sys.init stores tt mc lt) s) :
    (∀ sh k, sget (s.storeOf sh) k = sget (replay (stores[sh]?.getD []) sh s.appliedOps) k) ∧
    (∀ sh tx ops, (sh, tx, ops) ∈ s.appliedOps → (tx, true) ∈ s.decided ∧ (tx, false) ∉ s.decided) := by
  have hinv := (InvA.init stores tt mc lt).reach hr
  obtain ⟨hR, hA⟩ := RInv.reach hr
  refine ⟨hR, ?_⟩
  intro sh tx ops hx
  have hd := hinv.applied sh tx (hA sh tx ops hx)
  exact ⟨hd, hinv.excl tx hd⟩

/-! ### non-vacuity: a concrete 2-shard run committing tx 0 and aborting (timing out) tx 1 -/

def demoInit : Sys := Sys.init [[(1, 5)], []] 2 100 1000

def demoRun : List Ev :=
  [ .begin [0, 1] [(0, [.put 1 7, .del 2]), (1, [.put 3 9])] [],
    .deliver 0, .deliver 1, .deliver 2, .deliver 3, .coordCommit 0, .deliver 4, .deliver 5,
    .begin [0, 1] [(0, [.put 1 8]), (1, [.put 3 1])] [],
    .deliver 7, .tick 3, .sweep, .deliver 9, .deliver 10, .deliver 8 ]

example : Reach demoInit (demoInit.run demoRun) := reach_run .refl _ (by decide)
example : (demoInit.run demoRun).decided = [(0, true), (1, false)] := by decide
example : (demoInit.run demoRun).applied = [(0, 0), (1, 0)] := by decide
example : (demoInit.run demoRun).discarded = [(1, 1)] := by decide
example : sget ((demoInit.run demoRun).storeOf 0) 1 = some 7 ∧ sget ((demoInit.run demoRun).storeOf 1) 3 = some 9 := by
  decide

example : (demoInit.run demoRun).appliedOps = [(0, 0, [.put 1 7, .del 2]), (1, 0, [.put 3 9])] := by decide
-- the stretch `tx 1 prepares, times out, is aborted, its late vote arrives` is quiet, and non-trivially so
example : ((demoInit.run (demoRun.take 9)).quiet (demoRun.drop 9)) = true := by decide
-- the hypotheses of `abort_restores_shard` hold for the delivery of tx 1's abort to the shard that prepared it
example : (demoInit.run (demoRun.take 13)).msgs[10]? = some (Msg.abort 1 1) := by decide

/-! ### the two counter-traces over the EXTENDED alphabet (outside C03's quantifier) -/

/-- With participant-side `cleanup_stale` (presumed abort after a YES vote) in the alphabet,
    atomicity fails: shard 0 applied tx 0, shard 1 discarded it. -/
theorem split_outcome_outside_quantifier_witness :
    ∃ s, ReachExt (Sys.init [[], []] 2 100 1000) s ∧ (0, 0) ∈ s.applied ∧ (1, 0) ∈ s.discarded :=
  ⟨(Sys.init [[], []] 2 100 1000).run
      [ .begin [0, 1] [(0, [.put 1 7]), (1, [.put 3 9])] [],
        .deliver 0, .deliver 1, .deliver 2, .deliver 3, .coordCommit 0, .deliver 4, .cleanupStale 1 0 ],
   reachExt_run .refl _, by decide, by decide⟩

/-- With participant lock EXPIRY in the alphabet, an abort changes a shard: tx 0 prepares k1 (image 5),
    its lock expires, tx 1 commits k1 = 9, then tx 0's abort re-installs 5 although tx 0 never wrote. -/
theorem abort_changes_shard_outside_quantifier_witness :
    ∃ s i, ReachExt (Sys.init [[(1, 5)]] 2 100 0) s ∧ s.msgs[i]? = some (Msg.abort 0 0) ∧
      sget (s.storeOf 0) 1 = some 9 ∧ sget ((s.step (.deliver i)).storeOf 0) 1 = some 5 :=
  ⟨(Sys.init [[(1, 5)]] 2 100 0).run
      [ .begin [0] [(0, [.put 1 7])] [], .begin [0] [(0, [.put 1 9])] [],
        .deliver 0, .tick 1, .deliver 1, .deliver 3, .coordCommit 1, .deliver 4, .coordAbort 0 ],
   5, reachExt_run .refl _, by decide, by decide, by decide⟩

end Neumann.TwoPC.Props
