/-
  C03 — abort ACKNOWLEDGEMENT / RETRY bookkeeping of `DistributedTxCoordinator`
  (`abort_states`, `track_abort`, `handle_abort_ack`, `get_retry_aborts`; distributed_tx.rs).

  When the glue broadcasts an abort decision (`process_pending_aborts`) it calls `track_abort(tx, shards)`: the entry
  `abort_states[tx] = { pending_acks = set of shards, initiated_at = now, retry_count = 0 }`.  Every `TxAck(tx, shard)`
  that reaches the coordinator goes to `handle_abort_ack(tx, shard)` (cluster.rs `handle_tx_ack`): the shard is removed
  from `pending_acks`, and only when the set is EMPTY afterwards the entry is dropped.  `get_retry_aborts()` returns, for
  every entry whose back-off has elapsed (cumulative 1 s, 3 s, 7 s, 15 s, 31 s; at most 5 retries), the shards that have
  not acknowledged yet: the ABORT is re-sent to exactly those.  An ABORT message that was LOST is therefore re-sent as
  long as the entry is there — the entry is what stands between a lost message and a participant that voted YES and stays
  prepared (locks held) forever.

  The network of this layer: `told tx sh` = an ABORT(tx) reached shard `sh` (it rolls back / has nothing to roll back and
  answers with a `TxAck`); `ack tx sh` = a `TxAck(tx, sh)` reaches the coordinator — any number of times (duplication),
  in any order, or never (loss), but only a shard that was told sends one (`AckNet.inAlphabet`).  The clock of this layer
  is in milliseconds and is its own (`advance`).

  There is no commit-side equivalent in the code (commit acknowledgements are not tracked by the coordinator).
  `cleanup_stale_aborts` (gives up after 5 retries / 30 s) is not part of this model: the events below never call it.

  The VARIANT at the end is NOT the code: `handle_abort_ack` with a "last outstanding acknowledgement" fast path that drops
  the entry when one acknowledgement is outstanding, without looking at WHICH shard acknowledged.
-/
namespace Neumann.TwoPC

/-- association list as a `HashMap<u64, _>`: first match wins, `aSet` = `insert` (replaces), `aErase` = `remove` -/
def aGet {β : Type} : List (Nat × β) → Nat → Option β
  | [], _ => none
  | e :: r, k => if e.1 == k then some e.2 else aGet r k

def aErase {β : Type} (l : List (Nat × β)) (k : Nat) : List (Nat × β) := l.filter (fun e => e.1 != k)

def aSet {β : Type} (l : List (Nat × β)) (k : Nat) (v : β) : List (Nat × β) := aErase l k ++ [(k, v)]

/-- `shards.into_iter().collect::<HashSet<_>>()`: first occurrences -/
def dedupNat : List Nat → List Nat
  | [] => []
  | x :: r => x :: (dedupNat r).filter (fun y => y != x)

structure AbortState where
  pending : List Nat        -- `pending_acks` (a set: no duplicates)
  initiatedAt : Nat         -- ms
  retryCount : Nat
  deriving Repr, DecidableEq

def maxAbortRetries : Nat := 5

/-- `track_abort` -/
def trackAbort (m : List (Nat × AbortState)) (now tx : Nat) (shards : List Nat) : List (Nat × AbortState) :=
  aSet m tx ⟨dedupNat shards, now, 0⟩

/-- `handle_abort_ack`: the new map and the answer ("all acknowledged") -/
def handleAbortAck (m : List (Nat × AbortState)) (tx sh : Nat) : List (Nat × AbortState) × Bool :=
  match aGet m tx with
  | none => (m, false)
  | some st =>
    let p := st.pending.filter (fun x => x != sh)
    if p.isEmpty then (aErase m tx, true) else (aSet m tx { st with pending := p }, false)

/-- cumulative back-off of the next retry: 1 s, 3 s, 7 s, 15 s, 31 s -/
def cumulativeMs (retryCount : Nat) : Nat := (2 ^ (retryCount + 1) - 1) * 1000

def AbortState.due (st : AbortState) (now : Nat) : Bool :=
  st.retryCount < maxAbortRetries && decide (cumulativeMs st.retryCount ≤ now - st.initiatedAt)

/-- `get_retry_aborts`: the new map (retry counters) and the (tx, unacknowledged shards) to re-send the ABORT to -/
def getRetryAborts (m : List (Nat × AbortState)) (now : Nat) : List (Nat × AbortState) × List (Nat × List Nat) :=
  (m.map (fun e => if e.2.due now then (e.1, { e.2 with retryCount := e.2.retryCount + 1 }) else e),
   (m.filter (fun e => e.2.due now)).map (fun e => (e.1, e.2.pending)))

/-- the coordinator's `abort_states` + the ghost history of the network around it -/
structure AckNet where
  now : Nat                                -- ms clock
  states : List (Nat × AbortState)         -- `abort_states`
  told : List (Nat × Nat)                  -- ghost: (tx, shard) an ABORT(tx) reached the shard
  last : List (Nat × List Nat)             -- ghost: the recipient list of the last tracked broadcast of each tx
  deriving Repr

def AckNet.init : AckNet := ⟨0, [], [], []⟩

inductive EvA
  | track (tx : Nat) (shards : List Nat)   -- the glue broadcasts an abort decision and tracks it
  | told (tx sh : Nat)                     -- an ABORT(tx) message reaches shard `sh`
  | ack (tx sh : Nat)                      -- a TxAck(tx, sh) reaches the coordinator
  | advance (d : Nat)
  | retry                                  -- `get_retry_aborts` (its result is re-sent: more `told` may follow)
  deriving Repr

def AckNet.pendingOf (a : AckNet) (tx : Nat) : List Nat :=
  match aGet a.states tx with
  | some st => st.pending
  | none => []

def AckNet.lastOf (a : AckNet) (tx : Nat) : List Nat :=
  match aGet a.last tx with
  | some l => l
  | none => []

def AckNet.step (a : AckNet) : EvA → AckNet
  | .track tx shards => { a with states := trackAbort a.states a.now tx shards, last := aSet a.last tx shards }
  | .told tx sh => { a with told := a.told ++ [(tx, sh)] }
  | .ack tx sh => { a with states := (handleAbortAck a.states tx sh).1 }
  | .advance d => { a with now := a.now + d }
  | .retry => { a with states := (getRetryAborts a.states a.now).1 }

/-- only a shard that an ABORT(tx) reached acknowledges it (its TxAck may be duplicated, delayed, lost) -/
def AckNet.inAlphabet (a : AckNet) : EvA → Bool
  | .ack tx sh => a.told.contains (tx, sh)
  | _ => true

def AckNet.run (a : AckNet) (es : List EvA) : AckNet := es.foldl AckNet.step a

inductive ReachA : AckNet → Prop
  | init : ReachA AckNet.init
  | step {a : AckNet} (e : EvA) : ReachA a → a.inAlphabet e = true → ReachA (a.step e)

/-- every recipient of the last broadcast of every transaction was reached by an ABORT or is still awaited -/
def AckNet.Tracked (a : AckNet) : Prop :=
  ∀ tx sh, sh ∈ a.lastOf tx → (tx, sh) ∈ a.told ∨ sh ∈ a.pendingOf tx

/-- the (tx, shard) pairs a `get_retry_aborts` result re-sends the ABORT to -/
def resendPairs (r : List (Nat × List Nat)) : List (Nat × Nat) :=
  r.flatMap (fun e => e.2.map (fun sh => (e.1, sh)))

/-- one round of the retry loop over a network that now delivers: `get_retry_aborts`, every re-sent ABORT reaches its
    shard, every acknowledgement reaches the coordinator -/
def AckNet.resendRound (a : AckNet) : AckNet :=
  (resendPairs (getRetryAborts a.states a.now).2).foldl
    (fun b p => (b.step (.told p.1 p.2)).step (.ack p.1 p.2)) (a.step .retry)

/-- every tracked entry is due (fewer than 5 retries so far, back-off elapsed) -/
def AckNet.allDue (a : AckNet) : Prop := ∀ e ∈ a.states, e.2.due a.now = true

/-! ## VARIANT (not the code): "last outstanding acknowledgement" fast path -/

def handleAbortAckLastAckFastPath (m : List (Nat × AbortState)) (tx sh : Nat) : List (Nat × AbortState) × Bool :=
  match aGet m tx with
  | none => (m, false)
  | some st =>
    if st.pending.length == 1 then (aErase m tx, true)
    else (aSet m tx { st with pending := st.pending.filter (fun x => x != sh) }, false)

def AckNet.stepLastAckFastPath (a : AckNet) : EvA → AckNet
  | .ack tx sh => { a with states := (handleAbortAckLastAckFastPath a.states tx sh).1 }
  | e => a.step e

/-- a run of the variant that checks the alphabet along the way (`none` = an event outside it) -/
def AckNet.runLastAckFastPath (a : AckNet) : List EvA → Option AckNet
  | [] => some a
  | e :: es => if a.inAlphabet e then (a.stepLastAckFastPath e).runLastAckFastPath es else none

/-- the same for the code -/
def AckNet.runChecked (a : AckNet) : List EvA → Option AckNet
  | [] => some a
  | e :: es => if a.inAlphabet e then (a.step e).runChecked es else none

/-- `Tracked`, decidable on the shards `0..n-1` of the transactions `0..n-1` -/
def AckNet.trackedUpTo (a : AckNet) (n : Nat) : Bool :=
  (List.range n).all (fun tx => (a.lastOf tx).all (fun sh => a.told.contains (tx, sh) || (a.pendingOf tx).contains sh))

end Neumann.TwoPC
