import NeumannModel.TwoPC.VoteSplit
import NeumannModel.TwoPC.Lemmas
/-
  C03 — the atomic `Coordinator.recordVote` of the model is exactly the two critical sections of
  `record_vote` run back to back.
-/
namespace Neumann.TwoPC

theorem setPhase_setTx (ps : List DTx) (tx : Nat) (t1 : DTx) (ph : Phase) (h : t1.id = tx) :
    setPhase (setTx ps tx t1) tx ph = setTx ps tx { t1 with phase := ph } := by
  simp only [setPhase, setTx, List.map_map]
  apply List.map_congr_left
  intro t _
  simp only [Function.comp]
  by_cases ht : t.id = tx
  · simp only [ht, if_true, h]
  · simp only [ht, if_false]

theorem findTx_setTx {ps : List DTx} {tx : Nat} {t t1 : DTx} (hf : findTx ps tx = some t) (h : t1.id = tx) :
    findTx (setTx ps tx t1) tx = some t1 := by
  induction ps with
  | nil => simp [findTx] at hf
  | cons a r ih =>
    simp only [findTx] at hf
    simp only [setTx, List.map_cons, findTx]
    split at hf
    · rename_i ha
      simp only [ha, if_true, h]
    · rename_i ha
      simp only [ha, if_false]
      exact ih hf

theorem findTx_setPhase {ps : List DTx} {tx : Nat} {t : DTx} (ph : Phase) (hf : findTx ps tx = some t) :
    findTx (setPhase ps tx ph) tx = some { t with phase := ph } := by
  induction ps with
  | nil => simp [findTx] at hf
  | cons a r ih =>
    simp only [findTx] at hf
    simp only [setPhase, List.map_cons, findTx]
    split at hf
    · rename_i ha
      cases hf
      simp only [ha, if_true]
    · rename_i ha
      simp only [ha, if_false]
      exact ih hf

theorem recordVote_eq_phases (c : Coordinator) (tx sh : Nat) (v : Vote) (f : Nat → Nat → Bool) :
    c.recordVote tx sh v f =
      match c.recordVoteP1 tx sh v with
      | .error e => .error e
      | .ok (.done c' r) => .ok (c', r)
      | .ok (.check c' snap) => .ok (c'.recordVoteP3 tx snap f) := by
  unfold Coordinator.recordVote Coordinator.recordVoteP1
  cases hf : findTx c.pending tx with
  | none => rfl
  | some t =>
    have hid : t.id = tx := (findTx_some hf).2
    simp only
    split
    · rfl
    · rename_i hph
      have hph' : t.phase = .preparing := by simpa using hph
      split
      · rfl
      · split
        · split
          · -- all voted YES: phases 2 + 3 on the snapshot; the entry is still `Preparing`
            simp only [Coordinator.recordVoteP3]
            rw [findTx_setTx (t1 := { t with votes := t.votes ++ [(sh, v)] }) hf hid]
            simp only [hph', beq_self_eq_true, bne_self_eq_false, if_true, Bool.false_eq_true, if_false]
            split
            · rw [setPhase_setTx c.pending tx { t with votes := t.votes ++ [(sh, v)], phase := .preparing } _ hid]
            · rw [setPhase_setTx c.pending tx { t with votes := t.votes ++ [(sh, v)], phase := .preparing } _ hid]
          · rfl
        · rfl

/-! ### the coordinator shared by several threads: one decision under every interleaving -/

theorem mem_setPhase {ps : List DTx} {tx : Nat} {ph : Phase} {t : DTx} (h : t ∈ setPhase ps tx ph) :
    (∃ u ∈ ps, u.id = tx ∧ t = { u with phase := ph }) ∨ (t ∈ ps ∧ t.id ≠ tx) := by
  simp only [setPhase, List.mem_map] at h
  obtain ⟨u, hu, rfl⟩ := h
  split
  · rename_i hid; exact Or.inl ⟨u, hu, hid, rfl⟩
  · rename_i hid; exact Or.inr ⟨hu, hid⟩

/-- what phase 1 does when it changes anything -/
theorem recordVoteP1_ok {c : Coordinator} {tx sh : Nat} {v : Vote} {r : P1Result}
    (h : c.recordVoteP1 tx sh v = .ok r) :
    ∃ t t1 c', (r = .done c' none ∨ r = .done c' (some .aborting) ∨ r = .check c' t1) ∧
      t ∈ c.pending ∧ t.id = tx ∧ t.phase = .preparing ∧ t1.id = tx ∧
      c'.pending = setTx c.pending tx t1 ∧ c'.nextTx = c.nextTx ∧
      ((t1.phase = .preparing ∧ c'.pendingAborts = c.pendingAborts) ∨
       (t1.phase = .aborting ∧ ∃ reason ps, c'.pendingAborts = c.pendingAborts ++ [(tx, reason, ps)])) := by
  unfold Coordinator.recordVoteP1 at h
  split at h
  · cases h
  · rename_i t ht
    obtain ⟨hmem, hid⟩ := findTx_some ht
    split at h
    · cases h
    · rename_i hph
      have hph' : t.phase = .preparing := by simpa using hph
      split at h
      · cases h
      · dsimp only at h
        split at h
        · split at h
          · cases h
            exact ⟨t, _, _, Or.inr (Or.inr rfl), hmem, hid, hph', hid, rfl, rfl, Or.inl ⟨hph', rfl⟩⟩
          · cases h
            exact ⟨t, { t with votes := t.votes ++ [(sh, v)], phase := .aborting }, _, Or.inr (Or.inl rfl),
              hmem, hid, hph', hid, rfl, rfl, Or.inr ⟨rfl, _, _, rfl⟩⟩
        · cases h
          exact ⟨t, { t with votes := t.votes ++ [(sh, v)] }, _, Or.inl rfl, hmem, hid, hph', hid, rfl, rfl,
            Or.inl ⟨hph', rfl⟩⟩

/-- what phase 3 of the code does: nothing, or it moves a transaction that is `Preparing` NOW to
    `Prepared` (nothing queued) or to `Aborting` (one abort broadcast queued) -/
theorem recordVoteP3_cases (c : Coordinator) (tx : Nat) (snap : DTx) (f : Nat → Nat → Bool) :
    c.recordVoteP3 tx snap f = (c, none) ∨
    ∃ t, findTx c.pending tx = some t ∧ t.phase = .preparing ∧
      ((c.recordVoteP3 tx snap f) =
          ({ c with pending := setPhase c.pending tx .prepared }, some .prepared) ∨
       (c.recordVoteP3 tx snap f) =
          ({ c with pending := setPhase c.pending tx .aborting,
                    pendingAborts := c.pendingAborts ++ [(tx, .crossShard, snap.participants)] }, some .aborting)) := by
  unfold Coordinator.recordVoteP3
  split
  · split
    · rename_i t ht
      split
      · rename_i hph
        exact Or.inr ⟨t, ht, by simpa using hph, Or.inr rfl⟩
      · exact Or.inl rfl
    · exact Or.inl rfl
  · split
    · rename_i t ht
      split
      · exact Or.inl rfl
      · rename_i hph
        exact Or.inr ⟨t, ht, by simpa using hph, Or.inl rfl⟩
    · exact Or.inl rfl

structure CInv (s : CSys) : Prop where
  lt : ∀ t ∈ s.c.pending, t.id < s.c.nextTx
  uniq : ∀ t ∈ s.c.pending, ∀ t' ∈ s.c.pending, t.id = t'.id → t = t'
  com : ∀ tx ∈ s.commits, tx < s.c.nextTx ∧ ∀ t ∈ s.c.pending, t.id ≠ tx
  ab : ∀ tx, s.abortDecided tx → tx < s.c.nextTx ∧ ∀ t ∈ s.c.pending, t.id = tx → t.phase = .aborting
  excl : ∀ tx ∈ s.commits, ¬ s.abortDecided tx

theorem CInv.init (mc tt : Nat) : CInv (CSys.init mc tt) := by
  constructor <;> simp [CSys.init, CSys.abortDecided]

/-- a step that only rewrites the entry of one `Preparing` transaction `tx` (new entry / entries `t'`
    with `t'.id = tx`), possibly queueing an abort broadcast for `tx` together with phase `Aborting` -/
theorem CInv.rewrite {s : CSys} (h : CInv s) {c' : Coordinator} {tx : Nat} {t : DTx}
    (ht : t ∈ s.c.pending) (hid : t.id = tx) (hph : t.phase = .preparing)
    (hnext : c'.nextTx = s.c.nextTx)
    (hpend : ∀ t' ∈ c'.pending, (t'.id = tx ∧ ∃ u ∈ s.c.pending, u.id = tx) ∨ (t' ∈ s.c.pending ∧ t'.id ≠ tx))
    (huniq : ∀ a ∈ c'.pending, ∀ b ∈ c'.pending, a.id = b.id → a = b)
    (hab : c'.pendingAborts = s.c.pendingAborts ∨
      ((∀ t' ∈ c'.pending, t'.id = tx → t'.phase = .aborting) ∧
        ∃ r ps, c'.pendingAborts = s.c.pendingAborts ++ [(tx, r, ps)])) :
    CInv { s with c := c' } := by
  have hnot : ¬ s.abortDecided tx := by
    intro hd
    have := (h.ab tx hd).2 t ht hid
    rw [hph] at this; cases this
  have hdec : ∀ tx', CSys.abortDecided { s with c := c' } tx' → s.abortDecided tx' ∨
      (tx' = tx ∧ ∀ t' ∈ c'.pending, t'.id = tx → t'.phase = .aborting) := by
    intro tx' hd
    rcases hab with hab | ⟨hph', r, ps, hab⟩
    · left
      simp only [CSys.abortDecided] at hd ⊢
      rw [hab] at hd; exact hd
    · simp only [CSys.abortDecided, hab, List.map_append, List.mem_append, List.map_cons, List.map_nil,
        List.mem_singleton] at hd
      rcases hd with hd | hd | hd
      · exact Or.inl (Or.inl hd)
      · exact Or.inl (Or.inr hd)
      · exact Or.inr ⟨hd, hph'⟩
  constructor
  · intro t' ht'
    show t'.id < c'.nextTx
    rw [hnext]
    rcases hpend t' ht' with ⟨h1, _⟩ | ⟨h1, _⟩
    · rw [h1, ← hid]; exact h.lt t ht
    · exact h.lt t' h1
  · exact huniq
  · intro tx' hc
    obtain ⟨h1, h2⟩ := h.com tx' hc
    refine ⟨by show tx' < c'.nextTx; rw [hnext]; exact h1, ?_⟩
    intro t' ht'
    rcases hpend t' ht' with ⟨h3, _⟩ | ⟨h3, _⟩
    · rw [h3, ← hid]; exact h2 t ht
    · exact h2 t' h3
  · intro tx' hd
    rcases hdec tx' hd with hd' | ⟨rfl, hph'⟩
    · obtain ⟨h1, h2⟩ := h.ab tx' hd'
      refine ⟨by show tx' < c'.nextTx; rw [hnext]; exact h1, ?_⟩
      intro t' ht' hid'
      rcases hpend t' ht' with ⟨h3, _⟩ | ⟨h3, _⟩
      · exact absurd hd' (by rw [← hid', h3]; exact hnot)
      · exact h2 t' h3 hid'
    · refine ⟨by show tx' < c'.nextTx; rw [hnext, ← hid]; exact h.lt t ht, hph'⟩
  · intro tx' hc hd
    rcases hdec tx' hd with hd' | ⟨rfl, _⟩
    · exact h.excl tx' hc hd'
    · exact (h.com tx' hc).2 t ht hid

theorem CInv.step {s : CSys} (h : CInv s) (e : CEv) : CInv (s.step e) := by
  cases e with
  | begin now ps =>
    simp only [CSys.step, CSys.stepWith]
    cases hb : s.c.begin now ps with
    | error e => exact h
    | ok r =>
      simp only
      unfold Coordinator.begin at hb
      split at hb
      · cases hb
      · cases hb
        constructor
        · intro t ht
          simp only [List.mem_append, List.mem_singleton] at ht
          rcases ht with ht | rfl
          · exact Nat.lt_succ_of_lt (h.lt t ht)
          · exact Nat.lt_succ_self _
        · intro a ha b hb hab
          simp only [List.mem_append, List.mem_singleton] at ha hb
          rcases ha with ha | rfl <;> rcases hb with hb | rfl
          · exact h.uniq a ha b hb hab
          · have := h.lt a ha; simp only at hab; omega
          · have := h.lt b hb; simp only at hab; omega
          · rfl
        · intro tx hc
          obtain ⟨h1, h2⟩ := h.com tx hc
          refine ⟨Nat.lt_succ_of_lt h1, ?_⟩
          intro t ht
          simp only [List.mem_append, List.mem_singleton] at ht
          rcases ht with ht | rfl
          · exact h2 t ht
          · simp only; omega
        · intro tx hd
          have hd' : s.abortDecided tx := hd
          obtain ⟨h1, h2⟩ := h.ab tx hd'
          refine ⟨Nat.lt_succ_of_lt h1, ?_⟩
          intro t ht hid
          simp only [List.mem_append, List.mem_singleton] at ht
          rcases ht with ht | rfl
          · exact h2 t ht hid
          · simp only at hid; omega
        · intro tx hc hd
          exact h.excl tx hc hd
  | voteP1 tx sh v =>
    simp only [CSys.step, CSys.stepWith]
    cases hp : s.c.recordVoteP1 tx sh v with
    | error e => exact h
    | ok r =>
      obtain ⟨t, t1, c', hr, ht, hid, hph, hid1, hpend, hnext, hab⟩ := recordVoteP1_ok hp
      have key : CInv { s with c := c' } := by
        refine h.rewrite ht hid hph hnext ?_ ?_ ?_
        · intro t' ht'
          rw [hpend] at ht'
          rcases mem_setTx ht' with rfl | h1
          · exact Or.inl ⟨hid1, t, ht, hid⟩
          · exact Or.inr h1
        · intro a ha b hb hab'
          rw [hpend] at ha hb
          rcases mem_setTx ha with rfl | h1 <;> rcases mem_setTx hb with rfl | h2
          · rfl
          · exact absurd (hab'.symm.trans hid1) h2.2
          · exact absurd (hab'.trans hid1) h1.2
          · exact h.uniq a h1.1 b h2.1 hab'
        · rcases hab with ⟨_, h1⟩ | ⟨h1, r', ps, h2⟩
          · exact Or.inl h1
          · refine Or.inr ⟨?_, r', ps, h2⟩
            intro t' ht' hid'
            rw [hpend] at ht'
            rcases mem_setTx ht' with rfl | h3
            · exact h1
            · exact absurd hid' h3.2
      rcases hr with rfl | rfl | rfl <;> exact key
  | voteP3 tx snap f =>
    simp only [CSys.step, CSys.stepWith]
    rcases recordVoteP3_cases s.c tx snap f with he | ⟨t, hf, hph, he | he⟩
    · rw [he]; exact h
    all_goals
      rw [he]
      obtain ⟨ht, hid⟩ := findTx_some hf
      refine h.rewrite ht hid hph rfl ?_ ?_ ?_
    · intro t' ht'
      rcases mem_setPhase ht' with ⟨u, hu, hu2, rfl⟩ | h1
      · exact Or.inl ⟨hu2, u, hu, hu2⟩
      · exact Or.inr h1
    · intro a ha b hb hab'
      rcases mem_setPhase ha with ⟨u, hu, hu2, rfl⟩ | h1 <;> rcases mem_setPhase hb with ⟨w, hw, hw2, rfl⟩ | h2
      · rw [h.uniq u hu w hw hab']
      · exact absurd (hab'.symm.trans hu2) h2.2
      · exact absurd (hab'.trans hw2) h1.2
      · exact h.uniq a h1.1 b h2.1 hab'
    · exact Or.inl rfl
    · intro t' ht'
      rcases mem_setPhase ht' with ⟨u, hu, hu2, rfl⟩ | h1
      · exact Or.inl ⟨hu2, u, hu, hu2⟩
      · exact Or.inr h1
    · intro a ha b hb hab'
      rcases mem_setPhase ha with ⟨u, hu, hu2, rfl⟩ | h1 <;> rcases mem_setPhase hb with ⟨w, hw, hw2, rfl⟩ | h2
      · rw [h.uniq u hu w hw hab']
      · exact absurd (hab'.symm.trans hu2) h2.2
      · exact absurd (hab'.trans hw2) h1.2
      · exact h.uniq a h1.1 b h2.1 hab'
    · refine Or.inr ⟨?_, _, _, rfl⟩
      intro t' ht' hid'
      rcases mem_setPhase ht' with ⟨u, hu, hu2, rfl⟩ | h1
      · rfl
      · exact absurd hid' h1.2
  | commit tx =>
    simp only [CSys.step, CSys.stepWith]
    cases hc : s.c.commit tx with
    | error e => exact h
    | ok c' =>
      obtain ⟨t, hf, hph, rfl⟩ := commit_ok hc
      dsimp only
      obtain ⟨ht, hid⟩ := findTx_some hf
      have hnot : ¬ s.abortDecided tx := by
        intro hd
        have := (h.ab tx hd).2 t ht hid
        rw [hph] at this; cases this
      constructor
      · intro t' ht'; exact h.lt t' (mem_removeTx.1 ht').1
      · intro a ha b hb; exact h.uniq a (mem_removeTx.1 ha).1 b (mem_removeTx.1 hb).1
      · intro tx' hc'
        simp only [List.mem_append, List.mem_singleton] at hc'
        rcases hc' with hc' | rfl
        · exact ⟨(h.com tx' hc').1, fun t' ht' => (h.com tx' hc').2 t' (mem_removeTx.1 ht').1⟩
        · exact ⟨by rw [← hid]; exact h.lt t ht, fun t' ht' => (mem_removeTx.1 ht').2⟩
      · intro tx' hd
        have hd' : s.abortDecided tx' := hd
        exact ⟨(h.ab tx' hd').1, fun t' ht' => (h.ab tx' hd').2 t' (mem_removeTx.1 ht').1⟩
      · intro tx' hc' hd
        have hd' : s.abortDecided tx' := hd
        simp only [List.mem_append, List.mem_singleton] at hc'
        rcases hc' with hc' | rfl
        · exact h.excl tx' hc' hd'
        · exact hnot hd'
  | abort tx =>
    simp only [CSys.step, CSys.stepWith]
    cases hc : s.c.abort tx with
    | error e => exact h
    | ok c' =>
      obtain ⟨t, hf, rfl⟩ := abort_ok hc
      obtain ⟨ht, hid⟩ := findTx_some hf
      dsimp only
      have hdec : ∀ tx', CSys.abortDecided ⟨{ s.c with pending := removeTx s.c.pending tx }, s.commits,
          s.aborts ++ [tx]⟩ tx' → s.abortDecided tx' ∨ tx' = tx := by
        intro tx' hd
        simp only [CSys.abortDecided, List.mem_append, List.mem_singleton] at hd
        rcases hd with (hd | hd) | hd
        · exact Or.inl (Or.inl hd)
        · exact Or.inr hd
        · exact Or.inl (Or.inr hd)
      constructor
      · intro t' ht'; exact h.lt t' (mem_removeTx.1 ht').1
      · intro a ha b hb; exact h.uniq a (mem_removeTx.1 ha).1 b (mem_removeTx.1 hb).1
      · intro tx' hc'
        exact ⟨(h.com tx' hc').1, fun t' ht' => (h.com tx' hc').2 t' (mem_removeTx.1 ht').1⟩
      · intro tx' hd
        rcases hdec tx' hd with hd' | rfl
        · exact ⟨(h.ab tx' hd').1, fun t' ht' => (h.ab tx' hd').2 t' (mem_removeTx.1 ht').1⟩
        · exact ⟨by rw [← hid]; exact h.lt t ht, fun t' ht' hid' => absurd hid' (mem_removeTx.1 ht').2⟩
      · intro tx' hc' hd
        rcases hdec tx' hd with hd' | rfl
        · exact h.excl tx' hc' hd'
        · exact (h.com tx' hc').2 t ht hid
  | sweep now =>
    simp only [CSys.step, CSys.stepWith, Coordinator.cleanupTimeouts]
    have hdec : ∀ tx', CSys.abortDecided ⟨{ s.c with
          pending := s.c.pending.filter (fun t => !t.timedOut now),
          pendingAborts := s.c.pendingAborts ++
            (s.c.pending.filter (fun t => t.timedOut now)).map (fun t => (t.id, AbortReason.timeout, t.participants)) },
          s.commits, s.aborts⟩ tx' →
        s.abortDecided tx' ∨ ∃ t ∈ s.c.pending, t.id = tx' ∧ t.timedOut now = true := by
      intro tx' hd
      simp only [CSys.abortDecided, List.map_append, List.mem_append, List.map_map, List.mem_map,
        List.mem_filter, Function.comp] at hd
      rcases hd with hd | hd | ⟨t, ⟨ht, hto⟩, hid⟩
      · exact Or.inl (Or.inl hd)
      · exact Or.inl (Or.inr (List.mem_map.2 hd))
      · exact Or.inr ⟨t, ht, hid, hto⟩
    constructor
    · intro t' ht'; exact h.lt t' (List.mem_filter.1 ht').1
    · intro a ha b hb; exact h.uniq a (List.mem_filter.1 ha).1 b (List.mem_filter.1 hb).1
    · intro tx' hc'
      exact ⟨(h.com tx' hc').1, fun t' ht' => (h.com tx' hc').2 t' (List.mem_filter.1 ht').1⟩
    · intro tx' hd
      rcases hdec tx' hd with hd' | ⟨t, ht, hid, hto⟩
      · exact ⟨(h.ab tx' hd').1, fun t' ht' => (h.ab tx' hd').2 t' (List.mem_filter.1 ht').1⟩
      · refine ⟨by rw [← hid]; exact h.lt t ht, ?_⟩
        intro t' ht' hid'
        obtain ⟨h1, h2⟩ := List.mem_filter.1 ht'
        have : t' = t := h.uniq t' h1 t ht (hid'.trans hid.symm)
        subst this
        rw [hto] at h2; cases h2
    · intro tx' hc' hd
      rcases hdec tx' hd with hd' | ⟨t, ht, hid, _⟩
      · exact h.excl tx' hc' hd'
      · exact (h.com tx' hc').2 t ht hid
  | drain =>
    simp only [CSys.step, CSys.stepWith, Coordinator.takePendingAborts]
    have hdec : ∀ tx', CSys.abortDecided ⟨{ s.c with pendingAborts := [] }, s.commits,
        s.aborts ++ s.c.pendingAborts.map (·.1)⟩ tx' → s.abortDecided tx' := by
      intro tx' hd
      simp only [CSys.abortDecided, List.mem_append, List.map_nil, List.not_mem_nil, or_false] at hd
      exact hd
    exact ⟨h.lt, h.uniq, h.com, fun tx' hd => h.ab tx' (hdec tx' hd), fun tx' hc hd => h.excl tx' hc (hdec tx' hd)⟩

theorem CInv.reach {s0 s : CSys} (h0 : CInv s0) (hr : CReach s0 s) : CInv s := by
  induction hr with
  | refl => exact h0
  | step e _ ih => exact ih.step e

def CSys.run (s : CSys) (es : List CEv) : CSys := es.foldl CSys.step s
def CSys.runOld (s : CSys) (es : List CEv) : CSys := es.foldl CSys.stepOld s

theorem creach_run {s0 s : CSys} (hr : CReach s0 s) (es : List CEv) : CReach s0 (s.run es) := by
  induction es generalizing s with
  | nil => exact hr
  | cons e es ih => exact ih (CReach.step e hr)

end Neumann.TwoPC
