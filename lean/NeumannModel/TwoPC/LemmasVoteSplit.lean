import NeumannModel.TwoPC.VoteSplit
import NeumannModel.TwoPC.Lemmas
/-
  C03 — the atomic `Coordinator.recordVote` of the model is exactly the two critical sections of
  `record_vote` run back to back.
-/
namespace Neumann.TwoPC

theorem setPhase_setTx (ps : List DTx) (tx : Nat) (t1 : DTx) (ph : Phase) (h : t1.id = tx) :
    setPhase (setTx ps tx t1) tx ph = setTx ps tx { t1 with phase := ph } := by
  simp only [setPhase, setTx, List.map_map]
  apply List.map_congr_left
  intro t _
  simp only [Function.comp]
  by_cases ht : t.id = tx
  · simp only [ht, if_true, h]
  · simp only [ht, if_false]

theorem findTx_setTx {ps : List DTx} {tx : Nat} {t t1 : DTx} (hf : findTx ps tx = some t) (h : t1.id = tx) :
    findTx (setTx ps tx t1) tx = some t1 := by
  induction ps with
  | nil => simp [findTx] at hf
  | cons a r ih =>
    simp only [findTx] at hf
    simp only [setTx, List.map_cons, findTx]
    split at hf
    · rename_i ha
      simp only [ha, if_true, h]
    · rename_i ha
      simp only [ha, if_false]
      exact ih hf

theorem findTx_setPhase {ps : List DTx} {tx : Nat} {t : DTx} (ph : Phase) (hf : findTx ps tx = some t) :
    findTx (setPhase ps tx ph) tx = some { t with phase := ph } := by
  induction ps with
  | nil => simp [findTx] at hf
  | cons a r ih =>
    simp only [findTx] at hf
    simp only [setPhase, List.map_cons, findTx]
    split at hf
    · rename_i ha
      cases hf
      simp only [ha, if_true]
    · rename_i ha
      simp only [ha, if_false]
      exact ih hf

theorem recordVote_eq_phases (c : Coordinator) (tx sh : Nat) (v : Vote) (f : Nat → Nat → Bool) :
    c.recordVote tx sh v f =
      match c.recordVoteP1 tx sh v with
      | .error e => .error e
      | .ok (.done c' r) => .ok (c', r)
      | .ok (.check c' snap) => .ok (c'.recordVoteP3 tx snap f) := by
  unfold Coordinator.recordVote Coordinator.recordVoteP1
  cases hf : findTx c.pending tx with
  | none => rfl
  | some t =>
    have hid : t.id = tx := (findTx_some hf).2
    simp only
    split
    · rfl
    · split
      · rfl
      · split
        · split
          · -- all voted YES: phases 2 + 3 on the snapshot
            simp only [Coordinator.recordVoteP3]
            split
            · rw [setPhase_setTx c.pending tx { t with votes := t.votes ++ [(sh, v)] } _ hid]
            · rw [findTx_setTx (t1 := { t with votes := t.votes ++ [(sh, v)] }) hf hid]
              simp only
              rw [setPhase_setTx c.pending tx { t with votes := t.votes ++ [(sh, v)] } _ hid]
          · rfl
        · rfl

end Neumann.TwoPC
