import NeumannModel.TwoPC.Recovery
/-
  C03 — coordinator RESTARTS: the checkpoint / restore cycle of `DistributedTxCoordinator`
  (`to_state` / `save_to_store` → bitcode → `load_from_store` / `with_state`), the passage of time
  between checkpoint and restore, and `recover()` run any number of times at any clock value, as
  events of the system step.  Import-free apart from `Model.lean` / `Recovery.lean`, total,
  computable; mirrors the code as it is.

  What a checkpoint holds (`CoordinatorState`): the `pending` map — every `DistributedTransaction`
  with its phase, votes, `started_at` and `timeout_ms` — and the coordinator-local lock manager's
  table (empty throughout here, see `Recovery.lean`).  What `with_state` does NOT restore: the
  `pending_aborts` queue (fresh, empty), `abort_states`, the statistics, the wait-for graph.  The
  deadline of a transaction is `started_at + timeout_ms` and both are persisted, so a transaction
  keeps its deadline across restarts: a restart that takes long makes `is_timed_out()` true for
  every transaction that was pending at the crash — in WHATEVER phase it was checkpointed.

  The seeded-change class this file is about: `recover()` must apply the deadline only to entries
  whose outcome is still open (`Preparing`, `Prepared`); an entry checkpointed in `Committing` or
  `Aborting` carries a decision that was already announced and must keep it however late the restart
  happens.  `recoverArmHoistedTimeout` (end of the file) is the variant that tests the deadline in
  front of the `match`.
-/
namespace Neumann.TwoPC

/-! ## `CoordinatorState`, `to_state`, `with_state`, `load_from_store` -/

/-- `CoordinatorState` (the lock manager's `lock_state` is empty throughout, see `Recovery.lean`) -/
structure CoordState where
  pending : List DTx
  deriving DecidableEq, Repr

/-- `to_state` (what `save_to_store` serialises) -/
def Coordinator.toState (c : Coordinator) : CoordState := ⟨c.pending⟩

/-- `with_state`: the pending map of the checkpoint, a fresh `pending_aborts` queue, the
    configuration the new process was started with (the same), fresh ids stay fresh -/
def Coordinator.withState (c : Coordinator) (st : CoordState) : Coordinator :=
  { c with pending := st.pending, pendingAborts := [] }

/-- `load_from_store`: the persisted state if there is one, else `Self::new` (nothing pending) -/
def Coordinator.loadFrom (c : Coordinator) : Option CoordState → Coordinator
  | some st => c.withState st
  | none => c.withState ⟨[]⟩

/-! ## the system with a checkpoint store -/

/-- the system plus what `save_to_store` last wrote under the coordinator's persistence key -/
structure SysK where
  sys : Sys
  saved : Option CoordState
  deriving Repr

inductive EvK
  /-- an event of C03's alphabet, `recover()` + re-send, `complete_commit`, `complete_abort` -/
  | ev (e : EvR)
  /-- `save_to_store` -/
  | checkpoint
  /-- crash of the coordinator process + `load_from_store` in a new one -/
  | restore
  deriving Repr

def SysK.stepK (k : SysK) : EvK → SysK
  | .ev e => { k with sys := k.sys.stepX e }
  | .checkpoint => { k with saved := some k.sys.coord.toState }
  | .restore => { k with sys := { k.sys with coord := k.sys.coord.loadFrom k.saved } }

def SysK.runK (k : SysK) (es : List EvK) : SysK := es.foldl SysK.stepK k

def SysK.init (stores : List Store) (txTimeout maxConcurrent lockTimeout : Nat) : SysK :=
  ⟨Sys.init stores txTimeout maxConcurrent lockTimeout, none⟩

/-- the checkpoint in the store is the coordinator's present pending map: every change of the
    pending map was persisted before the crash (participants may have acted, messages may have been
    delivered to them, and any amount of time may have passed since it was written) -/
def SysK.checkpointCurrent (k : SysK) : Bool := k.saved == some k.sys.coord.toState

/-- C03's alphabet with coordinator restarts: every event of `ReachRS` (C03's own events, `recover()`
    + re-send of the pending decisions, `complete_commit` / `complete_abort`, at any point, any number
    of times, the clock advancing by any amount in between; no timeout sweep / `abort()` over a
    `Committing` entry), `save_to_store` at any point, and crash + `load_from_store` at any point at
    which the stored checkpoint is current. -/
def SysK.inAlphabetK (k : SysK) : EvK → Bool
  | .ev e => k.sys.inAlphabetR e && k.sys.sparesCommitting e
  | .checkpoint => true
  | .restore => k.checkpointCurrent

/-- … with restores of STALE checkpoints as well (outside the property: a decision taken after the
    checkpoint is forgotten by construction) -/
def SysK.inAlphabetKStale (k : SysK) : EvK → Bool
  | .ev e => k.sys.inAlphabetR e && k.sys.sparesCommitting e
  | _ => true

inductive ReachK (k0 : SysK) : SysK → Prop
  | refl : ReachK k0 k0
  | step {k : SysK} (e : EvK) : ReachK k0 k → k.inAlphabetK e = true → ReachK k0 (k.stepK e)

inductive ReachKStale (k0 : SysK) : SysK → Prop
  | refl : ReachKStale k0 k0
  | step {k : SysK} (e : EvK) : ReachKStale k0 k → k.inAlphabetKStale e = true → ReachKStale k0 (k.stepK e)

def SysK.allInK (k : SysK) : List EvK → Bool
  | [] => true
  | e :: es => k.inAlphabetK e && (k.stepK e).allInK es

def SysK.allInKStale (k : SysK) : List EvK → Bool
  | [] => true
  | e :: es => k.inAlphabetKStale e && (k.stepK e).allInKStale es

/-- `recover()` called once per clock value of `nows`, in order (the clock only enters through
    `is_timed_out`) -/
def Coordinator.recoverAll (c : Coordinator) : List Nat → Coordinator
  | [] => c
  | now :: nows => ((c.recover now).1).recoverAll nows

/-! ## the variant with the deadline test in front of the `match` (NOT the code) -/

/-- `recover`'s loop body with the two identical `is_timed_out() → Aborting` branches of the
    `Preparing` and `Prepared` arms hoisted into one test in front of the `match`, guarded by
    "not `Aborting`, `Committed` or `Aborted`" — which lets `Committing` through. -/
def DTx.recoverArmHoistedTimeout (t : DTx) (now : Nat) : Phase × RecClass :=
  if !(t.phase == .aborting || t.phase == .committed || t.phase == .aborted) && t.timedOut now then
    (.aborting, .timedOut)
  else
    match t.phase with
    | .preparing => (.preparing, .pendingPrepare)
    | .prepared =>
      if t.allYes then (.committing, .pendingCommit)
      else if t.anyNo then (.aborting, .pendingAbort)
      else (.prepared, .pendingPrepare)
    | .committing => (.committing, .pendingCommit)
    | .aborting => (.aborting, .pendingAbort)
    | .committed => (.committed, .completed)
    | .aborted => (.aborted, .completed)

def DTx.recoveredHoistedTimeout (t : DTx) (now : Nat) : DTx :=
  { t with phase := (t.recoverArmHoistedTimeout now).1 }

def Coordinator.recoverHoistedTimeout (c : Coordinator) (now : Nat) : Coordinator :=
  let ps := (c.pending.map (fun t => t.recoveredHoistedTimeout now)).filter (fun t => !t.phase.isFinal)
  { c with pending := ps }

def Sys.stepXHoistedTimeout (s : Sys) : EvR → Sys
  | .coordRecover =>
    let c := s.coord.recoverHoistedTimeout s.now
    { s with coord := c, msgs := s.msgs ++ c.resendMsgs, decided := s.decided ++ c.resendDecisions }
  | e => s.stepX e

def SysK.stepKHoistedTimeout (k : SysK) : EvK → SysK
  | .ev e => { k with sys := k.sys.stepXHoistedTimeout e }
  | e => k.stepK e

def SysK.runKHoistedTimeout (k : SysK) (es : List EvK) : SysK := es.foldl SysK.stepKHoistedTimeout k

/-- `es` stays inside `ReachK`'s alphabet along the variant's run -/
def SysK.allInKHoistedTimeout (k : SysK) : List EvK → Bool
  | [] => true
  | e :: es => k.inAlphabetK e && (k.stepKHoistedTimeout e).allInKHoistedTimeout es

end Neumann.TwoPC
