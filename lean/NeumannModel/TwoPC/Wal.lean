import NeumannModel.TwoPC.Restart
/-
  C03 — the coordinator WITH a write-ahead log: what `DistributedTxCoordinator` (built `.with_wal(..)`)
  appends to its `TxWal` in each call, what `TxRecoveryState::from_entries` (tensor_chain/src/tx_wal.rs:
  `scan_entries`, `classify_in_progress`) reads back, what `recover_from_wal` puts into `pending`, and the
  system step extended with the WAL RESTART: crash of the coordinator process, a new process on the same
  log, `recover_from_wal()` followed by `recover()` and the re-send of the pending decisions.  Import-free
  apart from the other model files of this area, total, computable; mirrors the code as it is.

  What is written (every append succeeds here; failing appends and torn frames are C13's subject):
    begin            `TxBegin { tx_id, participants }` inside the critical section that inserts the entry
                     (nothing when `max_concurrent` refuses)
    record_vote      `PrepareVote { tx_id, shard, Yes { lock_handle } | No }` FIRST, before the vote is
                     validated — so also for a transaction that is gone, decided, or has this shard's vote
                     already —, then, only on the path that answers `Prepared`, `PhaseChange { to: Prepared }`.
                     The two paths that answer `Aborting` (a NO / CONFLICT vote completes the quorum; all YES but
                     the deltas conflict) write NOTHING more.
    commit           `PhaseChange { to: Committing }`, `TxComplete`, one `LockRelease` per YES vote,
                     `AllLocksReleased`
    abort            `PhaseChange { to: Aborting }`, `TxComplete`
    cleanup_timeouts, recover, complete_commit, complete_abort, force_resolve, take_pending_aborts: NOTHING.
  (`AbortIntent` is written by the async `process_pending_aborts` of cluster.rs only; the glue here drains
  the abort queue with `take_pending_aborts`.)

  What is read back: per transaction id the participants of its `TxBegin`, the votes the log ACCEPTS (first
  vote per shard while the logged phase is still `Preparing`), and the phase of its last `PhaseChange`; a
  `TxComplete` drops the transaction.  `classify_in_progress` restores exactly the transactions whose logged
  phase is `Prepared`, `Committing` or `Aborting`; one still logged as `Preparing` is DROPPED (presumed
  abort) — WHATEVER votes the log holds for it.  That is the code path of the seeded-change class this file
  is about: "all participants have a logged YES" does not mean "the coordinator reached Prepared" — the
  coordinator may have decided ABORT (timeout before the late vote, cross-shard conflict) without a record.
  `classifyFullyVotedAsPrepared` (end of the file) is the variant that restores such an entry as `Prepared`.

  A restored `DistributedTransaction` is built by `DistributedTransaction::new`: `started_at` = the time of
  the restart, `timeout_ms` = 5000 (NOT the configured prepare timeout) — less than one unit of the clock
  used here (1 unit = 1 h), i.e. `walRestoredTimeout = 0`: not timed out at the restart itself, timed out
  one tick later.  Restored YES votes carry the logged lock handle and `DeltaVector::zero(0)` (no affected
  keys); restored NO votes stand for NO and CONFLICT alike.

  Not modelled: the orphaned-lock bookkeeping of `from_entries` (`completed_lock_handles`, `released_locks`,
  `fully_released`: the coordinator-local lock manager they act on is empty throughout, see Recovery.lean),
  `pending_abort_intents` (not read by `recover_from_wal`), a crash INSIDE a coordinator call (between two
  appends of `commit` / `abort`: C13 enumerates the log prefixes).
-/
namespace Neumann.TwoPC

/-! ## the log -/

/-- `PrepareVoteKind` -/
inductive WalVote
  | yes (h : Nat)
  | no
  deriving DecidableEq, Repr

/-- `match &vote { Yes { lock_handle, .. } => Yes { lock_handle }, No | Conflict => No }` -/
def Vote.toWal : Vote → WalVote
  | .yes h _ => .yes h
  | _ => .no

def WalVote.isYes : WalVote → Bool
  | .yes _ => true
  | .no => false

/-- `restore_tx`: `Yes { lock_handle, delta: DeltaVector::zero(0) }` / `No { reason: "recovered from WAL" }` -/
def WalVote.restore : WalVote → Vote
  | .yes h => .yes h []
  | .no => .no

/-- `TxWalEntry` (without `AbortIntent`, see the header) -/
inductive WalEntry
  | begin (tx : Nat) (participants : List Nat)
  | vote (tx sh : Nat) (v : WalVote)
  | phase (tx : Nat) (to : Phase)
  | complete (tx : Nat)
  | lockRelease (tx h : Nat)
  | allLocksReleased (tx : Nat)
  deriving DecidableEq, Repr

/-- `InProgressTxState` with its key: (participants, accepted votes, logged phase) -/
structure WalTx where
  id : Nat
  participants : List Nat
  votes : List (Nat × WalVote)
  phase : Phase
  deriving DecidableEq, Repr

def WalTx.hasVote (e : WalTx) (sh : Nat) : Bool := e.votes.any (fun x => x.1 == sh)

/-- one iteration of the loop of `scan_entries` on the `in_progress` map -/
def scanStep (ip : List WalTx) : WalEntry → List WalTx
  | .begin tx ps => ip.filter (fun e => e.id != tx) ++ [⟨tx, ps, [], .preparing⟩]
  | .vote tx sh v =>
    ip.map (fun e => if e.id == tx && e.phase == .preparing && !e.hasVote sh
      then { e with votes := e.votes ++ [(sh, v)] } else e)
  | .phase tx to => ip.map (fun e => if e.id == tx then { e with phase := to } else e)
  | .complete tx => ip.filter (fun e => e.id != tx)
  | .lockRelease _ _ => ip
  | .allLocksReleased _ => ip

/-- `scan_entries`: the in-progress transactions of a log -/
def scanLog (w : List WalEntry) : List WalTx := w.foldl scanStep []

/-- `TxRecoveryState` (the three lists `recover_from_wal` reads) -/
structure WalRecovery where
  prepared : List WalTx
  committing : List WalTx
  aborting : List WalTx
  deriving Repr

/-- `classify_in_progress`: by the LOGGED phase; `Preparing | Committed | Aborted => {}` -/
def classify (ip : List WalTx) : WalRecovery :=
  ⟨ip.filter (fun e => e.phase == .prepared), ip.filter (fun e => e.phase == .committing),
   ip.filter (fun e => e.phase == .aborting)⟩

/-- `timeout_ms: 5000` of `DistributedTransaction::new`, in clock units (1 unit = 1 h) -/
def walRestoredTimeout : Nat := 0

/-- `restore_tx` -/
def WalTx.restoreAs (e : WalTx) (ph : Phase) (now : Nat) : DTx :=
  ⟨e.id, e.participants, ph, e.votes.map (fun x => (x.1, x.2.restore)), now, walRestoredTimeout⟩

def WalRecovery.restored (r : WalRecovery) (now : Nat) : List DTx :=
  r.prepared.map (fun e => e.restoreAs .prepared now) ++
  r.committing.map (fun e => e.restoreAs .committing now) ++
  r.aborting.map (fun e => e.restoreAs .aborting now)

/-- a NEW coordinator process (same configuration, fresh queues, fresh ids stay fresh) on the log `w`,
    after `recover_from_wal()` -/
def Coordinator.recoverFromWal (c : Coordinator) (now : Nat) (w : List WalEntry) : Coordinator :=
  { c with pending := (classify (scanLog w)).restored now, pendingAborts := [] }

/-! ## what each coordinator call appends -/

def Coordinator.walOfBegin (c : Coordinator) (participants : List Nat) : List WalEntry :=
  if c.pending.length ≥ c.maxConcurrent then [] else [.begin c.nextTx participants]

/-- `record_vote`: the vote first, unconditionally; `PhaseChange → Prepared` only on the `Prepared` path -/
def Coordinator.walOfVote (c : Coordinator) (tx sh : Nat) (v : Vote) (nonOrth : Nat → Nat → Bool) :
    List WalEntry :=
  .vote tx sh v.toWal ::
    (match c.recordVote tx sh v nonOrth with
     | .ok (_, some .prepared) => [.phase tx .prepared]
     | _ => [])

def releasesOf (tx : Nat) : List (Nat × Vote) → List WalEntry
  | [] => []
  | (_, .yes h _) :: r => .lockRelease tx h :: releasesOf tx r
  | _ :: r => releasesOf tx r

def Coordinator.walOfCommit (c : Coordinator) (tx : Nat) : List WalEntry :=
  match findTx c.pending tx, c.commit tx with
  | some t, .ok _ => [.phase tx .committing, .complete tx] ++ releasesOf tx t.votes ++ [.allLocksReleased tx]
  | _, _ => []

def Coordinator.walOfAbort (c : Coordinator) (tx : Nat) : List WalEntry :=
  match c.abort tx with
  | .ok _ => [.phase tx .aborting, .complete tx]
  | .error _ => []

def Sys.walOf (s : Sys) : Ev → List WalEntry
  | .begin shards _ _ => s.coord.walOfBegin shards
  | .deliver i =>
    match s.msgs[i]? with
    | some (.vote tx sh v) => s.coord.walOfVote tx sh v (nonOrthOf s.specs tx)
    | _ => []
  | .coordCommit tx => s.coord.walOfCommit tx
  | .coordAbort tx => s.coord.walOfAbort tx
  | _ => []

/-- `recover`, `complete_commit`, `complete_abort`, `force_resolve` append nothing -/
def Sys.walOfR (s : Sys) : EvR → List WalEntry
  | .base e => s.walOf e
  | _ => []

/-- `save_to_store` / `load_from_store` do not touch the log -/
def SysK.walOfK (k : SysK) : EvK → List WalEntry
  | .ev e => k.sys.walOfR e
  | _ => []

/-! ## the system with the log -/

structure SysW where
  k : SysK
  wal : List WalEntry
  deriving Repr

inductive EvW
  /-- an event of the restart alphabet (`Restart.lean`); the coordinator appends what the call logs -/
  | k (e : EvK)
  /-- crash of the coordinator process; a new process opens the same log: `recover_from_wal()`, then
      `recover()`, then the glue re-sends every pending decision (no time passes in between) -/
  | walRestart
  deriving Repr

def Sys.walRestart (s : Sys) (w : List WalEntry) : Sys :=
  ({ s with coord := s.coord.recoverFromWal s.now w }).stepX .coordRecover

def SysW.stepW (w : SysW) : EvW → SysW
  | .k e => ⟨w.k.stepK e, w.wal ++ w.k.walOfK e⟩
  | .walRestart => ⟨{ w.k with sys := w.k.sys.walRestart w.wal }, w.wal⟩

def SysW.runW (w : SysW) (es : List EvW) : SysW := es.foldl SysW.stepW w

def SysW.init (stores : List Store) (txTimeout maxConcurrent lockTimeout : Nat) : SysW :=
  ⟨SysK.init stores txTimeout maxConcurrent lockTimeout, []⟩

/-- "no deadline passes on a `Prepared` entry": a timeout sweep / `recover()` does not find a timed-out
    `Prepared` entry.  (`cleanup_timeouts` and `recover` abort such an entry WITHOUT a log record, while the
    log says `Prepared`: `PropsWal.lean` has the witness of what a WAL restart then does, on the code as it
    is.)  A timed-out `Preparing` entry — the seeded-change class — is NOT excluded. -/
def Sys.sparesPrepared (s : Sys) : EvR → Bool
  | .base .sweep => s.coord.pending.all (fun t => !(t.phase == .prepared && t.timedOut s.now))
  | .coordRecover => s.coord.pending.all (fun t => !(t.phase == .prepared && t.timedOut s.now))
  | _ => true

/-- the restart alphabet `ReachK` (every event of C03's alphabet, `recover()` + re-send, `complete_*`,
    checkpoint / restore of a current checkpoint, ticks of any size; no sweep / `abort()` over a
    `Committing` entry) with the log written along, no deadline passing on a `Prepared` entry, and WAL
    restarts at any point, any number of times. -/
def SysW.inAlphabetW (w : SysW) : EvW → Bool
  | .k (.ev e) => w.k.inAlphabetK (.ev e) && w.k.sys.sparesPrepared e
  | .k e => w.k.inAlphabetK e
  | .walRestart => true

inductive ReachW (w0 : SysW) : SysW → Prop
  | refl : ReachW w0 w0
  | step {w : SysW} (e : EvW) : ReachW w0 w → w.inAlphabetW e = true → ReachW w0 (w.stepW e)

def SysW.allInW (w : SysW) : List EvW → Bool
  | [] => true
  | e :: es => w.inAlphabetW e && (w.stepW e).allInW es

/-- … without the restriction on `Prepared` entries (for the witness of what it excludes) -/
def SysW.inAlphabetWAny (w : SysW) : EvW → Bool
  | .k e => w.k.inAlphabetK e
  | .walRestart => true

def SysW.allInWAny (w : SysW) : List EvW → Bool
  | [] => true
  | e :: es => w.inAlphabetWAny e && (w.stepW e).allInWAny es

/-- the log agrees with the decisions that were announced: no transaction it would restore towards a
    commit (`Prepared`, `Committing`) has an abort decision, none it would restore as `Aborting` a commit
    decision.  (What the driver checks at a WAL restart; `PropsWal.lean`: holds in every state of `ReachW`.) -/
def SysW.walCurrent (w : SysW) : Bool :=
  (scanLog w.wal).all (fun e =>
    (!(e.phase == .prepared || e.phase == .committing) || !w.k.sys.decided.contains (e.id, false)) &&
    (!(e.phase == .aborting) || !w.k.sys.decided.contains (e.id, true)))

/-! ## the variant that restores a fully voted `Preparing` entry as `Prepared` (NOT the code) -/

/-- `fully_voted`: still `Preparing` in the log, at least one participant, and every participant has a
    logged YES -/
def WalTx.fullyVoted (e : WalTx) : Bool :=
  e.phase == .preparing && !e.participants.isEmpty &&
  e.participants.all (fun p => e.votes.any (fun x => x.1 == p && x.2.isYes))

/-- `classify_in_progress` with the arm `_ if fully_voted => prepared_txs.push(..)` in front -/
def classifyFullyVotedAsPrepared (ip : List WalTx) : WalRecovery :=
  ⟨ip.filter (fun e => e.fullyVoted || e.phase == .prepared),
   ip.filter (fun e => !e.fullyVoted && e.phase == .committing),
   ip.filter (fun e => !e.fullyVoted && e.phase == .aborting)⟩

def Coordinator.recoverFromWalFullyVotedAsPrepared (c : Coordinator) (now : Nat) (w : List WalEntry) :
    Coordinator :=
  { c with pending := (classifyFullyVotedAsPrepared (scanLog w)).restored now, pendingAborts := [] }

def Sys.walRestartFullyVotedAsPrepared (s : Sys) (w : List WalEntry) : Sys :=
  ({ s with coord := s.coord.recoverFromWalFullyVotedAsPrepared s.now w }).stepX .coordRecover

def SysW.stepWFullyVotedAsPrepared (w : SysW) : EvW → SysW
  | .walRestart => ⟨{ w.k with sys := w.k.sys.walRestartFullyVotedAsPrepared w.wal }, w.wal⟩
  | e => w.stepW e

def SysW.runWFullyVotedAsPrepared (w : SysW) (es : List EvW) : SysW := es.foldl SysW.stepWFullyVotedAsPrepared w

/-- `es` stays inside `ReachW`'s alphabet along the variant's run -/
def SysW.allInWFullyVotedAsPrepared (w : SysW) : List EvW → Bool
  | [] => true
  | e :: es => w.inAlphabetW e && (w.stepWFullyVotedAsPrepared e).allInWFullyVotedAsPrepared es

end Neumann.TwoPC
