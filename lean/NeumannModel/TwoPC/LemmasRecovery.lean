import NeumannModel.TwoPC.Recovery
import NeumannModel.TwoPC.Lemmas
import NeumannModel.TwoPC.LemmasVote
/-
  C03 — the coordinator's crash-recovery API: the invariant `InvR` (the decision / message / vote
  invariant `InvA` of `Lemmas.lean` with "a pending tx decided commit is in phase Committing" instead
  of "is not pending", without the exclusivity field, which FAILS over `ReachR`) and its preservation
  by every event of `ReachR`'s alphabet; `Fresh`: where a new decision comes from; exclusivity of the
  decisions along runs that spare `Committing` transactions (`ReachRS`).
-/
namespace Neumann.TwoPC

/-! ### what the recovery functions do -/

theorem recovered_id (t : DTx) (now : Nat) : (t.recovered now).id = t.id := rfl
theorem recovered_participants (t : DTx) (now : Nat) : (t.recovered now).participants = t.participants := rfl
theorem recovered_votes (t : DTx) (now : Nat) : (t.recovered now).votes = t.votes := rfl
theorem recovered_phase (t : DTx) (now : Nat) : (t.recovered now).phase = t.recoverPhase now := rfl
theorem recovered_allVoted (t : DTx) (now : Nat) : (t.recovered now).allVoted = t.allVoted := rfl
theorem recovered_allYes (t : DTx) (now : Nat) : (t.recovered now).allYes = t.allYes := rfl

/-- `recover` leaves an entry `Committing` only if it was `Committing` or `Prepared` -/
theorem recoverPhase_committing {t : DTx} {now : Nat} (h : t.recoverPhase now = .committing) :
    t.phase = .prepared ∨ t.phase = .committing := by
  unfold DTx.recoverPhase DTx.recoverArm at h
  split at h
  · split at h <;> cases h
  · exact Or.inl (by assumption)
  · exact Or.inr (by assumption)
  · cases h
  · cases h
  · cases h

theorem recoverPhase_prepared {t : DTx} {now : Nat} (h : t.recoverPhase now = .prepared) :
    t.phase = .prepared := by
  unfold DTx.recoverPhase DTx.recoverArm at h
  split at h
  · split at h <;> cases h
  · assumption
  · cases h
  · cases h
  · cases h
  · cases h

theorem recoverPhase_of_committing {t : DTx} {now : Nat} (h : t.phase = .committing) :
    t.recoverPhase now = .committing := by
  unfold DTx.recoverPhase DTx.recoverArm; rw [h]

theorem recoverPhase_of_aborting {t : DTx} {now : Nat} (h : t.phase = .aborting) :
    t.recoverPhase now = .aborting := by
  unfold DTx.recoverPhase DTx.recoverArm; rw [h]

theorem recoverPhase_of_preparing {t : DTx} {now : Nat} (h : t.phase = .preparing) :
    t.recoverPhase now ≠ .committing := by
  intro h'
  rcases recoverPhase_committing h' with h1 | h1 <;> rw [h] at h1 <;> cases h1

theorem mem_recover_pending {c : Coordinator} {now : Nat} {t' : DTx}
    (h : t' ∈ (c.recover now).1.pending) : ∃ t ∈ c.pending, t' = t.recovered now := by
  simp only [Coordinator.recover, List.mem_filter, List.mem_map] at h
  obtain ⟨⟨t, ht, rfl⟩, _⟩ := h
  exact ⟨t, ht, rfl⟩

theorem recover_nextTx (c : Coordinator) (now : Nat) : (c.recover now).1.nextTx = c.nextTx := rfl
theorem recover_pendingAborts (c : Coordinator) (now : Nat) :
    (c.recover now).1.pendingAborts = c.pendingAborts := rfl

theorem mem_pendingDecisions {c : Coordinator} {tx : Nat} {ph : Phase}
    (h : (tx, ph) ∈ c.pendingDecisions) :
    ∃ t ∈ c.pending, t.id = tx ∧ t.phase = ph ∧ (ph = .committing ∨ ph = .aborting) := by
  simp only [Coordinator.pendingDecisions, List.mem_map, List.mem_filter, Bool.or_eq_true,
    beq_iff_eq, Prod.mk.injEq] at h
  obtain ⟨t, ⟨ht, hph⟩, hid, hp⟩ := h
  exact ⟨t, ht, hid, hp, by rw [← hp]; exact hph⟩

theorem mem_resendDecisions {c : Coordinator} {tx : Nat} {b : Bool}
    (h : (tx, b) ∈ c.resendDecisions) :
    ∃ t ∈ c.pending, t.id = tx ∧ t.phase = (if b then Phase.committing else Phase.aborting) := by
  simp only [Coordinator.resendDecisions, List.mem_filterMap] at h
  obtain ⟨⟨tx', ph⟩, hd, he⟩ := h
  obtain ⟨t, ht, hid, hph, _⟩ := mem_pendingDecisions hd
  cases ph <;> simp only [decisionOf, Option.some.injEq, Prod.mk.injEq, reduceCtorEq] at he
  · obtain ⟨rfl, rfl⟩ := he
    exact ⟨t, ht, hid, hph⟩
  · obtain ⟨rfl, rfl⟩ := he
    exact ⟨t, ht, hid, hph⟩

theorem mem_resendMsgs {c : Coordinator} {m : Msg} (h : m ∈ c.resendMsgs) :
    (∃ tx sh, m = Msg.commit tx sh ∧ (tx, true) ∈ c.resendDecisions) ∨
    (∃ tx sh, m = Msg.abort tx sh ∧ (tx, false) ∈ c.resendDecisions) := by
  simp only [Coordinator.resendMsgs, List.mem_flatMap] at h
  obtain ⟨⟨tx, ph⟩, hd, hm⟩ := h
  cases ph <;> simp only [Coordinator.resendMsgsOf, List.mem_map, List.not_mem_nil] at hm
  · obtain ⟨sh, _, rfl⟩ := hm
    left
    refine ⟨tx, sh, rfl, ?_⟩
    simp only [Coordinator.resendDecisions, List.mem_filterMap]
    exact ⟨(tx, .committing), hd, rfl⟩
  · obtain ⟨sh, _, rfl⟩ := hm
    right
    refine ⟨tx, sh, rfl, ?_⟩
    simp only [Coordinator.resendDecisions, List.mem_filterMap]
    exact ⟨(tx, .aborting), hd, rfl⟩

theorem completeCommit_ok {c c' : Coordinator} {tx : Nat} (h : c.completeCommit tx = .ok c') :
    ∃ t, findTx c.pending tx = some t ∧ t.phase = .committing ∧
      c' = { c with pending := removeTx c.pending tx } := by
  unfold Coordinator.completeCommit at h
  split at h
  · cases h
  · rename_i t ht
    split at h
    · cases h
    · rename_i hph
      cases h
      exact ⟨t, ht, by simpa using hph, rfl⟩

theorem completeAbort_ok {c c' : Coordinator} {tx : Nat} (h : c.completeAbort tx = .ok c') :
    ∃ t, findTx c.pending tx = some t ∧ t.phase = .aborting ∧
      c' = { c with pending := removeTx c.pending tx } := by
  unfold Coordinator.completeAbort at h
  split at h
  · cases h
  · rename_i t ht
    split at h
    · cases h
    · rename_i hph
      cases h
      exact ⟨t, ht, by simpa using hph, rfl⟩

/-! ### the invariant -/

structure InvR (s : Sys) : Prop where
  commitMsg : ∀ tx sh, Msg.commit tx sh ∈ s.msgs → (tx, true) ∈ s.decided
  abortMsg : ∀ tx sh, Msg.abort tx sh ∈ s.msgs → (tx, false) ∈ s.decided
  decAbort : ∀ tx, (tx, false) ∈ s.decided → ∀ t ∈ s.coord.pending, t.id = tx → t.phase = .aborting
  decCommit : ∀ tx, (tx, true) ∈ s.decided → ∀ t ∈ s.coord.pending, t.id = tx → t.phase = .committing
  pendLt : ∀ t ∈ s.coord.pending, t.id < s.coord.nextTx
  pendUniq : ∀ t ∈ s.coord.pending, ∀ t' ∈ s.coord.pending, t.id = t'.id → t = t'
  decLt : ∀ tx b, (tx, b) ∈ s.decided → tx < s.coord.nextTx
  paEmpty : s.coord.pendingAborts = []
  /-- every recorded vote is a pool message, or the transaction already has a commit decision (the votes
      of an entry restored from the WAL are `Yes { handle, zero delta }` / `No`, not pool messages) -/
  voteMsg : ∀ t ∈ s.coord.pending, ∀ e ∈ t.votes,
      Msg.vote t.id e.1 e.2 ∈ s.msgs ∨ (t.id, true) ∈ s.decided
  prepOk : ∀ t ∈ s.coord.pending, t.phase = .prepared ∨ t.phase = .committing →
      t.allVoted = true ∧ t.allYes = true
  specLt : ∀ sp ∈ s.specs, sp.id < s.coord.nextTx
  specPart : ∀ t ∈ s.coord.pending, ∀ sp ∈ s.specs, sp.id = t.id → sp.shards = t.participants
  commitYes : ∀ tx, (tx, true) ∈ s.decided → ∀ sp ∈ s.specs, sp.id = tx →
      ∀ sh ∈ sp.shards, ∃ h ks, Msg.vote tx sh (.yes h ks) ∈ s.msgs
  applied : ∀ sh tx, (sh, tx) ∈ s.applied → (tx, true) ∈ s.decided
  discarded : ∀ sh tx, (sh, tx) ∈ s.discarded → (tx, false) ∈ s.decided

theorem InvR.init (stores : List Store) (a b c : Nat) : InvR (Sys.init stores a b c) := by
  constructor <;> simp [Sys.init]

/-- all voted, all YES, every recorded vote in the pool: every participant's YES is in the pool -/
theorem yes_of_allVoted_allYes {t : DTx} {msgs : List Msg} (hav : t.allVoted = true)
    (hay : t.allYes = true) (hvm : ∀ e ∈ t.votes, Msg.vote t.id e.1 e.2 ∈ msgs)
    {sh : Nat} (hsh : sh ∈ t.participants) : ∃ h ks, Msg.vote t.id sh (.yes h ks) ∈ msgs := by
  have hv1 : t.hasVote sh = true := by
    simp only [DTx.allVoted, List.all_eq_true] at hav
    exact hav sh hsh
  obtain ⟨e, he, hesh⟩ := hasVote_mem hv1
  have hyes : e.2.isYes = true := by
    simp only [DTx.allYes, List.all_eq_true] at hay
    exact hay e he
  have hm := hvm e he
  cases hev : e.2 with
  | yes hh ks => rw [hev] at hm; rw [hesh] at hm; exact ⟨hh, ks, hm⟩
  | no => rw [hev] at hyes; cases hyes
  | conflict o => rw [hev] at hyes; cases hyes

/-- steps that leave the coordinator, the specs and the decisions alone, only add `vote` messages,
    and only log an apply / discard that is backed by a decision -/
theorem InvR.frame {s s' : Sys} (h : InvR s) (hc : s'.coord = s.coord) (hs : s'.specs = s.specs)
    (hd : s'.decided = s.decided)
    (hm : ∀ m, m ∈ s'.msgs ↔ (m ∈ s.msgs ∨ ∃ tx sh v, m = Msg.vote tx sh v ∧ m ∈ s'.msgs))
    (ha : ∀ sh tx, (sh, tx) ∈ s'.applied → (sh, tx) ∈ s.applied ∨ (tx, true) ∈ s.decided)
    (hdi : ∀ sh tx, (sh, tx) ∈ s'.discarded → (sh, tx) ∈ s.discarded ∨ (tx, false) ∈ s.decided) :
    InvR s' := by
  have mono : ∀ m, m ∈ s.msgs → m ∈ s'.msgs := fun m hm' => (hm m).2 (Or.inl hm')
  constructor
  · intro tx sh hmm
    rw [hd]
    rcases (hm _).1 hmm with h1 | ⟨_, _, _, h1, _⟩
    · exact h.commitMsg tx sh h1
    · cases h1
  · intro tx sh hmm
    rw [hd]
    rcases (hm _).1 hmm with h1 | ⟨_, _, _, h1, _⟩
    · exact h.abortMsg tx sh h1
    · cases h1
  · rw [hd, hc]; exact h.decAbort
  · rw [hd, hc]; exact h.decCommit
  · rw [hc]; exact h.pendLt
  · rw [hc]; exact h.pendUniq
  · rw [hd, hc]; exact h.decLt
  · rw [hc]; exact h.paEmpty
  · rw [hc, hd]; intro t ht e he; exact (h.voteMsg t ht e he).imp (mono _) id
  · rw [hc]; exact h.prepOk
  · rw [hs, hc]; exact h.specLt
  · rw [hs, hc]; exact h.specPart
  · rw [hd, hs]; intro tx htx sp hsp hid sh hsh
    obtain ⟨hh, ks, hv⟩ := h.commitYes tx htx sp hsp hid sh hsh
    exact ⟨hh, ks, mono _ hv⟩
  · intro sh tx hx
    rw [hd]
    rcases ha sh tx hx with h1 | h1
    · exact h.applied sh tx h1
    · exact h1
  · intro sh tx hx
    rw [hd]
    rcases hdi sh tx hx with h1 | h1
    · exact h.discarded sh tx h1
    · exact h1

/-- dropping pending entries (and nothing else) keeps the invariant -/
theorem InvR.shrink {s : Sys} (h : InvR s) (ps : List DTx) (hsub : ∀ t ∈ ps, t ∈ s.coord.pending) :
    InvR { s with coord := { s.coord with pending := ps } } := by
  constructor
  · exact h.commitMsg
  · exact h.abortMsg
  · intro tx hd t ht hid; exact h.decAbort tx hd t (hsub t ht) hid
  · intro tx hd t ht hid; exact h.decCommit tx hd t (hsub t ht) hid
  · intro t ht; exact h.pendLt t (hsub t ht)
  · intro t ht t' ht' hid; exact h.pendUniq t (hsub t ht) t' (hsub t' ht') hid
  · exact h.decLt
  · exact h.paEmpty
  · intro t ht e he; exact h.voteMsg t (hsub t ht) e he
  · intro t ht hp; exact h.prepOk t (hsub t ht) hp
  · exact h.specLt
  · intro t ht sp hsp hid; exact h.specPart t (hsub t ht) sp hsp hid
  · exact h.commitYes
  · exact h.applied
  · exact h.discarded

/-! ### preservation by the events of C03's alphabet (adapted from `InvA`) -/

theorem InvR.begin {s : Sys} (h : InvR s) (shards : List Nat) (ops : List (Nat × List Op))
    (sim : List (Nat × Nat)) : InvR (s.step (.begin shards ops sim)) := by
  simp only [Sys.step, Sys.stepR, Coordinator.begin]
  split
  · exact h
  · rename_i c' id heq
    split at heq
    · cases heq
    · cases heq
      have hprep : ∀ m, m ∈ s.msgs ++ shards.map (fun sh => Msg.prepare s.coord.nextTx sh
          (TxSpec.opsFor ⟨s.coord.nextTx, shards, ops, sim⟩ sh)) →
          m ∈ s.msgs ∨ ∃ a b c, m = Msg.prepare a b c := by
        intro m hm
        rcases List.mem_append.1 hm with h1 | h1
        · exact Or.inl h1
        · obtain ⟨sh, _, rfl⟩ := List.mem_map.1 h1
          exact Or.inr ⟨_, _, _, rfl⟩
      constructor
      · intro tx sh hm
        rcases hprep _ hm with h1 | ⟨_, _, _, h1⟩
        · exact h.commitMsg tx sh h1
        · cases h1
      · intro tx sh hm
        rcases hprep _ hm with h1 | ⟨_, _, _, h1⟩
        · exact h.abortMsg tx sh h1
        · cases h1
      · intro tx hd t ht hid
        rcases List.mem_append.1 ht with h1 | h1
        · exact h.decAbort tx hd t h1 hid
        · simp only [List.mem_singleton] at h1
          subst h1
          have := h.decLt tx false hd
          simp only at hid; omega
      · intro tx hd t ht hid
        rcases List.mem_append.1 ht with h1 | h1
        · exact h.decCommit tx hd t h1 hid
        · simp only [List.mem_singleton] at h1
          subst h1
          have := h.decLt tx true hd
          simp only at hid; omega
      · intro t ht
        rcases List.mem_append.1 ht with h1 | h1
        · have := h.pendLt t h1; simp only; omega
        · simp only [List.mem_singleton] at h1
          subst h1; simp only; omega
      · intro t ht t' ht' hid
        rcases List.mem_append.1 ht with h1 | h1 <;> rcases List.mem_append.1 ht' with h2 | h2
        · exact h.pendUniq t h1 t' h2 hid
        · simp only [List.mem_singleton] at h2
          subst h2
          have := h.pendLt t h1; simp only at hid; omega
        · simp only [List.mem_singleton] at h1
          subst h1
          have := h.pendLt t' h2; simp only at hid; omega
        · simp only [List.mem_singleton] at h1 h2
          rw [h1, h2]
      · intro tx b hd
        have := h.decLt tx b hd; simp only; omega
      · exact h.paEmpty
      · intro t ht e he
        rcases List.mem_append.1 ht with h1 | h1
        · exact (h.voteMsg t h1 e he).imp (fun x => List.mem_append.2 (Or.inl x)) id
        · simp only [List.mem_singleton] at h1
          subst h1; simp at he
      · intro t ht hph
        rcases List.mem_append.1 ht with h1 | h1
        · exact h.prepOk t h1 hph
        · simp only [List.mem_singleton] at h1
          subst h1; simp at hph
      · intro sp hsp
        rcases List.mem_append.1 hsp with h1 | h1
        · have := h.specLt sp h1; simp only; omega
        · simp only [List.mem_singleton] at h1
          subst h1; simp only; omega
      · intro t ht sp hsp hid
        rcases List.mem_append.1 ht with h1 | h1 <;> rcases List.mem_append.1 hsp with h2 | h2
        · exact h.specPart t h1 sp h2 hid
        · simp only [List.mem_singleton] at h2
          subst h2
          have := h.pendLt t h1; simp only at hid; omega
        · simp only [List.mem_singleton] at h1
          subst h1
          have := h.specLt sp h2; simp only at hid; omega
        · simp only [List.mem_singleton] at h1 h2
          subst h1; subst h2; rfl
      · intro tx hd sp hsp hid sh hsh
        rcases List.mem_append.1 hsp with h1 | h1
        · obtain ⟨hh, ks, hv⟩ := h.commitYes tx hd sp h1 hid sh hsh
          exact ⟨hh, ks, List.mem_append.2 (Or.inl hv)⟩
        · simp only [List.mem_singleton] at h1
          subst h1
          have := h.decLt tx true hd
          simp only at hid; omega
      · exact h.applied
      · exact h.discarded

theorem InvR.vote {s : Sys} (h : InvR s) {tx sh : Nat} {v : Vote} (hv : Msg.vote tx sh v ∈ s.msgs) :
    InvR (s.deliverMsg (.vote tx sh v)).1 := by
  simp only [Sys.deliverMsg]
  split
  · exact h
  · rename_i r heq
    obtain ⟨c', ph⟩ := r
    obtain ⟨t, t1, htm, htid, htph, hpend, hnext, h1id, h1part, h1votes, hcases⟩ := recordVote_ok heq
    have hpa0 := h.paEmpty
    have hpa : ∀ a ∈ c'.pendingAborts, a.1 = tx ∧ t1.phase = .aborting := by
      rcases hcases with ⟨_, e⟩ | ⟨_, e, _, _⟩ | ⟨e1, reason, e⟩
      · rw [e, hpa0]; simp
      · rw [e, hpa0]; simp
      · rw [e, hpa0]; intro a ha
        simp only [List.nil_append, List.mem_singleton] at ha
        subst ha; exact ⟨rfl, e1⟩
    have hprep : t1.phase = .prepared ∨ t1.phase = .committing → t1.allVoted = true ∧ t1.allYes = true := by
      rcases hcases with ⟨e, _⟩ | ⟨_, _, e1, e2⟩ | ⟨e, _⟩
      · intro h'; rw [e] at h'; rcases h' with h' | h' <;> cases h'
      · intro _; exact ⟨e1, e2⟩
      · intro h'; rw [e] at h'; rcases h' with h' | h' <;> cases h'
    have htlt := h.pendLt t htm
    simp only [Sys.drain, Coordinator.takePendingAborts]
    have hmem : ∀ t', t' ∈ c'.pending → t' = t1 ∨ (t' ∈ s.coord.pending ∧ t'.id ≠ tx) := by
      intro t' ht'; rw [hpend] at ht'; exact mem_setTx ht'
    have hdec : ∀ tx' b, (tx', b) ∈ s.decided ++ c'.pendingAborts.map (fun a => (a.1, false)) →
        (tx', b) ∈ s.decided ∨ (tx' = tx ∧ b = false ∧ t1.phase = .aborting) := by
      intro tx' b hm
      rcases List.mem_append.1 hm with h1 | h1
      · exact Or.inl h1
      · obtain ⟨a, ha, he⟩ := List.mem_map.1 h1
        cases he
        exact Or.inr ⟨(hpa a ha).1, rfl, (hpa a ha).2⟩
    constructor
    · intro tx' sh' hm
      rcases List.mem_append.1 hm with h1 | h1
      · exact List.mem_append.2 (Or.inl (h.commitMsg tx' sh' h1))
      · obtain ⟨a, _, sh'', _, he⟩ := mem_abortMsgs.1 h1
        cases he
    · intro tx' sh' hm
      rcases List.mem_append.1 hm with h1 | h1
      · exact List.mem_append.2 (Or.inl (h.abortMsg tx' sh' h1))
      · obtain ⟨a, ha, sh'', _, he⟩ := mem_abortMsgs.1 h1
        cases he
        exact List.mem_append.2 (Or.inr (List.mem_map.2 ⟨a, ha, rfl⟩))
    · intro tx' hd t' ht' hid
      rcases hmem t' ht' with rfl | ⟨h1, h2⟩
      · rcases hdec tx' false hd with h3 | ⟨_, _, h3⟩
        · have := h.decAbort tx' h3 t htm (by omega)
          rw [htph] at this; cases this
        · exact h3
      · rcases hdec tx' false hd with h3 | ⟨h3, _, _⟩
        · exact h.decAbort tx' h3 t' h1 hid
        · omega
    · intro tx' hd t' ht' hid
      rcases hdec tx' true hd with h3 | ⟨_, h3, _⟩
      · rcases hmem t' ht' with rfl | ⟨h1, _⟩
        · have := h.decCommit tx' h3 t htm (by omega)
          rw [htph] at this; cases this
        · exact h.decCommit tx' h3 t' h1 hid
      · cases h3
    · intro t' ht'
      show t'.id < c'.nextTx
      rw [hnext]
      rcases hmem t' ht' with rfl | ⟨h1, _⟩
      · omega
      · exact h.pendLt t' h1
    · intro a ha b hb hid
      rcases hmem a ha with rfl | ⟨h1, h2⟩ <;> rcases hmem b hb with rfl | ⟨h3, h4⟩
      · rfl
      · omega
      · omega
      · exact h.pendUniq a h1 b h3 hid
    · intro tx' b hd
      show tx' < c'.nextTx
      rw [hnext]
      rcases hdec tx' b hd with h3 | ⟨h3, _, _⟩
      · exact h.decLt tx' b h3
      · omega
    · rfl
    · intro t' ht' e he
      rcases hmem t' ht' with rfl | ⟨h1, _⟩
      · rw [h1votes] at he
        rcases List.mem_append.1 he with h2 | h2
        · rcases h.voteMsg t htm e h2 with h3 | h3
          · left; apply List.mem_append.2; left
            rw [h1id, ← htid]; exact h3
          · have := h.decCommit t.id h3 t htm rfl
            rw [htph] at this; cases this
        · simp only [List.mem_singleton] at h2
          left; apply List.mem_append.2; left
          subst h2; rw [h1id]; exact hv
      · exact (h.voteMsg t' h1 e he).imp (fun x => List.mem_append.2 (Or.inl x))
          (fun x => List.mem_append.2 (Or.inl x))
    · intro t' ht' hph
      rcases hmem t' ht' with rfl | ⟨h1, _⟩
      · exact hprep hph
      · exact h.prepOk t' h1 hph
    · intro sp hsp
      show sp.id < c'.nextTx
      rw [hnext]; exact h.specLt sp hsp
    · intro t' ht' sp hsp hid
      rcases hmem t' ht' with rfl | ⟨h1, _⟩
      · rw [h1part]; exact h.specPart t htm sp hsp (by omega)
      · exact h.specPart t' h1 sp hsp hid
    · intro tx' hd sp hsp hid sh' hsh'
      rcases hdec tx' true hd with h3 | ⟨_, h3, _⟩
      · obtain ⟨hh, ks, hvv⟩ := h.commitYes tx' h3 sp hsp hid sh' hsh'
        exact ⟨hh, ks, List.mem_append.2 (Or.inl hvv)⟩
      · cases h3
    · intro sh' tx' hx
      exact List.mem_append.2 (Or.inl (h.applied sh' tx' hx))
    · intro sh' tx' hx
      exact List.mem_append.2 (Or.inl (h.discarded sh' tx' hx))

theorem InvR.sweep {s : Sys} (h : InvR s) : InvR (s.step .sweep) := by
  simp only [Sys.step, Sys.stepR, Sys.drain, Coordinator.takePendingAborts, Coordinator.cleanupTimeouts]
  rw [h.paEmpty]
  simp only [List.nil_append]
  have hsub : ∀ t', t' ∈ s.coord.pending.filter (fun t => !t.timedOut s.now) →
      t' ∈ s.coord.pending ∧ t'.timedOut s.now = false := by
    intro t' ht'
    have := List.mem_filter.1 ht'
    exact ⟨this.1, by simpa using this.2⟩
  have hdec : ∀ tx' b, (tx', b) ∈ s.decided ++
        ((s.coord.pending.filter (fun t => t.timedOut s.now)).map
          (fun t => (t.id, AbortReason.timeout, t.participants))).map (fun a => (a.1, false)) →
      (tx', b) ∈ s.decided ∨ (b = false ∧ ∃ t0 ∈ s.coord.pending, t0.timedOut s.now = true ∧ t0.id = tx') := by
    intro tx' b hm
    rcases List.mem_append.1 hm with h1 | h1
    · exact Or.inl h1
    · simp only [List.map_map, List.mem_map, List.mem_filter, Function.comp] at h1
      obtain ⟨t0, ⟨ht0, hto⟩, he⟩ := h1
      cases he
      exact Or.inr ⟨rfl, t0, ht0, hto, rfl⟩
  constructor
  · intro tx' sh' hm
    rcases List.mem_append.1 hm with h1 | h1
    · exact List.mem_append.2 (Or.inl (h.commitMsg tx' sh' h1))
    · obtain ⟨a, _, sh'', _, he⟩ := mem_abortMsgs.1 h1
      cases he
  · intro tx' sh' hm
    rcases List.mem_append.1 hm with h1 | h1
    · exact List.mem_append.2 (Or.inl (h.abortMsg tx' sh' h1))
    · obtain ⟨a, ha, sh'', _, he⟩ := mem_abortMsgs.1 h1
      cases he
      exact List.mem_append.2 (Or.inr (List.mem_map.2 ⟨a, ha, rfl⟩))
  · intro tx' hd t' ht' hid
    obtain ⟨h1, h2⟩ := hsub t' ht'
    rcases hdec tx' false hd with h3 | ⟨_, t0, ht0, hto, hid0⟩
    · exact h.decAbort tx' h3 t' h1 hid
    · have := h.pendUniq t' h1 t0 ht0 (by omega)
      subst this; rw [h2] at hto; cases hto
  · intro tx' hd t' ht' hid
    obtain ⟨h1, _⟩ := hsub t' ht'
    rcases hdec tx' true hd with h3 | ⟨h3, _⟩
    · exact h.decCommit tx' h3 t' h1 hid
    · cases h3
  · intro t' ht'; exact h.pendLt t' (hsub t' ht').1
  · intro a ha b hb hid; exact h.pendUniq a (hsub a ha).1 b (hsub b hb).1 hid
  · intro tx' b hd
    rcases hdec tx' b hd with h3 | ⟨_, t0, ht0, _, hid0⟩
    · exact h.decLt tx' b h3
    · have := h.pendLt t0 ht0
      show tx' < s.coord.nextTx
      omega
  · rfl
  · intro t' ht' e he
    exact (h.voteMsg t' (hsub t' ht').1 e he).imp (fun x => List.mem_append.2 (Or.inl x))
      (fun x => List.mem_append.2 (Or.inl x))
  · intro t' ht' hph; exact h.prepOk t' (hsub t' ht').1 hph
  · exact h.specLt
  · intro t' ht' sp hsp hid; exact h.specPart t' (hsub t' ht').1 sp hsp hid
  · intro tx' hd sp hsp hid sh' hsh'
    rcases hdec tx' true hd with h3 | ⟨h3, _⟩
    · obtain ⟨hh, ks, hvv⟩ := h.commitYes tx' h3 sp hsp hid sh' hsh'
      exact ⟨hh, ks, List.mem_append.2 (Or.inl hvv)⟩
    · cases h3
  · intro sh' tx' hx
    exact List.mem_append.2 (Or.inl (h.applied sh' tx' hx))
  · intro sh' tx' hx
    exact List.mem_append.2 (Or.inl (h.discarded sh' tx' hx))

theorem InvR.coordCommit {s : Sys} (h : InvR s) (tx : Nat) : InvR (s.step (.coordCommit tx)) := by
  simp only [Sys.step, Sys.stepR]
  split
  · rename_i t c' hft hc
    obtain ⟨t', ht', hph, hc'⟩ := commit_ok hc
    rw [hft] at ht'; cases ht'
    obtain ⟨htm, htid⟩ := findTx_some hft
    subst hc'
    have hdec : ∀ tx' b, (tx', b) ∈ s.decided ++ [(tx, true)] → (tx', b) ∈ s.decided ∨ (tx' = tx ∧ b = true) := by
      intro tx' b hm
      rcases List.mem_append.1 hm with h1 | h1
      · exact Or.inl h1
      · simp only [List.mem_singleton, Prod.mk.injEq] at h1; exact Or.inr h1
    constructor
    · intro tx' sh' hm
      rcases List.mem_append.1 hm with h1 | h1
      · exact List.mem_append.2 (Or.inl (h.commitMsg tx' sh' h1))
      · obtain ⟨x, _, he⟩ := List.mem_map.1 h1
        cases he; simp
    · intro tx' sh' hm
      rcases List.mem_append.1 hm with h1 | h1
      · exact List.mem_append.2 (Or.inl (h.abortMsg tx' sh' h1))
      · obtain ⟨x, _, he⟩ := List.mem_map.1 h1
        cases he
    · intro tx' hd a ha hid
      rcases hdec tx' false hd with h3 | ⟨_, h3⟩
      · exact h.decAbort tx' h3 a (mem_removeTx.1 ha).1 hid
      · cases h3
    · intro tx' hd a ha hid
      rcases hdec tx' true hd with h3 | ⟨h3, _⟩
      · exact h.decCommit tx' h3 a (mem_removeTx.1 ha).1 hid
      · exact absurd (hid.trans h3) (mem_removeTx.1 ha).2
    · intro a ha; exact h.pendLt a (mem_removeTx.1 ha).1
    · intro a ha b hb hid; exact h.pendUniq a (mem_removeTx.1 ha).1 b (mem_removeTx.1 hb).1 hid
    · intro tx' b hd
      rcases hdec tx' b hd with h3 | ⟨h3, _⟩
      · exact h.decLt tx' b h3
      · have := h.pendLt t htm
        show tx' < s.coord.nextTx
        omega
    · exact h.paEmpty
    · intro a ha e he
      exact (h.voteMsg a (mem_removeTx.1 ha).1 e he).imp (fun x => List.mem_append.2 (Or.inl x))
        (fun x => List.mem_append.2 (Or.inl x))
    · intro a ha hp; exact h.prepOk a (mem_removeTx.1 ha).1 hp
    · exact h.specLt
    · intro a ha sp hsp hid; exact h.specPart a (mem_removeTx.1 ha).1 sp hsp hid
    · intro tx' hd sp hsp hid sh' hsh'
      apply (fun (x : ∃ hh ks, Msg.vote tx' sh' (.yes hh ks) ∈ s.msgs) =>
        let ⟨hh, ks, hvv⟩ := x; (⟨hh, ks, List.mem_append.2 (Or.inl hvv)⟩ :
          ∃ hh ks, Msg.vote tx' sh' (.yes hh ks) ∈ s.msgs ++ t.participants.map (fun sh => Msg.commit tx sh)))
      rcases hdec tx' true hd with h3 | ⟨h3, _⟩
      · exact h.commitYes tx' h3 sp hsp hid sh' hsh'
      · subst h3
        have hparts := h.specPart t htm sp hsp (by omega)
        obtain ⟨hav, hay⟩ := h.prepOk t htm (Or.inl hph)
        rw [hparts] at hsh'
        have hvm : ∀ e ∈ t.votes, Msg.vote t.id e.1 e.2 ∈ s.msgs := fun e he =>
          (h.voteMsg t htm e he).resolve_right (fun hd' => by
            have := h.decCommit t.id hd' t htm rfl
            rw [hph] at this; cases this)
        have := yes_of_allVoted_allYes hav hay hvm hsh'
        rw [htid] at this; exact this
    · intro sh' tx' hx
      exact List.mem_append.2 (Or.inl (h.applied sh' tx' hx))
    · intro sh' tx' hx
      exact List.mem_append.2 (Or.inl (h.discarded sh' tx' hx))
  · exact h
  · exact h

theorem InvR.coordAbort {s : Sys} (h : InvR s) (tx : Nat) : InvR (s.step (.coordAbort tx)) := by
  simp only [Sys.step, Sys.stepR]
  split
  · rename_i t c' hft hc
    obtain ⟨t', ht', hc'⟩ := abort_ok hc
    rw [hft] at ht'; cases ht'
    obtain ⟨htm, htid⟩ := findTx_some hft
    subst hc'
    have hdec : ∀ tx' b, (tx', b) ∈ s.decided ++ [(tx, false)] → (tx', b) ∈ s.decided ∨ (tx' = tx ∧ b = false) := by
      intro tx' b hm
      rcases List.mem_append.1 hm with h1 | h1
      · exact Or.inl h1
      · simp only [List.mem_singleton, Prod.mk.injEq] at h1; exact Or.inr h1
    constructor
    · intro tx' sh' hm
      rcases List.mem_append.1 hm with h1 | h1
      · exact List.mem_append.2 (Or.inl (h.commitMsg tx' sh' h1))
      · obtain ⟨x, _, he⟩ := List.mem_map.1 h1
        cases he
    · intro tx' sh' hm
      rcases List.mem_append.1 hm with h1 | h1
      · exact List.mem_append.2 (Or.inl (h.abortMsg tx' sh' h1))
      · obtain ⟨x, _, he⟩ := List.mem_map.1 h1
        cases he; simp
    · intro tx' hd a ha hid
      rcases hdec tx' false hd with h3 | ⟨h3, _⟩
      · exact h.decAbort tx' h3 a (mem_removeTx.1 ha).1 hid
      · have := (mem_removeTx.1 ha).2; omega
    · intro tx' hd a ha hid
      rcases hdec tx' true hd with h3 | ⟨_, h3⟩
      · exact h.decCommit tx' h3 a (mem_removeTx.1 ha).1 hid
      · cases h3
    · intro a ha; exact h.pendLt a (mem_removeTx.1 ha).1
    · intro a ha b hb hid; exact h.pendUniq a (mem_removeTx.1 ha).1 b (mem_removeTx.1 hb).1 hid
    · intro tx' b hd
      rcases hdec tx' b hd with h3 | ⟨h3, _⟩
      · exact h.decLt tx' b h3
      · have := h.pendLt t htm
        show tx' < s.coord.nextTx
        omega
    · exact h.paEmpty
    · intro a ha e he
      exact (h.voteMsg a (mem_removeTx.1 ha).1 e he).imp (fun x => List.mem_append.2 (Or.inl x))
        (fun x => List.mem_append.2 (Or.inl x))
    · intro a ha hp; exact h.prepOk a (mem_removeTx.1 ha).1 hp
    · exact h.specLt
    · intro a ha sp hsp hid; exact h.specPart a (mem_removeTx.1 ha).1 sp hsp hid
    · intro tx' hd sp hsp hid sh' hsh'
      rcases hdec tx' true hd with h3 | ⟨_, h3⟩
      · obtain ⟨hh, ks, hvv⟩ := h.commitYes tx' h3 sp hsp hid sh' hsh'
        exact ⟨hh, ks, List.mem_append.2 (Or.inl hvv)⟩
      · cases h3
    · intro sh' tx' hx
      exact List.mem_append.2 (Or.inl (h.applied sh' tx' hx))
    · intro sh' tx' hx
      exact List.mem_append.2 (Or.inl (h.discarded sh' tx' hx))
  · exact h
  · exact h

theorem InvR.deliver {s : Sys} (h : InvR s) (i : Nat) : InvR (s.step (.deliver i)) := by
  simp only [Sys.step, Sys.stepR]
  split
  · exact h
  · rename_i m hm
    have hmem := mem_of_getElem? hm
    cases m with
    | prepare tx sh ops =>
      simp only [Sys.deliverMsg]
      split
      · exact h
      · exact h.frame rfl rfl rfl (frame_msgs_vote _ _ _ _) (fun _ _ hx => Or.inl hx) (fun _ _ hx => Or.inl hx)
    | vote tx sh v => exact h.vote hmem
    | commit tx sh =>
      simp only [Sys.deliverMsg]
      split
      · exact h
      · refine h.frame rfl rfl rfl (frame_msgs_same _) ?_ (fun _ _ hx => Or.inl hx)
        intro sh' tx' hx
        simp only at hx
        split at hx
        · rcases List.mem_append.1 hx with h1 | h1
          · exact Or.inl h1
          · simp only [List.mem_singleton, Prod.mk.injEq] at h1
            rw [h1.2]; exact Or.inr (h.commitMsg tx sh hmem)
        · exact Or.inl hx
    | abort tx sh =>
      simp only [Sys.deliverMsg]
      split
      · exact h
      · refine h.frame rfl rfl rfl (frame_msgs_same _) (fun _ _ hx => Or.inl hx) ?_
        intro sh' tx' hx
        simp only at hx
        split at hx
        · rcases List.mem_append.1 hx with h1 | h1
          · exact Or.inl h1
          · simp only [List.mem_singleton, Prod.mk.injEq] at h1
            rw [h1.2]; exact Or.inr (h.abortMsg tx sh hmem)
        · exact Or.inl hx

theorem InvR.stepBase {s : Sys} (h : InvR s) (e : Ev) (ha : s.inAlphabet e = true) : InvR (s.step e) := by
  cases e with
  | begin shards ops sim => exact h.begin shards ops sim
  | deliver i => exact h.deliver i
  | sweep => exact h.sweep
  | tick d =>
    exact h.frame rfl rfl rfl (frame_msgs_same _) (fun _ _ hx => Or.inl hx) (fun _ _ hx => Or.inl hx)
  | coordCommit tx => exact h.coordCommit tx
  | coordAbort tx => exact h.coordAbort tx
  | forge tx sh v =>
    exact h.frame rfl rfl rfl (frame_msgs_vote _ _ _ _) (fun _ _ hx => Or.inl hx) (fun _ _ hx => Or.inl hx)
  | cleanupStale sh t => simp [Sys.inAlphabet] at ha
  | recover sh t => simp [Sys.inAlphabet] at ha

/-! ### preservation by the recovery events -/

theorem InvR.coordRecover {s : Sys} (h : InvR s) : InvR (s.stepX .coordRecover) := by
  simp only [Sys.stepX]
  -- the recovered pending list: the old entries with the phase `recover` leaves them in
  have hmem : ∀ t', t' ∈ (s.coord.recover s.now).1.pending →
      ∃ t ∈ s.coord.pending, t' = t.recovered s.now := fun t' ht' => mem_recover_pending ht'
  have hnext : (s.coord.recover s.now).1.nextTx = s.coord.nextTx := rfl
  have huniq : ∀ a ∈ (s.coord.recover s.now).1.pending, ∀ b ∈ (s.coord.recover s.now).1.pending,
      a.id = b.id → a = b := by
    intro a ha b hb hid
    obtain ⟨ta, hta, rfl⟩ := hmem a ha
    obtain ⟨tb, htb, rfl⟩ := hmem b hb
    rw [h.pendUniq ta hta tb htb hid]
  have hdec : ∀ tx b, (tx, b) ∈ s.decided ++ (s.coord.recover s.now).1.resendDecisions →
      (tx, b) ∈ s.decided ∨ ∃ t ∈ s.coord.pending, t.id = tx ∧ t.recovered s.now ∈ (s.coord.recover s.now).1.pending ∧
        t.recoverPhase s.now = (if b then Phase.committing else Phase.aborting) := by
    intro tx b hm
    rcases List.mem_append.1 hm with h1 | h1
    · exact Or.inl h1
    · obtain ⟨t', ht', hid, hph⟩ := mem_resendDecisions h1
      obtain ⟨t, ht, rfl⟩ := hmem t' ht'
      exact Or.inr ⟨t, ht, hid, ht', hph⟩
  have hprep : ∀ t' ∈ (s.coord.recover s.now).1.pending, t'.phase = .prepared ∨ t'.phase = .committing →
      t'.allVoted = true ∧ t'.allYes = true := by
    intro t' ht' hph
    obtain ⟨t, ht, rfl⟩ := hmem t' ht'
    rw [recovered_allVoted, recovered_allYes]
    rw [recovered_phase] at hph
    rcases hph with hph | hph
    · exact h.prepOk t ht (Or.inl (recoverPhase_prepared hph))
    · exact h.prepOk t ht (recoverPhase_committing hph)
  constructor
  · intro tx sh hm
    rcases List.mem_append.1 hm with h1 | h1
    · exact List.mem_append.2 (Or.inl (h.commitMsg tx sh h1))
    · rcases mem_resendMsgs h1 with ⟨tx', sh', he, hd⟩ | ⟨tx', sh', he, _⟩
      · cases he; exact List.mem_append.2 (Or.inr hd)
      · cases he
  · intro tx sh hm
    rcases List.mem_append.1 hm with h1 | h1
    · exact List.mem_append.2 (Or.inl (h.abortMsg tx sh h1))
    · rcases mem_resendMsgs h1 with ⟨tx', sh', he, _⟩ | ⟨tx', sh', he, hd⟩
      · cases he
      · cases he; exact List.mem_append.2 (Or.inr hd)
  · intro tx hd t' ht' hid
    obtain ⟨t, ht, rfl⟩ := hmem t' ht'
    rcases hdec tx false hd with h3 | ⟨t2, ht2, hid2, _, hph2⟩
    · rw [recovered_phase]
      exact recoverPhase_of_aborting (h.decAbort tx h3 t ht hid)
    · have : t = t2 := h.pendUniq t ht t2 ht2 (by rw [recovered_id] at hid; omega)
      subst this
      rw [recovered_phase, hph2]; rfl
  · intro tx hd t' ht' hid
    obtain ⟨t, ht, rfl⟩ := hmem t' ht'
    rcases hdec tx true hd with h3 | ⟨t2, ht2, hid2, _, hph2⟩
    · rw [recovered_phase]
      exact recoverPhase_of_committing (h.decCommit tx h3 t ht hid)
    · have : t = t2 := h.pendUniq t ht t2 ht2 (by rw [recovered_id] at hid; omega)
      subst this
      rw [recovered_phase, hph2]; rfl
  · intro t' ht'
    obtain ⟨t, ht, rfl⟩ := hmem t' ht'
    exact h.pendLt t ht
  · exact huniq
  · intro tx b hd
    show tx < s.coord.nextTx
    rcases hdec tx b hd with h3 | ⟨t2, ht2, hid2, _, _⟩
    · exact h.decLt tx b h3
    · have := h.pendLt t2 ht2; omega
  · exact h.paEmpty
  · intro t' ht' e he
    obtain ⟨t, ht, rfl⟩ := hmem t' ht'
    exact (h.voteMsg t ht e he).imp (fun x => List.mem_append.2 (Or.inl x))
      (fun x => List.mem_append.2 (Or.inl x))
  · exact hprep
  · exact h.specLt
  · intro t' ht' sp hsp hid
    obtain ⟨t, ht, rfl⟩ := hmem t' ht'
    exact h.specPart t ht sp hsp hid
  · intro tx hd sp hsp hid sh hsh
    rcases hdec tx true hd with h3 | ⟨t2, ht2, hid2, hm2, hph2⟩
    · obtain ⟨hh, ks, hvv⟩ := h.commitYes tx h3 sp hsp hid sh hsh
      exact ⟨hh, ks, List.mem_append.2 (Or.inl hvv)⟩
    · by_cases hdone : (t2.id, true) ∈ s.decided
      · rw [hid2] at hdone
        obtain ⟨hh, ks, hvv⟩ := h.commitYes tx hdone sp hsp hid sh hsh
        exact ⟨hh, ks, List.mem_append.2 (Or.inl hvv)⟩
      · obtain ⟨hav, hay⟩ := h.prepOk t2 ht2 (recoverPhase_committing hph2)
        have hparts := h.specPart t2 ht2 sp hsp (by omega)
        rw [hparts] at hsh
        have hvm : ∀ e ∈ t2.votes, Msg.vote t2.id e.1 e.2 ∈ s.msgs := fun e he =>
          (h.voteMsg t2 ht2 e he).resolve_right hdone
        obtain ⟨hh, ks, hvv⟩ := yes_of_allVoted_allYes hav hay hvm hsh
        rw [hid2] at hvv
        exact ⟨hh, ks, List.mem_append.2 (Or.inl hvv)⟩
  · intro sh tx hx
    exact List.mem_append.2 (Or.inl (h.applied sh tx hx))
  · intro sh tx hx
    exact List.mem_append.2 (Or.inl (h.discarded sh tx hx))

theorem InvR.completeCommit {s : Sys} (h : InvR s) (tx : Nat) : InvR (s.stepX (.completeCommit tx)) := by
  simp only [Sys.stepX]
  split
  · rename_i c hc
    obtain ⟨_, _, _, rfl⟩ := completeCommit_ok hc
    exact h.shrink _ (fun t ht => (mem_removeTx.1 ht).1)
  · exact h

theorem InvR.completeAbort {s : Sys} (h : InvR s) (tx : Nat) : InvR (s.stepX (.completeAbort tx)) := by
  simp only [Sys.stepX]
  split
  · rename_i c hc
    obtain ⟨_, _, _, rfl⟩ := completeAbort_ok hc
    exact h.shrink _ (fun t ht => (mem_removeTx.1 ht).1)
  · exact h

theorem InvR.stepX {s : Sys} (h : InvR s) (e : EvR) (ha : s.inAlphabetR e = true) : InvR (s.stepX e) := by
  cases e with
  | base e => exact h.stepBase e ha
  | coordRecover => exact h.coordRecover
  | completeCommit tx => exact h.completeCommit tx
  | completeAbort tx => exact h.completeAbort tx
  | forceResolve tx b => simp [Sys.inAlphabetR] at ha

theorem InvR.reach {s0 s : Sys} (h0 : InvR s0) (hr : ReachR s0 s) : InvR s := by
  induction hr with
  | refl => exact h0
  | step e _ ha ih => exact ih.stepX e ha

/-! ### runs -/

theorem reachR_run {s0 s : Sys} (hr : ReachR s0 s) (es : List EvR) (h : s.allInR es = true) :
    ReachR s0 (s.runX es) := by
  induction es generalizing s with
  | nil => exact hr
  | cons e es ih =>
    simp only [Sys.allInR, Bool.and_eq_true] at h
    exact ih (ReachR.step e hr h.1) h.2

theorem reachRS_run {s0 s : Sys} (hr : ReachRS s0 s) (es : List EvR) (h : s.allInRS es = true) :
    ReachRS s0 (s.runX es) := by
  induction es generalizing s with
  | nil => exact hr
  | cons e es ih =>
    simp only [Sys.allInRS, Bool.and_eq_true] at h
    exact ih (ReachRS.step e hr h.1.1 h.1.2) h.2

theorem reachRF_run {s0 s : Sys} (hr : ReachRF s0 s) (es : List EvR) (h : s.allInRF es = true) :
    ReachRF s0 (s.runX es) := by
  induction es generalizing s with
  | nil => exact hr
  | cons e es ih =>
    simp only [Sys.allInRF, Bool.and_eq_true] at h
    exact ih (ReachRF.step e hr h.1) h.2

theorem ReachRS.toR {s0 s : Sys} (h : ReachRS s0 s) : ReachR s0 s := by
  induction h with
  | refl => exact .refl
  | step e _ ha _ ih => exact .step e ih ha

/-- every run of C03's alphabet is a run of the extended one -/
theorem Reach.toRS {s0 s : Sys} (h : Reach s0 s) : ReachR s0 s := by
  induction h with
  | refl => exact .refl
  | step e _ ha ih => exact ReachR.step (.base e) ih ha

theorem ReachR.trans {s0 s s' : Sys} (h1 : ReachR s0 s) (h2 : ReachR s s') : ReachR s0 s' := by
  induction h2 with
  | refl => exact h1
  | step e _ ha ih => exact ReachR.step e ih ha

theorem ReachRS.trans {s0 s s' : Sys} (h1 : ReachRS s0 s) (h2 : ReachRS s s') : ReachRS s0 s' := by
  induction h2 with
  | refl => exact h1
  | step e _ ha hs ih => exact ReachRS.step e ih ha hs

/-- decisions are only ever appended -/
theorem decided_monoX (s : Sys) (e : EvR) (x : Nat × Bool) (hx : x ∈ s.decided) : x ∈ (s.stepX e).decided := by
  cases e with
  | base e => exact decided_mono s e x hx
  | coordRecover => exact List.mem_append.2 (Or.inl hx)
  | completeCommit tx => simp only [Sys.stepX]; split <;> exact hx
  | completeAbort tx => simp only [Sys.stepX]; split <;> exact hx
  | forceResolve tx b =>
    simp only [Sys.stepX]
    split
    · exact List.mem_append.2 (Or.inl hx)
    · exact hx

/-! ### where a new decision comes from; exclusivity when `Committing` entries are spared -/

/-- the ways one event of `ReachR`'s alphabet adds the decision `b` for the pending entry `t` -/
inductive Fresh (s : Sys) : EvR → DTx → Bool → Prop
  /-- `record_vote` moved a `Preparing` entry to `Aborting` (NO / CONFLICT vote, cross-shard conflict) -/
  | vote (i : Nat) (t : DTx) : t.phase = .preparing → Fresh s (.base (.deliver i)) t false
  /-- `cleanup_timeouts` removed a timed-out entry — whatever its phase -/
  | sweep (t : DTx) : t.timedOut s.now = true → Fresh s (.base .sweep) t false
  /-- `commit()` on a `Prepared` entry -/
  | commit (t : DTx) : t.phase = .prepared → Fresh s (.base (.coordCommit t.id)) t true
  /-- `abort()` on an entry — whatever its phase -/
  | abort (t : DTx) : Fresh s (.base (.coordAbort t.id)) t false
  /-- `recover()` left the entry `Committing` and the decision was (re-)sent -/
  | recoverCommit (t : DTx) : t.recoverPhase s.now = .committing → Fresh s .coordRecover t true
  /-- `recover()` left the entry `Aborting` and the decision was (re-)sent -/
  | recoverAbort (t : DTx) : t.recoverPhase s.now = .aborting → Fresh s .coordRecover t false

theorem decided_fresh {s : Sys} (h : InvR s) (e : EvR) (ha : s.inAlphabetR e = true) (tx : Nat) (b : Bool)
    (hd : (tx, b) ∈ (s.stepX e).decided) :
    (tx, b) ∈ s.decided ∨ ∃ t ∈ s.coord.pending, t.id = tx ∧ Fresh s e t b := by
  cases e with
  | forceResolve tx' b' => simp [Sys.inAlphabetR] at ha
  | completeCommit tx' =>
    simp only [Sys.stepX] at hd
    split at hd <;> exact Or.inl hd
  | completeAbort tx' =>
    simp only [Sys.stepX] at hd
    split at hd <;> exact Or.inl hd
  | coordRecover =>
    simp only [Sys.stepX] at hd
    rcases List.mem_append.1 hd with h1 | h1
    · exact Or.inl h1
    · obtain ⟨t', ht', hid, hph⟩ := mem_resendDecisions h1
      obtain ⟨t, ht, rfl⟩ := mem_recover_pending ht'
      rw [recovered_phase] at hph
      right
      refine ⟨t, ht, hid, ?_⟩
      cases b
      · exact Fresh.recoverAbort t hph
      · exact Fresh.recoverCommit t hph
  | base e =>
    cases e with
    | cleanupStale sh t => simp [Sys.inAlphabetR, Sys.inAlphabet] at ha
    | recover sh t => simp [Sys.inAlphabetR, Sys.inAlphabet] at ha
    | tick d => exact Or.inl hd
    | forge tx' sh v => exact Or.inl hd
    | begin shards ops sim =>
      simp only [Sys.stepX, Sys.step, Sys.stepR] at hd
      split at hd <;> exact Or.inl hd
    | sweep =>
      simp only [Sys.stepX, Sys.step, Sys.stepR, Sys.drain, Coordinator.takePendingAborts,
        Coordinator.cleanupTimeouts] at hd
      rw [h.paEmpty] at hd
      rcases List.mem_append.1 hd with h1 | h1
      · exact Or.inl h1
      · simp only [List.nil_append, List.map_map, List.mem_map, List.mem_filter, Function.comp] at h1
        obtain ⟨t0, ⟨ht0, hto⟩, he⟩ := h1
        cases he
        exact Or.inr ⟨t0, ht0, rfl, Fresh.sweep t0 hto⟩
    | coordCommit tx' =>
      simp only [Sys.stepX, Sys.step, Sys.stepR] at hd
      split at hd
      · rename_i t c' hft hc
        obtain ⟨t', ht', hph, _⟩ := commit_ok hc
        rw [hft] at ht'; cases ht'
        obtain ⟨htm, htid⟩ := findTx_some hft
        rcases List.mem_append.1 hd with h1 | h1
        · exact Or.inl h1
        · simp only [List.mem_singleton, Prod.mk.injEq] at h1
          obtain ⟨rfl, rfl⟩ := h1
          subst htid
          exact Or.inr ⟨t, htm, rfl, Fresh.commit t hph⟩
      · exact Or.inl hd
      · exact Or.inl hd
    | coordAbort tx' =>
      simp only [Sys.stepX, Sys.step, Sys.stepR] at hd
      split at hd
      · rename_i t c' hft hc
        obtain ⟨htm, htid⟩ := findTx_some hft
        rcases List.mem_append.1 hd with h1 | h1
        · exact Or.inl h1
        · simp only [List.mem_singleton, Prod.mk.injEq] at h1
          obtain ⟨rfl, rfl⟩ := h1
          subst htid
          exact Or.inr ⟨t, htm, rfl, Fresh.abort t⟩
      · exact Or.inl hd
      · exact Or.inl hd
    | deliver i =>
      simp only [Sys.stepX, Sys.step, Sys.stepR] at hd
      split at hd
      · exact Or.inl hd
      · rename_i m hm
        cases m with
        | prepare tx' sh ops =>
          simp only [Sys.deliverMsg] at hd
          split at hd <;> exact Or.inl hd
        | commit tx' sh =>
          simp only [Sys.deliverMsg] at hd
          split at hd <;> exact Or.inl hd
        | abort tx' sh =>
          simp only [Sys.deliverMsg] at hd
          split at hd <;> exact Or.inl hd
        | vote tx' sh v =>
          simp only [Sys.deliverMsg] at hd
          split at hd
          · exact Or.inl hd
          · rename_i r heq
            obtain ⟨c', ph⟩ := r
            obtain ⟨t, t1, htm, htid, htph, _, _, _, _, _, hcases⟩ := recordVote_ok heq
            simp only [Sys.drain, Coordinator.takePendingAborts] at hd
            rcases List.mem_append.1 hd with h1 | h1
            · exact Or.inl h1
            · obtain ⟨a, ha', he⟩ := List.mem_map.1 h1
              cases he
              have hpa0 := h.paEmpty
              rcases hcases with ⟨_, e⟩ | ⟨_, e, _, _⟩ | ⟨_, reason, e⟩
              · rw [e, hpa0] at ha'; cases ha'
              · rw [e, hpa0] at ha'; cases ha'
              · rw [e, hpa0] at ha'
                simp only [List.nil_append, List.mem_singleton] at ha'
                subst ha'
                exact Or.inr ⟨t, htm, htid, Fresh.vote i t htph⟩

theorem fresh_true_inv {s : Sys} {e : EvR} {t : DTx} (h : Fresh s e t true) :
    (∃ tx, e = .base (.coordCommit tx)) ∨ (e = .coordRecover ∧ t.recoverPhase s.now = .committing) := by
  cases h with
  | commit _ hp => exact Or.inl ⟨_, rfl⟩
  | recoverCommit _ hp => exact Or.inr ⟨rfl, hp⟩

theorem fresh_false_inv {s : Sys} {e : EvR} {t : DTx} (h : Fresh s e t false) :
    (∃ i, e = .base (.deliver i)) ∨ e = .base .sweep ∨ (∃ tx, e = .base (.coordAbort tx)) ∨
    (e = .coordRecover ∧ t.recoverPhase s.now = .aborting) := by
  cases h with
  | vote i _ hp => exact Or.inl ⟨i, rfl⟩
  | sweep _ hto => exact Or.inr (Or.inl rfl)
  | abort _ => exact Or.inr (Or.inr (Or.inl ⟨_, rfl⟩))
  | recoverAbort _ hp => exact Or.inr (Or.inr (Or.inr ⟨rfl, hp⟩))

/-- one step of a run that spares `Committing` entries keeps the decisions exclusive -/
theorem excl_stepX {s : Sys} (h : InvR s) (hx : ∀ tx, (tx, true) ∈ s.decided → (tx, false) ∉ s.decided)
    (e : EvR) (ha : s.inAlphabetR e = true) (hs : s.sparesCommitting e = true) :
    ∀ tx, (tx, true) ∈ (s.stepX e).decided → (tx, false) ∉ (s.stepX e).decided := by
  intro tx h1 h2
  rcases decided_fresh h e ha tx true h1 with o1 | ⟨t1, ht1, hid1, f1⟩ <;>
    rcases decided_fresh h e ha tx false h2 with o2 | ⟨t2, ht2, hid2, f2⟩
  · exact hx tx o1 o2
  · have hc := h.decCommit tx o1 t2 ht2 hid2
    cases f2 with
    | vote i _ hp => rw [hc] at hp; cases hp
    | sweep _ hto =>
      simp only [Sys.sparesCommitting, List.all_eq_true] at hs
      have := hs t2 ht2
      rw [hc, hto] at this
      simp at this
    | abort _ =>
      simp only [Sys.sparesCommitting, List.all_eq_true] at hs
      have := hs t2 ht2
      rw [hc] at this
      simp at this
    | recoverAbort _ hp => rw [recoverPhase_of_committing hc] at hp; cases hp
  · have hc := h.decAbort tx o2 t1 ht1 hid1
    cases f1 with
    | commit _ hp => rw [hc] at hp; cases hp
    | recoverCommit _ hp => rw [recoverPhase_of_aborting hc] at hp; cases hp
  · have : t1 = t2 := h.pendUniq t1 ht1 t2 ht2 (by omega)
    subst this
    rcases fresh_true_inv f1 with ⟨tx1, he1⟩ | ⟨he1, hp1⟩ <;>
      rcases fresh_false_inv f2 with ⟨i, he2⟩ | he2 | ⟨tx2, he2⟩ | ⟨he2, hp2⟩
    · rw [he1] at he2; cases he2
    · rw [he1] at he2; cases he2
    · rw [he1] at he2; cases he2
    · rw [he1] at he2; cases he2
    · rw [he1] at he2; cases he2
    · rw [he1] at he2; cases he2
    · rw [he1] at he2; cases he2
    · rw [hp1] at hp2; cases hp2

structure InvRS (s : Sys) : Prop where
  inv : InvR s
  excl : ∀ tx, (tx, true) ∈ s.decided → (tx, false) ∉ s.decided

theorem InvRS.init (stores : List Store) (a b c : Nat) : InvRS (Sys.init stores a b c) :=
  ⟨InvR.init stores a b c, by simp [Sys.init]⟩

theorem InvRS.reach {s0 s : Sys} (h0 : InvRS s0) (hr : ReachRS s0 s) : InvRS s := by
  induction hr with
  | refl => exact h0
  | step e _ ha hs ih => exact ⟨ih.inv.stepX e ha, excl_stepX ih.inv ih.excl e ha hs⟩

/-! ### where YES votes come from, over the extended alphabet (`VInv` of `LemmasVote.lean`) -/

/-- `VInv.step` of `LemmasVote.lean`, with `InvR` in the place of `InvA` (only `specLt` is used) -/
theorem VInv.stepBaseR {s : Sys} (h : VInv s) (hA : InvR s) (e : Ev) (ha : s.inAlphabet e = true) :
    VInv (s.step e) := by
  cases e with
  | tick d => exact h.frame rfl rfl (fun _ hx => hx) (fun _ hm => Or.inl hm)
  | cleanupStale sh t => simp [Sys.inAlphabet] at ha
  | recover sh t => simp [Sys.inAlphabet] at ha
  | sweep =>
    refine h.frame rfl rfl (fun _ hx => hx) ?_
    intro m hm
    simp only [Sys.step, Sys.stepR, Sys.drain, List.mem_append] at hm
    rcases hm with h1 | h1
    · exact Or.inl h1
    · exact Or.inr (mem_abortMsgs_kind h1)
  | coordCommit tx =>
    simp only [Sys.step, Sys.stepR]
    split
    · rename_i t c _ hc
      obtain ⟨_, _, _, rfl⟩ := commit_ok hc
      refine h.frame rfl rfl (fun _ hx => hx) ?_
      intro m hm
      simp only [List.mem_append, List.mem_map] at hm
      rcases hm with h1 | ⟨sh, _, rfl⟩
      · exact Or.inl h1
      · exact Or.inr ⟨tx, sh, Or.inl rfl⟩
    · exact h
    · exact h
  | coordAbort tx =>
    simp only [Sys.step, Sys.stepR]
    split
    · rename_i t c _ hc
      obtain ⟨_, _, rfl⟩ := abort_ok hc
      refine h.frame rfl rfl (fun _ hx => hx) ?_
      intro m hm
      simp only [List.mem_append, List.mem_map] at hm
      rcases hm with h1 | ⟨sh, _, rfl⟩
      · exact Or.inl h1
      · exact Or.inr ⟨tx, sh, Or.inr rfl⟩
    · exact h
    · exact h
  | forge tx sh v =>
    simp only [Sys.inAlphabet, Bool.or_eq_true, Bool.not_eq_true', Bool.and_eq_true] at ha
    refine ⟨h.specUniq, ?_, ?_, ?_⟩
    · intro tx' sh' ops hm
      simp only [Sys.step, Sys.stepR, List.mem_append, List.mem_singleton] at hm
      rcases hm with h1 | h1
      · exact h.prepLt tx' sh' ops h1
      · cases h1
    · intro tx' sh' hh ks hm
      simp only [Sys.step, Sys.stepR, List.mem_append, List.mem_singleton, Msg.vote.injEq] at hm
      rcases hm with h1 | ⟨rfl, rfl, rfl⟩
      · exact h.yesLt tx' sh' hh ks h1
      · rcases ha with h2 | ⟨h2, _⟩
        · simp [Vote.isYes] at h2
        · simp only [knownTx, Option.isSome_iff_exists] at h2
          obtain ⟨sp, hsp⟩ := h2
          obtain ⟨hm1, hid⟩ := findSpec_some hsp
          show tx' < s.coord.nextTx
          rw [← hid]; exact hA.specLt sp hm1
    · intro tx' sh' hh ks hm hp
      simp only [Sys.step, Sys.stepR, List.mem_append, List.mem_singleton, Msg.vote.injEq] at hm
      rcases hm with h1 | ⟨rfl, rfl, rfl⟩
      · exact h.yesCast tx' sh' hh ks h1 hp
      · rcases ha with h2 | ⟨_, h2⟩
        · simp [Vote.isYes] at h2
        · have hp' : isParticipant s.specs tx' sh' = true := hp
          rw [hp'] at h2; cases h2
  | begin shards ops sim =>
    simp only [Sys.step, Sys.stepR]
    split
    · exact h
    · rename_i r hb
      unfold Coordinator.begin at hb
      split at hb
      · cases hb
      · cases hb
        refine ⟨?_, ?_, ?_, ?_⟩
        · intro sp hsp sp' hsp' hid
          simp only [List.mem_append, List.mem_singleton] at hsp hsp'
          rcases hsp with h1 | rfl <;> rcases hsp' with h2 | rfl
          · exact h.specUniq sp h1 sp' h2 hid
          · have := hA.specLt sp h1; simp only at hid; omega
          · have := hA.specLt sp' h2; simp only at hid; omega
          · rfl
        · intro tx sh ops' hm
          simp only [List.mem_append, List.mem_map, Msg.prepare.injEq] at hm
          rcases hm with h1 | ⟨_, _, rfl, _, _⟩
          · exact Nat.lt_succ_of_lt (h.prepLt tx sh ops' h1)
          · exact Nat.lt_succ_self _
        · intro tx sh hh ks hm
          simp only [List.mem_append, List.mem_map] at hm
          rcases hm with h1 | ⟨_, _, h2⟩
          · exact Nat.lt_succ_of_lt (h.yesLt tx sh hh ks h1)
          · cases h2
        · intro tx sh hh ks hm hp
          simp only [List.mem_append, List.mem_map] at hm
          rcases hm with h1 | ⟨_, _, h2⟩
          · have hlt := h.yesLt tx sh hh ks h1
            apply h.yesCast tx sh hh ks h1
            simp only [isParticipant, findSpec_append] at hp ⊢
            cases hf : findSpec s.specs tx with
            | some x => rw [hf] at hp; exact hp
            | none =>
              rw [hf] at hp
              simp only at hp
              have : ¬ s.coord.nextTx = tx := by omega
              simp [this] at hp
          · cases h2
  | deliver i =>
    simp only [Sys.step, Sys.stepR]
    split
    · exact h
    · rename_i m hm
      have hmem := mem_of_getElem? hm
      cases m with
      | vote tx sh v =>
        simp only [Sys.deliverMsg]
        split
        · exact h
        · rename_i r hr
          obtain ⟨_, _, _, _, _, _, hn, _⟩ := recordVote_ok (r := r.2) (c' := r.1) hr
          refine h.frame rfl hn (fun _ hx => hx) ?_
          intro m' hm'
          simp only [Sys.drain, List.mem_append] at hm'
          rcases hm' with h1 | h1
          · exact Or.inl h1
          · exact Or.inr (mem_abortMsgs_kind h1)
      | commit tx sh =>
        simp only [Sys.deliverMsg]
        split
        · exact h
        · exact h.frame rfl rfl (fun _ hx => hx) (fun _ hm' => Or.inl hm')
      | abort tx sh =>
        simp only [Sys.deliverMsg]
        split
        · exact h
        · exact h.frame rfl rfl (fun _ hx => hx) (fun _ hm' => Or.inl hm')
      | prepare tx sh ops =>
        simp only [Sys.deliverMsg]
        split
        · exact h
        · rename_i p hp
          refine ⟨h.specUniq, ?_, ?_, ?_⟩
          · intro tx' sh' ops' hm'
            simp only [List.mem_append, List.mem_singleton] at hm'
            rcases hm' with h1 | h1
            · exact h.prepLt tx' sh' ops' h1
            · cases h1
          · intro tx' sh' hh ks hm'
            simp only [List.mem_append, List.mem_singleton, Msg.vote.injEq] at hm'
            rcases hm' with h1 | ⟨rfl, rfl, _⟩
            · exact h.yesLt tx' sh' hh ks h1
            · exact h.prepLt tx' sh' ops hmem
          · intro tx' sh' hh ks hm' hpp
            simp only [List.mem_append, List.mem_singleton, Msg.vote.injEq] at hm'
            rcases hm' with h1 | ⟨rfl, rfl, h3⟩
            · exact List.mem_append.2 (Or.inl (h.yesCast tx' sh' hh ks h1 hpp))
            · apply List.mem_append.2; right
              simp only [List.mem_singleton, Prod.mk.injEq, true_and]
              rw [← h3]; rfl

theorem VInv.stepX {s : Sys} (h : VInv s) (hA : InvR s) (e : EvR) (ha : s.inAlphabetR e = true) :
    VInv (s.stepX e) := by
  cases e with
  | base e => exact h.stepBaseR hA e ha
  | forceResolve tx b => simp [Sys.inAlphabetR] at ha
  | completeCommit tx =>
    simp only [Sys.stepX]
    split
    · rename_i c hc
      obtain ⟨_, _, _, rfl⟩ := completeCommit_ok hc
      exact h.frame rfl rfl (fun _ hx => hx) (fun _ hm => Or.inl hm)
    · exact h
  | completeAbort tx =>
    simp only [Sys.stepX]
    split
    · rename_i c hc
      obtain ⟨_, _, _, rfl⟩ := completeAbort_ok hc
      exact h.frame rfl rfl (fun _ hx => hx) (fun _ hm => Or.inl hm)
    · exact h
  | coordRecover =>
    refine h.frame rfl rfl (fun _ hx => hx) ?_
    intro m hm
    simp only [Sys.stepX, List.mem_append] at hm
    rcases hm with h1 | h1
    · exact Or.inl h1
    · rcases mem_resendMsgs h1 with ⟨tx, sh, he, _⟩ | ⟨tx, sh, he, _⟩
      · exact Or.inr ⟨tx, sh, Or.inl he⟩
      · exact Or.inr ⟨tx, sh, Or.inr he⟩

theorem VInv.reachR {stores : List Store} {a b c : Nat} {s : Sys}
    (hr : ReachR (Sys.init stores a b c) s) : VInv s := by
  induction hr with
  | refl => exact VInv.init stores a b c
  | step e hr' ha ih => exact ih.stepX ((InvR.init stores a b c).reach hr') e ha

theorem decided_mono_reachR {s s' : Sys} (h : ReachR s s') (x : Nat × Bool) (hx : x ∈ s.decided) :
    x ∈ s'.decided := by
  induction h with
  | refl => exact hx
  | step e _ _ ih => exact decided_monoX _ e x ih

end Neumann.TwoPC
