import NeumannModel.TwoPC.Model
/-
  C03 — helper lemmas: the system invariant `InvA` (decisions / messages / votes) and its
  preservation by every event of the property's alphabet.  The participant-side invariant
  (locks / undo images) lives in `LemmasPart.lean`.
-/
namespace Neumann.TwoPC

/-! ### list helpers of the coordinator -/

theorem findTx_some {ps : List DTx} {tx : Nat} {t : DTx} (h : findTx ps tx = some t) :
    t ∈ ps ∧ t.id = tx := by
  induction ps with
  | nil => simp [findTx] at h
  | cons a r ih =>
    simp only [findTx] at h
    split at h
    · cases h; exact ⟨by simp, by assumption⟩
    · exact ⟨by simp [(ih h).1], (ih h).2⟩

theorem findTx_none {ps : List DTx} {tx : Nat} (h : findTx ps tx = none) :
    ∀ t ∈ ps, t.id ≠ tx := by
  induction ps with
  | nil => simp
  | cons a r ih =>
    simp only [findTx] at h
    split at h
    · cases h
    · intro t ht
      rcases List.mem_cons.1 ht with rfl | ht
      · assumption
      · exact ih h t ht

theorem mem_removeTx {ps : List DTx} {tx : Nat} {t : DTx} :
    t ∈ removeTx ps tx ↔ t ∈ ps ∧ t.id ≠ tx := by
  simp [removeTx]

theorem mem_setTx {ps : List DTx} {tx : Nat} {t' t : DTx} (h : t ∈ setTx ps tx t') :
    t = t' ∨ (t ∈ ps ∧ t.id ≠ tx) := by
  simp only [setTx, List.mem_map] at h
  obtain ⟨u, hu, rfl⟩ := h
  split
  · exact Or.inl rfl
  · exact Or.inr ⟨hu, by assumption⟩

/-! ### what the coordinator functions do -/

/-- a successful `record_vote`: the entry was `Preparing`, the vote is appended, and the new phase
    is `Preparing` (nothing queued), `Prepared` (all voted, all YES) or `Aborting` (one abort queued). -/
theorem recordVote_ok {c c' : Coordinator} {tx sh : Nat} {v : Vote} {f : Nat → Nat → Bool}
    {r : Option Phase} (h : c.recordVote tx sh v f = .ok (c', r)) :
    ∃ t t1, t ∈ c.pending ∧ t.id = tx ∧ t.phase = .preparing ∧
      c'.pending = setTx c.pending tx t1 ∧ c'.nextTx = c.nextTx ∧
      t1.id = tx ∧ t1.participants = t.participants ∧ t1.votes = t.votes ++ [(sh, v)] ∧
      ((t1.phase = .preparing ∧ c'.pendingAborts = c.pendingAborts) ∨
       (t1.phase = .prepared ∧ c'.pendingAborts = c.pendingAborts ∧ t1.allVoted = true ∧ t1.allYes = true) ∨
       (t1.phase = .aborting ∧ ∃ reason, c'.pendingAborts = c.pendingAborts ++ [(tx, reason, t.participants)])) := by
  unfold Coordinator.recordVote at h
  split at h
  · cases h
  · rename_i t ht
    obtain ⟨hmem, hid⟩ := findTx_some ht
    split at h
    · cases h
    · rename_i hph
      have hph' : t.phase = .preparing := by
        simpa using hph
      split at h
      · cases h
      · dsimp only at h
        split at h
        · rename_i hav
          split at h
          · rename_i hay
            split at h
            · cases h
              exact ⟨t, _, hmem, hid, hph', rfl, rfl, hid, rfl, rfl, Or.inr (Or.inr ⟨rfl, _, rfl⟩)⟩
            · cases h
              exact ⟨t, _, hmem, hid, hph', rfl, rfl, hid, rfl, rfl, Or.inr (Or.inl ⟨rfl, rfl, hav, hay⟩)⟩
          · cases h
            exact ⟨t, _, hmem, hid, hph', rfl, rfl, hid, rfl, rfl, Or.inr (Or.inr ⟨rfl, _, rfl⟩)⟩
        · cases h
          exact ⟨t, _, hmem, hid, hph', rfl, rfl, hid, rfl, rfl, Or.inl ⟨hph', rfl⟩⟩

theorem commit_ok {c c' : Coordinator} {tx : Nat} (h : c.commit tx = .ok c') :
    ∃ t, findTx c.pending tx = some t ∧ t.phase = .prepared ∧
      c' = { c with pending := removeTx c.pending tx } := by
  unfold Coordinator.commit at h
  split at h
  · cases h
  · rename_i t ht
    split at h
    · cases h
    · rename_i hph
      cases h
      exact ⟨t, ht, by simpa using hph, rfl⟩

theorem abort_ok {c c' : Coordinator} {tx : Nat} (h : c.abort tx = .ok c') :
    ∃ t, findTx c.pending tx = some t ∧ c' = { c with pending := removeTx c.pending tx } := by
  unfold Coordinator.abort at h
  split at h
  · cases h
  · rename_i t ht
    cases h
    exact ⟨t, ht, rfl⟩

/-! ### the invariant -/

structure InvA (s : Sys) : Prop where
  commitMsg : ∀ tx sh, Msg.commit tx sh ∈ s.msgs → (tx, true) ∈ s.decided
  abortMsg : ∀ tx sh, Msg.abort tx sh ∈ s.msgs → (tx, false) ∈ s.decided
  decAbort : ∀ tx, (tx, false) ∈ s.decided → ∀ t ∈ s.coord.pending, t.id = tx → t.phase = .aborting
  decCommit : ∀ tx, (tx, true) ∈ s.decided → ∀ t ∈ s.coord.pending, t.id ≠ tx
  pendLt : ∀ t ∈ s.coord.pending, t.id < s.coord.nextTx
  pendUniq : ∀ t ∈ s.coord.pending, ∀ t' ∈ s.coord.pending, t.id = t'.id → t = t'
  decLt : ∀ tx b, (tx, b) ∈ s.decided → tx < s.coord.nextTx
  excl : ∀ tx, (tx, true) ∈ s.decided → (tx, false) ∉ s.decided
  paEmpty : s.coord.pendingAborts = []
  voteMsg : ∀ t ∈ s.coord.pending, ∀ e ∈ t.votes, Msg.vote t.id e.1 e.2 ∈ s.msgs
  prepOk : ∀ t ∈ s.coord.pending, t.phase = .prepared → t.allVoted = true ∧ t.allYes = true
  specLt : ∀ sp ∈ s.specs, sp.id < s.coord.nextTx
  specPart : ∀ t ∈ s.coord.pending, ∀ sp ∈ s.specs, sp.id = t.id → sp.shards = t.participants
  commitYes : ∀ tx, (tx, true) ∈ s.decided → ∀ sp ∈ s.specs, sp.id = tx →
      ∀ sh ∈ sp.shards, ∃ h ks, Msg.vote tx sh (.yes h ks) ∈ s.msgs
  applied : ∀ sh tx, (sh, tx) ∈ s.applied → (tx, true) ∈ s.decided
  discarded : ∀ sh tx, (sh, tx) ∈ s.discarded → (tx, false) ∈ s.decided

theorem InvA.init (stores : List Store) (a b c : Nat) : InvA (Sys.init stores a b c) := by
  constructor <;> simp [Sys.init]

/-- steps that leave the coordinator, the specs and the decisions alone, only add `vote` messages,
    and only log an apply / discard that is backed by a decision -/
theorem InvA.frame {s s' : Sys} (h : InvA s) (hc : s'.coord = s.coord) (hs : s'.specs = s.specs)
    (hd : s'.decided = s.decided)
    (hm : ∀ m, m ∈ s'.msgs ↔ (m ∈ s.msgs ∨ ∃ tx sh v, m = Msg.vote tx sh v ∧ m ∈ s'.msgs))
    (ha : ∀ sh tx, (sh, tx) ∈ s'.applied → (sh, tx) ∈ s.applied ∨ (tx, true) ∈ s.decided)
    (hdi : ∀ sh tx, (sh, tx) ∈ s'.discarded → (sh, tx) ∈ s.discarded ∨ (tx, false) ∈ s.decided) :
    InvA s' := by
  have mono : ∀ m, m ∈ s.msgs → m ∈ s'.msgs := fun m hm' => (hm m).2 (Or.inl hm')
  constructor
  · intro tx sh hmm
    rw [hd]
    rcases (hm _).1 hmm with h1 | ⟨_, _, _, h1, _⟩
    · exact h.commitMsg tx sh h1
    · cases h1
  · intro tx sh hmm
    rw [hd]
    rcases (hm _).1 hmm with h1 | ⟨_, _, _, h1, _⟩
    · exact h.abortMsg tx sh h1
    · cases h1
  · rw [hd, hc]; exact h.decAbort
  · rw [hd, hc]; exact h.decCommit
  · rw [hc]; exact h.pendLt
  · rw [hc]; exact h.pendUniq
  · rw [hd, hc]; exact h.decLt
  · rw [hd]; exact h.excl
  · rw [hc]; exact h.paEmpty
  · rw [hc]; intro t ht e he; exact mono _ (h.voteMsg t ht e he)
  · rw [hc]; exact h.prepOk
  · rw [hs, hc]; exact h.specLt
  · rw [hs, hc]; exact h.specPart
  · rw [hd, hs]; intro tx htx sp hsp hid sh hsh
    obtain ⟨hh, ks, hv⟩ := h.commitYes tx htx sp hsp hid sh hsh
    exact ⟨hh, ks, mono _ hv⟩
  · intro sh tx hx
    rw [hd]
    rcases ha sh tx hx with h1 | h1
    · exact h.applied sh tx h1
    · exact h1
  · intro sh tx hx
    rw [hd]
    rcases hdi sh tx hx with h1 | h1
    · exact h.discarded sh tx h1
    · exact h1

theorem mem_abortMsgs {l : List (Nat × AbortReason × List Nat)} {m : Msg} :
    m ∈ abortMsgs l ↔ ∃ a ∈ l, ∃ sh ∈ a.2.2, m = Msg.abort a.1 sh := by
  simp only [abortMsgs, List.mem_flatMap, List.mem_map]
  constructor
  · rintro ⟨a, ha, sh, hsh, rfl⟩; exact ⟨a, ha, sh, hsh, rfl⟩
  · rintro ⟨a, ha, sh, hsh, rfl⟩; exact ⟨a, ha, sh, hsh, rfl⟩

theorem frame_msgs_same (l : List Msg) :
    ∀ m, m ∈ l ↔ (m ∈ l ∨ ∃ tx sh v, m = Msg.vote tx sh v ∧ m ∈ l) := by
  intro m
  constructor
  · intro h; exact Or.inl h
  · rintro (h | ⟨_, _, _, _, h⟩) <;> exact h

theorem frame_msgs_vote (l : List Msg) (tx sh : Nat) (v : Vote) :
    ∀ m, m ∈ l ++ [Msg.vote tx sh v] ↔
      (m ∈ l ∨ ∃ tx' sh' v', m = Msg.vote tx' sh' v' ∧ m ∈ l ++ [Msg.vote tx sh v]) := by
  intro m
  constructor
  · intro h
    rcases List.mem_append.1 h with h1 | h1
    · exact Or.inl h1
    · exact Or.inr ⟨tx, sh, v, by simpa using h1, h⟩
  · rintro (h | ⟨_, _, _, _, h⟩)
    · exact List.mem_append.2 (Or.inl h)
    · exact h

theorem mem_of_getElem? {α : Type} {l : List α} {i : Nat} {a : α} (h : l[i]? = some a) : a ∈ l :=
  List.mem_of_getElem? h

/-! ### preservation, event by event -/

theorem InvA.begin {s : Sys} (h : InvA s) (shards : List Nat) (ops : List (Nat × List Op))
    (sim : List (Nat × Nat)) : InvA (s.step (.begin shards ops sim)) := by
  simp only [Sys.step, Sys.stepR, Coordinator.begin]
  split
  · exact h
  · rename_i c' id heq
    split at heq
    · cases heq
    · cases heq
      have hprep : ∀ m, m ∈ s.msgs ++ shards.map (fun sh => Msg.prepare s.coord.nextTx sh
          (TxSpec.opsFor ⟨s.coord.nextTx, shards, ops, sim⟩ sh)) →
          m ∈ s.msgs ∨ ∃ a b c, m = Msg.prepare a b c := by
        intro m hm
        rcases List.mem_append.1 hm with h1 | h1
        · exact Or.inl h1
        · obtain ⟨sh, _, rfl⟩ := List.mem_map.1 h1
          exact Or.inr ⟨_, _, _, rfl⟩
      constructor
      · intro tx sh hm
        rcases hprep _ hm with h1 | ⟨_, _, _, h1⟩
        · exact h.commitMsg tx sh h1
        · cases h1
      · intro tx sh hm
        rcases hprep _ hm with h1 | ⟨_, _, _, h1⟩
        · exact h.abortMsg tx sh h1
        · cases h1
      · intro tx hd t ht hid
        rcases List.mem_append.1 ht with h1 | h1
        · exact h.decAbort tx hd t h1 hid
        · simp only [List.mem_singleton] at h1
          subst h1
          have := h.decLt tx false hd
          simp only at hid; omega
      · intro tx hd t ht
        rcases List.mem_append.1 ht with h1 | h1
        · exact h.decCommit tx hd t h1
        · simp only [List.mem_singleton] at h1
          subst h1
          have := h.decLt tx true hd
          simp only; omega
      · intro t ht
        rcases List.mem_append.1 ht with h1 | h1
        · have := h.pendLt t h1; simp only; omega
        · simp only [List.mem_singleton] at h1
          subst h1; simp only; omega
      · intro t ht t' ht' hid
        rcases List.mem_append.1 ht with h1 | h1 <;> rcases List.mem_append.1 ht' with h2 | h2
        · exact h.pendUniq t h1 t' h2 hid
        · simp only [List.mem_singleton] at h2
          subst h2
          have := h.pendLt t h1; simp only at hid; omega
        · simp only [List.mem_singleton] at h1
          subst h1
          have := h.pendLt t' h2; simp only at hid; omega
        · simp only [List.mem_singleton] at h1 h2
          rw [h1, h2]
      · intro tx b hd
        have := h.decLt tx b hd; simp only; omega
      · exact h.excl
      · exact h.paEmpty
      · intro t ht e he
        rcases List.mem_append.1 ht with h1 | h1
        · exact List.mem_append.2 (Or.inl (h.voteMsg t h1 e he))
        · simp only [List.mem_singleton] at h1
          subst h1; simp at he
      · intro t ht hph
        rcases List.mem_append.1 ht with h1 | h1
        · exact h.prepOk t h1 hph
        · simp only [List.mem_singleton] at h1
          subst h1; simp at hph
      · intro sp hsp
        rcases List.mem_append.1 hsp with h1 | h1
        · have := h.specLt sp h1; simp only; omega
        · simp only [List.mem_singleton] at h1
          subst h1; simp only; omega
      · intro t ht sp hsp hid
        rcases List.mem_append.1 ht with h1 | h1 <;> rcases List.mem_append.1 hsp with h2 | h2
        · exact h.specPart t h1 sp h2 hid
        · simp only [List.mem_singleton] at h2
          subst h2
          have := h.pendLt t h1; simp only at hid; omega
        · simp only [List.mem_singleton] at h1
          subst h1
          have := h.specLt sp h2; simp only at hid; omega
        · simp only [List.mem_singleton] at h1 h2
          subst h1; subst h2; rfl
      · intro tx hd sp hsp hid sh hsh
        rcases List.mem_append.1 hsp with h1 | h1
        · obtain ⟨hh, ks, hv⟩ := h.commitYes tx hd sp h1 hid sh hsh
          exact ⟨hh, ks, List.mem_append.2 (Or.inl hv)⟩
        · simp only [List.mem_singleton] at h1
          subst h1
          have := h.decLt tx true hd
          simp only at hid; omega
      · exact h.applied
      · exact h.discarded

theorem InvA.vote {s : Sys} (h : InvA s) {tx sh : Nat} {v : Vote} (hv : Msg.vote tx sh v ∈ s.msgs) :
    InvA (s.deliverMsg (.vote tx sh v)).1 := by
  simp only [Sys.deliverMsg]
  split
  · exact h
  · rename_i r heq
    obtain ⟨c', ph⟩ := r
    obtain ⟨t, t1, htm, htid, htph, hpend, hnext, h1id, h1part, h1votes, hcases⟩ := recordVote_ok heq
    have hpa0 := h.paEmpty
    have hpa : ∀ a ∈ c'.pendingAborts, a.1 = tx ∧ t1.phase = .aborting := by
      rcases hcases with ⟨_, e⟩ | ⟨_, e, _, _⟩ | ⟨e1, reason, e⟩
      · rw [e, hpa0]; simp
      · rw [e, hpa0]; simp
      · rw [e, hpa0]; intro a ha
        simp only [List.nil_append, List.mem_singleton] at ha
        subst ha; exact ⟨rfl, e1⟩
    have hprep : t1.phase = .prepared → t1.allVoted = true ∧ t1.allYes = true := by
      rcases hcases with ⟨e, _⟩ | ⟨_, _, e1, e2⟩ | ⟨e, _⟩
      · intro h'; rw [e] at h'; cases h'
      · intro _; exact ⟨e1, e2⟩
      · intro h'; rw [e] at h'; cases h'
    have htlt := h.pendLt t htm
    simp only [Sys.drain, Coordinator.takePendingAborts]
    -- facts about membership in the new pending list
    have hmem : ∀ t', t' ∈ c'.pending → t' = t1 ∨ (t' ∈ s.coord.pending ∧ t'.id ≠ tx) := by
      intro t' ht'; rw [hpend] at ht'; exact mem_setTx ht'
    have hdec : ∀ tx' b, (tx', b) ∈ s.decided ++ c'.pendingAborts.map (fun a => (a.1, false)) →
        (tx', b) ∈ s.decided ∨ (tx' = tx ∧ b = false ∧ t1.phase = .aborting) := by
      intro tx' b hm
      rcases List.mem_append.1 hm with h1 | h1
      · exact Or.inl h1
      · obtain ⟨a, ha, he⟩ := List.mem_map.1 h1
        cases he
        exact Or.inr ⟨(hpa a ha).1, rfl, (hpa a ha).2⟩
    constructor
    · intro tx' sh' hm
      rcases List.mem_append.1 hm with h1 | h1
      · exact List.mem_append.2 (Or.inl (h.commitMsg tx' sh' h1))
      · obtain ⟨a, _, sh'', _, he⟩ := mem_abortMsgs.1 h1
        cases he
    · intro tx' sh' hm
      rcases List.mem_append.1 hm with h1 | h1
      · exact List.mem_append.2 (Or.inl (h.abortMsg tx' sh' h1))
      · obtain ⟨a, ha, sh'', _, he⟩ := mem_abortMsgs.1 h1
        cases he
        exact List.mem_append.2 (Or.inr (List.mem_map.2 ⟨a, ha, rfl⟩))
    · intro tx' hd t' ht' hid
      rcases hmem t' ht' with rfl | ⟨h1, h2⟩
      · rcases hdec tx' false hd with h3 | ⟨_, _, h3⟩
        · have := h.decAbort tx' h3 t htm (by omega)
          rw [htph] at this; cases this
        · exact h3
      · rcases hdec tx' false hd with h3 | ⟨h3, _, _⟩
        · exact h.decAbort tx' h3 t' h1 hid
        · omega
    · intro tx' hd t' ht'
      rcases hdec tx' true hd with h3 | ⟨_, h3, _⟩
      · rcases hmem t' ht' with rfl | ⟨h1, _⟩
        · have := h.decCommit tx' h3 t htm
          omega
        · exact h.decCommit tx' h3 t' h1
      · cases h3
    · intro t' ht'
      show t'.id < c'.nextTx
      rw [hnext]
      rcases hmem t' ht' with rfl | ⟨h1, _⟩
      · omega
      · exact h.pendLt t' h1
    · intro a ha b hb hid
      rcases hmem a ha with rfl | ⟨h1, h2⟩ <;> rcases hmem b hb with rfl | ⟨h3, h4⟩
      · rfl
      · omega
      · omega
      · exact h.pendUniq a h1 b h3 hid
    · intro tx' b hd
      show tx' < c'.nextTx
      rw [hnext]
      rcases hdec tx' b hd with h3 | ⟨h3, _, _⟩
      · exact h.decLt tx' b h3
      · omega
    · intro tx' hd hd'
      rcases hdec tx' true hd with h3 | ⟨_, h3, _⟩
      · rcases hdec tx' false hd' with h4 | ⟨h4, _, _⟩
        · exact h.excl tx' h3 h4
        · have := h.decCommit tx' h3 t htm
          omega
      · cases h3
    · rfl
    · intro t' ht' e he
      apply List.mem_append.2; left
      rcases hmem t' ht' with rfl | ⟨h1, _⟩
      · rw [h1votes] at he
        rcases List.mem_append.1 he with h2 | h2
        · have := h.voteMsg t htm e h2
          rw [h1id, ← htid]; exact this
        · simp only [List.mem_singleton] at h2
          subst h2; rw [h1id]; exact hv
      · exact h.voteMsg t' h1 e he
    · intro t' ht' hph
      rcases hmem t' ht' with rfl | ⟨h1, _⟩
      · exact hprep hph
      · exact h.prepOk t' h1 hph
    · intro sp hsp
      show sp.id < c'.nextTx
      rw [hnext]; exact h.specLt sp hsp
    · intro t' ht' sp hsp hid
      rcases hmem t' ht' with rfl | ⟨h1, _⟩
      · rw [h1part]; exact h.specPart t htm sp hsp (by omega)
      · exact h.specPart t' h1 sp hsp hid
    · intro tx' hd sp hsp hid sh' hsh'
      rcases hdec tx' true hd with h3 | ⟨_, h3, _⟩
      · obtain ⟨hh, ks, hvv⟩ := h.commitYes tx' h3 sp hsp hid sh' hsh'
        exact ⟨hh, ks, List.mem_append.2 (Or.inl hvv)⟩
      · cases h3
    · intro sh' tx' hx
      exact List.mem_append.2 (Or.inl (h.applied sh' tx' hx))
    · intro sh' tx' hx
      exact List.mem_append.2 (Or.inl (h.discarded sh' tx' hx))

theorem InvA.sweep {s : Sys} (h : InvA s) : InvA (s.step .sweep) := by
  simp only [Sys.step, Sys.stepR, Sys.drain, Coordinator.takePendingAborts, Coordinator.cleanupTimeouts]
  rw [h.paEmpty]
  simp only [List.nil_append]
  have hsub : ∀ t', t' ∈ s.coord.pending.filter (fun t => !t.timedOut s.now) →
      t' ∈ s.coord.pending ∧ t'.timedOut s.now = false := by
    intro t' ht'
    have := List.mem_filter.1 ht'
    exact ⟨this.1, by simpa using this.2⟩
  have hdec : ∀ tx' b, (tx', b) ∈ s.decided ++
        ((s.coord.pending.filter (fun t => t.timedOut s.now)).map
          (fun t => (t.id, AbortReason.timeout, t.participants))).map (fun a => (a.1, false)) →
      (tx', b) ∈ s.decided ∨ (b = false ∧ ∃ t0 ∈ s.coord.pending, t0.timedOut s.now = true ∧ t0.id = tx') := by
    intro tx' b hm
    rcases List.mem_append.1 hm with h1 | h1
    · exact Or.inl h1
    · simp only [List.map_map, List.mem_map, List.mem_filter, Function.comp] at h1
      obtain ⟨t0, ⟨ht0, hto⟩, he⟩ := h1
      cases he
      exact Or.inr ⟨rfl, t0, ht0, hto, rfl⟩
  constructor
  · intro tx' sh' hm
    rcases List.mem_append.1 hm with h1 | h1
    · exact List.mem_append.2 (Or.inl (h.commitMsg tx' sh' h1))
    · obtain ⟨a, _, sh'', _, he⟩ := mem_abortMsgs.1 h1
      cases he
  · intro tx' sh' hm
    rcases List.mem_append.1 hm with h1 | h1
    · exact List.mem_append.2 (Or.inl (h.abortMsg tx' sh' h1))
    · obtain ⟨a, ha, sh'', _, he⟩ := mem_abortMsgs.1 h1
      cases he
      exact List.mem_append.2 (Or.inr (List.mem_map.2 ⟨a, ha, rfl⟩))
  · intro tx' hd t' ht' hid
    obtain ⟨h1, h2⟩ := hsub t' ht'
    rcases hdec tx' false hd with h3 | ⟨_, t0, ht0, hto, hid0⟩
    · exact h.decAbort tx' h3 t' h1 hid
    · have := h.pendUniq t' h1 t0 ht0 (by omega)
      subst this; rw [h2] at hto; cases hto
  · intro tx' hd t' ht'
    obtain ⟨h1, _⟩ := hsub t' ht'
    rcases hdec tx' true hd with h3 | ⟨h3, _⟩
    · exact h.decCommit tx' h3 t' h1
    · cases h3
  · intro t' ht'; exact h.pendLt t' (hsub t' ht').1
  · intro a ha b hb hid; exact h.pendUniq a (hsub a ha).1 b (hsub b hb).1 hid
  · intro tx' b hd
    rcases hdec tx' b hd with h3 | ⟨_, t0, ht0, _, hid0⟩
    · exact h.decLt tx' b h3
    · have := h.pendLt t0 ht0
      show tx' < s.coord.nextTx
      omega
  · intro tx' hd hd'
    rcases hdec tx' true hd with h3 | ⟨h3, _⟩
    · rcases hdec tx' false hd' with h4 | ⟨_, t0, ht0, _, hid0⟩
      · exact h.excl tx' h3 h4
      · exact h.decCommit tx' h3 t0 ht0 hid0
    · cases h3
  · rfl
  · intro t' ht' e he
    exact List.mem_append.2 (Or.inl (h.voteMsg t' (hsub t' ht').1 e he))
  · intro t' ht' hph; exact h.prepOk t' (hsub t' ht').1 hph
  · exact h.specLt
  · intro t' ht' sp hsp hid; exact h.specPart t' (hsub t' ht').1 sp hsp hid
  · intro tx' hd sp hsp hid sh' hsh'
    rcases hdec tx' true hd with h3 | ⟨h3, _⟩
    · obtain ⟨hh, ks, hvv⟩ := h.commitYes tx' h3 sp hsp hid sh' hsh'
      exact ⟨hh, ks, List.mem_append.2 (Or.inl hvv)⟩
    · cases h3
  · intro sh' tx' hx
    exact List.mem_append.2 (Or.inl (h.applied sh' tx' hx))
  · intro sh' tx' hx
    exact List.mem_append.2 (Or.inl (h.discarded sh' tx' hx))

theorem hasVote_mem {t : DTx} {sh : Nat} (h : t.hasVote sh = true) : ∃ e ∈ t.votes, e.1 = sh := by
  simp only [DTx.hasVote, List.any_eq_true] at h
  obtain ⟨e, he, heq⟩ := h
  exact ⟨e, he, by simpa using heq⟩

theorem InvA.coordCommit {s : Sys} (h : InvA s) (tx : Nat) : InvA (s.step (.coordCommit tx)) := by
  simp only [Sys.step, Sys.stepR]
  split
  · rename_i t c' hft hc
    obtain ⟨t', ht', hph, hc'⟩ := commit_ok hc
    rw [hft] at ht'; cases ht'
    obtain ⟨htm, htid⟩ := findTx_some hft
    subst hc'
    have hdec : ∀ tx' b, (tx', b) ∈ s.decided ++ [(tx, true)] → (tx', b) ∈ s.decided ∨ (tx' = tx ∧ b = true) := by
      intro tx' b hm
      rcases List.mem_append.1 hm with h1 | h1
      · exact Or.inl h1
      · simp only [List.mem_singleton, Prod.mk.injEq] at h1; exact Or.inr h1
    constructor
    · intro tx' sh' hm
      rcases List.mem_append.1 hm with h1 | h1
      · exact List.mem_append.2 (Or.inl (h.commitMsg tx' sh' h1))
      · obtain ⟨x, _, he⟩ := List.mem_map.1 h1
        cases he; simp
    · intro tx' sh' hm
      rcases List.mem_append.1 hm with h1 | h1
      · exact List.mem_append.2 (Or.inl (h.abortMsg tx' sh' h1))
      · obtain ⟨x, _, he⟩ := List.mem_map.1 h1
        cases he
    · intro tx' hd a ha hid
      rcases hdec tx' false hd with h3 | ⟨_, h3⟩
      · exact h.decAbort tx' h3 a (mem_removeTx.1 ha).1 hid
      · cases h3
    · intro tx' hd a ha
      rcases hdec tx' true hd with h3 | ⟨h3, _⟩
      · exact h.decCommit tx' h3 a (mem_removeTx.1 ha).1
      · rw [h3]; exact (mem_removeTx.1 ha).2
    · intro a ha; exact h.pendLt a (mem_removeTx.1 ha).1
    · intro a ha b hb hid; exact h.pendUniq a (mem_removeTx.1 ha).1 b (mem_removeTx.1 hb).1 hid
    · intro tx' b hd
      rcases hdec tx' b hd with h3 | ⟨h3, _⟩
      · exact h.decLt tx' b h3
      · have := h.pendLt t htm
        show tx' < s.coord.nextTx
        omega
    · intro tx' hd hd'
      rcases hdec tx' false hd' with h4 | ⟨_, h4⟩
      · rcases hdec tx' true hd with h3 | ⟨h3, _⟩
        · exact h.excl tx' h3 h4
        · have := h.decAbort tx' h4 t htm (by omega)
          rw [hph] at this; cases this
      · cases h4
    · exact h.paEmpty
    · intro a ha e he
      exact List.mem_append.2 (Or.inl (h.voteMsg a (mem_removeTx.1 ha).1 e he))
    · intro a ha hp; exact h.prepOk a (mem_removeTx.1 ha).1 hp
    · exact h.specLt
    · intro a ha sp hsp hid; exact h.specPart a (mem_removeTx.1 ha).1 sp hsp hid
    · intro tx' hd sp hsp hid sh' hsh'
      apply (fun (x : ∃ hh ks, Msg.vote tx' sh' (.yes hh ks) ∈ s.msgs) =>
        let ⟨hh, ks, hvv⟩ := x; (⟨hh, ks, List.mem_append.2 (Or.inl hvv)⟩ :
          ∃ hh ks, Msg.vote tx' sh' (.yes hh ks) ∈ s.msgs ++ t.participants.map (fun sh => Msg.commit tx sh)))
      rcases hdec tx' true hd with h3 | ⟨h3, _⟩
      · exact h.commitYes tx' h3 sp hsp hid sh' hsh'
      · subst h3
        have hparts := h.specPart t htm sp hsp (by omega)
        obtain ⟨hav, hay⟩ := h.prepOk t htm hph
        rw [hparts] at hsh'
        have hv1 : t.hasVote sh' = true := by
          simp only [DTx.allVoted, List.all_eq_true] at hav
          exact hav sh' hsh'
        obtain ⟨e, he, hesh⟩ := hasVote_mem hv1
        have hyes : e.2.isYes = true := by
          simp only [DTx.allYes, List.all_eq_true] at hay
          exact hay e he
        have hm := h.voteMsg t htm e he
        cases hev : e.2 with
        | yes hh ks => rw [hev] at hm; rw [hesh, htid] at hm; exact ⟨hh, ks, hm⟩
        | no => rw [hev] at hyes; cases hyes
        | conflict o => rw [hev] at hyes; cases hyes
    · intro sh' tx' hx
      exact List.mem_append.2 (Or.inl (h.applied sh' tx' hx))
    · intro sh' tx' hx
      exact List.mem_append.2 (Or.inl (h.discarded sh' tx' hx))
  · exact h
  · exact h

theorem InvA.coordAbort {s : Sys} (h : InvA s) (tx : Nat) : InvA (s.step (.coordAbort tx)) := by
  simp only [Sys.step, Sys.stepR]
  split
  · rename_i t c' hft hc
    obtain ⟨t', ht', hc'⟩ := abort_ok hc
    rw [hft] at ht'; cases ht'
    obtain ⟨htm, htid⟩ := findTx_some hft
    subst hc'
    have hdec : ∀ tx' b, (tx', b) ∈ s.decided ++ [(tx, false)] → (tx', b) ∈ s.decided ∨ (tx' = tx ∧ b = false) := by
      intro tx' b hm
      rcases List.mem_append.1 hm with h1 | h1
      · exact Or.inl h1
      · simp only [List.mem_singleton, Prod.mk.injEq] at h1; exact Or.inr h1
    constructor
    · intro tx' sh' hm
      rcases List.mem_append.1 hm with h1 | h1
      · exact List.mem_append.2 (Or.inl (h.commitMsg tx' sh' h1))
      · obtain ⟨x, _, he⟩ := List.mem_map.1 h1
        cases he
    · intro tx' sh' hm
      rcases List.mem_append.1 hm with h1 | h1
      · exact List.mem_append.2 (Or.inl (h.abortMsg tx' sh' h1))
      · obtain ⟨x, _, he⟩ := List.mem_map.1 h1
        cases he; simp
    · intro tx' hd a ha hid
      rcases hdec tx' false hd with h3 | ⟨h3, _⟩
      · exact h.decAbort tx' h3 a (mem_removeTx.1 ha).1 hid
      · have := (mem_removeTx.1 ha).2; omega
    · intro tx' hd a ha
      rcases hdec tx' true hd with h3 | ⟨_, h3⟩
      · exact h.decCommit tx' h3 a (mem_removeTx.1 ha).1
      · cases h3
    · intro a ha; exact h.pendLt a (mem_removeTx.1 ha).1
    · intro a ha b hb hid; exact h.pendUniq a (mem_removeTx.1 ha).1 b (mem_removeTx.1 hb).1 hid
    · intro tx' b hd
      rcases hdec tx' b hd with h3 | ⟨h3, _⟩
      · exact h.decLt tx' b h3
      · have := h.pendLt t htm
        show tx' < s.coord.nextTx
        omega
    · intro tx' hd hd'
      rcases hdec tx' true hd with h3 | ⟨_, h3⟩
      · rcases hdec tx' false hd' with h4 | ⟨h4, _⟩
        · exact h.excl tx' h3 h4
        · have := h.decCommit tx' h3 t htm
          omega
      · cases h3
    · exact h.paEmpty
    · intro a ha e he
      exact List.mem_append.2 (Or.inl (h.voteMsg a (mem_removeTx.1 ha).1 e he))
    · intro a ha hp; exact h.prepOk a (mem_removeTx.1 ha).1 hp
    · exact h.specLt
    · intro a ha sp hsp hid; exact h.specPart a (mem_removeTx.1 ha).1 sp hsp hid
    · intro tx' hd sp hsp hid sh' hsh'
      rcases hdec tx' true hd with h3 | ⟨_, h3⟩
      · obtain ⟨hh, ks, hvv⟩ := h.commitYes tx' h3 sp hsp hid sh' hsh'
        exact ⟨hh, ks, List.mem_append.2 (Or.inl hvv)⟩
      · cases h3
    · intro sh' tx' hx
      exact List.mem_append.2 (Or.inl (h.applied sh' tx' hx))
    · intro sh' tx' hx
      exact List.mem_append.2 (Or.inl (h.discarded sh' tx' hx))
  · exact h
  · exact h

theorem InvA.deliver {s : Sys} (h : InvA s) (i : Nat) : InvA (s.step (.deliver i)) := by
  simp only [Sys.step, Sys.stepR]
  split
  · exact h
  · rename_i m hm
    have hmem := mem_of_getElem? hm
    cases m with
    | prepare tx sh ops =>
      simp only [Sys.deliverMsg]
      split
      · exact h
      · exact h.frame rfl rfl rfl (frame_msgs_vote _ _ _ _) (fun _ _ hx => Or.inl hx) (fun _ _ hx => Or.inl hx)
    | vote tx sh v => exact h.vote hmem
    | commit tx sh =>
      simp only [Sys.deliverMsg]
      split
      · exact h
      · refine h.frame rfl rfl rfl (frame_msgs_same _) ?_ (fun _ _ hx => Or.inl hx)
        intro sh' tx' hx
        simp only at hx
        split at hx
        · rcases List.mem_append.1 hx with h1 | h1
          · exact Or.inl h1
          · simp only [List.mem_singleton, Prod.mk.injEq] at h1
            rw [h1.2]; exact Or.inr (h.commitMsg tx sh hmem)
        · exact Or.inl hx
    | abort tx sh =>
      simp only [Sys.deliverMsg]
      split
      · exact h
      · refine h.frame rfl rfl rfl (frame_msgs_same _) (fun _ _ hx => Or.inl hx) ?_
        intro sh' tx' hx
        simp only at hx
        split at hx
        · rcases List.mem_append.1 hx with h1 | h1
          · exact Or.inl h1
          · simp only [List.mem_singleton, Prod.mk.injEq] at h1
            rw [h1.2]; exact Or.inr (h.abortMsg tx sh hmem)
        · exact Or.inl hx

theorem InvA.step {s : Sys} (h : InvA s) (e : Ev) (ha : s.inAlphabet e = true) : InvA (s.step e) := by
  cases e with
  | begin shards ops sim => exact h.begin shards ops sim
  | deliver i => exact h.deliver i
  | sweep => exact h.sweep
  | tick d =>
    exact h.frame rfl rfl rfl (frame_msgs_same _) (fun _ _ hx => Or.inl hx) (fun _ _ hx => Or.inl hx)
  | coordCommit tx => exact h.coordCommit tx
  | coordAbort tx => exact h.coordAbort tx
  | forge tx sh v =>
    exact h.frame rfl rfl rfl (frame_msgs_vote _ _ _ _) (fun _ _ hx => Or.inl hx) (fun _ _ hx => Or.inl hx)
  | cleanupStale sh t => simp [Sys.inAlphabet] at ha
  | recover sh t => simp [Sys.inAlphabet] at ha

theorem InvA.reach {s0 s : Sys} (h0 : InvA s0) (hr : Reach s0 s) : InvA s := by
  induction hr with
  | refl => exact h0
  | step e _ ha ih => exact ih.step e ha

/-! ### runs -/

def Sys.allIn (s : Sys) : List Ev → Bool
  | [] => true
  | e :: es => s.inAlphabet e && (s.step e).allIn es

theorem reach_run {s0 s : Sys} (hr : Reach s0 s) (es : List Ev) (h : s.allIn es = true) :
    Reach s0 (s.run es) := by
  induction es generalizing s with
  | nil => exact hr
  | cons e es ih =>
    simp only [Sys.allIn, Bool.and_eq_true] at h
    exact ih (Reach.step e hr h.1) h.2

theorem reachExt_run {s0 s : Sys} (hr : ReachExt s0 s) (es : List Ev) : ReachExt s0 (s.run es) := by
  induction es generalizing s with
  | nil => exact hr
  | cons e es ih => exact ih (ReachExt.step e hr)

theorem Reach.trans {s0 s s' : Sys} (h1 : Reach s0 s) (h2 : Reach s s') : Reach s0 s' := by
  induction h2 with
  | refl => exact h1
  | step e _ ha ih => exact Reach.step e ih ha

/-- decisions are only ever appended: no event of either alphabet retracts one -/
theorem decided_mono (s : Sys) (e : Ev) (x : Nat × Bool) (hx : x ∈ s.decided) : x ∈ (s.step e).decided := by
  cases e with
  | begin shards ops sim =>
    simp only [Sys.step, Sys.stepR]; split <;> exact hx
  | deliver i =>
    simp only [Sys.step, Sys.stepR]
    split
    · exact hx
    · rename_i m _
      cases m <;> simp only [Sys.deliverMsg]
      · split <;> exact hx
      · split
        · exact hx
        · exact List.mem_append.2 (Or.inl hx)
      · split <;> exact hx
      · split <;> exact hx
  | sweep => exact List.mem_append.2 (Or.inl hx)
  | tick d => exact hx
  | forge tx sh v => exact hx
  | coordCommit tx =>
    simp only [Sys.step, Sys.stepR]
    split
    · exact List.mem_append.2 (Or.inl hx)
    · exact hx
    · exact hx
  | coordAbort tx =>
    simp only [Sys.step, Sys.stepR]
    split
    · exact List.mem_append.2 (Or.inl hx)
    · exact hx
    · exact hx
  | cleanupStale sh t =>
    simp only [Sys.step, Sys.stepR]; split <;> exact hx
  | recover sh t =>
    simp only [Sys.step, Sys.stepR]; split <;> exact hx

theorem decided_mono_reach {s s' : Sys} (h : Reach s s') (x : Nat × Bool) (hx : x ∈ s.decided) :
    x ∈ s'.decided := by
  induction h with
  | refl => exact hx
  | step e _ _ ih => exact decided_mono _ e x ih

end Neumann.TwoPC
