import NeumannModel.TwoPC.Model
/-
  C03 — who is TOLD about an abort decision.

  Every abort decision of `DistributedTxCoordinator` is queued in `pending_aborts` together with the list of shards
  the glue (`take_pending_aborts` / `process_pending_aborts`) sends the ABORT to.  On the code as it is all three sites
  (`record_vote`'s NO/CONFLICT abort, its cross-shard-conflict abort, `cleanup_timeouts`) queue `tx.participants`: a
  participant that prepared (locks taken, undo images captured, YES sent) is addressed whether or not its vote has
  reached the coordinator — on the timeout path the vote may still be in flight, lost, or arrive after the sweep.

  `Sys.settle` = "the network finally delivers every ABORT message that is in the pool for a transaction whose only
  decision is abort" (ordinary `deliver` events, in pool order); `Sys.stuck` = the (transaction, participant) pairs that
  are still prepared, or still hold a lock of the transaction, although its only decision is abort.  The harness runs the
  same `settle` on the real objects (protocol line `settle`) and demands `stuck = []`.

  The VARIANT at the end is NOT the code: it is `cleanup_timeouts` with the recipient list "optimised" to the shards
  whose YES vote the coordinator has already RECORDED.
-/
namespace Neumann.TwoPC

/-- the transaction has an abort decision and no commit decision -/
def Sys.abortOnly (s : Sys) (tx : Nat) : Bool :=
  s.decided.contains (tx, false) && !s.decided.contains (tx, true)

/-- is pool message `m` an ABORT of a transaction whose only decision is abort? -/
def Sys.isSettleMsg (s : Sys) : Msg → Bool
  | .abort tx _ => s.abortOnly tx
  | _ => false

/-- pool indices of the ABORT messages of abort-only transactions, in pool order -/
def Sys.settleIdx (s : Sys) : List Nat :=
  (List.range s.msgs.length).filter (fun i =>
    match s.msgs[i]? with
    | some m => s.isSettleMsg m
    | none => false)

/-- every queued ABORT of an abort-only transaction is delivered (ordinary `deliver` events) -/
def Sys.settle (s : Sys) : Sys := s.run (s.settleIdx.map Ev.deliver)

/-- the participant still has a prepared record of `tx`, or one of its locks names `tx` -/
def Participant.holdsFor (p : Participant) (tx : Nat) : Bool :=
  (findPrepared p.prepared tx).isSome || p.locks.locks.any (fun l => l.tx == tx)

def Sys.holdsFor (s : Sys) (sh tx : Nat) : Bool :=
  match s.parts[sh]? with
  | some p => p.holdsFor tx
  | none => false

/-- (tx, shard): a participant of an abort-only transaction that is still prepared for it / holds a lock of it -/
def Sys.stuck (s : Sys) : List (Nat × Nat) :=
  s.specs.flatMap (fun sp =>
    if s.abortOnly sp.id then (sp.shards.filter (fun sh => s.holdsFor sh sp.id)).map (fun sh => (sp.id, sh)) else [])

/-- every participant the client named for `tx` is addressed by an ABORT message in the pool -/
def Sys.abortAddressedToAll (s : Sys) (tx : Nat) : Bool :=
  match findSpec s.specs tx with
  | some sp => sp.shards.all (fun sh => s.msgs.contains (Msg.abort tx sh))
  | none => true

/-! ## VARIANT (not the code): the timeout abort is queued only for the shards with a RECORDED YES vote -/

def DTx.recordedYes (t : DTx) (sh : Nat) : Bool := t.votes.any (fun e => e.1 == sh && e.2.isYes)

def Coordinator.cleanupTimeoutsAbortOnlyRecordedVoters (c : Coordinator) (now : Nat) : Coordinator × List Nat :=
  let out := c.pending.filter (fun t => t.timedOut now)
  ({ c with pending := c.pending.filter (fun t => !t.timedOut now),
            pendingAborts := c.pendingAborts ++
              out.map (fun t => (t.id, AbortReason.timeout, t.participants.filter (fun sh => t.recordedYes sh))) },
   out.map (·.id))

/-- one event of the system whose coordinator sweeps through the variant; every other event is `Sys.step` -/
def Sys.stepAbortOnlyRecordedVoters (s : Sys) (e : Ev) : Sys :=
  match e with
  | .sweep => s.drain (s.coord.cleanupTimeoutsAbortOnlyRecordedVoters s.now).1
  | _ => s.step e

def Sys.runAbortOnlyRecordedVoters (s : Sys) (es : List Ev) : Sys :=
  es.foldl Sys.stepAbortOnlyRecordedVoters s

end Neumann.TwoPC
