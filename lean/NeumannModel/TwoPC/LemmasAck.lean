/-
  C03 — helper lemmas for the abort acknowledgement / retry bookkeeping model (`Ack.lean`).
-/
import NeumannModel.TwoPC.Ack

namespace Neumann.TwoPC

/-! ## association lists -/

theorem aGet_nil {β : Type} (k : Nat) : aGet ([] : List (Nat × β)) k = none := rfl

theorem aGet_cons {β : Type} (e : Nat × β) (r : List (Nat × β)) (k : Nat) :
    aGet (e :: r) k = if e.1 == k then some e.2 else aGet r k := rfl

theorem aGet_append_none {β : Type} (l1 l2 : List (Nat × β)) (k : Nat) (h : aGet l1 k = none) :
    aGet (l1 ++ l2) k = aGet l2 k := by
  induction l1 with
  | nil => rfl
  | cons e r ih =>
    simp only [List.cons_append, aGet_cons] at h ⊢
    split at h
    · cases h
    · rename_i hne
      simp only [hne]
      exact ih h

theorem aGet_append_some {β : Type} (l1 l2 : List (Nat × β)) (k : Nat) (v : β) (h : aGet l1 k = some v) :
    aGet (l1 ++ l2) k = some v := by
  induction l1 with
  | nil => cases h
  | cons e r ih =>
    simp only [List.cons_append, aGet_cons] at h ⊢
    split at h
    · rename_i heq
      simp only [heq]
      exact h
    · rename_i hne
      simp only [hne]
      exact ih h

theorem aGet_aErase_self {β : Type} (l : List (Nat × β)) (k : Nat) : aGet (aErase l k) k = none := by
  induction l with
  | nil => rfl
  | cons e r ih =>
    unfold aErase at ih ⊢
    by_cases h : e.1 = k
    · simp [h, ih]
    · simp [h, aGet_cons, ih]

theorem aGet_aErase_ne {β : Type} (l : List (Nat × β)) (k k' : Nat) (hne : k' ≠ k) :
    aGet (aErase l k) k' = aGet l k' := by
  induction l with
  | nil => rfl
  | cons e r ih =>
    unfold aErase at ih ⊢
    by_cases h : e.1 = k
    · have h2 : ¬ e.1 = k' := fun h' => hne (h'.symm.trans h)
      simp [h, aGet_cons, ih]
      intro h3; exact absurd h3.symm hne
    · simp [h, aGet_cons, ih]

theorem aGet_aSet_self {β : Type} (l : List (Nat × β)) (k : Nat) (v : β) : aGet (aSet l k v) k = some v := by
  unfold aSet
  rw [aGet_append_none _ _ _ (aGet_aErase_self l k)]
  simp [aGet_cons]

theorem aGet_aSet_ne {β : Type} (l : List (Nat × β)) (k k' : Nat) (v : β) (hne : k' ≠ k) :
    aGet (aSet l k v) k' = aGet l k' := by
  unfold aSet
  cases h : aGet l k' with
  | none =>
    have h' : aGet (aErase l k) k' = none := by rw [aGet_aErase_ne l k k' hne]; exact h
    rw [aGet_append_none _ _ _ h']
    have : ¬ k = k' := fun e => hne e.symm
    simp [aGet_cons, aGet_nil, this]
  | some w =>
    have h' : aGet (aErase l k) k' = some w := by rw [aGet_aErase_ne l k k' hne]; exact h
    exact aGet_append_some _ _ _ _ h'

theorem aGet_mem {β : Type} (l : List (Nat × β)) (k : Nat) (v : β) (h : aGet l k = some v) : (k, v) ∈ l := by
  induction l with
  | nil => cases h
  | cons e r ih =>
    simp only [aGet_cons] at h
    split at h
    · rename_i heq
      have h1 : e.1 = k := by simpa using heq
      cases h
      have : e = (k, e.2) := by rw [← h1]
      rw [← this]
      exact List.mem_cons_self
    · exact List.mem_cons_of_mem _ (ih h)

/-! ## `dedupNat` -/

theorem mem_dedupNat (l : List Nat) (x : Nat) : x ∈ dedupNat l ↔ x ∈ l := by
  induction l with
  | nil => simp [dedupNat]
  | cons y r ih =>
    simp only [dedupNat, List.mem_cons, List.mem_filter, ih]
    constructor
    · rintro (h | ⟨h, _⟩)
      · exact Or.inl h
      · exact Or.inr h
    · intro h
      by_cases hxy : x = y
      · exact Or.inl hxy
      · rcases h with h | h
        · exact Or.inl h
        · exact Or.inr ⟨h, by simpa using hxy⟩

/-! ## the pending set of a transaction in `abort_states` -/

def pend (m : List (Nat × AbortState)) (tx : Nat) : List Nat :=
  match aGet m tx with
  | some st => st.pending
  | none => []

theorem pendingOf_eq (a : AckNet) (tx : Nat) : a.pendingOf tx = pend a.states tx := rfl

theorem mem_pend {m : List (Nat × AbortState)} {tx sh : Nat} (h : sh ∈ pend m tx) :
    ∃ st, aGet m tx = some st ∧ sh ∈ st.pending := by
  unfold pend at h
  split at h
  · rename_i st hst; exact ⟨st, hst, h⟩
  · cases h

theorem pend_trackAbort_self (m : List (Nat × AbortState)) (now tx : Nat) (shards : List Nat) :
    pend (trackAbort m now tx shards) tx = dedupNat shards := by
  unfold pend trackAbort
  rw [aGet_aSet_self]

theorem pend_trackAbort_ne (m : List (Nat × AbortState)) (now tx tx' : Nat) (shards : List Nat) (hne : tx' ≠ tx) :
    pend (trackAbort m now tx shards) tx' = pend m tx' := by
  unfold pend trackAbort
  rw [aGet_aSet_ne _ _ _ _ hne]

theorem aGet_handleAbortAck_ne (m : List (Nat × AbortState)) (tx sh tx' : Nat) (hne : tx' ≠ tx) :
    aGet (handleAbortAck m tx sh).1 tx' = aGet m tx' := by
  unfold handleAbortAck
  cases aGet m tx with
  | none => rfl
  | some st =>
    dsimp only
    split
    · dsimp only; rw [aGet_aErase_ne _ _ _ hne]
    · dsimp only; rw [aGet_aSet_ne _ _ _ _ hne]

theorem pend_handleAbortAck_ne (m : List (Nat × AbortState)) (tx sh tx' : Nat) (hne : tx' ≠ tx) :
    pend (handleAbortAck m tx sh).1 tx' = pend m tx' := by
  unfold pend
  rw [aGet_handleAbortAck_ne _ _ _ _ hne]

theorem mem_pend_handleAbortAck (m : List (Nat × AbortState)) (tx sh x : Nat) (hx : x ∈ pend m tx) (hne : x ≠ sh) :
    x ∈ pend (handleAbortAck m tx sh).1 tx := by
  obtain ⟨st, hst, hmem⟩ := mem_pend hx
  have hf : x ∈ st.pending.filter (fun y => y != sh) := by
    simp only [List.mem_filter]; exact ⟨hmem, by simpa using hne⟩
  unfold handleAbortAck
  rw [hst]
  dsimp only
  split
  · rename_i hempty
    rw [List.isEmpty_iff] at hempty
    rw [hempty] at hf
    cases hf
  · dsimp only
    unfold pend
    rw [aGet_aSet_self]
    exact hf

theorem aGet_getRetryAborts (m : List (Nat × AbortState)) (now tx : Nat) :
    aGet (getRetryAborts m now).1 tx =
      (aGet m tx).map (fun st => if st.due now then { st with retryCount := st.retryCount + 1 } else st) := by
  unfold getRetryAborts
  dsimp only
  induction m with
  | nil => rfl
  | cons e r ih =>
    simp only [List.map_cons, aGet_cons]
    have hk : (if e.2.due now = true then (e.1, ({ e.2 with retryCount := e.2.retryCount + 1 } : AbortState)) else e).1 = e.1 := by
      split <;> rfl
    rw [hk]
    split
    · simp only [Option.map_some]
      split <;> rfl
    · exact ih

theorem pend_getRetryAborts (m : List (Nat × AbortState)) (now tx : Nat) :
    pend (getRetryAborts m now).1 tx = pend m tx := by
  unfold pend
  rw [aGet_getRetryAborts]
  cases aGet m tx with
  | none => rfl
  | some st =>
    simp only [Option.map_some]
    split <;> rfl

/-! ## re-sending -/

theorem mem_resendPairs_of_pend {m : List (Nat × AbortState)} {now tx sh : Nat}
    (hd : ∀ e ∈ m, e.2.due now = true) (hp : sh ∈ pend m tx) :
    (tx, sh) ∈ resendPairs (getRetryAborts m now).2 := by
  obtain ⟨st, hst, hmem⟩ := mem_pend hp
  have hin : (tx, st) ∈ m := aGet_mem _ _ _ hst
  unfold resendPairs getRetryAborts
  simp only [List.mem_flatMap, List.mem_map, List.mem_filter]
  exact ⟨(tx, st.pending), ⟨(tx, st), ⟨hin, hd _ hin⟩, rfl⟩, sh, hmem, rfl⟩

theorem told_step_told (a : AckNet) (tx sh : Nat) : (a.step (.told tx sh)).told = a.told ++ [(tx, sh)] := rfl
theorem told_step_ack (a : AckNet) (tx sh : Nat) : (a.step (.ack tx sh)).told = a.told := rfl
theorem told_step_retry (a : AckNet) : (a.step .retry).told = a.told := rfl

theorem told_resendFold (pairs : List (Nat × Nat)) (b : AckNet) :
    (pairs.foldl (fun b p => (b.step (.told p.1 p.2)).step (.ack p.1 p.2)) b).told = b.told ++ pairs := by
  induction pairs generalizing b with
  | nil => simp
  | cons p r ih =>
    simp only [List.foldl_cons]
    rw [ih, told_step_ack, told_step_told]
    simp

theorem last_resendFold (pairs : List (Nat × Nat)) (b : AckNet) :
    (pairs.foldl (fun b p => (b.step (.told p.1 p.2)).step (.ack p.1 p.2)) b).last = b.last := by
  induction pairs generalizing b with
  | nil => rfl
  | cons p r ih =>
    simp only [List.foldl_cons]
    rw [ih]
    rfl

theorem told_resendRound (a : AckNet) :
    a.resendRound.told = a.told ++ resendPairs (getRetryAborts a.states a.now).2 := by
  unfold AckNet.resendRound
  rw [told_resendFold, told_step_retry]

theorem last_resendRound (a : AckNet) : a.resendRound.last = a.last := by
  unfold AckNet.resendRound
  rw [last_resendFold]
  rfl

/-! ## the invariant -/

theorem lastOf_track_self (a : AckNet) (tx : Nat) (shards : List Nat) :
    (a.step (.track tx shards)).lastOf tx = shards := by
  unfold AckNet.lastOf AckNet.step
  dsimp only
  rw [aGet_aSet_self]

theorem lastOf_track_ne (a : AckNet) (tx tx' : Nat) (shards : List Nat) (hne : tx' ≠ tx) :
    (a.step (.track tx shards)).lastOf tx' = a.lastOf tx' := by
  unfold AckNet.lastOf AckNet.step
  dsimp only
  rw [aGet_aSet_ne _ _ _ _ hne]

theorem tracked_init : AckNet.init.Tracked := by
  intro tx sh h
  cases h

theorem tracked_step {a : AckNet} (e : EvA) (ih : a.Tracked) (hal : a.inAlphabet e = true) : (a.step e).Tracked := by
  intro tx sh hl
  cases e with
  | track tx' shards =>
    by_cases htx : tx = tx'
    · subst htx
      rw [lastOf_track_self] at hl
      right
      rw [pendingOf_eq]
      show sh ∈ pend (trackAbort a.states a.now tx shards) tx
      rw [pend_trackAbort_self, mem_dedupNat]
      exact hl
    · rw [lastOf_track_ne _ _ _ _ htx] at hl
      rcases ih tx sh hl with h | h
      · exact Or.inl h
      · right
        rw [pendingOf_eq] at h ⊢
        show sh ∈ pend (trackAbort a.states a.now tx' shards) tx
        rw [pend_trackAbort_ne _ _ _ _ _ htx]
        exact h
  | told tx' sh' =>
    have hl' : sh ∈ a.lastOf tx := hl
    rcases ih tx sh hl' with h | h
    · left
      rw [told_step_told]
      exact List.mem_append_left _ h
    · exact Or.inr h
  | ack tx' sh' =>
    have hl' : sh ∈ a.lastOf tx := hl
    have htold : (tx', sh') ∈ a.told := by
      have : a.told.contains (tx', sh') = true := hal
      simpa using this
    rcases ih tx sh hl' with h | h
    · exact Or.inl h
    · by_cases htx : tx = tx'
      · subst htx
        by_cases hsh : sh = sh'
        · subst hsh
          exact Or.inl htold
        · right
          rw [pendingOf_eq] at h ⊢
          exact mem_pend_handleAbortAck _ _ _ _ h hsh
      · right
        rw [pendingOf_eq] at h ⊢
        show sh ∈ pend (handleAbortAck a.states tx' sh').1 tx
        rw [pend_handleAbortAck_ne _ _ _ _ htx]
        exact h
  | advance d => exact ih tx sh hl
  | retry =>
    have hl' : sh ∈ a.lastOf tx := hl
    rcases ih tx sh hl' with h | h
    · exact Or.inl h
    · right
      rw [pendingOf_eq] at h ⊢
      show sh ∈ pend (getRetryAborts a.states a.now).1 tx
      rw [pend_getRetryAborts]
      exact h

theorem reach_tracked {a : AckNet} (hr : ReachA a) : a.Tracked := by
  induction hr with
  | init => exact tracked_init
  | step e _ hal ih => exact tracked_step e ih hal

theorem runChecked_reach {a b : AckNet} (es : List EvA) (h : a.runChecked es = some b) (hr : ReachA a) : ReachA b := by
  induction es generalizing a with
  | nil =>
    simp only [AckNet.runChecked] at h
    cases h
    exact hr
  | cons e es ih =>
    simp only [AckNet.runChecked] at h
    split at h
    · rename_i hal
      exact ih h (ReachA.step e hr hal)
    · cases h

end Neumann.TwoPC
