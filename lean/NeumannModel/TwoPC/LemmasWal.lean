import NeumannModel.TwoPC.Wal
import NeumannModel.TwoPC.LemmasRestart
/-
  C03 — the coordinator with a write-ahead log (`Wal.lean`): what the scan of the log does entry by
  entry, what `recover_from_wal` restores, the invariant `WInv` that ties the in-progress entries of
  the log to the coordinator's memory and to the decisions that were announced, and its preservation —
  together with `InvR` and the exclusivity of the decisions — by every event of `ReachW`'s alphabet,
  the WAL restart included (`InvW`).
-/
namespace Neumann.TwoPC

/-! ### the scan of the log -/

theorem scanLog_append (w es : List WalEntry) : scanLog (w ++ es) = es.foldl scanStep (scanLog w) := by
  simp only [scanLog, List.foldl_append]

/-- `LockRelease` records do not touch the in-progress map -/
theorem foldl_releasesOf (ip : List WalTx) (tx : Nat) (vs : List (Nat × Vote)) :
    (releasesOf tx vs).foldl scanStep ip = ip := by
  induction vs with
  | nil => rfl
  | cons a r ih =>
    obtain ⟨sh, v⟩ := a
    cases v with
    | yes h ks => simp only [releasesOf, List.foldl_cons, scanStep]; exact ih
    | no => simp only [releasesOf]; exact ih
    | conflict o => simp only [releasesOf]; exact ih

/-- what a `PrepareVote` record does to one in-progress entry -/
def voteUpd (tx sh : Nat) (wv : WalVote) (a : WalTx) : WalTx :=
  if a.id == tx && a.phase == .preparing && !a.hasVote sh then { a with votes := a.votes ++ [(sh, wv)] } else a

/-- what a `PhaseChange` record does to one in-progress entry -/
def phaseUpd (tx : Nat) (to : Phase) (a : WalTx) : WalTx :=
  if a.id == tx then { a with phase := to } else a

theorem scanStep_vote (ip : List WalTx) (tx sh : Nat) (wv : WalVote) :
    scanStep ip (.vote tx sh wv) = ip.map (voteUpd tx sh wv) := rfl

theorem scanStep_phase (ip : List WalTx) (tx : Nat) (to : Phase) :
    scanStep ip (.phase tx to) = ip.map (phaseUpd tx to) := rfl

theorem voteUpd_id (tx sh : Nat) (wv : WalVote) (a : WalTx) : (voteUpd tx sh wv a).id = a.id := by
  unfold voteUpd; split <;> rfl

theorem voteUpd_phase (tx sh : Nat) (wv : WalVote) (a : WalTx) : (voteUpd tx sh wv a).phase = a.phase := by
  unfold voteUpd; split <;> rfl

theorem voteUpd_participants (tx sh : Nat) (wv : WalVote) (a : WalTx) :
    (voteUpd tx sh wv a).participants = a.participants := by
  unfold voteUpd; split <;> rfl

theorem voteUpd_of_id_ne {tx sh : Nat} {wv : WalVote} {a : WalTx} (h : a.id ≠ tx) : voteUpd tx sh wv a = a := by
  unfold voteUpd
  have : (a.id == tx) = false := by simpa using h
  rw [this]; rfl

theorem voteUpd_of_phase_ne {tx sh : Nat} {wv : WalVote} {a : WalTx} (h : a.phase ≠ .preparing) :
    voteUpd tx sh wv a = a := by
  unfold voteUpd
  have : (a.phase == Phase.preparing) = false := by simpa using h
  rw [this, Bool.and_false, Bool.false_and]; rfl

theorem voteUpd_of_hasVote {tx sh : Nat} {wv : WalVote} {a : WalTx} (h : a.hasVote sh = true) :
    voteUpd tx sh wv a = a := by
  unfold voteUpd
  rw [h]; simp

theorem voteUpd_hit {tx sh : Nat} {wv : WalVote} {a : WalTx} (h1 : a.id = tx) (h2 : a.phase = .preparing)
    (h3 : a.hasVote sh = false) : voteUpd tx sh wv a = { a with votes := a.votes ++ [(sh, wv)] } := by
  unfold voteUpd
  rw [h1, h2, h3]; simp

theorem phaseUpd_id (tx : Nat) (to : Phase) (a : WalTx) : (phaseUpd tx to a).id = a.id := by
  unfold phaseUpd; split <;> rfl

theorem phaseUpd_of_id_ne {tx : Nat} {to : Phase} {a : WalTx} (h : a.id ≠ tx) : phaseUpd tx to a = a := by
  unfold phaseUpd
  have : (a.id == tx) = false := by simpa using h
  rw [this]; rfl

theorem phaseUpd_hit {tx : Nat} {to : Phase} {a : WalTx} (h : a.id = tx) :
    phaseUpd tx to a = { a with phase := to } := by
  unfold phaseUpd
  rw [h]; simp

/-- the one entry of a transaction is replaced by the vote record, the others are left alone -/
theorem mem_scan_vote_hit {ip : List WalTx} {tx sh : Nat} {wv : WalVote} {e0 : WalTx}
    (huniq : ∀ e ∈ ip, ∀ e' ∈ ip, e.id = e'.id → e = e') (he0 : e0 ∈ ip) (hid : e0.id = tx)
    (hph : e0.phase = .preparing) (hnv : e0.hasVote sh = false) (x : WalTx) :
    x ∈ scanStep ip (.vote tx sh wv) ↔ (x ∈ ip ∧ x.id ≠ tx) ∨ x = { e0 with votes := e0.votes ++ [(sh, wv)] } := by
  rw [scanStep_vote, List.mem_map]
  constructor
  · rintro ⟨a, ha, rfl⟩
    by_cases h : a.id = tx
    · have : a = e0 := huniq a ha e0 he0 (by omega)
      subst this
      exact Or.inr (voteUpd_hit hid hph hnv)
    · rw [voteUpd_of_id_ne h]; exact Or.inl ⟨ha, h⟩
  · rintro (⟨hx, hne⟩ | rfl)
    · exact ⟨x, hx, voteUpd_of_id_ne hne⟩
    · exact ⟨e0, he0, voteUpd_hit hid hph hnv⟩

theorem mem_scan_phase_hit {ip : List WalTx} {tx : Nat} {to : Phase} {e1 : WalTx}
    (h1 : ∀ a ∈ ip, a.id = tx → a = e1) (he1 : e1 ∈ ip) (hid : e1.id = tx) (x : WalTx) :
    x ∈ scanStep ip (.phase tx to) ↔ (x ∈ ip ∧ x.id ≠ tx) ∨ x = { e1 with phase := to } := by
  rw [scanStep_phase, List.mem_map]
  constructor
  · rintro ⟨a, ha, rfl⟩
    by_cases h : a.id = tx
    · have := h1 a ha h
      subst this
      exact Or.inr (phaseUpd_hit h)
    · rw [phaseUpd_of_id_ne h]; exact Or.inl ⟨ha, h⟩
  · rintro (⟨hx, hne⟩ | rfl)
    · exact ⟨x, hx, phaseUpd_of_id_ne hne⟩
    · exact ⟨e1, he1, phaseUpd_hit hid⟩

/-- `PhaseChange` followed by `TxComplete` (what `commit` / `abort` append): the transaction leaves the
    in-progress map, the others are left alone -/
theorem mem_scan_phase_complete {ip : List WalTx} {tx : Nat} {to : Phase} {x : WalTx} :
    x ∈ scanStep (scanStep ip (.phase tx to)) (.complete tx) ↔ x ∈ ip ∧ x.id ≠ tx := by
  rw [scanStep_phase]
  simp only [scanStep, List.mem_filter, List.mem_map, bne_iff_ne, ne_eq]
  constructor
  · rintro ⟨⟨a, ha, rfl⟩, hne⟩
    rw [phaseUpd_id] at hne
    rw [phaseUpd_of_id_ne hne]
    exact ⟨ha, hne⟩
  · rintro ⟨hx, hne⟩
    exact ⟨⟨x, hx, phaseUpd_of_id_ne hne⟩, hne⟩

theorem mem_scan_begin {ip : List WalTx} {tx : Nat} {ps : List Nat} {x : WalTx} :
    x ∈ scanStep ip (.begin tx ps) ↔ (x ∈ ip ∧ x.id ≠ tx) ∨ x = ⟨tx, ps, [], .preparing⟩ := by
  simp only [scanStep, List.mem_append, List.mem_filter, List.mem_singleton, bne_iff_ne, ne_eq]

/-! ### votes through the log and back -/

theorem Vote.toWal_isYes (v : Vote) : v.toWal.isYes = v.isYes := by cases v <;> rfl

theorem WalVote.restore_isYes (v : WalVote) : v.restore.isYes = v.isYes := by cases v <;> rfl

theorem any_fst_map {α β : Type} (f : α → β) (vs : List (Nat × α)) (sh : Nat) :
    (vs.map (fun x => (x.1, f x.2))).any (fun x => x.1 == sh) = vs.any (fun x => x.1 == sh) := by
  induction vs with
  | nil => rfl
  | cons a r ih => simp only [List.map_cons, List.any_cons, ih]

theorem all_snd_map {α β : Type} (f : α → β) (p : β → Bool) (vs : List (Nat × α)) :
    (vs.map (fun x => (x.1, f x.2))).all (fun x => p x.2) = vs.all (fun x => p (f x.2)) := by
  induction vs with
  | nil => rfl
  | cons a r ih => simp only [List.map_cons, List.all_cons, ih]

/-! ### what `recover_from_wal` restores -/

theorem mem_restored {ip : List WalTx} {now : Nat} {t : DTx} :
    t ∈ (classify ip).restored now ↔
      ∃ e ∈ ip, (e.phase = .prepared ∨ e.phase = .committing ∨ e.phase = .aborting) ∧
        t = e.restoreAs e.phase now := by
  simp only [WalRecovery.restored, classify, List.mem_append, List.mem_map, List.mem_filter, beq_iff_eq]
  constructor
  · rintro ((⟨e, ⟨he, hp⟩, rfl⟩ | ⟨e, ⟨he, hp⟩, rfl⟩) | ⟨e, ⟨he, hp⟩, rfl⟩)
    · exact ⟨e, he, Or.inl hp, by rw [hp]⟩
    · exact ⟨e, he, Or.inr (Or.inl hp), by rw [hp]⟩
    · exact ⟨e, he, Or.inr (Or.inr hp), by rw [hp]⟩
  · rintro ⟨e, he, hp | hp | hp, rfl⟩
    · exact Or.inl (Or.inl ⟨e, ⟨he, hp⟩, by rw [hp]⟩)
    · exact Or.inl (Or.inr ⟨e, ⟨he, hp⟩, by rw [hp]⟩)
    · exact Or.inr ⟨e, ⟨he, hp⟩, by rw [hp]⟩

/-- an id without a `PhaseChange` record in the log is `Preparing` in the scan, if it is there at all -/
theorem scan_no_phase {tx : Nat} (log : List WalEntry) (ip : List WalTx)
    (h : ∀ to, WalEntry.phase tx to ∉ log) (h0 : ∀ e ∈ ip, e.id = tx → e.phase = .preparing) :
    ∀ e ∈ log.foldl scanStep ip, e.id = tx → e.phase = .preparing := by
  induction log generalizing ip with
  | nil => exact h0
  | cons r log ih =>
    rw [List.foldl_cons]
    apply ih
    · intro to hm; exact h to (List.mem_cons_of_mem _ hm)
    · intro e he hid
      cases r with
      | «begin» tx' ps =>
        rcases mem_scan_begin.1 he with ⟨h1, _⟩ | rfl
        · exact h0 e h1 hid
        · rfl
      | vote tx' sh v =>
        rw [scanStep_vote, List.mem_map] at he
        obtain ⟨a, ha, rfl⟩ := he
        rw [voteUpd_phase]
        rw [voteUpd_id] at hid
        exact h0 a ha hid
      | phase tx' to =>
        have hne : tx' ≠ tx := by
          intro heq
          exact h to (by rw [← heq]; exact List.mem_cons_self)
        rw [scanStep_phase, List.mem_map] at he
        obtain ⟨a, ha, rfl⟩ := he
        rw [phaseUpd_id] at hid
        rw [phaseUpd_of_id_ne (by omega)]
        exact h0 a ha hid
      | complete tx' =>
        simp only [scanStep, List.mem_filter] at he
        exact h0 e he.1 hid
      | lockRelease tx' hh => exact h0 e he hid
      | allLocksReleased tx' => exact h0 e he hid

/-! ### the log against the coordinator's memory and the announced decisions -/

/-- `ip` = the in-progress entries of the log, `s` = the system.  In this model the only in-progress
    logged phases are `Preparing` and `Prepared` (`commit` / `abort` append `PhaseChange` and `TxComplete`
    in one call).  A logged-`Prepared` entry has no abort decision and every participant's YES is in the
    pool; memory's `Preparing` entries are in the log exactly as they are in memory; the transaction of an
    `Aborting` entry of memory is still `Preparing` in the log, if it is there at all. -/
structure WInv (ip : List WalTx) (s : Sys) : Prop where
  phases : ∀ e ∈ ip, e.phase = .preparing ∨ e.phase = .prepared
  idLt : ∀ e ∈ ip, e.id < s.coord.nextTx
  idUniq : ∀ e ∈ ip, ∀ e' ∈ ip, e.id = e'.id → e = e'
  prepNoAbort : ∀ e ∈ ip, e.phase = .prepared → (e.id, false) ∉ s.decided
  prepVotes : ∀ e ∈ ip, e.phase = .prepared →
      (e.participants.all (fun sh => e.hasVote sh)) = true ∧ (e.votes.all (fun x => x.2.isYes)) = true
  prepYes : ∀ e ∈ ip, e.phase = .prepared → ∀ sp ∈ s.specs, sp.id = e.id →
      ∀ sh ∈ sp.shards, ∃ h ks, Msg.vote e.id sh (.yes h ks) ∈ s.msgs
  prepPart : ∀ e ∈ ip, e.phase = .prepared → ∀ sp ∈ s.specs, sp.id = e.id → sp.shards = e.participants
  memPreparing : ∀ t ∈ s.coord.pending, t.phase = .preparing →
      ∃ e ∈ ip, e.id = t.id ∧ e.phase = .preparing ∧ e.participants = t.participants ∧
        e.votes = t.votes.map (fun x => (x.1, x.2.toWal))
  memAborting : ∀ t ∈ s.coord.pending, t.phase = .aborting → ∀ e ∈ ip, e.id = t.id → e.phase = .preparing
  memOpen : ∀ t ∈ s.coord.pending, t.phase.isFinal = false

theorem WInv.init (stores : List Store) (a b c : Nat) : WInv [] (Sys.init stores a b c) := by
  constructor <;> simp [Sys.init]

/-- the log entry of a transaction that memory holds as `Preparing` or `Aborting` is `Preparing` -/
theorem WInv.logged_preparing {ip : List WalTx} {s : Sys} (h : WInv ip s) {t : DTx}
    (ht : t ∈ s.coord.pending) (hph : t.phase = .preparing ∨ t.phase = .aborting) :
    ∀ e ∈ ip, e.id = t.id → e.phase = .preparing := by
  intro e he hid
  rcases hph with hph | hph
  · obtain ⟨e0, he0, hid0, hp0, _⟩ := h.memPreparing t ht hph
    have : e = e0 := h.idUniq e he e0 he0 (by omega)
    rw [this]; exact hp0
  · exact h.memAborting t ht hph e he hid

/-- the log shrinks or stays, the pending map changes but gets no new `Preparing` entry -/
theorem WInv.sub {ip ip' : List WalTx} {s s' : Sys} (h : WInv ip s)
    (hip : ∀ e ∈ ip', e ∈ ip)
    (hnext : s'.coord.nextTx = s.coord.nextTx) (hspecs : s'.specs = s.specs)
    (hmsgs : ∀ m ∈ s.msgs, m ∈ s'.msgs)
    (hdec : ∀ e ∈ ip', e.phase = .prepared → (e.id, false) ∈ s'.decided → (e.id, false) ∈ s.decided)
    (hmemP : ∀ t' ∈ s'.coord.pending, t'.phase = .preparing → ∃ t ∈ s.coord.pending, t.phase = .preparing ∧
        t.id = t'.id ∧ t.participants = t'.participants ∧ t.votes = t'.votes ∧ ∀ e ∈ ip, e.id = t.id → e ∈ ip')
    (hmemA : ∀ t' ∈ s'.coord.pending, t'.phase = .aborting → ∀ e ∈ ip', e.id = t'.id → e.phase = .preparing)
    (hopen : ∀ t' ∈ s'.coord.pending, t'.phase.isFinal = false) : WInv ip' s' := by
  constructor
  · intro e he; exact h.phases e (hip e he)
  · intro e he; rw [hnext]; exact h.idLt e (hip e he)
  · intro e he e' he' hid; exact h.idUniq e (hip e he) e' (hip e' he') hid
  · intro e he hp hd; exact h.prepNoAbort e (hip e he) hp (hdec e he hp hd)
  · intro e he hp; exact h.prepVotes e (hip e he) hp
  · intro e he hp sp hsp hid sh hsh
    rw [hspecs] at hsp
    obtain ⟨hh, ks, hv⟩ := h.prepYes e (hip e he) hp sp hsp hid sh hsh
    exact ⟨hh, ks, hmsgs _ hv⟩
  · intro e he hp sp hsp hid
    rw [hspecs] at hsp
    exact h.prepPart e (hip e he) hp sp hsp hid
  · intro t' ht' hp
    obtain ⟨t, ht, hph, hid, hpart, hvotes, hin⟩ := hmemP t' ht' hp
    obtain ⟨e, he, heid, hep, hepart, hev⟩ := h.memPreparing t ht hph
    exact ⟨e, hin e he heid, by omega, hep, by rw [hepart, hpart], by rw [hev, hvotes]⟩
  · exact hmemA
  · exact hopen

/-- one transaction `tx` gets a new log entry `en` and a new memory entry `tn` (`begin`, an accepted
    vote); every other transaction keeps its log entry and its memory entry -/
theorem WInv.replace {ip ip' : List WalTx} {s s' : Sys} (h : WInv ip s) (tx : Nat) (en : WalTx) (tn : DTx)
    (hen : en.id = tx) (htn : tn.id = tx)
    (hip : ∀ x, x ∈ ip' ↔ (x ∈ ip ∧ x.id ≠ tx) ∨ x = en)
    (hpend : ∀ t' ∈ s'.coord.pending, (t' ∈ s.coord.pending ∧ t'.id ≠ tx) ∨ t' = tn)
    (hnext : s.coord.nextTx ≤ s'.coord.nextTx) (htx : tx < s'.coord.nextTx)
    (hspecs : ∀ sp ∈ s'.specs, sp ∈ s.specs ∨ sp.id = tx)
    (hmsgs : ∀ m ∈ s.msgs, m ∈ s'.msgs)
    (hdec : ∀ x, (x, false) ∈ s'.decided → (x, false) ∈ s.decided ∨ x = tx)
    (henPhase : en.phase = .preparing ∨ en.phase = .prepared)
    (henPrep : en.phase = .prepared → (tx, false) ∉ s'.decided ∧
        ((en.participants.all (fun sh => en.hasVote sh)) = true ∧ (en.votes.all (fun x => x.2.isYes)) = true) ∧
        ∀ sp ∈ s'.specs, sp.id = tx → sp.shards = en.participants ∧
          ∀ sh ∈ sp.shards, ∃ hh ks, Msg.vote tx sh (.yes hh ks) ∈ s'.msgs)
    (htnP : tn.phase = .preparing → en.phase = .preparing ∧ en.participants = tn.participants ∧
        en.votes = tn.votes.map (fun x => (x.1, x.2.toWal)))
    (htnA : tn.phase = .aborting → en.phase = .preparing)
    (htnO : tn.phase.isFinal = false) : WInv ip' s' := by
  constructor
  · intro e he
    rcases (hip e).1 he with ⟨h1, _⟩ | rfl
    · exact h.phases e h1
    · exact henPhase
  · intro e he
    rcases (hip e).1 he with ⟨h1, _⟩ | rfl
    · have := h.idLt e h1; omega
    · omega
  · intro e he e' he' hid
    rcases (hip e).1 he with ⟨h1, n1⟩ | rfl <;> rcases (hip e').1 he' with ⟨h2, n2⟩ | rfl
    · exact h.idUniq e h1 e' h2 hid
    · omega
    · omega
    · rfl
  · intro e he hp hd
    rcases (hip e).1 he with ⟨h1, n1⟩ | rfl
    · rcases hdec e.id hd with h3 | h3
      · exact h.prepNoAbort e h1 hp h3
      · exact n1 h3
    · rw [hen] at hd; exact (henPrep hp).1 hd
  · intro e he hp
    rcases (hip e).1 he with ⟨h1, n1⟩ | rfl
    · exact h.prepVotes e h1 hp
    · exact (henPrep hp).2.1
  · intro e he hp sp hsp hid sh hsh
    rcases (hip e).1 he with ⟨h1, n1⟩ | rfl
    · rcases hspecs sp hsp with h3 | h3
      · obtain ⟨hh, ks, hv⟩ := h.prepYes e h1 hp sp h3 hid sh hsh
        exact ⟨hh, ks, hmsgs _ hv⟩
      · omega
    · rw [hen] at hid ⊢
      exact ((henPrep hp).2.2 sp hsp hid).2 sh hsh
  · intro e he hp sp hsp hid
    rcases (hip e).1 he with ⟨h1, n1⟩ | rfl
    · rcases hspecs sp hsp with h3 | h3
      · exact h.prepPart e h1 hp sp h3 hid
      · omega
    · rw [hen] at hid
      exact ((henPrep hp).2.2 sp hsp hid).1
  · intro t' ht' hp
    rcases hpend t' ht' with ⟨h1, n1⟩ | rfl
    · obtain ⟨e, he, heid, hrest⟩ := h.memPreparing t' h1 hp
      exact ⟨e, (hip e).2 (Or.inl ⟨he, by omega⟩), heid, hrest⟩
    · obtain ⟨q1, q2, q3⟩ := htnP hp
      exact ⟨en, (hip en).2 (Or.inr rfl), by omega, q1, q2, q3⟩
  · intro t' ht' hp e he hid
    rcases hpend t' ht' with ⟨h1, n1⟩ | rfl
    · rcases (hip e).1 he with ⟨h2, n2⟩ | rfl
      · exact h.memAborting t' h1 hp e h2 hid
      · omega
    · rcases (hip e).1 he with ⟨h2, n2⟩ | rfl
      · omega
      · exact htnA hp
  · intro t' ht'
    rcases hpend t' ht' with ⟨h1, n1⟩ | rfl
    · exact h.memOpen t' h1
    · exact htnO

/-- nothing but new messages and apply / discard records -/
theorem WInv.frame {ip : List WalTx} {s s' : Sys} (h : WInv ip s) (hc : s'.coord = s.coord)
    (hs : s'.specs = s.specs) (hd : s'.decided = s.decided) (hm : ∀ m ∈ s.msgs, m ∈ s'.msgs) : WInv ip s' := by
  refine h.sub (fun _ x => x) (by rw [hc]) hs hm (fun _ _ _ x => by rw [hd] at x; exact x) ?_ ?_ ?_
  · rw [hc]; intro t ht hp; exact ⟨t, ht, hp, rfl, rfl, rfl, fun _ he _ => he⟩
  · rw [hc]; exact h.memAborting
  · rw [hc]; exact h.memOpen

/-- pending entries are dropped, nothing else changes -/
theorem WInv.shrink {ip : List WalTx} {s : Sys} (h : WInv ip s) (ps : List DTx)
    (hsub : ∀ t ∈ ps, t ∈ s.coord.pending) : WInv ip { s with coord := { s.coord with pending := ps } } := by
  refine h.sub (fun _ x => x) rfl rfl (fun _ x => x) (fun _ _ _ x => x) ?_ ?_ ?_
  · intro t ht hp; exact ⟨t, hsub t ht, hp, rfl, rfl, rfl, fun _ he _ => he⟩
  · intro t ht hp; exact h.memAborting t (hsub t ht) hp
  · intro t ht; exact h.memOpen t (hsub t ht)

/-! ### `record_vote` with its answer -/

/-- `recordVote_ok` of `Lemmas.lean` with the answer: `None`, `Some(Prepared)`, `Some(Aborting)` -/
theorem recordVote_ok_res {c c' : Coordinator} {tx sh : Nat} {v : Vote} {f : Nat → Nat → Bool}
    {r : Option Phase} (h : c.recordVote tx sh v f = .ok (c', r)) :
    ∃ t t1, t ∈ c.pending ∧ t.id = tx ∧ t.phase = .preparing ∧ t.hasVote sh = false ∧
      c'.pending = setTx c.pending tx t1 ∧ c'.nextTx = c.nextTx ∧
      t1.id = tx ∧ t1.participants = t.participants ∧ t1.votes = t.votes ++ [(sh, v)] ∧
      ((t1.phase = .preparing ∧ r = none ∧ c'.pendingAborts = c.pendingAborts) ∨
       (t1.phase = .prepared ∧ r = some .prepared ∧ c'.pendingAborts = c.pendingAborts ∧
          t1.allVoted = true ∧ t1.allYes = true) ∨
       (t1.phase = .aborting ∧ r = some .aborting ∧
          ∃ reason, c'.pendingAborts = c.pendingAborts ++ [(tx, reason, t.participants)])) := by
  unfold Coordinator.recordVote at h
  split at h
  · cases h
  · rename_i t ht
    obtain ⟨hmem, hid⟩ := findTx_some ht
    split at h
    · cases h
    · rename_i hph
      have hph' : t.phase = .preparing := by
        simpa using hph
      split at h
      · cases h
      · rename_i hnv
        have hnv' : t.hasVote sh = false := by simpa using hnv
        dsimp only at h
        split at h
        · rename_i hav
          split at h
          · rename_i hay
            split at h
            · cases h
              exact ⟨t, _, hmem, hid, hph', hnv', rfl, rfl, hid, rfl, rfl, Or.inr (Or.inr ⟨rfl, rfl, _, rfl⟩)⟩
            · cases h
              exact ⟨t, _, hmem, hid, hph', hnv', rfl, rfl, hid, rfl, rfl, Or.inr (Or.inl ⟨rfl, rfl, rfl, hav, hay⟩)⟩
          · cases h
            exact ⟨t, _, hmem, hid, hph', hnv', rfl, rfl, hid, rfl, rfl, Or.inr (Or.inr ⟨rfl, rfl, _, rfl⟩)⟩
        · cases h
          exact ⟨t, _, hmem, hid, hph', hnv', rfl, rfl, hid, rfl, rfl, Or.inl ⟨hph', rfl, rfl⟩⟩

/-- a refused vote for a `Preparing` transaction is a duplicate -/
theorem recordVote_error {c : Coordinator} {tx sh : Nat} {v : Vote} {f : Nat → Nat → Bool} {er : VoteErr}
    (h : c.recordVote tx sh v f = .error er) (huniq : ∀ t ∈ c.pending, ∀ t' ∈ c.pending, t.id = t'.id → t = t')
    {t : DTx} (ht : t ∈ c.pending) (hid : t.id = tx) (hph : t.phase = .preparing) : t.hasVote sh = true := by
  unfold Coordinator.recordVote at h
  split at h
  · rename_i hf
    exact absurd hid (findTx_none hf t ht)
  · rename_i t0 ht0
    obtain ⟨hmem, hid0⟩ := findTx_some ht0
    have : t0 = t := huniq t0 hmem t ht (by omega)
    subst this
    split at h
    · rename_i hne
      rw [hph] at hne
      simp at hne
    · split at h
      · assumption
      · dsimp only at h
        split at h
        · split at h
          · split at h <;> cases h
          · cases h
        · cases h

/-! ### `recover()` on one entry, read backwards -/

theorem recoverPhase_eq_preparing {t : DTx} {now : Nat} (h : t.recoverPhase now = .preparing) :
    t.phase = .preparing := by
  unfold DTx.recoverPhase DTx.recoverArm at h
  split at h
  · assumption
  · split at h
    · cases h
    · split at h
      · cases h
      · split at h <;> cases h
  · cases h
  · cases h
  · cases h
  · cases h

theorem recoverPhase_isFinal {t : DTx} {now : Nat} (h : t.phase.isFinal = false) :
    (t.recoverPhase now).isFinal = false := by
  cases hp : t.phase with
  | preparing => rw [recoverPhase_preparing' hp]; split <;> rfl
  | prepared =>
    rw [recoverPhase_prepared' hp]
    split
    · rfl
    · split
      · rfl
      · split <;> rfl
  | committing => rw [recoverPhase_of_committing hp]; rfl
  | aborting => rw [recoverPhase_of_aborting hp]; rfl
  | committed => rw [hp] at h; cases h
  | aborted => rw [hp] at h; cases h

/-! ### where an abort decision comes from, against the log -/

/-- an abort decision that is not an `abort()` call, along a run that spares `Committing` and `Prepared`
    entries, is about a transaction whose log entry — if it has one — is still `Preparing` -/
theorem WInv.fresh_abort_logged_preparing {ip : List WalTx} {s : Sys} (h : WInv ip s) (hi : InvR s)
    {ev : EvR} (hs : s.sparesCommitting ev = true) (hp : s.sparesPrepared ev = true) {t : DTx}
    (ht : t ∈ s.coord.pending) (f : Fresh s ev t false) (hne : ∀ tx, ev ≠ .base (.coordAbort tx)) :
    ∀ e ∈ ip, e.id = t.id → e.phase = .preparing := by
  cases f with
  | vote i _ hph => exact h.logged_preparing ht (Or.inl hph)
  | abort _ => exact absurd rfl (hne t.id)
  | sweep _ hto =>
    cases hph : t.phase with
    | preparing => exact h.logged_preparing ht (Or.inl hph)
    | aborting => exact h.logged_preparing ht (Or.inr hph)
    | prepared =>
      simp only [Sys.sparesPrepared, List.all_eq_true] at hp
      have := hp t ht
      rw [hph, hto] at this
      simp at this
    | committing =>
      simp only [Sys.sparesCommitting, List.all_eq_true] at hs
      have := hs t ht
      rw [hph, hto] at this
      simp at this
    | committed => have := h.memOpen t ht; rw [hph] at this; cases this
    | aborted => have := h.memOpen t ht; rw [hph] at this; cases this
  | recoverAbort _ hrp =>
    cases hph : t.phase with
    | preparing => exact h.logged_preparing ht (Or.inl hph)
    | aborting => exact h.logged_preparing ht (Or.inr hph)
    | prepared =>
      simp only [Sys.sparesPrepared, List.all_eq_true] at hp
      have hto := hp t ht
      rw [hph] at hto
      have hto' : t.timedOut s.now = false := by simpa using hto
      have hay := (hi.prepOk t ht (Or.inl hph)).2
      rw [recoverPhase_prepared' hph, hto', hay] at hrp
      simp at hrp
    | committing => rw [recoverPhase_of_committing hph] at hrp; cases hrp
    | committed => rw [recoverPhase_of_committed hph] at hrp; cases hrp
    | aborted => rw [recoverPhase_of_aborted hph] at hrp; cases hrp

/-! ### preservation of `WInv` by the events of C03's alphabet -/

theorem WInv.begin {ip : List WalTx} {s : Sys} (h : WInv ip s) (hi : InvR s) (shards : List Nat)
    (ops : List (Nat × List Op)) (sim : List (Nat × Nat)) :
    WInv ((s.walOf (.begin shards ops sim)).foldl scanStep ip) (s.step (.begin shards ops sim)) := by
  by_cases hfull : s.coord.pending.length ≥ s.coord.maxConcurrent
  · simp only [Sys.step, Sys.stepR, Coordinator.begin, Sys.walOf, Coordinator.walOfBegin, if_pos hfull,
      List.foldl_nil]
    exact h
  · simp only [Sys.step, Sys.stepR, Coordinator.begin, Sys.walOf, Coordinator.walOfBegin, if_neg hfull,
      List.foldl_cons, List.foldl_nil]
    refine h.replace s.coord.nextTx ⟨s.coord.nextTx, shards, [], .preparing⟩
      ⟨s.coord.nextTx, shards, .preparing, [], s.now, s.coord.prepareTimeout⟩ rfl rfl
      (fun x => mem_scan_begin) ?_ (Nat.le_succ _) (Nat.lt_succ_self _) ?_
      (fun m hm => List.mem_append.2 (Or.inl hm)) (fun x hx => Or.inl hx) (Or.inl rfl) ?_
      (fun _ => ⟨rfl, rfl, rfl⟩) (fun _ => rfl) rfl
    · intro t' ht'
      rcases List.mem_append.1 ht' with h1 | h1
      · exact Or.inl ⟨h1, by have := hi.pendLt t' h1; omega⟩
      · exact Or.inr (List.mem_singleton.1 h1)
    · intro sp hsp
      rcases List.mem_append.1 hsp with h1 | h1
      · exact Or.inl h1
      · rw [List.mem_singleton.1 h1]; exact Or.inr rfl
    · intro hp; cases hp

theorem WInv.vote {ip : List WalTx} {s : Sys} (h : WInv ip s) (hi : InvR s) {tx sh : Nat} {v : Vote}
    (hv : Msg.vote tx sh v ∈ s.msgs) :
    WInv ((s.coord.walOfVote tx sh v (nonOrthOf s.specs tx)).foldl scanStep ip)
      (s.deliverMsg (.vote tx sh v)).1 := by
  cases hr : s.coord.recordVote tx sh v (nonOrthOf s.specs tx) with
  | error er =>
    simp only [Coordinator.walOfVote, Sys.deliverMsg, hr, List.foldl_cons, List.foldl_nil]
    rw [scanStep_vote]
    have hfix : ∀ t ∈ s.coord.pending, t.phase = .preparing → ∀ e ∈ ip, e.id = t.id →
        e.votes = t.votes.map (fun x => (x.1, x.2.toWal)) → voteUpd tx sh v.toWal e = e := by
      intro t ht hph e he hid hvs
      by_cases hx : e.id = tx
      · apply voteUpd_of_hasVote
        have := recordVote_error hr hi.pendUniq ht (by omega) hph
        simp only [WalTx.hasVote, hvs]
        rw [any_fst_map]; exact this
      · exact voteUpd_of_id_ne hx
    have hprep : ∀ a ∈ ip, (voteUpd tx sh v.toWal a).phase = .prepared → voteUpd tx sh v.toWal a = a := by
      intro a _ hp
      rw [voteUpd_phase] at hp
      exact voteUpd_of_phase_ne (by rw [hp]; exact fun hh => by cases hh)
    constructor
    · intro x hx
      obtain ⟨a, ha, rfl⟩ := List.mem_map.1 hx
      rw [voteUpd_phase]; exact h.phases a ha
    · intro x hx
      obtain ⟨a, ha, rfl⟩ := List.mem_map.1 hx
      rw [voteUpd_id]; exact h.idLt a ha
    · intro x hx x' hx' hid
      obtain ⟨a, ha, rfl⟩ := List.mem_map.1 hx
      obtain ⟨a', ha', rfl⟩ := List.mem_map.1 hx'
      rw [voteUpd_id, voteUpd_id] at hid
      rw [h.idUniq a ha a' ha' hid]
    · intro x hx hp
      obtain ⟨a, ha, rfl⟩ := List.mem_map.1 hx
      have hfx := hprep a ha hp
      rw [hfx] at hp ⊢
      exact h.prepNoAbort a ha hp
    · intro x hx hp
      obtain ⟨a, ha, rfl⟩ := List.mem_map.1 hx
      have hfx := hprep a ha hp
      rw [hfx] at hp ⊢
      exact h.prepVotes a ha hp
    · intro x hx hp
      obtain ⟨a, ha, rfl⟩ := List.mem_map.1 hx
      have hfx := hprep a ha hp
      rw [hfx] at hp ⊢
      exact h.prepYes a ha hp
    · intro x hx hp
      obtain ⟨a, ha, rfl⟩ := List.mem_map.1 hx
      have hfx := hprep a ha hp
      rw [hfx] at hp ⊢
      exact h.prepPart a ha hp
    · intro t ht hph
      obtain ⟨e, he, hid, hep, hepart, hev⟩ := h.memPreparing t ht hph
      exact ⟨e, List.mem_map.2 ⟨e, he, hfix t ht hph e he hid hev⟩, hid, hep, hepart, hev⟩
    · intro t ht hph x hx hid
      obtain ⟨a, ha, rfl⟩ := List.mem_map.1 hx
      rw [voteUpd_id] at hid
      rw [voteUpd_phase]
      exact h.memAborting t ht hph a ha hid
    · exact h.memOpen
  | ok r =>
    obtain ⟨c', ph⟩ := r
    obtain ⟨t, t1, htm, htid, htph, htnv, hpend, hnext, h1id, h1part, h1votes, hcases⟩ := recordVote_ok_res hr
    obtain ⟨e0, he0, he0id, he0ph, he0part, he0votes⟩ := h.memPreparing t htm htph
    have he0nv : e0.hasVote sh = false := by
      simp only [WalTx.hasVote, he0votes]
      rw [any_fst_map]; exact htnv
    have hscan := mem_scan_vote_hit (tx := tx) (wv := v.toWal) h.idUniq he0 (by omega) he0ph he0nv
    have hnoAbort : (tx, false) ∉ s.decided := by
      intro hd
      have := hi.decAbort tx hd t htm htid
      rw [htph] at this; cases this
    have hpa0 := hi.paEmpty
    have hmem : ∀ t', t' ∈ c'.pending → (t' ∈ s.coord.pending ∧ t'.id ≠ tx) ∨ t' = t1 := by
      intro t' ht'; rw [hpend] at ht'
      rcases mem_setTx ht' with h1 | h1
      · exact Or.inr h1
      · exact Or.inl h1
    have hvotes1 : (⟨e0.id, e0.participants, e0.votes ++ [(sh, v.toWal)], e0.phase⟩ : WalTx).votes =
        t1.votes.map (fun x => (x.1, x.2.toWal)) := by
      rw [h1votes, List.map_append, ← he0votes]; rfl
    simp only [Coordinator.walOfVote, Sys.deliverMsg, hr, Sys.drain, Coordinator.takePendingAborts]
    rcases hcases with ⟨h1ph, rfl, hpa⟩ | ⟨h1ph, rfl, hpa, hav, hay⟩ | ⟨h1ph, rfl, reason, hpa⟩
    · -- still Preparing
      simp only [List.foldl_cons, List.foldl_nil]
      rw [hpa, hpa0]
      refine h.replace tx _ t1 (by show e0.id = tx; omega) h1id hscan hmem (by rw [hnext]; exact Nat.le_refl _)
        (by rw [hnext]; have := hi.pendLt t htm; omega) (fun sp hsp => Or.inl hsp)
        (fun m hm => List.mem_append.2 (Or.inl hm)) ?_ (Or.inl he0ph) ?_ ?_ ?_ ?_
      · intro x hx
        simp only [List.map_nil, List.append_nil] at hx
        exact Or.inl hx
      · intro hp; rw [he0ph] at hp; cases hp
      · intro _
        exact ⟨he0ph, by rw [h1part]; exact he0part, hvotes1⟩
      · intro hp; rw [h1ph] at hp; cases hp
      · rw [h1ph]; rfl
    · -- Prepared: the phase change is logged
      simp only [List.foldl_cons, List.foldl_nil]
      rw [hpa, hpa0]
      have hscan2 := mem_scan_phase_hit (ip := scanStep ip (.vote tx sh v.toWal)) (tx := tx) (to := .prepared)
        (e1 := ⟨e0.id, e0.participants, e0.votes ++ [(sh, v.toWal)], e0.phase⟩)
        (by
          intro a ha haid
          rcases (hscan a).1 ha with ⟨_, hne⟩ | rfl
          · exact absurd haid hne
          · rfl)
        ((hscan _).2 (Or.inr rfl)) (by show e0.id = tx; omega)
      have hip : ∀ x, x ∈ scanStep (scanStep ip (.vote tx sh v.toWal)) (.phase tx .prepared) ↔
          (x ∈ ip ∧ x.id ≠ tx) ∨ x = ⟨e0.id, e0.participants, e0.votes ++ [(sh, v.toWal)], .prepared⟩ := by
        intro x
        rw [hscan2 x]
        constructor
        · rintro (⟨hx, hne⟩ | rfl)
          · rcases (hscan x).1 hx with h3 | rfl
            · exact Or.inl h3
            · exact absurd (by show e0.id = tx; omega) hne
          · exact Or.inr rfl
        · rintro (⟨hx, hne⟩ | rfl)
          · exact Or.inl ⟨(hscan x).2 (Or.inl ⟨hx, hne⟩), hne⟩
          · exact Or.inr rfl
      have hvm : ∀ e ∈ t1.votes, Msg.vote t1.id e.1 e.2 ∈ s.msgs := by
        intro e he
        rw [h1votes] at he
        rcases List.mem_append.1 he with h2 | h2
        · rcases hi.voteMsg t htm e h2 with h3 | h3
          · rw [h1id, ← htid]; exact h3
          · have := hi.decCommit t.id h3 t htm rfl
            rw [htph] at this; cases this
        · simp only [List.mem_singleton] at h2
          subst h2; rw [h1id]; exact hv
      refine h.replace tx _ t1 (by show e0.id = tx; omega) h1id hip hmem (by rw [hnext]; exact Nat.le_refl _)
        (by rw [hnext]; have := hi.pendLt t htm; omega) (fun sp hsp => Or.inl hsp)
        (fun m hm => List.mem_append.2 (Or.inl hm)) ?_ (Or.inr rfl) ?_ ?_ ?_ ?_
      · intro x hx
        simp only [List.map_nil, List.append_nil] at hx
        exact Or.inl hx
      · intro _
        refine ⟨?_, ⟨?_, ?_⟩, ?_⟩
        · simp only [List.map_nil, List.append_nil]; exact hnoAbort
        · show (e0.participants.all (fun sh' => (e0.votes ++ [(sh, v.toWal)]).any (fun x => x.1 == sh'))) = true
          have hvs : e0.votes ++ [(sh, v.toWal)] = t1.votes.map (fun x => (x.1, x.2.toWal)) := hvotes1
          rw [hvs, he0part, ← h1part]
          simp only [DTx.allVoted, DTx.hasVote] at hav
          simp only [any_fst_map]
          exact hav
        · show ((e0.votes ++ [(sh, v.toWal)]).all (fun x => x.2.isYes)) = true
          have hvs : e0.votes ++ [(sh, v.toWal)] = t1.votes.map (fun x => (x.1, x.2.toWal)) := hvotes1
          rw [hvs, all_snd_map Vote.toWal WalVote.isYes]
          simp only [Vote.toWal_isYes]
          exact hay
        · intro sp hsp hid
          have hparts := hi.specPart t htm sp hsp (by omega)
          refine ⟨by rw [hparts]; exact he0part.symm, ?_⟩
          intro sh' hsh'
          rw [hparts, ← h1part] at hsh'
          obtain ⟨hh, ks, hvv⟩ := yes_of_allVoted_allYes hav hay hvm hsh'
          rw [h1id] at hvv
          exact ⟨hh, ks, List.mem_append.2 (Or.inl hvv)⟩
      · intro hp; rw [h1ph] at hp; cases hp
      · intro hp; rw [h1ph] at hp; cases hp
      · rw [h1ph]; rfl
    · -- Aborting: nothing more is logged
      simp only [List.foldl_cons, List.foldl_nil]
      rw [hpa, hpa0]
      refine h.replace tx _ t1 (by show e0.id = tx; omega) h1id hscan hmem (by rw [hnext]; exact Nat.le_refl _)
        (by rw [hnext]; have := hi.pendLt t htm; omega) (fun sp hsp => Or.inl hsp)
        (fun m hm => List.mem_append.2 (Or.inl hm)) ?_ (Or.inl he0ph) ?_ ?_ ?_ ?_
      · intro x hx
        simp only [List.nil_append, List.map_cons, List.map_nil, List.mem_append, List.mem_singleton,
          Prod.mk.injEq] at hx
        rcases hx with h3 | ⟨h3, _⟩
        · exact Or.inl h3
        · exact Or.inr h3
      · intro hp; rw [he0ph] at hp; cases hp
      · intro hp; rw [h1ph] at hp; cases hp
      · intro _; exact he0ph
      · rw [h1ph]; rfl

theorem WInv.deliver {ip : List WalTx} {s : Sys} (h : WInv ip s) (hi : InvR s) (i : Nat) :
    WInv ((s.walOf (.deliver i)).foldl scanStep ip) (s.step (.deliver i)) := by
  cases hm : s.msgs[i]? with
  | none =>
    simp only [Sys.step, Sys.stepR, Sys.walOf, hm, List.foldl_nil]
    exact h
  | some m =>
    cases m with
    | vote tx sh v =>
      simp only [Sys.step, Sys.stepR, Sys.walOf, hm]
      exact h.vote hi (mem_of_getElem? hm)
    | prepare tx sh ops =>
      simp only [Sys.step, Sys.stepR, Sys.walOf, hm, List.foldl_nil, Sys.deliverMsg]
      split
      · exact h
      · exact h.frame rfl rfl rfl (fun m hm => List.mem_append.2 (Or.inl hm))
    | commit tx sh =>
      simp only [Sys.step, Sys.stepR, Sys.walOf, hm, List.foldl_nil, Sys.deliverMsg]
      split
      · exact h
      · exact h.frame rfl rfl rfl (fun m hm => hm)
    | abort tx sh =>
      simp only [Sys.step, Sys.stepR, Sys.walOf, hm, List.foldl_nil, Sys.deliverMsg]
      split
      · exact h
      · exact h.frame rfl rfl rfl (fun m hm => hm)

theorem WInv.sweep {ip : List WalTx} {s : Sys} (h : WInv ip s) (hi : InvR s)
    (hs : s.sparesCommitting (.base .sweep) = true) (hp : s.sparesPrepared (.base .sweep) = true) :
    WInv ip (s.step .sweep) := by
  have hsub : ∀ t' ∈ (s.step .sweep).coord.pending, t' ∈ s.coord.pending := by
    intro t' ht'
    change t' ∈ s.coord.pending.filter (fun t => !t.timedOut s.now) at ht'
    exact (List.mem_filter.1 ht').1
  refine h.sub (fun _ x => x) rfl rfl ?_ ?_ ?_ ?_ ?_
  · intro m hm
    change m ∈ s.msgs ++ _
    exact List.mem_append.2 (Or.inl hm)
  · intro e he hph hd
    rcases decided_fresh hi (.base .sweep) rfl e.id false hd with h1 | ⟨t, ht, hid, f⟩
    · exact h1
    · have := h.fresh_abort_logged_preparing hi hs hp ht f (fun tx hh => by cases hh) e he hid.symm
      rw [hph] at this; cases this
  · intro t' ht' hph
    exact ⟨t', hsub t' ht', hph, rfl, rfl, rfl, fun _ he _ => he⟩
  · intro t' ht' hph
    exact h.memAborting t' (hsub t' ht') hph
  · intro t' ht'
    exact h.memOpen t' (hsub t' ht')

theorem WInv.coordCommit {ip : List WalTx} {s : Sys} (h : WInv ip s) (tx : Nat) :
    WInv ((s.coord.walOfCommit tx).foldl scanStep ip) (s.step (.coordCommit tx)) := by
  cases hc : s.coord.commit tx with
  | error er =>
    cases hf : findTx s.coord.pending tx <;>
      simp only [Sys.step, Sys.stepR, Coordinator.walOfCommit, hf, hc, List.foldl_nil] <;> exact h
  | ok c =>
    obtain ⟨t, hft, hph, rfl⟩ := commit_ok hc
    simp only [Sys.step, Sys.stepR, Coordinator.walOfCommit, hft, hc, List.foldl_append, List.foldl_cons,
      List.foldl_nil, foldl_releasesOf]
    refine h.sub (ip' := scanStep (scanStep ip (.phase tx .committing)) (.complete tx))
      (fun e he => (mem_scan_phase_complete.1 he).1) rfl rfl
      (fun m hm => List.mem_append.2 (Or.inl hm)) ?_ ?_ ?_ ?_
    · intro e he hph hd
      rcases List.mem_append.1 hd with h1 | h1
      · exact h1
      · simp only [List.mem_singleton, Prod.mk.injEq] at h1
        cases h1.2
    · intro t' ht' hph'
      obtain ⟨h1, h2⟩ := mem_removeTx.1 ht'
      exact ⟨t', h1, hph', rfl, rfl, rfl, fun e he hid => mem_scan_phase_complete.2 ⟨he, by omega⟩⟩
    · intro t' ht' hph' e he hid
      exact h.memAborting t' (mem_removeTx.1 ht').1 hph' e (mem_scan_phase_complete.1 he).1 hid
    · intro t' ht'
      exact h.memOpen t' (mem_removeTx.1 ht').1

theorem WInv.coordAbort {ip : List WalTx} {s : Sys} (h : WInv ip s) (tx : Nat) :
    WInv ((s.coord.walOfAbort tx).foldl scanStep ip) (s.step (.coordAbort tx)) := by
  cases hc : s.coord.abort tx with
  | error er =>
    cases hf : findTx s.coord.pending tx <;>
      simp only [Sys.step, Sys.stepR, Coordinator.walOfAbort, hf, hc, List.foldl_nil] <;> exact h
  | ok c =>
    obtain ⟨t, hft, rfl⟩ := abort_ok hc
    simp only [Sys.step, Sys.stepR, Coordinator.walOfAbort, hft, hc, List.foldl_cons, List.foldl_nil]
    refine h.sub (ip' := scanStep (scanStep ip (.phase tx .aborting)) (.complete tx))
      (fun e he => (mem_scan_phase_complete.1 he).1) rfl rfl
      (fun m hm => List.mem_append.2 (Or.inl hm)) ?_ ?_ ?_ ?_
    · intro e he hph hd
      rcases List.mem_append.1 hd with h1 | h1
      · exact h1
      · simp only [List.mem_singleton, Prod.mk.injEq] at h1
        exact absurd h1.1 (mem_scan_phase_complete.1 he).2
    · intro t' ht' hph'
      obtain ⟨h1, h2⟩ := mem_removeTx.1 ht'
      exact ⟨t', h1, hph', rfl, rfl, rfl, fun e he hid => mem_scan_phase_complete.2 ⟨he, by omega⟩⟩
    · intro t' ht' hph' e he hid
      exact h.memAborting t' (mem_removeTx.1 ht').1 hph' e (mem_scan_phase_complete.1 he).1 hid
    · intro t' ht'
      exact h.memOpen t' (mem_removeTx.1 ht').1

theorem WInv.stepBase {ip : List WalTx} {s : Sys} (h : WInv ip s) (hi : InvR s) (e : Ev)
    (ha : s.inAlphabet e = true) (hs : s.sparesCommitting (.base e) = true)
    (hp : s.sparesPrepared (.base e) = true) : WInv ((s.walOf e).foldl scanStep ip) (s.step e) := by
  cases e with
  | «begin» shards ops sim => exact h.begin hi shards ops sim
  | deliver i => exact h.deliver hi i
  | sweep => exact h.sweep hi hs hp
  | tick d => exact h.frame rfl rfl rfl (fun m hm => hm)
  | coordCommit tx => exact h.coordCommit tx
  | coordAbort tx => exact h.coordAbort tx
  | forge tx sh v => exact h.frame rfl rfl rfl (fun m hm => List.mem_append.2 (Or.inl hm))
  | cleanupStale sh t => simp [Sys.inAlphabet] at ha
  | recover sh t => simp [Sys.inAlphabet] at ha

theorem WInv.coordRecover {ip : List WalTx} {s : Sys} (h : WInv ip s) (hi : InvR s)
    (hp : s.sparesPrepared .coordRecover = true) : WInv ip (s.stepX .coordRecover) := by
  have hmem : ∀ t', t' ∈ (s.stepX .coordRecover).coord.pending →
      ∃ t ∈ s.coord.pending, t' = t.recovered s.now ∧ (t.recoverPhase s.now).isFinal = false :=
    fun t' ht' => mem_recover_pending_iff.1 ht'
  refine h.sub (fun _ x => x) rfl rfl ?_ ?_ ?_ ?_ ?_
  · intro m hm
    change m ∈ s.msgs ++ _
    exact List.mem_append.2 (Or.inl hm)
  · intro e he hph hd
    rcases decided_fresh hi .coordRecover rfl e.id false hd with h1 | ⟨t, ht, hid, f⟩
    · exact h1
    · have := h.fresh_abort_logged_preparing hi rfl hp ht f (fun tx hh => by cases hh) e he hid.symm
      rw [hph] at this; cases this
  · intro t' ht' hph
    obtain ⟨t, ht, rfl, _⟩ := hmem t' ht'
    rw [recovered_phase] at hph
    exact ⟨t, ht, recoverPhase_eq_preparing hph, rfl, rfl, rfl, fun _ he _ => he⟩
  · intro t' ht' hph e he hid
    obtain ⟨t, ht, rfl, _⟩ := hmem t' ht'
    rw [recovered_phase] at hph
    exact h.fresh_abort_logged_preparing hi rfl hp ht (Fresh.recoverAbort t hph) (fun tx hh => by cases hh) e he hid
  · intro t' ht'
    obtain ⟨t, ht, rfl, hf⟩ := hmem t' ht'
    rw [recovered_phase]; exact hf

theorem WInv.stepX {ip : List WalTx} {s : Sys} (h : WInv ip s) (hi : InvR s) (e : EvR)
    (ha : s.inAlphabetR e = true) (hs : s.sparesCommitting e = true) (hp : s.sparesPrepared e = true) :
    WInv ((s.walOfR e).foldl scanStep ip) (s.stepX e) := by
  cases e with
  | base e => exact h.stepBase hi e ha hs hp
  | coordRecover => exact h.coordRecover hi hp
  | completeCommit tx =>
    simp only [Sys.stepX, Sys.walOfR, List.foldl_nil]
    split
    · rename_i c hc
      obtain ⟨_, _, _, rfl⟩ := completeCommit_ok hc
      exact h.shrink _ (fun t ht => (mem_removeTx.1 ht).1)
    · exact h
  | completeAbort tx =>
    simp only [Sys.stepX, Sys.walOfR, List.foldl_nil]
    split
    · rename_i c hc
      obtain ⟨_, _, _, rfl⟩ := completeAbort_ok hc
      exact h.shrink _ (fun t ht => (mem_removeTx.1 ht).1)
    · exact h
  | forceResolve tx b => simp [Sys.inAlphabetR] at ha

/-! ### the WAL restart -/

theorem mem_resendDecisions_of {c : Coordinator} {t : DTx} (ht : t ∈ c.pending) (hp : t.phase = .committing) :
    (t.id, true) ∈ c.resendDecisions := by
  simp only [Coordinator.resendDecisions, List.mem_filterMap]
  refine ⟨(t.id, t.phase), mem_pendingDecisions_of ht (Or.inl hp), ?_⟩
  rw [hp]; rfl

/-- a restored `Prepared` entry whose logged votes are all YES is not timed out at the restart and is
    moved to `Committing` by `recover()` -/
theorem restoreAs_prepared_recoverPhase {e : WalTx} {now : Nat}
    (hy : (e.votes.all (fun x => x.2.isYes)) = true) :
    (e.restoreAs .prepared now).recoverPhase now = .committing := by
  have hto : (e.restoreAs .prepared now).timedOut now = false := by
    simp [DTx.timedOut, WalTx.restoreAs, walRestoredTimeout]
  have hay : (e.restoreAs .prepared now).allYes = true := by
    simp only [DTx.allYes, WalTx.restoreAs]
    rw [all_snd_map WalVote.restore Vote.isYes]
    simp only [WalVote.restore_isYes]
    exact hy
  rw [recoverPhase_prepared' rfl, hto, hay]
  rfl

/-- the pending map after a WAL restart: the logged-`Prepared` entries, `Committing` -/
theorem WInv.mem_walRestart_pending {wal : List WalEntry} {s : Sys} (h : WInv (scanLog wal) s) {t' : DTx}
    (ht' : t' ∈ (s.walRestart wal).coord.pending) :
    ∃ e ∈ scanLog wal, e.phase = .prepared ∧ t' = e.restoreAs .committing s.now := by
  obtain ⟨t, ht, rfl⟩ := mem_recover_pending ht'
  obtain ⟨e, he, hph, rfl⟩ := mem_restored.1 ht
  have hp : e.phase = .prepared := by
    rcases h.phases e he with h1 | h1
    · rw [h1] at hph; rcases hph with h2 | h2 | h2 <;> cases h2
    · exact h1
  refine ⟨e, he, hp, ?_⟩
  rw [hp]
  show ({ e.restoreAs .prepared s.now with phase := (e.restoreAs .prepared s.now).recoverPhase s.now } : DTx) = _
  rw [restoreAs_prepared_recoverPhase (h.prepVotes e he hp).2]
  rfl

theorem walRestart_decided {wal : List WalEntry} {s : Sys} (h : WInv (scanLog wal) s) {tx : Nat} {b : Bool}
    (hd : (tx, b) ∈ (s.walRestart wal).decided) :
    (tx, b) ∈ s.decided ∨ (b = true ∧ ∃ e ∈ scanLog wal, e.phase = .prepared ∧ e.id = tx) := by
  change (tx, b) ∈ s.decided ++ _ at hd
  rcases List.mem_append.1 hd with h1 | h1
  · exact Or.inl h1
  · obtain ⟨t', ht', hid, hph⟩ := mem_resendDecisions h1
    obtain ⟨e, he, hp, rfl⟩ := h.mem_walRestart_pending ht'
    cases b with
    | true => exact Or.inr ⟨rfl, e, he, hp, hid⟩
    | false => cases hph

theorem walRestart_msgs_mono {wal : List WalEntry} {s : Sys} {m : Msg} (hm : m ∈ s.msgs) :
    m ∈ (s.walRestart wal).msgs := by
  change m ∈ s.msgs ++ _
  exact List.mem_append.2 (Or.inl hm)

theorem walRestart_decided_mono {wal : List WalEntry} {s : Sys} {x : Nat × Bool} (hx : x ∈ s.decided) :
    x ∈ (s.walRestart wal).decided := by
  change x ∈ s.decided ++ _
  exact List.mem_append.2 (Or.inl hx)

theorem InvR.walRestart {wal : List WalEntry} {s : Sys} (h : InvR s) (hw : WInv (scanLog wal) s) :
    InvR (s.walRestart wal) := by
  have hmem : ∀ t', t' ∈ (s.walRestart wal).coord.pending →
      ∃ e ∈ scanLog wal, e.phase = .prepared ∧ t' = e.restoreAs .committing s.now :=
    fun t' ht' => hw.mem_walRestart_pending ht'
  have hnew : ∀ t', t' ∈ (s.walRestart wal).coord.pending → (t'.id, true) ∈ (s.walRestart wal).decided := by
    intro t' ht'
    obtain ⟨e, he, hp, rfl⟩ := hmem t' ht'
    change _ ∈ s.decided ++ _
    exact List.mem_append.2 (Or.inr (mem_resendDecisions_of ht' rfl))
  constructor
  · intro tx sh hm
    change _ ∈ s.msgs ++ _ at hm
    rcases List.mem_append.1 hm with h1 | h1
    · exact walRestart_decided_mono (h.commitMsg tx sh h1)
    · rcases mem_resendMsgs h1 with ⟨tx', sh', he, hd⟩ | ⟨tx', sh', he, _⟩
      · cases he
        change _ ∈ s.decided ++ _
        exact List.mem_append.2 (Or.inr hd)
      · cases he
  · intro tx sh hm
    change _ ∈ s.msgs ++ _ at hm
    rcases List.mem_append.1 hm with h1 | h1
    · exact walRestart_decided_mono (h.abortMsg tx sh h1)
    · rcases mem_resendMsgs h1 with ⟨tx', sh', he, _⟩ | ⟨tx', sh', he, hd⟩
      · cases he
      · cases he
        change _ ∈ s.decided ++ _
        exact List.mem_append.2 (Or.inr hd)
  · intro tx hd t' ht' hid
    obtain ⟨e, he, hp, rfl⟩ := hmem t' ht'
    rcases walRestart_decided hw hd with h1 | ⟨h1, _⟩
    · exact absurd (by rw [← hid] at h1; exact h1) (hw.prepNoAbort e he hp)
    · cases h1
  · intro tx hd t' ht' hid
    obtain ⟨e, he, hp, rfl⟩ := hmem t' ht'
    rfl
  · intro t' ht'
    obtain ⟨e, he, hp, rfl⟩ := hmem t' ht'
    exact hw.idLt e he
  · intro a ha b hb hid
    obtain ⟨e, he, hp, rfl⟩ := hmem a ha
    obtain ⟨e', he', hp', rfl⟩ := hmem b hb
    rw [hw.idUniq e he e' he' hid]
  · intro tx b hd
    rcases walRestart_decided hw hd with h1 | ⟨_, e, he, _, hid⟩
    · exact h.decLt tx b h1
    · rw [← hid]; exact hw.idLt e he
  · rfl
  · intro t' ht' e he
    exact Or.inr (hnew t' ht')
  · intro t' ht' _
    obtain ⟨e, he, hp, rfl⟩ := hmem t' ht'
    obtain ⟨hv, hy⟩ := hw.prepVotes e he hp
    constructor
    · simp only [DTx.allVoted, DTx.hasVote, WalTx.restoreAs]
      simp only [any_fst_map]
      exact hv
    · simp only [DTx.allYes, WalTx.restoreAs]
      rw [all_snd_map WalVote.restore Vote.isYes]
      simp only [WalVote.restore_isYes]
      exact hy
  · exact h.specLt
  · intro t' ht' sp hsp hid
    obtain ⟨e, he, hp, rfl⟩ := hmem t' ht'
    exact hw.prepPart e he hp sp hsp hid
  · intro tx hd sp hsp hid sh hsh
    rcases walRestart_decided hw hd with h1 | ⟨_, e, he, hp, hid'⟩
    · obtain ⟨hh, ks, hv⟩ := h.commitYes tx h1 sp hsp hid sh hsh
      exact ⟨hh, ks, walRestart_msgs_mono hv⟩
    · obtain ⟨hh, ks, hv⟩ := hw.prepYes e he hp sp hsp (by omega) sh hsh
      rw [hid'] at hv
      exact ⟨hh, ks, walRestart_msgs_mono hv⟩
  · intro sh tx hx
    exact walRestart_decided_mono (h.applied sh tx hx)
  · intro sh tx hx
    exact walRestart_decided_mono (h.discarded sh tx hx)

theorem excl_walRestart {wal : List WalEntry} {s : Sys} (hw : WInv (scanLog wal) s)
    (hx : ∀ tx, (tx, true) ∈ s.decided → (tx, false) ∉ s.decided) :
    ∀ tx, (tx, true) ∈ (s.walRestart wal).decided → (tx, false) ∉ (s.walRestart wal).decided := by
  intro tx h1 h2
  rcases walRestart_decided hw h2 with o2 | ⟨o2, _⟩
  · rcases walRestart_decided hw h1 with o1 | ⟨_, e, he, hp, hid⟩
    · exact hx tx o1 o2
    · rw [← hid] at o2
      exact hw.prepNoAbort e he hp o2
  · cases o2

theorem WInv.walRestart {wal : List WalEntry} {s : Sys} (hw : WInv (scanLog wal) s) :
    WInv (scanLog wal) (s.walRestart wal) := by
  have hmem : ∀ t', t' ∈ (s.walRestart wal).coord.pending →
      ∃ e ∈ scanLog wal, e.phase = .prepared ∧ t' = e.restoreAs .committing s.now :=
    fun t' ht' => hw.mem_walRestart_pending ht'
  refine hw.sub (fun _ x => x) rfl rfl (fun m hm => walRestart_msgs_mono hm) ?_ ?_ ?_ ?_
  · intro e he hp hd
    rcases walRestart_decided hw hd with h1 | ⟨h1, _⟩
    · exact h1
    · cases h1
  · intro t' ht' hph
    obtain ⟨e, he, hp, rfl⟩ := hmem t' ht'
    cases hph
  · intro t' ht' hph
    obtain ⟨e, he, hp, rfl⟩ := hmem t' ht'
    cases hph
  · intro t' ht'
    obtain ⟨e, he, hp, rfl⟩ := hmem t' ht'
    rfl

/-! ### the invariant of `ReachW` -/

structure InvW (w : SysW) : Prop where
  inv : InvR w.k.sys
  excl : ∀ tx, (tx, true) ∈ w.k.sys.decided → (tx, false) ∉ w.k.sys.decided
  wal : WInv (scanLog w.wal) w.k.sys

theorem InvW.init (stores : List Store) (a b c : Nat) : InvW (SysW.init stores a b c) :=
  ⟨InvR.init stores a b c, by simp [SysW.init, SysK.init, Sys.init], WInv.init stores a b c⟩

theorem InvW.step {w : SysW} (h : InvW w) (e : EvW) (ha : w.inAlphabetW e = true) : InvW (w.stepW e) := by
  cases e with
  | walRestart =>
    exact ⟨h.inv.walRestart h.wal, excl_walRestart h.wal h.excl, h.wal.walRestart⟩
  | k e =>
    cases e with
    | ev e =>
      simp only [SysW.inAlphabetW, SysK.inAlphabetK, Bool.and_eq_true] at ha
      obtain ⟨⟨ha1, ha2⟩, ha3⟩ := ha
      refine ⟨h.inv.stepX e ha1, excl_stepX h.inv h.excl e ha1 ha2, ?_⟩
      show WInv (scanLog (w.wal ++ w.k.sys.walOfR e)) (w.k.sys.stepX e)
      rw [scanLog_append]
      exact h.wal.stepX h.inv e ha1 ha2 ha3
    | checkpoint =>
      refine ⟨h.inv, h.excl, ?_⟩
      show WInv (scanLog (w.wal ++ [])) w.k.sys
      rw [List.append_nil]; exact h.wal
    | restore =>
      have hs : (w.k.stepK .restore).sys = w.k.sys := stepK_restore_current ha h.inv.paEmpty
      have hw : (w.stepW (.k .restore)).wal = w.wal := List.append_nil _
      have hk : (w.stepW (.k .restore)).k.sys = w.k.sys := hs
      refine ⟨?_, ?_, ?_⟩
      · rw [hk]; exact h.inv
      · rw [hk]; exact h.excl
      · rw [hk, hw]; exact h.wal

theorem InvW.reach {stores : List Store} {a b c : Nat} {w : SysW}
    (hr : ReachW (SysW.init stores a b c) w) : InvW w := by
  induction hr with
  | refl => exact InvW.init stores a b c
  | step e _ ha ih => exact ih.step e ha

theorem ReachW.trans {w0 w w' : SysW} (h1 : ReachW w0 w) (h2 : ReachW w w') : ReachW w0 w' := by
  induction h2 with
  | refl => exact h1
  | step e _ ha ih => exact ReachW.step e ih ha

theorem reachW_run {w0 w : SysW} (hr : ReachW w0 w) (es : List EvW) (h : w.allInW es = true) :
    ReachW w0 (w.runW es) := by
  induction es generalizing w with
  | nil => exact hr
  | cons e es ih =>
    simp only [SysW.allInW, Bool.and_eq_true] at h
    exact ih (ReachW.step e hr h.1) h.2

theorem decided_monoW (w : SysW) (e : EvW) (x : Nat × Bool) (hx : x ∈ w.k.sys.decided) :
    x ∈ (w.stepW e).k.sys.decided := by
  cases e with
  | walRestart => exact walRestart_decided_mono hx
  | k e =>
    cases e with
    | ev e => exact decided_monoX _ e x hx
    | checkpoint => exact hx
    | restore => exact hx

theorem decided_mono_reachW {w w' : SysW} (h : ReachW w w') (x : Nat × Bool) (hx : x ∈ w.k.sys.decided) :
    x ∈ w'.k.sys.decided := by
  induction h with
  | refl => exact hx
  | step e _ _ ih => exact decided_monoW _ e x ih


end Neumann.TwoPC
