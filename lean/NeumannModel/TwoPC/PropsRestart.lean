import NeumannModel.TwoPC.LemmasRestart
/-
  C03 — "the coordinator decides at most once … and the decision never changes afterwards", with
  "coordinator timeouts firing at any point", across COORDINATOR RESTARTS: `recover()` run any number
  of times at any clock value — before or after a transaction's deadline —, checkpoint / restore
  cycles of the coordinator state (`to_state` / `save_to_store` → `load_from_store`) at any point, and
  the clock advancing by any amount between any two events (model: `Restart.lean`; `recover`,
  `get_pending_decisions`, `complete_commit`, `complete_abort`: `Recovery.lean`).  ONLY theorems and
  their non-vacuity examples; helpers are in `LemmasRestart.lean` / `LemmasRecovery.lean`.

  The theorems are stated (1) about `recover()` itself, for EVERY coordinator state and EVERY clock
  value — in particular for an entry in each of the six phases, timed out or not —, and (2) about every
  state reachable from an arbitrary initial configuration through ANY finite sequence of events of
  `ReachK`: every event of C03's alphabet (deliveries in any order / multiplicity, timeout sweeps,
  clock ticks, commit() / abort() calls, forged votes, new transactions), `recover()` followed by the
  re-send of every pending decision, `complete_commit` / `complete_abort`, `save_to_store`, and crash +
  `load_from_store` of a current checkpoint — each at any point, any number of times; the one
  restriction inherited from `ReachRS` is that no timeout sweep / `abort()` call runs over a
  `Committing` entry (`cleanup_timeouts` and `abort` have no phase test: `PropsRecovery.lean`).
  A `…_witness` theorem shows what the variant of `recover()` that tests the deadline in front of the
  `match` does on the same events, another that the "current checkpoint" condition is necessary.
-/
namespace Neumann.TwoPC.PropsRestart
open Neumann.TwoPC

/-! ### `recover()` on one pending entry, in every phase, before and after its deadline -/

/-- What `recover()` does to ONE pending entry, for every entry `t` and every clock value `now`, by
    phase × deadline: a `Preparing` entry is aborted exactly when it is timed out; a `Prepared` entry
    is aborted when timed out, else committed on all YES, aborted on any NO; a `Committing`, `Aborting`,
    `Committed` or `Aborted` entry keeps its phase WHETHER OR NOT its deadline has passed. -/
theorem recover_outcome_by_phase_and_deadline (t : DTx) (now : Nat) :
    (t.phase = .preparing →
      (t.recovered now).phase = if t.timedOut now then .aborting else .preparing) ∧
    (t.phase = .prepared →
      (t.recovered now).phase =
        if t.timedOut now then .aborting else if t.allYes then .committing
        else if t.anyNo then .aborting else .prepared) ∧
    (t.phase = .committing → (t.recovered now).phase = .committing) ∧
    (t.phase = .aborting → (t.recovered now).phase = .aborting) ∧
    (t.phase = .committed → (t.recovered now).phase = .committed) ∧
    (t.phase = .aborted → (t.recovered now).phase = .aborted) :=
  ⟨recoverPhase_preparing', recoverPhase_prepared', recoverPhase_of_committing, recoverPhase_of_aborting,
   recoverPhase_of_committed, recoverPhase_of_aborted⟩

-- each arm is reached: a timed-out and a live entry in each open phase, a timed-out decided entry
example : (DTx.recovered ⟨0, [0, 1], .preparing, [], 0, 2⟩ 3).phase = .aborting ∧
    (DTx.recovered ⟨0, [0, 1], .preparing, [], 0, 2⟩ 2).phase = .preparing := by decide
example : (DTx.recovered ⟨0, [0, 1], .prepared, [(0, .yes 0 [1]), (1, .yes 1 [3])], 0, 2⟩ 3).phase = .aborting ∧
    (DTx.recovered ⟨0, [0, 1], .prepared, [(0, .yes 0 [1]), (1, .yes 1 [3])], 0, 2⟩ 2).phase = .committing ∧
    (DTx.recovered ⟨0, [0, 1], .prepared, [(0, .yes 0 [1]), (1, .no)], 0, 2⟩ 2).phase = .aborting := by decide
example : (DTx.recovered ⟨0, [0, 1], .committing, [(0, .yes 0 [1]), (1, .yes 1 [3])], 0, 2⟩ 1000).phase = .committing ∧
    (DTx.timedOut ⟨0, [0, 1], .committing, [(0, .yes 0 [1]), (1, .yes 1 [3])], 0, 2⟩ 1000) = true := by decide

/-- `recover()` moves an entry only out of a phase in which the outcome is still open: whatever the
    clock says, an entry whose phase differs after `recover()` was `Preparing` or `Prepared`. -/
theorem recover_moves_only_undecided_entries (t : DTx) (now : Nat)
    (h : (t.recovered now).phase ≠ t.phase) : t.phase = .preparing ∨ t.phase = .prepared :=
  recoverPhase_ne h

example : (DTx.recovered ⟨0, [0, 1], .preparing, [], 0, 2⟩ 3).phase ≠ Phase.preparing := by decide

/-! ### `recover()` on the pending map -/

/-- Which entries `recover()` keeps: exactly the recovered images of the entries it does not find
    `Committed` / `Aborted` (ids, participants, votes, `started_at`, `timeout_ms` unchanged — so the
    deadline of a transaction is the same after every restart). -/
theorem recover_keeps_exactly_the_unfinished_entries (c : Coordinator) (now : Nat) (t' : DTx) :
    t' ∈ (c.recover now).1.pending ↔
      ∃ t ∈ c.pending, t' = t.recovered now ∧ (t.recoverPhase now).isFinal = false :=
  mem_recover_pending_iff

/-- For EVERY coordinator state and EVERY clock value: each entry `get_pending_decisions` lists before
    `recover()` — (tx, Committing) or (tx, Aborting) — is listed, unchanged, after it.  A decision
    that was announced is neither flipped nor dropped by recovery, however late recovery runs. -/
theorem recover_keeps_every_pending_decision (c : Coordinator) (now : Nat) (d : Nat × Phase)
    (h : d ∈ c.pendingDecisions) : d ∈ (c.recover now).1.pendingDecisions :=
  recover_keeps_pendingDecision h

/-- … and so after any number of `recover()` calls at any clock values (any restart delays). -/
theorem repeated_recover_keeps_every_pending_decision (c : Coordinator) (nows : List Nat) (d : Nat × Phase)
    (h : d ∈ c.pendingDecisions) : d ∈ (c.recoverAll nows).pendingDecisions :=
  recoverAll_keeps_pendingDecision nows h

/-- `recover()` is idempotent: a second call at the same clock value changes nothing. -/
theorem recover_is_idempotent (c : Coordinator) (now : Nat) :
    ((c.recover now).1.recover now).1 = (c.recover now).1 :=
  recover_recover c now

-- non-vacuity: a Committing entry far past its deadline beside a timed-out Preparing one
def demoCoord : Coordinator :=
  ⟨[⟨0, [0, 1], .committing, [(0, .yes 0 [1]), (1, .yes 1 [3])], 0, 2⟩, ⟨1, [0, 1], .preparing, [(0, .yes 2 [1])], 1, 2⟩],
   [], 100, 2, 2⟩

example : demoCoord.pendingDecisions = [(0, .committing)] := by decide
example : (demoCoord.recover 50).1.pendingDecisions = [(0, .committing), (1, .aborting)] := by decide
example : (demoCoord.recoverAll [3, 50, 50, 1000]).pendingDecisions = [(0, .committing), (1, .aborting)] := by decide
example : (demoCoord.recover 50).2 = ⟨0, 1, 0, 1, 0⟩ := by decide

/-! ### checkpoint / restore -/

/-- A checkpoint / restore cycle (`to_state` → `with_state`) reproduces the pending map exactly: every
    transaction with its phase, votes, `started_at` and `timeout_ms`; only the (drained) abort queue is
    fresh.  In particular `get_pending_decisions` answers the same before the crash and after the
    restart, whatever time has passed. -/
theorem checkpoint_restore_keeps_pending (c : Coordinator) :
    (c.withState c.toState).pending = c.pending ∧
    (c.withState c.toState).pendingDecisions = c.pendingDecisions ∧
    (c.pendingAborts = [] → c.withState c.toState = c) :=
  ⟨rfl, rfl, withState_toState⟩

/-! ### the system: decisions across recoveries, restarts and the clock -/

/-- (the property, over restarts) Along every run of `ReachK` — any interleaving of C03's events with
    `recover()` + re-send, `complete_commit` / `complete_abort`, checkpoints, crash + restore of a current
    checkpoint, and clock ticks of any size, each at any point and any number of times — a transaction
    gets at most ONE decision and the decision NEVER CHANGES: once (tx, b) is decided, it stays
    decided and the opposite decision is never taken, also by a `recover()` that runs after the
    transaction's deadline. -/
theorem decision_survives_recoveries_and_restarts (stores : List Store) (tt mc lt : Nat) {k k' : SysK}
    (hr : ReachK (SysK.init stores tt mc lt) k) (hr' : ReachK k k') (tx : Nat) (b : Bool)
    (hd : (tx, b) ∈ k.sys.decided) : (tx, b) ∈ k'.sys.decided ∧ (tx, !b) ∉ k'.sys.decided := by
  have hinv := InvRS.reachK (hr.trans hr')
  have hd' := decided_mono_reachK hr' _ hd
  refine ⟨hd', ?_⟩
  cases b with
  | true => exact hinv.excl tx hd'
  | false => exact fun h => hinv.excl tx h hd'

/-- What the restarted coordinator reports agrees with what was decided: in every state reachable
    through `ReachK`, a pending transaction with a commit decision is listed by `get_pending_decisions`
    as `Committing` — never as `Aborting`, so `complete_abort` is refused for it — and one with an abort
    decision as `Aborting`; and `recover()` at ANY clock value leaves both as they are. -/
theorem pending_decision_agrees_with_decision_after_any_restart (stores : List Store) (tt mc lt : Nat)
    {k : SysK} (hr : ReachK (SysK.init stores tt mc lt) k) (t : DTx) (ht : t ∈ k.sys.coord.pending) (now : Nat) :
    ((t.id, true) ∈ k.sys.decided →
      t.phase = .committing ∧ (t.recovered now).phase = .committing ∧
      (t.id, Phase.committing) ∈ (k.sys.coord.recover now).1.pendingDecisions ∧
      (t.id, Phase.aborting) ∉ (k.sys.coord.recover now).1.pendingDecisions) ∧
    ((t.id, false) ∈ k.sys.decided →
      t.phase = .aborting ∧ (t.recovered now).phase = .aborting ∧
      (t.id, Phase.aborting) ∈ (k.sys.coord.recover now).1.pendingDecisions ∧
      (t.id, Phase.committing) ∉ (k.sys.coord.recover now).1.pendingDecisions) := by
  have hinv := (InvRS.reachK hr).inv
  have huniq : ∀ ph, (t.id, ph) ∈ (k.sys.coord.recover now).1.pendingDecisions → ph = t.recoverPhase now := by
    intro ph hm
    obtain ⟨t', ht', hid, hph, _⟩ := mem_pendingDecisions hm
    obtain ⟨t0, ht0, rfl⟩ := mem_recover_pending ht'
    have : t0 = t := hinv.pendUniq t0 ht0 t ht (by rw [recovered_id] at hid; exact hid)
    subst this
    rw [← hph, recovered_phase]
  constructor
  · intro hd
    have hp := hinv.decCommit t.id hd t ht rfl
    have hm : (t.id, t.phase) ∈ k.sys.coord.pendingDecisions := mem_pendingDecisions_of ht (Or.inl hp)
    rw [hp] at hm
    refine ⟨hp, recoverPhase_of_committing hp, recover_keeps_pendingDecision hm, ?_⟩
    intro hx
    have := huniq _ hx
    rw [recoverPhase_of_committing hp] at this
    cases this
  · intro hd
    have hp := hinv.decAbort t.id hd t ht rfl
    have hm : (t.id, t.phase) ∈ k.sys.coord.pendingDecisions := mem_pendingDecisions_of ht (Or.inr hp)
    rw [hp] at hm
    refine ⟨hp, recoverPhase_of_aborting hp, recover_keeps_pendingDecision hm, ?_⟩
    intro hx
    have := huniq _ hx
    rw [recoverPhase_of_aborting hp] at this
    cases this

/-- Atomicity across shards along `ReachK`: if one participant applied a transaction's writes, no
    participant that voted YES discards them — whichever of the coordinator's incarnations told them. -/
theorem applied_implies_no_yes_voter_discards_across_restarts (stores : List Store) (tt mc lt : Nat)
    {k : SysK} (hr : ReachK (SysK.init stores tt mc lt) k) (sh1 sh2 tx : Nat)
    (ha : (sh1, tx) ∈ k.sys.applied) : (sh2, tx) ∉ k.sys.discarded := by
  have hinv := InvRS.reachK hr
  exact fun hd => hinv.excl tx (hinv.inv.applied sh1 tx ha) (hinv.inv.discarded sh2 tx hd)

/-! ### non-vacuity: the history the theorems are about.  tx 0 over shards 0, 1: both vote YES
    (`Prepared`), checkpoint, crash; restart in time: `recover()` decides commit (`Committing`), COMMIT
    is sent, shard 0 applies, checkpoint, crash before shard 1 hears of it; the second restart happens
    long after the deadline (tick 50, timeout 2): `recover()` must still say `Committing`; shard 1
    applies; `complete_commit`; a third restart finds nothing pending.  Beside it tx 1 (one vote in
    when the clock passes its deadline) is aborted by the same late `recover()` and stays aborted. -/

def demoInit : SysK := SysK.init [[(1, 5)], []] 2 100 1000

def demoRun : List EvK :=
  [ .ev (.base (.begin [0, 1] [(0, [.put 1 7]), (1, [.put 3 9])] [])),   -- msgs 0, 1 = PREPARE(0)
    .ev (.base (.deliver 0)), .ev (.base (.deliver 1)),                   -- 2, 3 = the YES votes
    .ev (.base (.deliver 2)), .ev (.base (.deliver 3)),                   -- tx 0 is Prepared
    .checkpoint, .restore, .ev .coordRecover,                              -- in time: Committing; 4, 5 = COMMIT(0)
    .ev (.base (.deliver 4)),                                              -- shard 0 applies
    .ev (.base (.begin [0, 1] [(0, [.put 2 8]), (1, [.put 4 1])] [])),   -- 6, 7 = PREPARE(1)
    .ev (.base (.deliver 6)), .ev (.base (.deliver 8)),                   -- 8 = shard 0's YES for tx 1, recorded
    .checkpoint, .ev (.base (.tick 50)), .restore,                         -- the restart takes 50 units
    .ev .coordRecover,                                                     -- 9, 10 = COMMIT(0) again; 11, 12 = ABORT(1)
    .ev (.base (.deliver 10)), .ev (.completeAbort 0), .ev (.completeCommit 0),
    .ev (.base (.deliver 11)), .ev (.base (.deliver 12)), .ev (.completeAbort 1),
    .checkpoint, .restore, .ev .coordRecover ]

example : ReachK demoInit (demoInit.runK demoRun) := reachK_run .refl _ (by decide)
example : (demoInit.runK demoRun).sys.decided = [(0, true), (0, true), (1, false)] := by decide
example : (demoInit.runK demoRun).sys.applied = [(0, 0), (1, 0)] := by decide
example : (demoInit.runK demoRun).sys.discarded = [(0, 1)] := by decide
example : (demoInit.runK demoRun).sys.coord.pending.length = 0 := by decide
-- the late restart: tx 0 is Committing and timed out when `recover()` runs, and stays Committing
example : ((demoInit.runK (demoRun.take 15)).sys.coord.pending.map
    (fun t => (t.id, t.phase, t.timedOut (demoInit.runK (demoRun.take 15)).sys.now))) =
    [(0, .committing, true), (1, .preparing, true)] := by decide
example : (demoInit.runK (demoRun.take 16)).sys.coord.pendingDecisions = [(0, .committing), (1, .aborting)] := by decide
example : ((demoInit.runK (demoRun.take 15)).sys.coord.recover 50).2 = ⟨0, 1, 0, 1, 0⟩ := by decide

/-! ### the variant that tests the deadline in front of the `match`; stale checkpoints -/

/-- On its own the hoisted deadline test differs from the code exactly on `Committing`: an entry in
    that phase past its deadline is moved to `Aborting` (counted `timed_out`), while `recover()` as it is
    keeps it (`recover_outcome_by_phase_and_deadline`). -/
theorem recover_arm_hoisted_timeout_aborts_committing_witness :
    ∃ (t : DTx) (now : Nat), t.phase = Phase.committing ∧ t.timedOut now = true ∧
      t.recoverArmHoistedTimeout now = (Phase.aborting, RecClass.timedOut) ∧
      t.recoverArm now = (Phase.committing, RecClass.pendingCommit) :=
  ⟨⟨0, [0, 1], .committing, [(0, .yes 0 [1]), (1, .yes 1 [3])], 0, 2⟩, 3, by decide, by decide, by decide, by decide⟩

/-- The variant breaks the property on a run of `ReachK`'s alphabet: both shards vote YES, restart in
    time (`Committing`, COMMIT sent, shard 0 applies), checkpoint, the clock passes the deadline, restore,
    `recover()`: the variant reports (0, Aborting), ABORT is sent, shard 1 — which voted YES — rolls
    back: two decisions for tx 0 and the shards split.  The SAME events on the code as it is end with
    one decision, both shards applied (and are a run of `ReachK`). -/
theorem recover_after_deadline_flips_commit_decision_hoistedTimeout_witness :
    ∃ es : List EvK,
      let k0 := SysK.init [[], []] 2 100 1000
      k0.allInKHoistedTimeout es = true ∧
      (0, true) ∈ (k0.runKHoistedTimeout es).sys.decided ∧ (0, false) ∈ (k0.runKHoistedTimeout es).sys.decided ∧
      (0, 0) ∈ (k0.runKHoistedTimeout es).sys.applied ∧ (1, 0) ∈ (k0.runKHoistedTimeout es).sys.discarded ∧
      k0.allInK es = true ∧ (k0.runK es).sys.decided = [(0, true), (0, true)] ∧
      (k0.runK es).sys.applied = [(0, 0), (1, 0)] ∧ (k0.runK es).sys.discarded = [] :=
  ⟨[ .ev (.base (.begin [0, 1] [(0, [.put 1 7]), (1, [.put 3 9])] [])),
     .ev (.base (.deliver 0)), .ev (.base (.deliver 1)), .ev (.base (.deliver 2)), .ev (.base (.deliver 3)),
     .checkpoint, .restore, .ev .coordRecover, .ev (.base (.deliver 4)),
     .checkpoint, .ev (.base (.tick 3)), .restore, .ev .coordRecover, .ev (.base (.deliver 7)) ],
   by decide, by decide, by decide, by decide, by decide, by decide, by decide, by decide, by decide⟩

/-- The "current checkpoint" condition of `ReachK` is necessary, on the code as it is: a checkpoint
    taken while tx 0 is `Prepared`; `commit()` (decision commit, shard 0 applies); crash; the STALE
    checkpoint is restored and the restart is late: `recover()` finds a timed-out `Prepared` entry and
    aborts it; shard 1 rolls back.  State-based recovery forgets what was decided after the checkpoint
    (the WAL, C13, is what covers that window); outside C03's quantifier. -/
theorem stale_checkpoint_restore_changes_decision_outside_quantifier_witness :
    ∃ k, ReachKStale (SysK.init [[], []] 2 100 1000) k ∧ (0, true) ∈ k.sys.decided ∧ (0, false) ∈ k.sys.decided ∧
      (0, 0) ∈ k.sys.applied ∧ (1, 0) ∈ k.sys.discarded :=
  ⟨(SysK.init [[], []] 2 100 1000).runK
      [ .ev (.base (.begin [0, 1] [(0, [.put 1 7]), (1, [.put 3 9])] [])),
        .ev (.base (.deliver 0)), .ev (.base (.deliver 1)), .ev (.base (.deliver 2)), .ev (.base (.deliver 3)),
        .checkpoint, .ev (.base (.coordCommit 0)), .ev (.base (.deliver 4)),
        .ev (.base (.tick 3)), .restore, .ev .coordRecover, .ev (.base (.deliver 7)) ],
   reachKStale_run .refl _ (by decide), by decide, by decide, by decide, by decide⟩

end Neumann.TwoPC.PropsRestart
