import NeumannModel.TwoPC.LemmasWal
/-
  C03 — "the coordinator decides at most once … and the decision never changes afterwards", with
  "coordinator timeouts firing at any point", across WAL RESTARTS: crash of the coordinator process and
  a new process on the same write-ahead log — `recover_from_wal()`, then `recover()`, then the re-send of
  every pending decision — at any point, any number of times (model: `Wal.lean`; what each coordinator
  call appends, what `TxRecoveryState::from_entries` reads back, what `recover_from_wal` restores).  ONLY
  theorems and their non-vacuity examples; helpers are in `LemmasWal.lean`.

  The theorems are stated (1) about the replay itself, for EVERY log (any list of records, also ones no
  coordinator would write) — only a transaction with a logged `PhaseChange` is restored, in the phase of
  its last `PhaseChange`, whatever votes the log holds for it —, and (2) about every state reachable from
  an arbitrary initial configuration through ANY finite sequence of events of `ReachW`: every event of the
  restart alphabet `ReachK` (C03's own events — deliveries in any order / multiplicity, timeout sweeps,
  clock ticks, commit() / abort() calls, forged votes, new transactions —, `recover()` + re-send,
  `complete_commit` / `complete_abort`, checkpoint / restore of a current checkpoint) with the log written
  along, and WAL restarts.  Two restrictions: the one inherited from `ReachRS` (no timeout sweep /
  `abort()` call over a `Committing` entry) and `sparesPrepared` (no deadline passes on a `Prepared`
  entry: `cleanup_timeouts` and `recover()` abort such an entry WITHOUT a log record — the last
  `…_outside_quantifier_witness` shows what a WAL restart then does, on the code as it is).  A timed-out
  `Preparing` transaction, a cross-shard-conflict abort, late and duplicated votes — logged before they
  are validated — are all INSIDE the quantifier.
  Two `…_fullyVotedAsPrepared_witness` theorems show what the variant of `classify_in_progress` that
  restores a `Preparing` entry with a logged YES of every participant as `Prepared` does on runs of the
  same alphabet: it commits a transaction whose ABORT was announced before the crash.
-/
namespace Neumann.TwoPC.PropsWal
open Neumann.TwoPC

/-! ### the replay of the log, for every log -/

/-- For EVERY log and every transaction id: if the log holds no `PhaseChange` record for `tx`, then
    `recover_from_wal` does not restore `tx` — whatever `TxBegin` and `PrepareVote` records the log holds
    for it, in particular a YES of every participant.  (A logged vote is not a decision: the coordinator
    writes the vote before it validates it, and it writes nothing when it decides ABORT by timeout or by
    a cross-shard conflict.) -/
theorem wal_replay_restores_only_transactions_with_a_logged_phase_change (c : Coordinator) (now : Nat)
    (log : List WalEntry) (tx : Nat) (h : ∀ to, WalEntry.phase tx to ∉ log) :
    ∀ t ∈ (c.recoverFromWal now log).pending, t.id ≠ tx := by
  intro t ht hid
  obtain ⟨e, he, hph, rfl⟩ := mem_restored.1 ht
  have := scan_no_phase log [] h (fun _ hx => by cases hx) e he hid
  rw [this] at hph
  rcases hph with h2 | h2 | h2 <;> cases h2

-- both participants' YES votes are in the log, no phase change: nothing is restored
example : (Coordinator.recoverFromWal ⟨[], [], 100, 2, 1⟩ 5
    [.begin 0 [0, 1], .vote 0 0 (.yes 0), .vote 0 1 (.yes 1)]).pending = [] := by decide
example : scanLog [.begin 0 [0, 1], .vote 0 0 (.yes 0), .vote 0 1 (.yes 1)] =
    [⟨0, [0, 1], [(0, .yes 0), (1, .yes 1)], .preparing⟩] := by decide
example : ∀ to, WalEntry.phase 0 to ∉ [WalEntry.begin 0 [0, 1], .vote 0 0 (.yes 0), .vote 0 1 (.yes 1)] := by
  intro to h; simp at h

/-- For EVERY log: each transaction `recover_from_wal` puts into `pending` is an in-progress entry of the
    scan (begun, not completed), restored in the phase of its last `PhaseChange` — `Prepared`, `Committing`
    or `Aborting`, never `Preparing` — with the participants of its `TxBegin`, the votes the log accepted
    (YES votes keep the lock handle and lose the delta's keys; NO and CONFLICT become NO), `started_at` =
    the time of the restart and the fixed timeout of `DistributedTransaction::new`. -/
theorem wal_replay_restores_the_logged_phase (c : Coordinator) (now : Nat) (log : List WalEntry) :
    ∀ t ∈ (c.recoverFromWal now log).pending, ∃ e ∈ scanLog log, e.id = t.id ∧ e.phase = t.phase ∧
      (t.phase = .prepared ∨ t.phase = .committing ∨ t.phase = .aborting) ∧
      t.participants = e.participants ∧ t.votes = e.votes.map (fun x => (x.1, x.2.restore)) ∧
      t.startedAt = now ∧ t.timeout = walRestoredTimeout := by
  intro t ht
  obtain ⟨e, he, hph, rfl⟩ := mem_restored.1 ht
  exact ⟨e, he, rfl, rfl, hph, rfl, rfl, rfl, rfl⟩

-- tx 0 logged Prepared is restored as Prepared; tx 1 (fully voted, Preparing) and tx 2 (completed) are not
example : (Coordinator.recoverFromWal ⟨[], [], 100, 2, 3⟩ 5
    [.begin 0 [0, 1], .vote 0 0 (.yes 0), .vote 0 1 (.yes 1), .phase 0 .prepared,
     .begin 1 [0], .vote 1 0 (.yes 2),
     .begin 2 [1], .vote 2 1 (.yes 3), .phase 2 .prepared, .phase 2 .committing, .complete 2]).pending =
    [⟨0, [0, 1], .prepared, [(0, .yes 0 []), (1, .yes 1 [])], 5, 0⟩] := by decide
-- a duplicate vote, a vote after the phase change and a vote for an unknown transaction are not accepted
example : scanLog [.begin 0 [0, 1], .vote 0 0 (.yes 0), .vote 0 0 .no, .vote 7 0 (.yes 9), .vote 0 1 (.yes 1),
    .phase 0 .prepared, .vote 0 2 .no] = [⟨0, [0, 1], [(0, .yes 0), (1, .yes 1)], .prepared⟩] := by decide

/-! ### the system: decisions across WAL restarts -/

/-- (the seeded-change class) Along every run of `ReachW`: a transaction whose ABORT was decided before
    a crash — by the timeout sweep, by a NO / CONFLICT vote, by a cross-shard conflict, by `abort()`, by
    `recover()` — stays aborted and is NEVER committed afterwards, through any number of WAL restarts,
    whatever votes reached the log before or after the decision. -/
theorem aborted_before_crash_is_never_committed_after_wal_restart (stores : List Store) (tt mc lt : Nat)
    {w w' : SysW} (hr : ReachW (SysW.init stores tt mc lt) w) (hr' : ReachW w w') (tx : Nat)
    (hd : (tx, false) ∈ w.k.sys.decided) :
    (tx, false) ∈ w'.k.sys.decided ∧ (tx, true) ∉ w'.k.sys.decided := by
  have hinv := InvW.reach (hr.trans hr')
  have hd' := decided_mono_reachW hr' _ hd
  exact ⟨hd', fun h => hinv.excl tx h hd'⟩

/-- (the property, over WAL restarts) Along every run of `ReachW` a transaction gets at most ONE decision
    and the decision NEVER CHANGES: once (tx, b) is decided it stays decided and the opposite decision is
    never taken — not by the process that decided, not by any later process that rebuilt its state from
    the log. -/
theorem decision_survives_wal_restarts (stores : List Store) (tt mc lt : Nat) {w w' : SysW}
    (hr : ReachW (SysW.init stores tt mc lt) w) (hr' : ReachW w w') (tx : Nat) (b : Bool)
    (hd : (tx, b) ∈ w.k.sys.decided) : (tx, b) ∈ w'.k.sys.decided ∧ (tx, !b) ∉ w'.k.sys.decided := by
  have hinv := InvW.reach (hr.trans hr')
  have hd' := decided_mono_reachW hr' _ hd
  refine ⟨hd', ?_⟩
  cases b with
  | true => exact hinv.excl tx hd'
  | false => exact fun h => hinv.excl tx h hd'

/-- In every state of `ReachW`: a WAL restart does not bring back a transaction with an abort decision —
    it is not pending in the new process, so `get_pending_decisions` does not list it as `Committing`
    (and no COMMIT is re-sent for it). -/
theorem wal_restart_forgets_abort_decided_transactions (stores : List Store) (tt mc lt : Nat) {w : SysW}
    (hr : ReachW (SysW.init stores tt mc lt) w) (tx : Nat) (hd : (tx, false) ∈ w.k.sys.decided) :
    (∀ t ∈ (w.stepW .walRestart).k.sys.coord.pending, t.id ≠ tx) ∧
    (tx, Phase.committing) ∉ (w.stepW .walRestart).k.sys.coord.pendingDecisions := by
  have hinv := InvW.reach hr
  have h1 : ∀ t ∈ (w.stepW .walRestart).k.sys.coord.pending, t.id ≠ tx := by
    intro t ht hid
    obtain ⟨e, he, hp, rfl⟩ := hinv.wal.mem_walRestart_pending ht
    exact hinv.wal.prepNoAbort e he hp (by rw [← hid] at hd; exact hd)
  refine ⟨h1, ?_⟩
  intro hm
  obtain ⟨t, ht, hid, _⟩ := mem_pendingDecisions hm
  exact h1 t ht hid

/-- In every state of `ReachW` the log agrees with the decisions that were announced (`walCurrent`): no
    transaction the replay would restore towards a commit has an abort decision, none it would restore as
    `Aborting` a commit decision.  (What the driver checks at a WAL restart.) -/
theorem log_agrees_with_decisions_in_every_reachable_state (stores : List Store) (tt mc lt : Nat) {w : SysW}
    (hr : ReachW (SysW.init stores tt mc lt) w) : w.walCurrent = true := by
  have hinv := (InvW.reach hr).wal
  simp only [SysW.walCurrent, List.all_eq_true]
  intro e he
  rcases hinv.phases e he with hp | hp
  · rw [hp]; rfl
  · have hn := hinv.prepNoAbort e he hp
    simp [hp, hn]

/-- Atomicity across shards along `ReachW`: if one participant applied a transaction's writes, no
    participant that voted YES discards them — whichever of the coordinator's incarnations, rebuilt from
    a checkpoint or from the log, told them. -/
theorem applied_implies_no_yes_voter_discards_across_wal_restarts (stores : List Store) (tt mc lt : Nat)
    {w : SysW} (hr : ReachW (SysW.init stores tt mc lt) w) (sh1 sh2 tx : Nat)
    (ha : (sh1, tx) ∈ w.k.sys.applied) : (sh2, tx) ∉ w.k.sys.discarded := by
  have hinv := InvW.reach hr
  exact fun hd => hinv.excl tx (hinv.inv.applied sh1 tx ha) (hinv.inv.discarded sh2 tx hd)

/-- Along `ReachW` a commit decision — also one taken by a process that rebuilt its state from the log —
    is backed by a YES vote of EVERY participant the client named, present in the message pool. -/
theorem commit_after_wal_restart_needs_every_participants_yes (stores : List Store) (tt mc lt : Nat)
    {w : SysW} (hr : ReachW (SysW.init stores tt mc lt) w) (tx : Nat) (hd : (tx, true) ∈ w.k.sys.decided) :
    ∀ sp ∈ w.k.sys.specs, sp.id = tx → ∀ sh ∈ sp.shards, ∃ h ks, Msg.vote tx sh (.yes h ks) ∈ w.k.sys.msgs :=
  (InvW.reach hr).inv.commitYes tx hd

/-! ### non-vacuity: the history the theorems are about.  tx 0 over shards 0, 1: both vote YES, the
    coordinator reaches `Prepared` and logs it; crash; the new process restores tx 0 from the log as
    `Prepared`, `recover()` makes it `Committing`, COMMIT is sent, both shards apply, `complete_commit`.
    tx 1: shard 0's YES is recorded, the clock passes the deadline, the sweep aborts tx 1 (ABORT sent,
    nothing logged); then shard 1's late YES arrives — answered "not found", but LOGGED: the log now holds
    a YES of every participant of tx 1.  Checkpoint / restore, then a second crash: the replay restores
    tx 0 (still `Prepared` in the log: `recover()` and `complete_commit` log nothing) and announces its
    commit again, and restores NOTHING for tx 1; both shards discard tx 1. -/

def demoInit : SysW := SysW.init [[(1, 5)], []] 2 100 1000

def demoRun : List EvW :=
  [ .k (.ev (.base (.begin [0, 1] [(0, [.put 1 7]), (1, [.put 3 9])] []))),   -- msgs 0, 1 = PREPARE(0)
    .k (.ev (.base (.deliver 0))), .k (.ev (.base (.deliver 1))),             -- 2, 3 = the YES votes
    .k (.ev (.base (.deliver 2))), .k (.ev (.base (.deliver 3))),             -- tx 0 is Prepared, logged
    .walRestart,                                                               -- Committing; 4, 5 = COMMIT(0)
    .k (.ev (.base (.deliver 4))), .k (.ev (.base (.deliver 5))),             -- both shards apply
    .k (.ev (.completeCommit 0)),
    .k (.ev (.base (.begin [0, 1] [(0, [.put 2 8]), (1, [.put 4 1])] []))),   -- 6, 7 = PREPARE(1)
    .k (.ev (.base (.deliver 6))), .k (.ev (.base (.deliver 8))),             -- 8 = shard 0's YES, recorded
    .k (.ev (.base (.tick 3))), .k (.ev (.base .sweep)),                       -- 9, 10 = ABORT(1) by timeout
    .k (.ev (.base (.deliver 7))), .k (.ev (.base (.deliver 11))),            -- 11 = shard 1's late YES: logged
    .k .checkpoint, .k .restore,
    .walRestart,                                                               -- 12, 13 = COMMIT(0) again
    .k (.ev (.base (.deliver 9))), .k (.ev (.base (.deliver 10))),            -- both shards discard tx 1
    .k (.ev (.base (.deliver 12))) ]

example : ReachW demoInit (demoInit.runW demoRun) := reachW_run .refl _ (by decide)
example : (demoInit.runW demoRun).k.sys.decided = [(0, true), (1, false), (0, true)] := by decide
example : (demoInit.runW demoRun).k.sys.applied = [(0, 0), (1, 0)] := by decide
example : (demoInit.runW demoRun).k.sys.discarded = [(0, 1), (1, 1)] := by decide
example : (demoInit.runW demoRun).walCurrent = true := by decide
-- the log at the end: tx 0 `Prepared`; tx 1 `Preparing` with a YES of both participants
example : scanLog (demoInit.runW demoRun).wal =
    [⟨0, [0, 1], [(0, .yes 0), (1, .yes 1)], .prepared⟩, ⟨1, [0, 1], [(0, .yes 2), (1, .yes 3)], .preparing⟩] := by
  decide
-- the first restart: restored as Prepared, moved to Committing, COMMIT re-sent
example : (demoInit.runW (demoRun.take 6)).k.sys.coord.pendingDecisions = [(0, .committing)] := by decide
example : (demoInit.runW (demoRun.take 5)).k.sys.decided = [] ∧
    (demoInit.runW (demoRun.take 6)).k.sys.decided = [(0, true)] := by decide
-- the late YES of shard 1 is refused (tx 1 is no longer pending: "not found") and logged
example : findTx (demoInit.runW (demoRun.take 15)).k.sys.coord.pending 1 = none ∧
    (demoInit.runW (demoRun.take 15)).k.sys.msgs[11]? = some (.vote 1 1 (.yes 3 [4])) := by decide
example : (demoInit.runW (demoRun.take 16)).wal.getLast? = some (.vote 1 1 (.yes 3)) := by decide
-- the second restart: tx 1 (abort decided, fully voted in the log) is not pending, tx 0 is announced again
example : (1, false) ∈ (demoInit.runW (demoRun.take 18)).k.sys.decided := by decide
example : (demoInit.runW (demoRun.take 18)).k.sys.coord.pending = [] := by decide
example : (demoInit.runW (demoRun.take 19)).k.sys.coord.pending.map (fun t => (t.id, t.phase)) =
    [(0, .committing)] := by decide

/-! ### the variant that restores a fully voted `Preparing` entry as `Prepared`; deadlines on `Prepared` -/

/-- The variant breaks the property on a run of `ReachW`'s alphabet (timeout): shard 0 votes YES, the
    clock passes the deadline, the sweep aborts tx 0 (ABORT sent, shard 0 rolls back), shard 1's late YES
    is answered "not found" but logged; crash.  The variant finds a YES of every participant in the log,
    restores tx 0 as `Prepared`, `recover()` makes it `Committing`, COMMIT is sent and shard 1 applies:
    two decisions for tx 0 and the shards split.  The SAME events on the code as it is restore nothing:
    one decision, nothing applied (and they are a run of `ReachW`). -/
theorem wal_restart_commits_timed_out_tx_fullyVotedAsPrepared_witness :
    ∃ es : List EvW,
      let w0 := SysW.init [[], []] 2 100 1000
      w0.allInWFullyVotedAsPrepared es = true ∧
      (0, false) ∈ (w0.runWFullyVotedAsPrepared es).k.sys.decided ∧
      (0, true) ∈ (w0.runWFullyVotedAsPrepared es).k.sys.decided ∧
      (1, 0) ∈ (w0.runWFullyVotedAsPrepared es).k.sys.applied ∧
      (0, 0) ∈ (w0.runWFullyVotedAsPrepared es).k.sys.discarded ∧
      w0.allInW es = true ∧ (w0.runW es).k.sys.decided = [(0, false)] ∧ (w0.runW es).k.sys.applied = [] :=
  ⟨[ .k (.ev (.base (.begin [0, 1] [(0, [.put 1 7]), (1, [.put 3 9])] []))),   -- 0, 1 = PREPARE
     .k (.ev (.base (.deliver 0))), .k (.ev (.base (.deliver 2))),             -- 2 = shard 0's YES, recorded
     .k (.ev (.base (.tick 3))), .k (.ev (.base .sweep)),                       -- 3, 4 = ABORT by timeout
     .k (.ev (.base (.deliver 3))),                                             -- shard 0 rolls back
     .k (.ev (.base (.deliver 1))), .k (.ev (.base (.deliver 5))),             -- 5 = shard 1's late YES: logged
     .walRestart,                                                               -- variant: 6, 7 = COMMIT
     .k (.ev (.base (.deliver 7))) ],
   by decide, by decide, by decide, by decide, by decide, by decide, by decide, by decide⟩

/-- The variant breaks the property on a run of `ReachW`'s alphabet (cross-shard conflict): both shards
    vote YES, but their deltas are not orthogonal and share a key, so the second vote is answered
    `Aborting` — ABORT is sent, shard 0 rolls back, and NOTHING more is logged: the log holds a YES of every
    participant and no phase change; crash.  The variant restores tx 0 as `Prepared` and commits it; shard 1
    applies.  The SAME events on the code as it is: one decision, nothing applied. -/
theorem wal_restart_commits_cross_shard_conflict_abort_fullyVotedAsPrepared_witness :
    ∃ es : List EvW,
      let w0 := SysW.init [[], []] 2 100 1000
      w0.allInWFullyVotedAsPrepared es = true ∧
      (0, false) ∈ (w0.runWFullyVotedAsPrepared es).k.sys.decided ∧
      (0, true) ∈ (w0.runWFullyVotedAsPrepared es).k.sys.decided ∧
      (1, 0) ∈ (w0.runWFullyVotedAsPrepared es).k.sys.applied ∧
      (0, 0) ∈ (w0.runWFullyVotedAsPrepared es).k.sys.discarded ∧
      w0.allInW es = true ∧ (w0.runW es).k.sys.decided = [(0, false)] ∧ (w0.runW es).k.sys.applied = [] :=
  ⟨[ .k (.ev (.base (.begin [0, 1] [(0, [.put 1 7]), (1, [.put 1 9])] [(0, 1)]))),   -- 0, 1 = PREPARE
     .k (.ev (.base (.deliver 0))), .k (.ev (.base (.deliver 1))),                   -- 2, 3 = the YES votes
     .k (.ev (.base (.deliver 2))), .k (.ev (.base (.deliver 3))),                   -- Aborting; 4, 5 = ABORT
     .k (.ev (.base (.deliver 4))),                                                   -- shard 0 rolls back
     .walRestart,                                                                     -- variant: 6, 7 = COMMIT
     .k (.ev (.base (.deliver 7))) ],
   by decide, by decide, by decide, by decide, by decide, by decide, by decide, by decide⟩

/-- The `sparesPrepared` condition of `ReachW` is necessary, on the code AS IT IS: `cleanup_timeouts` (and
    `recover()`) abort a timed-out `Prepared` transaction without a log record.  Both shards vote YES, tx 0
    is `Prepared` (logged); the clock passes the deadline and the sweep aborts it — ABORT is sent, shard 0
    rolls back, the log still says `Prepared` (`walCurrent` fails); crash; the replay restores tx 0 as
    `Prepared`, `recover()` makes it `Committing`, COMMIT is sent, shard 1 applies: both decisions and the
    shards split.  Outside C03's quantifier (the run is in the alphabet without `sparesPrepared`, not in
    `ReachW`'s). -/
theorem timeout_abort_of_prepared_entry_is_not_logged_outside_quantifier_witness :
    ∃ es : List EvW,
      let w0 := SysW.init [[], []] 2 100 1000
      w0.allInWAny es = true ∧ w0.allInW es = false ∧
      (0, false) ∈ (w0.runW es).k.sys.decided ∧ (0, true) ∈ (w0.runW es).k.sys.decided ∧
      (1, 0) ∈ (w0.runW es).k.sys.applied ∧ (0, 0) ∈ (w0.runW es).k.sys.discarded ∧
      (w0.runW (es.take 8)).walCurrent = false :=
  ⟨[ .k (.ev (.base (.begin [0, 1] [(0, [.put 1 7]), (1, [.put 3 9])] []))),   -- 0, 1 = PREPARE
     .k (.ev (.base (.deliver 0))), .k (.ev (.base (.deliver 1))),             -- 2, 3 = the YES votes
     .k (.ev (.base (.deliver 2))), .k (.ev (.base (.deliver 3))),             -- Prepared, logged
     .k (.ev (.base (.tick 3))), .k (.ev (.base .sweep)),                       -- 4, 5 = ABORT; nothing logged
     .k (.ev (.base (.deliver 4))),                                             -- shard 0 rolls back
     .walRestart,                                                               -- restored Prepared → 6, 7 = COMMIT
     .k (.ev (.base (.deliver 7))) ],
   by decide, by decide, by decide, by decide, by decide, by decide, by decide⟩

end Neumann.TwoPC.PropsWal
