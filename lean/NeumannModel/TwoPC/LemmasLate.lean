import NeumannModel.TwoPC.LemmasPart
/-
  C03 — late PREPARE of a transaction that is already finished on a participant: what `try_lock` /
  `prepare` do to the locks and prepared records of OTHER transactions, and what the participant's
  unilateral cleanups (`cleanup_stale`, `recover`) do to the data of a participant whose undo images
  match its store (`PInv`).
-/
namespace Neumann.TwoPC

/-! ### lock table -/

theorem firstConflict_some_ne {ls : List KeyLock} {now tx : Nat} {keys : List Nat} {c : Nat}
    (h : firstConflict ls now tx keys = some c) : c ≠ tx := by
  induction keys with
  | nil => simp [firstConflict] at h
  | cons k ks ih =>
    simp only [firstConflict] at h
    split at h
    · split at h
      · rename_i hc
        cases h
        simp only [Bool.and_eq_true, bne_iff_ne, ne_eq] at hc
        exact hc.2
      · exact ih h
    · exact ih h

/-- a key of the request that is held by a live lock of another transaction makes `try_lock` fail,
    naming a transaction other than the requester -/
theorem tryLock_conflict_of_held {t : LockTable} {now h tx : Nat} {keys : List Nat}
    (hn : ∀ l ∈ t.locks, l.expired now = false)
    {k : Nat} {l : KeyLock} (hk : k ∈ keys) (hf : findLock t.locks k = some l) (hne : l.tx ≠ tx) :
    ∃ c, c ≠ tx ∧ t.tryLock now h tx keys = .error c := by
  unfold LockTable.tryLock
  cases hfc : firstConflict t.locks now tx keys with
  | some c => exact ⟨c, firstConflict_some_ne hfc, rfl⟩
  | none =>
    rcases firstConflict_none hfc k hk l hf with he | he
    · rw [hn l (findLock_some hf).1] at he; cases he
    · exact absurd he hne

/-- a successful `try_lock` leaves every key held by a live lock of another transaction with its
    holder (same transaction, same handle) -/
theorem tryLock_keeps_other_holders {t lt : LockTable} {now h tx : Nat} {keys : List Nat}
    (hn : ∀ l ∈ t.locks, l.expired now = false)
    (hl : t.tryLock now h tx keys = .ok lt) {k : Nat} {l : KeyLock}
    (hf : findLock t.locks k = some l) (hne : l.tx ≠ tx) : findLock lt.locks k = some l := by
  unfold LockTable.tryLock at hl
  split at hl
  · cases hl
  · rename_i hfc
    cases hl
    simp only
    rw [findLock_insertLocks]
    have hk : k ∉ keys := by
      intro hk
      rcases firstConflict_none hfc k hk l hf with he | he
      · rw [hn l (findLock_some hf).1] at he; cases he
      · exact hne he
    simp only [hk, if_false]
    exact hf

/-! ### participant -/

theorem findPrepared_removePrepared_ne (ps : List PreparedTx) {tx t' : Nat} (h : t' ≠ tx) :
    findPrepared (removePrepared ps tx) t' = findPrepared ps t' := by
  induction ps with
  | nil => rfl
  | cons a r ih =>
    simp only [removePrepared, List.filter] at ih ⊢
    by_cases h1 : a.tx = tx
    · have : (a.tx != tx) = false := by simp [h1]
      simp only [this, findPrepared]
      have : a.tx ≠ t' := by omega
      simp only [this, if_false]
      exact ih
    · have : (a.tx != tx) = true := by simpa using h1
      simp only [this, findPrepared]
      split
      · rfl
      · exact ih

/-- `prepare(tx)` on a participant satisfying the invariant: the data is untouched, every key held
    by another transaction keeps its lock, every other transaction's prepared record is untouched, and
    if one of the keys of its lock set (logical, storage or write key of one of its operations) is held
    by another transaction the participant is left exactly as it was and answers CONFLICT naming a
    transaction other than `tx`. -/
theorem prepare_respects_others {now nh : Nat} {p : Participant} (h : PInv now nh p) (tx : Nat) (ops : List Op) :
    (p.prepare now nh tx ops).1.store = p.store ∧
    (∀ k l, findLock p.locks.locks k = some l → l.tx ≠ tx →
      findLock (p.prepare now nh tx ops).1.locks.locks k = some l) ∧
    (∀ t', t' ≠ tx → findPrepared (p.prepare now nh tx ops).1.prepared t' = findPrepared p.prepared t') ∧
    ((∃ k ∈ lockKeys ops, ∃ l, findLock p.locks.locks k = some l ∧ l.tx ≠ tx) →
      ∃ c, c ≠ tx ∧ p.prepare now nh tx ops = (p, .conflict c)) := by
  refine ⟨prepare_store p now nh tx ops, ?_, ?_, ?_⟩
  · intro k l hf hne
    rcases prepare_eq p now nh tx ops with ⟨c, he⟩ | ⟨lt, hl, he⟩
    · rw [he]; exact hf
    · rw [he]; exact tryLock_keeps_other_holders h.notExpired hl hf hne
  · intro t' hne
    rcases prepare_eq p now nh tx ops with ⟨c, he⟩ | ⟨lt, hl, he⟩
    · rw [he]
    · rw [he]
      simp only [findPrepared]
      have : tx ≠ t' := fun e => hne e.symm
      simp only [this, if_false]
      exact findPrepared_removePrepared_ne p.prepared hne
  · rintro ⟨k, hk, l, hf, hne⟩
    obtain ⟨c, hc, hl⟩ := tryLock_conflict_of_held (h := nh) h.notExpired hk hf hne
    refine ⟨c, hc, ?_⟩
    unfold Participant.prepare Participant.prepareWith
    simp only [hl]

/-- any sequence of participant-side aborts (the body of `cleanup_stale` / `recover`) keeps the
    invariant and re-installs only what is already there -/
theorem foldl_abort_keeps {now nh : Nat} (txs : List Nat) {p : Participant} (h : PInv now nh p) :
    PInv now nh (txs.foldl (fun q tx => (q.abort tx).1) p) ∧
    ∀ k, sget (txs.foldl (fun q tx => (q.abort tx).1) p).store k = sget p.store k := by
  induction txs generalizing p with
  | nil => exact ⟨h, fun _ => rfl⟩
  | cons t r ih =>
    obtain ⟨h1, h2⟩ := h.abort t
    obtain ⟨h3, h4⟩ := ih h1
    exact ⟨h3, fun k => (h4 k).trans (h2 k)⟩

theorem abort_absent {p : Participant} {tx : Nat} (h : findPrepared p.prepared tx = none) :
    p.abort tx = (p, false) := by
  unfold Participant.abort
  simp only [h]

/-! ### the system -/

theorem step_deliver_prepare {s : Sys} {i t sh : Nat} {ops : List Op} {p : Participant}
    (hm : s.msgs[i]? = some (Msg.prepare t sh ops)) (hp : s.parts[sh]? = some p) :
    (s.step (.deliver i)).parts = s.parts.set sh (p.prepare s.now s.nextHandle t ops).1 ∧
    (s.step (.deliver i)).msgs = s.msgs ++ [Msg.vote t sh (p.prepare s.now s.nextHandle t ops).2] := by
  refine ⟨?_, ?_⟩ <;> simp only [Sys.step, Sys.stepR, hm, Sys.deliverMsg, hp]

theorem getElem?_set_self {α : Type} {l : List α} {i : Nat} {a b : α} (h : l[i]? = some a) :
    (l.set i b)[i]? = some b := by
  rw [getElem?_set']
  have : i < l.length := by
    rcases Nat.lt_or_ge i l.length with h1 | h1
    · exact h1
    · rw [List.getElem?_eq_none h1] at h; cases h
  simp [this]

/-- the participant's unilateral `cleanup_stale`, run at any point on a system satisfying the
    invariant, leaves every key of every shard as it is -/
theorem cleanupStale_keeps_data {s : Sys} (h : SInv s) (sh to : Nat) :
    ∀ sh' k, sget ((s.step (.cleanupStale sh to)).storeOf sh') k = sget (s.storeOf sh') k := by
  intro sh' k
  simp only [Sys.step, Sys.stepR]
  split
  · rfl
  · rename_i p hp
    simp only [Sys.storeOf]
    exact sget_store_set hp
      (fun k => (foldl_abort_keeps _ (h p (List.mem_of_getElem? hp))).2 k) sh' k

/-- … and so does `recover` (presumed abort + `cleanup_expired`) -/
theorem recover_keeps_data {s : Sys} (h : SInv s) (sh to : Nat) :
    ∀ sh' k, sget ((s.step (.recover sh to)).storeOf sh') k = sget (s.storeOf sh') k := by
  intro sh' k
  simp only [Sys.step, Sys.stepR]
  split
  · rfl
  · rename_i p hp
    simp only [Sys.storeOf]
    refine sget_store_set hp (fun k => ?_) sh' k
    simp only [Participant.recover]
    exact (foldl_abort_keeps _ (h p (List.mem_of_getElem? hp))).2 k

end Neumann.TwoPC
