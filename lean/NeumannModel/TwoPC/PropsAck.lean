/-
  C03 — properties of the abort acknowledgement / retry bookkeeping (`Ack.lean`).

  An ABORT that was lost stays re-sendable: the `abort_states` entry of a transaction keeps every recipient that no
  ABORT reached, over every run of the alphabet (tracking, deliveries, duplicated / reordered / lost acknowledgements,
  clock, retries).  The VARIANT with a "last outstanding acknowledgement" fast path does not.
-/
import NeumannModel.TwoPC.LemmasAck

namespace Neumann.TwoPC.Props
open Neumann.TwoPC

/-- every recipient of the last tracked broadcast of every transaction was reached by an ABORT or is still in
    `pending_acks` of the entry — in every reachable state -/
theorem abort_stays_tracked_until_every_participant_acknowledged {a : AckNet} (hr : ReachA a) : a.Tracked :=
  reach_tracked hr

/-- a recipient the ABORT never reached is in the next due `get_retry_aborts` result -/
theorem lost_abort_is_resent {a : AckNet} (hr : ReachA a) {tx sh : Nat} (hl : sh ∈ a.lastOf tx)
    (hn : (tx, sh) ∉ a.told) (hd : a.allDue) : (tx, sh) ∈ resendPairs (getRetryAborts a.states a.now).2 := by
  rcases reach_tracked hr tx sh hl with h | h
  · exact absurd h hn
  · rw [pendingOf_eq] at h
    exact mem_resendPairs_of_pend hd h

/-- after one round of the retry loop over a network that now delivers, every recipient of every tracked abort has
    been reached -/
theorem resend_round_tells_every_participant {a : AckNet} (hr : ReachA a) (hd : a.allDue) :
    ∀ tx sh, sh ∈ a.lastOf tx → (tx, sh) ∈ a.resendRound.told := by
  intro tx sh hl
  rw [told_resendRound]
  rcases reach_tracked hr tx sh hl with h | h
  · exact List.mem_append_left _ h
  · rw [pendingOf_eq] at h
    exact List.mem_append_right _ (mem_resendPairs_of_pend hd h)

/-- VARIANT (not the code): the abort to shard 1 is lost and shard 0's acknowledgement is duplicated — the variant
    drops the entry and re-sends nothing; the code keeps shard 1 and re-sends to it -/
theorem abort_forgotten_before_all_acks_LastAckFastPath_witness :
    let es := [EvA.track 0 [0, 1, 2], .told 0 0, .told 0 2, .ack 0 0, .ack 0 2, .ack 0 0, .advance 1000, .retry]
    (AckNet.init.runLastAckFastPath es).map (fun a => (a.trackedUpTo 3, a.pendingOf 0, a.told.contains (0, 1))) = some (false, [], false) ∧
    (AckNet.init.runLastAckFastPath (es.take 7)).map (fun a => (getRetryAborts a.states a.now).2) = some [] ∧
    (AckNet.init.runChecked es).map (fun a => (a.trackedUpTo 3, a.pendingOf 0)) = some (true, [1]) ∧
    (AckNet.init.runChecked (es.take 7)).map (fun a => (getRetryAborts a.states a.now).2) = some [(0, [1])] := by decide

/-! ## non-vacuity -/

/-- a reachable state with a lost abort where every entry is due -/
example : ((AckNet.init.runChecked [EvA.track 0 [0, 1, 2], .told 0 0, .ack 0 0, .advance 1000]).map
    (fun a => (a.pendingOf 0, a.states.all (fun e => e.2.due a.now), a.told.contains (0, 1)))) = some ([1, 2], true, false) := by
  decide

/-- ... and one resend round reaches the shards the ABORT was lost to -/
example : ((AckNet.init.runChecked [EvA.track 0 [0, 1, 2], .told 0 0, .ack 0 0, .advance 1000]).map
    (fun a => (a.resendRound.told.contains (0, 1), a.resendRound.told.contains (0, 2), a.resendRound.pendingOf 0)))
    = some (true, true, []) := by
  decide

/-- the hypotheses of `lost_abort_is_resent` / `resend_round_tells_every_participant` are jointly satisfiable -/
example : ∃ a : AckNet, ReachA a ∧ a.allDue ∧ 1 ∈ a.lastOf 0 ∧ (0, 1) ∉ a.told := by
  refine ⟨(((AckNet.init.step (.track 0 [0, 1, 2])).step (.told 0 0)).step (.ack 0 0)).step (.advance 1000), ?_, ?_, ?_, ?_⟩
  · refine ReachA.step _ (ReachA.step _ (ReachA.step _ (ReachA.step _ ReachA.init ?_) ?_) ?_) ?_ <;> decide
  · intro e he
    have : e = (0, ⟨[1, 2], 0, 0⟩) := by
      have h : e ∈ [((0 : Nat), (⟨[1, 2], 0, 0⟩ : AbortState))] := he
      simpa using h
    subst this
    decide
  · decide
  · decide

/-- the invariant is not trivially true: a reachable state where the left disjunct fails and the right one holds -/
example : (AckNet.init.runChecked [EvA.track 0 [0, 1, 2], .told 0 0, .ack 0 0]).map
    (fun a => (a.trackedUpTo 3, a.told, a.pendingOf 0)) = some (true, [(0, 0)], [1, 2]) := by decide

end Neumann.TwoPC.Props
