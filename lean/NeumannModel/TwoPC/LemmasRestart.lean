import NeumannModel.TwoPC.Restart
import NeumannModel.TwoPC.LemmasRecovery
/-
  C03 — coordinator restarts (`Restart.lean`): what `recover()` does to one entry in each phase, that
  it keeps every pending decision at every clock value, that it is idempotent, and that the runs of
  `ReachK` (checkpoint / restore of a current checkpoint added) are runs of `ReachRS` on the system
  component, so that `InvR` / `InvRS` of `LemmasRecovery.lean` hold along them.
-/
namespace Neumann.TwoPC

/-! ### `recover()` on one entry -/

theorem recoverPhase_preparing' {t : DTx} {now : Nat} (h : t.phase = .preparing) :
    t.recoverPhase now = if t.timedOut now then .aborting else .preparing := by
  unfold DTx.recoverPhase DTx.recoverArm; rw [h]
  dsimp only
  split <;> rfl

theorem recoverPhase_prepared' {t : DTx} {now : Nat} (h : t.phase = .prepared) :
    t.recoverPhase now =
      if t.timedOut now then .aborting else if t.allYes then .committing
      else if t.anyNo then .aborting else .prepared := by
  unfold DTx.recoverPhase DTx.recoverArm; rw [h]
  dsimp only
  split
  · rfl
  · split
    · rfl
    · split <;> rfl

theorem recoverPhase_of_committed {t : DTx} {now : Nat} (h : t.phase = .committed) :
    t.recoverPhase now = .committed := by
  unfold DTx.recoverPhase DTx.recoverArm; rw [h]

theorem recoverPhase_of_aborted {t : DTx} {now : Nat} (h : t.phase = .aborted) :
    t.recoverPhase now = .aborted := by
  unfold DTx.recoverPhase DTx.recoverArm; rw [h]

/-- `recover()` changes the phase of an entry only if the entry was `Preparing` or `Prepared` -/
theorem recoverPhase_ne {t : DTx} {now : Nat} (h : t.recoverPhase now ≠ t.phase) :
    t.phase = .preparing ∨ t.phase = .prepared := by
  cases hp : t.phase with
  | preparing => exact Or.inl rfl
  | prepared => exact Or.inr rfl
  | committing => exact absurd (by rw [recoverPhase_of_committing hp, hp]) h
  | aborting => exact absurd (by rw [recoverPhase_of_aborting hp, hp]) h
  | committed => exact absurd (by rw [recoverPhase_of_committed hp, hp]) h
  | aborted => exact absurd (by rw [recoverPhase_of_aborted hp, hp]) h

/-- the phase `recover()` leaves an entry in is a fixed point of `recover()` at the same clock value -/
theorem recoverPhase_recovered (t : DTx) (now : Nat) :
    (t.recovered now).recoverPhase now = t.recoverPhase now := by
  have hto : (t.recovered now).timedOut now = t.timedOut now := rfl
  have hay : (t.recovered now).allYes = t.allYes := rfl
  have han : (t.recovered now).anyNo = t.anyNo := rfl
  cases hp : t.phase with
  | committing =>
    have h1 := recoverPhase_of_committing (now := now) hp
    have h2 : (t.recovered now).phase = .committing := by rw [recovered_phase, h1]
    rw [recoverPhase_of_committing h2, h1]
  | aborting =>
    have h1 := recoverPhase_of_aborting (now := now) hp
    have h2 : (t.recovered now).phase = .aborting := by rw [recovered_phase, h1]
    rw [recoverPhase_of_aborting h2, h1]
  | committed =>
    have h1 := recoverPhase_of_committed (now := now) hp
    have h2 : (t.recovered now).phase = .committed := by rw [recovered_phase, h1]
    rw [recoverPhase_of_committed h2, h1]
  | aborted =>
    have h1 := recoverPhase_of_aborted (now := now) hp
    have h2 : (t.recovered now).phase = .aborted := by rw [recovered_phase, h1]
    rw [recoverPhase_of_aborted h2, h1]
  | preparing =>
    have h1 := recoverPhase_preparing' (now := now) hp
    by_cases hx : t.timedOut now = true
    · rw [hx] at h1
      simp only [if_true] at h1
      have h2 : (t.recovered now).phase = .aborting := by rw [recovered_phase, h1]
      rw [recoverPhase_of_aborting h2, h1]
    · have hx' : t.timedOut now = false := by simpa using hx
      rw [hx'] at h1
      simp only [Bool.false_eq_true, if_false] at h1
      have h2 : (t.recovered now).phase = .preparing := by rw [recovered_phase, h1]
      rw [recoverPhase_preparing' h2, hto, hx', h1]
      simp
  | prepared =>
    have h1 := recoverPhase_prepared' (now := now) hp
    by_cases hx : t.timedOut now = true
    · rw [hx] at h1
      simp only [if_true] at h1
      have h2 : (t.recovered now).phase = .aborting := by rw [recovered_phase, h1]
      rw [recoverPhase_of_aborting h2, h1]
    · have hx' : t.timedOut now = false := by simpa using hx
      rw [hx'] at h1
      simp only [Bool.false_eq_true, if_false] at h1
      by_cases hy : t.allYes = true
      · rw [hy] at h1
        simp only [if_true] at h1
        have h2 : (t.recovered now).phase = .committing := by rw [recovered_phase, h1]
        rw [recoverPhase_of_committing h2, h1]
      · have hy' : t.allYes = false := by simpa using hy
        rw [hy'] at h1
        simp only [Bool.false_eq_true, if_false] at h1
        by_cases hn : t.anyNo = true
        · rw [hn] at h1
          simp only [if_true] at h1
          have h2 : (t.recovered now).phase = .aborting := by rw [recovered_phase, h1]
          rw [recoverPhase_of_aborting h2, h1]
        · have hn' : t.anyNo = false := by simpa using hn
          rw [hn'] at h1
          simp only [Bool.false_eq_true, if_false] at h1
          have h2 : (t.recovered now).phase = .prepared := by rw [recovered_phase, h1]
          rw [recoverPhase_prepared' h2, hto, hay, han, hx', hy', hn', h1]
          simp

theorem recovered_recovered (t : DTx) (now : Nat) : (t.recovered now).recovered now = t.recovered now := by
  show ({ t.recovered now with phase := (t.recovered now).recoverPhase now } : DTx) = t.recovered now
  rw [recoverPhase_recovered]
  rfl

/-! ### `recover()` on the pending map -/

theorem mem_pendingDecisions_of {c : Coordinator} {t : DTx} (ht : t ∈ c.pending)
    (hp : t.phase = .committing ∨ t.phase = .aborting) : (t.id, t.phase) ∈ c.pendingDecisions := by
  simp only [Coordinator.pendingDecisions, List.mem_map, List.mem_filter, Bool.or_eq_true, beq_iff_eq]
  exact ⟨t, ⟨ht, hp⟩, rfl⟩

theorem recovered_mem_recover {c : Coordinator} {now : Nat} {t : DTx} (ht : t ∈ c.pending)
    (hnf : (t.recoverPhase now).isFinal = false) : t.recovered now ∈ (c.recover now).1.pending := by
  simp only [Coordinator.recover, List.mem_filter, List.mem_map]
  refine ⟨⟨t, ht, rfl⟩, ?_⟩
  rw [recovered_phase, hnf]
  rfl

theorem mem_recover_pending_iff {c : Coordinator} {now : Nat} {t' : DTx} :
    t' ∈ (c.recover now).1.pending ↔
      ∃ t ∈ c.pending, t' = t.recovered now ∧ (t.recoverPhase now).isFinal = false := by
  constructor
  · intro h
    simp only [Coordinator.recover, List.mem_filter, List.mem_map] at h
    obtain ⟨⟨t, ht, rfl⟩, hf⟩ := h
    refine ⟨t, ht, rfl, ?_⟩
    rw [recovered_phase] at hf
    simpa using hf
  · rintro ⟨t, ht, rfl, hf⟩
    exact recovered_mem_recover ht hf

/-- `recover()`, at any clock value, keeps every entry of `get_pending_decisions` as it is -/
theorem recover_keeps_pendingDecision {c : Coordinator} {now : Nat} {d : Nat × Phase}
    (h : d ∈ c.pendingDecisions) : d ∈ (c.recover now).1.pendingDecisions := by
  obtain ⟨tx, ph⟩ := d
  obtain ⟨t, ht, hid, hph, hd⟩ := mem_pendingDecisions h
  have hrp : t.recoverPhase now = ph := by
    rcases hd with rfl | rfl
    · exact recoverPhase_of_committing hph
    · exact recoverPhase_of_aborting hph
  have hnf : (t.recoverPhase now).isFinal = false := by
    rw [hrp]; rcases hd with rfl | rfl <;> rfl
  have hm := recovered_mem_recover (c := c) ht hnf
  have hd' : (t.recovered now).phase = .committing ∨ (t.recovered now).phase = .aborting := by
    rw [recovered_phase, hrp]; exact hd
  have := mem_pendingDecisions_of hm hd'
  rw [recovered_id, recovered_phase, hrp, hid] at this
  exact this

theorem recoverAll_keeps_pendingDecision {c : Coordinator} (nows : List Nat) {d : Nat × Phase}
    (h : d ∈ c.pendingDecisions) : d ∈ (c.recoverAll nows).pendingDecisions := by
  induction nows generalizing c with
  | nil => exact h
  | cons now nows ih => exact ih (recover_keeps_pendingDecision h)

/-- a second `recover()` at the same clock value changes nothing -/
theorem recover_recover (c : Coordinator) (now : Nat) :
    ((c.recover now).1.recover now).1 = (c.recover now).1 := by
  have hfix : ∀ t' ∈ (c.recover now).1.pending, t'.recovered now = t' ∧ (!t'.phase.isFinal) = true := by
    intro t' ht'
    obtain ⟨t, _, rfl, hf⟩ := mem_recover_pending_iff.1 ht'
    refine ⟨recovered_recovered t now, ?_⟩
    rw [recovered_phase, hf]; rfl
  have hmap : (c.recover now).1.pending.map (fun t => t.recovered now) = (c.recover now).1.pending := by
    conv => rhs; rw [← List.map_id (c.recover now).1.pending]
    exact List.map_congr_left (fun t ht => (hfix t ht).1)
  have hfil : ((c.recover now).1.pending.map (fun t => t.recovered now)).filter (fun t => !t.phase.isFinal) =
      (c.recover now).1.pending := by
    rw [hmap]
    exact List.filter_eq_self.2 (fun t ht => (hfix t ht).2)
  show ({ (c.recover now).1 with pending := _ } : Coordinator) = (c.recover now).1
  rw [hfil]

/-! ### checkpoint / restore -/

theorem withState_toState {c : Coordinator} (h : c.pendingAborts = []) : c.withState c.toState = c := by
  cases c
  simp only [Coordinator.withState, Coordinator.toState] at *
  subst h
  rfl

/-- crash + `load_from_store` of a current checkpoint leaves the system as it is -/
theorem stepK_restore_current {k : SysK} (hc : k.checkpointCurrent = true)
    (hpa : k.sys.coord.pendingAborts = []) : (k.stepK .restore).sys = k.sys := by
  have hs : k.saved = some k.sys.coord.toState := by
    simpa [SysK.checkpointCurrent] using hc
  simp only [SysK.stepK, hs, Coordinator.loadFrom, withState_toState hpa]

/-- a run of `ReachK` is, on the system component, a run of `ReachRS` -/
theorem ReachK.toRS {k0 k : SysK} (h0 : InvR k0.sys) (hr : ReachK k0 k) : ReachRS k0.sys k.sys := by
  induction hr with
  | refl => exact .refl
  | step e _ ha ih =>
    cases e with
    | ev e =>
      simp only [SysK.inAlphabetK, Bool.and_eq_true] at ha
      exact ReachRS.step e ih ha.1 ha.2
    | checkpoint => exact ih
    | restore =>
      have hinv := h0.reach ih.toR
      rw [stepK_restore_current ha hinv.paEmpty]
      exact ih

theorem ReachK.trans {k0 k k' : SysK} (h1 : ReachK k0 k) (h2 : ReachK k k') : ReachK k0 k' := by
  induction h2 with
  | refl => exact h1
  | step e _ ha ih => exact ReachK.step e ih ha

theorem reachK_run {k0 k : SysK} (hr : ReachK k0 k) (es : List EvK) (h : k.allInK es = true) :
    ReachK k0 (k.runK es) := by
  induction es generalizing k with
  | nil => exact hr
  | cons e es ih =>
    simp only [SysK.allInK, Bool.and_eq_true] at h
    exact ih (ReachK.step e hr h.1) h.2

theorem reachKStale_run {k0 k : SysK} (hr : ReachKStale k0 k) (es : List EvK) (h : k.allInKStale es = true) :
    ReachKStale k0 (k.runK es) := by
  induction es generalizing k with
  | nil => exact hr
  | cons e es ih =>
    simp only [SysK.allInKStale, Bool.and_eq_true] at h
    exact ih (ReachKStale.step e hr h.1) h.2

/-- `InvRS` (decision / message invariant + exclusivity of the decisions) along `ReachK` -/
theorem InvRS.reachK {stores : List Store} {a b c : Nat} {k : SysK}
    (hr : ReachK (SysK.init stores a b c) k) : InvRS k.sys :=
  (InvRS.init stores a b c).reach (ReachK.toRS (InvR.init stores a b c) hr)

theorem decided_mono_reachK {k k' : SysK} (h : ReachK k k') (x : Nat × Bool) (hx : x ∈ k.sys.decided) :
    x ∈ k'.sys.decided := by
  induction h with
  | refl => exact hx
  | step e _ _ ih =>
    cases e with
    | ev e => exact decided_monoX _ e x ih
    | checkpoint => exact ih
    | restore => exact ih

end Neumann.TwoPC
