import NeumannModel.TwoPC.LemmasRecovery
/-
  C03 — two-phase commit with the coordinator's STATE-BASED CRASH-RECOVERY / RESOLUTION API
  (`recover`, `get_pending_decisions` + re-send, `complete_commit`, `complete_abort`, `force_resolve`;
  model in `Recovery.lean`).  ONLY theorems and their non-vacuity examples; helpers are in
  `LemmasRecovery.lean`.

  Coordinator restarts are what "the decision never changes afterwards" and "coordinator timeouts
  firing at any point" have to survive: `PropsRestart.lean` states the property over the alphabet
  `ReachK` (these events plus checkpoint / restore cycles, at any clock value), using the invariants
  proved here.  Partition merges (`force_resolve`) stay outside.  The theorems quantify over every state reachable
  from an arbitrary initial configuration through ANY finite sequence of events of the extended
  alphabet `ReachR`: every event of C03's alphabet (`Reach`), plus — at any point, any number of
  times — a coordinator restart (`recover()` on the pending map followed by the re-send of every
  pending decision), `complete_commit(tx)` and `complete_abort(tx)` for any `tx`.
  * What still holds over `ReachR`: a commit decision needs every participant's own YES, nothing is
    applied without a commit decision, nothing is discarded without an abort decision, decisions are
    never retracted, and the phase of a pending entry agrees with its decision.
  * What FAILS over `ReachR` on the code as it is: `decide_once` / atomicity — `cleanup_timeouts` and
    `abort` have no phase test, so a transaction that `recover()` moved to `Committing` (COMMIT sent) is
    aborted by the next timeout sweep or `abort()` call (`…_outside_quantifier_witness`).
  * What restores it: runs in which no sweep finds a timed-out `Committing` entry and `abort()` is not
    called on a `Committing` entry (`ReachRS`, hypothesis `Sys.sparesCommitting`).
  * `force_resolve(tx, true)` (alphabet `ReachRF`) commits with the YES votes of only some participants.
-/
namespace Neumann.TwoPC.PropsRecovery
open Neumann.TwoPC

/-- (a) Over the extended alphabet a commit decision — by `commit()` or by `recover()` moving a
    `Prepared` entry to `Committing`, or re-announcing a `Committing` one — is only ever made for a
    transaction each of whose participants has a YES vote in the pool AND answered YES itself (`cast`),
    whatever forged / mis-tagged votes were delivered. -/
theorem recovery_commit_needs_all_yes (stores : List Store) (tt mc lt : Nat) {s : Sys}
    (hr : ReachR (Sys.init stores tt mc lt) s) (tx : Nat) (hd : (tx, true) ∈ s.decided) :
    ∀ sp ∈ s.specs, sp.id = tx → ∀ sh ∈ sp.shards,
      (∃ h ks, Msg.vote tx sh (.yes h ks) ∈ s.msgs) ∧ (tx, sh, true) ∈ s.cast := by
  intro sp hsp hid sh hsh
  have hv := ((InvR.init stores tt mc lt).reach hr).commitYes tx hd sp hsp hid sh hsh
  refine ⟨hv, ?_⟩
  obtain ⟨h, ks, hm⟩ := hv
  have hV := VInv.reachR hr
  apply hV.yesCast tx sh h ks hm
  have hf := findSpec_of_mem hsp hV.specUniq
  rw [hid] at hf
  simp only [isParticipant, hf, List.contains_iff_mem]
  exact hsh

/-- (b) No participant applies a transaction's writes unless a commit decision was made. -/
theorem recovery_no_apply_without_commit (stores : List Store) (tt mc lt : Nat) {s : Sys}
    (hr : ReachR (Sys.init stores tt mc lt) s) (sh tx : Nat) (ha : (sh, tx) ∈ s.applied) :
    (tx, true) ∈ s.decided :=
  ((InvR.init stores tt mc lt).reach hr).applied sh tx ha

/-- (b) A participant discards a prepared (YES-voted) transaction only after an abort decision. -/
theorem recovery_discard_needs_abort_decision (stores : List Store) (tt mc lt : Nat) {s : Sys}
    (hr : ReachR (Sys.init stores tt mc lt) s) (sh tx : Nat) (hd : (sh, tx) ∈ s.discarded) :
    (tx, false) ∈ s.decided :=
  ((InvR.init stores tt mc lt).reach hr).discarded sh tx hd

/-- Every COMMIT / ABORT message in the pool — first broadcast or re-sent after a restart — carries
    a decision that was made. -/
theorem recovery_decision_messages_carry_decisions (stores : List Store) (tt mc lt : Nat) {s : Sys}
    (hr : ReachR (Sys.init stores tt mc lt) s) (tx sh : Nat) :
    (Msg.commit tx sh ∈ s.msgs → (tx, true) ∈ s.decided) ∧
    (Msg.abort tx sh ∈ s.msgs → (tx, false) ∈ s.decided) :=
  ⟨((InvR.init stores tt mc lt).reach hr).commitMsg tx sh, ((InvR.init stores tt mc lt).reach hr).abortMsg tx sh⟩

/-- Decisions are never retracted: no event of the extended alphabet removes one. -/
theorem recovery_decisions_are_stable (stores : List Store) (tt mc lt : Nat) {s s' : Sys}
    (_hr : ReachR (Sys.init stores tt mc lt) s) (hr' : ReachR s s') (tx : Nat) (b : Bool)
    (hd : (tx, b) ∈ s.decided) : (tx, b) ∈ s'.decided :=
  decided_mono_reachR hr' _ hd

/-- The coordinator's pending map agrees with the decisions made: a pending transaction with a commit
    decision is in phase `Committing` (so `get_pending_decisions` lists it as such and `recover()`
    keeps it there), one with an abort decision is in phase `Aborting`; a `Prepared` or `Committing`
    entry has the YES votes of all its participants. -/
theorem recovery_pending_phase_agrees_with_decision (stores : List Store) (tt mc lt : Nat) {s : Sys}
    (hr : ReachR (Sys.init stores tt mc lt) s) (t : DTx) (ht : t ∈ s.coord.pending) :
    ((t.id, true) ∈ s.decided → t.phase = .committing) ∧
    ((t.id, false) ∈ s.decided → t.phase = .aborting) ∧
    (t.phase = .prepared ∨ t.phase = .committing → t.allVoted = true ∧ t.allYes = true) := by
  have hinv := (InvR.init stores tt mc lt).reach hr
  exact ⟨fun hd => hinv.decCommit t.id hd t ht rfl, fun hd => hinv.decAbort t.id hd t ht rfl,
    hinv.prepOk t ht⟩

/-- Where a decision comes from: every decision one event of the extended alphabet adds is the
    decision for a transaction PENDING before the event, made in one of six ways (`Fresh`): a vote
    delivery that moved a `Preparing` entry to `Aborting`, a timeout sweep over a timed-out entry,
    `commit()` on a `Prepared` entry, `abort()` on any entry, `recover()` leaving the entry `Committing`
    resp. `Aborting`.  `complete_commit` / `complete_abort` never decide anything. -/
theorem recovery_every_new_decision_has_a_source (stores : List Store) (tt mc lt : Nat) {s : Sys}
    (hr : ReachR (Sys.init stores tt mc lt) s) (e : EvR) (ha : s.inAlphabetR e = true) (tx : Nat) (b : Bool)
    (hd : (tx, b) ∈ (s.stepX e).decided) :
    (tx, b) ∈ s.decided ∨ ∃ t ∈ s.coord.pending, t.id = tx ∧ Fresh s e t b :=
  decided_fresh ((InvR.init stores tt mc lt).reach hr) e ha tx b hd

/-- (e) `decide_once` over the extended alphabet, along runs that SPARE `Committing` transactions (no
    timeout sweep finds a timed-out `Committing` entry, `abort()` is not called on a `Committing`
    entry — `Sys.sparesCommitting`, checked at every step): per transaction at most one of {commit,
    abort} is ever decided, and the decision is stable.  Coordinator restarts, re-sends,
    `complete_commit` / `complete_abort`, `commit()` / `abort()` calls, sweeps over entries in every
    other phase, message loss / duplication / reordering and forged votes are all allowed, at any
    point.  Both restrictions are necessary: see the two `…_outside_quantifier_witness` theorems. -/
theorem recovery_decide_once_when_committing_is_spared (stores : List Store) (tt mc lt : Nat) {s s' : Sys}
    (hr : ReachRS (Sys.init stores tt mc lt) s) (hr' : ReachRS s s') (tx : Nat) (b : Bool)
    (hd : (tx, b) ∈ s.decided) : (tx, b) ∈ s'.decided ∧ (tx, !b) ∉ s'.decided := by
  have hinv := (InvRS.init stores tt mc lt).reach (hr.trans hr')
  have hd' := decided_mono_reachR hr'.toR _ hd
  refine ⟨hd', ?_⟩
  cases b with
  | true => exact hinv.excl tx hd'
  | false => exact fun h => hinv.excl tx h hd'

/-- (e) Atomicity across shards along such runs: if one participant applied the writes, no
    participant that voted YES discards them. -/
theorem recovery_applied_implies_no_yes_voter_discards_when_committing_is_spared
    (stores : List Store) (tt mc lt : Nat) {s : Sys}
    (hr : ReachRS (Sys.init stores tt mc lt) s) (sh1 sh2 tx : Nat) (ha : (sh1, tx) ∈ s.applied) :
    (sh2, tx) ∉ s.discarded := by
  have hinv := (InvRS.init stores tt mc lt).reach hr
  exact fun hd => hinv.excl tx (hinv.inv.applied sh1 tx ha) (hinv.inv.discarded sh2 tx hd)

/-! ### non-vacuity: a 2-shard run in which tx 0 is committed BY RECOVERY (both YES recorded, restart,
    COMMIT re-sent, applied on both shards, `complete_commit`) and tx 1 is aborted BY RECOVERY (one vote
    recorded, timed out at the restart, ABORT sent, discarded, `complete_abort`); the sweeps find
    no timed-out `Committing` entry (one runs while tx 0 is `Committing` and not timed out), the one
    `abort()` call names an unknown tx -/

def demoInit : Sys := Sys.init [[(1, 5)], []] 2 100 1000

def demoRun : List EvR :=
  [ .base (.begin [0, 1] [(0, [.put 1 7]), (1, [.put 3 9])] []),   -- msgs 0, 1 = PREPARE(0)
    .base (.deliver 0), .base (.deliver 1),                         -- 2, 3 = the YES votes
    .base (.deliver 2), .base (.deliver 3),                         -- tx 0 is Prepared
    .completeCommit 0,                                              -- refused: not Committing
    .coordRecover,                                                  -- Prepared, all YES -> Committing; 4, 5 = COMMIT(0)
    .base .sweep,                                                   -- tx 0 is Committing but not timed out: spared
    .base (.deliver 4), .base (.deliver 5), .completeCommit 0,
    .base (.begin [0, 1] [(0, [.put 1 8]), (1, [.put 3 1])] []),   -- 6, 7 = PREPARE(1)
    .base (.deliver 6), .base (.deliver 8),                         -- 8 = shard 0's YES, recorded; tx 1 stays Preparing
    .base .sweep,                                                   -- nothing timed out
    .base (.tick 3), .coordRecover,                                 -- timed out -> Aborting; 9, 10 = ABORT(1)
    .base (.coordAbort 7),                                          -- unknown tx: refused
    .coordRecover,                                                  -- the abort decision is re-sent: 11, 12
    .base (.deliver 9), .base (.deliver 12), .completeAbort 1,
    .base .sweep ]                                                  -- nothing pending

example : ReachRS demoInit (demoInit.runX demoRun) := reachRS_run .refl _ (by decide)
example : ReachR demoInit (demoInit.runX demoRun) := reachR_run .refl _ (by decide)
example : (demoInit.runX demoRun).decided = [(0, true), (1, false), (1, false)] := by decide
example : (demoInit.runX demoRun).applied = [(0, 0), (1, 0)] := by decide
example : (demoInit.runX demoRun).discarded = [(0, 1)] := by decide
example : (demoInit.runX demoRun).coord.pending.length = 0 := by decide
example : (demoInit.runX demoRun).cast = [(0, 0, true), (0, 1, true), (1, 0, true)] := by decide
example : sget ((demoInit.runX demoRun).storeOf 0) 1 = some 7 ∧ sget ((demoInit.runX demoRun).storeOf 1) 3 = some 9 := by
  decide
-- the restart after both votes: one entry counted `pending_commit`, left `Committing`, listed by `get_pending_decisions`
example : ((demoInit.runX (demoRun.take 6)).coord.recover 0).2 = ⟨0, 1, 0, 0, 0⟩ := by decide
example : (demoInit.runX (demoRun.take 7)).coord.pendingDecisions = [(0, .committing)] := by decide
-- the restart after the timeout: one entry counted `timed_out`, left `Aborting`
example : ((demoInit.runX (demoRun.take 16)).coord.recover 3).2 = ⟨0, 0, 0, 1, 0⟩ := by decide
example : (demoInit.runX (demoRun.take 17)).coord.pendingDecisions = [(1, .aborting)] := by decide
-- `recovery_pending_phase_agrees_with_decision` is not vacuous: after 7 events tx 0 is pending, decided, Committing
example : ((demoInit.runX (demoRun.take 7)).coord.pending.map (fun t => (t.id, t.phase))) = [(0, .committing)] ∧
    (0, true) ∈ (demoInit.runX (demoRun.take 7)).decided := by decide

/-! ### what fails over the extended alphabet on the code as it is -/

/-- (c) Over `ReachR`, `decide_once` and atomicity FAIL.  tx 0 over shards 0, 1 collects both YES votes
    (`Prepared`); the coordinator restarts: `recover()` (not timed out, all YES) moves it to
    `Committing`, COMMIT(0) is sent to both shards and commit is decided; the clock passes the
    transaction timeout; the next `cleanup_timeouts` — which removes EVERY timed-out pending entry,
    whatever its phase, and queues an ABORT broadcast — decides abort for the same transaction.  Shard 0
    receives the COMMIT and applies, shard 1 receives the ABORT and rolls back: the shards are split. -/
theorem recover_then_timeout_sweep_changes_decision_outside_quantifier_witness :
    ∃ s, ReachR (Sys.init [[], []] 2 100 1000) s ∧ (0, true) ∈ s.decided ∧ (0, false) ∈ s.decided ∧
      (0, 0) ∈ s.applied ∧ (1, 0) ∈ s.discarded :=
  ⟨(Sys.init [[], []] 2 100 1000).runX
      [ .base (.begin [0, 1] [(0, [.put 1 7]), (1, [.put 3 9])] []),
        .base (.deliver 0), .base (.deliver 1), .base (.deliver 2), .base (.deliver 3),
        .coordRecover, .base (.tick 3), .base .sweep, .base (.deliver 4), .base (.deliver 7) ],
   reachR_run .refl _ (by decide), by decide, by decide, by decide, by decide⟩

/-- (c′) The same with `abort()` in the place of the sweep — no clock needed: `abort` accepts an entry
    in ANY phase, also `Committing`.  So both conjuncts of `Sys.sparesCommitting` are necessary. -/
theorem recover_then_abort_changes_decision_outside_quantifier_witness :
    ∃ s, ReachR (Sys.init [[], []] 2 100 1000) s ∧ (0, true) ∈ s.decided ∧ (0, false) ∈ s.decided ∧
      (0, 0) ∈ s.applied ∧ (1, 0) ∈ s.discarded :=
  ⟨(Sys.init [[], []] 2 100 1000).runX
      [ .base (.begin [0, 1] [(0, [.put 1 7]), (1, [.put 3 9])] []),
        .base (.deliver 0), .base (.deliver 1), .base (.deliver 2), .base (.deliver 3),
        .coordRecover, .base (.coordAbort 0), .base (.deliver 4), .base (.deliver 7) ],
   reachR_run .refl _ (by decide), by decide, by decide, by decide, by decide⟩

/-- (d) With `force_resolve` in the alphabet, `commit_needs_all_yes` FAILS: `all_yes()` is
    `votes.values().all(Yes)` — true of the votes PRESENT.  tx 0 over shards 0, 1 has only shard 0's YES
    recorded (phase `Preparing`; shard 1 never received its PREPARE); `force_resolve(0, true)` succeeds,
    commit is decided and shard 0 applies its writes, while no YES vote of participant 1 exists and
    shard 1 never answered. -/
theorem force_resolve_commits_without_all_yes_outside_quantifier_witness :
    ∃ s, ReachRF (Sys.init [[], []] 2 100 1000) s ∧ (0, true) ∈ s.decided ∧ (0, 0) ∈ s.applied ∧
      (findSpec s.specs 0).map (·.shards) = some [0, 1] ∧
      (∀ h ks, Msg.vote 0 1 (.yes h ks) ∉ s.msgs) ∧ (∀ b, (0, 1, b) ∉ s.cast) := by
  refine ⟨(Sys.init [[], []] 2 100 1000).runX
      [ .base (.begin [0, 1] [(0, [.put 1 7]), (1, [.put 3 9])] []),
        .base (.deliver 0), .base (.deliver 2), .forceResolve 0 true, .base (.deliver 3) ],
    reachRF_run .refl _ (by decide), by decide, by decide, by decide, ?_, ?_⟩
  · intro h ks hm
    have e : ((Sys.init [[], []] 2 100 1000).runX
      [ .base (.begin [0, 1] [(0, [.put 1 7]), (1, [.put 3 9])] []),
        .base (.deliver 0), .base (.deliver 2), .forceResolve 0 true, .base (.deliver 3) ]).msgs =
        [.prepare 0 0 [.put 1 7], .prepare 0 1 [.put 3 9], .vote 0 0 (.yes 0 [1]), .commit 0 0, .commit 0 1] := by
      decide
    rw [e] at hm
    simp at hm
  · intro b hm
    have e : ((Sys.init [[], []] 2 100 1000).runX
      [ .base (.begin [0, 1] [(0, [.put 1 7]), (1, [.put 3 9])] []),
        .base (.deliver 0), .base (.deliver 2), .forceResolve 0 true, .base (.deliver 3) ]).cast =
        [(0, 0, true)] := by
      decide
    rw [e] at hm
    simp at hm

end Neumann.TwoPC.PropsRecovery
