import NeumannModel.TwoPC.LemmasPart
/-
  C03 — what is applied is what the client asked for: every PREPARE in the pool, every prepared
  record on shard `sh` and every logged application on shard `sh` carries exactly the operations the
  client named for that shard when it began the transaction (`TxSpec.opsFor`).
-/
namespace Neumann.TwoPC

structure OInv (s : Sys) : Prop where
  msg : ∀ tx sh ops, Msg.prepare tx sh ops ∈ s.msgs → ∃ sp ∈ s.specs, sp.id = tx ∧ ops = sp.opsFor sh
  prep : ∀ sh p, s.parts[sh]? = some p → ∀ pt ∈ p.prepared,
    ∃ sp ∈ s.specs, sp.id = pt.tx ∧ pt.ops = sp.opsFor sh
  app : ∀ sh tx ops, (sh, tx, ops) ∈ s.appliedOps → ∃ sp ∈ s.specs, sp.id = tx ∧ ops = sp.opsFor sh

theorem OInv.init (stores : List Store) (a b c : Nat) : OInv (Sys.init stores a b c) := by
  refine ⟨?_, ?_, ?_⟩
  · intro tx sh ops hm; simp [Sys.init] at hm
  · intro sh p hp pt hpt
    simp only [Sys.init, List.getElem?_map] at hp
    cases hs : stores[sh]? with
    | none => simp [hs] at hp
    | some st =>
      simp only [hs, Option.map_some, Option.some.injEq] at hp
      subst hp
      simp at hpt
  · intro sh tx ops hx; simp [Sys.init] at hx

/-- frame: same clients, same participants, same application log, no new PREPARE -/
theorem OInv.frame {s s' : Sys} (h : OInv s) (hs : s'.specs = s.specs) (hp : s'.parts = s.parts)
    (ha : s'.appliedOps = s.appliedOps)
    (hm : ∀ tx sh ops, Msg.prepare tx sh ops ∈ s'.msgs → Msg.prepare tx sh ops ∈ s.msgs) : OInv s' := by
  refine ⟨?_, ?_, ?_⟩
  · intro tx sh ops hmm; rw [hs]; exact h.msg tx sh ops (hm tx sh ops hmm)
  · rw [hs, hp]; exact h.prep
  · rw [hs, ha]; exact h.app

theorem OInv.step {s : Sys} (h : OInv s) (e : Ev) (ha : s.inAlphabet e = true) : OInv (s.step e) := by
  cases e with
  | tick d => exact h.frame rfl rfl rfl (fun _ _ _ hm => hm)
  | cleanupStale sh t => simp [Sys.inAlphabet] at ha
  | recover sh t => simp [Sys.inAlphabet] at ha
  | forge tx sh v =>
    refine h.frame rfl rfl rfl ?_
    intro tx' sh' ops hm
    simp only [Sys.step, Sys.stepR, List.mem_append, List.mem_singleton] at hm
    rcases hm with h1 | h1
    · exact h1
    · cases h1
  | sweep =>
    refine h.frame rfl rfl rfl ?_
    intro tx sh ops hm
    simp only [Sys.step, Sys.stepR, Sys.drain, List.mem_append] at hm
    rcases hm with h1 | h1
    · exact h1
    · simp only [abortMsgs, List.mem_flatMap, List.mem_map] at h1
      obtain ⟨_, _, _, _, h2⟩ := h1
      cases h2
  | coordCommit tx =>
    simp only [Sys.step, Sys.stepR]
    split
    · refine h.frame rfl rfl rfl ?_
      intro tx' sh' ops hm
      simp only [List.mem_append, List.mem_map] at hm
      rcases hm with h1 | ⟨_, _, h2⟩
      · exact h1
      · cases h2
    · exact h
    · exact h
  | coordAbort tx =>
    simp only [Sys.step, Sys.stepR]
    split
    · refine h.frame rfl rfl rfl ?_
      intro tx' sh' ops hm
      simp only [List.mem_append, List.mem_map] at hm
      rcases hm with h1 | ⟨_, _, h2⟩
      · exact h1
      · cases h2
    · exact h
    · exact h
  | begin shards ops sim =>
    simp only [Sys.step, Sys.stepR]
    split
    · exact h
    · rename_i r hb
      refine ⟨?_, ?_, ?_⟩
      · intro tx sh ops' hm
        rcases List.mem_append.1 hm with h1 | h1
        · obtain ⟨sp, hsp, hid, ho⟩ := h.msg tx sh ops' h1
          exact ⟨sp, List.mem_append.2 (Or.inl hsp), hid, ho⟩
        · simp only [List.mem_map, Msg.prepare.injEq] at h1
          obtain ⟨sh', _, rfl, rfl, rfl⟩ := h1
          exact ⟨_, List.mem_append.2 (Or.inr (List.mem_singleton.2 rfl)), rfl, rfl⟩
      · intro sh p hp pt hpt
        obtain ⟨sp, hsp, hid, ho⟩ := h.prep sh p hp pt hpt
        exact ⟨sp, List.mem_append.2 (Or.inl hsp), hid, ho⟩
      · intro sh tx ops' hx
        obtain ⟨sp, hsp, hid, ho⟩ := h.app sh tx ops' hx
        exact ⟨sp, List.mem_append.2 (Or.inl hsp), hid, ho⟩
  | deliver i =>
    simp only [Sys.step, Sys.stepR]
    split
    · exact h
    · rename_i m hm
      have hmm : m ∈ s.msgs := List.mem_of_getElem? hm
      cases m with
      | vote tx sh v =>
        simp only [Sys.deliverMsg]
        split
        · exact h
        · refine h.frame rfl rfl rfl ?_
          intro tx' sh' ops hm'
          simp only [Sys.drain, List.mem_append] at hm'
          rcases hm' with h1 | h1
          · exact h1
          · simp only [abortMsgs, List.mem_flatMap, List.mem_map] at h1
            obtain ⟨_, _, _, _, h2⟩ := h1
            cases h2
      | prepare tx sh ops =>
        simp only [Sys.deliverMsg]
        split
        · exact h
        · rename_i p hp
          refine ⟨?_, ?_, h.app⟩
          · intro tx' sh' ops' hm'
            simp only [List.mem_append, List.mem_singleton] at hm'
            rcases hm' with h1 | h1
            · exact h.msg tx' sh' ops' h1
            · cases h1
          · intro sh' q hq pt hpt
            simp only [getElem?_set'] at hq
            split at hq
            · rename_i hc
              obtain ⟨rfl, _⟩ := hc
              cases hq
              rcases prepare_eq p s.now s.nextHandle tx ops with ⟨c, he⟩ | ⟨lt, _, he⟩
              · rw [he] at hpt; exact h.prep sh p hp pt hpt
              · rw [he] at hpt
                rcases List.mem_cons.1 hpt with rfl | h2
                · exact h.msg tx sh ops hmm
                · exact h.prep sh p hp pt (mem_removePrepared.1 h2).1
            · exact h.prep sh' q hq pt hpt
      | commit tx sh =>
        simp only [Sys.deliverMsg]
        split
        · exact h
        · rename_i p hp
          refine ⟨h.msg, ?_, ?_⟩
          · intro sh' q hq pt hpt
            simp only [getElem?_set'] at hq
            split at hq
            · rename_i hc
              obtain ⟨rfl, _⟩ := hc
              cases hq
              unfold Participant.commit at hpt
              split at hpt
              · exact h.prep sh p hp pt hpt
              · exact h.prep sh p hp pt (mem_removePrepared.1 hpt).1
            · exact h.prep sh' q hq pt hpt
          · intro sh' tx' ops' hx
            simp only at hx
            split at hx
            · rename_i pt hf
              rcases List.mem_append.1 hx with h1 | h1
              · exact h.app sh' tx' ops' h1
              · simp only [List.mem_singleton, Prod.mk.injEq] at h1
                obtain ⟨rfl, rfl, rfl⟩ := h1
                obtain ⟨hpm, htx⟩ := findPrepared_some hf
                obtain ⟨sp, hsp, hid, ho⟩ := h.prep sh' p hp pt hpm
                exact ⟨sp, hsp, hid.trans htx, ho⟩
            · exact h.app sh' tx' ops' hx
      | abort tx sh =>
        simp only [Sys.deliverMsg]
        split
        · exact h
        · rename_i p hp
          refine ⟨h.msg, ?_, h.app⟩
          intro sh' q hq pt hpt
          simp only [getElem?_set'] at hq
          split at hq
          · rename_i hc
            obtain ⟨rfl, _⟩ := hc
            cases hq
            unfold Participant.abort at hpt
            split at hpt
            · exact h.prep sh p hp pt hpt
            · exact h.prep sh p hp pt (mem_removePrepared.1 hpt).1
          · exact h.prep sh' q hq pt hpt

theorem OInv.reach {stores : List Store} {a b c : Nat} {s : Sys}
    (hr : Reach (Sys.init stores a b c) s) : OInv s := by
  induction hr with
  | refl => exact OInv.init stores a b c
  | step e _ ha ih => exact ih.step e ha

end Neumann.TwoPC
