import NeumannModel.TwoPC.Lemmas
/-
  C03 — where YES votes come from.  `VInv`: every YES vote in the pool that carries the shard id of
  a real participant of its (begun) transaction was produced by that participant's own `prepare`
  (ghost `cast`), although the network may add forged / mis-tagged votes (`Ev.forge`): NO / CONFLICT
  votes for any transaction and shard, YES votes tagged with a non-participant shard.
-/
namespace Neumann.TwoPC

theorem findSpec_some {l : List TxSpec} {tx : Nat} {sp : TxSpec} (h : findSpec l tx = some sp) :
    sp ∈ l ∧ sp.id = tx := by
  induction l with
  | nil => simp [findSpec] at h
  | cons a r ih =>
    simp only [findSpec] at h
    split at h
    · cases h; exact ⟨List.mem_cons_self .., by assumption⟩
    · exact ⟨List.mem_cons_of_mem _ (ih h).1, (ih h).2⟩

theorem findSpec_append (l : List TxSpec) (sp : TxSpec) (tx : Nat) :
    findSpec (l ++ [sp]) tx =
      match findSpec l tx with
      | some x => some x
      | none => if sp.id = tx then some sp else none := by
  induction l with
  | nil => simp [findSpec]
  | cons a r ih =>
    simp only [List.cons_append, findSpec]
    split
    · rfl
    · exact ih

theorem findSpec_of_mem {l : List TxSpec} {sp : TxSpec} (hm : sp ∈ l)
    (hu : ∀ a ∈ l, ∀ b ∈ l, a.id = b.id → a = b) : findSpec l sp.id = some sp := by
  induction l with
  | nil => simp at hm
  | cons a r ih =>
    simp only [findSpec]
    split
    · rename_i he
      rw [hu a (List.mem_cons_self ..) sp hm he]
    · rename_i hne
      rcases List.mem_cons.1 hm with rfl | h1
      · exact absurd rfl hne
      · exact ih h1 (fun x hx y hy => hu x (List.mem_cons_of_mem _ hx) y (List.mem_cons_of_mem _ hy))

structure VInv (s : Sys) : Prop where
  specUniq : ∀ sp ∈ s.specs, ∀ sp' ∈ s.specs, sp.id = sp'.id → sp = sp'
  prepLt : ∀ tx sh ops, Msg.prepare tx sh ops ∈ s.msgs → tx < s.coord.nextTx
  yesLt : ∀ tx sh h ks, Msg.vote tx sh (.yes h ks) ∈ s.msgs → tx < s.coord.nextTx
  yesCast : ∀ tx sh h ks, Msg.vote tx sh (.yes h ks) ∈ s.msgs → isParticipant s.specs tx sh = true →
    (tx, sh, true) ∈ s.cast

theorem VInv.init (stores : List Store) (a b c : Nat) : VInv (Sys.init stores a b c) := by
  constructor <;> simp [Sys.init]

/-- frame: same clients, same tx-id counter, `cast` only grows, every new message is a COMMIT or an ABORT -/
theorem VInv.frame {s s' : Sys} (h : VInv s) (hs : s'.specs = s.specs)
    (hn : s'.coord.nextTx = s.coord.nextTx) (hc : ∀ x ∈ s.cast, x ∈ s'.cast)
    (hm : ∀ m ∈ s'.msgs, m ∈ s.msgs ∨ ∃ tx sh, m = Msg.commit tx sh ∨ m = Msg.abort tx sh) : VInv s' := by
  refine ⟨by rw [hs]; exact h.specUniq, ?_, ?_, ?_⟩
  · intro tx sh ops hmm
    rw [hn]
    rcases hm _ hmm with h1 | ⟨_, _, h1 | h1⟩
    · exact h.prepLt tx sh ops h1
    · cases h1
    · cases h1
  · intro tx sh hh ks hmm
    rw [hn]
    rcases hm _ hmm with h1 | ⟨_, _, h1 | h1⟩
    · exact h.yesLt tx sh hh ks h1
    · cases h1
    · cases h1
  · intro tx sh hh ks hmm hp
    rw [hs] at hp
    rcases hm _ hmm with h1 | ⟨_, _, h1 | h1⟩
    · exact hc _ (h.yesCast tx sh hh ks h1 hp)
    · cases h1
    · cases h1

theorem mem_abortMsgs_kind {l : List (Nat × AbortReason × List Nat)} {m : Msg} (h : m ∈ abortMsgs l) :
    ∃ tx sh, m = Msg.commit tx sh ∨ m = Msg.abort tx sh := by
  obtain ⟨a, _, sh, _, rfl⟩ := mem_abortMsgs.1 h
  exact ⟨a.1, sh, Or.inr rfl⟩

theorem VInv.step {s : Sys} (h : VInv s) (hA : InvA s) (e : Ev) (ha : s.inAlphabet e = true) :
    VInv (s.step e) := by
  cases e with
  | tick d => exact h.frame rfl rfl (fun _ hx => hx) (fun _ hm => Or.inl hm)
  | cleanupStale sh t => simp [Sys.inAlphabet] at ha
  | recover sh t => simp [Sys.inAlphabet] at ha
  | sweep =>
    refine h.frame rfl rfl (fun _ hx => hx) ?_
    intro m hm
    simp only [Sys.step, Sys.stepR, Sys.drain, List.mem_append] at hm
    rcases hm with h1 | h1
    · exact Or.inl h1
    · exact Or.inr (mem_abortMsgs_kind h1)
  | coordCommit tx =>
    simp only [Sys.step, Sys.stepR]
    split
    · rename_i t c _ hc
      obtain ⟨_, _, _, rfl⟩ := commit_ok hc
      refine h.frame rfl rfl (fun _ hx => hx) ?_
      intro m hm
      simp only [List.mem_append, List.mem_map] at hm
      rcases hm with h1 | ⟨sh, _, rfl⟩
      · exact Or.inl h1
      · exact Or.inr ⟨tx, sh, Or.inl rfl⟩
    · exact h
    · exact h
  | coordAbort tx =>
    simp only [Sys.step, Sys.stepR]
    split
    · rename_i t c _ hc
      obtain ⟨_, _, rfl⟩ := abort_ok hc
      refine h.frame rfl rfl (fun _ hx => hx) ?_
      intro m hm
      simp only [List.mem_append, List.mem_map] at hm
      rcases hm with h1 | ⟨sh, _, rfl⟩
      · exact Or.inl h1
      · exact Or.inr ⟨tx, sh, Or.inr rfl⟩
    · exact h
    · exact h
  | forge tx sh v =>
    simp only [Sys.inAlphabet, Bool.or_eq_true, Bool.not_eq_true', Bool.and_eq_true] at ha
    refine ⟨h.specUniq, ?_, ?_, ?_⟩
    · intro tx' sh' ops hm
      simp only [Sys.step, Sys.stepR, List.mem_append, List.mem_singleton] at hm
      rcases hm with h1 | h1
      · exact h.prepLt tx' sh' ops h1
      · cases h1
    · intro tx' sh' hh ks hm
      simp only [Sys.step, Sys.stepR, List.mem_append, List.mem_singleton, Msg.vote.injEq] at hm
      rcases hm with h1 | ⟨rfl, rfl, rfl⟩
      · exact h.yesLt tx' sh' hh ks h1
      · rcases ha with h2 | ⟨h2, _⟩
        · simp [Vote.isYes] at h2
        · simp only [knownTx, Option.isSome_iff_exists] at h2
          obtain ⟨sp, hsp⟩ := h2
          obtain ⟨hm1, hid⟩ := findSpec_some hsp
          show tx' < s.coord.nextTx
          rw [← hid]; exact hA.specLt sp hm1
    · intro tx' sh' hh ks hm hp
      simp only [Sys.step, Sys.stepR, List.mem_append, List.mem_singleton, Msg.vote.injEq] at hm
      rcases hm with h1 | ⟨rfl, rfl, rfl⟩
      · exact h.yesCast tx' sh' hh ks h1 hp
      · rcases ha with h2 | ⟨_, h2⟩
        · simp [Vote.isYes] at h2
        · have hp' : isParticipant s.specs tx' sh' = true := hp
          rw [hp'] at h2; cases h2
  | begin shards ops sim =>
    simp only [Sys.step, Sys.stepR]
    split
    · exact h
    · rename_i r hb
      unfold Coordinator.begin at hb
      split at hb
      · cases hb
      · cases hb
        refine ⟨?_, ?_, ?_, ?_⟩
        · intro sp hsp sp' hsp' hid
          simp only [List.mem_append, List.mem_singleton] at hsp hsp'
          rcases hsp with h1 | rfl <;> rcases hsp' with h2 | rfl
          · exact h.specUniq sp h1 sp' h2 hid
          · have := hA.specLt sp h1; simp only at hid; omega
          · have := hA.specLt sp' h2; simp only at hid; omega
          · rfl
        · intro tx sh ops' hm
          simp only [List.mem_append, List.mem_map, Msg.prepare.injEq] at hm
          rcases hm with h1 | ⟨_, _, rfl, _, _⟩
          · exact Nat.lt_succ_of_lt (h.prepLt tx sh ops' h1)
          · exact Nat.lt_succ_self _
        · intro tx sh hh ks hm
          simp only [List.mem_append, List.mem_map] at hm
          rcases hm with h1 | ⟨_, _, h2⟩
          · exact Nat.lt_succ_of_lt (h.yesLt tx sh hh ks h1)
          · cases h2
        · intro tx sh hh ks hm hp
          simp only [List.mem_append, List.mem_map] at hm
          rcases hm with h1 | ⟨_, _, h2⟩
          · have hlt := h.yesLt tx sh hh ks h1
            apply h.yesCast tx sh hh ks h1
            simp only [isParticipant, findSpec_append] at hp ⊢
            cases hf : findSpec s.specs tx with
            | some x => rw [hf] at hp; exact hp
            | none =>
              rw [hf] at hp
              simp only at hp
              have : ¬ s.coord.nextTx = tx := by omega
              simp [this] at hp
          · cases h2
  | deliver i =>
    simp only [Sys.step, Sys.stepR]
    split
    · exact h
    · rename_i m hm
      have hmem := mem_of_getElem? hm
      cases m with
      | vote tx sh v =>
        simp only [Sys.deliverMsg]
        split
        · exact h
        · rename_i r hr
          obtain ⟨_, _, _, _, _, _, hn, _⟩ := recordVote_ok (r := r.2) (c' := r.1) hr
          refine h.frame rfl hn (fun _ hx => hx) ?_
          intro m' hm'
          simp only [Sys.drain, List.mem_append] at hm'
          rcases hm' with h1 | h1
          · exact Or.inl h1
          · exact Or.inr (mem_abortMsgs_kind h1)
      | commit tx sh =>
        simp only [Sys.deliverMsg]
        split
        · exact h
        · exact h.frame rfl rfl (fun _ hx => hx) (fun _ hm' => Or.inl hm')
      | abort tx sh =>
        simp only [Sys.deliverMsg]
        split
        · exact h
        · exact h.frame rfl rfl (fun _ hx => hx) (fun _ hm' => Or.inl hm')
      | prepare tx sh ops =>
        simp only [Sys.deliverMsg]
        split
        · exact h
        · rename_i p hp
          refine ⟨h.specUniq, ?_, ?_, ?_⟩
          · intro tx' sh' ops' hm'
            simp only [List.mem_append, List.mem_singleton] at hm'
            rcases hm' with h1 | h1
            · exact h.prepLt tx' sh' ops' h1
            · cases h1
          · intro tx' sh' hh ks hm'
            simp only [List.mem_append, List.mem_singleton, Msg.vote.injEq] at hm'
            rcases hm' with h1 | ⟨rfl, rfl, _⟩
            · exact h.yesLt tx' sh' hh ks h1
            · exact h.prepLt tx' sh' ops hmem
          · intro tx' sh' hh ks hm' hpp
            simp only [List.mem_append, List.mem_singleton, Msg.vote.injEq] at hm'
            rcases hm' with h1 | ⟨rfl, rfl, h3⟩
            · exact List.mem_append.2 (Or.inl (h.yesCast tx' sh' hh ks h1 hpp))
            · apply List.mem_append.2; right
              simp only [List.mem_singleton, Prod.mk.injEq, true_and]
              rw [← h3]; rfl

theorem VInv.reach {stores : List Store} {a b c : Nat} {s : Sys}
    (hr : Reach (Sys.init stores a b c) s) : VInv s := by
  induction hr with
  | refl => exact VInv.init stores a b c
  | step e hr' ha ih => exact ih.step ((InvA.init stores a b c).reach hr') e ha

/-- every answer in `cast` was produced by delivering a PREPARE to the shard: `cast` only grows at a
    PREPARE delivery, by exactly the participant's answer -/
theorem cast_step (s : Sys) (e : Ev) :
    (s.step e).cast = s.cast ∨
    ∃ i tx sh ops p, e = .deliver i ∧ s.msgs[i]? = some (Msg.prepare tx sh ops) ∧ s.parts[sh]? = some p ∧
      (s.step e).cast = s.cast ++ [(tx, sh, (p.prepare s.now s.nextHandle tx ops).2.isYes)] := by
  cases e with
  | begin shards ops sim => left; simp only [Sys.step, Sys.stepR]; split <;> rfl
  | sweep => left; rfl
  | tick d => left; rfl
  | forge tx sh v => left; rfl
  | coordCommit tx => left; simp only [Sys.step, Sys.stepR]; split <;> rfl
  | coordAbort tx => left; simp only [Sys.step, Sys.stepR]; split <;> rfl
  | cleanupStale sh t => left; simp only [Sys.step, Sys.stepR]; split <;> rfl
  | recover sh t => left; simp only [Sys.step, Sys.stepR]; split <;> rfl
  | deliver i =>
    simp only [Sys.step, Sys.stepR]
    split
    · left; rfl
    · rename_i m hm
      cases m with
      | vote tx sh v => left; simp only [Sys.deliverMsg]; split <;> rfl
      | commit tx sh => left; simp only [Sys.deliverMsg]; split <;> rfl
      | abort tx sh => left; simp only [Sys.deliverMsg]; split <;> rfl
      | prepare tx sh ops =>
        simp only [Sys.deliverMsg]
        split
        · left; rfl
        · rename_i p hp
          right
          exact ⟨i, tx, sh, ops, p, rfl, hm, hp, rfl⟩

end Neumann.TwoPC
