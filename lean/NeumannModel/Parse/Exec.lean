/-
  C15, third clause — "executing a statement given as text has the same effect and result as the
  equivalent direct engine call": the part of a statement the query router interprets ITSELF after the
  engine call has returned (query_router/src/lib.rs, /repo 6f865e8a).

  `QueryRouter::exec_select`                     (no JOIN)          rows := relational.select_columnar(table, cond, projection)
  `QueryRouter::exec_select_with_joins`          (one JOIN)         rows := merge_rows(relational.<kind>_join(..)); rows.retain(WHERE)
      then, in BOTH functions, the same tail:
          if !order_by.is_empty() { sort_rows(&mut rows, order_by) }             -- slice::sort_by: a STABLE sort
          if let Some(e) = offset { if let Literal(Integer(n)) = e {             -- anything else: clause ignored
                if n < rows.len() { rows = rows.skip(n) } else { rows.clear() } } }
          if let Some(e) = limit  { if let Literal(Integer(n)) = e { rows.truncate(n) } }
  `try_exec_aggregates` / `exec_grouped_aggregates`                 return BEFORE that tail (aggregate select lists
                                                                    and GROUP BY never reach ORDER BY / OFFSET / LIMIT)
  `exec_node` NodeOp::List / `exec_edge` EdgeOp::List               limit := expr_to_usize(e)? or 1000, offset := … or 0,
                                                                    scan_find_*: items.skip(offset).take(limit)
  `exec_find` with WHERE                                            limit := expr_to_usize(e)? or 100, offset 0
  `ShowEmbeddings { limit }`                                        keys.take(expr_to_usize(e)? or 100)

  The input of the model is the OUTPUT of the direct engine call (the rows in the order the engine returned
  them, each with the cells the projection kept); the output is the list the statement returns.  A sort key is
  `absent` (the row has no such column: `get_sort_value` = `None` — a sort column outside the select list, the
  other side's columns in an outer-join row without partner), `null` (`Some(Value::Null)`) or an integer (the
  harness sends strings as order-isomorphic integers).  Since /repo 1133d8d8 `compare_values_with_nulls` treats
  `absent` and `null` alike (both follow the NULLS FIRST / LAST rule); the comparator before that commit is kept as
  `cmpNullsOld` / `cmpRowsOld`.
-/
namespace Neumann.Parse.Exec

/-- How a LIMIT / OFFSET expression looks to the router: not written, an integer literal (the lexer only
produces non-negative ones; `-1` is `Unary(Neg, 1)`), or any other expression. -/
inductive Clause where
  | absent
  | lit (n : Nat)
  | other
deriving DecidableEq, Repr

/-- what `get_sort_value` answers for one ORDER BY item and one row -/
inductive Cell where
  /-- `None`: the row has no cell of that column -/
  | absent
  /-- `Some(Value::Null)` -/
  | null
  | val (v : Int)
deriving DecidableEq, Repr

structure Row where
  /-- position of the row in the direct engine call's answer -/
  id : Nat
  /-- `Row::values`: (column, value) pairs, only the columns the row has; `none` = SQL NULL -/
  cells : List (Nat × Option Int)
deriving DecidableEq, Repr

/-- `get_sort_value` on a column reference: first cell of that column -/
def Row.get (r : Row) (c : Nat) : Cell :=
  match r.cells.find? (fun p => p.1 == c) with
  | some (_, none) => .null
  | some (_, some v) => .val v
  | none => .absent

structure OrderItem where
  col : Nat
  /-- `SortDirection::Desc` -/
  desc : Bool
  /-- `Some(NullsOrder::First)` = `some true`, `Some(NullsOrder::Last)` = `some false` -/
  nulls : Option Bool
deriving DecidableEq, Repr

def cmpInt (a b : Int) : Ordering :=
  if a < b then .lt else if a = b then .eq else .gt

/-- `a.filter(|v| !matches!(v, Value::Null))` (/repo 1133d8d8): after the filter a cell that is missing and a cell
that holds NULL are the same `None`; only a present non-NULL value is `Some` -/
def Cell.filterNull : Cell → Option Int
  | .val v => some v
  | _ => none

/-- `compare_values_with_nulls(a, b, nulls_order)` as it is since /repo 1133d8d8, arm by arm; `nf` =
`nulls_order.unwrap_or(Last) == First`:
      let a = a.filter(|v| !matches!(v, Value::Null));  let b = b.filter(|v| !matches!(v, Value::Null));
      (None, None)         => Equal
      (None, Some(_))      => First: Less,    Last: Greater
      (Some(_), None)      => First: Greater, Last: Less
      (Some(va), Some(vb)) => compare_values(va, vb) -/
def cmpNulls (a b : Cell) (nf : Bool) : Ordering :=
  match a.filterNull, b.filterNull with
  | none, none => .eq
  | none, some _ => if nf then .lt else .gt
  | some _, none => if nf then .gt else .lt
  | some x, some y => cmpInt x y

/-- one pass of the loop of `sort_rows`: the comparison INCLUDING the placement of NULLs is reversed for DESC -/
def cmpItem (it : OrderItem) (a b : Row) : Ordering :=
  let c := cmpNulls (a.get it.col) (b.get it.col) (it.nulls.getD false)
  if it.desc then c.swap else c

/-- the closure given to `sort_by`: first item that does not answer `Equal` decides -/
def cmpRows : List OrderItem → Row → Row → Ordering
  | [], _, _ => .eq
  | it :: its, a, b =>
    match cmpItem it a b with
    | .eq => cmpRows its a b
    | c => c

/-! ### the comparator BEFORE /repo 1133d8d8 (kept for the `…_witness` theorem and for "the repair changed nothing
else"): no filter, a missing cell and a NULL cell met in the catch-all arms -/

/-- `compare_values_with_nulls` before the repair, arm by arm:
      (None, None) | (Some(Null), Some(Null)) => Equal
      (None | Some(Null), _)                  => First: Less,    Last: Greater     -- ALSO (None, Some(Null)) and (Some(Null), None)
      (_, None | Some(Null))                  => First: Greater, Last: Less
      (Some(va), Some(vb))                    => compare_values(va, vb) -/
def cmpNullsOld (a b : Cell) (nf : Bool) : Ordering :=
  match a, b with
  | .absent, .absent => .eq
  | .null, .null => .eq
  | .val x, .val y => cmpInt x y
  | .val _, _ => if nf then .gt else .lt
  | _, _ => if nf then .lt else .gt

def cmpItemOld (it : OrderItem) (a b : Row) : Ordering :=
  let c := cmpNullsOld (a.get it.col) (b.get it.col) (it.nulls.getD false)
  if it.desc then c.swap else c

def cmpRowsOld : List OrderItem → Row → Row → Ordering
  | [], _, _ => .eq
  | it :: its, a, b =>
    match cmpItemOld it a b with
    | .eq => cmpRowsOld its a b
    | c => c

/-- a sort column for which some row has no cell and another row has NULL (an outer join whose result holds both
a NULL = NULL partner row and a row without partner): the pre-repair comparator answered `Greater` (or `Less`) BOTH
ways round for such a pair.  Rows of one table, of an inner / cross / natural join, and of an outer join whose sort
column has no NULL never have such a column. -/
def mixedCol (rows : List Row) (c : Nat) : Bool :=
  rows.any (fun r => r.get c == .absent) && rows.any (fun r => r.get c == .null)

/-- the rows the pre-repair comparator ordered consistently -/
def consistent (order : List OrderItem) (rows : List Row) : Bool :=
  order.all (fun it => !mixedCol rows it.col)

/-- insert `x`, which stood in front of every element of the (sorted) list, before the first element it is
not greater than -/
def insertBy {α : Type} (cmp : α → α → Ordering) (x : α) : List α → List α
  | [] => [x]
  | y :: ys => if cmp x y = .gt then y :: insertBy cmp x ys else x :: y :: ys

/-- a stable sort (`slice::sort_by` is one; for a comparator that is a total preorder every stable sort
returns the same list) -/
def sortBy {α : Type} (cmp : α → α → Ordering) : List α → List α
  | [] => []
  | x :: xs => insertBy cmp x (sortBy cmp xs)

def sortRows (order : List OrderItem) (rows : List Row) : List Row :=
  sortBy (cmpRows order) rows

/-- what a stable sort did with the pre-repair comparator WHERE that comparator was an order (`consistent`);
elsewhere `sort_by` was free to do anything, a panic included -/
def sortRowsOld (order : List OrderItem) (rows : List Row) : List Row :=
  sortBy (cmpRowsOld order) rows

/-- "Apply OFFSET clause if present" -/
def applyOffset {α : Type} (c : Clause) (rows : List α) : List α :=
  match c with
  | .lit o => if o < rows.length then rows.drop o else []
  | _ => rows

/-- "Apply LIMIT clause if present": `Vec::truncate` -/
def applyLimit {α : Type} (c : Clause) (rows : List α) : List α :=
  match c with
  | .lit k => rows.take k
  | _ => rows

/-- The clauses of a SELECT the router evaluates itself.  `distinct` is parsed (`SelectStmt::distinct`) and
read by no execution path; `aggregate` = the select list has COUNT/SUM/AVG/MIN/MAX or GROUP BY is present. -/
structure Sel where
  distinct : Bool := false
  aggregate : Bool := false
  order : List OrderItem := []
  limit : Clause := .absent
  offset : Clause := .absent
deriving DecidableEq, Repr

/-- the common tail of `exec_select` and `exec_select_with_joins` -/
def selectTail (s : Sel) (base : List Row) : List Row :=
  applyLimit s.limit (applyOffset s.offset (if s.order.isEmpty then base else sortRows s.order base))

/-- `exec_select` after the engine calls: `base` = answer of the row query, `agg` = rows built from the
aggregate calls (returned as they are) -/
def execSelect (s : Sel) (base agg : List Row) : List Row :=
  if s.aggregate then agg else selectTail s base

/-- the window `skip(o).take(k)` -/
def window {α : Type} (o k : Nat) (xs : List α) : List α := (xs.drop o).take k

/-- `limit.map(expr_to_usize).transpose()?.unwrap_or(default)` -/
def resolve (c : Clause) (dflt : Nat) : Option Nat :=
  match c with
  | .absent => some dflt
  | .lit n => some n
  | .other => none

/-- NODE LIST / EDGE LIST (`scan_find_nodes` / `scan_find_edges`): `none` = InvalidArgument -/
def execList {α : Type} (limit offset : Clause) (items : List α) : Option (List α) :=
  match resolve limit 1000, resolve offset 0 with
  | some k, some o => some ((items.drop o).take k)
  | _, _ => none

/-- FIND … WHERE … [LIMIT n] (`effective_limit = limit.unwrap_or(100)`, offset 0) and SHOW EMBEDDINGS [LIMIT n] -/
def execTake {α : Type} (limit : Clause) (items : List α) : Option (List α) :=
  match resolve limit 100 with
  | some k => some (items.take k)
  | none => none

/-! ### variants that are NOT the code (for the `…_witness` theorems) -/

/-- the LIMIT step with `0` doubling as "no limit" (`let limit = …unwrap_or(0); if limit > 0 { truncate }`) -/
def applyLimitZeroSentinel {α : Type} (c : Clause) (rows : List α) : List α :=
  match c with
  | .lit k => if k > 0 then rows.take k else rows
  | _ => rows

def selectTailZeroSentinel (s : Sel) (base : List Row) : List Row :=
  applyLimitZeroSentinel s.limit (applyOffset s.offset (if s.order.isEmpty then base else sortRows s.order base))

/-- LIMIT applied before OFFSET (`truncate` then `skip`) -/
def selectTailLimitFirst (s : Sel) (base : List Row) : List Row :=
  applyOffset s.offset (applyLimit s.limit (if s.order.isEmpty then base else sortRows s.order base))

/-- OFFSET past the end keeps the rows (the `else { rows.clear() }` arm lost) -/
def applyOffsetNoClear {α : Type} (c : Clause) (rows : List α) : List α :=
  match c with
  | .lit o => if o < rows.length then rows.drop o else rows
  | _ => rows

/-- what ORDER BY … DESC NULLS FIRST|LAST says: the direction reverses the order of the values, the NULLS
clause places the NULLs (default: NULLS LAST under ASC, NULLS FIRST under DESC — the default the code has) -/
def cmpItemSpec (it : OrderItem) (a b : Row) : Ordering :=
  let nf := it.nulls.getD it.desc
  match a.get it.col, b.get it.col with
  | .val x, .val y => if it.desc then (cmpInt x y).swap else cmpInt x y
  | .val _, _ => if nf then .gt else .lt
  | _, .val _ => if nf then .lt else .gt
  | _, _ => .eq

end Neumann.Parse.Exec
