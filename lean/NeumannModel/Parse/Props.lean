import NeumannModel.Parse.Lemmas
/-
  C15 — property theorems for the expression parser model.  `parse` is the Pratt core of BOTH
  real parsers: `ExprParser` (`neumann_parser/src/expr.rs`) and, since /repo 59c7cb56, the copy
  embedded in the statement parser (`parser.rs`, `Parser::parse_expr_bp` with the same
  `MAX_DEPTH = 64` counter).  `parseNoLimit` is the statement parser's loop as it was BEFORE that
  fix (no counter); it appears only in the `…_witness` theorems at the end, which record what the
  pre-fix code did and that the fix changed nothing else.
  ONLY property statements and their non-vacuity examples live here.

  Scope: atoms (every primary and every postfix form is an opaque atom), `*`, `()`, the 19 binary
  operators with the binding powers of `infix_binding_power`, prefix `-` `NOT` `!` `~` at 19,
  parentheses, `MAX_DEPTH = 64`.  All statements are for ALL expressions / token lists; the only
  hypotheses are the depth limit the code itself imposes.
-/
namespace Neumann.Parse.Props
open Neumann.Parse

/-- Totality / fuel adequacy: the model parser is a total function by construction and its fuel
    `2·|ts|+2` is never exhausted — every token list yields a tree or a genuine parse error. -/
theorem parse_total (ts : List Tok) : parse ts ≠ .error .fuel := by
  unfold parse parseWith
  have h := (no_fuel MAX_DEPTH (fuelFor ts)).1 0 0 ts (by simp [fuelFor])
  cases hp : parseBpN MAX_DEPTH (fuelFor ts) 0 0 ts with
  | error e => rw [hp] at h; simpa [finish] using h
  | ok p =>
    obtain ⟨e, r⟩ := p
    cases r <;> simp [finish]

/-- Determinism beyond "it is a function": the answer does not depend on how much fuel (≥ the
    adequate amount) the recursion is given — there is exactly one parse. -/
theorem parse_fuel_independent (ts : List Tok) (f : Nat) (h : fuelFor ts ≤ f) :
    parseWith f ts = parse ts := by
  unfold parse parseWith
  have hnf := (no_fuel MAX_DEPTH (fuelFor ts)).1 0 0 ts (by simp [fuelFor])
  rw [(mono_le MAX_DEPTH h).1 0 0 ts hnf]

/-- An error carries a position inside the input: `TooDeep` / "unexpected token" point at one of
    the `|ts|` tokens (`rem` tokens from the end, `1 ≤ rem ≤ |ts|`; `TooDeep` may also point at
    the end-of-input position). -/
theorem parse_error_position_in_input (ts : List Tok) (e : PErr) (h : parse ts = .error e) :
    e.posOk ts.length := by
  unfold parse parseWith at h
  have hb := (bounds MAX_DEPTH (fuelFor ts)).1 0 0 ts
  cases hp : parseBpN MAX_DEPTH (fuelFor ts) 0 0 ts with
  | error e' =>
    rw [hp] at h hb
    simp only [finish, Except.error.injEq] at h
    subst h; exact hb
  | ok p =>
    obtain ⟨x, r⟩ := p
    rw [hp] at h hb
    simp only [ResOk, if_true] at hb
    cases r with
    | nil => simp [finish] at h
    | cons t r =>
      simp only [finish, Except.error.injEq] at h
      subst h
      simp only [PErr.posOk, List.length_cons] at hb ⊢
      omega

example : parse [.atom 0, .op .add, .other, .atom 1] = .error (.unexpected .expression 2) := by rfl
example : parse [.atom 0, .rparen] = .error (.unexpected .endOfExpr 1) := by rfl

/-- Round trip for every parenthesisation policy: print `e` with the parentheses the binding
    powers require plus arbitrary redundant ones (`extra`), and the parser returns exactly `e`,
    provided the print needs at most `MAX_DEPTH` nested frames (the limit the code imposes). -/
theorem parse_printWith (extra : Expr → Bool) (e : Expr) (h : framesWith extra e ≤ MAX_DEPTH) :
    parse (printWith extra e) = .ok e := by
  have hk := K extra MAX_DEPTH e 0 0 [] (e, []) (Nat.zero_le _)
    (by cases e <;> simp [StopAbove, headStops]) (by omega) (loops_stop (by simp [headStops]))
  obtain ⟨f, hf⟩ := hk
  rw [List.append_nil] at hf
  have := at_fuelFor MAX_DEPTH hf (by simp)
  unfold parse parseWith
  rw [this]; rfl

/-- The depth hypothesis is exact: a print that needs more than `MAX_DEPTH` nested frames is
    rejected with `TooDeep` (never mis-parsed, never another error). -/
theorem parse_printWith_too_deep (extra : Expr → Bool) (e : Expr) (h : MAX_DEPTH < framesWith extra e) :
    ∃ k, parse (printWith extra e) = .error (.tooDeep k) := by
  obtain ⟨k, hn, f, hf⟩ := TD extra MAX_DEPTH e 0 0 [] (Nat.zero_le _) (Nat.zero_le _) (by omega)
  rw [List.append_nil] at hf
  have := at_fuelFor MAX_DEPTH hf hn
  refine ⟨k, ?_⟩
  unfold parse parseWith
  rw [this]; rfl

/-- …so the round trip holds exactly when the print fits the depth limit. -/
theorem parse_printWith_ok_iff (extra : Expr → Bool) (e : Expr) :
    parse (printWith extra e) = .ok e ↔ framesWith extra e ≤ MAX_DEPTH := by
  constructor
  · intro h
    apply Nat.le_of_not_lt
    intro hlt
    obtain ⟨k, hk⟩ := parse_printWith_too_deep extra e hlt
    rw [hk] at h
    cases h
  · exact parse_printWith extra e

/-- Precedence/associativity correctness: minimal parenthesisation parses back to the tree. -/
theorem parse_printMin (e : Expr) (h : framesMin e ≤ MAX_DEPTH) : parse (printMin e) = .ok e :=
  parse_printWith _ e h

/-- Parenthesising an expression the way the rules dictate — or more — never changes its parse. -/
theorem paren_invariance (extra : Expr → Bool) (e : Expr) (h : framesWith extra e ≤ MAX_DEPTH) :
    parse (printWith extra e) = parse (printMin e) := by
  rw [parse_printWith extra e h]
  exact (parse_printMin e (Nat.le_trans (frames_min_le extra e) h)).symm

/-- the instance the correspondence run exercises: fully parenthesised vs minimal -/
theorem paren_invariance_full (e : Expr) (h : framesWith isCompound e ≤ MAX_DEPTH) :
    parse (printFull e) = parse (printMin e) :=
  paren_invariance isCompound e h

/-- Whatever text was accepted, the tree it produced fits the depth limit when printed minimally
    (redundant parentheses only ever cost depth, they never buy any). -/
theorem parse_ok_fits_depth (ts : List Tok) (e : Expr) (h : parse ts = .ok e) :
    framesMin e ≤ MAX_DEPTH := by
  unfold parse parseWith at h
  cases hp : parseBpN MAX_DEPTH (fuelFor ts) 0 0 ts with
  | error err => rw [hp] at h; simp [finish] at h
  | ok p =>
    obtain ⟨x, r⟩ := p
    rw [hp] at h
    cases r with
    | cons t r => simp [finish] at h
    | nil =>
      simp only [finish, Except.ok.injEq] at h
      subst h
      have := ((depth_used MAX_DEPTH (fuelFor ts)).1 0 0 ts x [] (by decide) hp).1
      rw [need_of_le (Nat.zero_le _)] at this
      omega

/-- Normal form: every accepted token list means the same as the minimal print of its own parse —
    `parse ∘ printMin ∘ parse = parse`.  Together with `parse_printWith` this says that two texts
    with the same tree are interchangeable and that the tree is the meaning. -/
theorem parse_normal_form (ts : List Tok) (e : Expr) (h : parse ts = .ok e) :
    parse (printMin e) = .ok e :=
  parse_printMin e (parse_ok_fits_depth ts e h)

-- redundant parentheses and `!` in the input, canonical text out, same tree
example : parse [.lparen, .lparen, .atom 1, .rparen, .op .mul, .atom 2, .rparen, .op .add, .bang, .lparen, .atom 3, .rparen]
    = .ok (.bin (.bin (.atom 1) .mul (.atom 2)) .add (.un .not (.atom 3))) := by rfl
example : printMin (.bin (.bin (.atom 1) .mul (.atom 2)) .add (.un .not (.atom 3)))
    = [.atom 1, .op .mul, .atom 2, .op .add, .notKw, .atom 3] := by rfl

/-- a concrete non-trivial instance: `(a1 + a2) * - (a3 OR ())  <  ~ * ` -/
def sample : Expr :=
  .bin (.bin (.bin (.atom 1) .add (.atom 2)) .mul (.un .neg (.bin (.atom 3) .or .unit))) .lt (.un .bitNot .wildcard)

example : framesWith (fun _ => true) sample ≤ MAX_DEPTH := by decide
example : framesMin sample ≤ MAX_DEPTH := by decide
example : printMin sample ≠ printFull sample := by decide
example : printMin sample =
    [.lparen, .atom 1, .op .add, .atom 2, .rparen, .op .mul, .op .sub, .lparen, .atom 3, .op .or,
     .lparen, .rparen, .rparen, .op .lt, .tilde, .op .mul] := by rfl
example : parse (printMin sample) = .ok sample := by rfl
example : parse (printFull sample) = .ok sample := by rfl
-- left associativity and the level table are visible in the parse of unparenthesised input
example : parse [.atom 1, .op .sub, .atom 2, .op .sub, .atom 3] =
    .ok (.bin (.bin (.atom 1) .sub (.atom 2)) .sub (.atom 3)) := by rfl
example : parse [.atom 1, .op .or, .atom 2, .op .and, .atom 3, .op .eq, .atom 4, .op .bitOr, .atom 5,
      .op .add, .atom 6, .op .mul, .op .sub, .atom 7] =
    .ok (.bin (.atom 1) .or (.bin (.atom 2) .and (.bin (.atom 3) .eq (.bin (.atom 4) .bitOr
      (.bin (.atom 5) .add (.bin (.atom 6) .mul (.un .neg (.atom 7)))))))) := by rfl

/-- `!` and `NOT` are two spellings of the same prefix operator: replacing one by the other
    anywhere in any input (well-formed or not) changes neither the tree nor the error. -/
theorem bang_is_not (ts : List Tok) : parse (ts.map normBang) = parse ts := by
  unfold parse parseWith fuelFor
  rw [List.length_map, (bang_eq_not MAX_DEPTH _).1]
  cases hp : parseBpN MAX_DEPTH (2 * ts.length + 2) 0 0 ts with
  | error e => rfl
  | ok p =>
    obtain ⟨e, r⟩ := p
    cases r with
    | nil => rfl
    | cons t r => simp [mapRest, finish]

example : [Tok.bang, .atom 1, .op .and, .bang, .bang, .atom 2].map normBang
    = [.notKw, .atom 1, .op .and, .notKw, .notKw, .atom 2] := by rfl

/-- Beyond the limit: any chain of at least `MAX_DEPTH` nesting tokens (`(`, prefix `-`, `NOT`,
    `!`, `~`, in any mixture) makes `parse` answer `TooDeep`, positioned at the token where frame
    65 would start, whatever follows (except that `()` directly after the chain is the empty
    tuple, which opens no frame). -/
theorem too_deep_is_error (pre rest : List Tok) (hp : ∀ t ∈ pre, isNester t = true)
    (hn : MAX_DEPTH ≤ pre.length) (hr : rest.head? ≠ some Tok.rparen) :
    parse (pre ++ rest) = .error (.tooDeep (pre.length - MAX_DEPTH + rest.length)) := by
  obtain ⟨f, hf⟩ := nester_chain MAX_DEPTH rest hr pre hp 0 0 (Nat.zero_le _) (by omega)
  have := at_fuelFor MAX_DEPTH hf (by simp)
  unfold parse parseWith
  rw [this]
  simp [finish]

-- 64 prefix operators need 65 frames: the hypothesis of `parse_printWith_too_deep` is satisfiable
example : MAX_DEPTH < framesMin (Nat.repeat (Expr.un .neg) 64 (.atom 0)) := by decide
example : ∀ t ∈ [Tok.lparen, .op .sub, .notKw, .bang, .tilde], isNester t = true := by decide
-- the boundary is exact: 63 prefix operators parse, 64 do not
example : (parse (List.replicate 63 (Tok.op .sub) ++ [.atom 0])).isOk = true := by decide
example : parse (List.replicate 64 (Tok.op .sub) ++ [.atom 0]) = .error (.tooDeep 1) := by rfl
set_option maxRecDepth 8000 in
example : parse (List.replicate 64 Tok.lparen ++ .atom 0 :: List.replicate 64 Tok.rparen)
    = .error (.tooDeep 65) := by rfl

/-! ### the statement parser before and after 59c7cb56 (regression witnesses)

`parseNoLimit` is the Pratt loop of `parser.rs` as it was before the fix: no depth counter, so
nothing but the machine stack bounded its recursion (finding
`neumann_parser::Parser::parse_expr_bp/stack_overflow`, fixed).  The theorems below describe that
old code and its relation to the current one; they are not claims about /repo HEAD except
`depth_limit_fix_is_conservative`. -/

/-- The fix is conservative: on every token list the old loop and the current parser give the same
    answer unless the current one says `TooDeep` — the counter changed the behaviour of exactly the
    inputs that need more than `MAX_DEPTH` nested frames. -/
theorem depth_limit_fix_is_conservative (ts : List Tok) (h : ∀ k, parse ts ≠ .error (.tooDeep k)) :
    parseNoLimit ts = parse ts := by
  unfold parse parseWith at h ⊢
  unfold parseNoLimit
  have h64 : notDeep (parseBpN MAX_DEPTH (fuelFor ts) 0 0 ts) := by
    cases hp : parseBpN MAX_DEPTH (fuelFor ts) 0 0 ts with
    | ok p => trivial
    | error e =>
      cases e with
      | tooDeep k => rw [hp] at h; exact absurd rfl (h k)
      | _ => trivial
  have hroom : notDeep (parseBpN (ts.length + 2) (fuelFor ts) 0 0 ts) :=
    (room_no_too_deep (ts.length + 2) (fuelFor ts)).1 0 0 ts (by omega)
  have a := (limit_mono (Nat.le_max_left MAX_DEPTH (ts.length + 2)) (fuelFor ts)).1 0 0 ts h64
  have b := (limit_mono (Nat.le_max_right MAX_DEPTH (ts.length + 2)) (fuelFor ts)).1 0 0 ts hroom
  rw [← a, b]

-- both sides of the hypothesis occur: a shallow input, and one the limit rejects
example : parseNoLimit [.atom 1, .op .add, .lparen, .atom 2, .rparen] = parse [.atom 1, .op .add, .lparen, .atom 2, .rparen] := by rfl
example : ∀ k, parse [.atom 1, .op .add, .lparen, .atom 2, .rparen] ≠ .error (.tooDeep k) := by
  intro k h
  have : parse [.atom 1, .op .add, .lparen, .atom 2, .rparen] = .ok (.bin (.atom 1) .add (.atom 2)) := by rfl
  rw [this] at h; cases h

/-- The old loop never answered `TooDeep`: every frame consumes a token before opening the next,
    so its recursion depth was bounded by the input length only. -/
theorem parseNoLimit_never_too_deep_witness (ts : List Tok) (k : Nat) :
    parseNoLimit ts ≠ .error (.tooDeep k) := by
  unfold parseNoLimit
  have hroom := (room_no_too_deep (ts.length + 2) (fuelFor ts)).1 0 0 ts (by omega)
  cases hp : parseBpN (ts.length + 2) (fuelFor ts) 0 0 ts with
  | ok p => obtain ⟨e, r⟩ := p; cases r <;> simp [finish]
  | error e =>
    rw [hp] at hroom
    cases e <;> simp_all [finish, notDeep]

/-- The old loop round-tripped every expression at EVERY depth… -/
theorem parseNoLimit_printWith_witness (extra : Expr → Bool) (e : Expr) :
    parseNoLimit (printWith extra e) = .ok e := by
  have hlen := frames_le_length extra e
  have hk := K extra ((printWith extra e).length + 2) e 0 0 [] (e, []) (Nat.zero_le _)
    (by cases e <;> simp [StopAbove, headStops]) (by omega) (loops_stop (by simp [headStops]))
  obtain ⟨f, hf⟩ := hk
  rw [List.append_nil] at hf
  have := at_fuelFor _ hf (by simp)
  unfold parseNoLimit
  rw [this]; rfl

/-- …in particular `n` prefix operators opened `n + 1` nested frames for every `n` (the stack
    overflow), where the current parser stops at 64: the two differ on exactly these inputs. -/
theorem parseNoLimit_unbounded_recursion_witness (n k : Nat) :
    parseNoLimit (List.replicate n (Tok.op .sub) ++ [Tok.atom k])
      = .ok (Nat.repeat (Expr.un .neg) n (.atom k)) ∧
    (MAX_DEPTH ≤ n → parse (List.replicate n (Tok.op .sub) ++ [Tok.atom k])
      = .error (.tooDeep (n - MAX_DEPTH + 1))) := by
  constructor
  · have h : ∀ n, printWith (fun _ => false) (Nat.repeat (Expr.un .neg) n (.atom k))
        = List.replicate n (Tok.op .sub) ++ [Tok.atom k] := by
      intro n
      induction n with
      | zero => rfl
      | succ n ih =>
        have hb : ∀ n, topBp (Nat.repeat (Expr.un .neg) n (.atom k)) = 100 := by
          intro n; cases n <;> rfl
        simp only [Nat.repeat, printWith, unTok, hb, Bool.false_or, ih, List.replicate_succ,
          List.cons_append]
        simp [wrap, PREFIX_BP]
    rw [← h n]
    exact parseNoLimit_printWith_witness _ _
  · intro hn
    have := too_deep_is_error (List.replicate n (Tok.op .sub)) [Tok.atom k]
      (by intro t ht; rw [List.eq_of_mem_replicate ht]; rfl) (by simpa using hn) (by simp)
    simpa using this

example : (parseNoLimit (List.replicate 64 (Tok.op .sub) ++ [.atom 0])).isOk = true := by decide

end Neumann.Parse.Props
