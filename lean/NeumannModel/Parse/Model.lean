/-
  C15 — model of the expression core of `neumann_parser/src/expr.rs`
  (`ExprParser::{parse_expr_bp, parse_prefix, parse_paren_expr}`, `infix_binding_power`,
  `prefix_binding_power`, `MAX_DEPTH`, top-level `parse_expr`).  Import-free, total, computable.

  What is modelled, branch for branch:
    * `parse_expr_bp`: `depth += 1; if depth > MAX_DEPTH → TooDeep` (the counter is the number of
      active `parse_expr_bp` frames: it is decremented on the successful exit only, and an error
      aborts the whole parse, so passing the depth down functionally is exact); `parse_prefix`;
      the loop `current_binary_op` / `l_bp < min_bp → break` / `advance; parse_expr_bp(r_bp)`.
    * `parse_prefix`: atoms, `*` in prefix position = `Wildcard`, `(`, prefix `-`, `NOT`/`!`, `~`
      (operand parsed with `prefix_binding_power() = 19`), EOF error, "unexpected token" error.
    * `parse_paren_expr`: `()` = empty tuple, otherwise `parse_expr` then `expect(RParen)`.
    * `parse_expr` (free function): whole input must be consumed.
  The statement parser (`parser.rs`) carries a textual copy of the same Pratt loop and tables.
  Since /repo 59c7cb56 that copy has the same counter (`Parser::parse_expr_bp`: `self.depth += 1;
  if self.depth > MAX_DEPTH → TooDeep @ current`, decremented on every exit — functionally the
  same as passing the depth down), so `parse` models BOTH parsers.  Before that commit the copy
  had no counter; that old code is `parseNoLimit` (`parseBpN` with a limit larger than the token
  count, which `Props.parseNoLimit_never_too_deep_witness` shows is never reached) and is kept
  only for the regression witnesses.

  What is NOT modelled (opaque): every primary that is not one of the above — literals,
  identifiers, calls `f(..)`, `CASE..END`, arrays `[..]`, `CAST`, and every *postfix* form
  (`IS [NOT] NULL`, `[NOT] IN (..)`, `[NOT] BETWEEN x AND y`, `[NOT] LIKE p`, `a.b`, `a.*`) — is one
  `Tok.atom n` / `Expr.atom n`.  This is sound for the Pratt loop because `parse_postfix` only
  ever extends the expression returned by `parse_prefix` of the same frame (a token that stops
  an operand frame is never a postfix token), and BETWEEN/LIKE operands are parsed at bp 19,
  above every infix operator.  Tuples `(a, b)` (comma) are outside the token alphabet.
  Spans are not modelled; error positions are modelled as "number of tokens left".
-/
namespace Neumann.Parse

/-- `const MAX_DEPTH: usize = 64` -/
def MAX_DEPTH : Nat := 64

/-- `prefix_binding_power()` -/
def PREFIX_BP : Nat := 19

/-- `ast::BinaryOp`, same order -/
inductive BinOp
  | add | sub | mul | div | mod | eq | ne | lt | le | gt | ge | and | or | concat
  | bitAnd | bitOr | bitXor | shl | shr
  deriving DecidableEq, Repr

/-- `ast::UnaryOp` -/
inductive UnOp | not | neg | bitNot
  deriving DecidableEq, Repr

/-- `infix_binding_power` — the exact table -/
def infixBp : BinOp → Nat × Nat
  | .or => (1, 2)
  | .and => (3, 4)
  | .eq | .ne | .lt | .le | .gt | .ge => (5, 6)
  | .bitOr => (7, 8)
  | .bitXor => (9, 10)
  | .bitAnd => (11, 12)
  | .shl | .shr => (13, 14)
  | .add | .sub | .concat => (15, 16)
  | .mul | .div | .mod => (17, 18)

def lbp (o : BinOp) : Nat := (infixBp o).1
def rbp (o : BinOp) : Nat := (infixBp o).2

/-- Token alphabet of the expression core.  `op o` is the token `current_binary_op` maps to `o`
    (`op sub` = `Minus`, also the prefix negation; `op mul` = `Star`, also the wildcard).
    `other` = any token that neither starts an expression, nor is an infix/postfix operator,
    nor a comma (`;`, `]`, `}`, `:` …). -/
inductive Tok
  | atom (n : Nat) | op (o : BinOp) | lparen | rparen | notKw | bang | tilde | other
  deriving DecidableEq, Repr

/-- `ExprKind` restricted to the modelled forms. `unit` = `Tuple([])`. -/
inductive Expr
  | atom (n : Nat)
  | wildcard
  | unit
  | un (u : UnOp) (e : Expr)
  | bin (l : Expr) (o : BinOp) (r : Expr)
  deriving DecidableEq, Repr

/-- the `expected` text of `UnexpectedToken` / `UnexpectedEof` -/
inductive Expect | expression | rparen | endOfExpr
  deriving DecidableEq, Repr

/-- `ParseErrorKind` restricted to what the core produces; `rem` = number of tokens not yet
    consumed when the error was raised (`current` included) — the model of `current.span`.
    `fuel` is the model's own "ran out of fuel"; `parse_total` shows it never escapes `parse`. -/
inductive PErr
  | tooDeep (rem : Nat)
  | eof (exp : Expect)
  | unexpected (exp : Expect) (rem : Nat)
  | fuel
  deriving DecidableEq, Repr

abbrev PRes := Except PErr (Expr × List Tok)

/-- `current_binary_op` -/
def binaryOf : Tok → Option BinOp
  | .op o => some o
  | _ => none

/-- which arm of the `match &self.current.kind` in `parse_prefix` a token selects -/
inductive PrefixArm
  | atom (n : Nat)      -- literals, identifiers, calls, CASE, arrays … (opaque primaries)
  | wildcard            -- `TokenKind::Star`
  | paren               -- `TokenKind::LParen => parse_paren_expr`
  | unary (u : UnOp)    -- `Minus` | `Not | Bang` | `Tilde`
  | unexpected          -- `_ => Err(unexpected .. "expression")`
  deriving DecidableEq, Repr

def prefixArm : Tok → PrefixArm
  | .atom n => .atom n
  | .op .mul => .wildcard
  | .lparen => .paren
  | .op .sub => .unary .neg
  | .notKw => .unary .not
  | .bang => .unary .not
  | .tilde => .unary .bitNot
  | _ => .unexpected

/-- `self.expect(&TokenKind::RParen)` after the inner expression of a parenthesis -/
def expectRParen (e : Expr) : List Tok → PRes
  | [] => .error (.eof .rparen)
  | t :: rest => if t = .rparen then .ok (e, rest) else .error (.unexpected .rparen (t :: rest).length)

mutual
/-- `parse_expr_bp(min_bp)` entered with `self.depth = depth` -/
def parseBpN (maxDepth : Nat) : Nat → Nat → Nat → List Tok → PRes
  | 0, _, _, _ => .error .fuel
  | fuel+1, depth, minBp, ts =>
    -- self.depth += 1; if self.depth > MAX_DEPTH { return Err(TooDeep @ current) }
    if depth + 1 > maxDepth then .error (.tooDeep ts.length) else
    match parsePrefixN maxDepth fuel (depth+1) ts with
    | .error e => .error e
    | .ok (lhs, rest) => ploopN maxDepth fuel (depth+1) minBp lhs rest
termination_by structural fuel => fuel
/-- `parse_prefix` (with `parse_paren_expr` inlined), running inside a frame whose
    `self.depth = depth` -/
def parsePrefixN (maxDepth : Nat) : Nat → Nat → List Tok → PRes
  | 0, _, _ => .error .fuel
  | fuel+1, depth, ts =>
    match ts with
    | [] => .error (.eof .expression)
    | t :: rest =>
      match prefixArm t with
      | .atom n => .ok (.atom n, rest)
      | .wildcard => .ok (.wildcard, rest)
      | .paren =>
        -- `if self.check(&RParen) { return Tuple([]) }`
        if rest.head? = some .rparen then .ok (.unit, rest.tail) else
        match parseBpN maxDepth fuel depth 0 rest with
        | .error e => .error e
        | .ok (e, rest') => expectRParen e rest'
      | .unary u =>
        match parseBpN maxDepth fuel depth PREFIX_BP rest with
        | .error e => .error e
        | .ok (e, rest') => .ok (.un u e, rest')
      | .unexpected => .error (.unexpected .expression (t :: rest).length)
termination_by structural fuel => fuel
/-- the `loop { … }` of `parse_expr_bp` with the current `lhs` -/
def ploopN (maxDepth : Nat) : Nat → Nat → Nat → Expr → List Tok → PRes
  | 0, _, _, _, _ => .error .fuel
  | fuel+1, depth, minBp, lhs, ts =>
    match ts with
    | [] => .ok (lhs, [])
    | t :: rest =>
      match binaryOf t with
      | none => .ok (lhs, t :: rest)
      | some o =>
        if lbp o < minBp then .ok (lhs, t :: rest) else
        match parseBpN maxDepth fuel depth (rbp o) rest with
        | .error e => .error e
        | .ok (rhs, rest') => ploopN maxDepth fuel depth minBp (.bin lhs o rhs) rest'
termination_by structural fuel => fuel
end

/-- fuel that always suffices (`Props.parse_total`) -/
def fuelFor (ts : List Tok) : Nat := 2 * ts.length + 2

/-- whole-input wrapper shared by `parse` / `parseNoLimit` -/
def finish : PRes → Except PErr Expr
  | .error e => .error e
  | .ok (e, []) => .ok e
  | .ok (_, t :: r) => .error (.unexpected .endOfExpr (t :: r).length)

def parseWith (fuel : Nat) (ts : List Tok) : Except PErr Expr :=
  finish (parseBpN MAX_DEPTH fuel 0 0 ts)

/-- `neumann_parser::parse_expr` on a token list; also the expression loop of the statement parser
    (`Parser::parse_expr` in `parser.rs`, entered with `depth = 0` from a top-level clause) -/
def parse (ts : List Tok) : Except PErr Expr := parseWith (fuelFor ts) ts

/-- PRE-FIX code (before /repo 59c7cb56): the Pratt loop embedded in `parser.rs` had no depth
    counter.  Not a model of the current tree. -/
def parseNoLimit (ts : List Tok) : Except PErr Expr :=
  finish (parseBpN (ts.length + 2) (fuelFor ts) 0 0 ts)

/-! ### printing -/

/-- binding power at which an expression can stand as an operand without parentheses:
    a binary node needs `min_bp ≤ lbp op`; everything else starts in prefix position -/
def topBp : Expr → Nat
  | .bin _ o _ => lbp o
  | _ => 100

def wrap (b : Bool) (ts : List Tok) : List Tok :=
  if b then Tok.lparen :: ts ++ [Tok.rparen] else ts

def unTok : UnOp → Tok
  | .neg => .op .sub
  | .not => .notKw
  | .bitNot => .tilde

/-- Print with the parentheses the precedence/associativity rules require, plus redundant ones
    around every operand `x` with `extra x = true`. -/
def printWith (extra : Expr → Bool) : Expr → List Tok
  | .atom n => [.atom n]
  | .wildcard => [.op .mul]
  | .unit => [.lparen, .rparen]
  | .un u x => unTok u :: wrap (extra x || decide (topBp x < PREFIX_BP)) (printWith extra x)
  | .bin l o r =>
      wrap (extra l || decide (topBp l < lbp o)) (printWith extra l)
        ++ .op o :: wrap (extra r || decide (topBp r < rbp o)) (printWith extra r)

def isCompound : Expr → Bool
  | .un _ _ => true
  | .bin _ _ _ => true
  | _ => false

/-- minimal parenthesisation -/
def printMin : Expr → List Tok := printWith (fun _ => false)
/-- every compound operand parenthesised -/
def printFull : Expr → List Tok := printWith isCompound
/-- every operand (atoms too) parenthesised -/
def printAll : Expr → List Tok := printWith (fun _ => true)

/-- Number of nested `parse_expr_bp` frames the real parser needs for `printWith extra e`
    when `e` is parsed by a fresh frame (that frame included). -/
def framesWith (extra : Expr → Bool) : Expr → Nat
  | .atom _ => 1
  | .wildcard => 1
  | .unit => 1
  | .un _ x =>
      1 + (if (extra x || decide (topBp x < PREFIX_BP)) then 1 + framesWith extra x else framesWith extra x)
  | .bin l o r =>
      max (if (extra l || decide (topBp l < lbp o)) then 1 + framesWith extra l else framesWith extra l)
          (1 + (if (extra r || decide (topBp r < rbp o)) then 1 + framesWith extra r else framesWith extra r))

def framesMin : Expr → Nat := framesWith (fun _ => false)

end Neumann.Parse
