import NeumannModel.Parse.Model
/-
  C15 — model of the COMPLETE expression grammar of `neumann_parser`: the Pratt loop of
  `Model.lean` together with the postfix level (`IS [NOT] NULL`, `[NOT] IN ( … )`,
  `[NOT] BETWEEN lo AND hi`, `[NOT] LIKE p`, `a.b`, `a.*`) and every primary (`f(…)`, aggregate
  calls, `DISTINCT`, tuples, arrays, `CASE … END`, contextual keywords as identifiers) — i.e. all of
  `expr.rs` (`ExprParser::{parse_expr_bp, parse_prefix, parse_postfix, parse_ident_or_call,
  parse_function_call, parse_aggregate_call, parse_paren_expr, parse_array, parse_case,
  parse_exists, parse_in_expr, parse_between_expr, parse_like_expr, parse_keyword_as_ident,
  current_binary_op}`, free `parse_expr`) and of the textual copy in `parser.rs`
  (`Parser::{parse_expr_bp, parse_expr_bp_inner, parse_prefix_expr, parse_postfix_expr, …}`).
  Import-free (only `Parse/Model.lean` for the operator tables), total, computable.

  FORM.  The recursive-descent code is written here as the abstract machine it runs on: the control
  is one of
      start m      about to call `parse_expr_bp(m)`
      loop m s l   at the top of the `loop { parse_postfix; current_binary_op … }` of the frame that
                   was entered with `min_bp = m` when `s` tokens were left, current `lhs = l`
      ret e        a `parse_expr_bp` frame has just returned `Ok(e)` to its call site
      done r       the whole parse has returned
  and the stack holds one entry per ACTIVE `parse_expr_bp` FRAME that is waiting for a nested call
  to return: the call site inside it (`K`: after a prefix operator, inside parentheses, in an
  argument list, as a right operand, as a BETWEEN bound …) together with that frame's `min_bp` and
  start position.  So `stk.length` IS `self.depth` at the moment of a call, the check of
  `parse_expr_bp` is `stk.length + 1 > MAX_DEPTH`, and an error aborts the run exactly as `?` does.
  Every arm of `stepStart` / `stepLoop` / `stepRet` is one branch of the Rust code (quoted in the
  comments).  The four textually identical "comma separated `parse_expr()` until the closing
  token" loops (call arguments, array items, tuple items, IN list) are one arm (`K.list`).

  `mode` selects which of the two copies is meant where they differ:
    * `Mode.expr`  (`expr.rs`): `EXISTS (` is the error "EXISTS subqueries not yet implemented",
      `CAST` is not an expression starter, `IN (` never looks for `SELECT`, and the free function
      `parse_expr` demands end of input after the expression;
    * `Mode.stmt`  (`parser.rs`, an expression position of a statement): `EXISTS`, `CAST` and
      `IN ( SELECT` continue into the statement grammar (`parse_select_body`, `parse_data_type`),
      which is the subject of `Nest.lean`, not of this model — the answer is `Res.outside`; what
      follows the expression is the statement's business, so the remaining tokens are dropped.

  Token alphabet: `lit` = Integer / Float / String / TRUE / FALSE literal, `null`, `ident`,
  `kw` = a contextual keyword (`is_contextual_keyword`: STATUS, TYPE, DEPTH, …) — an identifier
  that is never a call —, `agg` = COUNT SUM AVG MIN MAX, the 19 operator tokens, punctuation, the
  keywords of the postfix / CASE forms, and `other` = any token that is none of these and starts
  nothing (`;` `}` `:` `FROM` `WHERE` …).
  Spans: an error position is "number of tokens left, current included" (= `current.span`); the
  one error that points at an already built expression ("qualified wildcard requires identifier",
  `expr.span`) points at the first token of its frame, because every `lhs` built in a frame starts
  at that frame's first token (`Span::merge` keeps the smaller start).
-/
namespace Neumann.Parse.Full

inductive Mode | expr | stmt
  deriving DecidableEq, Repr

inductive Tok
  | lit (n : Nat) | null | ident (n : Nat) | kw (n : Nat) | agg (n : Nat)
  | op (o : BinOp)
  | lparen | rparen | lbracket | rbracket | comma | dot
  | notKw | bang | tilde
  | isKw | inKw | betweenKw | likeKw
  | caseKw | whenKw | thenKw | elseKw | endKw
  | distinctKw | existsKw | selectKw | castKw
  | other
  deriving DecidableEq, Repr

/-- `FunctionCall::name`: an identifier, or one of COUNT SUM AVG MIN MAX -/
inductive Callee | fn (n : Nat) | agg (n : Nat)
  deriving DecidableEq, Repr

mutual
/-- `ast::ExprKind` (without `Subquery` / `Exists` / `Cast` / `InList::Subquery`, which need the
    statement grammar).  `unit` = `Tuple([])`; a tuple has at least two items (`(a)` is `a`);
    a CASE has at least one WHEN. -/
inductive E
  | lit (n : Nat)
  | null
  | ident (n : Nat)
  | kwIdent (n : Nat)
  | wildcard
  | unit
  | tuple (a b : E) (rest : EL)
  | un (u : UnOp) (e : E)
  | bin (l : E) (o : BinOp) (r : E)
  | isNull (e : E) (neg : Bool)
  | inList (e : E) (neg : Bool) (items : EL)
  | between (e : E) (neg : Bool) (lo hi : E)
  | like (e : E) (neg : Bool) (pat : E)
  | qual (e : E) (n : Nat)
  | qualWild (kw : Bool) (n : Nat)
  | call (f : Callee) (distinct : Bool) (args : EL)
  | array (items : EL)
  | case (operand : OE) (c r : E) (rest : WL) (els : OE)
inductive EL
  | nil
  | cons (e : E) (l : EL)
inductive WL
  | nil
  | cons (c r : E) (l : WL)
inductive OE
  | none
  | some (e : E)
end

deriving instance DecidableEq, Repr for E, EL, WL, OE

/-- `Vec::push` -/
def EL.snoc : EL → E → EL
  | .nil, x => .cons x .nil
  | .cons e l, x => .cons e (l.snoc x)

def WL.snoc : WL → E → E → WL
  | .nil, c, r => .cons c r .nil
  | .cons c0 r0 l, c, r => .cons c0 r0 (l.snoc c r)

def EL.append : EL → EL → EL
  | .nil, m => m
  | .cons e l, m => .cons e (l.append m)

def WL.append : WL → WL → WL
  | .nil, m => m
  | .cons c r l, m => .cons c r (l.append m)

/-- the `expected` text of `UnexpectedToken` / `UnexpectedEof` (`TokenKind::as_str`) -/
inductive Expect
  | expression | lparen | rparen | rbracket | null | identifier | andKw | thenKw | endKw | endOfExpr
  deriving DecidableEq, Repr

/-- the three `ParseError::invalid` messages of the expression grammar -/
inductive Invalid
  | qualWild      -- "qualified wildcard requires identifier"
  | caseNoWhen    -- "CASE requires at least one WHEN clause"
  | existsExpr    -- "EXISTS subqueries not yet implemented" (expr.rs only)
  deriving DecidableEq, Repr

/-- `rem` = number of tokens not yet consumed when the error was raised, the token the error points
    at included.  `fuel` is the model's own "ran out of steps"; `FullProps.full_total` shows it
    never escapes `parse`. -/
inductive Err
  | tooDeep (rem : Nat)
  | eof (x : Expect)
  | unexpected (x : Expect) (rem : Nat)
  | invalid (w : Invalid) (rem : Nat)
  | fuel
  deriving DecidableEq, Repr

inductive Res
  | ok (e : E)
  | error (e : Err)
  | outside
  deriving DecidableEq, Repr

/-- the four comma-separated lists: `f( … )`, `[ … ]`, `( a, … )`, `x IN ( … )` -/
inductive LK
  | args (f : Callee) (distinct : Bool)
  | arr
  | tup
  | inl (subj : E) (neg : Bool)
  deriving DecidableEq, Repr

def LK.close : LK → Tok
  | .arr => .rbracket
  | _ => .rparen

def LK.expectClose : LK → Expect
  | .arr => .rbracket
  | _ => .rparen

/-- the node built when the list is closed (`tup` is entered with one item and closed with at least
    two, so its first two arms are never used) -/
def LK.build : LK → EL → E
  | .args f d, l => .call f d l
  | .arr, l => .array l
  | .tup, .nil => .unit
  | .tup, .cons a .nil => a
  | .tup, .cons a (.cons b r) => .tuple a b r
  | .inl s neg, l => .inList s neg l

/-- the call sites of `parse_expr_bp` / `parse_expr` inside an expression frame -/
inductive K
  | unary (u : UnOp)                            -- `parse_prefix`: `-` / `NOT` / `!` / `~` operand
  | paren                                       -- `parse_paren_expr`: `first`
  | list (lk : LK) (acc : EL)                   -- `items.push(self.parse_expr()?)`
  | binR (lhs : E) (o : BinOp)                  -- `let rhs = self.parse_expr_bp(r_bp)?`
  | betLo (subj : E) (neg : Bool)               -- `parse_between_expr`: `low`
  | betHi (subj : E) (neg : Bool) (lo : E)      -- `parse_between_expr`: `high`
  | likeP (subj : E) (neg : Bool)               -- `parse_like_expr`: `pattern`
  | caseOperand                                 -- `parse_case`: operand
  | caseCond (operand : OE) (acc : WL)          -- `parse_case`: `condition`
  | caseRes (operand : OE) (acc : WL) (cond : E)   -- `parse_case`: `result`
  | caseElse (operand : OE) (c r : E) (rest : WL)  -- `parse_case`: `else_clause`
  deriving DecidableEq, Repr

/-- an active `parse_expr_bp(m)` frame, entered when `s` tokens were left, waiting at call site `k` -/
structure Frame where
  k : K
  m : Nat
  s : Nat
  deriving DecidableEq, Repr

inductive Ctl
  | start (m : Nat)
  | loop (m s : Nat) (lhs : E)
  | ret (e : E)
  | done (r : Res)
  deriving DecidableEq, Repr

structure St where
  ctl : Ctl
  stk : List Frame
  ts : List Tok
  deriving DecidableEq, Repr

/-- `return Err(…)` / leaving the modelled grammar: the run is over -/
def halt (r : Res) : St := ⟨.done r, [], []⟩
def fail (e : Err) : St := halt (.error e)

/-- which arm of `match &self.current.kind` in `parse_prefix` a token selects -/
inductive PArm
  | atom (e : E)        -- Integer Float String True False Null, and `is_contextual_keyword`
  | ident (n : Nat)     -- `TokenKind::Ident(_) => parse_ident_or_call`
  | agg (n : Nat)       -- `Count | Sum | Avg | Min | Max => parse_aggregate_call`
  | wildcard            -- `TokenKind::Star`
  | paren               -- `TokenKind::LParen => parse_paren_expr`
  | bracket             -- `TokenKind::LBracket => parse_array`
  | unary (u : UnOp)    -- `Minus` | `Not | Bang` | `Tilde`
  | caseArm             -- `TokenKind::Case => parse_case`
  | existsArm           -- `TokenKind::Exists`
  | castArm             -- `TokenKind::Cast` (parser.rs only)
  | unexpected          -- `_ => Err(unexpected .. "expression")`
  deriving DecidableEq, Repr

def prefixArm : Tok → PArm
  | .lit n => .atom (.lit n)
  | .null => .atom .null
  | .kw n => .atom (.kwIdent n)
  | .ident n => .ident n
  | .agg n => .agg n
  | .op .mul => .wildcard
  | .lparen => .paren
  | .lbracket => .bracket
  | .op .sub => .unary .neg
  | .notKw => .unary .not
  | .bang => .unary .not
  | .tilde => .unary .bitNot
  | .caseKw => .caseArm
  | .existsKw => .existsArm
  | .castKw => .castArm
  | _ => .unexpected

/-- `self.eat(kind)` -/
def eat (t : Tok) : List Tok → Bool × List Tok
  | [] => (false, [])
  | c :: r => if c = t then (true, r) else (false, c :: r)

/-- `self.expect(kind)?` followed by `k` -/
def expect (t : Tok) (x : Expect) (ts : List Tok) (k : List Tok → St) : St :=
  match ts with
  | [] => fail (.eof x)
  | c :: r => if c = t then k r else fail (.unexpected x (c :: r).length)

/-- `parse_function_call` from its `self.expect(&LParen)` on, inside the frame `(m, s)` -/
def callFrom (f : Callee) (m s : Nat) (stk : List Frame) (ts : List Tok) : St :=
  expect .lparen .lparen ts fun r =>
    -- `let distinct = self.eat(&Distinct)`
    let d := eat .distinctKw r
    -- `if !self.check(&RParen) { loop { args.push(self.parse_expr()?) … } }`
    if d.2.head? = some .rparen then ⟨.loop m s (.call f d.1 .nil), stk, d.2.tail⟩
    else ⟨.start 0, ⟨.list (.args f d.1) .nil, m, s⟩ :: stk, d.2⟩

/-- `parse_case` at its `while self.eat(&When)` test, with the clauses read so far -/
def caseNext (operand : OE) (acc : WL) (m s : Nat) (stk : List Frame) (ts : List Tok) : St :=
  if ts.head? = some .whenKw then ⟨.start 0, ⟨.caseCond operand acc, m, s⟩ :: stk, ts.tail⟩ else
  match acc with
  | .nil => fail (.invalid .caseNoWhen ts.length)          -- `when_clauses.is_empty()` @ current
  | .cons c r rest =>
    -- `if self.eat(&Else) { Some(parse_expr()?) }`
    if ts.head? = some .elseKw then ⟨.start 0, ⟨.caseElse operand c r rest, m, s⟩ :: stk, ts.tail⟩ else
    expect .endKw .endKw ts fun r' => ⟨.loop m s (.case operand c r rest .none), stk, r'⟩

/-- `parse_expr_bp(m)` up to and including `parse_prefix`, called with `stk.length` frames active -/
def stepStart (mode : Mode) (m : Nat) (stk : List Frame) (ts : List Tok) : St :=
  -- self.depth += 1; if self.depth > MAX_DEPTH { return Err(TooDeep @ current) }
  if stk.length + 1 > MAX_DEPTH then fail (.tooDeep ts.length) else
  match ts with
  | [] => fail (.eof .expression)
  | t :: r =>
    let s := (t :: r).length
    match prefixArm t with
    | .atom e => ⟨.loop m s e, stk, r⟩
    | .ident n =>
      -- `if self.check(&LParen) { parse_function_call } else { Ident }`
      if r.head? = some .lparen then callFrom (.fn n) m s stk r else ⟨.loop m s (.ident n), stk, r⟩
    | .agg n => callFrom (.agg n) m s stk r
    | .wildcard => ⟨.loop m s .wildcard, stk, r⟩
    | .paren =>
      -- `if self.check(&RParen) { return Tuple([]) }`
      if r.head? = some .rparen then ⟨.loop m s .unit, stk, r.tail⟩
      else ⟨.start 0, ⟨.paren, m, s⟩ :: stk, r⟩
    | .bracket =>
      if r.head? = some .rbracket then ⟨.loop m s (.array .nil), stk, r.tail⟩
      else ⟨.start 0, ⟨.list .arr .nil, m, s⟩ :: stk, r⟩
    | .unary u => ⟨.start PREFIX_BP, ⟨.unary u, m, s⟩ :: stk, r⟩
    | .caseArm =>
      -- `if !self.check(&When) { Some(parse_expr()?) }`
      if r.head? = some .whenKw then caseNext .none .nil m s stk r
      else ⟨.start 0, ⟨.caseOperand, m, s⟩ :: stk, r⟩
    | .existsArm =>
      match mode with
      | .stmt => halt .outside
      | .expr =>
        -- `let token = self.expect(&LParen)?; Err(invalid("EXISTS …", token.span))`
        expect .lparen .lparen r fun r' => fail (.invalid .existsExpr (r'.length + 1))
    | .castArm =>
      match mode with
      | .stmt => halt .outside
      | .expr => fail (.unexpected .expression s)
    | .unexpected => fail (.unexpected .expression s)

/-- what the top of the loop (`parse_postfix`, then `current_binary_op`) sees -/
inductive LArm
  | isArm (r : List Tok)                     -- after `IS`
  | inArm (neg : Bool) (r : List Tok)        -- after `[NOT] IN`
  | betArm (neg : Bool) (r : List Tok)       -- after `[NOT] BETWEEN`
  | likeArm (neg : Bool) (r : List Tok)      -- after `[NOT] LIKE`
  | dotArm (r : List Tok)                    -- after `.`
  | binary (o : BinOp) (r : List Tok)
  | stop
  deriving DecidableEq, Repr

/-- `NOT` is a postfix starter only when the NEXT token (`self.peek()`) is IN / BETWEEN / LIKE -/
def loopArm : List Tok → LArm
  | .notKw :: .inKw :: r => .inArm true r
  | .notKw :: .betweenKw :: r => .betArm true r
  | .notKw :: .likeKw :: r => .likeArm true r
  | .isKw :: r => .isArm r
  | .inKw :: r => .inArm false r
  | .betweenKw :: r => .betArm false r
  | .likeKw :: r => .likeArm false r
  | .dot :: r => .dotArm r
  | .op o :: r => .binary o r
  | _ => .stop

/-- one turn of the `loop { … }` of `parse_expr_bp` in the frame `(m, s)` with the current `lhs` -/
def stepLoop (mode : Mode) (m s : Nat) (lhs : E) (stk : List Frame) (ts : List Tok) : St :=
  match loopArm ts with
  | .stop => ⟨.ret lhs, stk, ts⟩                              -- `None => break`
  | .binary o r =>
    if lbp o < m then ⟨.ret lhs, stk, ts⟩                     -- `if l_bp < min_bp { break }`
    else ⟨.start (rbp o), ⟨.binR lhs o, m, s⟩ :: stk, r⟩
  | .isArm r =>
    -- `let negated = self.eat(&Not); self.expect(&Null)?`
    let n := eat .notKw r
    expect .null .null n.2 fun r' => ⟨.loop m s (.isNull lhs n.1), stk, r'⟩
  | .inArm neg r =>
    expect .lparen .lparen r fun r1 =>
      -- parser.rs: `if self.check(&Select) { … parse_select_body … }`
      if mode = .stmt ∧ r1.head? = some .selectKw then halt .outside else
      if r1.head? = some .rparen then ⟨.loop m s (.inList lhs neg .nil), stk, r1.tail⟩
      else ⟨.start 0, ⟨.list (.inl lhs neg) .nil, m, s⟩ :: stk, r1⟩
  | .betArm neg r => ⟨.start PREFIX_BP, ⟨.betLo lhs neg, m, s⟩ :: stk, r⟩
  | .likeArm neg r => ⟨.start PREFIX_BP, ⟨.likeP lhs neg, m, s⟩ :: stk, r⟩
  | .dotArm r =>
    match r with
    | [] => fail (.eof .identifier)
    | t :: r1 =>
      match t with
      | .op .mul =>
        -- `if let ExprKind::Ident(ident) = expr.kind { QualifiedWildcard } else { Err(invalid @ expr.span) }`
        (match lhs with
         | .ident n => ⟨.loop m s (.qualWild false n), stk, r1⟩
         | .kwIdent n => ⟨.loop m s (.qualWild true n), stk, r1⟩
         | _ => fail (.invalid .qualWild s))
      | .ident n => ⟨.loop m s (.qual lhs n), stk, r1⟩
      | _ => fail (.unexpected .identifier (t :: r1).length)

/-- a nested `parse_expr_bp` has returned `Ok(e)` to the call site `f.k` of the frame `(f.m, f.s)` -/
def stepRet (e : E) (f : Frame) (stk : List Frame) (ts : List Tok) : St :=
  match f.k with
  | .unary u => ⟨.loop f.m f.s (.un u e), stk, ts⟩
  | .paren =>
    -- `if self.eat(&Comma) { tuple loop }` else `self.expect(&RParen)`
    if ts.head? = some .comma then ⟨.start 0, ⟨.list .tup (.cons e .nil), f.m, f.s⟩ :: stk, ts.tail⟩
    else expect .rparen .rparen ts fun r => ⟨.loop f.m f.s e, stk, r⟩
  | .list lk acc =>
    -- `if !self.eat(&Comma) { break }` … `self.expect(&close)`
    if ts.head? = some .comma then ⟨.start 0, ⟨.list lk (acc.snoc e), f.m, f.s⟩ :: stk, ts.tail⟩
    else expect lk.close lk.expectClose ts fun r => ⟨.loop f.m f.s (lk.build (acc.snoc e)), stk, r⟩
  | .binR l o => ⟨.loop f.m f.s (.bin l o e), stk, ts⟩
  | .betLo subj neg =>
    expect (.op .and) .andKw ts fun r => ⟨.start PREFIX_BP, ⟨.betHi subj neg e, f.m, f.s⟩ :: stk, r⟩
  | .betHi subj neg lo => ⟨.loop f.m f.s (.between subj neg lo e), stk, ts⟩
  | .likeP subj neg => ⟨.loop f.m f.s (.like subj neg e), stk, ts⟩
  | .caseOperand => caseNext (.some e) .nil f.m f.s stk ts
  | .caseCond operand acc =>
    expect .thenKw .thenKw ts fun r => ⟨.start 0, ⟨.caseRes operand acc e, f.m, f.s⟩ :: stk, r⟩
  | .caseRes operand acc c => caseNext operand (acc.snoc c e) f.m f.s stk ts
  | .caseElse operand c r rest =>
    expect .endKw .endKw ts fun r' => ⟨.loop f.m f.s (.case operand c r rest (.some e)), stk, r'⟩

/-- the outermost `parse_expr_bp(0)` has returned -/
def stepTop (mode : Mode) (e : E) (ts : List Tok) : St :=
  match mode with
  | .stmt => halt (.ok e)
  | .expr =>
    -- `if !parser.current().is_eof() { Err(unexpected .. "end of expression") }`
    match ts with
    | [] => halt (.ok e)
    | t :: r => fail (.unexpected .endOfExpr (t :: r).length)

def step (mode : Mode) (st : St) : St :=
  match st.ctl with
  | .done _ => st
  | .start m => stepStart mode m st.stk st.ts
  | .loop m s lhs => stepLoop mode m s lhs st.stk st.ts
  | .ret e =>
    match st.stk with
    | [] => stepTop mode e st.ts
    | f :: stk => stepRet e f stk st.ts

def run (mode : Mode) : Nat → St → St
  | 0, st => st
  | n+1, st => run mode n (step mode st)

def init (ts : List Tok) : St := ⟨.start 0, [], ts⟩

/-- number of steps that always suffices (`FullProps.full_total`) -/
def fuelFor (ts : List Tok) : Nat := 4 * ts.length + 3

def result (st : St) : Res :=
  match st.ctl with
  | .done r => r
  | _ => .error .fuel

def parseWith (mode : Mode) (fuel : Nat) (ts : List Tok) : Res := result (run mode fuel (init ts))

/-- `neumann_parser::parse_expr` (`mode = expr`) / an expression position of the statement parser
    (`mode = stmt`) on a token list -/
def parse (mode : Mode) (ts : List Tok) : Res := parseWith mode (fuelFor ts) ts

/-! ### printing -/

/-- binding power at which an expression can stand as an operand without parentheses: a binary
    node needs `min_bp ≤ lbp op`; everything else is taken whole by the frame that starts it
    (prefix position, then the postfix loop, which has no binding-power test) -/
def topBp : E → Nat
  | .bin _ o _ => lbp o
  | _ => 100

/-- the expression ends in an operand that its own frame is still extending (right operand, prefix
    operand, BETWEEN bound, LIKE pattern): a postfix form written after it would attach to that
    operand, so as the SUBJECT of a postfix form it needs parentheses -/
def openEnd : E → Bool
  | .un _ _ => true
  | .bin _ _ _ => true
  | .between _ _ _ _ => true
  | .like _ _ _ => true
  | _ => false

def wrap (b : Bool) (ts : List Tok) : List Tok :=
  if b then Tok.lparen :: ts ++ [Tok.rparen] else ts

def unTok : UnOp → Tok
  | .neg => .op .sub
  | .not => .notKw
  | .bitNot => .tilde

def negToks (neg : Bool) : List Tok := if neg then [.notKw] else []

def calleeTok : Callee → Tok
  | .fn n => .ident n
  | .agg n => .agg n

def identTok (kw : Bool) (n : Nat) : Tok := if kw then .kw n else .ident n

def distinctToks (d : Bool) : List Tok := if d then [.distinctKw] else []

mutual
/-- Print with the parentheses the precedence / associativity / postfix rules require, plus
    redundant ones around every operand, subject, list item and CASE part `x` with `extra x`. -/
def printWith (extra : E → Bool) : E → List Tok
  | .lit n => [.lit n]
  | .null => [.null]
  | .ident n => [.ident n]
  | .kwIdent n => [.kw n]
  | .wildcard => [.op .mul]
  | .unit => [.lparen, .rparen]
  | .tuple a b rest =>
      .lparen :: (wrap (extra a) (printWith extra a) ++ .comma :: wrap (extra b) (printWith extra b)
        ++ printTail extra rest ++ [.rparen])
  | .un u x => unTok u :: wrap (extra x || decide (topBp x < PREFIX_BP)) (printWith extra x)
  | .bin l o r =>
      wrap (extra l || decide (topBp l < lbp o)) (printWith extra l)
        ++ .op o :: wrap (extra r || decide (topBp r < rbp o)) (printWith extra r)
  | .isNull x neg =>
      wrap (extra x || openEnd x) (printWith extra x) ++ .isKw :: (negToks neg ++ [.null])
  | .inList x neg items =>
      wrap (extra x || openEnd x) (printWith extra x)
        ++ (negToks neg ++ .inKw :: .lparen :: (printItems extra items ++ [.rparen]))
  | .between x neg lo hi =>
      wrap (extra x || openEnd x) (printWith extra x)
        ++ (negToks neg ++ .betweenKw :: (wrap (extra lo || decide (topBp lo < PREFIX_BP)) (printWith extra lo)
          ++ .op .and :: wrap (extra hi || decide (topBp hi < PREFIX_BP)) (printWith extra hi)))
  | .like x neg p =>
      wrap (extra x || openEnd x) (printWith extra x)
        ++ (negToks neg ++ .likeKw :: wrap (extra p || decide (topBp p < PREFIX_BP)) (printWith extra p))
  | .qual x n => wrap (extra x || openEnd x) (printWith extra x) ++ [.dot, .ident n]
  | .qualWild kw n => [identTok kw n, .dot, .op .mul]
  | .call f d args =>
      calleeTok f :: .lparen :: (distinctToks d ++ (printItems extra args ++ [.rparen]))
  | .array items => .lbracket :: (printItems extra items ++ [.rbracket])
  | .case operand c r rest els =>
      .caseKw :: (printOpt extra operand
        ++ .whenKw :: (wrap (extra c) (printWith extra c) ++ .thenKw :: (wrap (extra r) (printWith extra r)
          ++ (printWhens extra rest ++ (printElse extra els ++ [.endKw])))))
/-- `e1 , e2 , …` -/
def printItems (extra : E → Bool) : EL → List Tok
  | .nil => []
  | .cons e l => wrap (extra e) (printWith extra e) ++ printTail extra l
/-- `, e1 , e2 …` -/
def printTail (extra : E → Bool) : EL → List Tok
  | .nil => []
  | .cons e l => .comma :: (wrap (extra e) (printWith extra e) ++ printTail extra l)
def printWhens (extra : E → Bool) : WL → List Tok
  | .nil => []
  | .cons c r l =>
      .whenKw :: (wrap (extra c) (printWith extra c) ++ .thenKw :: (wrap (extra r) (printWith extra r)
        ++ printWhens extra l))
/-- the CASE operand -/
def printOpt (extra : E → Bool) : OE → List Tok
  | .none => []
  | .some e => wrap (extra e) (printWith extra e)
def printElse (extra : E → Bool) : OE → List Tok
  | .none => []
  | .some e => .elseKw :: wrap (extra e) (printWith extra e)
end

def isCompound : E → Bool
  | .lit _ => false
  | .null => false
  | .ident _ => false
  | .kwIdent _ => false
  | .wildcard => false
  | .unit => false
  | .qualWild _ _ => false
  | _ => true

/-- minimal parenthesisation -/
def printMin : E → List Tok := printWith (fun _ => false)
/-- every compound operand / subject / item parenthesised -/
def printFull : E → List Tok := printWith isCompound
/-- everything parenthesised -/
def printAll : E → List Tok := printWith (fun _ => true)

/-! ### nesting measure -/

/-- frames of an operand that is parsed by a NEW frame, parenthesised iff `b` -/
def wf (b : Bool) (n : Nat) : Nat := if b then 1 + n else n

mutual
/-- Number of simultaneously active `parse_expr_bp` frames the real parser needs for
    `printWith extra e` when `e` is parsed by a fresh frame (that frame included): the subject of
    a postfix form and a left operand are built inside the current frame; every other operand, list
    item and CASE part is a nested call; a pair of parentheses is one more nested call. -/
def framesWith (extra : E → Bool) : E → Nat
  | .lit _ => 1
  | .null => 1
  | .ident _ => 1
  | .kwIdent _ => 1
  | .wildcard => 1
  | .unit => 1
  | .qualWild _ _ => 1
  | .tuple a b rest =>
      1 + max (wf (extra a) (framesWith extra a)) (max (wf (extra b) (framesWith extra b)) (framesItems extra rest))
  | .un _ x => 1 + wf (extra x || decide (topBp x < PREFIX_BP)) (framesWith extra x)
  | .bin l o r =>
      max (wf (extra l || decide (topBp l < lbp o)) (framesWith extra l))
          (1 + wf (extra r || decide (topBp r < rbp o)) (framesWith extra r))
  | .isNull x _ => wf (extra x || openEnd x) (framesWith extra x)
  | .inList x _ items => max (wf (extra x || openEnd x) (framesWith extra x)) (1 + framesItems extra items)
  | .between x _ lo hi =>
      max (wf (extra x || openEnd x) (framesWith extra x))
        (1 + max (wf (extra lo || decide (topBp lo < PREFIX_BP)) (framesWith extra lo))
                 (wf (extra hi || decide (topBp hi < PREFIX_BP)) (framesWith extra hi)))
  | .like x _ p =>
      max (wf (extra x || openEnd x) (framesWith extra x))
        (1 + wf (extra p || decide (topBp p < PREFIX_BP)) (framesWith extra p))
  | .qual x _ => wf (extra x || openEnd x) (framesWith extra x)
  | .call _ _ args => 1 + framesItems extra args
  | .array items => 1 + framesItems extra items
  | .case operand c r rest els =>
      1 + max (framesOpt extra operand) (max (wf (extra c) (framesWith extra c))
        (max (wf (extra r) (framesWith extra r)) (max (framesWhens extra rest) (framesOpt extra els))))
/-- the deepest item (0 for the empty list) -/
def framesItems (extra : E → Bool) : EL → Nat
  | .nil => 0
  | .cons e l => max (wf (extra e) (framesWith extra e)) (framesItems extra l)
def framesWhens (extra : E → Bool) : WL → Nat
  | .nil => 0
  | .cons c r l =>
      max (wf (extra c) (framesWith extra c)) (max (wf (extra r) (framesWith extra r)) (framesWhens extra l))
def framesOpt (extra : E → Bool) : OE → Nat
  | .none => 0
  | .some e => wf (extra e) (framesWith extra e)
end

def framesMin : E → Nat := framesWith (fun _ => false)

end Neumann.Parse.Full
