import NeumannModel.Parse.Select
/-
  C15 — helper lemmas for the SELECT-skeleton model (`Parse/Select.lean`).
  Core Lean only (no Mathlib).
-/
namespace Neumann.Parse.Sel

/-- the select limit does not exceed the expression limit (both are 64 in the code) -/
theorem limits_ordered : MAX_SELECT_DEPTH ≤ MAX_DEPTH := by decide

/-! ### `Res.bind` -/

@[simp] theorem bind_ok {α β : Type} (a : α) (f : α → Res β) : (Res.ok a).bind f = f a := rfl
@[simp] theorem bind_error {α β : Type} (e : SErr) (f : α → Res β) :
    (Res.error e : Res α).bind f = .error e := rfl
@[simp] theorem bind_outside {α β : Type} (f : α → Res β) : (Res.outside : Res α).bind f = .outside := rfl

theorem bind_eq_ok {α β : Type} {r : Res α} {f : α → Res β} {b : β} :
    r.bind f = .ok b ↔ ∃ a, r = .ok a ∧ f a = .ok b := by
  cases r <;> simp [Res.bind]

/-- "is not the model's own out-of-fuel answer" -/
def NF {α : Type} (r : Res α) : Prop := r ≠ .error .fuel

theorem NF_bind {α β : Type} {r : Res α} {f : α → Res β} (h : NF r)
    (hf : ∀ a, r = .ok a → NF (f a)) : NF (r.bind f) := by
  cases r with
  | ok a => exact hf a rfl
  | error e => simpa [NF, Res.bind] using h
  | outside => simp [NF, Res.bind]

/-! ### the non-recursive pieces -/

theorem expect_nf (t : STok) (x : SExpect) (ts : List STok) : NF (expect t x ts) := by
  cases ts with
  | nil => simp [expect, NF]
  | cons c r => simp only [expect, NF]; split <;> simp

theorem expect_ok {t : STok} {x : SExpect} {ts r : List STok} (h : expect t x ts = .ok r) :
    ts = t :: r := by
  cases ts with
  | nil => simp [expect] at h
  | cons c r' =>
    simp only [expect] at h
    split at h
    · next hc => simp only [Res.ok.injEq] at h; rw [hc, h]
    · simp at h

@[simp] theorem expect_self (t : STok) (x : SExpect) (r : List STok) : expect t x (t :: r) = .ok r := by
  simp [expect]

theorem expectIdent_nf (ts : List STok) : NF (expectIdent ts) := by
  cases ts with
  | nil => simp [expectIdent, NF]
  | cons c r => cases c <;> simp [expectIdent, NF]

theorem expectIdent_ok {ts r : List STok} {n : Nat} (h : expectIdent ts = .ok (n, r)) :
    ts = .tbl n :: r := by
  cases ts with
  | nil => simp [expectIdent] at h
  | cons c r' =>
    cases c <;> simp [expectIdent] at h
    obtain ⟨h1, h2⟩ := h
    rw [h1, h2]

theorem item_nf (maxE ed : Nat) (ts : List STok) : NF (item maxE ed ts) := by
  unfold item
  split
  · simp [NF]
  · cases ts with
    | nil => simp [NF]
    | cons t r =>
      simp only
      cases hp : prefixArm t <;> simp only [NF] <;> try simp
      split <;> simp

theorem item_ok {maxE ed : Nat} {ts r : List STok} (h : item maxE ed ts = .ok r) :
    ts = .star :: r ∧ ed + 1 ≤ maxE ∧ headIsStar r = false ∧ headIsTbl r = false := by
  unfold item at h
  split at h
  · simp at h
  · next hle =>
    cases ts with
    | nil => simp at h
    | cons t r' =>
      simp only at h
      cases t <;> simp only [prefixArm] at h <;> try (simp at h; done)
      split at h
      · simp at h
      · next hh =>
        simp only [Res.ok.injEq] at h
        subst h
        simp only [Bool.or_eq_true, not_or, Bool.not_eq_true] at hh
        exact ⟨rfl, by omega, hh.1, hh.2⟩

theorem item_star {maxE ed : Nat} {r : List STok} (he : ed + 1 ≤ maxE) (h1 : headIsStar r = false)
    (h2 : headIsTbl r = false) : item maxE ed (.star :: r) = .ok r := by
  have : ¬ (ed + 1 > maxE) := by omega
  simp [item, prefixArm, this, h1, h2]

theorem item_indep {maxE maxE' ed : Nat} (ts : List STok) (h : ed + 1 ≤ maxE) (h' : ed + 1 ≤ maxE') :
    item maxE ed ts = item maxE' ed ts := by
  have h1 : ¬ (ed + 1 > maxE) := by omega
  have h2 : ¬ (ed + 1 > maxE') := by omega
  simp only [item, h1, h2, if_false]

theorem afterTref_nf (s : Src) (r : List STok) : NF (afterTref s r) := by
  unfold afterTref; split <;> simp [NF]

theorem afterTref_ok {s s' : Src} {r r' : List STok} (h : afterTref s r = .ok (s', r')) :
    s' = s ∧ r' = r ∧ headIsTbl r = false := by
  unfold afterTref at h
  split at h
  · simp at h
  · next hh =>
    simp only [Res.ok.injEq, Prod.mk.injEq] at h
    exact ⟨h.1.symm, h.2.symm, by simpa using hh⟩

theorem afterTref_pass {s : Src} {r : List STok} (h : headIsTbl r = false) :
    afterTref s r = .ok (s, r) := by
  simp [afterTref, h]

/-! ### one unfolding of each recursive function -/

theorem body_eq {maxS maxE f sd ed : Nat} {ts : List STok} (h : sd + 1 ≤ maxS) :
    bodyN maxS maxE (f+1) sd ed ts =
      (item maxE ed ts).bind fun r1 =>
      (srcN maxS maxE f (sd+1) ed r1).bind fun p =>
      (condN maxS maxE f (sd+1) ed p.2).bind fun p' => .ok (build p.1 p'.1, p'.2) := by
  have : ¬ (sd + 1 > maxS) := by omega
  rw [bodyN]
  simp only [this, if_false]

theorem body_deep {maxS maxE f sd ed : Nat} {ts : List STok} (h : maxS < sd + 1) :
    bodyN maxS maxE (f+1) sd ed ts = .error (.tooDeep ts.length) := by
  rw [bodyN]
  simp only [gt_iff_lt, h, if_true]

theorem src_none {maxS maxE f sd ed : Nat} {ts : List STok} (h : ts.head? ≠ some .fromKw) :
    srcN maxS maxE (f+1) sd ed ts = .ok (.plain none, ts) := by
  rw [srcN]
  intro r hr
  subst hr
  simp at h

theorem src_tbl {maxS maxE f sd ed n : Nat} {r : List STok} (h : headIsTbl r = false) :
    srcN maxS maxE (f+1) sd ed (.fromKw :: .tbl n :: r) = .ok (.plain (some n), r) := by
  rw [srcN]
  simp [expectIdent, afterTref, h]

theorem src_sub_eq {maxS maxE f sd ed : Nat} {ts : List STok} :
    srcN maxS maxE (f+1) sd ed (.fromKw :: .lparen :: .select :: ts) =
      (bodyN maxS maxE f sd ed ts).bind fun p =>
      (expect .rparen .rparen p.2).bind fun r3 => afterTref (.sub p.1) r3 := by
  rw [srcN]
  simp

theorem src_sub {maxS maxE f sd ed : Nat} {ts r : List STok} {s : Q}
    (hb : bodyN maxS maxE f sd ed ts = .ok (s, .rparen :: r)) (hr : headIsTbl r = false) :
    srcN maxS maxE (f+1) sd ed (.fromKw :: .lparen :: .select :: ts) = .ok (.sub s, r) := by
  rw [src_sub_eq, hb]
  simp [afterTref, hr]

theorem src_sub_err {maxS maxE f sd ed : Nat} {ts : List STok} {e : SErr}
    (hb : bodyN maxS maxE f sd ed ts = .error e) :
    srcN maxS maxE (f+1) sd ed (.fromKw :: .lparen :: .select :: ts) = .error e := by
  rw [src_sub_eq, hb]
  rfl

theorem cond_none {maxS maxE f sd ed : Nat} {ts : List STok} (h : ts.head? ≠ some .whereKw) :
    condN maxS maxE (f+1) sd ed ts = .ok (none, ts) := by
  rw [condN]
  intro r hr
  subst hr
  simp at h

theorem cond_sub_eq {maxS maxE f sd ed : Nat} {ts : List STok} (he : ed + 1 ≤ maxE) :
    condN maxS maxE (f+1) sd ed (.whereKw :: .existsKw :: .lparen :: .select :: ts) =
      (bodyN maxS maxE f sd (ed+1) ts).bind fun p =>
      (expect .rparen .rparen p.2).bind fun r4 =>
      if headIsStar r4 then .outside else .ok (some p.1, r4) := by
  have : ¬ (ed + 1 > maxE) := by omega
  rw [condN]
  simp [this, prefixArm]

theorem cond_sub {maxS maxE f sd ed : Nat} {ts r : List STok} {w : Q} (he : ed + 1 ≤ maxE)
    (hb : bodyN maxS maxE f sd (ed+1) ts = .ok (w, .rparen :: r)) (hr : headIsStar r = false) :
    condN maxS maxE (f+1) sd ed (.whereKw :: .existsKw :: .lparen :: .select :: ts) = .ok (some w, r) := by
  rw [cond_sub_eq he, hb]
  simp [hr]

theorem cond_sub_err {maxS maxE f sd ed : Nat} {ts : List STok} {e : SErr} (he : ed + 1 ≤ maxE)
    (hb : bodyN maxS maxE f sd (ed+1) ts = .error e) :
    condN maxS maxE (f+1) sd ed (.whereKw :: .existsKw :: .lparen :: .select :: ts) = .error e := by
  rw [cond_sub_eq he, hb]
  rfl

/-! ### what a successful parse consumed: exactly the print of its tree -/

def printS : Src → List STok
  | .plain o => printSrc o
  | .sub s => .fromKw :: .lparen :: .select :: (print s ++ [.rparen])

def printW : Option Q → List STok
  | none => []
  | some w => .whereKw :: .existsKw :: .lparen :: .select :: (print w ++ [.rparen])

def depS : Src → Nat
  | .plain _ => 0
  | .sub s => sdepth s

def depW : Option Q → Nat
  | none => 0
  | some w => sdepth w

theorem print_build (s : Src) (w : Option Q) : print (build s w) = .star :: (printS s ++ printW w) := by
  cases s <;> cases w <;> simp [build, print, printS, printW]

theorem sdepth_build (s : Src) (w : Option Q) : sdepth (build s w) = 1 + max (depS s) (depW w) := by
  cases s <;> cases w <;> simp [build, sdepth, depS, depW]

/-- Soundness of acceptance: an accepted body is the print of the returned tree followed by the
    returned rest, and the tree fits the select-depth limit. -/
theorem sound (maxS maxE : Nat) : ∀ fuel,
    (∀ sd ed ts q r, bodyN maxS maxE fuel sd ed ts = .ok (q, r) →
        ts = print q ++ r ∧ sd + sdepth q ≤ maxS) ∧
    (∀ sd ed ts s r, srcN maxS maxE fuel sd ed ts = .ok (s, r) →
        ts = printS s ++ r ∧ (depS s = 0 ∨ sd + depS s ≤ maxS)) ∧
    (∀ sd ed ts w r, condN maxS maxE fuel sd ed ts = .ok (w, r) →
        ts = printW w ++ r ∧ (depW w = 0 ∨ sd + depW w ≤ maxS)) := by
  intro fuel
  induction fuel with
  | zero => refine ⟨?_, ?_, ?_⟩ <;> intro sd ed ts x r h <;> simp [bodyN, srcN, condN] at h
  | succ f ih =>
    obtain ⟨ihB, ihS, ihC⟩ := ih
    refine ⟨?_, ?_, ?_⟩
    · intro sd ed ts q r h
      by_cases hd : sd + 1 ≤ maxS
      · rw [body_eq hd] at h
        simp only [bind_eq_ok] at h
        obtain ⟨r1, h1, ⟨s, r2⟩, h2, ⟨w, r3⟩, h3, h4⟩ := h
        simp only [Res.ok.injEq, Prod.mk.injEq] at h4
        obtain ⟨hq, hr⟩ := h4
        subst hq hr
        simp only at h3
        obtain ⟨e1, -, -, -⟩ := item_ok h1
        obtain ⟨e2, d2⟩ := ihS _ _ _ _ _ h2
        obtain ⟨e3, d3⟩ := ihC _ _ _ _ _ h3
        refine ⟨?_, ?_⟩
        · rw [e1, e2, e3, print_build]; simp
        · rw [sdepth_build]; omega
      · rw [body_deep (by omega)] at h
        simp at h
    · intro sd ed ts s r h
      rw [srcN.eq_def] at h
      simp only at h
      split at h
      · next r0 =>
        split at h
        · next hl =>
          simp only [bind_eq_ok] at h
          obtain ⟨r1, h1, ⟨q, r2⟩, h2, r3, h3, h4⟩ := h
          obtain ⟨hs, hr, -⟩ := afterTref_ok h4
          subst hs hr
          have e1 := expect_ok h1
          obtain ⟨e2, d2⟩ := ihB _ _ _ _ _ h2
          have e3 := expect_ok h3
          have e0 : r0 = .lparen :: r0.tail := by
            cases r0 with
            | nil => simp at hl
            | cons c t => simp only [List.head?_cons, Option.some.injEq] at hl; rw [hl]; rfl
          refine ⟨?_, Or.inr d2⟩
          rw [e0, e1, e2]
          simp only at e3
          rw [e3]
          simp [printS]
        · simp only [bind_eq_ok] at h
          obtain ⟨⟨n, r1⟩, h1, h4⟩ := h
          obtain ⟨hs, hr, -⟩ := afterTref_ok h4
          subst hs hr
          rw [expectIdent_ok h1]
          exact ⟨by simp [printS, printSrc], Or.inl rfl⟩
      · simp only [Res.ok.injEq, Prod.mk.injEq] at h
        obtain ⟨hs, hr⟩ := h
        subst hs hr
        exact ⟨by simp [printS, printSrc], Or.inl rfl⟩
    · intro sd ed ts w r h
      rw [condN.eq_def] at h
      simp only at h
      split at h
      · next r0 =>
        split at h
        · simp at h
        · split at h
          · simp at h
          · next p r1 =>
            cases p <;> simp only [prefixArm] at h <;> try (simp at h; done)
            simp only [bind_eq_ok] at h
            obtain ⟨r2, h2, r3, h3, ⟨q, r4⟩, h4, r5, h5, h6⟩ := h
            have e2 := expect_ok h2
            have e3 := expect_ok h3
            obtain ⟨e4, d4⟩ := ihB _ _ _ _ _ h4
            have e5 := expect_ok h5
            simp only at h6 e5
            split at h6
            · simp at h6
            · simp only [Res.ok.injEq, Prod.mk.injEq] at h6
              obtain ⟨hw, hr⟩ := h6
              subst hw hr
              refine ⟨?_, Or.inr d4⟩
              rw [e2, e3, e4, e5]
              simp [printW]
      · simp only [Res.ok.injEq, Prod.mk.injEq] at h
        obtain ⟨hs, hr⟩ := h
        subst hs hr
        exact ⟨by simp [printW], Or.inl rfl⟩

theorem print_pos (q : Q) : 1 ≤ (print q).length := by
  cases q <;> simp [print]

/-! ### fuel adequacy -/

theorem no_fuel (maxS maxE : Nat) : ∀ fuel,
    (∀ sd ed ts, ts.length < fuel → NF (bodyN maxS maxE fuel sd ed ts)) ∧
    (∀ sd ed ts, ts.length < fuel → NF (srcN maxS maxE fuel sd ed ts)) ∧
    (∀ sd ed ts, ts.length < fuel → NF (condN maxS maxE fuel sd ed ts)) := by
  intro fuel
  induction fuel with
  | zero => refine ⟨?_, ?_, ?_⟩ <;> intro sd ed ts h <;> omega
  | succ f ih =>
    obtain ⟨ihB, ihS, ihC⟩ := ih
    obtain ⟨-, sS, -⟩ := sound maxS maxE f
    refine ⟨?_, ?_, ?_⟩
    · intro sd ed ts hl
      by_cases hd : sd + 1 ≤ maxS
      · rw [body_eq hd]
        refine NF_bind (item_nf _ _ _) fun r1 h1 => ?_
        have e1 := (item_ok h1).1
        have l1 : r1.length < f := by rw [e1] at hl; simp at hl; omega
        refine NF_bind (ihS _ _ _ l1) fun p h2 => ?_
        obtain ⟨s, r2⟩ := p
        have e2 := (sS _ _ _ _ _ h2).1
        have l2 : r2.length < f := by rw [e2] at l1; simp at l1; omega
        refine NF_bind (ihC _ _ _ l2) fun p' _ => ?_
        simp [NF]
      · rw [body_deep (by omega)]
        simp [NF]
    · intro sd ed ts hl
      rw [srcN.eq_def]
      simp only
      split
      · next r0 =>
        simp only [List.length_cons] at hl
        split
        · refine NF_bind (expect_nf _ _ _) fun r1 h1 => ?_
          have e1 := expect_ok h1
          have l1 : r1.length < f := by
            have : r1.length + 1 = r0.tail.length := by rw [e1]; simp
            have : r0.tail.length ≤ r0.length := by simp
            omega
          refine NF_bind (ihB _ _ _ l1) fun p _ => ?_
          refine NF_bind (expect_nf _ _ _) fun r3 _ => afterTref_nf _ _
        · refine NF_bind (expectIdent_nf _) fun p _ => afterTref_nf _ _
      · simp [NF]
    · intro sd ed ts hl
      rw [condN.eq_def]
      simp only
      split
      · next r0 =>
        simp only [List.length_cons] at hl
        split
        · simp [NF]
        · split
          · simp [NF]
          · next p r1 =>
            cases p <;> simp only [prefixArm] <;> try (simp [NF]; done)
            simp only [List.length_cons] at hl
            refine NF_bind (expect_nf _ _ _) fun r2 h2 => ?_
            refine NF_bind (expect_nf _ _ _) fun r3 h3 => ?_
            have e2 := expect_ok h2
            have e3 := expect_ok h3
            have l3 : r3.length < f := by
              rw [e2, e3] at hl; simp at hl; omega
            refine NF_bind (ihB _ _ _ l3) fun p _ => ?_
            refine NF_bind (expect_nf _ _ _) fun r5 _ => ?_
            split <;> simp [NF]
      · simp [NF]

/-! ### the continuation after a body -/

/-- tokens that stop a body without leaving the fragment: everything except `*` (binary operator
    after the item / the EXISTS expression), an identifier (implicit alias), FROM and WHERE -/
def stops : List STok → Bool
  | .star :: _ => false
  | .tbl _ :: _ => false
  | .fromKw :: _ => false
  | .whereKw :: _ => false
  | _ => true

theorem stops_facts {r : List STok} (h : stops r = true) :
    headIsStar r = false ∧ headIsTbl r = false ∧ r.head? ≠ some .fromKw ∧ r.head? ≠ some .whereKw := by
  cases r with
  | nil => simp [headIsStar, headIsTbl]
  | cons t r => cases t <;> simp [stops, headIsStar, headIsTbl] at h ⊢

@[simp] theorem stops_nil : stops [] = true := rfl
@[simp] theorem stops_rparen (r : List STok) : stops (.rparen :: r) = true := rfl

/-! ### round trip -/

theorem K (maxS maxE : Nat) (hSE : maxS ≤ maxE) : ∀ (q : Q) (fuel sd ed : Nat) (rest : List STok),
    stops rest = true → sd + sdepth q ≤ maxS → ed ≤ sd → (print q).length + rest.length < fuel →
    bodyN maxS maxE fuel sd ed (print q ++ rest) = .ok (q, rest) := by
  intro q
  induction q with
  | leaf o =>
    intro fuel sd ed rest hs hd he hf
    obtain ⟨s1, s2, s3, s4⟩ := stops_facts hs
    simp only [sdepth] at hd
    obtain ⟨f, rfl⟩ : ∃ f, fuel = f + 2 := ⟨fuel - 2, by have := print_pos (.leaf o); omega⟩
    cases o with
    | none =>
      simp only [print, printSrc, List.cons_append, List.nil_append]
      rw [body_eq (by omega), item_star (by omega) s1 s2, bind_ok, src_none s3, bind_ok]
      simp only
      rw [cond_none s4, bind_ok]
      rfl
    | some n =>
      simp only [print, printSrc, List.cons_append, List.nil_append]
      rw [body_eq (by omega), item_star (by omega) rfl rfl, bind_ok, src_tbl s2, bind_ok]
      simp only
      rw [cond_none s4, bind_ok]
      rfl
  | fromSub s ih =>
    intro fuel sd ed rest hs hd he hf
    obtain ⟨s1, s2, s3, s4⟩ := stops_facts hs
    simp only [sdepth] at hd
    simp only [print, List.cons_append, List.append_assoc, List.nil_append, List.length_cons,
      List.length_append, List.length_nil] at hf ⊢
    obtain ⟨f, rfl⟩ : ∃ f, fuel = f + 2 := ⟨fuel - 2, by omega⟩
    have hb := ih f (sd+1) ed (.rparen :: rest) rfl (by omega) (by omega)
      (by simp only [List.length_cons]; omega)
    rw [body_eq (by omega), item_star (by omega) rfl rfl, bind_ok, src_sub hb s2, bind_ok]
    simp only
    rw [cond_none s4, bind_ok]
    rfl
  | whereSub o w ih =>
    intro fuel sd ed rest hs hd he hf
    obtain ⟨s1, s2, s3, s4⟩ := stops_facts hs
    simp only [sdepth] at hd
    cases o with
    | none =>
      simp only [print, printSrc, List.cons_append, List.append_assoc, List.nil_append,
        List.length_cons, List.length_append, List.length_nil] at hf ⊢
      obtain ⟨f, rfl⟩ : ∃ f, fuel = f + 2 := ⟨fuel - 2, by omega⟩
      have hb := ih f (sd+1) (ed+1) (.rparen :: rest) rfl (by omega) (by omega)
        (by simp only [List.length_cons]; omega)
      rw [body_eq (by omega), item_star (by omega) rfl rfl, bind_ok, src_none (by simp), bind_ok]
      simp only
      rw [cond_sub (by omega) hb s1, bind_ok]
      rfl
    | some n =>
      simp only [print, printSrc, List.cons_append, List.append_assoc, List.nil_append,
        List.length_cons, List.length_append, List.length_nil] at hf ⊢
      obtain ⟨f, rfl⟩ : ∃ f, fuel = f + 2 := ⟨fuel - 2, by omega⟩
      have hb := ih f (sd+1) (ed+1) (.rparen :: rest) rfl (by omega) (by omega)
        (by simp only [List.length_cons]; omega)
      rw [body_eq (by omega), item_star (by omega) rfl rfl, bind_ok, src_tbl rfl, bind_ok]
      simp only
      rw [cond_sub (by omega) hb s1, bind_ok]
      rfl
  | both s w ihs ihw =>
    intro fuel sd ed rest hs hd he hf
    obtain ⟨s1, s2, s3, s4⟩ := stops_facts hs
    simp only [sdepth] at hd
    simp only [print, List.cons_append, List.append_assoc, List.nil_append, List.length_cons,
      List.length_append, List.length_nil] at hf ⊢
    obtain ⟨f, rfl⟩ : ∃ f, fuel = f + 2 := ⟨fuel - 2, by omega⟩
    have hbs := ihs f (sd+1) ed
      (.rparen :: .whereKw :: .existsKw :: .lparen :: .select :: (print w ++ .rparen :: rest)) rfl
      (by omega) (by omega) (by simp only [List.length_cons, List.length_append]; omega)
    have hbw := ihw f (sd+1) (ed+1) (.rparen :: rest) rfl (by omega) (by omega)
      (by simp only [List.length_cons]; omega)
    rw [body_eq (by omega), item_star (by omega) rfl rfl, bind_ok, src_sub hbs rfl, bind_ok]
    simp only
    rw [cond_sub (by omega) hbw s1, bind_ok]
    rfl

/-! ### beyond the limit -/

theorem TD (maxS maxE : Nat) (hSE : maxS ≤ maxE) : ∀ (q : Q) (fuel sd ed : Nat) (rest : List STok),
    maxS < sd + sdepth q → ed ≤ sd → (print q).length + rest.length < fuel →
    ∃ k, bodyN maxS maxE fuel sd ed (print q ++ rest) = .error (.tooDeep k) := by
  intro q
  induction q with
  | leaf o =>
    intro fuel sd ed rest hd he hf
    simp only [sdepth] at hd
    obtain ⟨f, rfl⟩ : ∃ f, fuel = f + 1 := ⟨fuel - 1, by omega⟩
    exact ⟨_, body_deep (by omega)⟩
  | fromSub s ih =>
    intro fuel sd ed rest hd he hf
    simp only [sdepth] at hd
    simp only [print, List.cons_append, List.append_assoc, List.nil_append, List.length_cons,
      List.length_append, List.length_nil] at hf ⊢
    obtain ⟨f, rfl⟩ : ∃ f, fuel = f + 2 := ⟨fuel - 2, by omega⟩
    by_cases h1 : sd + 1 ≤ maxS
    · obtain ⟨k, hk⟩ := ih f (sd+1) ed (.rparen :: rest) (by omega) (by omega)
        (by simp only [List.length_cons]; omega)
      refine ⟨k, ?_⟩
      rw [body_eq h1, item_star (by omega) rfl rfl, bind_ok, src_sub_err hk]
      rfl
    · exact ⟨_, body_deep (by omega)⟩
  | whereSub o w ih =>
    intro fuel sd ed rest hd he hf
    simp only [sdepth] at hd
    by_cases h1 : sd + 1 ≤ maxS
    · cases o with
      | none =>
        simp only [print, printSrc, List.cons_append, List.append_assoc, List.nil_append,
          List.length_cons, List.length_append, List.length_nil] at hf ⊢
        obtain ⟨f, rfl⟩ : ∃ f, fuel = f + 2 := ⟨fuel - 2, by omega⟩
        obtain ⟨k, hk⟩ := ih f (sd+1) (ed+1) (.rparen :: rest) (by omega) (by omega)
          (by simp only [List.length_cons]; omega)
        refine ⟨k, ?_⟩
        rw [body_eq h1, item_star (by omega) rfl rfl, bind_ok, src_none (by simp), bind_ok]
        simp only
        rw [cond_sub_err (by omega) hk]
        rfl
      | some n =>
        simp only [print, printSrc, List.cons_append, List.append_assoc, List.nil_append,
          List.length_cons, List.length_append, List.length_nil] at hf ⊢
        obtain ⟨f, rfl⟩ : ∃ f, fuel = f + 2 := ⟨fuel - 2, by omega⟩
        obtain ⟨k, hk⟩ := ih f (sd+1) (ed+1) (.rparen :: rest) (by omega) (by omega)
          (by simp only [List.length_cons]; omega)
        refine ⟨k, ?_⟩
        rw [body_eq h1, item_star (by omega) rfl rfl, bind_ok, src_tbl rfl, bind_ok]
        simp only
        rw [cond_sub_err (by omega) hk]
        rfl
    · obtain ⟨f, rfl⟩ : ∃ f, fuel = f + 1 := ⟨fuel - 1, by omega⟩
      exact ⟨_, body_deep (by omega)⟩
  | both s w ihs ihw =>
    intro fuel sd ed rest hd he hf
    simp only [sdepth] at hd
    simp only [print, List.cons_append, List.append_assoc, List.nil_append, List.length_cons,
      List.length_append, List.length_nil] at hf ⊢
    obtain ⟨f, rfl⟩ : ∃ f, fuel = f + 2 := ⟨fuel - 2, by omega⟩
    by_cases h1 : sd + 1 ≤ maxS
    · by_cases h2 : sd + 1 + sdepth s ≤ maxS
      · -- the FROM subquery fits, so the EXISTS subquery is the one that is too deep
        have hbs := K maxS maxE hSE s f (sd+1) ed
          (.rparen :: .whereKw :: .existsKw :: .lparen :: .select :: (print w ++ .rparen :: rest)) rfl
          h2 (by omega) (by simp only [List.length_cons, List.length_append]; omega)
        obtain ⟨k, hk⟩ := ihw f (sd+1) (ed+1) (.rparen :: rest) (by omega) (by omega)
          (by simp only [List.length_cons]; omega)
        refine ⟨k, ?_⟩
        rw [body_eq h1, item_star (by omega) rfl rfl, bind_ok, src_sub hbs rfl, bind_ok]
        simp only
        rw [cond_sub_err (by omega) hk]
        rfl
      · obtain ⟨k, hk⟩ := ihs f (sd+1) ed
          (.rparen :: .whereKw :: .existsKw :: .lparen :: .select :: (print w ++ .rparen :: rest))
          (by omega) (by omega) (by simp only [List.length_cons, List.length_append]; omega)
        refine ⟨k, ?_⟩
        rw [body_eq h1, item_star (by omega) rfl rfl, bind_ok, src_sub_err hk]
        rfl
    · exact ⟨_, body_deep (by omega)⟩

/-! ### linear chains: the exact position of `TooDeep` -/

theorem opener_pos (s : Site) : 1 ≤ (opener s).length := by
  cases s <;> simp [opener]

/-- Whatever follows, the body entered after `maxS - sd` openers is rejected at its first token. -/
theorem chain_td (maxS maxE : Nat) (hSE : maxS ≤ maxE) : ∀ (l : List Site) (fuel sd ed : Nat)
    (rest : List STok), sd ≤ maxS → maxS ≤ sd + l.length → ed ≤ sd →
    (openers l).length + rest.length < fuel →
    bodyN maxS maxE fuel sd ed (openers l ++ rest) =
      .error (.tooDeep ((openers (l.drop (maxS - sd))).length + rest.length)) := by
  intro l
  induction l with
  | nil =>
    intro fuel sd ed rest h1 h2 he hf
    simp only [List.length_nil, Nat.add_zero] at h2
    obtain ⟨f, rfl⟩ : ∃ f, fuel = f + 1 := ⟨fuel - 1, by omega⟩
    rw [body_deep (by omega)]
    simp [openers]
  | cons s l ih =>
    intro fuel sd ed rest h1 h2 he hf
    by_cases hd : sd = maxS
    · obtain ⟨f, rfl⟩ : ∃ f, fuel = f + 1 := ⟨fuel - 1, by omega⟩
      rw [body_deep (by omega)]
      simp [hd]
    · obtain ⟨j, hj⟩ : ∃ j, maxS - sd = j + 1 := ⟨maxS - sd - 1, by omega⟩
      have hj' : maxS - (sd + 1) = j := by omega
      rw [hj, List.drop_succ_cons, ← hj']
      simp only [List.length_cons] at h2
      have hop := opener_pos s
      simp only [openers, List.length_append] at hf
      obtain ⟨f, rfl⟩ : ∃ f, fuel = f + 2 := ⟨fuel - 2, by omega⟩
      cases s with
      | frm =>
        simp only [opener, List.length_cons, List.length_nil] at hf
        have hb := ih f (sd+1) ed rest (by omega) (by omega) (by omega) (by omega)
        simp only [openers, opener, List.cons_append, List.nil_append]
        rw [body_eq (by omega), item_star (by omega) rfl rfl, bind_ok, src_sub_err hb]
        rfl
      | exi o =>
        cases o with
        | none =>
          simp only [opener, printSrc, List.nil_append, List.length_cons, List.length_nil] at hf
          have hb := ih f (sd+1) (ed+1) rest (by omega) (by omega) (by omega) (by omega)
          simp only [openers, opener, printSrc, List.cons_append, List.nil_append]
          rw [body_eq (by omega), item_star (by omega) rfl rfl, bind_ok, src_none (by simp), bind_ok]
          simp only
          rw [cond_sub_err (by omega) hb]
          rfl
        | some n =>
          simp only [opener, printSrc, List.cons_append, List.nil_append, List.length_cons,
            List.length_nil] at hf
          have hb := ih f (sd+1) (ed+1) rest (by omega) (by omega) (by omega) (by omega)
          simp only [openers, opener, printSrc, List.cons_append, List.nil_append]
          rw [body_eq (by omega), item_star (by omega) rfl rfl, bind_ok, src_tbl rfl, bind_ok]
          simp only
          rw [cond_sub_err (by omega) hb]
          rfl

theorem print_chain (inner : Q) (l : List Site) :
    print (chain inner l) = openers l ++ print inner ++ List.replicate l.length .rparen := by
  induction l with
  | nil => simp [chain, openers]
  | cons s l ih =>
    cases s with
    | frm =>
      simp only [chain, print, ih, openers, opener, List.length_cons, List.replicate_succ']
      simp
    | exi o =>
      simp only [chain, print, ih, openers, opener, List.length_cons, List.replicate_succ']
      simp

theorem sdepth_chain (inner : Q) (l : List Site) : sdepth (chain inner l) = l.length + sdepth inner := by
  induction l with
  | nil => simp [chain]
  | cons s l ih => cases s <;> simp only [chain, sdepth, ih, List.length_cons] <;> omega

/-! ### the expression counter never decides -/

theorem ed_irrelevant (maxS maxE maxE' : Nat) (h1 : maxS ≤ maxE) (h2 : maxS ≤ maxE') : ∀ fuel,
    (∀ sd ed ts, ed ≤ sd →
        bodyN maxS maxE fuel sd ed ts = bodyN maxS maxE' fuel sd ed ts) ∧
    (∀ sd ed ts, ed ≤ sd →
        srcN maxS maxE fuel sd ed ts = srcN maxS maxE' fuel sd ed ts) ∧
    (∀ sd ed ts, ed + 1 ≤ sd → sd ≤ maxS →
        condN maxS maxE fuel sd ed ts = condN maxS maxE' fuel sd ed ts) := by
  intro fuel
  induction fuel with
  | zero => refine ⟨?_, ?_, ?_⟩ <;> intros <;> simp [bodyN, srcN, condN]
  | succ f ih =>
    obtain ⟨ihB, ihS, ihC⟩ := ih
    refine ⟨?_, ?_, ?_⟩
    · intro sd ed ts he
      by_cases hd : sd + 1 ≤ maxS
      · rw [body_eq hd, body_eq hd, item_indep ts (by omega : ed + 1 ≤ maxE) (by omega : ed + 1 ≤ maxE')]
        have eS : ∀ r, srcN maxS maxE f (sd+1) ed r = srcN maxS maxE' f (sd+1) ed r :=
          fun r => ihS _ _ r (by omega)
        have eC : ∀ r, condN maxS maxE f (sd+1) ed r = condN maxS maxE' f (sd+1) ed r :=
          fun r => ihC _ _ r (by omega) hd
        simp only [eS, eC]
      · rw [body_deep (by omega), body_deep (by omega)]
    · intro sd ed ts he
      have eB : ∀ r, bodyN maxS maxE f sd ed r = bodyN maxS maxE' f sd ed r := fun r => ihB _ _ r he
      rw [srcN.eq_def, srcN.eq_def]
      simp only [eB]
    · intro sd ed ts he hs
      have eB : ∀ r, bodyN maxS maxE f sd (ed+1) r = bodyN maxS maxE' f sd (ed+1) r :=
        fun r => ihB _ _ r he
      have n1 : ¬ (ed + 1 > maxE) := by omega
      have n2 : ¬ (ed + 1 > maxE') := by omega
      rw [condN.eq_def, condN.eq_def]
      simp only [eB, n1, n2, if_false]

/-! ### fuel monotonicity -/

theorem bind_congr_nf {α β : Type} {r r' : Res α} {k k' : α → Res β} (hr : NF r → r' = r)
    (hk : ∀ a, r = .ok a → NF (k a) → k' a = k a) (h : NF (r.bind k)) : r'.bind k' = r.bind k := by
  cases r with
  | ok a =>
    rw [hr (by simp [NF])]
    exact hk a rfl h
  | error e =>
    rw [hr (by simpa [NF, Res.bind] using h)]
    rfl
  | outside =>
    rw [hr (by simp [NF])]
    rfl

/-- once the answer is not "out of fuel", more fuel does not change it -/
theorem mono (maxS maxE : Nat) : ∀ fuel,
    (∀ sd ed ts, NF (bodyN maxS maxE fuel sd ed ts) →
        bodyN maxS maxE (fuel+1) sd ed ts = bodyN maxS maxE fuel sd ed ts) ∧
    (∀ sd ed ts, NF (srcN maxS maxE fuel sd ed ts) →
        srcN maxS maxE (fuel+1) sd ed ts = srcN maxS maxE fuel sd ed ts) ∧
    (∀ sd ed ts, NF (condN maxS maxE fuel sd ed ts) →
        condN maxS maxE (fuel+1) sd ed ts = condN maxS maxE fuel sd ed ts) := by
  intro fuel
  induction fuel with
  | zero => refine ⟨?_, ?_, ?_⟩ <;> intro sd ed ts h <;> simp [NF, bodyN, srcN, condN] at h
  | succ g ih =>
    obtain ⟨ihB, ihS, ihC⟩ := ih
    refine ⟨?_, ?_, ?_⟩
    · intro sd ed ts h
      by_cases hd : sd + 1 ≤ maxS
      · rw [body_eq hd] at h ⊢
        rw [body_eq hd]
        refine bind_congr_nf (fun _ => rfl) (fun r1 _ h1 => ?_) h
        refine bind_congr_nf (ihS _ _ _) (fun p _ h2 => ?_) h1
        refine bind_congr_nf (ihC _ _ _) (fun p' _ _ => rfl) h2
      · rw [body_deep (by omega), body_deep (by omega)]
    · intro sd ed ts h
      cases ts with
      | nil => simp [srcN]
      | cons t r =>
        cases t <;> try (simp [srcN]; done)
        by_cases hl : r.head? = some .lparen
        · simp only [srcN, hl, if_true] at h ⊢
          refine bind_congr_nf (fun _ => rfl) (fun r1 _ h1 => ?_) h
          refine bind_congr_nf (ihB _ _ _) (fun p _ _ => rfl) h1
        · simp only [srcN, hl, if_false]
    · intro sd ed ts h
      cases ts with
      | nil => simp [condN]
      | cons t r =>
        cases t <;> try (simp [condN]; done)
        by_cases he : ed + 1 > maxE
        · simp only [condN, he, if_true]
        · cases r with
          | nil => simp only [condN]
          | cons p r0 =>
            cases p <;> try (simp only [condN, prefixArm]; done)
            simp only [condN, he, if_false, prefixArm] at h ⊢
            refine bind_congr_nf (fun _ => rfl) (fun r1 _ h1 => ?_) h
            refine bind_congr_nf (fun _ => rfl) (fun r2 _ h2 => ?_) h1
            refine bind_congr_nf (ihB _ _ _) (fun p _ _ => rfl) h2

theorem mono_le (maxS maxE : Nat) {f g : Nat} (hfg : f ≤ g) (sd ed : Nat) (ts : List STok)
    (h : NF (bodyN maxS maxE f sd ed ts)) :
    bodyN maxS maxE g sd ed ts = bodyN maxS maxE f sd ed ts := by
  induction g with
  | zero =>
    have : f = 0 := by omega
    rw [this]
  | succ g ih =>
    by_cases hf : f = g + 1
    · rw [hf]
    · have e := ih (by omega)
      rw [(mono maxS maxE g).1 sd ed ts (by rw [e]; exact h), e]

end Neumann.Parse.Sel
