import NeumannModel.Parse.Lemmas
import NeumannModel.Parse.NestLemmas
/-
  C15 — the Pratt model of `Parse/Model.lean` (the one the round-trip / precedence theorems of
  `Parse/Props.lean` are about) is exactly the expression loop of the expression × subquery model
  (`Parse/Nest.lean`) on the shared alphabet.  Core Lean only.
-/
namespace Neumann.Parse.Nest
open Neumann.Parse.Sel (Res SErr SExpect bind_ok bind_error)

/-- the Pratt alphabet inside the statement alphabet (`atom n` = the integer literal `n`) -/
def embTok : Tok → NTok
  | .atom n => .num n
  | .op o => .op o
  | .lparen => .lparen
  | .rparen => .rparen
  | .notKw => .notKw
  | .bang => .bang
  | .tilde => .tilde
  | .other => .other

def embExpr : Expr → E
  | .atom n => .num n
  | .wildcard => .wildcard
  | .unit => .unit
  | .un u e => .un u (embExpr e)
  | .bin l o r => .bin (embExpr l) o (embExpr r)

/-- (`endOfExpr` is raised by the free function `parse_expr` only, never inside the loop) -/
def embExpect : Expect → SExpect
  | .expression => .expression
  | .rparen => .rparen
  | .endOfExpr => .expression

def embErr : PErr → SErr
  | .tooDeep k => .tooDeep k
  | .eof x => .eof (embExpect x)
  | .unexpected x k => .unexpected (embExpect x) k
  | .fuel => .fuel

def embRes : PRes → Res (E × List NTok)
  | .ok (e, r) => .ok (embExpr e, r.map embTok)
  | .error e => .error (embErr e)

def embArm : PrefixArm → Arm
  | .atom n => .num n
  | .wildcard => .wildcard
  | .paren => .paren
  | .unary u => .unary u
  | .unexpected => .unexpected

theorem prefixArm_emb (t : Tok) : Nest.prefixArm (embTok t) = embArm (Parse.prefixArm t) := by
  cases t with
  | op o => cases o <;> rfl
  | _ => rfl

theorem loopArm_emb (t : Tok) (rest : List Tok) :
    loopArm ((t :: rest).map embTok) =
      match binaryOf t with
      | some o => .binary o (rest.map embTok)
      | none => .stop := by
  cases t with
  | notKw =>
    cases rest with
    | nil => rfl
    | cons t' r' => cases t' <;> rfl
  | _ => rfl

theorem head_emb (rest : List Tok) :
    ((rest.map embTok).head? = some NTok.rparen) = (rest.head? = some Tok.rparen) := by
  cases rest with
  | nil => simp
  | cons t r => cases t <;> simp [embTok]

theorem expectRParen_emb (e : Expr) (r : List Tok) :
    ((expect .rparen .rparen (r.map embTok)).bind fun r' => Res.ok (embExpr e, r')) = embRes (expectRParen e r) := by
  cases r with
  | nil => rfl
  | cons t r => cases t <;> simp [expect, expectRParen, embTok, embRes, embErr, embExpect]

/-- On the Pratt alphabet the statement parser's expression loop IS `parseBpN`, for every fuel,
    depth, binding power and select depth: same tree, same rest, same error at the same token. -/
theorem embeds (maxS M : Nat) : ∀ f,
    (∀ sd d m ts, exprN maxS M f sd d m (ts.map embTok) = embRes (parseBpN M f d m ts)) ∧
    (∀ sd d ts, prefixN maxS M f sd d (ts.map embTok) = embRes (parsePrefixN M f d ts)) ∧
    (∀ sd d m lhs ts, loopN maxS M f sd d m (embExpr lhs) (ts.map embTok) = embRes (ploopN M f d m lhs ts)) := by
  intro f
  induction f with
  | zero => exact ⟨fun _ _ _ _ => rfl, fun _ _ _ => rfl, fun _ _ _ _ _ => rfl⟩
  | succ f ih =>
    obtain ⟨ihE, ihP, ihL⟩ := ih
    refine ⟨?_, ?_, ?_⟩
    · intro sd d m ts
      simp only [exprN, parseBpN, List.length_map]
      split
      · rfl
      · rw [ihP]
        cases hp : parsePrefixN M f (d+1) ts with
        | error e => rfl
        | ok p =>
          obtain ⟨lhs, rest⟩ := p
          simp only [embRes, bind_ok]
          exact ihL _ _ _ _ _
    · intro sd d ts
      cases ts with
      | nil => rfl
      | cons t rest =>
        simp only [List.map_cons, prefixN, parsePrefixN, prefixArm_emb]
        cases ha : Parse.prefixArm t with
        | atom n => rfl
        | wildcard => rfl
        | unexpected => simp [embArm, embRes, embErr, embExpect]
        | paren =>
          simp only [embArm, head_emb]
          split
          · simp [embRes, embExpr]
          · rw [ihE]
            cases hp : parseBpN M f d 0 rest with
            | error e => rfl
            | ok p =>
              obtain ⟨e, rest'⟩ := p
              simp only [embRes, bind_ok]
              exact expectRParen_emb e rest'
        | unary u =>
          simp only [embArm]
          rw [ihE]
          cases hp : parseBpN M f d PREFIX_BP rest with
          | error e => rfl
          | ok p =>
            obtain ⟨e, rest'⟩ := p
            rfl
    · intro sd d m lhs ts
      cases ts with
      | nil => rfl
      | cons t rest =>
        simp only [loopN, ploopN, loopArm_emb]
        cases hb : binaryOf t with
        | none => rfl
        | some o =>
          simp only
          split
          · rfl
          · rw [ihE]
            cases hp : parseBpN M f d (rbp o) rest with
            | error e => rfl
            | ok p =>
              obtain ⟨rhs, rest'⟩ := p
              simp only [embRes, bind_ok]
              exact ihL _ _ _ (.bin lhs o rhs) _

/-- a body whose text is a Pratt-alphabet expression: the select item, nothing else (no token of
    the Pratt alphabet is an alias, FROM or WHERE) -/
theorem body_emb (maxS M f sd d : Nat) (ts : List Tok) (hs : sd + 1 ≤ maxS) :
    bodyN maxS M (f+1) sd d (ts.map embTok) =
      match parseBpN M f d 0 ts with
      | .ok (e, rest) => .ok (.mk (embExpr e) .none .none, rest.map embTok)
      | .error err => .error (embErr err) := by
  have hn : ¬ (sd + 1 > maxS) := by omega
  simp only [bodyN, hn, if_false]
  rw [(embeds maxS M f).1]
  cases hp : parseBpN M f d 0 ts with
  | error e => rfl
  | ok p =>
    obtain ⟨e, rest⟩ := p
    simp only [embRes, bind_ok]
    cases rest with
    | nil => rfl
    | cons t r => cases t <;> rfl

end Neumann.Parse.Nest
