import NeumannModel.Common.Proto
import NeumannModel.Parse.Model
import NeumannModel.Parse.Select
import NeumannModel.Parse.Nest
import NeumannModel.Parse.Full
import NeumannModel.Parse.Lex
import NeumannModel.Parse.Text
import NeumannModel.Parse.Clause
import NeumannModel.Parse.Exec
import NeumannModel.Parse.Insert
/-
  Line-protocol driver for the expression-parser model (C15).

  tokens  : `a<n>` | `(` | `)` | add sub mul div mod eq ne lt le gt ge and or concat bitand bitor
            bitxor shl shr | `not` | `bang` | `tilde` | `other`
  trees   : polish notation  `a<n>` | `wild` | `unit` | `un <neg|not|bitnot> T` | `bin <op> T T`
  answers : S-expression `a<n>` | `*` | `()` | `(neg E)` | `(add L R)` …, prefixed `ok `;
            errors `err too_deep <tokidx>` | `err eof <expected>` | `err unexpected <expected> <tokidx>`

  ops     : parse <tok>*            model of neumann_parser::parse_expr AND of the statement parser's
                                    expression loop (both MAX_DEPTH = 64 since /repo 59c7cb56)
            parse_nolimit <tok>*    PRE-FIX statement parser: the same Pratt loop without depth counter
                                    (asked only by the harness's start-up probe, for contrast)
            print  min|full|all T   token list of the printer the theorems speak about
            frames min|full|all T   nesting depth the real parser needs for that print
            normal <tok>*           printMin of the parse (Props.parse_normal_form), or the error
            sel <stok>*             model of neumann_parser::parse on the SELECT skeleton (Select.lean):
                                    stok = `select` `*` `from` `(` `)` `t<n>` `where` `exists` `other`;
                                    answers `ok T` with T = `(q SRC WHR)`, SRC = `-` | `t<n>` | T,
                                    WHR = `-` | T; `err too_deep <tokidx>` | `err eof <expected>` |
                                    `err unexpected <expected> <tokidx>` (expected = `(` `)` `SELECT`
                                    `identifier` `expression`) | `outside` (input leaves the fragment)
            nest <ntok>*            model of neumann_parser::parse on the expression × subquery fragment
                                    (Nest.lean): ntok = `select` `from` `where` `exists` `in` `(` `)` `n<k>`
                                    (integer literal) `c<k>` (identifier) add sub mul … `not` `bang` `tilde`
                                    `other`; answers `ok <frames> <sdepth> Q` with Q = `(q E SRC WHR)`,
                                    SRC = `-` | `c<k>` | Q, WHR = `-` | E, E = `n<k>` | `c<k>` | `*` | `()` |
                                    `(neg E)` | `(add L R)` | `(exists Q)` | `(in E Q)` | `(notin E Q)` |
                                    `(in E)` | `(in E V)` …; errors / `outside` as for `sel`
            full expr|stmt <ftok>*  model of the COMPLETE expression grammar (Full.lean): `expr` =
                                    neumann_parser::parse_expr, `stmt` = an expression position of the
                                    statement parser.  ftok = `l<k>` (Integer/Float/String/TRUE/FALSE literal)
                                    `null` `i<k>` (identifier) `k<k>` (contextual keyword) `g<k>` (COUNT SUM AVG
                                    MIN MAX) add sub mul … `(` `)` `[` `]` `,` `.` `not` `bang` `tilde` `is` `in`
                                    `between` `like` `case` `when` `then` `else` `end` `distinct` `exists`
                                    `select` `cast` `other`; answers `ok E` with E = `l<k>` | `null` | `i<k>` |
                                    `k<k>` | `*` | `()` | `(tuple E E …)` | `(neg E)` | `(add L R)` | `(isnull E)` |
                                    `(isnotnull E)` | `(in E V…)` | `(notin E V…)` | `(between E LO HI)` |
                                    `(notbetween …)` | `(like E P)` | `(notlike E P)` | `(qual E @i<k>)` |
                                    `(qualwild @i<k>|@k<k>)` | `(call @i<k>|@g<k> [distinct] A…)` | `(array V…)` |
                                    `(case OP|- (when C R)… else=E|-)`; `err too_deep <tokidx>` | `err eof <exp>` |
                                    `err unexpected <exp> <tokidx>` | `err invalid qualwild|case_no_when|exists
                                    <tokidx>` | `outside`
            fprint min|full|all FT  token list of Full.printWith; FT in polish notation: `l<k>` `null` `i<k>`
                                    `k<k>` `wild` `unit` | `tuple <n≥2> FT…` | `un <u> FT` | `bin <o> FT FT` |
                                    `isnull <0|1> FT` | `in <0|1> <n> FT FT…` | `between <0|1> FT FT FT` |
                                    `like <0|1> FT FT` | `qual <k> FT` | `qualwild <0|1> <k>` |
                                    `call i<k>|g<k> <0|1> <n> FT…` | `array <n> FT…` |
                                    `case <0|1> <n≥1> <0|1> [FT] (FT FT)… [FT]`
            fframes min|full|all FT nesting depth the real parser needs for that print
            fsexp FT                the answer `full` gives for a tree (the expected parse of its prints)
            fnormal expr|stmt <ftok>*  Full.printMin of the parse (FullProps.full_normal_form), or the error
            lex <ch>*               model of neumann_parser::tokenize (Lex.lean).  ch = `<cp>.<ws>.<alnum>.<up>`:
                                    code point, char::is_whitespace / is_alphanumeric as 0|1, char::to_uppercase
                                    as `+`-joined code points.  Answer: tokens `K@lo-hi`, K = `eof` | `name:<TokenKind
                                    variant>` | `ident` | `int:<value>` | `float` | `str:<cp>.<cp>…` |
                                    `err:unterminated|integer|float|char` | `fuel`
            strval <q> <cp>*        what the characters between two delimiters `q` (39 = ', 34 = ") mean
                                    (Lex.litValue, the specification of Lexer::scan_string): `value <cp>*` | `none`
            strrender <q> <cp>*     the canonical body of a literal with that value (Lex.litRender): `body <cp>*`
            clause <ctok>*          model of neumann_parser::parse on the clause-level grammar of SELECT
                                    (Clause.lean).  ctok = `select` `distinct` `all` `,` `as` `c<k>` (identifier)
                                    `e<k>` (a complete expression) `*` `from` `(` `)` `join` `inner` `left` `right`
                                    `full` `outer` `cross` `natural` `on` `using` `where` `group` `by` `having`
                                    `order` `asc` `desc` `nulls` `first` `last` `limit` `offset` `;` `other`.
                                    Answer `ok Q`, Q = `(q d|- (items (it X A)…) SRC (where X|-) (group X…)
                                    (having X|-) (order (o X asc|desc first|last|-)…) (limit X|-) (offset X|-))`,
                                    X = `e<k>` | `id:c<k>` | `*`, A = `c<k>` | `-`, SRC = `-` | `(from T (j KIND T
                                    COND)…)`, T = `(t c<k> A)` | `(sub Q A)`, COND = `-` | `(on X)` | `(using c<k>…)`;
                                    errors / `outside` as for `sel` (expected = `expression` `identifier` `SELECT`
                                    `(` `)` `JOIN` `BY` `LAST`)
            xsel <agg> <order> <limit> <offset> <rows>   model of the clauses QueryRouter::exec_select /
                                    exec_select_with_joins evaluate on the answer of the direct engine call
                                    (Exec.lean).  agg = 0|1 (aggregate / GROUP BY select: the clauses are never
                                    reached); order = `-` | items joined by `;`, item = `<col>.<a|d>.<-|f|l>`
                                    (ASC|DESC, no NULLS clause | NULLS FIRST | NULLS LAST); limit, offset = `-`
                                    (absent) | `<n>` (integer literal) | `x` (any other expression); rows = `-` |
                                    rows joined by `;`, row = `_` | cells joined by `,`, cell = `<col>=<int>|n`
                                    (only the columns the projection kept; strings as order-isomorphic integers;
                                    a row's identity is its position).  Answer `rows <pos>,<pos>,…` | `rows -`
                                    for EVERY row list (a sort column that is missing in one row and NULL in
                                    another included: /repo 1133d8d8 made the closure of sort_rows a total
                                    preorder on all rows, ExecProps.order_by_comparator_is_a_total_preorder)
            insrows <schema> <cols|-> <tuples>   INSERT … VALUES (Insert.lean): schema and column list are comma lists of
                                    column words, tuples are `;`-separated comma lists of value words (`n` = NULL);
                                    answer `rows <row>;…`, one row per tuple: `col=val,…` in schema order | `_`
            xlist <limit> <offset> <n>   NODE LIST / EDGE LIST over an engine answer of n items: `items <pos>,…` |
                                    `items -` | `error` (a LIMIT / OFFSET that is not an integer literal)
            xtake <limit> <n>       FIND … WHERE … [LIMIT] / SHOW EMBEDDINGS [LIMIT]: `items …` | `error`
            ptext expr|stmt <ch>*   model of neumann_parser::parse_expr(text) / of the WHERE clause of
                                    parse("SELECT * FROM t WHERE " + text) (Text.lean = Lex ∘ tokOf ∘ Full).
                                    Answers as for `full`, with the byte offset of the token instead of an
                                    index in `l<k>` `i<k>` `k<k>` `@i<k>` `@k<k>` `@g<k>` and in the errors
                                    (`err eof <exp> <bytepos>` carries the position too)
-/
open Neumann Neumann.Proto Neumann.Parse

def binOps : List (String × BinOp) :=
  [("add", .add), ("sub", .sub), ("mul", .mul), ("div", .div), ("mod", .mod), ("eq", .eq), ("ne", .ne),
   ("lt", .lt), ("le", .le), ("gt", .gt), ("ge", .ge), ("and", .and), ("or", .or), ("concat", .concat),
   ("bitand", .bitAnd), ("bitor", .bitOr), ("bitxor", .bitXor), ("shl", .shl), ("shr", .shr)]

def binName (o : BinOp) : String :=
  match binOps.find? (fun p => p.2 == o) with
  | some p => p.1
  | none => "?"

def readBin (s : String) : Option BinOp := (binOps.find? (fun p => p.1 == s)).map (·.2)

def unName : UnOp → String
  | .neg => "neg" | .not => "not" | .bitNot => "bitnot"

def readUn : String → Option UnOp
  | "neg" => some .neg | "not" => some .not | "bitnot" => some .bitNot | _ => none

def readAtom (s : String) : Option Nat :=
  match s.toList with
  | 'a' :: ds => if ds.isEmpty then none else (String.ofList ds).toNat?
  | _ => none

def readTok (s : String) : Option Tok :=
  match s with
  | "(" => some .lparen
  | ")" => some .rparen
  | "not" => some .notKw
  | "bang" => some .bang
  | "tilde" => some .tilde
  | "other" => some .other
  | _ => match readBin s with
    | some o => some (.op o)
    | none => (readAtom s).map Tok.atom

def showTok : Tok → String
  | .atom n => s!"a{n}"
  | .op o => binName o
  | .lparen => "("
  | .rparen => ")"
  | .notKw => "not"
  | .bang => "bang"
  | .tilde => "tilde"
  | .other => "other"

def showExpr : Expr → String
  | .atom n => s!"a{n}"
  | .wildcard => "*"
  | .unit => "()"
  | .un u e => "(" ++ unName u ++ " " ++ showExpr e ++ ")"
  | .bin l o r => "(" ++ binName o ++ " " ++ showExpr l ++ " " ++ showExpr r ++ ")"

def showExpect : Expect → String
  | .expression => "expression" | .rparen => ")" | .endOfExpr => "end_of_expression"

def showRes (n : Nat) : Except PErr Expr → String
  | .ok e => "ok " ++ showExpr e
  | .error (.tooDeep rem) => s!"err too_deep {n - rem}"
  | .error (.eof x) => "err eof " ++ showExpect x
  | .error (.unexpected x rem) => s!"err unexpected {showExpect x} {n - rem}"
  | .error .fuel => "err fuel"

/-- polish-notation reader -/
def readExpr : Nat → List String → Option (Expr × List String)
  | 0, _ => none
  | _, [] => none
  | _, "wild" :: r => some (.wildcard, r)
  | _, "unit" :: r => some (.unit, r)
  | f+1, "un" :: u :: r =>
    match readUn u, readExpr f r with
    | some u, some (e, r') => some (.un u e, r')
    | _, _ => none
  | f+1, "bin" :: o :: r =>
    match readBin o, readExpr f r with
    | some o, some (l, r1) =>
      (match readExpr f r1 with
       | some (rr, r2) => some (.bin l o rr, r2)
       | none => none)
    | _, _ => none
  | _, w :: r => (readAtom w).map (fun n => (Expr.atom n, r))

def readTree (ws : List String) : Option Expr :=
  match readExpr (ws.length + 1) ws with
  | some (e, []) => some e
  | _ => none

def extraOf : String → Option (Expr → Bool)
  | "min" => some (fun _ => false)
  | "full" => some isCompound
  | "all" => some (fun _ => true)
  | _ => none

/-! ### SELECT skeleton (`Neumann.Parse.Sel`) -/

def readTbl (s : String) : Option Nat :=
  match s.toList with
  | 't' :: ds => if ds.isEmpty then none else (String.ofList ds).toNat?
  | _ => none

def readSTok (s : String) : Option Sel.STok :=
  match s with
  | "select" => some .select
  | "*" => some .star
  | "from" => some .fromKw
  | "(" => some .lparen
  | ")" => some .rparen
  | "where" => some .whereKw
  | "exists" => some .existsKw
  | "other" => some .other
  | _ => (readTbl s).map Sel.STok.tbl

def showSrcOpt : Option Nat → String
  | none => "-"
  | some n => s!"t{n}"

def showQ : Sel.Q → String
  | .leaf o => "(q " ++ showSrcOpt o ++ " -)"
  | .fromSub s => "(q " ++ showQ s ++ " -)"
  | .whereSub o w => "(q " ++ showSrcOpt o ++ " " ++ showQ w ++ ")"
  | .both s w => "(q " ++ showQ s ++ " " ++ showQ w ++ ")"

def showSExpect : Sel.SExpect → String
  | .expression => "expression" | .lparen => "(" | .rparen => ")" | .select => "SELECT"
  | .identifier => "identifier"

def showSelRes (n : Nat) : Sel.Res Sel.Q → String
  | .ok q => "ok " ++ showQ q
  | .error (.tooDeep rem) => s!"err too_deep {n - rem}"
  | .error (.eof x) => "err eof " ++ showSExpect x
  | .error (.unexpected x rem) => s!"err unexpected {showSExpect x} {n - rem}"
  | .error .fuel => "err fuel"
  | .outside => "outside"

/-! ### expression × subquery fragment (`Neumann.Parse.Nest`) -/

def readPfx (c : Char) (s : String) : Option Nat :=
  match s.toList with
  | c' :: ds => if c' == c && !ds.isEmpty then (String.ofList ds).toNat? else none
  | _ => none

def readNTok (s : String) : Option Nest.NTok :=
  match s with
  | "select" => some .select
  | "from" => some .fromKw
  | "where" => some .whereKw
  | "exists" => some .existsKw
  | "in" => some .inKw
  | "(" => some .lparen
  | ")" => some .rparen
  | "not" => some .notKw
  | "bang" => some .bang
  | "tilde" => some .tilde
  | "other" => some .other
  | _ => match readBin s with
    | some o => some (.op o)
    | none => match readPfx 'n' s with
      | some k => some (.num k)
      | none => (readPfx 'c' s).map Nest.NTok.id

mutual
def showNE : Nest.E → String
  | .num n => s!"n{n}"
  | .col n => s!"c{n}"
  | .wildcard => "*"
  | .unit => "()"
  | .un u e => "(" ++ unName u ++ " " ++ showNE e ++ ")"
  | .bin l o r => "(" ++ binName o ++ " " ++ showNE l ++ " " ++ showNE r ++ ")"
  | .exists q => "(exists " ++ showNQ q ++ ")"
  | .inSub e neg q => (if neg then "(notin " else "(in ") ++ showNE e ++ " " ++ showNQ q ++ ")"
  | .inNil e neg => (if neg then "(notin " else "(in ") ++ showNE e ++ ")"
  | .inOne e neg v => (if neg then "(notin " else "(in ") ++ showNE e ++ " " ++ showNE v ++ ")"
def showNQ : Nest.Q → String
  | .mk item src whr => "(q " ++ showNE item ++ " " ++ showNSrc src ++ " " ++ showNWhr whr ++ ")"
def showNSrc : Nest.Src → String
  | .none => "-"
  | .tbl n => s!"c{n}"
  | .sub q => showNQ q
def showNWhr : Nest.Whr → String
  | .none => "-"
  | .cond e => showNE e
end

def showNestRes (n : Nat) : Sel.Res Nest.Q → String
  | .ok q => s!"ok {q.frames} {q.sdepth} " ++ showNQ q
  | .error (.tooDeep rem) => s!"err too_deep {n - rem}"
  | .error (.eof x) => "err eof " ++ showSExpect x
  | .error (.unexpected x rem) => s!"err unexpected {showSExpect x} {n - rem}"
  | .error .fuel => "err fuel"
  | .outside => "outside"

/-! ### complete expression grammar (`Neumann.Parse.Full`) -/

def readFTok (s : String) : Option Full.Tok :=
  match s with
  | "null" => some .null
  | "(" => some .lparen
  | ")" => some .rparen
  | "[" => some .lbracket
  | "]" => some .rbracket
  | "," => some .comma
  | "." => some .dot
  | "not" => some .notKw
  | "bang" => some .bang
  | "tilde" => some .tilde
  | "is" => some .isKw
  | "in" => some .inKw
  | "between" => some .betweenKw
  | "like" => some .likeKw
  | "case" => some .caseKw
  | "when" => some .whenKw
  | "then" => some .thenKw
  | "else" => some .elseKw
  | "end" => some .endKw
  | "distinct" => some .distinctKw
  | "exists" => some .existsKw
  | "select" => some .selectKw
  | "cast" => some .castKw
  | "other" => some .other
  | _ => match readBin s with
    | some o => some (.op o)
    | none => match readPfx 'l' s with
      | some k => some (.lit k)
      | none => match readPfx 'i' s with
        | some k => some (.ident k)
        | none => match readPfx 'k' s with
          | some k => some (.kw k)
          | none => (readPfx 'g' s).map Full.Tok.agg

def showFTok : Full.Tok → String
  | .lit n => s!"l{n}" | .null => "null" | .ident n => s!"i{n}" | .kw n => s!"k{n}" | .agg n => s!"g{n}"
  | .op o => binName o
  | .lparen => "(" | .rparen => ")" | .lbracket => "[" | .rbracket => "]" | .comma => "," | .dot => "."
  | .notKw => "not" | .bang => "bang" | .tilde => "tilde"
  | .isKw => "is" | .inKw => "in" | .betweenKw => "between" | .likeKw => "like"
  | .caseKw => "case" | .whenKw => "when" | .thenKw => "then" | .elseKw => "else" | .endKw => "end"
  | .distinctKw => "distinct" | .existsKw => "exists" | .selectKw => "select" | .castKw => "cast"
  | .other => "other"

def showCallee : Full.Callee → String
  | .fn n => s!"@i{n}"
  | .agg n => s!"@g{n}"

mutual
def showFE : Full.E → String
  | .lit n => s!"l{n}"
  | .null => "null"
  | .ident n => s!"i{n}"
  | .kwIdent n => s!"k{n}"
  | .wildcard => "*"
  | .unit => "()"
  | .tuple a b rest => "(tuple " ++ showFE a ++ " " ++ showFE b ++ showFEL rest ++ ")"
  | .un u e => "(" ++ unName u ++ " " ++ showFE e ++ ")"
  | .bin l o r => "(" ++ binName o ++ " " ++ showFE l ++ " " ++ showFE r ++ ")"
  | .isNull e neg => (if neg then "(isnotnull " else "(isnull ") ++ showFE e ++ ")"
  | .inList e neg items => (if neg then "(notin " else "(in ") ++ showFE e ++ showFEL items ++ ")"
  | .between e neg lo hi =>
      (if neg then "(notbetween " else "(between ") ++ showFE e ++ " " ++ showFE lo ++ " " ++ showFE hi ++ ")"
  | .like e neg p => (if neg then "(notlike " else "(like ") ++ showFE e ++ " " ++ showFE p ++ ")"
  | .qual e n => "(qual " ++ showFE e ++ s!" @i{n})"
  | .qualWild kw n => if kw then s!"(qualwild @k{n})" else s!"(qualwild @i{n})"
  | .call f d args => "(call " ++ showCallee f ++ (if d then " distinct" else "") ++ showFEL args ++ ")"
  | .array items => "(array" ++ showFEL items ++ ")"
  | .case operand c r rest els =>
      "(case " ++ showFOE operand ++ " (when " ++ showFE c ++ " " ++ showFE r ++ ")" ++ showFWL rest
        ++ " else=" ++ showFOE els ++ ")"
/-- every item preceded by a blank -/
def showFEL : Full.EL → String
  | .nil => ""
  | .cons e l => " " ++ showFE e ++ showFEL l
def showFWL : Full.WL → String
  | .nil => ""
  | .cons c r l => " (when " ++ showFE c ++ " " ++ showFE r ++ ")" ++ showFWL l
def showFOE : Full.OE → String
  | .none => "-"
  | .some e => showFE e
end

def showFExpect : Full.Expect → String
  | .expression => "expression" | .lparen => "(" | .rparen => ")" | .rbracket => "]" | .null => "NULL"
  | .identifier => "identifier" | .andKw => "AND" | .thenKw => "THEN" | .endKw => "END"
  | .endOfExpr => "end_of_expression"

def showInvalid : Full.Invalid → String
  | .qualWild => "qualwild" | .caseNoWhen => "case_no_when" | .existsExpr => "exists"

def showFullRes (n : Nat) : Full.Res → String
  | .ok e => "ok " ++ showFE e
  | .error (.tooDeep rem) => s!"err too_deep {n - rem}"
  | .error (.eof x) => "err eof " ++ showFExpect x
  | .error (.unexpected x rem) => s!"err unexpected {showFExpect x} {n - rem}"
  | .error (.invalid w rem) => s!"err invalid {showInvalid w} {n - rem}"
  | .error .fuel => "err fuel"
  | .outside => "outside"

def readMode : String → Option Full.Mode
  | "expr" => some .expr | "stmt" => some .stmt | _ => none

def readBool : String → Option Bool
  | "0" => some false | "1" => some true | _ => none

def elOfList : List Full.E → Full.EL
  | [] => .nil
  | e :: l => .cons e (elOfList l)

def wlOfList : List (Full.E × Full.E) → Full.WL
  | [] => .nil
  | (c, r) :: l => .cons c r (wlOfList l)

mutual
/-- polish-notation reader for `Full.E` -/
def readFE : Nat → List String → Option (Full.E × List String)
  | 0, _ => none
  | _, [] => none
  | _, "null" :: r => some (.null, r)
  | _, "wild" :: r => some (.wildcard, r)
  | _, "unit" :: r => some (.unit, r)
  | f+1, "tuple" :: n :: r =>
    match n.toNat? with
    | some k =>
      (match readFEs f k r with
       | some (a :: b :: rest, r') => some (.tuple a b (elOfList rest), r')
       | _ => none)
    | none => none
  | f+1, "un" :: u :: r =>
    match readUn u, readFE f r with
    | some u, some (e, r') => some (.un u e, r')
    | _, _ => none
  | f+1, "bin" :: o :: r =>
    match readBin o, readFEs f 2 r with
    | some o, some ([l, rr], r') => some (.bin l o rr, r')
    | _, _ => none
  | f+1, "isnull" :: b :: r =>
    match readBool b, readFE f r with
    | some b, some (e, r') => some (.isNull e b, r')
    | _, _ => none
  | f+1, "in" :: b :: n :: r =>
    match readBool b, n.toNat? with
    | some b, some k =>
      (match readFEs f (k + 1) r with
       | some (x :: items, r') => some (.inList x b (elOfList items), r')
       | _ => none)
    | _, _ => none
  | f+1, "between" :: b :: r =>
    match readBool b, readFEs f 3 r with
    | some b, some ([x, lo, hi], r') => some (.between x b lo hi, r')
    | _, _ => none
  | f+1, "like" :: b :: r =>
    match readBool b, readFEs f 2 r with
    | some b, some ([x, p], r') => some (.like x b p, r')
    | _, _ => none
  | f+1, "qual" :: n :: r =>
    match n.toNat?, readFE f r with
    | some n, some (e, r') => some (.qual e n, r')
    | _, _ => none
  | _, "qualwild" :: b :: n :: r =>
    match readBool b, n.toNat? with
    | some b, some n => some (.qualWild b n, r)
    | _, _ => none
  | f+1, "call" :: c :: d :: n :: r =>
    let callee : Option Full.Callee := match readPfx 'i' c with
      | some k => some (.fn k)
      | none => (readPfx 'g' c).map Full.Callee.agg
    match callee, readBool d, n.toNat? with
    | some c, some d, some k =>
      (match readFEs f k r with
       | some (args, r') => some (.call c d (elOfList args), r')
       | none => none)
    | _, _, _ => none
  | f+1, "array" :: n :: r =>
    match n.toNat? with
    | some k =>
      (match readFEs f k r with
       | some (items, r') => some (.array (elOfList items), r')
       | none => none)
    | none => none
  | f+1, "case" :: ho :: n :: he :: r =>
    match readBool ho, n.toNat?, readBool he with
    | some ho, some k, some he =>
      (match readFEs f ((if ho then 1 else 0) + 2 * k + (if he then 1 else 0)) r with
       | some (parts, r') =>
         let operand : Full.OE := if ho then (match parts.head? with | some e => .some e | none => .none) else .none
         let parts1 := if ho then parts.tail else parts
         let els : Full.OE := if he then (match parts1.getLast? with | some e => .some e | none => .none) else .none
         let ws := if he then parts1.dropLast else parts1
         let rec pairs : List Full.E → List (Full.E × Full.E)
           | c :: rr :: l => (c, rr) :: pairs l
           | _ => []
         (match pairs ws with
          | (c, rr) :: rest => some (.case operand c rr (wlOfList rest) els, r')
          | [] => none)
       | none => none)
    | _, _, _ => none
  | _, w :: r =>
    match readPfx 'l' w with
    | some k => some (.lit k, r)
    | none => match readPfx 'i' w with
      | some k => some (.ident k, r)
      | none => (readPfx 'k' w).map fun k => (Full.E.kwIdent k, r)
/-- `k` trees in a row -/
def readFEs : Nat → Nat → List String → Option (List Full.E × List String)
  | 0, _, _ => none
  | _, 0, r => some ([], r)
  | f+1, k+1, r =>
    match readFE f r with
    | some (e, r1) =>
      (match readFEs f k r1 with
       | some (l, r2) => some (e :: l, r2)
       | none => none)
    | none => none
end

def readFTree (ws : List String) : Option Full.E :=
  match readFE (2 * ws.length + 2) ws with
  | some (e, []) => some e
  | _ => none

def fextraOf : String → Option (Full.E → Bool)
  | "min" => some (fun _ => false)
  | "full" => some Full.isCompound
  | "all" => some (fun _ => true)
  | _ => none

/-! ### lexer (`Neumann.Parse.Lex`) -/

def readCh (s : String) : Option Lex.Ch :=
  match s.splitOn "." with
  | [cp, w, a, u] =>
    match cp.toNat?, readBool w, readBool a, (u.splitOn "+").mapM (·.toNat?) with
    | some cp, some w, some a, some u => some ⟨cp, w, a, u⟩
    | _, _, _, _ => none
  | _ => none

def showKind : Lex.Kind → String
  | .eof => "eof"
  | .name v => "name:" ++ v
  | .ident => "ident"
  | .integer v => s!"int:{v}"
  | .float => "float"
  | .str v => "str:" ++ ".".intercalate (v.map toString)
  | .errUnterminated => "err:unterminated"
  | .errInteger => "err:integer"
  | .errFloat => "err:float"
  | .errChar => "err:char"
  | .fuel => "fuel"

def showLexTok (t : Lex.Token) : String := s!"{showKind t.kind}@{t.lo}-{t.hi}"

/-! ### clause-level grammar of SELECT (`Neumann.Parse.Clause`) -/

def readCTok (s : String) : Option Clause.Tok :=
  match s with
  | "select" => some .select | "distinct" => some .distinct | "all" => some .all | "," => some .comma
  | "as" => some .asKw | "*" => some .star | "from" => some .from | "(" => some .lparen | ")" => some .rparen
  | "join" => some .join | "inner" => some .inner | "left" => some .left | "right" => some .right
  | "full" => some .full | "outer" => some .outer | "cross" => some .cross | "natural" => some .natural
  | "on" => some .on | "using" => some .using | "where" => some .whereKw | "group" => some .group
  | "by" => some .byKw | "having" => some .having | "order" => some .order | "asc" => some .asc
  | "desc" => some .desc | "nulls" => some .nulls | "first" => some .first | "last" => some .last
  | "limit" => some .limit | "offset" => some .offset | ";" => some .semicolon | "other" => some .other
  | _ => match readPfx 'c' s with
    | some k => some (.ident k)
    | none => (readPfx 'e' s).map Clause.Tok.expr

def showXE : Clause.XE → String
  | .opaque n => s!"e{n}" | .col n => s!"id:c{n}" | .wildcard => "*"

def showAlias : Option Nat → String
  | none => "-" | some n => s!"c{n}"

def showOptX : Option Clause.XE → String
  | none => "-" | some e => showXE e

def showJK : Clause.JK → String
  | .inner => "inner" | .left => "left" | .right => "right" | .full => "full" | .cross => "cross"
  | .natural => "natural"

def showJCond : Clause.JCond → String
  | .none => "-"
  | .on e => "(on " ++ showXE e ++ ")"
  | .usingC c cols => "(using" ++ String.join ((c :: cols).map fun n => s!" c{n}") ++ ")"

def showOItem (o : Clause.OItem) : String :=
  " (o " ++ showXE o.e ++ (if o.desc then " desc " else " asc ")
    ++ (match o.nulls with | none => "-" | some true => "first" | some false => "last") ++ ")"

mutual
def showCQ : Clause.Q → String
  | .mk d items src tail =>
    "(q " ++ (if d then "d" else "-") ++ " (items"
      ++ String.join (items.map fun it => " (it " ++ showXE it.e ++ " " ++ showAlias it.alias ++ ")") ++ ") "
      ++ showCSrc src ++ " (where " ++ showOptX tail.whr ++ ") (group"
      ++ String.join (tail.group.map fun e => " " ++ showXE e) ++ ") (having " ++ showOptX tail.having
      ++ ") (order" ++ String.join (tail.order.map showOItem) ++ ") (limit " ++ showOptX tail.limit
      ++ ") (offset " ++ showOptX tail.offset ++ "))"
def showCSrc : Clause.Src → String
  | .none => "-"
  | .from t joins => "(from " ++ showCT t ++ showCJL joins ++ ")"
def showCT : Clause.TRef → String
  | .tbl n a => s!"(t c{n} " ++ showAlias a ++ ")"
  | .sub q a => "(sub " ++ showCQ q ++ " " ++ showAlias a ++ ")"
def showCJL : Clause.JL → String
  | .nil => ""
  | .cons k t c rest => " (j " ++ showJK k ++ " " ++ showCT t ++ " " ++ showJCond c ++ ")" ++ showCJL rest
end

def showCExpect : Clause.Expect → String
  | .expression => "expression" | .identifier => "identifier" | .select => "SELECT" | .lparen => "("
  | .rparen => ")" | .join => "JOIN" | .byKw => "BY" | .last => "LAST"

def showClauseRes (n : Nat) : Clause.Res Clause.Q → String
  | .ok q => "ok " ++ showCQ q
  | .error (.tooDeep rem) => s!"err too_deep {n - rem}"
  | .error (.eof x) => "err eof " ++ showCExpect x
  | .error (.unexpected x rem) => s!"err unexpected {showCExpect x} {n - rem}"
  | .error .fuel => "err fuel"
  | .outside => "outside"

def showTextRes : Text.TRes → String
  | .ok e => "ok " ++ showFE e
  | .outside => "outside"
  | .error (.tooDeep p) => s!"err too_deep {p}"
  | .error (.eof x p) => s!"err eof {showFExpect x} {p}"
  | .error (.unexpected x p) => s!"err unexpected {showFExpect x} {p}"
  | .error (.invalid w p) => s!"err invalid {showInvalid w} {p}"
  | .error .fuel => "err fuel"


/-! ### Exec.lean: clauses the router evaluates itself -/

def readClause (w : String) : Option Exec.Clause :=
  if w = "-" then some .absent else if w = "x" then some .other else w.toNat?.map Exec.Clause.lit

def readOrderItem (w : String) : Option Exec.OrderItem :=
  match w.splitOn "." with
  | [c, d, n] =>
    match c.toNat?, (if d = "a" then some false else if d = "d" then some true else none),
          (if n = "-" then some none else if n = "f" then some (some true) else if n = "l" then some (some false) else none) with
    | some c, some d, some n => some { col := c, desc := d, nulls := n }
    | _, _, _ => none
  | _ => none

def readOrder (w : String) : Option (List Exec.OrderItem) :=
  if w = "-" then some [] else (w.splitOn ";").mapM readOrderItem

def readCell (w : String) : Option (Nat × Option Int) :=
  match w.splitOn "=" with
  | [c, v] =>
    match c.toNat?, (if v = "n" then some none else v.toInt?.map some) with
    | some c, some v => some (c, v)
    | _, _ => none
  | _ => none

def readRows (w : String) : Option (List Exec.Row) :=
  if w = "-" then some []
  else
    let rs := (w.splitOn ";").mapM (fun r => if r = "_" then some [] else (r.splitOn ",").mapM readCell)
    rs.map (fun cells => (List.range cells.length).zip cells |>.map (fun p => ({ id := p.1, cells := p.2 } : Exec.Row)))

def showItems (tag : String) (xs : List Nat) : String := tag ++ " " ++ showNats xs

def parseStep (_ : Unit) (line : String) : Unit × String :=
  let bad := ((), "bad-op")
  match words line with
  | ["xsel", agg, order, limit, offset, rows] =>
      match (if agg = "0" then some false else if agg = "1" then some true else none),
            readOrder order, readClause limit, readClause offset, readRows rows with
      | some a, some o, some l, some f, some rs =>
        -- aggregate selects: the harness sends the aggregate rows themselves as `rows`
        ((), showItems "rows" ((Exec.execSelect { aggregate := a, order := o, limit := l, offset := f } rs rs).map (·.id)))
      | _, _, _, _, _ => bad
  | ["insrows", schema, cols, tuples] =>
      -- INSERT … VALUES: columns and values are opaque words; `n` is NULL (shown like an absent cell)
      let sch := schema.splitOn ","
      let cl : Option (List String) := if cols = "-" then none else some (cols.splitOn ",")
      let tps := if tuples = "-" then [] else (tuples.splitOn ";").map (fun t => if t = "_" then [] else t.splitOn ",")
      let showRow (m : Insert.RowMap String String) : String :=
        let cs := (Insert.cells sch m).filter (fun p => p.2 ≠ "n")
        if cs.isEmpty then "_" else ",".intercalate (cs.map (fun p => p.1 ++ "=" ++ p.2))
      let rows := Insert.execInsert sch cl tps
      ((), "rows " ++ (if rows.isEmpty then "-" else ";".intercalate (rows.map showRow)))
  | ["xlist", limit, offset, n] =>
      match readClause limit, readClause offset, n.toNat? with
      | some l, some f, some n =>
        (match Exec.execList l f (List.range n) with
          | some r => ((), showItems "items" r) | none => ((), "error"))
      | _, _, _ => bad
  | ["xtake", limit, n] =>
      match readClause limit, n.toNat? with
      | some l, some n =>
        (match Exec.execTake l (List.range n) with
          | some r => ((), showItems "items" r) | none => ((), "error"))
      | _, _ => bad
  | "full" :: mode :: ws => match readMode mode, ws.mapM readFTok with
      | some md, some ts => ((), showFullRes ts.length (Full.parse md ts)) | _, _ => bad
  | "fprint" :: mode :: ws => match fextraOf mode, readFTree ws with
      | some x, some e => ((), " ".intercalate ((Full.printWith x e).map showFTok)) | _, _ => bad
  | "fframes" :: mode :: ws => match fextraOf mode, readFTree ws with
      | some x, some e => ((), toString (Full.framesWith x e)) | _, _ => bad
  | "fnormal" :: mode :: ws => match readMode mode, ws.mapM readFTok with
      | some md, some ts => (match Full.parse md ts with
          | .ok e => ((), "ok " ++ " ".intercalate ((Full.printMin e).map showFTok))
          | r => ((), showFullRes ts.length r))
      | _, _ => bad
  | "fsexp" :: ws => match readFTree ws with
      | some e => ((), "ok " ++ showFE e) | none => bad
  | "clause" :: ws => match ws.mapM readCTok with
      | some ts => ((), showClauseRes ts.length (Clause.parse ts)) | none => bad
  | "ptext" :: mode :: ws => match readMode mode, ws.mapM readCh with
      | some md, some cs => ((), showTextRes (Text.parseText md cs)) | _, _ => bad
  | "lex" :: ws => match ws.mapM readCh with
      | some cs => ((), " ".intercalate ((Lex.lex cs).map showLexTok)) | none => bad
  | "strval" :: q :: ws => match q.toNat?, ws.mapM (·.toNat?) with
      | some q, some b => (match Lex.litValue q b with
          | some v => ((), showItems "value" v) | none => ((), "none"))
      | _, _ => bad
  | "strrender" :: q :: ws => match q.toNat?, ws.mapM (·.toNat?) with
      | some q, some v => ((), showItems "body" (Lex.litRender q v)) | _, _ => bad
  | "nest" :: ws => match ws.mapM readNTok with
      | some ts => ((), showNestRes ts.length (Nest.parseStmt ts)) | none => bad
  | "sel" :: ws => match ws.mapM readSTok with
      | some ts => ((), showSelRes ts.length (Sel.parseStmt ts)) | none => bad
  | "parse" :: ws => match ws.mapM readTok with
      | some ts => ((), showRes ts.length (parse ts)) | none => bad
  | "parse_nolimit" :: ws => match ws.mapM readTok with
      | some ts => ((), showRes ts.length (parseNoLimit ts)) | none => bad
  | "normal" :: ws => match ws.mapM readTok with
      | some ts => (match parse ts with
          | .ok e => ((), "ok " ++ " ".intercalate ((printMin e).map showTok))
          | r => ((), showRes ts.length r))
      | none => bad
  | "print" :: mode :: ws => match extraOf mode, readTree ws with
      | some x, some e => ((), " ".intercalate ((printWith x e).map showTok)) | _, _ => bad
  | "frames" :: mode :: ws => match extraOf mode, readTree ws with
      | some x, some e => ((), toString (framesWith x e)) | _, _ => bad
  | _ => bad

def main : IO Unit := run parseStep ()
