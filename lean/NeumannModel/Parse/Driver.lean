import NeumannModel.Common.Proto
import NeumannModel.Parse.Model
import NeumannModel.Parse.Select
import NeumannModel.Parse.Nest
/-
  Line-protocol driver for the expression-parser model (C15).

  tokens  : `a<n>` | `(` | `)` | add sub mul div mod eq ne lt le gt ge and or concat bitand bitor
            bitxor shl shr | `not` | `bang` | `tilde` | `other`
  trees   : polish notation  `a<n>` | `wild` | `unit` | `un <neg|not|bitnot> T` | `bin <op> T T`
  answers : S-expression `a<n>` | `*` | `()` | `(neg E)` | `(add L R)` …, prefixed `ok `;
            errors `err too_deep <tokidx>` | `err eof <expected>` | `err unexpected <expected> <tokidx>`

  ops     : parse <tok>*            model of neumann_parser::parse_expr AND of the statement parser's
                                    expression loop (both MAX_DEPTH = 64 since /repo 59c7cb56)
            parse_nolimit <tok>*    PRE-FIX statement parser: the same Pratt loop without depth counter
                                    (asked only by the harness's start-up probe, for contrast)
            print  min|full|all T   token list of the printer the theorems speak about
            frames min|full|all T   nesting depth the real parser needs for that print
            normal <tok>*           printMin of the parse (Props.parse_normal_form), or the error
            sel <stok>*             model of neumann_parser::parse on the SELECT skeleton (Select.lean):
                                    stok = `select` `*` `from` `(` `)` `t<n>` `where` `exists` `other`;
                                    answers `ok T` with T = `(q SRC WHR)`, SRC = `-` | `t<n>` | T,
                                    WHR = `-` | T; `err too_deep <tokidx>` | `err eof <expected>` |
                                    `err unexpected <expected> <tokidx>` (expected = `(` `)` `SELECT`
                                    `identifier` `expression`) | `outside` (input leaves the fragment)
            nest <ntok>*            model of neumann_parser::parse on the expression × subquery fragment
                                    (Nest.lean): ntok = `select` `from` `where` `exists` `in` `(` `)` `n<k>`
                                    (integer literal) `c<k>` (identifier) add sub mul … `not` `bang` `tilde`
                                    `other`; answers `ok <frames> <sdepth> Q` with Q = `(q E SRC WHR)`,
                                    SRC = `-` | `c<k>` | Q, WHR = `-` | E, E = `n<k>` | `c<k>` | `*` | `()` |
                                    `(neg E)` | `(add L R)` | `(exists Q)` | `(in E Q)` | `(notin E Q)` |
                                    `(in E)` | `(in E V)` …; errors / `outside` as for `sel`
-/
open Neumann Neumann.Proto Neumann.Parse

def binOps : List (String × BinOp) :=
  [("add", .add), ("sub", .sub), ("mul", .mul), ("div", .div), ("mod", .mod), ("eq", .eq), ("ne", .ne),
   ("lt", .lt), ("le", .le), ("gt", .gt), ("ge", .ge), ("and", .and), ("or", .or), ("concat", .concat),
   ("bitand", .bitAnd), ("bitor", .bitOr), ("bitxor", .bitXor), ("shl", .shl), ("shr", .shr)]

def binName (o : BinOp) : String :=
  match binOps.find? (fun p => p.2 == o) with
  | some p => p.1
  | none => "?"

def readBin (s : String) : Option BinOp := (binOps.find? (fun p => p.1 == s)).map (·.2)

def unName : UnOp → String
  | .neg => "neg" | .not => "not" | .bitNot => "bitnot"

def readUn : String → Option UnOp
  | "neg" => some .neg | "not" => some .not | "bitnot" => some .bitNot | _ => none

def readAtom (s : String) : Option Nat :=
  match s.toList with
  | 'a' :: ds => if ds.isEmpty then none else (String.ofList ds).toNat?
  | _ => none

def readTok (s : String) : Option Tok :=
  match s with
  | "(" => some .lparen
  | ")" => some .rparen
  | "not" => some .notKw
  | "bang" => some .bang
  | "tilde" => some .tilde
  | "other" => some .other
  | _ => match readBin s with
    | some o => some (.op o)
    | none => (readAtom s).map Tok.atom

def showTok : Tok → String
  | .atom n => s!"a{n}"
  | .op o => binName o
  | .lparen => "("
  | .rparen => ")"
  | .notKw => "not"
  | .bang => "bang"
  | .tilde => "tilde"
  | .other => "other"

def showExpr : Expr → String
  | .atom n => s!"a{n}"
  | .wildcard => "*"
  | .unit => "()"
  | .un u e => "(" ++ unName u ++ " " ++ showExpr e ++ ")"
  | .bin l o r => "(" ++ binName o ++ " " ++ showExpr l ++ " " ++ showExpr r ++ ")"

def showExpect : Expect → String
  | .expression => "expression" | .rparen => ")" | .endOfExpr => "end_of_expression"

def showRes (n : Nat) : Except PErr Expr → String
  | .ok e => "ok " ++ showExpr e
  | .error (.tooDeep rem) => s!"err too_deep {n - rem}"
  | .error (.eof x) => "err eof " ++ showExpect x
  | .error (.unexpected x rem) => s!"err unexpected {showExpect x} {n - rem}"
  | .error .fuel => "err fuel"

/-- polish-notation reader -/
def readExpr : Nat → List String → Option (Expr × List String)
  | 0, _ => none
  | _, [] => none
  | _, "wild" :: r => some (.wildcard, r)
  | _, "unit" :: r => some (.unit, r)
  | f+1, "un" :: u :: r =>
    match readUn u, readExpr f r with
    | some u, some (e, r') => some (.un u e, r')
    | _, _ => none
  | f+1, "bin" :: o :: r =>
    match readBin o, readExpr f r with
    | some o, some (l, r1) =>
      (match readExpr f r1 with
       | some (rr, r2) => some (.bin l o rr, r2)
       | none => none)
    | _, _ => none
  | _, w :: r => (readAtom w).map (fun n => (Expr.atom n, r))

def readTree (ws : List String) : Option Expr :=
  match readExpr (ws.length + 1) ws with
  | some (e, []) => some e
  | _ => none

def extraOf : String → Option (Expr → Bool)
  | "min" => some (fun _ => false)
  | "full" => some isCompound
  | "all" => some (fun _ => true)
  | _ => none

/-! ### SELECT skeleton (`Neumann.Parse.Sel`) -/

def readTbl (s : String) : Option Nat :=
  match s.toList with
  | 't' :: ds => if ds.isEmpty then none else (String.ofList ds).toNat?
  | _ => none

def readSTok (s : String) : Option Sel.STok :=
  match s with
  | "select" => some .select
  | "*" => some .star
  | "from" => some .fromKw
  | "(" => some .lparen
  | ")" => some .rparen
  | "where" => some .whereKw
  | "exists" => some .existsKw
  | "other" => some .other
  | _ => (readTbl s).map Sel.STok.tbl

def showSrcOpt : Option Nat → String
  | none => "-"
  | some n => s!"t{n}"

def showQ : Sel.Q → String
  | .leaf o => "(q " ++ showSrcOpt o ++ " -)"
  | .fromSub s => "(q " ++ showQ s ++ " -)"
  | .whereSub o w => "(q " ++ showSrcOpt o ++ " " ++ showQ w ++ ")"
  | .both s w => "(q " ++ showQ s ++ " " ++ showQ w ++ ")"

def showSExpect : Sel.SExpect → String
  | .expression => "expression" | .lparen => "(" | .rparen => ")" | .select => "SELECT"
  | .identifier => "identifier"

def showSelRes (n : Nat) : Sel.Res Sel.Q → String
  | .ok q => "ok " ++ showQ q
  | .error (.tooDeep rem) => s!"err too_deep {n - rem}"
  | .error (.eof x) => "err eof " ++ showSExpect x
  | .error (.unexpected x rem) => s!"err unexpected {showSExpect x} {n - rem}"
  | .error .fuel => "err fuel"
  | .outside => "outside"

/-! ### expression × subquery fragment (`Neumann.Parse.Nest`) -/

def readPfx (c : Char) (s : String) : Option Nat :=
  match s.toList with
  | c' :: ds => if c' == c && !ds.isEmpty then (String.ofList ds).toNat? else none
  | _ => none

def readNTok (s : String) : Option Nest.NTok :=
  match s with
  | "select" => some .select
  | "from" => some .fromKw
  | "where" => some .whereKw
  | "exists" => some .existsKw
  | "in" => some .inKw
  | "(" => some .lparen
  | ")" => some .rparen
  | "not" => some .notKw
  | "bang" => some .bang
  | "tilde" => some .tilde
  | "other" => some .other
  | _ => match readBin s with
    | some o => some (.op o)
    | none => match readPfx 'n' s with
      | some k => some (.num k)
      | none => (readPfx 'c' s).map Nest.NTok.id

mutual
def showNE : Nest.E → String
  | .num n => s!"n{n}"
  | .col n => s!"c{n}"
  | .wildcard => "*"
  | .unit => "()"
  | .un u e => "(" ++ unName u ++ " " ++ showNE e ++ ")"
  | .bin l o r => "(" ++ binName o ++ " " ++ showNE l ++ " " ++ showNE r ++ ")"
  | .exists q => "(exists " ++ showNQ q ++ ")"
  | .inSub e neg q => (if neg then "(notin " else "(in ") ++ showNE e ++ " " ++ showNQ q ++ ")"
  | .inNil e neg => (if neg then "(notin " else "(in ") ++ showNE e ++ ")"
  | .inOne e neg v => (if neg then "(notin " else "(in ") ++ showNE e ++ " " ++ showNE v ++ ")"
def showNQ : Nest.Q → String
  | .mk item src whr => "(q " ++ showNE item ++ " " ++ showNSrc src ++ " " ++ showNWhr whr ++ ")"
def showNSrc : Nest.Src → String
  | .none => "-"
  | .tbl n => s!"c{n}"
  | .sub q => showNQ q
def showNWhr : Nest.Whr → String
  | .none => "-"
  | .cond e => showNE e
end

def showNestRes (n : Nat) : Sel.Res Nest.Q → String
  | .ok q => s!"ok {q.frames} {q.sdepth} " ++ showNQ q
  | .error (.tooDeep rem) => s!"err too_deep {n - rem}"
  | .error (.eof x) => "err eof " ++ showSExpect x
  | .error (.unexpected x rem) => s!"err unexpected {showSExpect x} {n - rem}"
  | .error .fuel => "err fuel"
  | .outside => "outside"

def parseStep (_ : Unit) (line : String) : Unit × String :=
  let bad := ((), "bad-op")
  match words line with
  | "nest" :: ws => match ws.mapM readNTok with
      | some ts => ((), showNestRes ts.length (Nest.parseStmt ts)) | none => bad
  | "sel" :: ws => match ws.mapM readSTok with
      | some ts => ((), showSelRes ts.length (Sel.parseStmt ts)) | none => bad
  | "parse" :: ws => match ws.mapM readTok with
      | some ts => ((), showRes ts.length (parse ts)) | none => bad
  | "parse_nolimit" :: ws => match ws.mapM readTok with
      | some ts => ((), showRes ts.length (parseNoLimit ts)) | none => bad
  | "normal" :: ws => match ws.mapM readTok with
      | some ts => (match parse ts with
          | .ok e => ((), "ok " ++ " ".intercalate ((printMin e).map showTok))
          | r => ((), showRes ts.length r))
      | none => bad
  | "print" :: mode :: ws => match extraOf mode, readTree ws with
      | some x, some e => ((), " ".intercalate ((printWith x e).map showTok)) | _, _ => bad
  | "frames" :: mode :: ws => match extraOf mode, readTree ws with
      | some x, some e => ((), toString (framesWith x e)) | _, _ => bad
  | _ => bad

def main : IO Unit := run parseStep ()
