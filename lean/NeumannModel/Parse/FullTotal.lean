import NeumannModel.Parse.FullLemmas
/-
  C15 — totality (a step measure), error positions and the depth bound of the complete expression
  grammar model (`Parse/Full.lean`).  Core Lean only (no Mathlib).
-/
namespace Neumann.Parse.Full

/-! ### a measure that every step decreases -/

def mu (st : St) : Nat :=
  match st.ctl with
  | .start _ => 4 * st.ts.length + 2 * st.stk.length + 2
  | .loop _ _ _ => 4 * st.ts.length + 2 * st.stk.length + 1
  | .ret _ => 4 * st.ts.length + 2 * st.stk.length
  | .done _ => 0

def isDone (st : St) : Prop := ∃ r, st.ctl = .done r

/-- the run is over, or the measure is below `b` -/
def Good (b : Nat) (st : St) : Prop := isDone st ∨ mu st < b

theorem good_halt (b : Nat) (r : Res) : Good b (halt r) := Or.inl ⟨r, rfl⟩
theorem good_fail (b : Nat) (e : Err) : Good b (fail e) := Or.inl ⟨_, rfl⟩

theorem good_start {b m : Nat} {S : List Frame} {ts : List Tok}
    (h : 4 * ts.length + 2 * S.length + 2 < b) : Good b ⟨.start m, S, ts⟩ := Or.inr (by simpa [mu] using h)
theorem good_loop {b m s : Nat} {e : E} {S : List Frame} {ts : List Tok}
    (h : 4 * ts.length + 2 * S.length + 1 < b) : Good b ⟨.loop m s e, S, ts⟩ := Or.inr (by simpa [mu] using h)
theorem good_ret {b : Nat} {e : E} {S : List Frame} {ts : List Tok}
    (h : 4 * ts.length + 2 * S.length < b) : Good b ⟨.ret e, S, ts⟩ := Or.inr (by simpa [mu] using h)

/-- elimination for `expect`: either the error, or the continuation on the rest -/
theorem expect_elim {P : St → Prop} {t : Tok} {x : Expect} {ts : List Tok} {k : List Tok → St}
    (hf : ∀ e, P (fail e)) (hk : ∀ r, ts = t :: r → P (k r)) : P (expect t x ts k) := by
  cases ts with
  | nil => exact hf _
  | cons c r =>
    simp only [expect]
    split
    · next h => exact hk r (by rw [h])
    · exact hf _

theorem eat_len (t : Tok) (ts : List Tok) : (eat t ts).2.length ≤ ts.length := by
  cases ts with
  | nil => simp [eat]
  | cons c r => simp only [eat]; split <;> simp

theorem head_tail_len {t : Tok} {ts : List Tok} (h : ts.head? = some t) : ts.tail.length + 1 = ts.length := by
  cases ts with
  | nil => simp at h
  | cons c r => simp

theorem callFrom_good {b : Nat} (f : Callee) (m s : Nat) (S : List Frame) (r : List Tok)
    (h : 4 * r.length + 2 * S.length + 2 ≤ b) : Good b (callFrom f m s S r) := by
  unfold callFrom
  refine expect_elim (good_fail b) fun r1 hr => ?_
  have hl := eat_len .distinctKw r1
  have hr1 : r1.length + 1 = r.length := by rw [hr]; simp
  simp only
  split
  · next hh =>
    have := head_tail_len hh
    exact good_loop (by omega)
  · exact good_start (by simp only [List.length_cons]; omega)

theorem caseNext_good {b : Nat} (operand : OE) (acc : WL) (m s : Nat) (S : List Frame) (ts : List Tok)
    (h : 4 * ts.length + 2 * S.length + 1 ≤ b) : Good b (caseNext operand acc m s S ts) := by
  unfold caseNext
  split
  · next hh =>
    have := head_tail_len hh
    exact good_start (by simp only [List.length_cons]; omega)
  · cases acc with
    | nil => exact good_fail b _
    | cons c r rest =>
      simp only
      split
      · next hh =>
        have := head_tail_len hh
        exact good_start (by simp only [List.length_cons]; omega)
      · refine expect_elim (good_fail b) fun r' hr => ?_
        have : r'.length + 1 = ts.length := by rw [hr]; simp
        exact good_loop (by omega)

theorem stepStart_good (mode : Mode) (m : Nat) (S : List Frame) (ts : List Tok) :
    Good (4 * ts.length + 2 * S.length + 2) (stepStart mode m S ts) := by
  unfold stepStart
  split
  · exact good_fail _ _
  · cases ts with
    | nil => exact good_fail _ _
    | cons t r =>
      simp only [List.length_cons]
      cases prefixArm t with
      | atom e => exact good_loop (by omega)
      | ident n =>
        simp only
        split
        · exact callFrom_good _ _ _ _ _ (by omega)
        · exact good_loop (by omega)
      | agg n => exact callFrom_good _ _ _ _ _ (by omega)
      | wildcard => exact good_loop (by omega)
      | paren =>
        simp only
        split
        · next hh => have := head_tail_len hh; exact good_loop (by omega)
        · exact good_start (by simp only [List.length_cons]; omega)
      | bracket =>
        simp only
        split
        · next hh => have := head_tail_len hh; exact good_loop (by omega)
        · exact good_start (by simp only [List.length_cons]; omega)
      | unary u => exact good_start (by simp only [List.length_cons]; omega)
      | caseArm =>
        simp only
        split
        · exact caseNext_good _ _ _ _ _ _ (by omega)
        · exact good_start (by simp only [List.length_cons]; omega)
      | existsArm =>
        cases mode with
        | stmt => exact good_halt _ _
        | expr => exact expect_elim (good_fail _) fun r' _ => good_fail _ _
      | castArm => cases mode <;> first | exact good_halt _ _ | exact good_fail _ _
      | unexpected => exact good_fail _ _

theorem loopArm_len (ts : List Tok) :
    match loopArm ts with
    | .inArm _ r => r.length + 1 ≤ ts.length
    | .betArm _ r => r.length + 1 ≤ ts.length
    | .likeArm _ r => r.length + 1 ≤ ts.length
    | .isArm r => r.length + 1 ≤ ts.length
    | .dotArm r => r.length + 1 ≤ ts.length
    | .binary _ r => r.length + 1 ≤ ts.length
    | .stop => True := by
  cases h : loopArm ts <;> simp only <;> (try trivial) <;>
    (unfold loopArm at h; split at h <;> simp_all <;> omega)

theorem stepLoop_good (mode : Mode) (m s : Nat) (lhs : E) (S : List Frame) (ts : List Tok) :
    Good (4 * ts.length + 2 * S.length + 1) (stepLoop mode m s lhs S ts) := by
  unfold stepLoop
  cases ha : loopArm ts with
  | stop => exact good_ret (by omega)
  | binary o r =>
    have := loopArm_len ts; rw [ha] at this; simp only at this
    simp only
    split
    · exact good_ret (by omega)
    · exact good_start (by simp only [List.length_cons]; omega)
  | isArm r =>
    have := loopArm_len ts; rw [ha] at this; simp only at this
    have hl := eat_len .notKw r
    simp only
    refine expect_elim (good_fail _) fun r' hr => ?_
    have : r'.length + 1 = (eat Tok.notKw r).2.length := by rw [hr]; simp
    exact good_loop (by omega)
  | inArm n r =>
    have := loopArm_len ts; rw [ha] at this; simp only at this
    simp only
    refine expect_elim (good_fail _) fun r1 hr => ?_
    have : r1.length + 1 = r.length := by rw [hr]; simp
    split
    · exact good_halt _ _
    · split
      · next hh => have := head_tail_len hh; exact good_loop (by omega)
      · exact good_start (by simp only [List.length_cons]; omega)
  | betArm n r =>
    have := loopArm_len ts; rw [ha] at this; simp only at this
    exact good_start (by simp only [List.length_cons]; omega)
  | likeArm n r =>
    have := loopArm_len ts; rw [ha] at this; simp only at this
    exact good_start (by simp only [List.length_cons]; omega)
  | dotArm r =>
    have := loopArm_len ts; rw [ha] at this; simp only at this
    simp only
    cases r with
    | nil => exact good_fail _ _
    | cons t r1 =>
      simp only [List.length_cons] at this
      cases t <;> simp only <;> first | exact good_fail _ _ | skip
      · exact good_loop (by omega)
      · next o =>
        cases o <;> simp only <;> first | exact good_fail _ _ | skip
        cases lhs <;> simp only <;> first | exact good_fail _ _ | exact good_loop (by omega)

theorem stepRet_good (e : E) (f : Frame) (S : List Frame) (ts : List Tok) :
    Good (4 * ts.length + 2 * (S.length + 1)) (stepRet e f S ts) := by
  unfold stepRet
  cases f.k with
  | unary u => exact good_loop (by omega)
  | paren =>
    simp only
    split
    · next hh => have := head_tail_len hh; exact good_start (by simp only [List.length_cons]; omega)
    · refine expect_elim (good_fail _) fun r hr => ?_
      have : r.length + 1 = ts.length := by rw [hr]; simp
      exact good_loop (by omega)
  | list lk acc =>
    simp only
    split
    · next hh => have := head_tail_len hh; exact good_start (by simp only [List.length_cons]; omega)
    · refine expect_elim (good_fail _) fun r hr => ?_
      have : r.length + 1 = ts.length := by rw [hr]; simp
      exact good_loop (by omega)
  | binR l o => exact good_loop (by omega)
  | betLo subj neg =>
    refine expect_elim (good_fail _) fun r hr => ?_
    have : r.length + 1 = ts.length := by rw [hr]; simp
    exact good_start (by simp only [List.length_cons]; omega)
  | betHi subj neg lo => exact good_loop (by omega)
  | likeP subj neg => exact good_loop (by omega)
  | caseOperand => exact caseNext_good _ _ _ _ _ _ (by omega)
  | caseCond operand acc =>
    refine expect_elim (good_fail _) fun r hr => ?_
    have : r.length + 1 = ts.length := by rw [hr]; simp
    exact good_start (by simp only [List.length_cons]; omega)
  | caseRes operand acc c => exact caseNext_good _ _ _ _ _ _ (by omega)
  | caseElse operand c r rest =>
    refine expect_elim (good_fail _) fun r' hr => ?_
    have : r'.length + 1 = ts.length := by rw [hr]; simp
    exact good_loop (by omega)

theorem stepTop_done (mode : Mode) (e : E) (ts : List Tok) : isDone (stepTop mode e ts) := by
  unfold stepTop
  cases mode with
  | stmt => exact ⟨_, rfl⟩
  | expr => cases ts <;> exact ⟨_, rfl⟩

/-- every step of a run that is not over ends it or decreases the measure -/
theorem step_good (mode : Mode) (st : St) (h : ¬ isDone st) : Good (mu st) (step mode st) := by
  obtain ⟨ctl, S, ts⟩ := st
  cases ctl with
  | done r => exact absurd ⟨r, rfl⟩ h
  | start m => exact stepStart_good mode m S ts
  | loop m s lhs => exact stepLoop_good mode m s lhs S ts
  | ret e =>
    cases S with
    | nil => exact Or.inl (stepTop_done mode e ts)
    | cons f S =>
      have := stepRet_good e f S ts
      simpa [step, mu] using this

theorem run_isDone (mode : Mode) {st : St} (h : isDone st) (n : Nat) : run mode n st = st := by
  obtain ⟨ctl, S, ts⟩ := st
  obtain ⟨r, hr⟩ := h
  simp only at hr
  subst hr
  exact run_done mode n r S ts

theorem run_reaches_done (mode : Mode) : ∀ (n : Nat) (st : St), mu st < n → isDone (run mode n st) := by
  intro n
  induction n with
  | zero => intro st h; omega
  | succ n ih =>
    intro st h
    by_cases hd : isDone st
    · rw [run_isDone mode hd]; exact hd
    · simp only [run]
      rcases step_good mode st hd with h2 | h2
      · rw [run_isDone mode h2]; exact h2
      · exact ih _ (by omega)

theorem mu_init (ts : List Tok) : mu (init ts) < fuelFor ts := by
  simp [mu, init, fuelFor]

/-- a finished run stays what it is: any two runs that are both over agree -/
theorem run_done_unique (mode : Mode) {st : St} {a b : Nat} (ha : isDone (run mode a st)) (hb : isDone (run mode b st)) :
    run mode a st = run mode b st := by
  have h1 : run mode (a + b) st = run mode a st := by
    rw [run_add, run_isDone mode ha]
  have h2 : run mode (a + b) st = run mode b st := by
    rw [Nat.add_comm, run_add, run_isDone mode hb]
  rw [← h1, h2]

/-! ### error positions and the depth bound: an invariant of the run -/

/-- the position an error carries lies inside an input of `n` tokens (`rem` tokens from the end;
    "unexpected token" always points at a token, the others may point at the end of input) -/
def Err.posOk (n : Nat) : Err → Prop
  | .tooDeep rem => rem ≤ n
  | .unexpected _ rem => 1 ≤ rem ∧ rem ≤ n
  | .invalid _ rem => rem ≤ n
  | .eof _ => True
  | .fuel => False

def Res.posOk (n : Nat) : Res → Prop
  | .error e => e.posOk n
  | _ => True

/-- what every reachable state of a run on `n` tokens satisfies: nothing refers to a position
    outside the input, and never more than `MAX_DEPTH` frames are active -/
def Inv (n : Nat) (st : St) : Prop :=
  st.ts.length ≤ n ∧ (∀ f ∈ st.stk, f.s ≤ n) ∧ st.stk.length ≤ MAX_DEPTH ∧
  match st.ctl with
  | .loop _ s _ => s ≤ n ∧ st.stk.length < MAX_DEPTH
  | .done r => r.posOk n
  | _ => True

theorem inv_halt {n : Nat} {r : Res} (h : r.posOk n) : Inv n (halt r) := by
  refine ⟨by simp [halt], by simp [halt], by simp [halt], ?_⟩
  simpa [halt] using h

theorem inv_fail {n : Nat} {e : Err} (h : e.posOk n) : Inv n (fail e) := inv_halt h

theorem inv_start {n m : Nat} {S : List Frame} {ts : List Tok} (h1 : ts.length ≤ n) (h2 : ∀ f ∈ S, f.s ≤ n)
    (h3 : S.length ≤ MAX_DEPTH) : Inv n ⟨.start m, S, ts⟩ := ⟨h1, h2, h3, trivial⟩

theorem inv_ret {n : Nat} {e : E} {S : List Frame} {ts : List Tok} (h1 : ts.length ≤ n) (h2 : ∀ f ∈ S, f.s ≤ n)
    (h3 : S.length ≤ MAX_DEPTH) : Inv n ⟨.ret e, S, ts⟩ := ⟨h1, h2, h3, trivial⟩

theorem inv_loop {n m s : Nat} {e : E} {S : List Frame} {ts : List Tok} (h1 : ts.length ≤ n)
    (h2 : ∀ f ∈ S, f.s ≤ n) (h3 : S.length < MAX_DEPTH) (h4 : s ≤ n) : Inv n ⟨.loop m s e, S, ts⟩ :=
  ⟨h1, h2, Nat.le_of_lt h3, h4, h3⟩

theorem mem_push {n : Nat} {f : Frame} {S : List Frame} (hf : f.s ≤ n) (h : ∀ g ∈ S, g.s ≤ n) :
    ∀ g ∈ f :: S, g.s ≤ n := by
  intro g hg
  rcases List.mem_cons.1 hg with e | e
  · rw [e]; exact hf
  · exact h g e

/-- elimination for `expect` with the exact errors -/
theorem expect_elim2 {P : St → Prop} {t : Tok} {x : Expect} {ts : List Tok} {k : List Tok → St}
    (hf1 : P (fail (.eof x))) (hf2 : 1 ≤ ts.length → P (fail (.unexpected x ts.length)))
    (hk : ∀ r, ts = t :: r → P (k r)) : P (expect t x ts k) := by
  cases ts with
  | nil => exact hf1
  | cons c r =>
    simp only [expect]
    split
    · next h => exact hk r (by rw [h])
    · exact hf2 (by simp)

theorem callFrom_inv {n : Nat} (f : Callee) (m s : Nat) (S : List Frame) (r : List Tok)
    (h1 : r.length ≤ n) (h2 : ∀ g ∈ S, g.s ≤ n) (h3 : S.length < MAX_DEPTH) (h4 : s ≤ n) :
    Inv n (callFrom f m s S r) := by
  unfold callFrom
  refine expect_elim2 (inv_fail trivial) (fun h => inv_fail ⟨h, h1⟩) fun r1 hr => ?_
  have hl := eat_len .distinctKw r1
  have hr1 : r1.length + 1 = r.length := by rw [hr]; simp
  simp only
  split
  · exact inv_loop (by simp only [List.length_tail]; omega) h2 h3 h4
  · exact inv_start (by omega) (mem_push h4 h2) (by simp only [List.length_cons]; omega)

theorem caseNext_inv {n : Nat} (operand : OE) (acc : WL) (m s : Nat) (S : List Frame) (ts : List Tok)
    (h1 : ts.length ≤ n) (h2 : ∀ g ∈ S, g.s ≤ n) (h3 : S.length < MAX_DEPTH) (h4 : s ≤ n) :
    Inv n (caseNext operand acc m s S ts) := by
  unfold caseNext
  split
  · exact inv_start (by simp only [List.length_tail]; omega) (mem_push h4 h2)
      (by simp only [List.length_cons]; omega)
  · cases acc with
    | nil => exact inv_fail h1
    | cons c r rest =>
      simp only
      split
      · exact inv_start (by simp only [List.length_tail]; omega) (mem_push h4 h2)
          (by simp only [List.length_cons]; omega)
      · refine expect_elim2 (inv_fail trivial) (fun h => inv_fail ⟨h, h1⟩) fun r' hr => ?_
        have : r'.length + 1 = ts.length := by rw [hr]; simp
        exact inv_loop (by omega) h2 h3 h4

theorem stepStart_inv {n : Nat} (mode : Mode) (m : Nat) (S : List Frame) (ts : List Tok)
    (h1 : ts.length ≤ n) (h2 : ∀ g ∈ S, g.s ≤ n) : Inv n (stepStart mode m S ts) := by
  unfold stepStart
  split
  · exact inv_fail h1
  · next hd =>
    have hd' : S.length < MAX_DEPTH := by omega
    cases ts with
    | nil => exact inv_fail trivial
    | cons t r =>
      simp only [List.length_cons] at h1 ⊢
      have hr : r.length ≤ n := by omega
      cases prefixArm t with
      | atom e => exact inv_loop hr h2 hd' h1
      | ident n' =>
        simp only
        split
        · exact callFrom_inv _ _ _ _ _ hr h2 hd' h1
        · exact inv_loop hr h2 hd' h1
      | agg n' => exact callFrom_inv _ _ _ _ _ hr h2 hd' h1
      | wildcard => exact inv_loop hr h2 hd' h1
      | paren =>
        simp only
        split
        · exact inv_loop (by simp only [List.length_tail]; omega) h2 hd' h1
        · exact inv_start hr (mem_push h1 h2) (by simp only [List.length_cons]; omega)
      | bracket =>
        simp only
        split
        · exact inv_loop (by simp only [List.length_tail]; omega) h2 hd' h1
        · exact inv_start hr (mem_push h1 h2) (by simp only [List.length_cons]; omega)
      | unary u => exact inv_start hr (mem_push h1 h2) (by simp only [List.length_cons]; omega)
      | caseArm =>
        simp only
        split
        · exact caseNext_inv _ _ _ _ _ _ hr h2 hd' h1
        · exact inv_start hr (mem_push h1 h2) (by simp only [List.length_cons]; omega)
      | existsArm =>
        cases mode with
        | stmt => exact inv_halt trivial
        | expr =>
          refine expect_elim2 (inv_fail trivial) (fun h => inv_fail ⟨h, hr⟩) fun r' hr' => ?_
          have : r'.length + 1 = r.length := by rw [hr']; simp
          exact inv_fail (show r'.length + 1 ≤ n by omega)
      | castArm =>
        cases mode with
        | stmt => exact inv_halt trivial
        | expr => exact inv_fail ⟨by omega, h1⟩
      | unexpected => exact inv_fail ⟨by omega, h1⟩

theorem stepLoop_inv {n : Nat} (mode : Mode) (m s : Nat) (lhs : E) (S : List Frame) (ts : List Tok)
    (h1 : ts.length ≤ n) (h2 : ∀ g ∈ S, g.s ≤ n) (h3 : S.length < MAX_DEPTH) (h4 : s ≤ n) :
    Inv n (stepLoop mode m s lhs S ts) := by
  unfold stepLoop
  have hpush : ∀ k, ∀ g ∈ (⟨k, m, s⟩ : Frame) :: S, g.s ≤ n := fun k => mem_push h4 h2
  have hlen : ∀ k, ((⟨k, m, s⟩ : Frame) :: S).length ≤ MAX_DEPTH := fun k => by
    simp only [List.length_cons]; omega
  cases ha : loopArm ts with
  | stop => exact inv_ret h1 h2 (by omega)
  | binary o r =>
    have := loopArm_len ts; rw [ha] at this; simp only at this
    simp only
    split
    · exact inv_ret h1 h2 (by omega)
    · exact inv_start (by omega) (hpush _) (hlen _)
  | isArm r =>
    have := loopArm_len ts; rw [ha] at this; simp only at this
    have hl := eat_len .notKw r
    simp only
    refine expect_elim2 (inv_fail trivial) (fun h => inv_fail ⟨h, by omega⟩) fun r' hr => ?_
    have : r'.length + 1 = (eat Tok.notKw r).2.length := by rw [hr]; simp
    exact inv_loop (by omega) h2 h3 h4
  | inArm neg r =>
    have := loopArm_len ts; rw [ha] at this; simp only at this
    simp only
    refine expect_elim2 (inv_fail trivial) (fun h => inv_fail ⟨h, by omega⟩) fun r1 hr => ?_
    have : r1.length + 1 = r.length := by rw [hr]; simp
    split
    · exact inv_halt trivial
    · split
      · exact inv_loop (by simp only [List.length_tail]; omega) h2 h3 h4
      · exact inv_start (by omega) (hpush _) (hlen _)
  | betArm neg r =>
    have := loopArm_len ts; rw [ha] at this; simp only at this
    exact inv_start (by omega) (hpush _) (hlen _)
  | likeArm neg r =>
    have := loopArm_len ts; rw [ha] at this; simp only at this
    exact inv_start (by omega) (hpush _) (hlen _)
  | dotArm r =>
    have := loopArm_len ts; rw [ha] at this; simp only at this
    simp only
    cases r with
    | nil => exact inv_fail trivial
    | cons t r1 =>
      simp only [List.length_cons] at this
      have hu : Inv n (fail (.unexpected .identifier (t :: r1).length)) :=
        inv_fail ⟨by simp, by simp only [List.length_cons]; omega⟩
      cases t <;> simp only <;> first | exact hu | skip
      · exact inv_loop (by omega) h2 h3 h4
      · next o =>
        cases o <;> simp only <;> first | exact hu | skip
        cases lhs <;> simp only <;> first | exact inv_fail h4 | exact inv_loop (by omega) h2 h3 h4

theorem stepRet_inv {n : Nat} (e : E) (f : Frame) (S : List Frame) (ts : List Tok)
    (h1 : ts.length ≤ n) (h2 : ∀ g ∈ f :: S, g.s ≤ n) (h3 : (f :: S).length ≤ MAX_DEPTH) :
    Inv n (stepRet e f S ts) := by
  have hf : f.s ≤ n := h2 f (List.mem_cons_self ..)
  have hS : ∀ g ∈ S, g.s ≤ n := fun g hg => h2 g (List.mem_cons_of_mem _ hg)
  simp only [List.length_cons] at h3
  have hS3 : S.length < MAX_DEPTH := by omega
  have hpush : ∀ k, ∀ g ∈ (⟨k, f.m, f.s⟩ : Frame) :: S, g.s ≤ n := fun k => mem_push hf hS
  have hlen : ∀ k, ((⟨k, f.m, f.s⟩ : Frame) :: S).length ≤ MAX_DEPTH := fun k => by
    simp only [List.length_cons]; omega
  unfold stepRet
  cases f.k with
  | unary u => exact inv_loop h1 hS hS3 hf
  | paren =>
    simp only
    split
    · exact inv_start (by simp only [List.length_tail]; omega) (hpush _) (hlen _)
    · refine expect_elim2 (inv_fail trivial) (fun h => inv_fail ⟨h, h1⟩) fun r hr => ?_
      have : r.length + 1 = ts.length := by rw [hr]; simp
      exact inv_loop (by omega) hS hS3 hf
  | list lk acc =>
    simp only
    split
    · exact inv_start (by simp only [List.length_tail]; omega) (hpush _) (hlen _)
    · refine expect_elim2 (inv_fail trivial) (fun h => inv_fail ⟨h, h1⟩) fun r hr => ?_
      have : r.length + 1 = ts.length := by rw [hr]; simp
      exact inv_loop (by omega) hS hS3 hf
  | binR l o => exact inv_loop h1 hS hS3 hf
  | betLo subj neg =>
    refine expect_elim2 (inv_fail trivial) (fun h => inv_fail ⟨h, h1⟩) fun r hr => ?_
    have : r.length + 1 = ts.length := by rw [hr]; simp
    exact inv_start (by omega) (hpush _) (hlen _)
  | betHi subj neg lo => exact inv_loop h1 hS hS3 hf
  | likeP subj neg => exact inv_loop h1 hS hS3 hf
  | caseOperand => exact caseNext_inv _ _ _ _ _ _ h1 hS hS3 hf
  | caseCond operand acc =>
    refine expect_elim2 (inv_fail trivial) (fun h => inv_fail ⟨h, h1⟩) fun r hr => ?_
    have : r.length + 1 = ts.length := by rw [hr]; simp
    exact inv_start (by omega) (hpush _) (hlen _)
  | caseRes operand acc c => exact caseNext_inv _ _ _ _ _ _ h1 hS hS3 hf
  | caseElse operand c r rest =>
    refine expect_elim2 (inv_fail trivial) (fun h => inv_fail ⟨h, h1⟩) fun r' hr => ?_
    have : r'.length + 1 = ts.length := by rw [hr]; simp
    exact inv_loop (by omega) hS hS3 hf

theorem stepTop_inv {n : Nat} (mode : Mode) (e : E) (ts : List Tok) (h1 : ts.length ≤ n) :
    Inv n (stepTop mode e ts) := by
  unfold stepTop
  cases mode with
  | stmt => exact inv_halt trivial
  | expr =>
    cases ts with
    | nil => exact inv_halt trivial
    | cons t r => exact inv_fail ⟨by simp, h1⟩

theorem step_inv {n : Nat} (mode : Mode) (st : St) (h : Inv n st) : Inv n (step mode st) := by
  obtain ⟨ctl, S, ts⟩ := st
  obtain ⟨h1, h2, h3, h4⟩ := h
  simp only at h1 h2 h3 h4
  cases ctl with
  | done r => exact ⟨h1, h2, h3, h4⟩
  | start m => exact stepStart_inv mode m S ts h1 h2
  | loop m s lhs => exact stepLoop_inv mode m s lhs S ts h1 h2 h4.2 h4.1
  | ret e =>
    cases S with
    | nil => exact stepTop_inv mode e ts h1
    | cons f S => exact stepRet_inv e f S ts h1 h2 h3

theorem run_inv {n : Nat} (mode : Mode) : ∀ (k : Nat) (st : St), Inv n st → Inv n (run mode k st) := by
  intro k
  induction k with
  | zero => intro st h; exact h
  | succ k ih => intro st h; exact ih _ (step_inv mode st h)

theorem inv_init (ts : List Tok) : Inv ts.length (init ts) :=
  ⟨Nat.le_refl _, by simp [init], by simp [init], trivial⟩

/-- the final state of the run of `parse` is a finished one -/
theorem run_finished (mode : Mode) (ts : List Tok) : isDone (run mode (fuelFor ts) (init ts)) :=
  run_reaches_done mode _ _ (mu_init ts)

end Neumann.Parse.Full
