import NeumannModel.Parse.InsertLemmas
/-
  C15, third clause — property theorems for `INSERT … VALUES` with several tuples (`Parse/Insert.lean`).
  "Same effect as the equivalent direct engine calls": the statement performs one `RelationalEngine::insert`
  per tuple, and the row of a tuple is a function of the target column list and of THAT tuple — the first
  min(|columns|, |tuple|) columns carry the tuple's values, every other column has no entry (NULL in the
  table) — whatever tuples stand before or after it in the statement.
  ONLY property statements and their non-vacuity examples live here.
-/
namespace Neumann.Parse.Insert.Props

set_option linter.unusedSectionVars false

variable {C V : Type} [DecidableEq C]

/-! ### the property -/

/-- The rows of one statement are independent: whatever tuples stand before and after it, a tuple contributes
    exactly the row built from the target column list and itself, at its own position — the statement is the
    sequence of direct calls `insert(table, rowOf target tuple)`, one per tuple, in order. -/
theorem insert_rows_are_independent (schema : List C) (cols : Option (List C)) (pre post : List (List V)) (t : List V) :
    execInsert schema cols (pre ++ t :: post)
      = execInsert schema cols pre ++ rowOf (targetCols schema cols) t :: execInsert schema cols post := by
  unfold execInsert
  rw [execLoop_append]; rfl

/-- … in particular the row at the tuple's position does not depend on the other tuples -/
theorem insert_row_at_position (schema : List C) (cols : Option (List C)) (pre post : List (List V)) (t : List V) :
    (execInsert schema cols (pre ++ t :: post))[pre.length]? = some (rowOf (targetCols schema cols) t) := by
  rw [insert_rows_are_independent]
  have : (execInsert schema cols pre).length = pre.length := execLoop_length _ _
  rw [← this, List.getElem?_append_right (Nat.le_refl _)]; simp

/-- one engine call per tuple -/
theorem insert_one_row_per_tuple (schema : List C) (cols : Option (List C)) (tuples : List (List V)) :
    (execInsert schema cols tuples).length = tuples.length := execLoop_length _ _

/-- A column has an entry in a tuple's row exactly when the tuple supplies a value for it: the columns behind the
    tuple's length (trailing columns the tuple omits) and the columns outside the list are absent (NULL). -/
theorem insert_omitted_columns_are_absent (target : List C) (t : List V) (c : C) :
    get (rowOf target t) c = none ↔ c ∉ target.take t.length := by
  constructor
  · intro h hm
    have := get_fill_isSome_of_mem ([] : RowMap C V) target t c hm
    rw [rowOf] at h; rw [h] at this; simp at this
  · intro h
    rw [rowOf, get_fill_of_not_mem _ _ _ _ h]; rfl

/-- The i-th value of the tuple is the cell of the i-th target column (column lists without duplicates). -/
theorem insert_supplied_columns_carry_the_tuple_values (target : List C) (t : List V) (hn : target.Nodup)
    (i : Nat) (hc : i < target.length) (hv : i < t.length) : get (rowOf target t) target[i] = some t[i] :=
  get_fill_at [] target t hn i hc hv

/-- no column list: the values go to the table's columns in schema order; with a list: to the listed columns -/
theorem insert_target_columns (schema cs : List C) :
    targetCols schema none = schema ∧ targetCols schema (some cs) = cs := ⟨rfl, rfl⟩

-- non-vacuity: columns 0 1 2 = a b name; the second tuple omits two columns, the third one
example : (execInsert [0, 1, 2] none [[1, 10, 7], [2], [3, 30]]).map (cells [0, 1, 2])
    = [[(0, 1), (1, 10), (2, 7)], [(0, 2)], [(0, 3), (1, 30)]] := by decide
example : (execInsert [0, 1, 2] (some [0, 2, 1]) [[7, 5, 70], [8, 6]]).map (cells [0, 1, 2])
    = [[(0, 7), (1, 70), (2, 5)], [(0, 8), (2, 6)]] := by decide

/-- The variant that creates the map once and never clears it violates independence: in
    `INSERT INTO t VALUES (1, 10, 7), (2)` the second row inherits `b = 10, name = 7` of the first tuple. -/
theorem insert_rows_are_independent_fails_for_RowMapNotCleared_witness :
    (execInsertRowMapNotCleared [0, 1, 2] none [[1, 10, 7], [2]])[1]? ≠ some (rowOf [0, 1, 2] [2])
    ∧ ((execInsertRowMapNotCleared [0, 1, 2] none [[1, 10, 7], [2]]).map (cells [0, 1, 2])
        = [[(0, 1), (1, 10), (2, 7)], [(0, 2), (1, 10), (2, 7)]])
    ∧ ((execInsert [0, 1, 2] none [[1, 10, 7], [2]]).map (cells [0, 1, 2]) = [[(0, 1), (1, 10), (2, 7)], [(0, 2)]]) := by
  decide

/-- … with an explicit, permuted column list: `(a, name, b) VALUES (7, 5, 70), (8, 6)` -/
theorem insert_omitted_columns_are_absent_fails_for_RowMapNotCleared_witness :
    ∃ m, (execInsertRowMapNotCleared [0, 1, 2] (some [0, 2, 1]) [[7, 5, 70], [8, 6]])[1]? = some m
      ∧ (1 : Nat) ∉ [0, 2, 1].take [8, 6].length ∧ get m 1 = some 70 := by
  exact ⟨_, rfl, by decide, by decide⟩

end Neumann.Parse.Insert.Props
